package main

import (
	"fmt"
	"strconv"
	"strings"
	"time"

	sq1 "github.com/keep94/sqroot"
	sq2 "github.com/keep94/sqroot/v2"
	sq3 "github.com/keep94/sqroot/v3"
)

// A Positions script: comma separated tokens
//   a<p>      builder.Add(p)
//   r<s>:<e>  builder.AddRange(s, e)
//   b         builder.Build()           -> one result
//   u<e>      UpTo(e)                   -> one result
//   w<s>:<e>  Between(s, e)             -> one result
// result of a Build/UpTo/Between: "<s>..<e>_<s>..<e>;<End>" ("-" for no ranges)
// line: pos v<k> <script> => <res>|<res>|... ## <re-read of every result at the end>|...

type posVal struct {
	v  int
	p1 sq1.Positions
	p2 sq2.Positions
	p3 sq3.Positions
}

func (p posVal) String() string {
	var parts []string
	end := 0
	switch p.v {
	case 1:
		it := p.p1.Ranges()
		for pr, ok := it(); ok; pr, ok = it() {
			parts = append(parts, fmt.Sprintf("%d..%d", pr.Start, pr.End))
		}
		end = p.p1.End()
	case 2:
		it := p.p2.Ranges()
		for pr, ok := it(); ok; pr, ok = it() {
			parts = append(parts, fmt.Sprintf("%d..%d", pr.Start, pr.End))
		}
		end = p.p2.End()
	default:
		for pr := range p.p3.All() {
			parts = append(parts, fmt.Sprintf("%d..%d", pr.Start, pr.End))
		}
		// the deprecated Ranges() must agree with All()
		var parts2 []string
		it := p.p3.Ranges()
		for pr, ok := it(); ok; pr, ok = it() {
			parts2 = append(parts2, fmt.Sprintf("%d..%d", pr.Start, pr.End))
		}
		if strings.Join(parts, "_") != strings.Join(parts2, "_") {
			return "RANGES-ALL-MISMATCH"
		}
		end = p.p3.End()
	}
	s := "-"
	if len(parts) > 0 {
		s = strings.Join(parts, "_")
	}
	return fmt.Sprintf("%s;%d", s, end)
}

func runPosScript(v int, script string) string {
	var b1 sq1.PositionsBuilder
	var b2 sq2.PositionsBuilder
	var b3 sq3.PositionsBuilder
	var built []posVal
	var first []string
	if script != "-" {
		for _, tok := range strings.Split(script, ",") {
			arg := tok[1:]
			two := func() (int, int) {
				i := strings.Index(arg, ":")
				a, _ := strconv.Atoi(arg[:i])
				b, _ := strconv.Atoi(arg[i+1:])
				return a, b
			}
			one := func() int { a, _ := strconv.Atoi(arg); return a }
			var pv *posVal
			switch tok[0] {
			case 'a':
				switch v {
				case 1:
					b1.Add(one())
				case 2:
					b2.Add(one())
				default:
					b3.Add(one())
				}
			case 'r':
				s, e := two()
				switch v {
				case 1:
					b1.AddRange(s, e)
				case 2:
					b2.AddRange(s, e)
				default:
					b3.AddRange(s, e)
				}
			case 'b':
				switch v {
				case 1:
					pv = &posVal{v: 1, p1: b1.Build()}
				case 2:
					pv = &posVal{v: 2, p2: b2.Build()}
				default:
					pv = &posVal{v: 3, p3: b3.Build()}
				}
			case 'u':
				switch v {
				case 1:
					pv = &posVal{v: 1, p1: sq1.UpTo(one())}
				case 2:
					pv = &posVal{v: 2, p2: sq2.UpTo(one())}
				default:
					pv = &posVal{v: 3, p3: sq3.UpTo(one())}
				}
			case 'w':
				s, e := two()
				switch v {
				case 1:
					pv = &posVal{v: 1, p1: sq1.Between(s, e)}
				case 2:
					pv = &posVal{v: 2, p2: sq2.Between(s, e)}
				default:
					pv = &posVal{v: 3, p3: sq3.Between(s, e)}
				}
			}
			if pv != nil {
				built = append(built, *pv)
				first = append(first, pv.String())
			}
		}
	}
	var again []string
	for _, p := range built {
		again = append(again, p.String())
	}
	j := func(xs []string) string {
		if len(xs) == 0 {
			return "-"
		}
		return strings.Join(xs, "|")
	}
	return j(first) + " ## " + j(again)
}

func emitPosLine(e *emitter, v int, script string) {
	if e.exhausted() {
		return
	}
	res := guarded(20*time.Second, func() string { return runPosScript(v, script) })
	e.line("pos", fmt.Sprintf("v%d %s", v, script), res)
}

func posArg(r *rng) int {
	grid := []int{minInt, minInt + 1, -7, -2, -1, 0, 1, 2, 3, 4, 5, 6, 7, 8, 9, 10, 11, 12, 20, 50, 99, 100, 101, maxInt - 2, maxInt - 1, maxInt}
	if r.coin(85) {
		return grid[r.intn(len(grid))]
	}
	return r.rangeInt(-5, 40)
}

func randPosScript(r *rng, maxCalls int) string {
	n := r.intn(maxCalls + 1)
	var toks []string
	for i := 0; i < n; i++ {
		switch x := r.intn(20); {
		case x < 6:
			toks = append(toks, fmt.Sprintf("a%d", posArg(r)))
		case x < 15:
			toks = append(toks, fmt.Sprintf("r%d:%d", posArg(r), posArg(r)))
		case x < 18:
			toks = append(toks, "b")
		case x < 19:
			toks = append(toks, fmt.Sprintf("u%d", posArg(r)))
		default:
			toks = append(toks, fmt.Sprintf("w%d:%d", posArg(r), posArg(r)))
		}
	}
	toks = append(toks, "b")
	if r.coin(30) { // reuse after the final build as well
		toks = append(toks, fmt.Sprintf("r%d:%d", posArg(r), posArg(r)), "b")
	}
	return strings.Join(toks, ",")
}

func genPos(e *emitter, r *rng, tier string) {
	// small-scope exhaustive: all scripts of <= 3 calls over a 7-point grid, each followed by Build,
	// then one more call and Build (reuse)
	grid := []int{-2, 0, 1, 2, 3, 5, maxInt - 1}
	var calls []string
	for _, a := range grid {
		calls = append(calls, fmt.Sprintf("a%d", a))
		for _, b := range grid {
			calls = append(calls, fmt.Sprintf("r%d:%d", a, b))
		}
	}
	depth := 2
	if tier == "thorough" {
		depth = 3
	}
	var rec func(prefix []string, d int)
	v := 0
	rec = func(prefix []string, d int) {
		if len(prefix) > 0 {
			v = v%3 + 1
			s := strings.Join(prefix, ",") + ",b"
			emitPosLine(e, v, s)
			e.count("pos.exhaustive")
		}
		if d == 0 {
			return
		}
		for _, c := range calls {
			rec(append(append([]string{}, prefix...), c), d-1)
		}
	}
	rec(nil, depth)
	n := 3000
	if tier == "thorough" {
		n = 40000
	}
	for i := 0; i < n; i++ {
		s := randPosScript(r, 9)
		for v := 1; v <= 3; v++ {
			emitPosLine(e, v, s)
		}
		e.count(fmt.Sprintf("pos.random.calls%d", strings.Count(s, ",")+1))
	}
}

func init() {
	groups["C11"] = genPos
	replayers["pos"] = func(e *emitter, a []string) error {
		if len(a) != 2 {
			return fmt.Errorf("pos: want 2 args")
		}
		v, _ := strconv.Atoi(strings.TrimPrefix(a[0], "v"))
		emitPosLine(e, v, a[1])
		return nil
	}
}

package main

import (
	"fmt"
	"math"
	"math/big"
	"strings"
	"time"
)

// radicand generators for C01/C02/C03 (and C18): name, num, den
type radicand struct {
	class    string
	num, den *big.Int
	minK     int // read at least this many digits (0 = any)
	allCtors bool // run through every constructor of every version (the result depends on the value only)
}

func rootRadicands(r *rng, deg int, count int, tier string) []radicand {
	var out []radicand
	add := func(class string, num, den *big.Int) {
		out = append(out, radicand{class, num, den, 0, false})
	}
	// terminating roots with exactly 100·j digits: the end marker is the first value of a new block
	for j := 1; j <= 2; j++ {
		for _, c := range []int64{1, 7} {
			a := new(big.Int).Add(pow(10, 100*j-1), big.NewInt(c))
			p := new(big.Int).Exp(a, big.NewInt(int64(deg)), nil)
			out = append(out, radicand{"len100k", p, big.NewInt(1), 100*j + 20, false})
			out = append(out, radicand{"len100k", p, pow(10, deg*(40+r.intn(30))), 100*j + 20, false})
		}
	}
	one := big.NewInt(1)
	B := int64(100)
	if deg == 3 {
		B = 1000
	}
	// fixed boundary cases, always present
	add("zero", big.NewInt(0), big.NewInt(1))
	add("zero", big.NewInt(0), big.NewInt(7))
	for _, x := range []int64{1, 2, 3, 4, 8, 9, 10, 26, 27, 99, 100, 101, 999, 1000, 1001, math.MaxInt64, math.MaxInt64 - 1} {
		add("int64", big.NewInt(x), one)
	}
	add("int64frac", big.NewInt(math.MaxInt64), big.NewInt(math.MaxInt64-1))
	add("int64frac", big.NewInt(1), big.NewInt(math.MaxInt64))
	add("int64frac", big.NewInt(3), big.NewInt(70000))
	add("int64frac", big.NewInt(2401), big.NewInt(400))
	add("recur", big.NewInt(1), big.NewInt(9))
	add("recur", big.NewInt(4), big.NewInt(9))
	add("recur", big.NewInt(1), big.NewInt(27))
	add("recur", big.NewInt(8), big.NewInt(27))
	for j := 0; j <= 6; j++ {
		bj := pow(B, j)
		add("Bpow", bj, one)
		add("Bpow+1", new(big.Int).Add(bj, one), one)
		if j > 0 {
			add("Bpow-1", new(big.Int).Sub(bj, one), one)
		}
		add("Binv", one, bj)
		add("Binv+", big.NewInt(1), new(big.Int).Sub(bj, big.NewInt(0)).Add(bj, one))
		if j > 0 {
			add("Binv-", big.NewInt(1), new(big.Int).Sub(bj, one))
		}
		// 10^j: not aligned to the group size
		tj := pow(10, j)
		add("tenpow", tj, one)
		add("teninv", one, tj)
	}
	// machine-word boundaries, always present: denominators of every bit length 50..65 (a word-sized
	// fast path for the long division would have its overflow boundary here: the running remainder
	// times the base must fit), numerator just below / far below / above the denominator
	for bits := 50; bits <= 65; bits++ {
		d := new(big.Int).Lsh(big.NewInt(1), uint(bits-1))
		d.Add(d, new(big.Int).Rsh(new(big.Int).SetUint64(r.next()), uint(65-bits)))
		d.SetBit(d, bits-1, 1)
		d.SetBit(d, 0, 1)
		nearTop := new(big.Int).Sub(new(big.Int).Lsh(big.NewInt(1), uint(bits)), big.NewInt(int64(1+r.intn(1000))))
		add("wordsize", new(big.Int).Sub(d, big.NewInt(int64(1+r.intn(9)))), d)                           // remainder ≈ denominator
		add("wordsize", new(big.Int).Rsh(new(big.Int).Mul(d, big.NewInt(int64(2+r.intn(7)))), 3), nearTop) // mid-size remainders, denominator 2^bits - c
		add("wordsize", big.NewInt(int64(1+r.intn(50))), d)
	}
	// HUGE perfect powers and their neighbours, always present: (10^j)^deg ± 1 and m^deg ± 1 for m of
	// 15–40 digits — the increment of the digit loop outgrows one, two, three machine words while
	// the remainder stays tiny (a remainder/increment size shortcut must not end the root)
	for _, j := range []int{10, 15, 19, 20, 25, 32, 40, 160, 320} {
		for _, m := range []*big.Int{pow(10, j), r.bigRand(j)} {
			if j >= 160 && m.Cmp(pow(10, j)) == 0 {
				continue // the very long ones: a random m only (increment of 8, 16 and more machine words)
			}
			p := new(big.Int).Exp(m, big.NewInt(int64(deg)), nil)
			out = append(out, radicand{"hugepower+1", new(big.Int).Add(p, one), one, 2*j + 12, false})
			if j%2 == 0 {
				out = append(out, radicand{"hugepower-1", new(big.Int).Sub(p, one), one, 2*j + 12, false})
				out = append(out, radicand{"hugepower", p, one, j + 5, false})
			}
		}
	}
	// word-size perfect powers and their neighbours, always present, through EVERY constructor: a
	// machine-float or machine-word short cut in one constructor is exact below 2^53 and wrong
	// (or right by luck) above — 10^18 ± 1, (2^31)^2 + 1, k^deg ± 1 for random k at every size
	{
		var ks []*big.Int
		if deg == 2 {
			ks = append(ks, pow(10, 9), new(big.Int).Lsh(one, 31), big.NewInt(3037000499)) // floor(sqrt(MaxInt64))
		} else {
			ks = append(ks, pow(10, 6), new(big.Int).Lsh(one, 21), big.NewInt(2097151)) // floor(cbrt(MaxInt64))
		}
		for bits := 51; bits <= 62; bits += 2 {
			kb := bits / deg
			k := new(big.Int).Lsh(one, uint(kb))
			k.Add(k, new(big.Int).Rsh(new(big.Int).SetUint64(r.next()), uint(64-kb)))
			ks = append(ks, k)
		}
		for _, k := range ks {
			p := new(big.Int).Exp(k, big.NewInt(int64(deg)), nil)
			for _, d := range []int64{-1, 0, 1} {
				x := new(big.Int).Add(p, big.NewInt(d))
				if x.Sign() > 0 && x.IsInt64() {
					out = append(out, radicand{"wordpower", x, one, 0, true})
				}
			}
		}
	}
	for len(out) < count {
		switch r.intn(14) {
		case 12, 13: // machine-word boundaries: numerator and denominator with uniformly drawn bit lengths
			// around 31/32/53..64 bits (word-sized fast paths, float conversions), random or 2^k±c
			word := func() *big.Int {
				bits := r.pick([]int{30, 31, 32, 33, 52, 53, 54, 55, 56, 57, 58, 59, 60, 61, 62, 63, 64, 65, 70})
				x := new(big.Int).Lsh(big.NewInt(1), uint(bits-1))
				switch r.intn(4) {
				case 0:
					x.Add(x, big.NewInt(int64(r.intn(5))))
				case 1:
					x.Lsh(x, 1).Sub(x, big.NewInt(int64(1+r.intn(5))))
				default:
					x.Add(x, new(big.Int).Rsh(new(big.Int).SetUint64(r.next()), uint(65-bits)%64))
				}
				return x
			}
			n, d := word(), word()
			switch r.intn(4) {
			case 0:
				n = big.NewInt(int64(1 + r.intn(1000)))
			case 1:
				d = big.NewInt(int64(1 + r.intn(1000)))
			}
			add("wordsize", n, d)
		case 0: // small fractions
			add("smallfrac", big.NewInt(int64(1+r.intn(300))), big.NewInt(int64(1+r.intn(300))))
		case 1: // perfect powers and neighbours
			m := r.bigRand(1 + r.intn(12))
			p := new(big.Int).Exp(m, big.NewInt(int64(deg)), nil)
			switch r.intn(3) {
			case 0:
				add("perfect", p, one)
			case 1:
				add("perfect+1", new(big.Int).Add(p, one), one)
			default:
				add("perfect-1", new(big.Int).Sub(p, one), one)
			}
		case 2: // (a/10^t)^deg : terminating roots at any scale
			a := r.bigRand(1 + r.intn(8))
			t := r.intn(12)
			p := new(big.Int).Exp(a, big.NewInt(int64(deg)), nil)
			q := pow(10, deg*t)
			add("termroot", p, q)
		case 3: // perfect power at a non-aligned scale: m^deg / 10^(deg*t±1)
			a := r.bigRand(1 + r.intn(6))
			t := 1 + r.intn(6)
			p := new(big.Int).Exp(a, big.NewInt(int64(deg)), nil)
			e := deg*t + 1
			if r.coin(50) {
				e = deg*t - 1
			}
			add("perfect-misaligned", p, pow(10, e))
		case 4: // multi-hundred-digit integers
			d := 100 + r.intn(500)
			if tier == "quick" {
				d = 100 + r.intn(150)
			}
			add("bigint", r.bigRand(d), one)
		case 5: // big rationals
			add("bigrat", r.bigRand(1+r.intn(80)), r.bigRand(1+r.intn(80)))
		case 6: // far below 1: in [B^-(j+1), B^-j)
			j := r.intn(40)
			num := r.bigRand(1 + r.intn(5))
			den := new(big.Int).Mul(pow(B, j), r.bigRand(1+r.intn(6)))
			add("tiny", num, den)
		case 7: // long runs of 9s / 0s: (10^j - 1)^deg, (10^j + 1)^deg
			j := 1 + r.intn(20)
			x := pow(10, j)
			if r.coin(50) {
				x.Sub(x, one)
			} else {
				x.Add(x, one)
			}
			p := new(big.Int).Exp(x, big.NewInt(int64(deg)), nil)
			if r.coin(30) {
				p.Add(p, big.NewInt(int64(r.intn(3)-1)))
			}
			if p.Sign() <= 0 {
				p.SetInt64(1)
			}
			add("nines", p, pow(10, r.intn(3)*deg))
		case 8: // terminating decimal radicands p / (2^a 5^b)
			den := new(big.Int).Mul(pow(2, r.intn(12)), pow(5, r.intn(12)))
			add("termfrac", r.bigRand(1+r.intn(10)), den)
		case 9: // int64 range
			add("int64", big.NewInt(int64(r.next()>>1)), one)
		case 10: // each residue class of the group count: 10^j * small
			j := r.intn(3*deg + 1)
			add("residue", new(big.Int).Mul(pow(10, j), big.NewInt(int64(1+r.intn(99)))), one)
		default:
			add("rat64", big.NewInt(int64(1+r.intn(1<<30))), big.NewInt(int64(1+r.intn(1<<30))))
		}
	}
	return out
}

func fitsInt64(x *big.Int) bool { return x.IsInt64() }

// ctorsFor lists the constructors able to represent num/den exactly.
func ctorsFor(num, den *big.Int) []string {
	cs := []string{"bigrat"}
	if den.Cmp(big.NewInt(1)) == 0 {
		cs = append(cs, "bigint")
		if fitsInt64(num) {
			cs = append(cs, "i64")
		}
	}
	if fitsInt64(num) && fitsInt64(den) {
		cs = append(cs, "rat64")
	}
	return cs
}

func depthFor(r *rng, tier string) int {
	ks := []int{1, 2, 3, 16, 50, 99, 100, 101, 150, 199, 200, 201, 250, 399}
	if tier == "quick" {
		ks = []int{1, 2, 3, 16, 50, 99, 100, 101, 150, 201}
	}
	return ks[r.intn(len(ks))]
}

var rootLineCount int

func emitRootLine(e *emitter, v, deg int, ctor string, rd radicand, k int, scale int64) {
	if e.exhausted() {
		return
	}
	rootLineCount++
	interleave := rootLineCount%4 == 0 && k >= 100
	if interleave && k < 420 {
		k = 420 // an error in second-order state (incr2) reaches the digits one to two blocks later
	}
	num, den := rd.num, rd.den
	if scale > 1 { // non-reduced representation through the int64 / big.Int constructors
		num = new(big.Int).Mul(num, big.NewInt(scale))
		den = new(big.Int).Mul(den, big.NewInt(scale))
	}
	res := guarded(30*time.Second, func() string {
		n := newRoot(v, deg, ctor, num, den)
		if n.IsZero() {
			d, _ := n.firstDigits(3)
			return fmt.Sprintf("zero exp=%d digits=%q at0=%d", n.Exponent(), d, n.At(0))
		}
		if interleave {
			// another Number of the same kind is created and used while this one is half read:
			// Numbers must not share state
			n.firstDigits(1 + rootLineCount%3*60)
			// … of the same or of the OTHER degree (package-level or pooled scratch state shared
			// between the square-root and the cube-root code)
			otherDeg := deg
			if rootLineCount%8 == 0 {
				otherDeg = 5 - deg
			}
			other := newRoot(v, otherDeg, "i64", big.NewInt(3+int64(rootLineCount%90)), big.NewInt(1))
			other.firstDigits(5 + rootLineCount%2*150)
		}
		ds, ended := n.firstDigits(k)
		en := 0
		if ended {
			en = 1
		}
		if ds == "" {
			ds = "-"
		}
		return fmt.Sprintf("%d %s %d", n.Exponent(), ds, en)
	})
	// the spec is about the VALUE rd.num/rd.den; the line records the value in lowest given terms
	e.line("root", fmt.Sprintf("v%d %d %s %s %s %d", v, deg, ctor, rd.num, rd.den, k), res)
	e.count(fmt.Sprintf("root.deg%d.%s", deg, rd.class))
	e.count("root.ctor." + ctor)
}

func genRoots(e *emitter, r *rng, tier string, degs []int) {
	count := 290
	if tier == "thorough" {
		count = 1500
	}
	for _, deg := range degs {
		for _, rd := range rootRadicands(r, deg, count, tier) {
			k := depthFor(r, tier)
			if k < rd.minK {
				k = rd.minK
			}
			cs := ctorsFor(rd.num, rd.den)
			if rd.allCtors {
				if tier == "quick" {
					k = min(k, 50)
				}
				for v := 1; v <= 3; v++ {
					for _, c := range cs {
						emitRootLine(e, v, deg, c, rd, k, 1)
					}
				}
				continue
			}
			// every version, one constructor each (rotating), plus occasionally all constructors
			for v := 1; v <= 3; v++ {
				ctor := cs[r.intn(len(cs))]
				scale := int64(1)
				if (ctor == "rat64") && r.coin(40) {
					s := int64(2 + r.intn(50))
					a := new(big.Int).Mul(rd.num, big.NewInt(s))
					b := new(big.Int).Mul(rd.den, big.NewInt(s))
					if fitsInt64(a) && fitsInt64(b) {
						scale = s
					}
				}
				emitRootLine(e, v, deg, ctor, rd, k, scale)
			}
			if r.coin(15) {
				for _, c := range cs {
					emitRootLine(e, 3, deg, c, rd, k, 1)
				}
			}
		}
	}
	if tier == "thorough" {
		// a few deep runs: 20000 digits
		for _, deg := range degs {
			for _, x := range []int64{2, 3, 7} {
				rd := radicand{"deep", big.NewInt(x), big.NewInt(1), 0, false}
				for v := 1; v <= 3; v++ {
					emitRootLine(e, v, deg, "i64", rd, 20000, 1)
				}
			}
		}
	}
}

// genEndProbes (C03): terminating roots asked about positions at, just beyond and far beyond their
// end — first thing on a fresh Number as well as after reading — and never-ending ones asked far out
func genEndProbes(e *emitter, r *rng, tier string) {
	n := 40
	if tier == "thorough" {
		n = 400
	}
	for i := 0; i < n; i++ {
		deg := 2 + r.intn(2)
		a := int64(2 + r.intn(99999))
		for a%10 == 0 {
			a++
		}
		L := len(fmt.Sprint(a))
		p := new(big.Int).Exp(big.NewInt(a), big.NewInt(int64(deg)), nil)
		q := pow(10, deg*r.intn(4))
		kind := "S"
		if deg == 3 {
			kind = "C"
		}
		far := []int{L, L + 1, L + 99, 100, 1000, maxInt - 1, maxInt}
		var st []string
		for j := 0; j < 4; j++ {
			st = append(st, fmt.Sprintf("at:0:%d", far[r.intn(len(far))]))
		}
		st = append(st, fmt.Sprintf("fwd:0:%d", L+5), fmt.Sprintf("at:0:%d", L-1), fmt.Sprintf("at:0:%d", L), "nd:0", fmt.Sprintf("back:0:%d", L+5))
		for v := 1; v <= 3; v++ {
			emitScriptLine(e, v, fmt.Sprintf("%s:%s:%s", kind, p, q), strings.Join(st, ";"))
		}
		e.count("C03.endprobe")
	}
	// a root read only through views, after the Number itself has been dropped and collected: an
	// irrational root still never ends, an exact one ends where it must
	for i := 0; i < n/4; i++ {
		kind := r.pickS([]string{"S", "C"})
		rad := int64(2 + r.intn(200))
		for v := 1; v <= 3; v++ {
			emitScriptLine(e, v, fmt.Sprintf("D%s:%d:1", kind, rad), fmt.Sprintf("ws:0:%d;we:1:%d;fwd:1:25;fwd:2:400;at:1:%d", 1+r.intn(3), 120+r.intn(100), 150+r.intn(100)))
		}
		e.count("C03.base_dropped_and_collected")
	}
}

func init() {
	groups["C01"] = func(e *emitter, r *rng, tier string) { genRoots(e, r, tier, []int{2}) }
	groups["C02"] = func(e *emitter, r *rng, tier string) { genRoots(e, r, tier, []int{3}) }
	groups["C03"] = func(e *emitter, r *rng, tier string) { genRoots(e, r, tier, []int{2, 3}); genEndProbes(e, r, tier) }
}

package main

import (
	"hash/fnv"
	"encoding/hex"
	"errors"
	"fmt"
	"slices"
	"strconv"
	"strings"

	sq1 "github.com/keep94/sqroot"
	sq2 "github.com/keep94/sqroot/v2"
	sq3 "github.com/keep94/sqroot/v3"
)

// pattern encoding: "e" = empty, otherwise '_'-separated ints
func patOf(s string) []int {
	if s == "e" {
		return []int{}
	}
	if s == "nil" {
		return nil
	}
	var out []int
	for _, t := range strings.Split(s, "_") {
		x, _ := strconv.Atoi(t)
		out = append(out, x)
	}
	return out
}

func (e *scriptEnv) execFind(op string, h handle, a []string) (string, bool) {
	if op == "mkf" || op == "mkfr" { // a search closure that stays alive across later statements
		pat := patOf(a[2])
		var f func() int
		switch {
		case h.v == 1 && op == "mkf":
			f = sq1.Find(h.s1, pat)
		case h.v == 1:
			f = sq1.FindR(h.s1, pat)
		case h.v == 2 && op == "mkf":
			f = sq2.Find(h.s2, pat)
		case h.v == 2:
			f = sq2.FindR(h.s2, pat)
		case op == "mkf":
			f = sq3.Find(h.s3, pat)
		default:
			fs, ok := h.s3.(sq3.FiniteSequence)
			if !ok {
				return "na", true
			}
			f = sq3.FindR(fs, pat)
		}
		e.finds = append(e.finds, f)
		return "ok", true
	}
	mutating := false
	switch op {
	case "findm", "findrm", "mm", "bmm": // C14: the caller overwrites the pattern while the iterator is live
		mutating = true
		op = map[string]string{"findm": "find", "findrm": "findr", "mm": "m", "bmm": "bm"}[op]
	}
	switch op {
	case "ff", "ffn", "fa", "fl", "fln", "find", "findr", "m", "m2", "bm":
	default:
		return "", false
	}
	pat := patOf(a[2])
	origPat := append([]int(nil), pat...)
	clobber := func() {
		if mutating {
			for i := range pat {
				pat[i] = 9 - pat[i]
			}
		}
	}
	defer func() {
		// restore (statements do not share the slice, but keep the harness honest)
		copy(pat, origPat)
	}()
	// on a counting source used by this script alone: every call the digit source receives while
	// the search is in progress looks at the caller's pattern — the library must not have touched
	// it, not even temporarily (C14: "never modifies reference-typed arguments")
	if e.src != nil && !e.shared && e.src.onCall == nil && !mutating {
		e.src.onCall = func(int) {
			for i := range pat {
				if pat[i] != origPat[i] {
					e.argTouched = true
				}
			}
		}
		defer func() { e.src.onCall = nil }()
	}
	n := 0
	if len(a) > 3 {
		n = atoi(a[3])
	}
	pull := func(f func() int, k int) string {
		var out []int
		for i := 0; i < k; i++ {
			out = append(out, f())
			if i == 0 {
				clobber()
			}
		}
		return intsString(out)
	}
	switch h.v {
	case 1:
		s := h.s1
		switch op {
		case "ff":
			return strconv.Itoa(sq1.FindFirst(s, pat)), true
		case "ffn":
			return intsString(sq1.FindFirstN(s, pat, n)), true
		case "fa":
			return intsString(sq1.FindAll(s, pat)), true
		case "fl":
			return strconv.Itoa(sq1.FindLast(s, pat)), true
		case "fln":
			return intsString(sq1.FindLastN(s, pat, n)), true
		case "find":
			return pull(sq1.Find(s, pat), n), true
		case "findr":
			return pull(sq1.FindR(s, pat), n), true
		}
		return "na", true
	case 2:
		s := h.s2
		switch op {
		case "ff":
			return strconv.Itoa(sq2.FindFirst(s, pat)), true
		case "ffn":
			return intsString(sq2.FindFirstN(s, pat, n)), true
		case "fa":
			return intsString(sq2.FindAll(s, pat)), true
		case "fl":
			return strconv.Itoa(sq2.FindLast(s, pat)), true
		case "fln":
			return intsString(sq2.FindLastN(s, pat, n)), true
		case "find":
			return pull(sq2.Find(s, pat), n), true
		case "findr":
			return pull(sq2.FindR(s, pat), n), true
		}
		return "na", true
	}
	s := h.s3
	fs, fin := s.(sq3.FiniteSequence)
	switch op {
	case "ff":
		return strconv.Itoa(sq3.FindFirst(s, pat)), true
	case "ffn":
		return intsString(sq3.FindFirstN(s, pat, n)), true
	case "find":
		return pull(sq3.Find(s, pat), n), true
	case "m", "m2":
		if n <= 0 {
			sq3.Matches(s, pat) // creating the iterator must be free
			return "-", true
		}
		seq := sq3.Matches(s, pat)
		clobber()
		run := func() string {
			var out []int
			ended := true
			for p := range seq {
				out = append(out, p)
				if len(out) >= n {
					ended = false
					break
				}
			}
			if ended {
				return intsString(out) + "$"
			}
			return intsString(out)
		}
		r1 := run()
		if op == "m2" {
			if r2 := run(); r2 != r1 {
				return "RERUN-MISMATCH:" + r1 + "/" + r2, true
			}
		}
		return r1, true
	}
	if !fin {
		return "na", true
	}
	switch op {
	case "fa":
		return intsString(sq3.FindAll(fs, pat)), true
	case "fl":
		return strconv.Itoa(sq3.FindLast(fs, pat)), true
	case "fln":
		return intsString(sq3.FindLastN(fs, pat, n)), true
	case "findr":
		return pull(sq3.FindR(fs, pat), n), true
	case "bm":
		if n <= 0 {
			sq3.BackwardMatches(fs, pat)
			return "-", true
		}
		seq := sq3.BackwardMatches(fs, pat)
		clobber()
		run := func() string { return intsString(slices.Collect(takeSeq(seq, n))) }
		r1 := run()
		if r2 := run(); r2 != r1 {
			return "RERUN-MISMATCH:" + r1 + "/" + r2, true
		}
		return r1, true
	}
	return "na", true
}

func takeSeq(seq func(func(int) bool), n int) func(func(int) bool) {
	return func(yield func(int) bool) {
		c := 0
		for x := range seq {
			c++
			if !yield(x) || c >= n {
				return
			}
		}
	}
}

// ---------------------------------------------------------------- printing

// positions script inside a statement: like the pos protocol but with '~' instead of ':'
func buildPositions(v int, script string) posVal {
	var b1 sq1.PositionsBuilder
	var b2 sq2.PositionsBuilder
	var b3 sq3.PositionsBuilder
	if script != "-" {
		for _, tok := range strings.Split(script, ",") {
			arg := tok[1:]
			switch tok[0] {
			case 'a':
				p := atoi(arg)
				switch v {
				case 1:
					b1.Add(p)
				case 2:
					b2.Add(p)
				default:
					b3.Add(p)
				}
			case 'r':
				i := strings.Index(arg, "~")
				s, e := atoi(arg[:i]), atoi(arg[i+1:])
				switch v {
				case 1:
					b1.AddRange(s, e)
				case 2:
					b2.AddRange(s, e)
				default:
					b3.AddRange(s, e)
				}
			}
		}
	}
	switch v {
	case 1:
		return posVal{v: 1, p1: b1.Build()}
	case 2:
		return posVal{v: 2, p2: b2.Build()}
	}
	return posVal{v: 3, p3: b3.Build()}
}

// options: '.'-separated: R<n> C<n> S<0|1> M<rune> T<0|1> L<0|1> B<bufsize>; "-" = none
type optSet struct {
	o1 []sq1.Option
	o2 []sq2.Option
	o3 []sq3.Option
}

func parseOpts(v int, s string) optSet {
	var o optSet
	if s == "-" || s == "" {
		return o
	}
	for _, t := range strings.Split(s, ".") {
		x := atoi(t[1:])
		switch t[0] {
		case 'R':
			o.o1 = append(o.o1, sq1.DigitsPerRow(x))
			o.o2 = append(o.o2, sq2.DigitsPerRow(x))
			o.o3 = append(o.o3, sq3.DigitsPerRow(x))
		case 'C':
			o.o1 = append(o.o1, sq1.DigitsPerColumn(x))
			o.o2 = append(o.o2, sq2.DigitsPerColumn(x))
			o.o3 = append(o.o3, sq3.DigitsPerColumn(x))
		case 'S':
			o.o1 = append(o.o1, sq1.ShowCount(x != 0))
			o.o2 = append(o.o2, sq2.ShowCount(x != 0))
			o.o3 = append(o.o3, sq3.ShowCount(x != 0))
		case 'M':
			o.o1 = append(o.o1, sq1.MissingDigit(rune(x)))
			o.o2 = append(o.o2, sq2.MissingDigit(rune(x)))
			o.o3 = append(o.o3, sq3.MissingDigit(rune(x)))
		case 'T':
			o.o3 = append(o.o3, sq3.TrailingLF(x != 0))
		case 'L':
			o.o3 = append(o.o3, sq3.LeadingDecimal(x != 0))
		case 'B':
			o.o1 = append(o.o1, sq1.VerifBufferSize(x))
			o.o2 = append(o.o2, sq2.VerifBufferSize(x))
			o.o3 = append(o.o3, sq3.VerifBufferSize(x))
		}
	}
	return o
}

// faultyWriter accepts exactly k bytes and then fails according to mode (see Model/Bufio.lean
// `faultWriter`): 0 error for ever, 1 short write without error then errors, 2 error once then
// recovery, 3 never fails.
type faultyWriter struct {
	mode, k  int
	got      int
	fired    bool
	accepted []byte
	calls    int
	onFault  func() // called at the moment the writer first returns an error
}

var errFault = errors.New("injected fault")

func (w *faultyWriter) Write(p []byte) (n int, err error) {
	w.calls++
	defer func() {
		// the moment the fault becomes VISIBLE to the caller: the first non-nil error. A short write
		// without an error (mode 1) is not one — bufio's direct-write path passes it on unnoticed
		// (only Flush turns it into io.ErrShortWrite), so the printer cannot know yet.
		if err != nil && w.onFault != nil {
			w.onFault()
			w.onFault = nil
		}
	}()
	take := func(n int) int {
		w.accepted = append(w.accepted, p[:n]...)
		w.got += n
		return n
	}
	switch w.mode {
	case 0:
		if w.got+len(p) <= w.k {
			return take(len(p)), nil
		}
		return take(w.k - w.got), errFault
	case 1:
		if w.fired {
			return 0, errFault
		}
		if w.got+len(p) <= w.k {
			return take(len(p)), nil
		}
		w.fired = true
		return take(w.k - w.got), nil
	case 2:
		if w.fired {
			return take(len(p)), nil
		}
		if w.got+len(p) <= w.k {
			return take(len(p)), nil
		}
		w.fired = true
		return take(w.k - w.got), errFault
	}
	return take(len(p)), nil
}

// armFault / afterFault: on a counting source used by this script alone, count the calls the digit
// source receives from the moment the writer first reports its fault until the print call has
// returned and the producer is quiescent. In a sequential script the producer is parked whenever a
// reader runs (every wait returns with len(data) >= maxLength), so any such call was requested
// AFTER the fault. Reported as a fourth field "/<n>"; absent without a counting source.
// encAccepted: hex when short, otherwise length and FNV-1a hash (see Driver/Script.lean encAccepted)
func encAccepted(b []byte) string {
	if len(b) <= 96 {
		return "x" + hex.EncodeToString(b)
	}
	h := fnv.New64a()
	h.Write(b)
	return fmt.Sprintf("y%d:%d", len(b), h.Sum64())
}

func (e *scriptEnv) armFault(w *faultyWriter) {
	if e.src == nil || e.shared {
		return
	}
	e.src.afterFlt.Store(0)
	src := e.src
	w.onFault = func() { src.faulted.Store(true) }
}

func (e *scriptEnv) afterFault() string {
	if e.src == nil || e.shared {
		return ""
	}
	e.consulted() // wait for quiescence
	n := e.src.afterFlt.Load()
	e.src.faulted.Store(false)
	return fmt.Sprintf("/%d", n)
}

func (e *scriptEnv) execPrint(op string, h handle, a []string) (string, bool) {
	switch op {
	case "pr": // pr:h:positions:opts
		pv := buildPositions(h.v, a[2])
		o := parseOpts(h.v, a[3])
		var out string
		switch h.v {
		case 1:
			out = sq1.Sprint(h.s1, pv.p1, o.o1...)
		case 2:
			out = sq2.Sprint(h.s2, pv.p2, o.o2...)
		default:
			out = sq3.Sprint(h.s3, pv.p3, o.o3...)
		}
		return "x" + hex.EncodeToString([]byte(out)), true
	case "wr": // wr:h:opts (v3 Swrite)
		if h.v != 3 {
			return "na", true
		}
		fs, ok := h.s3.(sq3.FiniteSequence)
		if !ok {
			return "na", true
		}
		return "x" + hex.EncodeToString([]byte(sq3.Swrite(fs, parseOpts(3, a[2]).o3...))), true
	case "fpr": // fpr:h:positions:opts:mode:k  -> written/err/accepted
		pv := buildPositions(h.v, a[2])
		o := parseOpts(h.v, a[3])
		w := &faultyWriter{mode: atoi(a[4]), k: atoi(a[5])}
		e.armFault(w)
		var n int
		var err error
		switch h.v {
		case 1:
			n, err = sq1.Fprint(w, h.s1, pv.p1, o.o1...)
		case 2:
			n, err = sq2.Fprint(w, h.s2, pv.p2, o.o2...)
		default:
			n, err = sq3.Fprint(w, h.s3, pv.p3, o.o3...)
		}
		return fmt.Sprintf("%d/%v/%s", n, err != nil, encAccepted(w.accepted)) + e.afterFault(), true
	case "fwr": // fwr:h:opts:mode:k
		if h.v != 3 {
			return "na", true
		}
		fs, ok := h.s3.(sq3.FiniteSequence)
		if !ok {
			return "na", true
		}
		w := &faultyWriter{mode: atoi(a[3]), k: atoi(a[4])}
		e.armFault(w)
		n, err := sq3.Fwrite(w, fs, parseOpts(3, a[2]).o3...)
		return fmt.Sprintf("%d/%v/%s", n, err != nil, encAccepted(w.accepted)) + e.afterFault(), true
	}
	return "", false
}

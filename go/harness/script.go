package main

// Script protocol: one Number, a table of handles (views derived from it), a sequence of
// statements, one result per statement.
//
//   script v<k> <numdesc> <stmt>;<stmt>;... => <res>;<res>;...
//
// numdesc:  Z | S:num:den | C:num:den | R:num:den | T:fixed:rep:exp | F:fixed:exp | G:len:exp:ill
//   (G = counting generator-backed source; digit(p) = genDigit(p); len -1 = infinite; ill=1: after
//    the end marker the source returns garbage instead of -1)
// statements: see execStmt.

import (
	"fmt"
	"math/big"
	"runtime"
	"strconv"
	"strings"
	"sync/atomic"
	"time"

	sq1 "github.com/keep94/sqroot"
	sq2 "github.com/keep94/sqroot/v2"
	sq3 "github.com/keep94/sqroot/v3"
)

// genDigit is the digit function of G sources (also implemented in the Lean drivers).
func genDigit(p int) int {
	if p == 0 {
		return 3
	}
	// not periodic, so that a pattern taken far out does not already occur in the first block
	return (p*p/7 + p*3 + p/13 + p/101*7) % 10
}

type countingSource struct {
	hashed   bool // H sources: hashDigit instead of genDigit
	first    int // override of the first value returned (-99 = none)
	length   int // -1 infinite
	ill      bool
	illValue int // the out-of-range value returned instead of -1 (ill-behaved sources)
	calls    atomic.Int64
	pos      int
	ended    bool
	outOrder atomic.Int64 // set to 1 when a call arrives after the end marker was returned
	inCall   atomic.Int32
	reentry  atomic.Int64
	faulted  atomic.Bool  // set by a faultyWriter at the moment it first reports its fault ...
	afterFlt atomic.Int64 // ... calls that arrive while it is set (C12: no digit is requested after the fault)
	onCall   func(pos int) // controlled-scheduler builds: a scheduling point inside the digit source
}

func (c *countingSource) next() int {
	if c.inCall.Add(1) != 1 {
		c.reentry.Add(1)
	}
	defer c.inCall.Add(-1)
	c.calls.Add(1)
	if c.faulted.Load() {
		c.afterFlt.Add(1)
	}
	if c.onCall != nil {
		c.onCall(c.pos)
	}
	if c.ended {
		c.outOrder.Store(1)
		if c.ill {
			return 7
		}
		return -1
	}
	if c.length >= 0 && c.pos >= c.length {
		c.ended = true
		if c.ill {
			return c.illValue // out of range instead of -1 (v3 treats any out-of-range value as the end)
		}
		return -1
	}
	d := genDigit(c.pos)
	if c.hashed {
		d = hashDigit(c.pos)
	}
	if c.pos == 0 && c.first != -99 {
		d = c.first
	}
	c.pos++
	return d
}

// hashDigit is the digit function of H sources: no structure a pattern could repeat in, so that a
// pattern taken at depth q first occurs at q (also implemented in the Lean drivers).
func hashDigit(p int) int {
	if p == 0 {
		return 3
	}
	x := uint32(p+1) * 2654435761
	x ^= x >> 15
	x *= 2246822519
	x ^= x >> 13
	return int(x % 10)
}

type handle struct {
	v   int
	n1  *sq1.Number
	s1  sq1.Sequence
	n2  *sq2.Number
	s2  sq2.Sequence
	s3  sq3.Sequence
}

type pullIter struct {
	pd  func() (int, int, bool) // position, digit, ok
}

type scriptEnv struct {
	v       int
	handles []handle
	iters   []pullIter
	seqs    []func(take int) string
	finds   []func() int // live Find / FindR closures (mkf / mkfr / nxf)
	mseqs   []func(n int) string // stored Matches / BackwardMatches values (mkms / mkbms / runm)
	src     *countingSource
	shared  bool // other goroutines use the same source at the same time (conc / sconc lines)
	argTouched bool // a digit-source call saw the caller's pattern modified while a search was in progress
}

func digitsOf(s string) []int {
	if s == "-" || s == "" {
		return nil
	}
	out := make([]int, 0, len(s))
	for _, tok := range strings.Split(s, ",") {
		x, _ := strconv.Atoi(tok)
		out = append(out, x)
	}
	return out
}

func bigOf(s string) *big.Int {
	x, _ := new(big.Int).SetString(s, 10)
	return x
}

// newScriptNumber builds the base Number. Returns an error string ("err:..."/"na") when the
// descriptor is not available in this version.
func newScriptNumber(v int, desc string) (*scriptEnv, string) {
	env := &scriptEnv{v: v}
	parts := strings.Split(desc, ":")
	var n Num
	switch parts[0] {
	case "Z":
		n = newRoot(v, 2, "i64", big.NewInt(0), big.NewInt(1))
	case "S", "Si", "Sr", "Sb", "C", "Ci", "Cr", "Cb":
		// second letter: which constructor (i: int64, r: int64 fraction, b: *big.Int; none: *big.Rat);
		// i and b only with denominator 1
		deg := 2
		if parts[0][0] == 'C' {
			deg = 3
		}
		ctor := map[string]string{"": "bigrat", "i": "i64", "r": "rat64", "b": "bigint"}[parts[0][1:]]
		n = newRoot(v, deg, ctor, bigOf(parts[1]), bigOf(parts[2]))
	case "R":
		n = newRat(v, bigOf(parts[1]), bigOf(parts[2]))
	case "T", "TM", "TS", "TE":
		if v != 3 {
			return nil, "na"
		}
		exp, _ := strconv.Atoi(parts[3])
		f, rp := digitsOf(parts[1]), digitsOf(parts[2])
		if parts[0] == "TE" { // empty lists are passed as empty NON-NIL slices
			if f == nil {
				f = []int{}
			}
			if rp == nil {
				rp = []int{}
			}
		}
		if parts[0] == "TS" {
			// one backing array: [fixed | 2 spare cells | repeating]; fixed's capacity reaches over repeating
			buf := make([]int, 0, len(f)+2+len(rp))
			buf = append(buf, f...)
			buf = append(buf, 4, 2)
			buf = append(buf, rp...)
			f, rp = buf[:len(f)], buf[len(f)+2:]
		}
		x, err := sq3.NewNumberForTesting(f, rp, exp)
		if err != nil {
			return nil, "err:" + strings.ReplaceAll(err.Error(), " ", "_")
		}
		if parts[0] == "TM" { // C14: the caller overwrites its slices after construction
			for i := range f {
				f[i] = 9 - f[i]
			}
			for i := range rp {
				rp[i] = 9 - rp[i]
			}
		}
		n = Num{v: 3, n3: x}
	case "F", "FM":
		if v != 3 {
			return nil, "na"
		}
		exp, _ := strconv.Atoi(parts[2])
		f := digitsOf(parts[1])
		x, err := sq3.NewFiniteNumber(f, exp)
		if err != nil {
			return nil, "err:" + strings.ReplaceAll(err.Error(), " ", "_")
		}
		if parts[0] == "FM" {
			for i := range f {
				f[i] = 9 - f[i]
			}
		}
		n = Num{v: 3, n3: x}
	case "G", "H":
		length, _ := strconv.Atoi(parts[1])
		exp, _ := strconv.Atoi(parts[2])
		if v != 3 && parts[3] != "0" {
			return nil, "na" // v1/v2 only understand -1 as the end marker; ill-behaved sources are a v3 (NewNumber) matter
		}
		illv := map[string]int{"1": 12, "2": 261, "3": -251, "4": 65543, "5": 1 << 40}[parts[3]]
		env.src = &countingSource{length: length, ill: parts[3] != "0", illValue: illv, first: -99, hashed: parts[0] == "H"}
		if len(parts) > 4 {
			if v != 3 {
				return nil, "na"
			}
			env.src.first = atoi(parts[4])
		}
		n = newFromSource(v, env.src.next, exp)
	default:
		return nil, "na"
	}
	switch v {
	case 1:
		env.handles = append(env.handles, handle{v: 1, n1: n.n1, s1: n.n1})
	case 2:
		env.handles = append(env.handles, handle{v: 2, n2: n.n2, s2: n.n2})
	default:
		env.handles = append(env.handles, handle{v: 3, s3: n.n3})
	}
	return env, ""
}

func (h handle) flags() string {
	if h.v != 3 {
		if h.v == 1 && h.n1 != nil || h.v == 2 && h.n2 != nil {
			return "N"
		}
		return "-"
	}
	s := ""
	if _, ok := h.s3.(sq3.FiniteSequence); ok {
		s += "F"
	}
	if _, ok := h.s3.(*sq3.FiniteNumber); ok {
		s += "P"
	}
	if _, ok := h.s3.(sq3.Number); ok {
		s += "N"
	}
	if s == "" {
		s = "-"
	}
	return s
}

func (h handle) seq() Seq {
	switch h.v {
	case 1:
		return Seq{v: 1, s1: h.s1}
	case 2:
		return Seq{v: 2, s2: h.s2}
	}
	return Seq{v: 3, s3: h.s3}
}

func (h handle) num() (Num, bool) {
	switch h.v {
	case 1:
		return Num{v: 1, n1: h.n1}, h.n1 != nil
	case 2:
		return Num{v: 2, n2: h.n2}, h.n2 != nil
	}
	n, ok := h.s3.(sq3.Number)
	return Num{v: 3, n3: n}, ok
}

func atoi(s string) int { x, _ := strconv.Atoi(s); return x }

func pdList(xs []PD) string { return pdString(xs) }

func digitsOnly(xs []int) string {
	if len(xs) == 0 {
		return "-"
	}
	var sb strings.Builder
	for _, d := range xs {
		sb.WriteByte('0' + byte(d))
	}
	return sb.String()
}

// quiesce waits until the source's call counter is stable.
func (e *scriptEnv) consulted() string {
	if e.src == nil {
		return "na"
	}
	// quiescence: the counter has not moved for 150µs of yielding (the producer needs ~1µs per
	// digit of a G source). An undercount can only make the upper bounds checked easier to meet.
	last := e.src.calls.Load()
	since := time.Now()
	deadline := since.Add(200 * time.Millisecond)
	for time.Since(since) < 150*time.Microsecond && time.Now().Before(deadline) {
		runtime.Gosched()
		if cur := e.src.calls.Load(); cur != last {
			last = cur
			since = time.Now()
		}
	}
	return fmt.Sprintf("%d/%d/%d", last, e.src.outOrder.Load(), e.src.reentry.Load())
}

func (e *scriptEnv) execStmt(st string) string {
	a := strings.Split(st, ":")
	op := a[0]
	if op == "cons" {
		return e.consulted()
	}
	hi := atoi(a[1])
	// iterator / stored-sequence statements index other tables
	switch op {
	case "nx":
		if hi >= len(e.iters) {
			return "na"
		}
		n := atoi(a[2])
		var out []PD
		for i := 0; i < n; i++ {
			p, d, ok := e.iters[hi].pd()
			if !ok {
				return pdList(out) + "$"
			}
			out = append(out, PD{p, d})
		}
		return pdList(out)
	case "run":
		if hi >= len(e.seqs) {
			return "na"
		}
		return e.seqs[hi](atoi(a[2]))
	case "runm":
		if hi >= len(e.mseqs) {
			return "na"
		}
		return e.mseqs[hi](atoi(a[2]))
	case "nxf":
		if hi >= len(e.finds) {
			return "na"
		}
		var out []int
		for i := 0; i < atoi(a[2]); i++ {
			out = append(out, e.finds[hi]())
		}
		return intsString(out)
	}
	if hi >= len(e.handles) {
		return "na"
	}
	h := e.handles[hi]
	s := h.seq()
	switch op {
	case "ws", "we":
		var r Seq
		if op == "ws" {
			r = s.WithStart(atoi(a[2]))
		} else {
			r = s.WithEnd(atoi(a[2]))
		}
		nh := handle{v: h.v, s1: r.s1, s2: r.s2, s3: r.s3}
		if h.v == 1 {
			nh.n1, _ = r.s1.(*sq1.Number)
		}
		if h.v == 2 {
			nh.n2, _ = r.s2.(*sq2.Number)
		}
		e.handles = append(e.handles, nh)
		return nh.flags()
	case "wsig":
		n, ok := h.num()
		if !ok {
			return "na"
		}
		r := n.WithSignificant(atoi(a[2]))
		var nh handle
		switch h.v {
		case 1:
			nh = handle{v: 1, n1: r.n1, s1: r.n1}
		case 2:
			nh = handle{v: 2, n2: r.n2, s2: r.n2}
		default:
			nh = handle{v: 3, s3: r.n3}
		}
		e.handles = append(e.handles, nh)
		return nh.flags()
	case "fws":
		if h.v != 3 {
			return "na"
		}
		fs, ok := h.s3.(sq3.FiniteSequence)
		if !ok {
			return "na"
		}
		nh := handle{v: 3, s3: fs.FiniteWithStart(atoi(a[2]))}
		e.handles = append(e.handles, nh)
		return nh.flags()
	case "at":
		n, ok := h.num()
		if !ok {
			return "na"
		}
		return strconv.Itoa(n.At(atoi(a[2])))
	case "exp":
		n, ok := h.num()
		if !ok {
			return "na"
		}
		return strconv.Itoa(n.Exponent())
	case "zero":
		n, ok := h.num()
		if !ok {
			return "na"
		}
		return strconv.FormatBool(n.IsZero())
	case "fwd":
		out, more := s.Forward(atoi(a[2]))
		if more {
			return pdList(out)
		}
		return pdList(out) + "$"
	case "fwd2": // digits only: v3 Values, v1 Number.Iterator(), v2 n/a
		take := atoi(a[2])
		var ds []int
		ended := false
		switch h.v {
		case 3:
			if take <= 0 {
				return "-"
			}
			ended = true
			for d := range h.s3.Values() {
				ds = append(ds, d)
				if len(ds) >= take {
					ended = false
					break
				}
			}
		case 1:
			if h.n1 == nil {
				return "na"
			}
			it := h.n1.Iterator()
			for len(ds) < take {
				d := it()
				if d < 0 {
					ended = true
					break
				}
				ds = append(ds, d)
			}
		default:
			return "na"
		}
		if ended {
			return digitsOnly(ds) + "$"
		}
		return digitsOnly(ds)
	case "itat": // v1 Number.IteratorAt(p)
		if h.v != 1 || h.n1 == nil {
			return "na"
		}
		it := h.n1.IteratorAt(atoi(a[2]))
		take := atoi(a[3])
		var ds []int
		for len(ds) < take {
			d := it()
			if d < 0 {
				return digitsOnly(ds) + "$"
			}
			ds = append(ds, d)
		}
		return digitsOnly(ds)
	case "back":
		out, ok := s.Backward(atoi(a[2]))
		if !ok {
			return "na"
		}
		return pdList(out)
	case "back2": // v3 Reverse() closure; v1 Number.Reverse() func() int (digits only, printed with positions unknown)
		take := atoi(a[2])
		switch h.v {
		case 3:
			fs, ok := h.s3.(sq3.FiniteSequence)
			if !ok {
				return "na"
			}
			it := fs.Reverse()
			var out []PD
			for len(out) < take {
				d, ok := it()
				if !ok {
					break
				}
				out = append(out, PD{d.Position, d.Value})
			}
			return pdList(out)
		case 1:
			if h.n1 == nil {
				return "na"
			}
			it := h.n1.Reverse()
			var ds []int
			for len(ds) < take {
				d := it()
				if d < 0 {
					break
				}
				ds = append(ds, d)
			}
			return digitsOnly(ds)
		}
		return "na"
	case "nd":
		if h.v != 1 || h.n1 == nil {
			return "na"
		}
		return strconv.Itoa(h.n1.NumDigits())
	case "astr":
		if h.v != 3 {
			return "na"
		}
		fs, ok := h.s3.(sq3.FiniteSequence)
		if !ok {
			return "na"
		}
		r := sq3.AsString(fs)
		if r != sq3.DigitsToString(fs) {
			return "ASSTRING-DIGITSTOSTRING-MISMATCH"
		}
		if r == "" {
			return "-"
		}
		return r
	case "mk": // pull iterator: kinds fwd (v1 FullIterator / v2 Iterator / v3 deprecated Iterator), back
		kind := a[2]
		var it pullIter
		switch {
		case kind == "fwd" && h.v == 1:
			f := h.s1.FullIterator()
			it.pd = func() (int, int, bool) { d, ok := f(); return d.Position, d.Value, ok }
		case kind == "fwd" && h.v == 2:
			f := h.s2.Iterator()
			it.pd = func() (int, int, bool) { d, ok := f(); return d.Position, d.Value, ok }
		case kind == "fwd":
			f := h.s3.Iterator()
			it.pd = func() (int, int, bool) { d, ok := f(); return d.Position, d.Value, ok }
		case kind == "back" && h.v == 1:
			f := h.s1.FullReverse()
			it.pd = func() (int, int, bool) { d, ok := f(); return d.Position, d.Value, ok }
		case kind == "back" && h.v == 2:
			f := h.s2.Reverse()
			it.pd = func() (int, int, bool) { d, ok := f(); return d.Position, d.Value, ok }
		case kind == "back":
			fs, ok := h.s3.(sq3.FiniteSequence)
			if !ok {
				return "na"
			}
			f := fs.Reverse()
			it.pd = func() (int, int, bool) { d, ok := f(); return d.Position, d.Value, ok }
		default:
			return "na"
		}
		e.iters = append(e.iters, it)
		return "ok"
	case "mkseq": // v3: keep the iter.Seq2 value returned by All() so that it can be re-run
		if h.v != 3 {
			return "na"
		}
		sq := h.s3.All()
		e.seqs = append(e.seqs, func(take int) string {
			if take <= 0 {
				return "-"
			}
			var out []PD
			ended := true
			for p, d := range sq {
				out = append(out, PD{p, d})
				if len(out) >= take {
					ended = false
					break
				}
			}
			if ended {
				return pdList(out) + "$"
			}
			return pdList(out)
		})
		return "ok"
	case "mkms", "mkbms": // v3: keep the iter.Seq value returned by Matches / BackwardMatches
		if h.v != 3 {
			return "na"
		}
		pat := patOf(a[2])
		var sq func(yield func(int) bool)
		if op == "mkbms" {
			fs, ok := h.s3.(sq3.FiniteSequence)
			if !ok {
				return "na"
			}
			sq = sq3.BackwardMatches(fs, pat)
		} else {
			sq = sq3.Matches(h.s3, pat)
		}
		e.mseqs = append(e.mseqs, func(n int) string {
			if n <= 0 {
				return "-"
			}
			var out []int
			ended := true
			for p := range sq {
				out = append(out, p)
				if len(out) >= n {
					ended = false
					break
				}
			}
			if ended {
				return intsString(out) + "$"
			}
			return intsString(out)
		})
		return "ok"
	case "mkseqb": // v3: keep the iter.Seq2 value returned by Backward() so that it can be re-run
		if h.v != 3 {
			return "na"
		}
		fs, ok := h.s3.(sq3.FiniteSequence)
		if !ok {
			return "na"
		}
		sq := fs.Backward()
		e.seqs = append(e.seqs, func(take int) string {
			if take <= 0 {
				return "-"
			}
			var out []PD
			ended := true
			for p, d := range sq {
				out = append(out, PD{p, d})
				if len(out) >= take {
					ended = false
					break
				}
			}
			if ended {
				return pdList(out) + "$"
			}
			return pdList(out)
		})
		return "ok"
	case "str":
		n, ok := h.num()
		if !ok {
			return "na"
		}
		return "\"" + n.String() + "\""
	case "exact":
		if h.v != 3 {
			return "na"
		}
		fn, ok := h.s3.(*sq3.FiniteNumber)
		if !ok {
			return "na"
		}
		return "\"" + fn.Exact() + "\""
	case "fmt":
		n, ok := h.num()
		if !ok {
			return "na"
		}
		return "\"" + n.Sprintf(a[2]) + "\""
	}
	if r, ok := e.execFind(op, h, a); ok {
		if e.argTouched {
			e.argTouched = false
			return "ARG-MODIFIED-DURING-CALL:" + r
		}
		return r
	}
	if r, ok := e.execPrint(op, h, a); ok {
		return r
	}
	return "badop"
}

func runScript(v int, desc, stmts string) string {
	// D: after the leading view statements the base Number is DROPPED (the harness forgets it) and
	// the garbage collector runs; the rest of the script uses derived views only — what they
	// deliver must not depend on the Number they came from still being referenced
	dropBase := strings.HasPrefix(desc, "D")
	desc = strings.TrimPrefix(desc, "D")
	env, err := newScriptNumber(v, desc)
	if err != "" {
		return err
	}
	var res []string
	if stmts != "-" {
		leading := true
		for _, st := range strings.Split(stmts, ";") {
			isView := strings.HasPrefix(st, "ws:") || strings.HasPrefix(st, "we:") || strings.HasPrefix(st, "wsig:") || strings.HasPrefix(st, "fws:")
			if dropBase && leading && !isView {
				leading = false
				env.handles[0] = handle{v: env.v}
				for i := 0; i < 3; i++ {
					runtime.GC()
					time.Sleep(time.Millisecond)
				}
			}
			r := guardedInline(func() string { return env.execStmt(st) })
			res = append(res, r)
			if strings.HasPrefix(r, "panic:") && !strings.HasPrefix(st, "wsig") && !strings.HasPrefix(st, "itat") {
				break
			}
		}
	}
	if len(res) == 0 {
		return "-"
	}
	return strings.Join(res, ";")
}

// guardedInline runs f with recover only (no watchdog goroutine: statements share state).
func guardedInline(f func() string) (res string) {
	defer func() {
		if r := recover(); r != nil {
			res = "panic:" + strings.ReplaceAll(fmt.Sprint(r), " ", "_")
		}
	}()
	return f()
}

var scriptTimeout = 15 * time.Second

func emitScriptLine(e *emitter, v int, desc, stmts string) {
	if e.exhausted() {
		return
	}
	res := guarded(scriptTimeout, func() string { return runScript(v, desc, stmts) })
	if res == "hang" || strings.HasPrefix(res, "panic:") && !strings.Contains(res, ";") && strings.Contains(stmts, ";") {
		res = "!!" + res // the whole script failed (watchdog, or a panic that escaped the per-statement recover)
	}
	e.line("script", fmt.Sprintf("v%d %s %s", v, desc, stmts), res)
}

func init() {
	replayers["script"] = func(e *emitter, a []string) error {
		if len(a) != 3 {
			return fmt.Errorf("script: want 3 args")
		}
		emitScriptLine(e, atoi(strings.TrimPrefix(a[0], "v")), a[1], a[2])
		return nil
	}
}

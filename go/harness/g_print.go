package main

import (
	"fmt"
	"strings"
)

func randOpts(r *rng, forFault bool) string {
	var parts []string
	if r.coin(70) {
		parts = append(parts, fmt.Sprintf("R%d", r.pick([]int{-1, 0, 1, 2, 7, 10, 10, 50, 100})))
	}
	if r.coin(70) {
		parts = append(parts, fmt.Sprintf("C%d", r.pick([]int{-1, 0, 1, 3, 5, 7, 10, 11, 51})))
	}
	if r.coin(50) {
		parts = append(parts, fmt.Sprintf("S%d", r.intn(2)))
	}
	if r.coin(50) {
		parts = append(parts, fmt.Sprintf("M%d", r.pick([]int{46, 95, 0x2022, 0xE9, 0x1F600, 0xD800, -1, 0x110000, 0, 10})))
	}
	if r.coin(40) {
		parts = append(parts, fmt.Sprintf("T%d", r.intn(2)))
	}
	if r.coin(40) {
		parts = append(parts, fmt.Sprintf("L%d", r.intn(2)))
	}
	if forFault || r.coin(20) {
		parts = append(parts, fmt.Sprintf("B%d", r.pick([]int{1, 2, 3, 4, 5, 16, 64, 0})))
	}
	if len(parts) == 0 {
		return "-"
	}
	return strings.Join(parts, ".")
}

func randPosForPrint(r *rng, length int) string {
	n := 1 + r.intn(4)
	var toks []string
	base := r.pick([]int{0, 0, 0, 3, 10, 47, 95, 100, 990, 9995})
	for i := 0; i < n; i++ {
		s := base + r.pick([]int{0, 1, 2, 5, 9, 10, 13, 20, 50, 51, 120})
		w := r.pick([]int{1, 2, 3, 5, 10, 11, 30, 60})
		if r.coin(20) {
			toks = append(toks, fmt.Sprintf("a%d", s))
		} else {
			toks = append(toks, fmt.Sprintf("r%d~%d", s, s+w))
		}
		base = s + w + r.pick([]int{0, 1, 2, 7, 10, 25, 100})
	}
	if r.coin(20) {
		r.shuffleStr(toks)
	}
	if r.coin(15) {
		toks = append(toks, fmt.Sprintf("r%d~%d", -5, r.intn(4)))
	}
	if length >= 0 && r.coin(15) {
		// "print everything" on a finite sequence: an end at or just below MaxInt (the way to print
		// all digits in v1/v2, which have no Fwrite); label-width arithmetic must not overflow
		toks = append(toks, fmt.Sprintf("r%d~%d", r.pick([]int{0, 3, 60}), maxInt-r.pick([]int{0, 0, 1, 5, 9, 48, 49, 50, 99, 100, 1000})))
	} else if length >= 0 && r.coin(25) {
		// … or an end at and around a power of ten (the label width changes there; floating-point
		// logarithms are off by one at 10^15 and just below 10^16 … 10^18)
		p10 := []int{1000, 100000, 1000000000, 1000000000000000, 10000000000000000, 100000000000000000, 1000000000000000000}
		toks = append(toks, fmt.Sprintf("r%d~%d", r.pick([]int{0, 3}), r.pick(p10)+r.pick([]int{-51, -50, -1, 0, 1, 2, 49, 50, 51})))
	}
	return strings.Join(toks, ",")
}

func (r *rng) shuffleStr(xs []string) {
	for i := len(xs) - 1; i > 0; i-- {
		j := r.intn(i + 1)
		xs[i], xs[j] = xs[j], xs[i]
	}
}

func printNumber(r *rng) numSpec {
	switch r.intn(6) {
	case 0:
		return genNumber(-1, 1, false)
	case 1:
		return genNumber(r.pick([]int{1, 5, 12, 50, 51, 99, 100, 101, 130, 1000}), 1, false)
	case 2:
		return finiteNumber(r, r.pick([]int{1, 5, 12, 50, 51, 99, 100, 101, 130}), 0)
	case 3:
		return numSpec{desc: fmt.Sprintf("S:%d:1", 2+r.intn(30)), length: -2, allV: true}
	case 4:
		return numSpec{desc: "Z", length: 0, allV: true}
	default:
		return testNumber(r, r.intn(4), 1+r.intn(4), 0, 0)
	}
}

func genC10(e *emitter, r *rng, tier string) {
	n := 400
	if tier == "thorough" {
		n = 6000
	}
	for i := 0; i < n; i++ {
		ns := printNumber(r)
		b := newScriptBuilder(r, ns)
		h := 0
		if r.coin(40) {
			s := r.pick([]int{0, 1, 3, 10, 47, 100})
			b.add("ws:0:%d", s)
			b.handles = append(b.handles, hinfo{s, maxInt})
			h = len(b.handles) - 1
		}
		if r.coin(30) {
			en := r.pick([]int{0, 1, 12, 50, 99, 100, 101, 250})
			b.add("we:%d:%d", h, en)
			b.handles = append(b.handles, hinfo{b.handles[h].lo, en})
			h = len(b.handles) - 1
		}
		for j := 0; j < 3; j++ {
			b.add("pr:%d:%s:%s", h, randPosForPrint(r, ns.length), randOpts(r, false))
		}
		if b.finiteWork(h) {
			b.add("wr:%d:%s", h, randOpts(r, false))
		}
		b.emit(e, "C10."+strings.SplitN(ns.desc, ":", 2)[0])
	}
}

// C12: EVERY failure point k of a layout, three failure modes, small buffers.
func genC12(e *emitter, r *rng, tier string) {
	layouts := 6
	if tier == "thorough" {
		layouts = 40
	}
	for i := 0; i < layouts; i++ {
		var ns numSpec
		if i%3 == 0 {
			ns = genNumber(-1, 1, false) // infinite sequence with finite Positions
		} else {
			ns = genNumber(r.pick([]int{12, 60, 130}), 1, false)
		}
		pos := randPosForPrint(r, ns.length)
		if i == 0 {
			// the layout of DESIGN §9.1: a gap far from 0, no rows
			pos = "r3000~3010"
		}
		isWrite := i%3 == 1
		bufs := []int{1, 2, 3, 4, 5, 16, 0}
		opt := randOpts(r, false)
		if i == 0 {
			opt = "R0"
		}
		// fault-free length: run once through a writer that never fails (mode 3)
		probe := func(v int, o string) int {
			var res string
			if isWrite {
				res = runScript(v, ns.desc, fmt.Sprintf("we:0:%d;fwr:1:%s:3:0", 130, o))
			} else {
				res = runScript(v, ns.desc, fmt.Sprintf("fpr:0:%s:%s:3:0", pos, o))
			}
			last := res[strings.LastIndex(res, ";")+1:]
			parts := strings.Split(last, "/")
			if len(parts) < 3 {
				return 0
			}
			return atoi(parts[0])
		}
		for _, bs := range bufs {
			o := opt
			if o == "-" {
				o = fmt.Sprintf("B%d", bs)
			} else {
				o = opt + fmt.Sprintf(".B%d", bs)
			}
			for v := 1; v <= 3; v++ {
				if isWrite && v != 3 {
					continue
				}
				total := probe(v, o)
				// every fault point of a short output; about 150 (quick) / 600 (thorough) evenly
				// spread ones, plus the last few, of a long one
				step := 1
				if tier == "quick" && total > 150 {
					step = total / 150
				} else if total > 600 {
					step = total / 600
				}
				for mode := 0; mode <= 2; mode++ {
					var stmts []string
					if isWrite {
						stmts = append(stmts, "we:0:130")
					}
					// every k (quick tier: about 150 of them) and ALWAYS the last few fault points: a
					// fault while the final bytes (last digit, trailing line feed) are delivered
					ks := []int{}
					for k := 0; k <= total+1; k += step {
						ks = append(ks, k)
					}
					if step > 1 {
						for k := max(total-3, 0); k <= total+1; k++ {
							if k%step != 0 {
								ks = append(ks, k)
							}
						}
					}
					for _, k := range ks {
						if isWrite {
							stmts = append(stmts, fmt.Sprintf("fwr:1:%s:%d:%d", o, mode, k))
						} else {
							stmts = append(stmts, fmt.Sprintf("fpr:0:%s:%s:%d:%d", pos, o, mode, k))
						}
						if len(stmts) >= 40 {
							emitScriptLine(e, v, ns.desc, strings.Join(stmts, ";"))
							stmts = stmts[:0]
							if isWrite {
								stmts = append(stmts, "we:0:130")
							}
						}
					}
					if len(stmts) > 1 || (!isWrite && len(stmts) > 0) {
						emitScriptLine(e, v, ns.desc, strings.Join(stmts, ";"))
					}
					e.count(fmt.Sprintf("C12.mode%d.buf%d", mode, bs))
				}
			}
		}
	}
	// every shape of the options (rows / columns / labels on or off, trailing LF, leading decimal)
	// with a fault at a few points: code that runs only on the error path must cope with all of them
	for _, R := range []int{0, 10} {
		for _, C := range []int{0, 5} {
			for _, S := range []int{0, 1} {
				for v := 1; v <= 3; v++ {
					o := fmt.Sprintf("R%d.C%d.S%d.B%d", R, C, S, r.pick([]int{1, 3, 16}))
					if v == 3 && r.coin(50) {
						o += fmt.Sprintf(".T%d.L%d", r.intn(2), r.intn(2))
					}
					var stmts []string
					for _, k := range []int{0, 1, 7, 30, 31} {
						stmts = append(stmts, fmt.Sprintf("fpr:0:r3~25,r40~44:%s:%d:%d", o, r.intn(3), k))
					}
					emitScriptLine(e, v, "G:-1:1:0", strings.Join(stmts, ";"))
				}
			}
		}
	}
	e.count("C12.optionshapes")
	// small prints through the DEFAULT buffer (no buffer-size option at all): every fault point
	for _, pos := range []string{"r0~1", "r0~20", "r0~64", "r3~9,r30~41", "a0"} {
		for _, o := range []string{"-", "R10.C5", "R0", "S0.C0"} {
			for v := 1; v <= 3; v++ {
				var stmts []string
				for k := 0; k <= 100; k++ {
					stmts = append(stmts, fmt.Sprintf("fpr:0:%s:%s:%d:%d", pos, o, (k+v)%3, k))
					if len(stmts) == 40 {
						emitScriptLine(e, v, "G:-1:1:0", strings.Join(stmts, ";"))
						stmts = stmts[:0]
					}
				}
				if len(stmts) > 0 {
					emitScriptLine(e, v, "G:-1:1:0", strings.Join(stmts, ";"))
				}
			}
		}
	}
	e.count("C12.small_prints_default_buffer")
	// one long line (rows switched off) through the default buffer: the fault must still stop the
	// feeding loop within a buffer's worth of digits
	for i := 0; i < 6; i++ {
		o := r.pickS([]string{"R0", "R0.C3", "R-1.C5.S0", "R0.B0"})
		k := r.pick([]int{0, 10, 1000, 5000})
		for v := 1; v <= 3; v++ {
			emitScriptLine(e, v, "G:-1:1:0", fmt.Sprintf("cons;fpr:0:r0~4990:%s:%d:%d;cons", o, r.intn(3), k))
		}
	}
	e.count("C12.prompt.single_line")
	// digits pulled after the fault: counting source, fault early in a long output
	for i := 0; i < 30; i++ {
		k := r.pick([]int{0, 1, 10, 100, 500})
		o := fmt.Sprintf("B%d", r.pick([]int{1, 16, 0}))
		for v := 1; v <= 3; v++ {
			emitScriptLine(e, v, "G:-1:1:0", fmt.Sprintf("cons;fpr:0:r0~4900:%s:%d:%d;cons", o, r.intn(3), k))
		}
		e.count("C12.prompt")
	}
	// ... and with a fault before the LAST of several ranges: the digits between the ranges must
	// not be computed once the writer has failed
	for i := 0; i < 30; i++ {
		k := r.pick([]int{0, 1, 10, 30})
		o := fmt.Sprintf("B%d", r.pick([]int{1, 4, 16}))
		far := r.pick([]int{2500, 4000, 9000})
		for v := 1; v <= 3; v++ {
			emitScriptLine(e, v, "G:-1:1:0", fmt.Sprintf("cons;fpr:0:r0~200,r%d~%d:%s:%d:%d;cons", far, far+20, o, r.intn(3), k))
		}
		e.count("C12.prompt.multirange")
	}
	// ... and with the fault noticed while the LAST memoized digit is being formatted (position
	// 100·j − 1 of a range that goes on): leaving the loop must not request the next block. Tiny
	// outputs, one fresh Number per case, every fault point, small buffers.
	bounds := []int{100, 200}
	if tier == "thorough" {
		bounds = []int{100, 200, 300, 1000, 2500}
	}
	for _, b := range bounds {
		bss, lays := []int{1, 3, 16}, []string{"R0.C0.S0", "R10.C5"}
		if tier == "thorough" {
			bss, lays = []int{1, 2, 3, 5, 16}, []string{"R0.C0.S0", "R10.C5", "R7.C0.S0"}
		}
		for _, bs := range bss {
			for _, lay := range lays {
				for v := 1; v <= 3; v++ {
					for mode := 0; mode <= 2; mode++ {
						if tier == "quick" && (mode+b/100+bs+v)%2 == 1 && lay != "R0.C0.S0" {
							continue
						}
						for k := 0; k <= 46; k++ {
							pre := ""
							if k%3 == 1 {
								pre = fmt.Sprintf("at:0:%d;", b-50)
							}
							emitScriptLine(e, v, "G:-1:1:0", fmt.Sprintf("%sfpr:0:r%d~%d:%s.B%d:%d:%d;cons", pre, b-11, b+9, lay, bs, mode, k))
						}
					}
				}
			}
		}
		e.count("C12.prompt.blockboundary")
	}
}

func init() {
	groups["C10"] = genC10
	groups["C12"] = genC12
}

package main

// Uniform adapters over the three shipped versions (github.com/keep94/sqroot, /v2, /v3).

import (
	"fmt"
	"math/big"
	"strings"

	sq1 "github.com/keep94/sqroot"
	sq2 "github.com/keep94/sqroot/v2"
	sq3 "github.com/keep94/sqroot/v3"
)

// Num is a Number of one of the versions.
type Num struct {
	v  int
	n1 *sq1.Number
	n2 *sq2.Number
	n3 sq3.Number
}

// Seq is a Sequence of one of the versions.
type Seq struct {
	v  int
	s1 sq1.Sequence
	s2 sq2.Sequence
	s3 sq3.Sequence
}

type PD struct{ P, D int }

func (n Num) Seq() Seq {
	switch n.v {
	case 1:
		return Seq{v: 1, s1: n.n1}
	case 2:
		return Seq{v: 2, s2: n.n2}
	}
	return Seq{v: 3, s3: n.n3}
}

// root constructors. ctor: "i64", "rat64", "bigint", "bigrat"
func newRoot(v, deg int, ctor string, num, den *big.Int) Num {
	switch ctor {
	case "i64":
		x := num.Int64()
		switch {
		case v == 1 && deg == 2:
			return Num{v: 1, n1: sq1.Sqrt(x)}
		case v == 1:
			return Num{v: 1, n1: sq1.CubeRoot(x)}
		case v == 2 && deg == 2:
			return Num{v: 2, n2: sq2.Sqrt(x)}
		case v == 2:
			return Num{v: 2, n2: sq2.CubeRoot(x)}
		case deg == 2:
			return Num{v: 3, n3: sq3.Sqrt(x)}
		default:
			return Num{v: 3, n3: sq3.CubeRoot(x)}
		}
	case "rat64":
		a, b := num.Int64(), den.Int64()
		switch {
		case v == 1 && deg == 2:
			return Num{v: 1, n1: sq1.SqrtRat(a, b)}
		case v == 1:
			return Num{v: 1, n1: sq1.CubeRootRat(a, b)}
		case v == 2 && deg == 2:
			return Num{v: 2, n2: sq2.SqrtRat(a, b)}
		case v == 2:
			return Num{v: 2, n2: sq2.CubeRootRat(a, b)}
		case deg == 2:
			return Num{v: 3, n3: sq3.SqrtRat(a, b)}
		default:
			return Num{v: 3, n3: sq3.CubeRootRat(a, b)}
		}
	case "bigint":
		x := new(big.Int).Set(num)
		switch {
		case v == 1 && deg == 2:
			return Num{v: 1, n1: sq1.SqrtBigInt(x)}
		case v == 1:
			return Num{v: 1, n1: sq1.CubeRootBigInt(x)}
		case v == 2 && deg == 2:
			return Num{v: 2, n2: sq2.SqrtBigInt(x)}
		case v == 2:
			return Num{v: 2, n2: sq2.CubeRootBigInt(x)}
		case deg == 2:
			return Num{v: 3, n3: sq3.SqrtBigInt(x)}
		default:
			return Num{v: 3, n3: sq3.CubeRootBigInt(x)}
		}
	default: // bigrat
		r := new(big.Rat).SetFrac(num, den)
		switch {
		case v == 1 && deg == 2:
			return Num{v: 1, n1: sq1.SqrtBigRat(r)}
		case v == 1:
			return Num{v: 1, n1: sq1.CubeRootBigRat(r)}
		case v == 2 && deg == 2:
			return Num{v: 2, n2: sq2.SqrtBigRat(r)}
		case v == 2:
			return Num{v: 2, n2: sq2.CubeRootBigRat(r)}
		case deg == 2:
			return Num{v: 3, n3: sq3.SqrtBigRat(r)}
		default:
			return Num{v: 3, n3: sq3.CubeRootBigRat(r)}
		}
	}
}

func newRat(v int, num, den *big.Int) Num {
	r := new(big.Rat).SetFrac(num, den)
	switch v {
	case 1:
		return Num{v: 1, n1: sq1.NewNumberFromBigRat(r)}
	case 2:
		return Num{v: 2, n2: sq2.NewNumberFromBigRat(r)}
	}
	return Num{v: 3, n3: sq3.NewNumberFromBigRat(r)}
}

// genNumber builds a Number backed by an arbitrary digit source (v3: NewNumber; v1/v2: hook).
type funcGen struct {
	f   func() int
	exp int
}

func (g *funcGen) Generate() (func() int, int) { return g.f, g.exp }

func newFromSource(v int, f func() int, exp int) Num {
	switch v {
	case 1:
		return Num{v: 1, n1: sq1.VerifNewNumber(f, exp)}
	case 2:
		return Num{v: 2, n2: sq2.VerifNewNumber(f, exp)}
	}
	return Num{v: 3, n3: sq3.NewNumber(&funcGen{f, exp})}
}

func (n Num) IsZero() bool {
	switch n.v {
	case 1:
		return n.n1.IsZero()
	case 2:
		return n.n2.IsZero()
	}
	return n.n3.IsZero()
}

func (n Num) Exponent() int {
	switch n.v {
	case 1:
		return n.n1.Exponent()
	case 2:
		return n.n2.Exponent()
	}
	return n.n3.Exponent()
}

func (n Num) At(p int) int {
	switch n.v {
	case 1:
		return n.n1.At(p)
	case 2:
		return n.n2.At(p)
	}
	return n.n3.At(p)
}

func (n Num) String() string {
	switch n.v {
	case 1:
		return n.n1.String()
	case 2:
		return n.n2.String()
	}
	return n.n3.String()
}

func (n Num) Sprintf(format string) string {
	switch n.v {
	case 1:
		return fmt.Sprintf(format, n.n1)
	case 2:
		return fmt.Sprintf(format, n.n2)
	}
	return fmt.Sprintf(format, n.n3)
}

func (n Num) WithSignificant(k int) Num {
	switch n.v {
	case 1:
		return Num{v: 1, n1: n.n1.WithSignificant(k)}
	case 2:
		return Num{v: 2, n2: n.n2.WithSignificant(k)}
	}
	return Num{v: 3, n3: n.n3.WithSignificant(k)}
}

func (s Seq) WithStart(k int) Seq {
	switch s.v {
	case 1:
		return Seq{v: 1, s1: s.s1.WithStart(k)}
	case 2:
		return Seq{v: 2, s2: s.s2.WithStart(k)}
	}
	return Seq{v: 3, s3: s.s3.WithStart(k)}
}

func (s Seq) WithEnd(k int) Seq {
	switch s.v {
	case 1:
		return Seq{v: 1, s1: s.s1.WithEnd(k)}
	case 2:
		return Seq{v: 2, s2: s.s2.WithEnd(k)}
	}
	return Seq{v: 3, s3: s.s3.WithEnd(k)}
}

// Forward pulls at most max items from the version's primary forward traversal
// (v1 FullIterator, v2 Iterator, v3 All). more reports whether the traversal had not ended.
func (s Seq) Forward(max int) (out []PD, more bool) {
	switch s.v {
	case 1:
		it := s.s1.FullIterator()
		for len(out) < max {
			d, ok := it()
			if !ok {
				return out, false
			}
			out = append(out, PD{d.Position, d.Value})
		}
		return out, true
	case 2:
		it := s.s2.Iterator()
		for len(out) < max {
			d, ok := it()
			if !ok {
				return out, false
			}
			out = append(out, PD{d.Position, d.Value})
		}
		return out, true
	}
	if max <= 0 {
		return nil, true
	}
	more = false
	for p, d := range s.s3.All() {
		out = append(out, PD{p, d})
		if len(out) >= max {
			more = true
			break
		}
	}
	return out, more
}

// Backward: full backward traversal (max items). ok=false if the value has no backward API (v3 non-finite).
func (s Seq) Backward(max int) (out []PD, ok bool) {
	switch s.v {
	case 1:
		it := s.s1.FullReverse()
		for len(out) < max {
			d, ok := it()
			if !ok {
				break
			}
			out = append(out, PD{d.Position, d.Value})
		}
		return out, true
	case 2:
		it := s.s2.Reverse()
		for len(out) < max {
			d, ok := it()
			if !ok {
				break
			}
			out = append(out, PD{d.Position, d.Value})
		}
		return out, true
	}
	fs, isFin := s.s3.(sq3.FiniteSequence)
	if !isFin {
		return nil, false
	}
	if max <= 0 {
		return nil, true
	}
	for p, d := range fs.Backward() {
		out = append(out, PD{p, d})
		if len(out) >= max {
			break
		}
	}
	return out, true
}

// firstDigits returns up to k leading digits as a string and whether the sequence ended before k.
func (n Num) firstDigits(k int) (string, bool) {
	var sb strings.Builder
	cnt := 0
	switch n.v {
	case 1:
		it := n.n1.Iterator()
		for cnt < k {
			d := it()
			if d < 0 {
				return sb.String(), true
			}
			sb.WriteByte('0' + byte(d))
			cnt++
		}
	case 2:
		it := n.n2.Iterator()
		for cnt < k {
			d, ok := it()
			if !ok {
				return sb.String(), true
			}
			sb.WriteByte('0' + byte(d.Value))
			cnt++
		}
	default:
		if k <= 0 {
			return "", false
		}
		ended := true
		for d := range n.n3.Values() {
			sb.WriteByte('0' + byte(d))
			cnt++
			if cnt >= k {
				ended = false
				break
			}
		}
		if ended {
			return sb.String(), true
		}
	}
	// got k digits; ended iff there is no digit at position k
	return sb.String(), n.At(k) < 0
}

func pdString(xs []PD) string {
	if len(xs) == 0 {
		return "-"
	}
	var sb strings.Builder
	for i, x := range xs {
		if i > 0 {
			sb.WriteByte(',')
		}
		fmt.Fprintf(&sb, "%d:%d", x.P, x.D)
	}
	return sb.String()
}

func intsString(xs []int) string {
	if len(xs) == 0 {
		return "-"
	}
	var sb strings.Builder
	for i, x := range xs {
		if i > 0 {
			sb.WriteByte(',')
		}
		fmt.Fprintf(&sb, "%d", x)
	}
	return sb.String()
}

// newRootRaw passes the caller's own *big.Int / *big.Rat (no defensive copy in the harness): C14.
func newRootRaw(v, deg int, x *big.Int, q *big.Rat) Num {
	switch {
	case x != nil && v == 1 && deg == 2:
		return Num{v: 1, n1: sq1.SqrtBigInt(x)}
	case x != nil && v == 1:
		return Num{v: 1, n1: sq1.CubeRootBigInt(x)}
	case x != nil && v == 2 && deg == 2:
		return Num{v: 2, n2: sq2.SqrtBigInt(x)}
	case x != nil && v == 2:
		return Num{v: 2, n2: sq2.CubeRootBigInt(x)}
	case x != nil && deg == 2:
		return Num{v: 3, n3: sq3.SqrtBigInt(x)}
	case x != nil:
		return Num{v: 3, n3: sq3.CubeRootBigInt(x)}
	case v == 1 && deg == 2:
		return Num{v: 1, n1: sq1.SqrtBigRat(q)}
	case v == 1:
		return Num{v: 1, n1: sq1.CubeRootBigRat(q)}
	case v == 2 && deg == 2:
		return Num{v: 2, n2: sq2.SqrtBigRat(q)}
	case v == 2:
		return Num{v: 2, n2: sq2.CubeRootBigRat(q)}
	case deg == 2:
		return Num{v: 3, n3: sq3.SqrtBigRat(q)}
	}
	return Num{v: 3, n3: sq3.CubeRootBigRat(q)}
}

func newRatRaw(v int, q *big.Rat) Num {
	switch v {
	case 1:
		return Num{v: 1, n1: sq1.NewNumberFromBigRat(q)}
	case 2:
		return Num{v: 2, n2: sq2.NewNumberFromBigRat(q)}
	}
	return Num{v: 3, n3: sq3.NewNumberFromBigRat(q)}
}

package main

import (
	"fmt"
	"math/big"
	"strconv"
	"strings"
	"sync"
	"time"
)

// ---------------------------------------------------------------- C08 formatting

func fmtDirectives(r *rng, e int, length int) []string {
	verbs := []string{"f", "F", "e", "E", "g", "G", "v"}
	var out []string
	precs := []int{-1, 0, 1, 2, 5, 6, 7, 15, 16, 17, 40}
	if e > 1 {
		precs = append(precs, e-1, e, e+1)
	}
	if length > 0 {
		precs = append(precs, length-1, length, length+1)
	}
	for i := 0; i < 6; i++ {
		v := verbs[r.intn(len(verbs))]
		if i == 0 {
			v = r.pickS([]string{"e", "E"}) // always one scientific directive (exponent width matters for padding)
		}
		p := precs[r.intn(len(precs))]
		if p < -1 {
			p = 0
		}
		w := r.pick([]int{-1, -1, 0, 3, 8, 12, 25, 60})
		d := "%"
		if r.coin(40) {
			d += "-"
		}
		if w >= 0 {
			d += fmt.Sprint(w)
		}
		if p >= 0 {
			d += "." + fmt.Sprint(p)
		}
		out = append(out, d+v)
	}
	// unsupported verbs and flags: must not panic, %!verb(number=…) for verbs
	out = append(out, "%"+r.pickS([]string{"d", "s", "q", "x", "t", "c", "b", "o", "U"}))
	// … also with a width, a precision and the '-' flag: the text inside the parentheses is String()
	out = append(out, "%"+r.pickS([]string{"", "-"})+r.pickS([]string{"", "3", "24"})+r.pickS([]string{"", ".0", ".3", ".20"})+r.pickS([]string{"d", "s", "q", "x", "h"}))
	out = append(out, "%"+r.pickS([]string{"+", "#", "0", "+0"})+r.pickS([]string{"f", "e", "g"}))
	// every other ASCII letter is an unsupported verb — in particular the case-swapped twins of
	// supported ones (V) — except T, p, w, which fmt handles without calling Format
	const others = "abcdhijklmnoqrstuxyzABCDHIJKLMNOQRSUVWXYZ"
	out = append(out, "%"+string(others[r.intn(len(others))]))
	out = append(out, "%"+r.pickS([]string{"", "-"})+r.pickS([]string{"", "12"})+r.pickS([]string{"", ".4"})+r.pickS([]string{"V", "V", "D", "S", "X", "Q"}))
	return out
}

func genC08(e *emitter, r *rng, tier string) {
	n := 300
	if tier == "thorough" {
		n = 4000
	}
	exps := []int{-12, -8, -5, -4, -3, -2, -1, 0, 1, 2, 5, 6, 7, 8, 16, 17, 20, 300}
	for i := 0; i < n; i++ {
		ex := exps[r.intn(len(exps))]
		if r.coin(20) {
			// exponents with three and four digits (the e+XX part of the field grows), both signs
			ex = r.pick([]int{-1000, -300, -101, -100, -99, 99, 100, 101, 999, 1000})
		}
		length := r.pick([]int{1, 2, 3, 5, 6, 7, 15, 16, 17, 30, -1})
		var ns numSpec
		switch r.intn(4) {
		case 0: // v3 test number with any exponent
			if length < 0 {
				ns = testNumber(r, r.intn(4), 1+r.intn(5), ex, 0)
			} else {
				ns = testNumber(r, length, 0, ex, 0)
			}
		case 1: // all versions: rational with a terminating expansion of chosen length and exponent
			if length < 0 {
				length = 5
			}
			ds := randDigits(r, length)
			if ds[len(ds)-1] == 0 {
				ds[len(ds)-1] = 7
			}
			num := new(big.Int)
			for _, d := range ds {
				num.Mul(num, big.NewInt(10)).Add(num, big.NewInt(int64(d)))
			}
			// value = 0.ds * 10^ex = num * 10^(ex-length)
			den := big.NewInt(1)
			if sh := ex - length; sh >= 0 {
				num.Mul(num, pow(10, sh))
			} else {
				den = pow(10, -sh)
			}
			ns = numSpec{desc: fmt.Sprintf("R:%s:%s", num, den), length: length, allV: true}
		case 2: // roots and non-terminating rationals
			ns = someNumber(r)
		default:
			ns = numSpec{desc: "Z", length: 0, allV: true}
		}
		b := newScriptBuilder(r, ns)
		h := 0
		if r.coin(40) {
			k := r.pick([]int{0, 1, 2, 5, 6, 16, 17, 100})
			b.add("wsig:0:%d", k)
			b.handles = append(b.handles, hinfo{0, k})
			h = 1
		}
		for _, d := range fmtDirectives(r, ex, length) {
			b.add("fmt:%d:%s", h, d)
		}
		b.add("str:%d", h)
		if ns.length >= 0 || h == 1 {
			b.add("exact:%d", h)
		}
		if h == 1 {
			// formatting a truncated view (zero padding beyond its digits) must leave the parent's
			// digits alone: format and read the parent afterwards, beyond the view's length
			b.add("fmt:0:%%.%df", r.pick([]int{8, 20, 40, 120}))
			b.add("fmt:0:%%.%de", r.pick([]int{8, 20, 40, 120}))
			b.add("str:0")
			b.add("fwd:0:%d", r.pick([]int{10, 30, 130}))
		}
		b.emit(e, fmt.Sprintf("C08.exp%d", ex))
	}
}

// ---------------------------------------------------------------- C09 search

func patString(p []int) string {
	if len(p) == 0 {
		return "e"
	}
	var parts []string
	for _, x := range p {
		parts = append(parts, fmt.Sprint(x))
	}
	return strings.Join(parts, "_")
}

// ratWithDigits: a Number (all versions) whose digit string is exactly ds (no zeros at the end)
func ratWithDigits(ds []int) numSpec {
	num := new(big.Int)
	for _, d := range ds {
		num.Mul(num, big.NewInt(10)).Add(num, big.NewInt(int64(d)))
	}
	dd := append([]int(nil), ds...)
	return numSpec{desc: fmt.Sprintf("R:%s:%s", num, pow(10, len(ds))), length: len(ds), allV: true,
		digit: func(p int) int { return dd[p] }}
}

func addFindOps(b *scriptBuilder, r *rng, h int, pat string, finite bool) {
	ns := []int{-1, 0, 1, 2, 3, 100}
	b.add("ff:%d:%s", h, pat)
	b.add("ffn:%d:%s:%d", h, pat, ns[r.intn(len(ns))])
	b.add("find:%d:%s:%d", h, pat, 1+r.intn(4))
	b.add("m2:%d:%s:%d", h, pat, ns[r.intn(len(ns))])
	if finite {
		b.add("fa:%d:%s", h, pat)
		b.add("fl:%d:%s", h, pat)
		b.add("fln:%d:%s:%d", h, pat, ns[r.intn(len(ns))])
		b.add("findr:%d:%s:%d", h, pat, 1+r.intn(4))
		b.add("bm:%d:%s:%d", h, pat, ns[r.intn(len(ns))])
		b.add("m:%d:%s:%d", h, pat, 1000)
	}
}

func genC09(e *emitter, r *rng, tier string) {
	// small-scope exhaustive: all patterns of length <= 3 over {1,2} x all texts of length <= 6 over {1,2}
	maxText := 6
	if tier == "thorough" {
		maxText = 8
	}
	var texts, pats [][]int
	var rec func(cur []int, n int, out *[][]int, maxLen int)
	rec = func(cur []int, n int, out *[][]int, maxLen int) {
		if len(cur) > 0 || maxLen == 3 {
			*out = append(*out, append([]int(nil), cur...))
		}
		if len(cur) == maxLen {
			return
		}
		for d := 1; d <= 2; d++ {
			rec(append(cur, d), n, out, maxLen)
		}
	}
	rec(nil, 0, &texts, maxText)
	rec(nil, 0, &pats, 3)
	for _, t := range texts {
		if len(t) == 0 {
			continue
		}
		ns := ratWithDigits(t)
		b := newScriptBuilder(r, ns)
		for _, p := range pats {
			ps := patString(p)
			b.add("fa:0:%s", ps)
			b.add("findr:0:%s:%d", ps, len(t)+2)
			b.add("ffn:0:%s:2", ps)
			b.add("fln:0:%s:2", ps)
		}
		b.emit(e, "C09.exhaustive")
	}
	n := 250
	if tier == "thorough" {
		n = 3000
	}
	for i := 0; i < n; i++ {
		alphabet := 1 + r.intn(3)
		length := r.pick([]int{1, 2, 3, 10, 40, 99, 100, 101, 250, 600})
		var ns numSpec
		infinite := false
		switch r.intn(3) {
		case 0:
			ns = ratWithDigits(lowEntropyDigits(r, length, alphabet))
		case 1:
			ns = testNumber(r, length, 0, r.rangeInt(-3, 5), alphabet)
		default:
			ns = testNumber(r, r.intn(6), 1+r.intn(7), r.rangeInt(-3, 5), alphabet)
			infinite = true
		}
		b := newScriptBuilder(r, ns)
		// window
		h := 0
		if r.coin(60) {
			s := r.pick([]int{-1, 0, 1, 2, 5, 50, 99, 100, 101})
			b.add("ws:0:%d", s)
			b.handles = append(b.handles, hinfo{s, maxInt})
			h = len(b.handles) - 1
		}
		if r.coin(60) || infinite {
			en := r.pick([]int{0, 1, 3, 8, 60, 100, 101, 130, 700})
			b.add("we:%d:%d", h, en)
			b.handles = append(b.handles, hinfo{b.handles[h].lo, en})
			h = len(b.handles) - 1
		}
		for j := 0; j < 3; j++ {
			var p []int
			switch r.intn(8) {
			case 0:
				p = nil // empty
			case 1: // contains an out-of-range value
				p = lowEntropyDigits(r, 1+r.intn(3), alphabet)
				if r.coin(50) {
					p[r.intn(len(p))] = r.pick([]int{-1, 10, 77, -9})
				} else {
					// a value that is a digit after truncation to 8/16/32 bits: still matches nowhere
					i := r.intn(len(p))
					p[i] += r.pick([]int{256, -256, 512, 65536, -65536, 1 << 32, -(1 << 32), 1 << 40})
				}
			case 2: // periodic / nested borders
				unit := lowEntropyDigits(r, 1+r.intn(3), alphabet)
				for k := 0; k < 2+r.intn(12); k++ {
					p = append(p, unit...)
				}
				p = p[:1+r.intn(len(p))]
			case 3: // longer than the text
				p = lowEntropyDigits(r, length+1+r.intn(3), alphabet)
			default: // a factor of the text itself (guaranteed occurrences)
				if ns.digit != nil && ns.length != 0 {
					l := ns.length
					if l < 0 {
						l = 60
					}
					st := r.intn(l)
					ln := 1 + r.intn(min(6, l-st))
					for k := 0; k < ln; k++ {
						p = append(p, ns.digit(st+k))
					}
				} else {
					p = lowEntropyDigits(r, 1+r.intn(4), alphabet)
				}
			}
			addFindOps(b, r, h, patString(p), true)
			// searches that stay alive while other searches are created and run
			if !infinite || b.handles[h].hi < 5000 {
				b.add("mkf:%d:%s", h, patString(p))
				b.add("mkfr:%d:%s", h, patString(p))
			}
		}
		nf := 0
		for _, st := range b.stmts {
			if strings.HasPrefix(st, "mkf") {
				nf++
			}
		}
		for j := 0; j < 3*nf; j++ {
			b.add("nxf:%d:%d", r.intn(max(nf, 1)), 1+r.intn(3))
		}
		b.emit(e, fmt.Sprintf("C09.random.alphabet%d", alphabet))
	}
	// state carried from one search to the next (caches of compiled patterns, reused tables): a
	// pattern A that occurs, then improper relatives of A that must match nowhere — A with a
	// "decimal carry" moved between neighbours (a-1, b+10 / a+1, b-10), with 256·k or 2^32·k
	// added to a digit — then A again, and the other way round on a fresh Number
	m := 60
	if tier == "thorough" {
		m = 800
	}
	for i := 0; i < m; i++ {
		alphabet := 2 + r.intn(2)
		length := r.pick([]int{12, 40, 101})
		ns := ratWithDigits(lowEntropyDigits(r, length, alphabet))
		if ns.digit == nil {
			continue
		}
		st := r.intn(length - 3)
		ln := 2 + r.intn(min(5, length-st-1))
		var a []int
		for k := 0; k < ln; k++ {
			a = append(a, ns.digit(st+k))
		}
		rel := func() []int {
			bb := append([]int(nil), a...)
			j := r.intn(len(bb) - 1)
			switch r.intn(4) {
			case 0:
				bb[j]--
				bb[j+1] += 10
			case 1:
				bb[j]++
				bb[j+1] -= 10
			case 2:
				bb[j] += r.pick([]int{256, -256, 65536, 1 << 32})
			default:
				bb[j] += 10
				if j > 0 {
					bb[j-1]--
				}
			}
			return bb
		}
		b := newScriptBuilder(r, ns)
		order := [][]int{a, rel(), a, rel(), rel(), a}
		if r.coin(50) {
			order = [][]int{rel(), a, rel(), a}
		}
		for _, pt := range order {
			ps := patString(pt)
			switch r.intn(4) {
			case 0:
				b.add("fa:0:%s", ps)
			case 1:
				b.add("ffn:0:%s:%d", ps, 1+r.intn(3))
				b.add("fl:0:%s", ps)
			case 2:
				b.add("findr:0:%s:%d", ps, 2)
				b.add("ff:0:%s", ps)
			default:
				b.add("m:0:%s:1000", ps)
				b.add("bm:0:%s:1000", ps)
			}
		}
		b.emit(e, "C09.consecutive_related_patterns")
	}
	// counts far above the number of occurrences, and MANY occurrences (more than 1024, 4096):
	// the N-variants with n in the thousands and n = MaxInt ("all of them") must agree with FindAll
	big := 6
	if tier == "thorough" {
		big = 60
	}
	for i := 0; i < big; i++ {
		length := r.pick([]int{1100, 2100, 2200}) // below the depth of the oracle's and the model's digit tables (3000)
		// a repeating decimal, available in every version: 1/9 = 0.111…, 12/99 = 0.1212…, 1/3, 7/9
		rep := [][3]int{{1, 9, 1}, {12, 99, 1}, {1, 3, 3}, {7, 9, 7}, {21, 99, 2}}[r.intn(5)]
		ns := numSpec{desc: fmt.Sprintf("R:%d:%d", rep[0], rep[1]), length: -2, allV: true}
		b := newScriptBuilder(r, ns)
		b.add("we:0:%d", length)
		b.handles = append(b.handles, hinfo{0, length})
		var pt []int
		if r.coin(70) {
			pt = []int{rep[2]}
		}
		ps := patString(pt)
		for _, n := range []int{1025, 5000, maxInt} {
			if r.coin(70) {
				b.add("ffn:1:%s:%d", ps, n)
			}
			if r.coin(70) {
				b.add("fln:1:%s:%d", ps, n)
			}
		}
		b.add("fa:1:%s", ps)
		b.emit(e, "C09.many_occurrences_large_n")
	}
	// … and beyond 4096 / 8192 occurrences: every position of a 4200- to 9000-digit window of a
	// generator-backed Number (known to the oracle at any depth) matches the empty pattern
	for i := 0; i < big; i++ {
		length := r.pick([]int{4200, 6000, 9000})
		ns := genNumber(-1, r.rangeInt(-2, 3), false)
		b := newScriptBuilder(r, ns)
		b.add("we:0:%d", length)
		b.handles = append(b.handles, hinfo{0, length})
		for _, n := range []int{4097, 8193, maxInt} {
			if r.coin(60) {
				b.add("ffn:1:e:%d", n)
			}
			if r.coin(60) {
				b.add("fln:1:e:%d", n)
			}
		}
		b.add("fa:1:e")
		b.emit(e, "C09.many_occurrences_large_n")
	}
}

// ---------------------------------------------------------------- C15 searches stop at the answer

func genC15(e *emitter, r *rng, tier string) {
	n := 150
	if tier == "thorough" {
		n = 1500
	}
	planted := []int{0, 1, 50, 97, 98, 99, 100, 101, 150, 198, 199, 200, 201, 450, 2500, 5000, 9000}
	// the read-ahead must not grow with the depth of the match: deep plants in every run, on every
	// version, through every lazy entry point
	for _, q := range []int{5200, 6400, 7900, 9800, 12500, 16000, 20000, 40000, 80000, 160000} {
		// a pattern whose FIRST occurrence in the source's digits is at q. G sources' digits are
		// close to periodic (the pattern occurs earlier, wherever that is is still a fair case);
		// H sources' are hashed, so the first occurrence really is that deep
		for _, kind := range []string{"G", "H"} {
			dg := genDigit
			if kind == "H" {
				dg = hashDigit
			}
			var p []int
			for ln := 8; ln <= 16; ln++ {
				p = p[:0]
				for k := 0; k < ln; k++ {
					p = append(p, dg(q+k))
				}
				earlier := false
				for st := 0; st < q && !earlier; st++ {
					k := 0
					for k < ln && dg(st+k) == p[k] {
						k++
					}
					earlier = k == ln
				}
				if !earlier {
					e.count("C15.deep_plant_first_occurrence_at_depth_" + fmt.Sprint(q))
					break
				}
			}
			ps := patString(p)
			for _, op := range []string{"ff:0:%s", "ffn:0:%s:1", "find:0:%s:1", "m:0:%s:1"} {
				for v := 1; v <= 3; v++ {
					emitScriptLine(e, v, kind+":-1:1:0", "cons;"+fmt.Sprintf(op, ps)+";cons")
				}
			}
		}
		e.count("C15.deep_plant")
	}
	for i := 0; i < n; i++ {
		var ns numSpec
		if r.coin(70) {
			ns = genNumber(-1, r.rangeInt(-3, 5), false)
		} else {
			ns = genNumber(r.pick([]int{100, 101, 250, 300, 2600, 9100}), 2, false)
		}
		b := newScriptBuilder(r, ns)
		h := 0
		if r.coin(40) {
			s := r.pick([]int{1, 50, 99, 100, 101, 300})
			b.add("ws:0:%d", s)
			b.handles = append(b.handles, hinfo{s, maxInt})
			h = 1
		}
		farEnd := 0
		if r.coin(35) {
			// a BOUNDED view of the sequence whose end lies far beyond the match (or at the top of
			// the int range): the search must not look at the rest of the view
			farEnd = r.pick([]int{20000, 200000, 3000000, maxInt - 1, maxInt})
			b.add("we:%d:%d", h, farEnd)
			b.handles = append(b.handles, hinfo{b.handles[h].lo, farEnd})
			h = len(b.handles) - 1
		}
		b.add("cons")
		q := planted[r.intn(len(planted))]
		if ns.length >= 0 && q+6 > ns.length {
			q = ns.length - 6
		}
		if q < b.handles[h].lo {
			q = b.handles[h].lo + r.intn(5)
		}
		ln := 6 + r.intn(3)
		var p []int
		for k := 0; k < ln; k++ {
			p = append(p, genDigit(q+k))
		}
		ps := patString(p)
		switch r.intn(5) {
		case 0:
			b.add("ff:%d:%s", h, ps)
		case 1:
			b.add("ffn:%d:%s:%d", h, ps, r.pick([]int{-1, 0, 1}))
		case 2:
			b.add("find:%d:%s:1", h, ps)
		case 3:
			b.add("m:%d:%s:1", h, ps)
		default:
			b.add("ffn:%d:e:%d", h, r.pick([]int{0, 1, 5, 100, 101})) // empty pattern: first n positions
		}
		b.add("cons")
		if ns.length >= 0 {
			// finite sequences: every search function terminates
			absent := patString([]int{9, 9, 9, 9, 9, 9, 9})
			b.add("ff:%d:%s", h, absent)
			b.add("fl:%d:%s", h, absent)
			b.add("fa:%d:%s", h, ps)
			b.add("cons")
		}
		b.emit(e, fmt.Sprintf("C15.planted%d", q))
	}
}

// ---------------------------------------------------------------- C06 lazy, in order, once, bounded

func genC06(e *emitter, r *rng, tier string) {
	n := 300
	if tier == "thorough" {
		n = 4000
	}
	for i := 0; i < n; i++ {
		var ns numSpec
		switch r.intn(4) {
		case 0:
			ns = genNumber(-1, r.rangeInt(-3, 5), false)
		case 1:
			ns = genNumber(blockLengths[r.intn(len(blockLengths))], 1, true) // ill-behaved after the end (v3)
		default:
			ns = genNumber(blockLengths[r.intn(len(blockLengths))], 1, false)
		}
		b := newScriptBuilder(r, ns)
		b.add("cons")
		ops := 3 + r.intn(14)
		for j := 0; j < ops; j++ {
			before := len(b.stmts)
			switch r.intn(10) {
			case 0, 1:
				b.view()
			case 2:
				h := b.pickHandle()
				if b.cheapStart(h) {
					ps := patString([]int{genDigit(120), genDigit(121), genDigit(122), genDigit(123)})
					if b.ns.length < 0 && b.handles[h].lo > 120 && b.handles[h].hi > 5000 {
						break
					}
					if b.ns.length < 0 && b.handles[h].hi < 124 {
						break
					}
					b.add("ffn:%d:%s:1", h, ps)
				}
			case 3:
				if len(b.handles) > 0 {
					b.add("fmt:%d:%%.%df", 0, r.pick([]int{0, 3, 99, 100, 101, 250}))
				}
			case 4:
				h := b.pickHandle()
				if b.finiteWork(h) && b.cheapStart(h) {
					b.add("pr:%d:r%d~%d:-", h, r.pick([]int{0, 5, 99, 100}), r.pick([]int{1, 50, 101, 150, 320}))
				}
			case 6:
				// an EMPTY view whose start lies far beyond its end: nothing can be delivered, so
				// nothing beyond the end may be asked about, whatever the traversal method
				en := r.pick([]int{0, 1, 10, 100})
				stt := r.pick([]int{1500, 3000, 4500})
				h0 := len(b.handles)
				if r.coin(50) {
					b.add("we:0:%d", en)
					b.handles = append(b.handles, hinfo{0, en})
					b.add("ws:%d:%d", h0, stt)
				} else {
					b.add("ws:0:%d", stt)
					b.handles = append(b.handles, hinfo{stt, maxInt})
					b.add("we:%d:%d", h0, en)
				}
				b.handles = append(b.handles, hinfo{stt, en})
				b.add("%s:%d:5", r.pickS([]string{"fwd", "fwd2", "back", "astr", "ffn"}), h0+1)
				if strings.HasPrefix(b.stmts[len(b.stmts)-1], "astr") {
					b.stmts[len(b.stmts)-1] = fmt.Sprintf("astr:%d", h0+1)
				}
				if strings.HasPrefix(b.stmts[len(b.stmts)-1], "ffn") {
					b.stmts[len(b.stmts)-1] = fmt.Sprintf("ffn:%d:1_2:3", h0+1)
				}
			case 5:
				// v3: creating iterators / matchers / stored sequences consults nothing
				h := b.pickHandle()
				if b.finiteWork(h) && b.cheapStart(h) {
					switch r.intn(4) {
					case 0:
						b.add("mk:%d:back", h)
						b.iters++
					case 1:
						b.add("mkfr:%d:1_2", h)
					case 2:
						b.add("mkf:%d:1_2", h)
					default:
						b.add("m:%d:1_2:0", h)
					}
				}
			default:
				b.read()
			}
			if len(b.stmts) > before {
				b.add("cons")
			}
		}
		b.emit(e, "C06.len"+fmt.Sprint(ns.length))
	}
	// "independent of i": the same short operations far out — iterators, traversals, formatting of
	// views, printing and searching that START at a deep position on an infinite counting source
	deep := 24
	if tier == "thorough" {
		deep = 240
	}
	for i := 0; i < deep; i++ {
		start := r.pick([]int{8000, 12000, 15900, 16000, 23999, 40000})
		ns := genNumber(-1, r.rangeInt(-2, 4), false)
		b := newScriptBuilder(r, ns)
		b.add("cons")
		b.add("ws:0:%d", start)
		b.handles = append(b.handles, hinfo{start, maxInt})
		b.add("cons")
		for j := 0; j < 2+r.intn(3); j++ {
			switch r.intn(7) {
			case 0:
				b.add("fwd:1:%d", r.pick([]int{1, 50, 100, 101, 250}))
			case 1:
				b.add("fwd2:1:%d", r.pick([]int{1, 50, 100, 101, 250}))
			case 2:
				b.add("itat:0:%d:%d", start+r.pick([]int{0, 1, 99, 100}), r.pick([]int{1, 100, 101, 250}))
			case 3:
				b.add("at:0:%d", start+r.pick([]int{0, 99, 100, 150}))
			case 4:
				b.add("pr:0:r%d~%d:%s", start+r.intn(120), start+120+r.intn(200), r.pickS([]string{"-", "R10.C5", "R0.C0"}))
			case 5:
				b.add("ffn:1:%s:1", patString([]int{genDigit(start + 130), genDigit(start + 131), genDigit(start + 132), genDigit(start + 133), genDigit(start + 134), genDigit(start + 135), genDigit(start + 136)}))
			default:
				b.add("mk:1:fwd")
				b.iters++
				b.add("nx:%d:%d", b.iters-1, r.pick([]int{1, 100, 101, 220}))
			}
			b.add("cons")
		}
		b.emit(e, "C06.deepstart")
	}
}

// ---------------------------------------------------------------- C13 constructors

func genC13(e *emitter, r *rng, tier string) {
	n := 400
	if tier == "thorough" {
		n = 5000
	}
	emit3 := func(desc string, k int) {
		emitScriptLine(e, 3, desc, fmt.Sprintf("fwd:0:%d;exp:0;zero:0;at:0:0;ws:0:0", k))
	}
	// NewNumberForTesting / NewFiniteNumber: invalid digit at every index, leading zero, empties
	for i := 0; i < n/2; i++ {
		fl, rl := r.intn(6), r.intn(5)
		f, rep := randDigits(r, fl), randDigits(r, rl)
		if fl == 0 && rl > 0 && r.coin(70) && rep[0] == 0 {
			rep[0] = 3
		}
		switch r.intn(6) {
		case 0:
			if fl+rl > 0 {
				idx := r.intn(fl + rl)
				bad := r.pick([]int{-1, 10, 11, -100, maxInt, minInt})
				if idx < fl {
					f[idx] = bad
				} else {
					rep[idx-fl] = bad
				}
			}
		case 1:
			if fl > 0 {
				f[0] = 0
			} else if rl > 0 {
				rep[0] = 0
			}
		}
		ex := r.pick([]int{-5, -1, 0, 1, 7, minInt, maxInt})
		emit3(fmt.Sprintf("T:%s:%s:%d", digitsCSV(f), digitsCSV(rep), ex), 3*(fl+rl)+4)
		if r.coin(25) { // empty lists as empty non-nil slices
			emit3(fmt.Sprintf("TE:%s:%s:%d", digitsCSV(f), digitsCSV(rep), ex), 3*(fl+rl)+4)
		}
		if r.coin(40) { // the two lists are windows of one caller buffer
			emit3(fmt.Sprintf("TS:%s:%s:%d", digitsCSV(f), digitsCSV(rep), ex), 3*(fl+rl)+4)
		}
		e.count("C13.test")
		if r.coin(50) {
			emit3(fmt.Sprintf("F:%s:%d", digitsCSV(f), ex), fl+3)
			e.count("C13.finite")
		}
	}
	// NewNumber(g): streams that end, misbehave after or instead of the end marker, start badly
	for i := 0; i < n/4; i++ {
		length := blockLengths[r.intn(len(blockLengths))]
		ill := r.intn(6)
		first := r.pick([]int{-99, -99, -99, 0, 10, -1, -5, 12, 256, 65541})
		desc := fmt.Sprintf("G:%d:%d:%d", length, r.rangeInt(-3, 4), ill)
		if first != -99 {
			desc += fmt.Sprintf(":%d", first)
		}
		emit3(desc, length+5)
		e.count("C13.generator")
	}
	// NewNumberFromBigRat: all versions, all magnitudes, terminating or not
	// machine-word boundaries, always present: denominators of every bit length 55..66 — random,
	// just below 2^bits, just above 2^(bits-1) — with the numerator just below, far below and above
	// the denominator (a word-sized fast path of the long division overflows here or nowhere)
	type nd struct{ num, den *big.Int }
	var fixed []nd
	for bits := 55; bits <= 66; bits++ {
		rnd := new(big.Int).Lsh(big.NewInt(1), uint(bits-1))
		rnd.Add(rnd, new(big.Int).Rsh(new(big.Int).SetUint64(r.next()), uint(max(65-bits, 0))))
		rnd.SetBit(rnd, bits-1, 1)
		rnd.SetBit(rnd, 0, 1)
		top := new(big.Int).Sub(new(big.Int).Lsh(big.NewInt(1), uint(bits)), big.NewInt(int64(1+2*r.intn(500))))
		bot := new(big.Int).Add(new(big.Int).Lsh(big.NewInt(1), uint(bits-1)), big.NewInt(int64(1+2*r.intn(500))))
		for _, d := range []*big.Int{rnd, top, bot} {
			fixed = append(fixed, nd{new(big.Int).Sub(d, big.NewInt(int64(1+r.intn(9)))), d})
			fixed = append(fixed, nd{big.NewInt(int64(1 + r.intn(50))), d})
			if tier == "thorough" {
				fixed = append(fixed, nd{new(big.Int).Rsh(new(big.Int).Mul(d, big.NewInt(int64(9+r.intn(30)))), 3), d})
			}
		}
	}
	// values far beyond / far below the machine word that are NOT integers (a fast-forward of the
	// scaling loops by an estimated number of digits must not overshoot): 20–60-digit numerators
	// over small denominators, and the reciprocals
	for _, d := range []int{20, 22, 25, 30, 40, 60} {
		for _, den := range []int64{3, 7, 9, 11, 13, 97, 101, 997} {
			if tier == "quick" && (int64(d)+den)%3 != 0 {
				continue
			}
			num := r.bigRand(d)
			if new(big.Int).Mod(num, big.NewInt(den)).Sign() == 0 {
				num.Add(num, big.NewInt(1))
			}
			fixed = append(fixed, nd{num, big.NewInt(den)})
			fixed = append(fixed, nd{big.NewInt(den), num})
			// leading digits of the numerator below those of the denominator: 49…01 / 7
			lead := new(big.Int).Add(new(big.Int).Mul(big.NewInt(den*7/10+1), pow(10, d)), big.NewInt(1))
			fixed = append(fixed, nd{lead, big.NewInt(den)})
		}
	}
	for i := 0; i < n/4+len(fixed); i++ {
		var num, den *big.Int
		sel := r.intn(6)
		if i < len(fixed) {
			sel = 99
			num, den = fixed[i].num, fixed[i].den
		}
		switch sel {
		case 99:
		case 5:
			// machine-word boundaries: denominators of 55..65 bits, numerator just below / far below
			bits := 55 + r.intn(11)
			den = new(big.Int).Lsh(big.NewInt(1), uint(bits-1))
			den.Add(den, new(big.Int).Rsh(new(big.Int).SetUint64(r.next()), uint(65-bits)))
			den.SetBit(den, bits-1, 1)
			den.SetBit(den, 0, 1)
			if r.coin(60) {
				num = new(big.Int).Sub(den, big.NewInt(int64(1+r.intn(9))))
			} else {
				num = new(big.Int).Rsh(new(big.Int).Mul(den, big.NewInt(int64(1+r.intn(7)))), 3)
			}
		case 0:
			num, den = r.bigRand(1+r.intn(30)), new(big.Int).Mul(pow(2, r.intn(20)), pow(5, r.intn(20)))
		case 1:
			num, den = r.bigRand(1+r.intn(30)), r.bigRand(1+r.intn(30))
		case 2:
			num, den = pow(10, r.intn(30)), big.NewInt(1)
		case 3:
			num, den = big.NewInt(1), pow(10, r.intn(30))
		default:
			num, den = big.NewInt(int64(1+r.intn(999))), big.NewInt(int64(1+r.intn(999)))
		}
		k := r.pick([]int{1, 5, 40, 100, 101, 250})
		for v := 1; v <= 3; v++ {
			if e.exhausted() {
				return
			}
			res := guarded(30*time.Second, func() string {
				nn := newRat(v, num, den)
				if nn.IsZero() {
					d, _ := nn.firstDigits(3)
					return fmt.Sprintf("zero exp=%d digits=%q at0=%d", nn.Exponent(), d, nn.At(0))
				}
				ds, ended := nn.firstDigits(k)
				en := 0
				if ended {
					en = 1
				}
				if ds == "" {
					ds = "-"
				}
				return fmt.Sprintf("%d %s %d", nn.Exponent(), ds, en)
			})
			e.line("rat", fmt.Sprintf("v%d %s %s %d", v, num, den, k), res)
		}
		e.count("C13.rat")
	}
}

// ---------------------------------------------------------------- C05 concurrent readers

// conc v<k> <numdesc> <prog>|<prog>|... => <res>|<res>|... ## <cons>
func runConc(v int, desc string, progs []string) string {
	separate := strings.HasPrefix(desc, "X") // every goroutine builds and uses its OWN Number
	desc = strings.TrimPrefix(desc, "X")
	// P: the first statement of the programs (the same in all of them) is executed ONCE and what it
	// creates — a view, a stored All()/Backward()/Matches value — is SHARED by the goroutines
	prelude := strings.HasPrefix(desc, "P")
	desc = strings.TrimPrefix(desc, "P")
	env, err := newScriptNumber(v, desc)
	if err != "" {
		return err
	}
	preRes := ""
	if prelude && len(progs) > 0 {
		preRes = guardedInline(func() string { return env.execStmt(strings.SplitN(progs[0], ";", 2)[0]) })
	}
	results := make([]string, len(progs))
	var wg sync.WaitGroup
	start := make(chan struct{})
	for i, p := range progs {
		wg.Add(1)
		go func(i int, p string) {
			defer wg.Done()
			// each goroutine has its own handle/iterator tables but shares the base Number
			local := &scriptEnv{v: env.v, handles: []handle{env.handles[0]}, src: env.src, shared: true}
			if separate {
				if own, e2 := newScriptNumber(v, desc); e2 == "" {
					local = own
				}
			}
			var res []string
			stmts := strings.Split(p, ";")
			if prelude {
				// private tables, shared objects
				local.handles = append([]handle(nil), env.handles...)
				local.seqs = append(local.seqs, env.seqs...)
				local.mseqs = append(local.mseqs, env.mseqs...)
				res = append(res, preRes)
				stmts = stmts[1:]
			}
			<-start
			for _, st := range stmts {
				res = append(res, guardedInline(func() string { return local.execStmt(st) }))
			}
			results[i] = strings.Join(res, ";")
		}(i, p)
	}
	close(start)
	wg.Wait()
	if separate {
		return strings.Join(results, "|") + " ## na"
	}
	return strings.Join(results, "|") + " ## " + env.consulted()
}

func genC05(e *emitter, r *rng, tier string) {
	n := 120
	if tier == "thorough" {
		n = 1500
	}
	for i := 0; i < n; i++ {
		var ns numSpec
		switch r.intn(4) {
		case 0:
			ns = genNumber(-1, 2, false)
		case 1:
			ns = genNumber(r.pick([]int{1, 99, 100, 101, 250, 300}), 2, false)
		case 2:
			ns = numSpec{desc: fmt.Sprintf("S:%d:1", 2+r.intn(20)), length: -2, allV: true}
		default:
			ns = numSpec{desc: fmt.Sprintf("C:%d:7", 2+r.intn(20)), length: -2, allV: true}
		}
		readers := 2 + r.intn(3)
		var progs []string
		for k := 0; k < readers; k++ {
			b := newScriptBuilder(r, ns)
			ops := 1 + r.intn(6)
			for j := 0; j < ops; j++ {
				pos := r.pick([]int{0, 1, 50, 99, 100, 101, 150, 199, 200, 201, 299, 300, 301, 450})
				switch r.intn(8) {
				case 0, 1, 2:
					b.add("at:0:%d", pos)
				case 3:
					b.add("fwd:0:%d", r.pick([]int{1, 99, 100, 101, 250}))
				case 4:
					b.add("ws:0:%d", pos)
					b.handles = append(b.handles, hinfo{pos, maxInt})
					b.add("fwd:%d:%d", len(b.handles)-1, r.pick([]int{1, 5, 100, 120}))
				case 5:
					switch r.intn(4) {
					case 0:
						b.add("fmt:0:%%.%df", r.pick([]int{3, 99, 100, 101, 220}))
					case 1: // with a width / flag: the padded path of Format
						b.add("fmt:0:%%%s%d.%d%s", r.pickS([]string{"", "-"}), r.pick([]int{12, 30, 60, 130}), r.pick([]int{3, 20, 99, 101}), r.pickS([]string{"f", "e", "g", "v"}))
					case 2:
						b.add("str:0")
					default:
						b.add("pr:0:r%d~%d:%s", r.pick([]int{0, 40, 95}), r.pick([]int{101, 130, 210}), r.pickS([]string{"-", "R10.C5", "R0"}))
					}
				case 6:
					b.add("we:0:%d", pos)
					b.handles = append(b.handles, hinfo{0, pos})
					b.add("back:%d:%d", len(b.handles)-1, r.pick([]int{1, 5, 100, 120}))
				default:
					b.add("ffn:0:e:%d", r.pick([]int{1, 100, 101}))
				}
			}
			progs = append(progs, b.String())
		}
		desc := ns.desc
		if ns.length == -2 && r.coin(50) {
			desc = "X" + desc // different Numbers (same value) used concurrently: they must not share state
		}
		for v := 1; v <= 3; v++ {
			if e.exhausted() {
				return
			}
			res := guarded(20*time.Second, func() string { return runConc(v, desc, progs) })
			if res == "hang" {
				res = "!!hang"
			}
			e.line("conc", fmt.Sprintf("v%d %s %s", v, desc, strings.Join(progs, "|")), res)
		}
		e.count(fmt.Sprintf("C05.readers%d", readers))
	}
	// iterator VALUES shared between goroutines: one All() / Backward() / Matches / BackwardMatches
	// value created once and ranged over by several goroutines at the same time (each pass must be
	// independent of the others — and, in the race build, free of data races)
	sh := 30
	if tier == "thorough" {
		sh = 300
	}
	for i := 0; i < sh; i++ {
		L := r.pick([]int{40, 99, 100, 101, 250})
		ns := genNumber(L, r.rangeInt(-2, 4), false)
		var pre, use string
		switch r.intn(4) {
		case 0:
			pre, use = "mkseq:0", "run:0:%d"
		case 1:
			pre, use = "mkseqb:0", "run:0:%d"
		case 2:
			pre, use = fmt.Sprintf("mkms:0:%s", patString([]int{genDigit(5), genDigit(6)})), "runm:0:%d"
		default:
			pre, use = fmt.Sprintf("mkbms:0:%s", patString([]int{genDigit(7)})), "runm:0:%d"
		}
		var progs []string
		for k := 0; k < 3+r.intn(2); k++ {
			st := []string{pre}
			for j := 0; j < 4+r.intn(5); j++ {
				st = append(st, fmt.Sprintf(use, r.pick([]int{1, 2, 5, 1000})))
			}
			progs = append(progs, strings.Join(st, ";"))
		}
		if e.exhausted() {
			return
		}
		desc := "P" + ns.desc
		res := guarded(20*time.Second, func() string { return runConc(3, desc, progs) })
		if res == "hang" {
			res = "!!hang"
		}
		e.line("conc", fmt.Sprintf("v3 %s %s", desc, strings.Join(progs, "|")), res)
		e.count("C05.shared_iterator_values")
	}
	// many goroutines doing the SAME kind of work at the same time, on one Number and on separate
	// Numbers: package-level scratch state (pools, caches, shared buffers) shows as a wrong result
	// or, in the race build, as a data race
	m := 25
	if tier == "thorough" {
		m = 300
	}
	for i := 0; i < m; i++ {
		ns := numSpec{desc: fmt.Sprintf("%s:%d:%d", r.pickS([]string{"S", "C", "R"}), 2+r.intn(40), 1+r.intn(9)), length: -2, allV: true}
		kind := r.intn(4)
		if i%2 == 0 {
			kind = 0 // padded Format is the cheapest and the one with the most scratch state: every other script
		}
		goroutines, stmts := 4, 10
		if kind == 0 {
			goroutines, stmts = 8, 30
		}
		var progs []string
		for k := 0; k < goroutines; k++ {
			var st []string
			for j := 0; j < stmts; j++ {
				switch kind {
				case 0:
					st = append(st, fmt.Sprintf("fmt:0:%%%d.%d%s", r.pick([]int{8, 25, 40, 70}), r.pick([]int{3, 18, 33, 60}), r.pickS([]string{"f", "e", "g"})))
				case 1:
					st = append(st, fmt.Sprintf("pr:0:r%d~%d:%s", r.intn(30), 40+r.intn(80), r.pickS([]string{"-", "R10.C5", "R7.C0.S0"})))
				case 2:
					// on a bounded view: a digit that never occurs must not make the search endless
					if j == 0 {
						st = append(st, "we:0:300")
					}
					st = append(st, fmt.Sprintf("ffn:1:%d:%d", r.intn(10), 1+r.intn(3)))
				default:
					st = append(st, "str:0", fmt.Sprintf("at:0:%d", r.intn(150)))
				}
			}
			progs = append(progs, strings.Join(st, ";"))
		}
		desc := ns.desc
		if r.coin(60) {
			desc = "X" + desc
		}
		for v := 1; v <= 3; v++ {
			if e.exhausted() {
				return
			}
			res := guarded(20*time.Second, func() string { return runConc(v, desc, progs) })
			if res == "hang" {
				res = "!!hang"
			}
			e.line("conc", fmt.Sprintf("v%d %s %s", v, desc, strings.Join(progs, "|")), res)
		}
		e.count("C05.same_work_in_parallel")
	}
}

func init() {
	groups["C05"] = genC05
	groups["C06"] = genC06
	groups["C08"] = genC08
	groups["C09"] = genC09
	groups["C13"] = genC13
	groups["C15"] = genC15
	replayers["rat"] = func(e *emitter, a []string) error {
		if len(a) != 4 {
			return fmt.Errorf("rat: want 4 args")
		}
		v := atoi(strings.TrimPrefix(a[0], "v"))
		num, den, k := bigOf(a[1]), bigOf(a[2]), atoi(a[3])
		nn := newRat(v, num, den)
		res := ""
		if nn.IsZero() {
			d, _ := nn.firstDigits(3)
			res = fmt.Sprintf("zero exp=%d digits=%q at0=%d", nn.Exponent(), d, nn.At(0))
		} else {
			ds, ended := nn.firstDigits(k)
			en := 0
			if ended {
				en = 1
			}
			if ds == "" {
				ds = "-"
			}
			res = fmt.Sprintf("%d %s %d", nn.Exponent(), ds, en)
		}
		e.line("rat", strings.Join(a, " "), res)
		return nil
	}
	replayers["conc"] = func(e *emitter, a []string) error {
		if len(a) != 3 {
			return fmt.Errorf("conc: want 3 args")
		}
		v := atoi(strings.TrimPrefix(a[0], "v"))
		res := guarded(30*time.Second, func() string { return runConc(v, a[1], strings.Split(a[2], "|")) })
		if res == "hang" {
			res = "!!hang"
		}
		e.line("conc", strings.Join(a, " "), res)
		return nil
	}
	replayers["ctor"] = func(e *emitter, a []string) error {
		if len(a) != 4 {
			return fmt.Errorf("ctor: want 4 args")
		}
		v := atoi(strings.TrimPrefix(a[0], "v"))
		x, _ := strconv.ParseInt(a[2], 10, 64)
		y, _ := strconv.ParseInt(a[3], 10, 64)
		e.line("ctor", strings.Join(a, " "), runCtor(v, a[1], x, y))
		return nil
	}
	replayers["zv"] = func(e *emitter, a []string) error {
		v := atoi(strings.TrimPrefix(a[0], "v"))
		e.line("zv", a[0], runZeroValues(v))
		return nil
	}
}

// ---------------------------------------------------------------- C18 the three versions agree

func genC18(e *emitter, r *rng, tier string) {
	// roots and rationals, all three versions on identical inputs (deep runs in the thorough tier)
	genRoots(e, r, tier, []int{2, 3})
	if tier == "thorough" {
		for _, deg := range []int{2, 3} {
			rd := radicand{"deep", big.NewInt(int64(2 + r.intn(90))), big.NewInt(int64(1 + r.intn(9))), 0, false}
			for v := 1; v <= 3; v++ {
				emitRootLine(e, v, deg, "rat64", rd, 50000, 1)
			}
		}
	}
	// Positions normal forms
	n := 600
	if tier == "thorough" {
		n = 6000
	}
	for i := 0; i < n; i++ {
		s := randPosScript(r, 9)
		for v := 1; v <= 3; v++ {
			emitPosLine(e, v, s)
		}
	}
	// views, formats, searches, Sprint on Numbers every version can build
	m := 250
	if tier == "thorough" {
		m = 3000
	}
	for i := 0; i < m; i++ {
		var ns numSpec
		switch r.intn(5) {
		case 0:
			ns = numSpec{desc: fmt.Sprintf("S:%d:%d", 1+r.intn(200), 1+r.intn(50)), length: -2, allV: true}
		case 1:
			ns = numSpec{desc: fmt.Sprintf("C:%d:%d", 1+r.intn(200), 1+r.intn(50)), length: -2, allV: true}
		case 2:
			ns = ratWithDigits(lowEntropyDigits(r, r.pick([]int{1, 5, 40, 100, 101, 250}), 1+r.intn(3)))
		case 3:
			ns = numSpec{desc: fmt.Sprintf("R:%d:%d", 1+r.intn(5000), 1+r.intn(999)), length: -2, allV: true}
		default:
			ns = genNumber(r.pick([]int{1, 99, 100, 101, 250, -1}), r.rangeInt(-4, 8), false)
		}
		b := newScriptBuilder(r, ns)
		h := 0
		for j := 0; j < r.intn(3); j++ {
			b.view()
			h = len(b.handles) - 1
		}
		if b.cheapStart(h) {
			b.add("fwd:%d:%d", h, r.pick([]int{5, 100, 101, 250}))
		}
		hfin := len(b.handles)
		b.add("we:%d:%d", h, r.pick([]int{0, 1, 50, 100, 101, 180}))
		b.handles = append(b.handles, hinfo{b.handles[h].lo, 180})
		b.add("back:%d:%d", hfin, 300)
		for _, d := range fmtDirectives(r, 1, 10)[:4] {
			b.add("fmt:0:%s", d)
		}
		b.add("str:0")
		var p []int
		if ns.digit != nil && ns.length != 0 {
			l := ns.length
			if l < 0 {
				l = 100
			}
			st := r.intn(l)
			for k := 0; k < 1+r.intn(min(3, l-st)); k++ {
				p = append(p, ns.digit(st+k))
			}
		} else {
			p = []int{r.intn(10)}
		}
		ps := patString(p)
		b.add("fa:%d:%s", hfin, ps)
		b.add("fl:%d:%s", hfin, ps)
		b.add("ffn:%d:%s:%d", hfin, ps, r.pick([]int{0, 1, 3}))
		b.add("fln:%d:%s:%d", hfin, ps, r.pick([]int{0, 1, 3}))
		b.add("findr:%d:%s:3", hfin, ps)
		// options common to all versions
		var parts []string
		if r.coin(70) {
			parts = append(parts, fmt.Sprintf("R%d", r.pick([]int{0, 7, 10, 50})))
		}
		if r.coin(70) {
			parts = append(parts, fmt.Sprintf("C%d", r.pick([]int{0, 3, 5, 10})))
		}
		if r.coin(50) {
			parts = append(parts, fmt.Sprintf("S%d", r.intn(2)))
		}
		if r.coin(40) {
			parts = append(parts, fmt.Sprintf("M%d", r.pick([]int{46, 95, 0x2022})))
		}
		o := "-"
		if len(parts) > 0 {
			o = strings.Join(parts, ".")
		}
		b.add("pr:%d:%s:%s", hfin, randPosForPrint(r, 0), o)
		b.emit(e, "C18.script")
	}
}

func init() { groups["C18"] = genC18 }

package main

// C14: the library neither modifies nor retains caller data. Every exported function taking
// *big.Int / *big.Rat / []int is called, the argument is then MUTATED IN PLACE by the caller at
// different moments (before any digit is computed, between blocks, mid-iteration), and what is
// observed afterwards must be what the ORIGINAL value determines (checked by the ordinary oracles:
// the lines carry the original arguments) — and the argument must be found unmodified by the call.

import (
	"fmt"
	"math/big"
	"strings"
	"time"

	sq3 "github.com/keep94/sqroot/v3"
)

func scramble(x *big.Int, r *rng) {
	// in-place mutations that reuse the backing array where possible
	switch r.intn(5) {
	case 0:
		x.Add(x, big.NewInt(1))
	case 1:
		x.SetInt64(7)
	case 2:
		x.Lsh(x, 64)
	case 3:
		x.Mul(x, big.NewInt(1000003))
	default:
		bits := x.Bits()
		for i := range bits {
			bits[i] ^= 0x5a5a5a5a
		}
	}
}

func emitAliasRoot(e *emitter, r *rng, v, deg int, viaRat bool, num, den *big.Int, moment string) {
	if e.exhausted() {
		return
	}
	k := 260
	origNum, origDen := new(big.Int).Set(num), new(big.Int).Set(den)
	argNum, argDen := new(big.Int).Set(num), new(big.Int).Set(den)
	kept := true
	res := guarded(60*time.Second, func() string {
		var n Num
		var rat *big.Rat
		if viaRat {
			rat = new(big.Rat).SetFrac(argNum, argDen)
			keep := new(big.Rat).Set(rat)
			n = rootFromRat(v, deg, rat)
			kept = rat.Cmp(keep) == 0
		} else {
			n = rootFromInt(v, deg, argNum)
			kept = argNum.Cmp(origNum) == 0
		}
		mutate := func() {
			if viaRat {
				// through the Rat itself and through the pointers Num()/Denom() hand out
				scramble(rat.Num(), r)
				if r.coin(50) {
					rat.SetFrac64(1, 3)
				}
			} else {
				scramble(argNum, r)
			}
		}
		if n.IsZero() {
			return "zero exp=0 digits=\"\" at0=-1"
		}
		switch moment {
		case "A": // before any digit is computed
			mutate()
		case "B": // between blocks
			n.firstDigits(100)
			mutate()
		case "C": // after everything was read once: values handed out stay
			n.firstDigits(k)
			mutate()
		}
		ds, ended := n.firstDigits(k)
		en := 0
		if ended {
			en = 1
		}
		return fmt.Sprintf("%d %s %d", n.Exponent(), ds, en)
	})
	ctor := "bigint-mut" + moment
	if viaRat {
		ctor = "bigrat-mut" + moment
	}
	useDen := big.NewInt(1)
	if viaRat {
		useDen = origDen
	}
	e.line("root", fmt.Sprintf("v%d %d %s %s %s %d", v, deg, ctor, origNum, useDen, k), res)
	e.line("argkept", fmt.Sprintf("v%d root%d-%s", v, deg, ctor), fmt.Sprint(kept))
}

func rootFromInt(v, deg int, x *big.Int) Num { return newRootRaw(v, deg, x, nil) }
func rootFromRat(v, deg int, q *big.Rat) Num { return newRootRaw(v, deg, nil, q) }

func emitAliasRat(e *emitter, r *rng, v int, num, den *big.Int, moment string) {
	if e.exhausted() {
		return
	}
	k := 260
	rat := new(big.Rat).SetFrac(new(big.Int).Set(num), new(big.Int).Set(den))
	keep := new(big.Rat).Set(rat)
	kept := true
	res := guarded(60*time.Second, func() string {
		n := newRatRaw(v, rat)
		kept = rat.Cmp(keep) == 0
		mutate := func() {
			scramble(rat.Num(), r)
			scramble(rat.Denom(), r)
		}
		if n.IsZero() {
			return "zero exp=0 digits=\"\" at0=-1"
		}
		switch moment {
		case "A":
			mutate()
		case "B":
			n.firstDigits(100)
			mutate()
		}
		ds, ended := n.firstDigits(k)
		en := 0
		if ended {
			en = 1
		}
		if ds == "" {
			ds = "-"
		}
		return fmt.Sprintf("%d %s %d", n.Exponent(), ds, en)
	})
	e.line("rat", fmt.Sprintf("v%d %s %s %d", v, keep.Num(), keep.Denom(), k), res)
	e.line("argkept", fmt.Sprintf("v%d frombigrat-mut%s", v, moment), fmt.Sprint(kept))
}

func genC14(e *emitter, r *rng, tier string) {
	n := 40
	if tier == "thorough" {
		n = 600
	}
	for i := 0; i < n; i++ {
		num := r.bigRand(1 + r.intn(60))
		den := r.bigRand(1 + r.intn(30))
		for v := 1; v <= 3; v++ {
			for _, deg := range []int{2, 3} {
				for _, m := range []string{"A", "B", "C"} {
					emitAliasRoot(e, r, v, deg, false, num, big.NewInt(1), m)
					emitAliasRoot(e, r, v, deg, true, num, den, m)
				}
			}
			emitAliasRat(e, r, v, num, den, "A")
			emitAliasRat(e, r, v, num, den, "B")
		}
		e.count("C14.bigargs")
	}
	// digit slices of NewNumberForTesting / NewFiniteNumber mutated after construction (v3)
	for i := 0; i < n; i++ {
		ns := testNumber(r, 1+r.intn(150), r.intn(4), r.rangeInt(-2, 4), 0)
		desc := "TM" + strings.TrimPrefix(strings.TrimPrefix(ns.desc, "TE"), "T")
		emitScriptLine(e, 3, desc, "fwd:0:320;at:0:0;at:0:101;str:0")
		emitScriptLine(e, 3, "TS"+strings.TrimPrefix(strings.TrimPrefix(ns.desc, "TE"), "T"), "fwd:0:320;at:0:0;str:0")
		if ns.length >= 0 {
			fdesc := "FM:" + strings.Split(ns.desc, ":")[1] + ":" + strings.Split(ns.desc, ":")[3]
			emitScriptLine(e, 3, fdesc, "fwd:0:320;back:0:320;exact:0")
		}
		e.count("C14.digitslices")
	}
	// patterns mutated while a search iterator is live, every entry point, every version
	for i := 0; i < n*3; i++ {
		alphabet := 1 + r.intn(3)
		ns := ratWithDigits(lowEntropyDigits(r, r.pick([]int{20, 60, 150, 250}), alphabet))
		b := newScriptBuilder(r, ns)
		for j := 0; j < 3; j++ {
			st := r.intn(ns.length)
			var p []int
			for k := 0; k < 1+r.intn(min(4, ns.length-st)); k++ {
				p = append(p, ns.digit(st+k))
			}
			ps := patString(p)
			b.add("findm:0:%s:%d", ps, 2+r.intn(5))
			b.add("findrm:0:%s:%d", ps, 2+r.intn(5))
			b.add("mm:0:%s:%d", ps, 2+r.intn(5))
			b.add("bmm:0:%s:%d", ps, 2+r.intn(5))
			b.add("ffn:0:%s:%d", ps, 3)
			b.add("fa:0:%s", ps)
		}
		b.emit(e, "C14.patterns")
	}
	// the pattern as the DIGIT SOURCE sees it while a search is in progress (fresh finite
	// generator-backed Number per statement, so that the search itself drives the source)
	for i := 0; i < n; i++ {
		L := r.pick([]int{40, 150, 260})
		st := r.intn(L - 6)
		p := []int{genDigit(st), genDigit(st + 1), genDigit(st + 2), genDigit(st + 3)}
		if p[0] == p[3] && p[1] == p[2] {
			p = p[:3]
		}
		ps := patString(p)
		op := r.pickS([]string{"fl:0:%s", "fln:0:%s:2", "findr:0:%s:2", "fa:0:%s", "ff:0:%s", "ffn:0:%s:2", "find:0:%s:2", "bm:0:%s:2", "m:0:%s:2"})
		for v := 1; v <= 3; v++ {
			emitScriptLine(e, v, fmt.Sprintf("G:%d:1:0", L), fmt.Sprintf(op, ps))
		}
		e.count("C14.pattern_seen_by_the_source")
	}
}

func init() {
	groups["C14"] = genC14
	_ = sq3.Sqrt
}

package main

import (
	"math"
	"math/big"
)

// rng: splitmix64; every random choice of a run derives from one state seeded by VERIF_SEED.
type rng struct{ s uint64 }

func (r *rng) next() uint64 {
	r.s += 0x9e3779b97f4a7c15
	z := r.s
	z = (z ^ (z >> 30)) * 0xbf58476d1ce4e5b9
	z = (z ^ (z >> 27)) * 0x94d049bb133111eb
	return z ^ (z >> 31)
}
func (r *rng) intn(n int) int {
	if n <= 0 {
		return 0
	}
	return int(r.next() % uint64(n))
}
func (r *rng) rangeInt(lo, hi int) int { return lo + r.intn(hi-lo+1) } // inclusive
func (r *rng) coin(pct int) bool        { return r.intn(100) < pct }
func (r *rng) pick(xs []int) int        { return xs[r.intn(len(xs))] }
func (r *rng) pickS(xs []string) string { return xs[r.intn(len(xs))] }

// bigRand returns a random positive integer with about `digits` decimal digits.
func (r *rng) bigRand(digits int) *big.Int {
	x := new(big.Int)
	ten := big.NewInt(10)
	for i := 0; i < digits; i++ {
		d := int64(r.intn(10))
		if i == 0 {
			d = int64(1 + r.intn(9))
		}
		x.Mul(x, ten).Add(x, big.NewInt(d))
	}
	return x
}

func pow(b int64, e int) *big.Int {
	return new(big.Int).Exp(big.NewInt(b), big.NewInt(int64(e)), nil)
}

var (
	maxInt = math.MaxInt
	minInt = math.MinInt
)

// boundaryInt draws from the boundary grid named in the properties.
func (r *rng) boundaryInt(length int) int {
	grid := []int{minInt, minInt + 1, -1000, -2, -1, 0, 1, 2, 3, 5, 9, 10, 49, 50, 51, 99, 100, 101, 199, 200, 201,
		299, 300, 301, 1000, maxInt - 8, maxInt - 1, maxInt}
	if length >= 0 {
		grid = append(grid, length-2, length-1, length, length+1, length+2)
	}
	if r.coin(70) {
		return grid[r.intn(len(grid))]
	}
	return r.rangeInt(-5, 320)
}

package main

// Generators of script lines for the properties decided through the script protocol.

import (
	"fmt"
	"strings"
)

// numSpec describes a base Number for the generators: descriptor text, digit count (-1 infinite),
// whether it exists in v1/v2 and whether traversals to the end are finite work.
type numSpec struct {
	desc   string
	length int // -1 = infinite
	allV   bool
	digit  func(p int) int // nil when unknown to the generator
}

func digitsCSV(ds []int) string {
	if len(ds) == 0 {
		return "-"
	}
	var sb strings.Builder
	for i, d := range ds {
		if i > 0 {
			sb.WriteByte(',')
		}
		fmt.Fprintf(&sb, "%d", d)
	}
	return sb.String()
}

func randDigits(r *rng, n int) []int {
	ds := make([]int, n)
	for i := range ds {
		ds[i] = r.intn(10)
	}
	if n > 0 && ds[0] == 0 {
		ds[0] = 1 + r.intn(9)
	}
	return ds
}

// lowEntropyDigits: digits over a small alphabet so that patterns recur and overlap
func lowEntropyDigits(r *rng, n int, alphabet int) []int {
	ds := make([]int, n)
	for i := range ds {
		ds[i] = 1 + r.intn(alphabet)
	}
	return ds
}

func testNumber(r *rng, fixedLen, repLen, exp int, alphabet int) numSpec {
	var f, rep []int
	if alphabet > 0 {
		f, rep = lowEntropyDigits(r, fixedLen, alphabet), lowEntropyDigits(r, repLen, alphabet)
	} else {
		f, rep = randDigits(r, fixedLen), randDigits(r, repLen)
		if fixedLen == 0 && repLen > 0 && rep[0] == 0 {
			rep[0] = 5
		}
	}
	length := fixedLen
	if repLen > 0 {
		length = -1
	}
	ff, rr := append([]int(nil), f...), append([]int(nil), rep...)
	kind := "T"
	if (fixedLen == 0 || repLen == 0) && r.coin(35) {
		kind = "TE" // the empty list is passed as an empty NON-NIL slice ([]int{}), which must mean the same as nil
	}
	return numSpec{
		desc:   fmt.Sprintf("%s:%s:%s:%d", kind, digitsCSV(f), digitsCSV(rep), exp),
		length: length,
		digit: func(p int) int {
			if p < len(ff) {
				return ff[p]
			}
			return rr[(p-len(ff))%len(rr)]
		},
	}
}

func finiteNumber(r *rng, n, exp int) numSpec {
	f := randDigits(r, n)
	ff := append([]int(nil), f...)
	return numSpec{desc: fmt.Sprintf("F:%s:%d", digitsCSV(f), exp), length: n, digit: func(p int) int { return ff[p] }}
}

var illCounter int

func genNumber(length, exp int, ill bool) numSpec {
	i := 0
	if ill {
		illCounter++
		i = 1 + illCounter%5 // different out-of-range end values: 12, 261, -251, 65543, 2^40
	}
	// v1/v2 reach the source through the hook, whose contract requires a first digit 1-9 and -1 as end marker
	return numSpec{desc: fmt.Sprintf("G:%d:%d:%d", length, exp, i), length: length, allV: length != 0 && !ill, digit: genDigit}
}

var blockLengths = []int{0, 1, 2, 3, 7, 50, 98, 99, 100, 101, 102, 150, 199, 200, 201, 250, 299, 300, 301}

func someNumber(r *rng) numSpec {
	switch r.intn(10) {
	case 0, 1:
		return genNumber(blockLengths[r.intn(len(blockLengths))], r.rangeInt(-5, 8), r.coin(30))
	case 2:
		return genNumber(-1, r.rangeInt(-5, 8), false)
	case 3:
		return finiteNumber(r, blockLengths[r.intn(len(blockLengths))], r.rangeInt(-5, 8))
	case 4:
		return testNumber(r, r.intn(5), 1+r.intn(6), r.rangeInt(-5, 8), 0)
	case 5:
		if r.coin(25) { // a repeating block of zeros only: still an infinite Number
			ns := testNumber(r, 1+r.intn(5), 0, r.rangeInt(-5, 8), 0)
			parts := strings.Split(ns.desc, ":")
			zeros := strings.TrimSuffix(strings.Repeat("0,", 1+r.intn(3)), ",")
			fd := ns.digit
			fl := ns.length
			return numSpec{desc: parts[0] + ":" + parts[1] + ":" + zeros + ":" + parts[3], length: -1,
				digit: func(p int) int {
					if p < fl {
						return fd(p)
					}
					return 0
				}}
		}
		return testNumber(r, blockLengths[r.intn(len(blockLengths))], 0, r.rangeInt(-5, 8), 0)
	case 6:
		return rootNumber(r, "S")
	case 7:
		return rootNumber(r, "C")
	case 8:
		return numSpec{desc: fmt.Sprintf("R:%d:%d", 1+r.intn(500), 1+r.intn(99)), length: -2, allV: true}
	default:
		return numSpec{desc: "Z", length: 0, allV: true}
	}
}

// rootNumber: a root through one of the four constructors (second letter of the kind: i int64,
// r int64 fraction, b *big.Int, none *big.Rat), perfect powers included — the radicands whose
// roots are finite decimals are the ones a constructor is tempted to special-case
func rootNumber(r *rng, kind string) numSpec {
	num, den := 1+r.intn(50), 1+r.intn(9)
	if r.coin(30) {
		k := 1 + r.intn(40)
		num = k * k
		if kind == "C" {
			num *= k
		}
		if r.coin(30) {
			num *= []int{100, 1000, 1000000}[r.intn(3)]
		}
		if r.coin(70) {
			den = 1
		}
	} else if r.coin(40) {
		den = 1
	}
	ctors := []string{"", "r"}
	if den == 1 {
		ctors = []string{"", "r", "i", "i", "b"}
	}
	return numSpec{desc: fmt.Sprintf("%s%s:%d:%d", kind, r.pickS(ctors), num, den), length: -2, allV: true}
}

// hinfo: what the generator knows about a handle (used only to keep traversals materialisable)
type hinfo struct {
	lo, hi int // window [lo, hi) in positions; hi = maxInt when unbounded by the view
}

type scriptBuilder struct {
	r       *rng
	ns      numSpec
	stmts   []string
	handles []hinfo
	iters   int
	seqs    int
}

func newScriptBuilder(r *rng, ns numSpec) *scriptBuilder {
	return &scriptBuilder{r: r, ns: ns, handles: []hinfo{{0, maxInt}}}
}

func (b *scriptBuilder) add(format string, a ...any) { b.stmts = append(b.stmts, fmt.Sprintf(format, a...)) }

// finiteWork: traversing handle h to its end is finite work
func (b *scriptBuilder) finiteWork(h int) bool {
	hi := b.handles[h]
	if b.ns.length >= 0 {
		return true
	}
	return hi.hi <= 5000
}

// cheapStart: starting a traversal at handle h's start is finite work
func (b *scriptBuilder) cheapStart(h int) bool {
	hi := b.handles[h]
	if b.ns.length >= 0 {
		return true
	}
	return hi.lo <= 5000 || hi.hi <= 5000
}

func (b *scriptBuilder) position() int {
	n := b.ns.length
	if n < 0 {
		n = 300
	}
	return b.r.boundaryInt(n)
}

func (b *scriptBuilder) pickHandle() int { return b.r.intn(len(b.handles)) }

func (b *scriptBuilder) view() {
	h := b.pickHandle()
	x := b.position()
	old := b.handles[h]
	switch b.r.intn(10) {
	case 0, 1, 2, 3:
		b.add("ws:%d:%d", h, x)
		b.handles = append(b.handles, hinfo{max(old.lo, x), old.hi})
	case 4, 5, 6:
		b.add("we:%d:%d", h, x)
		b.handles = append(b.handles, hinfo{old.lo, min(old.hi, x)})
	case 7, 8:
		if x < 0 && b.r.coin(80) {
			x = -x
			if x < 0 {
				x = 0
			}
		}
		b.add("wsig:%d:%d", h, x)
		// may be "na" (not a Number) or panic: handle table may get out of sync with the
		// implementation's; only a handle that certainly exists is recorded
		if old.lo <= 0 && x >= 0 && h == 0 {
			b.handles = append(b.handles, hinfo{old.lo, min(old.hi, x)})
		} else {
			b.stmts = b.stmts[:len(b.stmts)-1]
		}
	default:
		// FiniteWithStart only where the value is certainly finite-typed: result of we on anything
		b.stmts = append(b.stmts, fmt.Sprintf("we:%d:%d", h, x))
		b.handles = append(b.handles, hinfo{old.lo, min(old.hi, x)})
		nh := len(b.handles) - 1
		y := b.position()
		b.add("fws:%d:%d", nh, y)
		if b.ns.allV { // fws is "na" for v1/v2: no handle is created there; keep tables in sync by not recording
			b.stmts = b.stmts[:len(b.stmts)-1]
		} else {
			b.handles = append(b.handles, hinfo{max(old.lo, y), min(old.hi, x)})
		}
	}
}

func (b *scriptBuilder) read() {
	h := b.pickHandle()
	take := b.r.pick([]int{-1, 0, 1, 2, 3, 5, 10, 50, 99, 100, 101, 120, 205, 1000})
	switch b.r.intn(14) {
	case 0, 1, 2:
		p := b.position()
		if b.ns.length >= 0 || min(p, b.handles[h].hi) <= 5000 {
			b.add("at:%d:%d", h, p)
		}
	case 3, 4, 5:
		if b.cheapStart(h) {
			b.add("fwd:%d:%d", h, take)
		}
	case 6:
		if b.cheapStart(h) {
			b.add("fwd2:%d:%d", h, take)
		}
	case 7:
		if b.finiteWork(h) {
			b.add("back:%d:%d", h, take)
		}
	case 8:
		if b.finiteWork(h) {
			b.add("back2:%d:%d", h, take)
		}
	case 9:
		if b.finiteWork(h) {
			if b.r.coin(50) {
				b.add("astr:%d", h)
			} else {
				b.add("nd:%d", h)
			}
		}
	case 10:
		if b.cheapStart(h) {
			p := b.position()
			if b.ns.length >= 0 || p <= 5000 {
				b.add("itat:%d:%d:%d", h, p, take)
			}
		}
	case 11:
		if b.cheapStart(h) {
			kind := "fwd"
			if b.r.coin(30) && b.finiteWork(h) {
				kind = "back"
			}
			b.add("mk:%d:%s", h, kind)
			b.iters++
		}
	case 12:
		if b.iters > 0 {
			b.add("nx:%d:%d", b.r.intn(b.iters), b.r.pick([]int{0, 1, 2, 3, 10, 99, 100, 101, 150}))
		}
	default:
		if b.cheapStart(h) {
			if b.seqs > 0 && b.r.coin(60) {
				b.add("run:%d:%d", b.r.intn(b.seqs), take)
			} else if b.finiteWork(h) && b.r.coin(40) {
				// a stored Backward() sequence ("na" where the value is not a FiniteSequence, and in v1/v2)
				b.add("mkseqb:%d", h)
				b.seqs++
			} else {
				b.add("mkseq:%d", h)
				b.seqs++
			}
		}
	}
}

func (b *scriptBuilder) String() string {
	if len(b.stmts) == 0 {
		return "-"
	}
	return strings.Join(b.stmts, ";")
}

func (b *scriptBuilder) emit(e *emitter, tag string) {
	s := b.String()
	for v := 1; v <= 3; v++ {
		if v < 3 && !b.ns.allV {
			continue
		}
		emitScriptLine(e, v, b.ns.desc, s)
	}
	e.count(tag)
}

// mk iterators on v1/v2 "na" cases would desynchronise iterator numbering between versions only
// in the generator's bookkeeping (nx on a missing iterator answers "na"), which is harmless.

func genC04(e *emitter, r *rng, tier string) {
	n := 400
	if tier == "thorough" {
		n = 5000
	}
	for i := 0; i < n; i++ {
		ns := someNumber(r)
		b := newScriptBuilder(r, ns)
		ops := 5 + r.intn(36)
		for j := 0; j < ops; j++ {
			if r.coin(15) {
				b.view()
			} else {
				b.read()
			}
		}
		b.emit(e, "C04.history.len"+fmt.Sprint((len(b.stmts)/10)*10))
		e.count("C04.num." + strings.SplitN(ns.desc, ":", 2)[0])
	}
	// re-running iterator VALUES obtained earlier (All(), Backward()) of started / bounded views:
	// a pass abandoned half way, then a full pass, then another — each must start afresh
	rr := 40
	if tier == "thorough" {
		rr = 500
	}
	for i := 0; i < rr; i++ {
		L := r.pick([]int{8, 30, 99, 100, 101, 150})
		var ns numSpec
		if r.coin(50) {
			ns = genNumber(L, r.rangeInt(-2, 4), false)
		} else {
			ns = finiteNumber(r, L, r.rangeInt(-2, 4))
		}
		b := newScriptBuilder(r, ns)
		st := r.pick([]int{1, 2, 5, L / 2})
		b.add("ws:0:%d", st)
		b.handles = append(b.handles, hinfo{st, maxInt})
		h := 1
		if r.coin(60) {
			en := r.pick([]int{L - 1, L, L + 5, st + 3})
			b.add("we:1:%d", en)
			b.handles = append(b.handles, hinfo{st, en})
			h = 2
		}
		if r.coin(30) && !ns.allV {
			b.add("fws:%d:%d", h, st+1)
			b.handles = append(b.handles, hinfo{st + 1, b.handles[h].hi})
			h = len(b.handles) - 1
		}
		b.add("mkseqb:%d", h)
		b.add("mkseq:%d", h)
		for _, t := range []int{2, 1000, 1, 3, 1000} {
			b.add("run:0:%d", t)
			b.add("run:1:%d", t)
		}
		b.add("back:%d:1000", h)
		b.add("fwd:%d:1000", h)
		b.emit(e, "C04.history.rerun_stored_sequences")
	}
	// views whose Number has been dropped and collected before the first read
	dr := 30
	if tier == "thorough" {
		dr = 300
	}
	for i := 0; i < dr; i++ {
		var ns numSpec
		switch r.intn(4) {
		case 0:
			ns = numSpec{desc: fmt.Sprintf("S:%d:1", 2+r.intn(40)), length: -2, allV: true}
		case 1:
			ns = numSpec{desc: fmt.Sprintf("R:%d:%d", 1+r.intn(500), 1+r.intn(99)), length: -2, allV: true}
		case 2:
			ns = genNumber(r.pick([]int{-1, 50, 100, 250}), r.rangeInt(-2, 4), false)
		default:
			ns = finiteNumber(r, r.pick([]int{5, 50, 120}), r.rangeInt(-2, 4))
		}
		b := newScriptBuilder(r, ns)
		st := r.pick([]int{1, 2, 7, 40})
		b.add("ws:0:%d", st)
		b.handles = append(b.handles, hinfo{st, maxInt})
		en := st + r.pick([]int{3, 30, 150})
		b.add("we:1:%d", en)
		b.handles = append(b.handles, hinfo{st, en})
		if r.coin(50) {
			b.add("wsig:0:%d", en)
			b.handles = append(b.handles, hinfo{0, en})
		}
		for _, h := range []int{2, 1, len(b.handles) - 1} {
			if h == 1 {
				b.add("fwd:1:%d", 40)
			} else {
				b.add("fwd:%d:400", h)
				b.add("back:%d:400", h)
			}
		}
		b.ns.desc = "D" + b.ns.desc
		b.emit(e, "C04.history.base_dropped_and_collected")
	}
	// histories that contain OTHER operations on the Number and on truncated views of it —
	// formatting (String, Exact, Format), printing, searching — before the reads: none of them may
	// change what any read path reports afterwards
	m := 80
	if tier == "thorough" {
		m = 1000
	}
	for i := 0; i < m; i++ {
		ex := 1 + r.intn(7)
		var ns numSpec
		switch r.intn(4) {
		case 0:
			ns = genNumber(-1, ex, false)
		case 1:
			ns = genNumber(r.pick([]int{3, 8, 50, 100, 130}), ex, false)
		case 2:
			ns = finiteNumber(r, r.pick([]int{3, 8, 12, 50, 100, 130}), ex)
		default:
			ns = testNumber(r, 1+r.intn(4), 1+r.intn(4), ex, 0)
		}
		b := newScriptBuilder(r, ns)
		k := 1 + r.intn(max(ex, 2))
		b.add("wsig:0:%d", k)
		b.handles = append(b.handles, hinfo{0, k})
		if r.coin(30) {
			b.add("fwd:0:%d", r.pick([]int{1, 5, 20}))
		}
		for j := 0; j < 1+r.intn(3); j++ {
			h := r.intn(2)
			switch r.intn(7) {
			case 0, 1:
				b.add("exact:%d", h)
			case 2:
				b.add("str:%d", h)
			case 3:
				b.add("fmt:%d:%%%s", h, r.pickS([]string{"f", ".3f", "12.8e", "v", "g", ".0g", "-20.10G"}))
			case 4:
				b.add("pr:%d:r0~%d:%s", h, r.pick([]int{3, 12, 60}), randOpts(r, false))
			case 5:
				if ns.digit != nil { // a pattern that certainly occurs (materialisable on an infinite Number)
					b.add("ffn:%d:%s:1", h, patString([]int{ns.digit(0)}))
				}
			default:
				b.add("astr:%d", h)
			}
		}
		for _, h := range []int{0, 1, 0} {
			b.add("fwd:%d:%d", h, 20)
			b.add("at:%d:%d", h, k)
			b.add("at:%d:%d", h, max(k-1, 0))
			if b.finiteWork(h) {
				b.add("back:%d:%d", h, 20)
				b.add("astr:%d", h)
			}
		}
		b.emit(e, "C04.history.otherops")
	}
}

func genC07(e *emitter, r *rng, tier string) {
	n := 500
	if tier == "thorough" {
		n = 6000
	}
	for i := 0; i < n; i++ {
		ns := someNumber(r)
		b := newScriptBuilder(r, ns)
		chain := r.intn(7)
		for j := 0; j < chain; j++ {
			b.view()
		}
		// traverse every handle (parent and siblings included) by every method, twice, in a random
		// order: what a view delivers must not depend on what its parent has already computed
		for pass := 0; pass < 2; pass++ {
			order := make([]int, len(b.handles))
			for i := range order {
				order[i] = i
			}
			for i := len(order) - 1; i > 0; i-- {
				j := r.intn(i + 1)
				order[i], order[j] = order[j], order[i]
			}
			if pass == 0 && r.coin(50) {
				// newest view first, on a parent that has computed as little as possible
				for i, j := 0, len(order)-1; i < j; i, j = i+1, j-1 {
					order[i], order[j] = j, i
				}
				for i := range order {
					order[i] = len(order) - 1 - i
				}
			}
			for _, h := range order {
				if h >= len(b.handles) {
					continue
				}
				if b.cheapStart(h) {
					if r.coin(50) {
						b.add("fwd:%d:%d", h, 400)
					} else {
						b.add("fwd2:%d:%d", h, 400)
					}
				}
				if b.finiteWork(h) {
					b.add("back:%d:%d", h, 400)
				}
			}
			if pass == 0 {
				b.view()
			}
		}
		for h := range b.handles {
			b.add("exp:%d", h)
			b.add("zero:%d", h)
		}
		b.emit(e, fmt.Sprintf("C07.chain%d", chain))
	}
}

// genC07History: views derived AFTER the parent has been read to its end (all digits memoized,
// the producer finished), with limits at and around the exact length; and a narrower child view
// traversed (also backward) BEFORE its parent and siblings. What a view delivers must depend on
// neither.
func genC07History(e *emitter, r *rng, tier string) {
	n := 60
	if tier == "thorough" {
		n = 600
	}
	for i := 0; i < n; i++ {
		L := r.pick([]int{1, 2, 3, 5, 50, 99, 100, 101, 200})
		var ns numSpec
		switch r.intn(3) {
		case 0:
			ns = genNumber(L, r.rangeInt(-2, 4), false)
		case 1:
			// an exact square root with a few digits: Sqrt(k*k)
			k := 2 + r.intn(997)
			for k%10 == 0 {
				k++
			}
			L = len(fmt.Sprint(k))
			ns = numSpec{desc: fmt.Sprintf("S:%d:1", k*k), length: -2, allV: true}
		default:
			ns = genNumber(L, 1, false)
		}
		b := newScriptBuilder(r, ns)
		if r.coin(70) {
			// read the parent to its end first, by some method
			switch r.intn(4) {
			case 0:
				b.add("fwd:0:%d", L+50)
			case 1:
				b.add("at:0:%d", L+r.intn(3))
			case 2:
				b.add("back:0:%d", L+50)
			default:
				b.add("nd:0")
			}
		}
		add := func(stmt string, lo, hi int) int {
			b.stmts = append(b.stmts, stmt)
			b.handles = append(b.handles, hinfo{lo, hi})
			return len(b.handles) - 1
		}
		var hs []int
		for _, x := range []int{L - 1, L, L + 1, L - 2} {
			if x < 0 {
				continue
			}
			if r.coin(50) {
				hs = append(hs, add(fmt.Sprintf("we:0:%d", x), 0, x))
			} else {
				hs = append(hs, add(fmt.Sprintf("wsig:0:%d", x), 0, x))
			}
		}
		// a narrower child of the first view, and a started sibling
		if len(hs) > 0 && L >= 3 {
			c := add(fmt.Sprintf("we:%d:%d", hs[0], max(L-3, 1)), 0, max(L-3, 1))
			hs = append([]int{c}, hs...) // the child is traversed first
			hs = append(hs, add(fmt.Sprintf("ws:%d:%d", hs[1], 1), 1, L-1))
		}
		for pass := 0; pass < 2; pass++ {
			for _, h := range hs {
				if r.coin(50) {
					b.add("back:%d:400", h)
					b.add("fwd:%d:400", h)
				} else {
					b.add("fwd2:%d:400", h)
					b.add("back:%d:400", h)
				}
			}
			b.add("fwd:0:400")
			b.add("back:0:400")
		}
		for h := range b.handles {
			b.add("exp:%d", h)
			b.add("zero:%d", h)
		}
		b.emit(e, "C07.history")
	}
}

func genC17(e *emitter, r *rng, tier string) {
	n := 800
	if tier == "thorough" {
		n = 10000
	}
	for i := 0; i < n; i++ {
		ns := someNumber(r)
		b := newScriptBuilder(r, ns)
		chain := r.intn(9)
		if r.coin(45) {
			// what a value can be asserted to must not depend on what has been COMPUTED: read the
			// Number (to its end, if it has one) before deriving anything
			switch r.intn(3) {
			case 0:
				b.add("at:0:%d", r.pick([]int{0, 5, 400}))
			case 1:
				b.add("fwd:0:400")
			default:
				b.add("str:0")
				b.add("at:0:350")
			}
		}
		for j := 0; j < chain; j++ {
			// chains, not trees: always extend the newest handle
			h := len(b.handles) - 1
			x := b.position()
			old := b.handles[h]
			switch r.intn(6) {
			case 0, 1, 2:
				b.add("ws:%d:%d", h, x)
				b.handles = append(b.handles, hinfo{max(old.lo, x), old.hi})
			case 3:
				b.add("we:%d:%d", h, x)
				b.handles = append(b.handles, hinfo{old.lo, min(old.hi, x)})
			default:
				b.add("ws:%d:%d", h, -r.intn(3))
				b.handles = append(b.handles, old)
			}
		}
		// the same derivation REPEATED on the same value (and on older ones, between other
		// derivations): what a value can be asserted to must not depend on what was derived before
		if chain > 0 && r.coin(60) {
			var views []string
			for _, st := range b.stmts {
				if strings.HasPrefix(st, "ws:") || strings.HasPrefix(st, "we:") {
					views = append(views, st)
				}
			}
			for k := 0; k < 1+r.intn(4) && len(views) > 0; k++ {
				st := views[r.intn(len(views))]
				var hh, xx int
				if _, err := fmt.Sscanf(strings.SplitN(st, ":", 2)[1], "%d:%d", &hh, &xx); err != nil {
					continue
				}
				old := b.handles[hh]
				b.stmts = append(b.stmts, st)
				if strings.HasPrefix(st, "ws:") {
					b.handles = append(b.handles, hinfo{max(old.lo, xx), old.hi})
				} else {
					b.handles = append(b.handles, hinfo{old.lo, min(old.hi, xx)})
				}
			}
		}
		h := len(b.handles) - 1
		// functions that must traverse to the end are only offered to finite types
		b.add("fws:%d:1", h)
		b.add("wsig:%d:5", h)
		if b.finiteWork(h) {
			b.add("wr:%d:-", h)
		}
		b.emit(e, fmt.Sprintf("C17.chain%d", chain))
	}
}

func init() {
	groups["C04"] = genC04
	groups["C07"] = func(e *emitter, r *rng, tier string) { genC07(e, r, tier); genC07History(e, r, tier) }
	groups["C17"] = genC17
}

package main

import (
	"fmt"
	"math/big"
	"os"
	"strconv"
	"strings"
)

// replay re-executes one recorded case: the group argument is "replay" and the tier argument
// carries the left-hand side of the recorded line ("<kind> <args...>").
var replayers = map[string]func(e *emitter, args []string) error{}

func init() {
	replayers["root"] = func(e *emitter, a []string) error {
		if len(a) != 6 {
			return fmt.Errorf("root: want 6 args")
		}
		v, _ := strconv.Atoi(strings.TrimPrefix(a[0], "v"))
		deg, _ := strconv.Atoi(a[1])
		num, ok1 := new(big.Int).SetString(a[3], 10)
		den, ok2 := new(big.Int).SetString(a[4], 10)
		k, _ := strconv.Atoi(a[5])
		if !ok1 || !ok2 {
			return fmt.Errorf("root: bad integers")
		}
		emitRootLine(e, v, deg, a[2], radicand{"replay", num, den, 0, false}, k, 1)
		return nil
	}
}

func runReplay(e *emitter, lhs string) {
	toks := strings.Fields(lhs)
	if len(toks) == 0 {
		fmt.Fprintln(os.Stderr, "replay: empty case")
		os.Exit(2)
	}
	f, ok := replayers[toks[0]]
	if !ok {
		fmt.Fprintln(os.Stderr, "replay: no replayer for kind", toks[0])
		os.Exit(2)
	}
	if err := f(e, toks[1:]); err != nil {
		fmt.Fprintln(os.Stderr, "replay:", err)
		os.Exit(2)
	}
}

//go:build sched

package main

// Controlled-scheduler runs (C05/C06). This file is compiled only with -tags "verif sched" and
// `-overlay`, which injects /verif/go/sched/shim.go.tmpl into each sqroot package and redirects
// the package's sync primitives and go statements to it (see /verif/go/shimgen).
//
//	strace v<k> <numdesc> <prog>|<prog>|... <schedule> => <events> ## <res>|<res>|... ## <cons> ## <status>
//	sconc  v<k> <numdesc> <prog>|<prog>|... <schedule> => <res>|<res>|... ## <cons> ## <status>
//
// <schedule> is the list of task ids in the order the scheduler ran them (task 0 = the producer
// goroutine started by the library, tasks 1.. = the reader programs): the interleaving, exactly
// replayable. strace programs consist of at:0:<i> statements only; every sync operation of the
// memoizer is logged as tid:kind:val:maxLength:len(data):done:mutex and the line is validated
// against the fine-grained monitor model by modeldriver. sconc programs are arbitrary scripts.

import (
	"fmt"
	"strconv"
	"strings"

	sq1 "github.com/keep94/sqroot"
	sq2 "github.com/keep94/sqroot/v2"
	sq3 "github.com/keep94/sqroot/v3"
)

type schedAPI struct {
	begin func(pick func(enabled []int, cur int) int, maxSteps int)
	spawn func(name string, f func())
	daemon func(name string, f func())
	run   func() ([]string, []int, string)
	point func(kind string, val int)
	note  func(kind string, val int)
}

func schedOf(v int) schedAPI {
	switch v {
	case 1:
		return schedAPI{sq1.VerifSchedBegin, sq1.VerifSchedGo, sq1.VerifSchedGoDaemon, sq1.VerifSchedRun, sq1.VerifSchedPoint, sq1.VerifSchedNote}
	case 2:
		return schedAPI{sq2.VerifSchedBegin, sq2.VerifSchedGo, sq2.VerifSchedGoDaemon, sq2.VerifSchedRun, sq2.VerifSchedPoint, sq2.VerifSchedNote}
	}
	return schedAPI{sq3.VerifSchedBegin, sq3.VerifSchedGo, sq3.VerifSchedGoDaemon, sq3.VerifSchedRun, sq3.VerifSchedPoint, sq3.VerifSchedNote}
}

type schedOutcome struct {
	events   []string
	schedule []int
	results  []string
	cons     string
	status   string
	// per decision: the enabled set and the task that ran before (for the DFS)
	enabledAt [][]int
	curAt     []int
}

// iterYield says at which digit positions the digit source is a scheduling point
// (0 = never, 1 = first digit of every block, 2 = first and last, 3 = every digit)
func iterYields(mode, pos int) bool {
	switch mode {
	case 1:
		return pos%100 == 0
	case 2:
		return pos%100 == 0 || pos%100 == 99
	case 3:
		return true
	}
	return false
}

// runSched runs the programs as tasks of version v's controlled scheduler under pick.
func runSched(v int, desc string, progs []string, pick func(enabled []int, cur int) int, iterMode int, traced bool) (out schedOutcome) {
	return runSchedBudget(v, desc, progs, pick, iterMode, traced, 60000)
}

func runSchedBudget(v int, desc string, progs []string, pick func(enabled []int, cur int) int, iterMode int, traced bool, budget int) (out schedOutcome) {
	api := schedOf(v)
	wrapped := func(enabled []int, cur int) int {
		id := pick(enabled, cur)
		out.enabledAt = append(out.enabledAt, append([]int(nil), enabled...))
		out.curAt = append(out.curAt, cur)
		return id
	}
	api.begin(wrapped, budget)
	separate := strings.HasPrefix(desc, "X")
	d := strings.TrimPrefix(desc, "X")
	env, err := newScriptNumber(v, d)
	if err != "" {
		api.run()
		out.status = err
		return
	}
	hook := func(src *countingSource) {
		if src != nil {
			src.onCall = func(pos int) {
				if iterYields(iterMode, pos) {
					api.point("I", pos)
				}
			}
		}
	}
	hook(env.src)
	out.results = make([]string, len(progs))
	for i, p := range progs {
		i, p := i, p
		spawn := api.spawn
		if strings.HasPrefix(p, "~") {
			// a call that need not finish (unbounded or very distant demand): the run ends when
			// the other programs are done, and they must get done whatever this one is doing
			spawn = api.daemon
			p = p[1:]
		}
		spawn(fmt.Sprintf("c%d", i), func() {
			local := &scriptEnv{v: env.v, handles: []handle{env.handles[0]}, src: env.src, shared: true}
			if separate {
				if own, e2 := newScriptNumber(v, d); e2 == "" {
					hook(own.src)
					local = own
				}
			}
			var res []string
			for _, st := range strings.Split(p, ";") {
				if traced {
					api.note("A", atoi(strings.Split(st, ":")[2]))
				}
				r := guardedInline(func() string { return local.execStmt(st) })
				if traced {
					x, e := strconv.Atoi(r)
					if e != nil {
						x = -99
					}
					api.note("R", x)
				}
				res = append(res, r)
				out.results[i] = strings.Join(res, ";") // kept current: a deadlocked task never gets further
			}
		})
	}
	out.events, out.schedule, out.status = api.run()
	for i := range out.results {
		if out.results[i] == "" {
			out.results[i] = "-"
		}
	}
	out.cons = "na"
	if env.src != nil && !separate {
		out.cons = fmt.Sprintf("%d/%d/%d", env.src.calls.Load(), env.src.outOrder.Load(), env.src.reentry.Load())
	}
	return
}

func (o schedOutcome) result(traced bool) string {
	s := strings.Join(o.results, "|") + " ## " + o.cons + " ## " + o.status
	if traced {
		ev := strings.Join(o.events, ",")
		if ev == "" {
			ev = "-"
		}
		return ev + " ## " + s
	}
	return s
}

func schedString(s []int) string {
	if len(s) == 0 {
		return "-"
	}
	var b strings.Builder
	for i, x := range s {
		if i > 0 {
			b.WriteByte(',')
		}
		b.WriteString(strconv.Itoa(x))
	}
	return b.String()
}

func parseSched(s string) []int {
	if s == "-" || s == "" {
		return nil
	}
	var out []int
	for _, t := range strings.Split(s, ",") {
		out = append(out, atoi(t))
	}
	return out
}

// ---------------------------------------------------------------- strategies

func contains(xs []int, x int) bool {
	for _, y := range xs {
		if y == x {
			return true
		}
	}
	return false
}

// default continuation: keep running the current task while it can run, else the lowest id
func pickDefault(enabled []int, cur int) int {
	if contains(enabled, cur) {
		return cur
	}
	return enabled[0]
}

// replay follows a recorded schedule, then the default
func pickReplay(schedule []int) func([]int, int) int {
	i := 0
	return func(enabled []int, cur int) int {
		if i < len(schedule) {
			id := schedule[i]
			i++
			return id // an id that is not enabled makes the shim report "badpick"
		}
		return pickDefault(enabled, cur)
	}
}

func pickRandom(r *rng, stickyPct int) func([]int, int) int {
	return func(enabled []int, cur int) int {
		if contains(enabled, cur) && r.coin(stickyPct) {
			return cur
		}
		return enabled[r.intn(len(enabled))]
	}
}

// PCT (probabilistic concurrency testing): random priorities, d priority change points
func pickPCT(r *rng, depth, horizon int) func([]int, int) int {
	prio := map[int]int{}
	change := map[int]bool{}
	for i := 0; i < depth; i++ {
		change[r.intn(horizon)] = true
	}
	step := 0
	low := 0
	return func(enabled []int, cur int) int {
		for _, id := range enabled {
			if _, ok := prio[id]; !ok {
				prio[id] = 1000 + r.intn(1000)
			}
		}
		if change[step] && contains(enabled, cur) {
			low--
			prio[cur] = low
		}
		step++
		best := enabled[0]
		for _, id := range enabled {
			if prio[id] > prio[best] {
				best = id
			}
		}
		return best
	}
}

// order of alternatives at a choice point for the DFS: the current task first (no preemption)
func dfsOrder(enabled []int, cur int) []int {
	var o []int
	if contains(enabled, cur) {
		o = append(o, cur)
	}
	for _, id := range enabled {
		if id != cur {
			o = append(o, id)
		}
	}
	return o
}

// dfsSchedules enumerates every schedule of the programs with at most `bound` preemptions
// (CHESS-style iterative context bounding), calling visit for each; stops after maxRuns.
func dfsSchedules(v int, desc string, progs []string, iterMode, bound, maxRuns int, traced bool, visit func(o schedOutcome) bool) (runs int, complete bool) {
	var prefix []int
	for runs < maxRuns {
		o := runSched(v, desc, progs, pickReplay(prefix), iterMode, traced)
		runs++
		if !visit(o) {
			return runs, false
		}
		// backtrack: deepest choice point with an untried alternative within the preemption bound
		n := len(o.schedule)
		if n > len(o.enabledAt) {
			n = len(o.enabledAt)
		}
		pre := make([]int, n+1) // preemptions used before step i
		for i := 0; i < n; i++ {
			pre[i+1] = pre[i]
			if contains(o.enabledAt[i], o.curAt[i]) && o.schedule[i] != o.curAt[i] {
				pre[i+1]++
			}
		}
		next := -1
		var alt int
		for i := n - 1; i >= 0 && next < 0; i-- {
			ord := dfsOrder(o.enabledAt[i], o.curAt[i])
			k := 0
			for k < len(ord) && ord[k] != o.schedule[i] {
				k++
			}
			for k++; k < len(ord); k++ {
				cost := 0
				if contains(o.enabledAt[i], o.curAt[i]) && ord[k] != o.curAt[i] {
					cost = 1
				}
				if pre[i]+cost <= bound {
					next, alt = i, ord[k]
					break
				}
			}
		}
		if next < 0 {
			return runs, true
		}
		prefix = append(append([]int(nil), o.schedule[:next]...), alt)
	}
	return runs, false
}

// ---------------------------------------------------------------- generators

func emitSched(e *emitter, kind string, v int, desc string, progs []string, o schedOutcome) {
	if len(o.schedule) > e.dist["C05sched.longest_run_in_scheduling_decisions"] {
		e.dist["C05sched.longest_run_in_scheduling_decisions"] = len(o.schedule)
	}
	if o.status == "overrun" || strings.HasPrefix(o.status, "stuck") || strings.HasPrefix(o.status, "starved") {
		// a run that does not come to rest within the step budget (the model bounds the length of
		// every run: all_calls_return) or a task spinning without reaching a scheduling point:
		// counted like a hang, so that a tree on which every run does this is reported quickly
		e.hangs++
	}
	e.line(kind, fmt.Sprintf("v%d %s %s %s", v, desc, strings.Join(progs, "|"), schedString(o.schedule)), o.result(kind == "strace"))
}

func atProgs(r *rng, readers, maxOps int, positions []int) []string {
	var progs []string
	for k := 0; k < readers; k++ {
		ops := 1 + r.intn(maxOps)
		var st []string
		for j := 0; j < ops; j++ {
			st = append(st, fmt.Sprintf("at:0:%d", r.pick(positions)))
		}
		progs = append(progs, strings.Join(st, ";"))
	}
	return progs
}

// C05sched: (a) exhaustive bounded-preemption enumeration of small configurations, every run
// validated against the fine-grained model; (b) random / PCT schedules of larger At programs
// (traced) and of arbitrary scripts (results only).
func genC05sched(e *emitter, r *rng, tier string) {
	thorough := tier == "thorough"
	bad := func(o schedOutcome) bool { return o.status != "ok" }
	// (a) DFS
	type cfg struct {
		desc  string
		progs []string
		iter  int
		bound int
	}
	cfgs := []cfg{
		{"G:-1:1:0", []string{"at:0:0", "at:0:0"}, 0, 2},
		{"G:-1:1:0", []string{"at:0:150", "at:0:50"}, 1, 2},
		{"G:-1:1:0", []string{"at:0:50;at:0:150", "at:0:120"}, 0, 2},
		{"G:100:1:0", []string{"at:0:99;at:0:100", "at:0:100"}, 1, 2},
		{"G:150:1:0", []string{"at:0:200", "at:0:149", "at:0:150"}, 0, 2},
		{"G:0:1:0", []string{"at:0:0", "at:0:5"}, 0, 3},
		{"G:5:1:0", []string{"at:0:4;at:0:5", "at:0:250"}, 2, 2},
		{"G:200:1:0", []string{"at:0:199", "at:0:200;at:0:0"}, 1, 2},
		// a request at the top of the int range on a finite source: the block count must be clamped
		{"G:3:1:0", []string{"at:0:9223372036854775806", "at:0:2"}, 0, 2},
		{"G:100:1:0", []string{"at:0:9223372036854775807;at:0:99", "at:0:100"}, 0, 2},
		// readers asking far ahead at the same time: the read-ahead must not add up
		{"G:-1:1:0", []string{"at:0:2500", "at:0:2500"}, 0, 1},
		{"G:-1:1:0", []string{"at:0:1800", "at:0:1200", "at:0:1800"}, 0, 1},
	}
	maxRuns := 1500
	if thorough {
		maxRuns = 12000
		cfgs = append(cfgs,
			cfg{"G:-1:1:0", []string{"at:0:250", "at:0:50", "at:0:150"}, 1, 3},
			cfg{"G:300:1:0", []string{"at:0:299;at:0:300", "at:0:100;at:0:301", "at:0:0"}, 1, 2},
			cfg{"G:101:1:0", []string{"at:0:100;at:0:101", "at:0:101;at:0:100"}, 2, 3},
		)
	}
	for _, c := range cfgs {
		for v := 1; v <= 3; v++ {
			if e.exhausted() {
				return
			}
			if v != 3 && c.desc == "G:0:1:0" {
				continue // the v1/v2 hook contract: no zero-length sources
			}
			failed := false
			runs, complete := dfsSchedules(v, c.desc, c.progs, c.iter, c.bound, maxRuns, true, func(o schedOutcome) bool {
				emitSched(e, "strace", v, c.desc, c.progs, o)
				if bad(o) {
					failed = true
					return false
				}
				return true
			})
			e.dist["C05sched.dfs.runs"] += runs
			if complete {
				e.count("C05sched.dfs.complete")
			} else if !failed {
				e.count("C05sched.dfs.truncated")
			}
		}
	}
	// (b) random and PCT schedules
	n := 150
	if thorough {
		n = 2500
	}
	positions := []int{0, 1, 50, 99, 100, 101, 150, 199, 200, 201, 299, 300, 301, 450, 1500, 2500}
	for i := 0; i < n; i++ {
		length := r.pick([]int{-1, -1, 1, 99, 100, 101, 200, 250, 300})
		desc := fmt.Sprintf("G:%d:1:0", length)
		readers := 2 + r.intn(3)
		progs := atProgs(r, readers, 4, positions)
		iterMode := r.intn(4)
		strat := r.intn(3)
		seed := r.next()
		for v := 1; v <= 3; v++ {
			if e.exhausted() {
				return
			}
			rr := &rng{s: seed}
			var pick func([]int, int) int
			switch strat {
			case 0:
				pick = pickRandom(rr, 0)
			case 1:
				pick = pickRandom(rr, 70)
			default:
				pick = pickPCT(rr, 1+rr.intn(3), 60)
			}
			o := runSched(v, desc, progs, pick, iterMode, true)
			emitSched(e, "strace", v, desc, progs, o)
		}
		e.count(fmt.Sprintf("C05sched.random.strategy%d", strat))
	}
	// (b2) a call that never finishes by contract (v1/v2 NumDigits / Reverse on an infinite Number)
	// or that is very far out, running while other readers ask for nearer positions: every one of
	// those must return. Uniform random schedules only (a priority scheduler is not fair).
	nd := 12
	if thorough {
		nd = 150
	}
	for i := 0; i < nd; i++ {
		near := atProgs(r, 1+r.intn(2), 2, []int{0, 50, 99, 100, 150, 250, 301})
		seed := r.next()
		iterMode := r.intn(2)
		for v := 1; v <= 3; v++ {
			if e.exhausted() {
				return
			}
			far := "~at:0:4000000"
			if v != 3 {
				far = r.pickS([]string{"~nd:0", "~back:0:1", "~at:0:4000000", "~fl:0:1_2"})
			}
			progs := append([]string{far}, near...)
			o := runSchedBudget(v, "G:-1:1:0", progs, pickRandom(&rng{s: seed}, 0), iterMode, false, 6000)
			emitSched(e, "sconc", v, "G:-1:1:0", progs, o)
		}
		e.count("C05sched.unbounded_background_demand")
	}
	// (c) arbitrary scripts under random schedules
	m := 60
	if thorough {
		m = 1200
	}
	for i := 0; i < m; i++ {
		var ns numSpec
		switch r.intn(4) {
		case 0:
			ns = genNumber(-1, 2, false)
		case 1:
			ns = genNumber(r.pick([]int{1, 99, 100, 101, 250, 300}), 2, false)
		case 2:
			ns = numSpec{desc: fmt.Sprintf("S:%d:1", 2+r.intn(20)), length: -2, allV: true}
		default:
			ns = numSpec{desc: fmt.Sprintf("C:%d:7", 2+r.intn(20)), length: -2, allV: true}
		}
		readers := 2 + r.intn(3)
		var progs []string
		for k := 0; k < readers; k++ {
			b := newScriptBuilder(r, ns)
			ops := 1 + r.intn(5)
			for j := 0; j < ops; j++ {
				pos := r.pick(positions)
				switch r.intn(8) {
				case 0, 1, 2:
					b.add("at:0:%d", pos)
				case 3:
					b.add("fwd:0:%d", r.pick([]int{1, 99, 100, 101, 250}))
				case 4:
					b.add("ws:0:%d", pos)
					b.handles = append(b.handles, hinfo{pos, maxInt})
					b.add("fwd:%d:%d", len(b.handles)-1, r.pick([]int{1, 5, 100, 120}))
				case 5:
					b.add("fmt:0:%%.%df", r.pick([]int{3, 99, 100, 101, 220}))
				case 6:
					b.add("we:0:%d", pos)
					b.handles = append(b.handles, hinfo{0, pos})
					b.add("back:%d:%d", len(b.handles)-1, r.pick([]int{1, 5, 100, 120}))
				default:
					b.add("ffn:0:e:%d", r.pick([]int{1, 100, 101}))
				}
			}
			progs = append(progs, b.String())
		}
		desc := ns.desc
		if ns.length == -2 && r.coin(40) {
			desc = "X" + desc
		}
		seed := r.next()
		for v := 1; v <= 3; v++ {
			if e.exhausted() {
				return
			}
			rr := &rng{s: seed}
			o := runSched(v, desc, progs, pickRandom(rr, 50), rr.intn(3), false)
			if o.status == "na" || strings.HasPrefix(o.status, "err:") {
				continue
			}
			emitSched(e, "sconc", v, desc, progs, o)
		}
		e.count("C05sched.scripts")
	}
}

func init() {
	groups["C05sched"] = genC05sched
	rep := func(kind string) func(e *emitter, a []string) error {
		return func(e *emitter, a []string) error {
			if len(a) != 4 {
				return fmt.Errorf("%s: want 4 args", kind)
			}
			v := atoi(strings.TrimPrefix(a[0], "v"))
			progs := strings.Split(a[2], "|")
			// the digit source yields at every digit in the recorded run or not at all: the
			// recorded schedule only fits the mode it was recorded under, so try them in turn
			var o schedOutcome
			for mode := 0; mode < 4; mode++ {
				o = runSched(v, a[1], progs, pickReplay(parseSched(a[3])), mode, kind == "strace")
				if o.status != "badpick" && schedString(o.schedule) == a[3] {
					break
				}
			}
			emitSched(e, kind, v, a[1], progs, o)
			return nil
		}
	}
	replayers["strace"] = rep("strace")
	replayers["sconc"] = rep("sconc")
}

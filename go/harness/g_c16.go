package main

import (
	"fmt"
	"math"
	"math/big"
	"slices"
	"strings"
	"time"

	sq1 "github.com/keep94/sqroot"
	sq2 "github.com/keep94/sqroot/v2"
	sq3 "github.com/keep94/sqroot/v3"
)

// ctor v<k> <fn> <a> <b> => ok | panic:<msg>
func runCtor(v int, fn string, a, b int64) string {
	return guardedInline(func() string {
		deg := 2
		if strings.HasPrefix(fn, "cube") {
			deg = 3
		}
		switch fn {
		case "sqrt", "cuberoot":
			newRoot(v, deg, "i64", big.NewInt(a), big.NewInt(1))
		case "sqrtrat", "cuberootrat":
			newRoot(v, deg, "rat64", big.NewInt(a), big.NewInt(b))
		case "sqrtbigint", "cuberootbigint":
			newRoot(v, deg, "bigint", big.NewInt(a), big.NewInt(1))
		case "sqrtbigrat", "cuberootbigrat":
			newRoot(v, deg, "bigrat", big.NewInt(a), big.NewInt(b))
		case "frombigrat":
			newRat(v, big.NewInt(a), big.NewInt(b))
		}
		return "ok"
	})
}

func genCtors(e *emitter, r *rng) {
	grid := []int64{math.MinInt64, math.MinInt64 + 1, -1000, -1, 0, 1, 2, 1000, math.MaxInt64 - 1, math.MaxInt64}
	for _, fn := range []string{"sqrt", "cuberoot", "sqrtbigint", "cuberootbigint"} {
		for _, a := range grid {
			for v := 1; v <= 3; v++ {
				e.line("ctor", fmt.Sprintf("v%d %s %d 1", v, fn, a), runCtor(v, fn, a, 1))
			}
		}
		e.count("C16.ctor." + fn)
	}
	for _, fn := range []string{"sqrtrat", "cuberootrat", "sqrtbigrat", "cuberootbigrat", "frombigrat"} {
		for _, a := range grid {
			for _, b := range grid {
				if b == 0 && strings.Contains(fn, "bigrat") {
					continue // big.Rat itself refuses a zero denominator: no such argument exists
				}
				for v := 1; v <= 3; v++ {
					e.line("ctor", fmt.Sprintf("v%d %s %d %d", v, fn, a, b), runCtor(v, fn, a, b))
				}
			}
		}
		e.count("C16.ctor." + fn)
	}
}

// zero-value receivers and degenerate arguments: everything must return normally
func runZeroValues(v int) string {
	var failed []string
	try := func(name string, f func()) {
		defer func() {
			if r := recover(); r != nil {
				failed = append(failed, name+":"+strings.ReplaceAll(fmt.Sprint(r), " ", "_"))
			}
		}()
		f()
	}
	ints := []int{math.MinInt, -1, 0, 1, 100, math.MaxInt - 1, math.MaxInt}
	switch v {
	case 3:
		n := &sq3.FiniteNumber{}
		for _, x := range ints {
			try("At", func() { n.At(x) })
			try("WithStart", func() { n.WithStart(x).WithEnd(x).WithStart(x) })
			try("WithEnd", func() { n.WithEnd(x).FiniteWithStart(x) })
			try("FiniteWithStart", func() { n.FiniteWithStart(x) })
			if x >= 0 {
				try("WithSignificant", func() { n.WithSignificant(x).WithSignificant(x) })
			}
			try("UpTo", func() { sq3.UpTo(x).End() })
			for _, y := range ints {
				try("Between", func() { sq3.Between(x, y).End() })
				try("AddRange", func() { var pb sq3.PositionsBuilder; pb.AddRange(x, y).Add(x).Add(y).Build(); pb.Build() })
			}
			try("Options", func() {
				sq3.Sprint(n, sq3.UpTo(3), sq3.DigitsPerRow(x), sq3.DigitsPerColumn(x), sq3.MissingDigit(rune(x)), sq3.ShowCount(true))
				sq3.Swrite(n, sq3.DigitsPerRow(x), sq3.DigitsPerColumn(x), sq3.TrailingLF(true), sq3.LeadingDecimal(true))
			})
			try("FindFirstN", func() { sq3.FindFirstN(n, []int{1}, x); sq3.FindLastN(n, nil, x); sq3.FindFirstN(n, []int{}, x) })
		}
		try("scalars", func() { n.Exponent(); n.IsZero(); _ = n.String(); n.Exact(); _ = fmt.Sprintf("%v %f %e %g %d %s %10.3F", n, n, n, n, n, n, n) })
		try("iterators", func() {
			for range n.All() {
			}
			for range n.Values() {
			}
			for range n.Backward() {
			}
			n.Iterator()()
			n.Reverse()()
			sq3.AsString(n)
			sq3.DigitsToString(n)
		})
		try("find", func() {
			for _, p := range [][]int{nil, {}, {1}, {-1, 10}, make([]int, 5000)} {
				sq3.FindFirst(n, p)
				sq3.FindLast(n, p)
				sq3.FindAll(n, p)
				sq3.Find(n, p)()
				sq3.FindR(n, p)()
				slices.Collect(sq3.Matches(n, p))
				slices.Collect(sq3.BackwardMatches(n, p))
			}
		})
		try("positions", func() {
			var p sq3.Positions
			p.End()
			for range p.All() {
			}
			p.Ranges()()
			var pb sq3.PositionsBuilder
			pb.Build()
			sq3.Sprint(n, p)
			sq3.Sprint(sq3.Sqrt(2), p)
			sq3.Print(n, p)
		})
		try("nonfinite views", func() {
			s := sq3.Sqrt(2)
			for _, x := range ints {
				s.WithStart(x)
				s.WithEnd(x)
				s.WithStart(x).WithEnd(3).All()
				sq3.Matches(s.WithStart(x), []int{1})
			}
		})
	default:
		if v == 1 {
			n := &sq1.Number{}
			for _, x := range ints {
				try("At", func() { n.At(x) })
				try("views", func() { n.WithStart(x).WithEnd(x).WithStart(x); n.WithEnd(x) })
				if x >= 0 {
					try("WithSignificant", func() { n.WithSignificant(x) })
					try("IteratorAt", func() { n.IteratorAt(x)() })
				}
				try("UpTo", func() { sq1.UpTo(x).End() })
				for _, y := range ints {
					try("AddRange", func() { var pb sq1.PositionsBuilder; pb.AddRange(x, y).Add(x).Build(); sq1.Between(x, y) })
				}
				try("Options", func() {
					sq1.Sprint(n, sq1.UpTo(3), sq1.DigitsPerRow(x), sq1.DigitsPerColumn(x), sq1.MissingDigit(rune(x)), sq1.ShowCount(true))
				})
				try("FindFirstN", func() { sq1.FindFirstN(n, []int{1}, x); sq1.FindLastN(n, nil, x) })
			}
			try("scalars", func() {
				n.Exponent()
				n.IsZero()
				n.NumDigits()
				n.Iterator()()
				n.Reverse()()
				n.FullIterator()()
				n.FullReverse()()
				_ = fmt.Sprintf("%v %f %e %g %d %s", n, n, n, n, n, n)
			})
			try("find", func() {
				for _, p := range [][]int{nil, {}, {1}, {-1, 10}} {
					sq1.FindFirst(n, p)
					sq1.FindLast(n, p)
					sq1.FindAll(n, p)
					sq1.Find(n, p)()
					sq1.FindR(n, p)()
				}
			})
			try("positions", func() { var p sq1.Positions; p.End(); p.Ranges()(); var pb sq1.PositionsBuilder; pb.Build(); sq1.Sprint(n, p) })
		} else {
			n := &sq2.Number{}
			for _, x := range ints {
				try("At", func() { n.At(x) })
				try("views", func() { n.WithStart(x).WithEnd(x).WithStart(x); n.WithEnd(x) })
				if x >= 0 {
					try("WithSignificant", func() { n.WithSignificant(x) })
				}
				try("UpTo", func() { sq2.UpTo(x).End() })
				for _, y := range ints {
					try("AddRange", func() { var pb sq2.PositionsBuilder; pb.AddRange(x, y).Add(x).Build(); sq2.Between(x, y) })
				}
				try("Options", func() {
					sq2.Sprint(n, sq2.UpTo(3), sq2.DigitsPerRow(x), sq2.DigitsPerColumn(x), sq2.MissingDigit(rune(x)), sq2.ShowCount(true))
				})
				try("FindFirstN", func() { sq2.FindFirstN(n, []int{1}, x); sq2.FindLastN(n, nil, x) })
			}
			try("scalars", func() {
				n.Exponent()
				n.IsZero()
				n.Iterator()()
				n.Reverse()()
				_ = fmt.Sprintf("%v %f %e %g %d %s", n, n, n, n, n, n)
			})
			try("find", func() {
				for _, p := range [][]int{nil, {}, {1}, {-1, 10}} {
					sq2.FindFirst(n, p)
					sq2.FindLast(n, p)
					sq2.FindAll(n, p)
					sq2.Find(n, p)()
					sq2.FindR(n, p)()
				}
			})
			try("positions", func() { var p sq2.Positions; p.End(); p.Ranges()(); var pb sq2.PositionsBuilder; pb.Build(); sq2.Sprint(n, p) })
		}
	}
	if len(failed) == 0 {
		return "ok"
	}
	return "panic:" + strings.Join(failed, ",")
}

func genC16(e *emitter, r *rng, tier string) {
	genCtors(e, r)
	for v := 1; v <= 3; v++ {
		res := guarded(60*time.Second, func() string { return runZeroValues(v) })
		e.line("zv", fmt.Sprintf("v%d", v), res)
		e.count("C16.zerovalue")
	}
	// every statement kind with arguments from the full integer range, on finite Numbers
	n := 300
	if tier == "thorough" {
		n = 4000
	}
	ext := []int{minInt, minInt + 1, -1, 0, 1, 99, 100, 101, maxInt - 1, maxInt}
	for i := 0; i < n; i++ {
		var ns numSpec
		switch r.intn(4) {
		case 0:
			ns = finiteNumber(r, r.pick([]int{1, 5, 100, 101, 250}), r.rangeInt(-3, 6))
		case 1:
			ns = genNumber(r.pick([]int{1, 5, 100, 101, 250}), r.rangeInt(-3, 6), false)
		case 2:
			ns = ratWithDigits(randDigitsNZ(r, r.pick([]int{1, 5, 100, 101})))
		default:
			ns = numSpec{desc: "Z", length: 0, allV: true}
		}
		if i%25 == 7 { // empty but non-nil digit lists
			ns = numSpec{desc: fmt.Sprintf("TE:%s:-:%d", digitsCSV(randDigitsNZ(r, 1+r.intn(4))), r.rangeInt(-2, 3)), length: 3}
		}
		b := newScriptBuilder(r, ns)
		x := func() int { return ext[r.intn(len(ext))] }
		for j := 0; j < 10; j++ {
			h := b.pickHandle()
			switch r.intn(16) {
			case 14:
				// a writer that fails (error / short write) is a legal argument: Fprint over several ranges
				// with a small buffer must return the error, never panic
				b.add("fpr:%d:r%d~%d,r%d~%d,a%d,r%d~%d:R%d.B%d:%d:%d", h, r.pick([]int{0, 2}), r.pick([]int{3, 30}), 40, r.pick([]int{45, 70}),
					80, 90, r.pick([]int{95, 130}), r.pick([]int{0, 10, 50}), r.pick([]int{1, 4, 16}), r.intn(3), r.pick([]int{0, 1, 5, 20, 40, 70, 120}))
			case 15:
				if b.finiteWork(h) {
					b.add("fwr:%d:B%d:%d:%d", h, r.pick([]int{1, 4, 16}), r.intn(3), r.pick([]int{0, 1, 5, 20, 40, 70, 120}))
				} else {
					b.add("at:%d:%d", h, x())
				}
			case 0:
				b.add("ws:%d:%d", h, x())
				b.handles = append(b.handles, b.handles[h])
			case 1:
				b.add("we:%d:%d", h, x())
				b.handles = append(b.handles, b.handles[h])
			case 2:
				b.add("at:%d:%d", h, x())
			case 3:
				b.add("fwd:%d:%d", h, x())
			case 4:
				b.add("back:%d:%d", h, x())
			case 5:
				b.add("ffn:%d:%s:%d", h, r.pickS([]string{"e", "nil", "1", "-1_10", "1_2_3_4_5_6_7_8_9_0_1_2"}), x())
			case 6:
				b.add("fln:%d:%s:%d", h, r.pickS([]string{"e", "nil", "1", "-1_10"}), x())
			case 7:
				b.add("fmt:%d:%%%s%s", h, r.pickS([]string{"", "-", "+", "#", "0", "8", "-8", ".0", ".300", "300.2"}), r.pickS([]string{"f", "e", "g", "v", "d", "s", "x", "q", "c", "U", "t", "b", "o", "X", "G", "E", "F"}))
			case 8:
				b.add("pr:%d:r%d~%d:R%d.C%d.M%d.S%d", h, r.pick([]int{minInt, -5, 0, 3}), r.pick([]int{-1, 0, 5, 120}), x(), x(), r.pick([]int{minInt, -1, 0, 46, 0x10FFFF, 0x110000, maxInt}), r.intn(2))
			case 9:
				b.add("wr:%d:R%d.C%d.T%d.L%d", h, x(), x(), r.intn(2), r.intn(2))
			case 10:
				b.add("find:%d:%s:%d", h, r.pickS([]string{"e", "nil", "1", "7_7"}), r.pick([]int{0, 1, 3}))
			case 11:
				b.add("m:%d:%s:%d", h, r.pickS([]string{"e", "nil", "1"}), x())
			case 12:
				// negative positions must panic (v1 IteratorAt), also on zero Numbers and views of them
				b.add("itat:%d:%d:%d", h, r.pick([]int{minInt, -1, -1, 0, 1, 100, maxInt - 1, maxInt}), 3)
			default:
				b.add("bm:%d:%s:%d", h, r.pickS([]string{"e", "nil", "1"}), x())
			}
		}
		b.emit(e, "C16.extreme")
	}
}

func randDigitsNZ(r *rng, n int) []int {
	ds := make([]int, n)
	for i := range ds {
		ds[i] = 1 + r.intn(9)
	}
	return ds
}

func init() { groups["C16"] = genC16 }

module verif/harness

go 1.23.0

require (
	github.com/keep94/sqroot v0.0.0
	github.com/keep94/sqroot/v2 v2.0.0
	github.com/keep94/sqroot/v3 v3.0.0
)

require (
	github.com/keep94/consume2 v0.6.0 // indirect
	github.com/keep94/itertools v0.3.0 // indirect
)

replace github.com/keep94/sqroot => /repo

replace github.com/keep94/sqroot/v2 => /repo/v2

replace github.com/keep94/sqroot/v3 => /repo/v3

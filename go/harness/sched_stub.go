//go:build !sched

package main

// The controlled-scheduler groups exist only in the binary built with -tags "verif sched" and the
// overlay produced by /verif/go/shimgen.

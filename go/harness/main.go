// Command harness runs keep94/sqroot (v1, v2, v3 linked into one binary, built with -tags verif
// from /repo's working tree) on generated cases and writes one line per case:
//
//	<kind> <args...> => <what the implementation answered>
//
// The same file is then read by the Lean drivers (spec oracle, executable model), which say per
// line whether the implementation's answer satisfies the specification / equals the model's.
//
// usage: harness <group> <tier> <seed> <outfile>
package main

import (
	"unicode/utf8"
	"bufio"
	"fmt"
	"os"
	"sort"
	"strconv"
	"strings"
	"time"
)

type emitter struct {
	w     *bufio.Writer
	hangs int // cases that hit the watchdog; after maxHangs the run stops generating
	bytes int64
	n     int
	dist  map[string]int
	limit time.Time
}

const maxHangs = 3

func (e *emitter) line(kind string, args string, result string) {
	if e.hangs >= maxHangs {
		return // a hung case leaves a spinning goroutine behind; enough evidence, stop here
	}
	if result == "hang" || result == "!!hang" {
		e.hangs++
	}
	if e.bytes > maxCaseBytes {
		e.dist["generation_stopped_at_the_size_cap"] = 1
		return
	}
	n, _ := fmt.Fprintf(e.w, "%s %s => %s\n", kind, validText(args), validText(result))
	e.bytes += int64(n)
	e.n++
}

// validText: an implementation that emits bytes which are not UTF-8 (a "digit" character computed
// from an out-of-range value, say) must not make the case file unreadable for the drivers: such
// bytes, and stray line breaks, are written as \xNN
func validText(s string) string {
	if utf8.ValidString(s) && !strings.ContainsAny(s, "\n\r") {
		return s
	}
	var b strings.Builder
	for i := 0; i < len(s); {
		r, size := utf8.DecodeRuneInString(s[i:])
		if (r == utf8.RuneError && size == 1) || r == '\n' || r == '\r' {
			fmt.Fprintf(&b, "\\x%02x", s[i])
			i++
			continue
		}
		b.WriteString(s[i : i+size])
		i += size
	}
	return b.String()
}

// a case file never grows beyond this (a run that would is cut short and says so in its
// distribution); generators are sized to stay far below it
const maxCaseBytes = 600 << 20

// exhausted reports that the hang budget is used up (generators may stop early).
func (e *emitter) exhausted() bool { return e.hangs >= maxHangs || e.bytes > maxCaseBytes }
func (e *emitter) count(key string) { e.dist[key]++ }

// guarded runs f under recover and a watchdog; a panic is returned as "panic:<msg>", a hang as "hang".
func guarded(timeout time.Duration, f func() string) (res string) {
	ch := make(chan string, 1)
	go func() {
		defer func() {
			if r := recover(); r != nil {
				ch <- "panic:" + strings.ReplaceAll(fmt.Sprint(r), " ", "_")
			}
		}()
		ch <- f()
	}()
	select {
	case s := <-ch:
		return s
	case <-time.After(timeout):
		return "hang"
	}
}

var groups = map[string]func(e *emitter, r *rng, tier string){}

func main() {
	if len(os.Args) != 5 {
		fmt.Fprintln(os.Stderr, "usage: harness <group> <tier> <seed> <outfile>")
		os.Exit(2)
	}
	group, tier := os.Args[1], os.Args[2]
	seed, _ := strconv.ParseUint(os.Args[3], 10, 64)
	f, err := os.Create(os.Args[4])
	if err != nil {
		fmt.Fprintln(os.Stderr, err)
		os.Exit(2)
	}
	e := &emitter{w: bufio.NewWriterSize(f, 1<<20), dist: map[string]int{}}
	if group == "replay" {
		runReplay(e, tier)
		e.w.Flush()
		f.Close()
		return
	}
	g, ok := groups[group]
	if !ok {
		fmt.Fprintln(os.Stderr, "unknown group", group)
		os.Exit(2)
	}
	r := &rng{s: seed*0x9e3779b97f4a7c15 + 12345}
	g(e, r, tier)
	e.w.Flush()
	f.Close()
	// distribution to stdout as "key count" lines
	var keys []string
	for k := range e.dist {
		keys = append(keys, k)
	}
	sort.Strings(keys)
	fmt.Printf("lines %d\n", e.n)
	for _, k := range keys {
		fmt.Printf("dist %s %d\n", k, e.dist[k])
	}
}

package main

func init() {
	groups["scripttest"] = func(e *emitter, r *rng, tier string) {
		for v := 1; v <= 3; v++ {
			emitScriptLine(e, v, "S:2:1", "at:0:0;at:0:5;ws:0:3;we:1:8;fwd:2:20;back:2:20;fmt:0:%.5f;str:0;ff:0:1_4;ffn:0:2:3;wsig:0:10;fa:3:1;fl:3:1;exp:0;zero:0;pr:0:r0~12,r20~23:R10.C5;fpr:0:r0~12:B4:0:7")
			emitScriptLine(e, v, "G:250:3:0", "cons;at:0:0;cons;at:0:99;cons;at:0:100;cons;fwd:0:205;cons;at:0:400;cons;mk:0:fwd;nx:0:3;ws:0:248;fwd:1:10;back:1:5")
			emitScriptLine(e, v, "T:1,2,3:4,5:2", "fwd:0:8;fwd2:0:8;mkseq:0;run:0:3;run:0:4;we:0:4;astr:1;exact:1;m2:0:4_5:3;bm:1:2_3:5;wr:1:R2.C1;fws:1:1;fwd:2:9")
			emitScriptLine(e, v, "Z", "at:0:0;fwd:0:3;str:0;fmt:0:%8.2e;ws:0:1;fwd:1:3;wsig:0:-1")
		}
	}
}

// Command extract regenerates the Lean files Sqroot/Gen/V{1,2,3}.lean from the current
// working tree of keep94/sqroot (tie 1 of DESIGN.md).  It is deliberately small:
//
//	G1  constants (chunk size, default precisions, big.NewInt table, Fprint/Fwrite defaults)
//	G2  big.Int straight-line method bodies of the root managers, by symbolic evaluation
//	G3  pure int/bool functions, by symbolic evaluation into nested if-expressions
//	G4  monitor IR of memoizer.{wait,waitToGrow,setData,run} + lock discipline facts
//	G5  API surface: exported funcs/methods, reference-typed parameters and how they are used
//	G6  explicit panic sites
//
// usage: extract <repo-dir-of-version> <LeanNamespaceSuffix> <out.lean>
package main

import (
	"fmt"
	"go/ast"
	"go/parser"
	"go/token"
	"os"
	"path/filepath"
	"sort"
	"strconv"
	"strings"
)

type pkgInfo struct {
	fset   *token.FileSet
	files  []*ast.File
	funcs  map[string]*ast.FuncDecl // "Name" or "Recv.Name"
	consts map[string]ast.Expr
	vars   map[string]ast.Expr
	order  []string
}

func load(dir string) *pkgInfo {
	p := &pkgInfo{fset: token.NewFileSet(), funcs: map[string]*ast.FuncDecl{},
		consts: map[string]ast.Expr{}, vars: map[string]ast.Expr{}}
	ents, err := os.ReadDir(dir)
	if err != nil {
		fatal("readdir: %v", err)
	}
	var names []string
	for _, e := range ents {
		n := e.Name()
		if e.IsDir() || !strings.HasSuffix(n, ".go") || strings.HasSuffix(n, "_test.go") {
			continue
		}
		// build-tagged hook files are not part of the shipped package
		if strings.HasPrefix(n, "verif_") {
			continue
		}
		names = append(names, n)
	}
	sort.Strings(names)
	for _, n := range names {
		f, err := parser.ParseFile(p.fset, filepath.Join(dir, n), nil, parser.ParseComments)
		if err != nil {
			fatal("parse %s: %v", n, err)
		}
		p.files = append(p.files, f)
		for _, d := range f.Decls {
			switch d := d.(type) {
			case *ast.FuncDecl:
				name := d.Name.Name
				if d.Recv != nil && len(d.Recv.List) == 1 {
					name = recvTypeName(d.Recv.List[0].Type) + "." + name
				}
				p.funcs[name] = d
				p.order = append(p.order, name)
			case *ast.GenDecl:
				for _, s := range d.Specs {
					vs, ok := s.(*ast.ValueSpec)
					if !ok {
						continue
					}
					for i, id := range vs.Names {
						if i < len(vs.Values) {
							if d.Tok == token.CONST {
								p.consts[id.Name] = vs.Values[i]
							} else {
								p.vars[id.Name] = vs.Values[i]
							}
						}
					}
				}
			}
		}
	}
	return p
}

func recvTypeName(e ast.Expr) string {
	switch t := e.(type) {
	case *ast.StarExpr:
		return recvTypeName(t.X)
	case *ast.Ident:
		return t.Name
	case *ast.IndexExpr:
		return recvTypeName(t.X)
	}
	return "?"
}

func fatal(f string, a ...any) {
	fmt.Fprintf(os.Stderr, "extract: "+f+"\n", a...)
	os.Exit(2)
}

// ---------------------------------------------------------------- output

type out struct {
	sb       strings.Builder
	problems []string
}

func (o *out) line(f string, a ...any) { fmt.Fprintf(&o.sb, f+"\n", a...) }
func (o *out) problem(f string, a ...any) {
	msg := fmt.Sprintf(f, a...)
	o.problems = append(o.problems, msg)
}

// ---------------------------------------------------------------- G1

func (p *pkgInfo) intConst(name string) (int64, bool) {
	e, ok := p.consts[name]
	if !ok {
		return 0, false
	}
	return p.evalConst(e)
}

func (p *pkgInfo) evalConst(e ast.Expr) (int64, bool) {
	switch v := e.(type) {
	case *ast.BasicLit:
		if v.Kind == token.INT {
			n, err := strconv.ParseInt(v.Value, 0, 64)
			return n, err == nil
		}
		if v.Kind == token.CHAR {
			s, err := strconv.Unquote(v.Value)
			if err != nil {
				return 0, false
			}
			r := []rune(s)
			if len(r) != 1 {
				return 0, false
			}
			return int64(r[0]), true
		}
	case *ast.ParenExpr:
		return p.evalConst(v.X)
	case *ast.Ident:
		return p.intConst(v.Name)
	case *ast.UnaryExpr:
		if v.Op == token.SUB {
			n, ok := p.evalConst(v.X)
			return -n, ok
		}
	case *ast.BinaryExpr:
		a, ok1 := p.evalConst(v.X)
		b, ok2 := p.evalConst(v.Y)
		if !ok1 || !ok2 {
			return 0, false
		}
		switch v.Op {
		case token.ADD:
			return a + b, true
		case token.SUB:
			return a - b, true
		case token.MUL:
			return a * b, true
		case token.QUO:
			if b != 0 {
				return a / b, true
			}
		}
	case *ast.SelectorExpr:
		if x, ok := v.X.(*ast.Ident); ok && x.Name == "math" && v.Sel.Name == "MaxInt" {
			return 1<<63 - 1, true
		}
	}
	return 0, false
}

// bigConst returns the value of a package-level `x = big.NewInt(N)`.
func (p *pkgInfo) bigConst(name string) (int64, bool) {
	e, ok := p.vars[name]
	if !ok {
		return 0, false
	}
	return p.bigNewInt(e)
}

func (p *pkgInfo) bigNewInt(e ast.Expr) (int64, bool) {
	c, ok := e.(*ast.CallExpr)
	if !ok || len(c.Args) != 1 {
		return 0, false
	}
	s, ok := c.Fun.(*ast.SelectorExpr)
	if !ok || s.Sel.Name != "NewInt" {
		return 0, false
	}
	if x, ok := s.X.(*ast.Ident); !ok || x.Name != "big" {
		return 0, false
	}
	return p.evalConst(c.Args[0])
}

// ---------------------------------------------------------------- G2: big.Int symbolic evaluation

// sym is a symbolic integer expression printed as Lean.
type sym string

type bigEnv struct {
	p     *pkgInfo
	vals  map[string]sym    // variable (pointer identity) -> current value
	alias map[string]string // local pointer variable -> the variable it points to (x := new(big.Int).Mul(a, b))
	o     *out
	ctx   string
}

func (b *bigEnv) resolve(name string) string {
	for i := 0; i < 8; i++ {
		t, ok := b.alias[name]
		if !ok {
			break
		}
		name = t
	}
	return name
}

func (b *bigEnv) fresh(v sym) string {
	name := fmt.Sprintf("$tmp%d", len(b.vals))
	b.vals[name] = v
	return name
}

// isNewBigInt recognises new(big.Int)
func isNewBigInt(c *ast.CallExpr) bool {
	f, ok := c.Fun.(*ast.Ident)
	if !ok || f.Name != "new" || len(c.Args) != 1 {
		return false
	}
	s, ok := c.Args[0].(*ast.SelectorExpr)
	if !ok || s.Sel.Name != "Int" {
		return false
	}
	x, ok := s.X.(*ast.Ident)
	return ok && x.Name == "big"
}

func (b *bigEnv) get(name string) sym {
	if v, ok := b.vals[name]; ok {
		return v
	}
	if n, ok := b.p.bigConst(name); ok {
		return sym(leanInt(n))
	}
	b.o.problem("%s: unknown big.Int variable %s", b.ctx, name)
	return sym("(0 : Int)")
}

func leanInt(n int64) string {
	if n < 0 {
		return fmt.Sprintf("(%d)", n)
	}
	return fmt.Sprintf("%d", n)
}

// ptr evaluates an expression of type *big.Int to the name of the variable it points to,
// executing any mutating calls on the way.
func (b *bigEnv) ptr(e ast.Expr) string {
	switch v := e.(type) {
	case *ast.Ident:
		return b.resolve(v.Name)
	case *ast.ParenExpr:
		return b.ptr(v.X)
	case *ast.UnaryExpr:
		if v.Op == token.AND {
			return b.lval(v.X)
		}
	case *ast.SelectorExpr:
		return b.lval(v)
	case *ast.CallExpr:
		return b.call(v)
	}
	b.o.problem("%s: unsupported big.Int pointer expression %T", b.ctx, e)
	return "?"
}

func (b *bigEnv) lval(e ast.Expr) string {
	switch v := e.(type) {
	case *ast.Ident:
		return v.Name
	case *ast.SelectorExpr:
		if x, ok := v.X.(*ast.Ident); ok {
			return x.Name + "." + v.Sel.Name
		}
	}
	b.o.problem("%s: unsupported big.Int lvalue %T", b.ctx, e)
	return "?"
}

// call executes x.Op(args...) and returns the variable x (math/big methods return the receiver).
func (b *bigEnv) call(c *ast.CallExpr) string {
	if isNewBigInt(c) {
		return b.fresh(sym("0"))
	}
	s, ok := c.Fun.(*ast.SelectorExpr)
	if !ok {
		b.o.problem("%s: unsupported call", b.ctx)
		return "?"
	}
	// big.NewInt(k)
	if x, ok := s.X.(*ast.Ident); ok && x.Name == "big" && s.Sel.Name == "NewInt" {
		n, ok := b.p.evalConst(c.Args[0])
		if !ok {
			b.o.problem("%s: non-constant big.NewInt", b.ctx)
		}
		return b.fresh(sym(leanInt(n)))
	}
	recv := b.ptr(s.X)
	var args []string
	for _, a := range c.Args {
		args = append(args, b.ptr(a))
	}
	bin := func(op string) {
		if len(args) != 2 {
			b.o.problem("%s: %s expects 2 args", b.ctx, s.Sel.Name)
			return
		}
		b.vals[recv] = sym(fmt.Sprintf("(%s %s %s)", b.get(args[0]), op, b.get(args[1])))
	}
	switch s.Sel.Name {
	case "Add":
		bin("+")
	case "Sub":
		bin("-")
	case "Mul":
		bin("*")
	case "Set":
		if len(args) == 1 {
			b.vals[recv] = b.get(args[0])
		}
	default:
		b.o.problem("%s: unsupported big.Int method %s", b.ctx, s.Sel.Name)
	}
	return recv
}

func (b *bigEnv) exec(body *ast.BlockStmt) (ret string) {
	for _, st := range body.List {
		switch s := st.(type) {
		case *ast.ExprStmt:
			if c, ok := s.X.(*ast.CallExpr); ok {
				b.call(c)
				continue
			}
			b.o.problem("%s: unsupported expression statement", b.ctx)
		case *ast.DeclStmt:
			gd, ok := s.Decl.(*ast.GenDecl)
			if !ok || gd.Tok != token.VAR {
				b.o.problem("%s: unsupported declaration", b.ctx)
				continue
			}
			for _, sp := range gd.Specs {
				for _, id := range sp.(*ast.ValueSpec).Names {
					b.vals[id.Name] = sym("0")
				}
			}
		case *ast.AssignStmt:
			// result := &cubeRootManager{}
			if len(s.Lhs) == 1 && len(s.Rhs) == 1 {
				if id, ok := s.Lhs[0].(*ast.Ident); ok {
					if u, ok := s.Rhs[0].(*ast.UnaryExpr); ok && u.Op == token.AND {
						if cl, ok := u.X.(*ast.CompositeLit); ok && len(cl.Elts) == 0 {
							b.vals[id.Name+".incr2"] = sym("0")
							continue
						}
					}
				}
			}
			// x := <expression of type *big.Int> (a fresh temporary, the result of a chain): x names that variable
			if len(s.Lhs) == 1 && len(s.Rhs) == 1 && (s.Tok == token.DEFINE || s.Tok == token.ASSIGN) {
				if id, ok := s.Lhs[0].(*ast.Ident); ok {
					switch s.Rhs[0].(type) {
					case *ast.CallExpr, *ast.UnaryExpr, *ast.Ident:
						before := len(b.o.problems)
						t := b.ptr(s.Rhs[0])
						if len(b.o.problems) == before && t != "?" && t != id.Name {
							if b.alias == nil {
								b.alias = map[string]string{}
							}
							b.alias[id.Name] = t
							continue
						}
					}
				}
			}
			b.o.problem("%s: unsupported assignment", b.ctx)
		case *ast.ReturnStmt:
			if len(s.Results) == 1 {
				switch r := s.Results[0].(type) {
				case *ast.CallExpr:
					return b.call(r)
				case *ast.Ident:
					return r.Name
				case *ast.CompositeLit:
					return "$lit"
				}
			}
			if len(s.Results) == 0 {
				return ""
			}
			b.o.problem("%s: unsupported return", b.ctx)
		default:
			b.o.problem("%s: unsupported statement %T", b.ctx, st)
		}
	}
	return ""
}

func (p *pkgInfo) recvName(fd *ast.FuncDecl) string {
	if fd.Recv != nil && len(fd.Recv.List) == 1 && len(fd.Recv.List[0].Names) == 1 {
		return fd.Recv.List[0].Names[0].Name
	}
	return "_"
}

// managerMethod evaluates Next/NextDigit of a manager type on symbolic (incr, incr2).
func (p *pkgInfo) managerMethod(o *out, typ, meth string) (sym, sym) {
	fd := p.funcs[typ+"."+meth]
	if fd == nil {
		o.problem("missing method %s.%s", typ, meth)
		return "incr", "incr2"
	}
	r := p.recvName(fd)
	env := &bigEnv{p: p, vals: map[string]sym{}, o: o, ctx: typ + "." + meth}
	if len(fd.Type.Params.List) != 1 || len(fd.Type.Params.List[0].Names) != 1 {
		o.problem("%s.%s: unexpected parameters", typ, meth)
		return "incr", "incr2"
	}
	param := fd.Type.Params.List[0].Names[0].Name
	env.vals[param] = "incr"
	env.vals[r+".incr2"] = "incr2"
	env.exec(fd.Body)
	return env.vals[param], env.vals[r+".incr2"]
}

func (p *pkgInfo) managerBase(o *out, typ string) sym {
	fd := p.funcs[typ+".Base"]
	if fd == nil {
		o.problem("missing method %s.Base", typ)
		return "0"
	}
	env := &bigEnv{p: p, vals: map[string]sym{}, o: o, ctx: typ + ".Base"}
	param := fd.Type.Params.List[0].Names[0].Name
	env.vals[param] = "0"
	ret := env.exec(fd.Body)
	return env.get(ret)
}

// ---------------------------------------------------------------- G3: pure int/bool functions

type intEnv struct {
	p      *pkgInfo
	o      *out
	ctx    string
	recv   string
	fields map[string]bool // receiver fields used (become parameters)
	// struct types whose literals we can print
	// overflow companion: every +, -, *, unary -, / and % translated since the last drain, as Lean
	// Bool expressions that are true iff the Go int result would leave the int64 range (or divide by 0)
	pending []string
	depth   int // nesting of inlined helper calls
	ovfMode bool // block() builds the overflow companion (a Bool) instead of the function's value
}

// drain returns the overflow conditions collected since mark and forgets them.
func (e *intEnv) drain(mark int) []string {
	out := append([]string(nil), e.pending[mark:]...)
	e.pending = e.pending[:mark]
	return out
}

func orAll(conds []string, rest string) string {
	res := rest
	for i := len(conds) - 1; i >= 0; i-- {
		if res == "false" {
			res = conds[i]
		} else {
			res = "(" + conds[i] + " || " + res + ")"
		}
	}
	return res
}

type scope map[string]string

func (s scope) clone() scope {
	c := scope{}
	for k, v := range s {
		c[k] = v
	}
	return c
}

// functions that are emitted as Lean definitions of their own (calls to them stay calls); every
// other package-level function called from a translated body is inlined
var emittedByName = map[string]bool{"bigExponent": true, "digitOutOfRange": true, "formatSpecForG": true}

var structFields = map[string][]string{
	"formatSpec": {"sigDigits", "exactDigitCount", "sci", "capital"},
}
var structZero = map[string]string{
	"sigDigits": "0", "exactDigitCount": "false", "sci": "false", "capital": "false",
}

func (e *intEnv) expr(x ast.Expr, sc scope) string {
	switch v := x.(type) {
	case *ast.BasicLit:
		n, ok := e.p.evalConst(v)
		if ok {
			return leanInt(n)
		}
	case *ast.Ident:
		switch v.Name {
		case "true", "false":
			return v.Name
		}
		if s, ok := sc[v.Name]; ok {
			return s
		}
		if typ, ok := sc[v.Name+".#type"]; ok {
			if fs, ok := structFields[typ]; ok {
				var parts []string
				for _, f := range fs {
					parts = append(parts, f+" := "+sc[v.Name+"."+f])
				}
				return "({ " + strings.Join(parts, ", ") + " } : Sqroot.FormatSpec)"
			}
		}
		if n, ok := e.p.intConst(v.Name); ok {
			return leanInt(n)
		}
	case *ast.ParenExpr:
		return e.expr(v.X, sc)
	case *ast.UnaryExpr:
		switch v.Op {
		case token.NOT:
			return "(!" + e.expr(v.X, sc) + ")"
		case token.SUB:
			r := "(-" + e.expr(v.X, sc) + ")"
			e.pending = append(e.pending, "(Sqroot.outI64 "+r+")")
			return r
		}
	case *ast.BinaryExpr:
		a := e.expr(v.X, sc)
		markB := len(e.pending)
		b := e.expr(v.Y, sc)
		if v.Op == token.LAND || v.Op == token.LOR {
			// the right operand is evaluated only when the left one does not decide
			guard := a
			if v.Op == token.LOR {
				guard = "(!" + a + ")"
			}
			for _, c := range e.drain(markB) {
				e.pending = append(e.pending, "("+guard+" && "+c+")")
			}
		}
		arith := func(r string) string {
			e.pending = append(e.pending, "(Sqroot.outI64 "+r+")")
			return r
		}
		switch v.Op {
		case token.ADD:
			return arith("(" + a + " + " + b + ")")
		case token.SUB:
			return arith("(" + a + " - " + b + ")")
		case token.MUL:
			return arith("(" + a + " * " + b + ")")
		case token.QUO:
			e.pending = append(e.pending, "("+b+" == 0)")
			return arith("(Int.tdiv " + a + " " + b + ")")
		case token.REM:
			e.pending = append(e.pending, "("+b+" == 0)")
			return "(Int.tmod " + a + " " + b + ")"
		case token.LSS:
			return "(decide (" + a + " < " + b + "))"
		case token.LEQ:
			return "(decide (" + a + " ≤ " + b + "))"
		case token.GTR:
			return "(decide (" + a + " > " + b + "))"
		case token.GEQ:
			return "(decide (" + a + " ≥ " + b + "))"
		case token.EQL:
			return "(" + a + " == " + b + ")"
		case token.NEQ:
			return "(" + a + " != " + b + ")"
		case token.LAND:
			return "(" + a + " && " + b + ")"
		case token.LOR:
			return "(" + a + " || " + b + ")"
		}
	case *ast.SelectorExpr:
		if id, ok := v.X.(*ast.Ident); ok {
			if val, ok := sc[id.Name+"."+v.Sel.Name]; ok { // field of a struct-typed local
				return val
			}
		}
		if id, ok := v.X.(*ast.Ident); ok && id.Name == e.recv {
			e.fields[v.Sel.Name] = true
			return "p_" + v.Sel.Name
		}
	case *ast.CallExpr:
		// len(strconv.Itoa(x))
		if id, ok := v.Fun.(*ast.Ident); ok && id.Name == "len" && len(v.Args) == 1 {
			if c, ok := v.Args[0].(*ast.CallExpr); ok {
				if s, ok := c.Fun.(*ast.SelectorExpr); ok && s.Sel.Name == "Itoa" {
					return "(Sqroot.itoaLen " + e.expr(c.Args[0], sc) + ")"
				}
			}
		}
		if id, ok := v.Fun.(*ast.Ident); ok {
			if id.Name == "min" && len(v.Args) == 2 {
				return "(min " + e.expr(v.Args[0], sc) + " " + e.expr(v.Args[1], sc) + ")"
			}
			if callee, ok := e.p.funcs[id.Name]; ok && !emittedByName[id.Name] && callee.Recv == nil && callee.Body != nil && e.depth < 6 {
				// an unexported pure helper: inline its body (symbolic evaluation with the arguments bound)
				csc := scope{}
				i := 0
				okArgs := true
				for _, f := range callee.Type.Params.List {
					for _, n := range f.Names {
						if i >= len(v.Args) {
							okArgs = false
							break
						}
						csc[n.Name] = e.expr(v.Args[i], sc)
						i++
					}
				}
				if okArgs && i == len(v.Args) {
					e.depth++
					saveCtx := e.ctx
					e.ctx = saveCtx + " (inlined " + id.Name + ")"
					saveMode := e.ovfMode
					e.ovfMode = false
					mark := len(e.pending)
					res := e.block(callee.Body.List, csc.clone(), func(scope) string {
						e.o.problem("%s: control reaches end of inlined function", e.ctx)
						return "default"
					})
					e.drain(mark)
					e.ovfMode = true
					ovf := e.block(callee.Body.List, csc.clone(), func(scope) string { return "false" })
					e.drain(mark)
					if ovf != "false" {
						e.pending = append(e.pending, ovf)
					}
					e.ovfMode = saveMode
					e.ctx = saveCtx
					e.depth--
					return res
				}
			}
			if _, ok := e.p.funcs[id.Name]; ok {
				parts := []string{id.Name}
				for _, a := range v.Args {
					parts = append(parts, e.expr(a, sc))
				}
				e.pending = append(e.pending, "("+id.Name+"Ovf "+strings.Join(parts[1:], " ")+")")
				return "(" + strings.Join(parts, " ") + ")"
			}
		}
	case *ast.CompositeLit:
		if id, ok := v.Type.(*ast.Ident); ok {
			if fs, ok := structFields[id.Name]; ok {
				vals := map[string]string{}
				for _, el := range v.Elts {
					kv, ok := el.(*ast.KeyValueExpr)
					if !ok {
						e.o.problem("%s: positional struct literal", e.ctx)
						continue
					}
					vals[kv.Key.(*ast.Ident).Name] = e.expr(kv.Value, sc)
				}
				var parts []string
				for _, f := range fs {
					val, ok := vals[f]
					if !ok {
						val = structZero[f]
					}
					parts = append(parts, f+" := "+val)
					delete(vals, f)
				}
				for k := range vals {
					e.o.problem("%s: unknown field %s in %s literal", e.ctx, k, id.Name)
				}
				return "({ " + strings.Join(parts, ", ") + " } : Sqroot.FormatSpec)"
			}
		}
	}
	e.o.problem("%s: untranslatable expression %T", e.ctx, x)
	return "Sqroot.untranslated"
}

// block turns statements followed by continuation `rest` into one Lean expression.
func (e *intEnv) block(stmts []ast.Stmt, sc scope, rest func(scope) string) string {
	if len(stmts) == 0 {
		return rest(sc)
	}
	st, tail := stmts[0], stmts[1:]
	cont := func(s scope) string { return e.block(tail, s, rest) }
	switch s := st.(type) {
	case *ast.ReturnStmt:
		var parts []string
		mark := len(e.pending)
		for _, r := range s.Results {
			parts = append(parts, e.expr(r, sc))
		}
		conds := e.drain(mark)
		if e.ovfMode {
			return orAll(conds, "false")
		}
		if len(parts) == 1 {
			return parts[0]
		}
		return "(" + strings.Join(parts, ", ") + ")"
	case *ast.AssignStmt:
		if len(s.Lhs) == len(s.Rhs) {
			n := sc.clone()
			mark := len(e.pending)
			wrap := func(res string) string {
				conds := e.drain(mark)
				if e.ovfMode {
					return orAll(conds, res)
				}
				return res
			}
			_ = wrap
			for i := range s.Lhs {
				if sel, ok := s.Lhs[i].(*ast.SelectorExpr); ok {
					// result.field = expr  (struct-typed local)
					if base, ok := sel.X.(*ast.Ident); ok {
						if _, isStruct := sc[base.Name+".#type"]; isStruct && s.Tok == token.ASSIGN {
							n[base.Name+"."+sel.Sel.Name] = e.expr(s.Rhs[i], sc)
							continue
						}
					}
				}
				id, ok := s.Lhs[i].(*ast.Ident)
				if !ok {
					e.o.problem("%s: assignment to non-identifier", e.ctx)
					continue
				}
				if cl, ok := s.Rhs[i].(*ast.CompositeLit); ok {
					if tid, ok := cl.Type.(*ast.Ident); ok {
						if fs, ok := structFields[tid.Name]; ok && (s.Tok == token.DEFINE || s.Tok == token.ASSIGN) {
							// result := formatSpec{...}: remember every field separately
							n[id.Name+".#type"] = tid.Name
							for _, f := range fs {
								n[id.Name+"."+f] = structZero[f]
							}
							for _, el := range cl.Elts {
								if kv, ok := el.(*ast.KeyValueExpr); ok {
									n[id.Name+"."+kv.Key.(*ast.Ident).Name] = e.expr(kv.Value, sc)
								}
							}
							continue
						}
					}
				}
				rhs := e.expr(s.Rhs[i], sc)
				switch s.Tok {
				case token.ASSIGN, token.DEFINE:
					n[id.Name] = rhs
				case token.ADD_ASSIGN:
					n[id.Name] = "(" + sc[id.Name] + " + " + rhs + ")"
					e.pending = append(e.pending, "(Sqroot.outI64 "+n[id.Name]+")")
				case token.SUB_ASSIGN:
					n[id.Name] = "(" + sc[id.Name] + " - " + rhs + ")"
					e.pending = append(e.pending, "(Sqroot.outI64 "+n[id.Name]+")")
				default:
					e.o.problem("%s: unsupported assignment operator", e.ctx)
				}
			}
			conds := e.drain(mark)
			if e.ovfMode {
				return orAll(conds, cont(n))
			}
			return cont(n)
		}
		// precision, precisionOk := state.Precision()
		if len(s.Lhs) == 2 && len(s.Rhs) == 1 {
			if c, ok := s.Rhs[0].(*ast.CallExpr); ok {
				if sel, ok := c.Fun.(*ast.SelectorExpr); ok && sel.Sel.Name == "Precision" {
					n := sc.clone()
					n[s.Lhs[0].(*ast.Ident).Name] = "precision"
					n[s.Lhs[1].(*ast.Ident).Name] = "precisionOk"
					return cont(n)
				}
			}
		}
		e.o.problem("%s: unsupported assignment form", e.ctx)
		return cont(sc)
	case *ast.DeclStmt:
		gd := s.Decl.(*ast.GenDecl)
		n := sc.clone()
		mark := len(e.pending)
		for _, sp := range gd.Specs {
			vs := sp.(*ast.ValueSpec)
			for i, id := range vs.Names {
				if i < len(vs.Values) {
					n[id.Name] = e.expr(vs.Values[i], sc)
				} else if t, ok := vs.Type.(*ast.Ident); ok && t.Name == "bool" {
					n[id.Name] = "false"
				} else if t, ok := vs.Type.(*ast.Ident); ok && structFields[t.Name] != nil {
					n[id.Name+".#type"] = t.Name
					for _, f := range structFields[t.Name] {
						n[id.Name+"."+f] = structZero[f]
					}
				} else {
					n[id.Name] = "0"
				}
			}
		}
		if conds := e.drain(mark); e.ovfMode {
			return orAll(conds, cont(n))
		}
		return cont(n)
	case *ast.IfStmt:
		if s.Init != nil {
			e.o.problem("%s: if with init", e.ctx)
		}
		markC := len(e.pending)
		c := e.expr(s.Cond, sc)
		condBad := e.drain(markC)
		thn := e.block(s.Body.List, sc.clone(), cont)
		var els string
		switch el := s.Else.(type) {
		case nil:
			els = cont(sc)
		case *ast.BlockStmt:
			els = e.block(el.List, sc.clone(), cont)
		case *ast.IfStmt:
			els = e.block([]ast.Stmt{el}, sc.clone(), cont)
		}
		if e.ovfMode {
			return orAll(condBad, "(if "+c+" then "+thn+" else "+els+")")
		}
		return "(if " + c + " then " + thn + " else " + els + ")"
	case *ast.SwitchStmt:
		if s.Init != nil || s.Tag == nil {
			e.o.problem("%s: unsupported switch form", e.ctx)
			return cont(sc)
		}
		markT := len(e.pending)
		tag := e.expr(s.Tag, sc)
		var def []ast.Stmt
		hasDef := false
		type arm struct {
			cond string
			body []ast.Stmt
		}
		var arms []arm
		for _, cc := range s.Body.List {
			cl := cc.(*ast.CaseClause)
			if cl.List == nil {
				def, hasDef = cl.Body, true
				continue
			}
			var cs []string
			for _, x := range cl.List {
				cs = append(cs, "("+tag+" == "+e.expr(x, sc)+")")
			}
			arms = append(arms, arm{strings.Join(cs, " || "), cl.Body})
		}
		tagBad := e.drain(markT)
		var res string
		if hasDef {
			res = e.block(def, sc.clone(), cont)
		} else {
			res = cont(sc)
		}
		for i := len(arms) - 1; i >= 0; i-- {
			res = "(if " + arms[i].cond + " then " + e.block(arms[i].body, sc.clone(), cont) + " else " + res + ")"
		}
		if e.ovfMode {
			// tag and case expressions are evaluated before any arm runs (conservative: all of them)
			return orAll(tagBad, res)
		}
		return res
	}
	e.o.problem("%s: unsupported statement %T", e.ctx, st)
	return cont(sc)
}

type leanParam struct{ name, typ string }

func goTypeToLean(t ast.Expr) (string, bool) {
	if id, ok := t.(*ast.Ident); ok {
		switch id.Name {
		case "int", "rune":
			return "Int", true
		case "bool":
			return "Bool", true
		case "formatSpec":
			return "Sqroot.FormatSpec", true
		}
	}
	return "", false
}

// translateFunc emits `def <leanName> params : ret := body`.
func (p *pkgInfo) translateFunc(o *out, key, leanName string, extraParams []leanParam, skipParams map[string]bool) {
	fd := p.funcs[key]
	if fd == nil {
		o.line("-- %s: not present in this version", key)
		return
	}
	e := &intEnv{p: p, o: o, ctx: key, recv: p.recvName(fd), fields: map[string]bool{}}
	sc := scope{}
	var params []leanParam
	for _, f := range fd.Type.Params.List {
		lt, ok := goTypeToLean(f.Type)
		for _, n := range f.Names {
			if skipParams[n.Name] {
				continue
			}
			if !ok {
				o.problem("%s: parameter %s has untranslatable type", key, n.Name)
				continue
			}
			params = append(params, leanParam{n.Name, lt})
			sc[n.Name] = n.Name
		}
	}
	var rets []string
	if fd.Type.Results != nil {
		for _, f := range fd.Type.Results.List {
			lt, ok := goTypeToLean(f.Type)
			if !ok {
				o.problem("%s: result has untranslatable type", key)
				lt = "Int"
			}
			k := len(f.Names)
			if k == 0 {
				k = 1
			}
			for i := 0; i < k; i++ {
				rets = append(rets, lt)
			}
		}
	}
	for _, ep := range extraParams {
		sc[ep.name] = ep.name
	}
	problemsBefore := len(o.problems)
	body := e.block(fd.Body.List, sc, func(scope) string {
		o.problem("%s: control reaches end of function", key)
		return "default"
	})
	// containment: a function that could not be translated completely becomes `default` (and is
	// listed under `problems`), so that the generated file still compiles and only the theorems and
	// model answers that depend on THIS function stop checking
	untranslatable := len(o.problems) > problemsBefore
	if untranslatable {
		body = "default"
	}
	var ps []string
	var fnames []string
	for f := range e.fields {
		fnames = append(fnames, f)
	}
	sort.Strings(fnames)
	for _, f := range fnames {
		typ := "Int"
		if f == "showCount" || f == "leadingDecimal" || f == "trailingLineFeed" {
			typ = "Bool"
		}
		ps = append(ps, fmt.Sprintf("(p_%s : %s)", f, typ))
	}
	for _, ep := range extraParams {
		ps = append(ps, fmt.Sprintf("(%s : %s)", ep.name, ep.typ))
	}
	for _, pr := range params {
		ps = append(ps, fmt.Sprintf("(%s : %s)", pr.name, pr.typ))
	}
	o.line("def %s %s : %s :=\n  %s", leanName, strings.Join(ps, " "), strings.Join(rets, " × "), body)
	// overflow companion: true iff some +, -, *, unary -, / on the executed path leaves int64 (or divides by 0)
	e2 := &intEnv{p: p, o: &out{}, ctx: key, recv: e.recv, fields: map[string]bool{}, ovfMode: true}
	ovf := e2.block(fd.Body.List, sc, func(scope) string { return "false" })
	if untranslatable {
		ovf = "true"
	}
	o.line("def %sOvf %s : Bool :=\n  %s", leanName, strings.Join(ps, " "), ovf)
}

// ---------------------------------------------------------------- defaults of Fprint / Fwrite

func (p *pkgInfo) settingsLiteral(o *out, fn string) map[string]string {
	return p.settingsOf(o, fn, 0)
}

// settingsOf: the printerSettings a function builds before it hands them to newPrinter /
// returns them: a literal, or the result of a helper that returns one, followed by assignments of
// constants to fields (`settings.leadingDecimal = true`).
func (p *pkgInfo) settingsOf(o *out, fn string, depth int) map[string]string {
	fd := p.funcs[fn]
	if fd == nil || depth > 4 {
		return nil
	}
	res := map[string]string{}
	found := false
	constOf := func(e ast.Expr) (string, bool) {
		if id, ok := e.(*ast.Ident); ok && (id.Name == "true" || id.Name == "false") {
			return id.Name, true
		}
		if n, ok := p.evalConst(e); ok {
			return leanInt(n), true
		}
		return "", false
	}
	var fromExpr func(e ast.Expr) bool
	fromExpr = func(e ast.Expr) bool {
		if u, ok := e.(*ast.UnaryExpr); ok && u.Op == token.AND {
			e = u.X
		}
		switch v := e.(type) {
		case *ast.CompositeLit:
			id, ok := v.Type.(*ast.Ident)
			if !ok || id.Name != "printerSettings" {
				return false
			}
			for _, el := range v.Elts {
				kv, ok := el.(*ast.KeyValueExpr)
				if !ok {
					o.problem("%s: positional printerSettings literal", fn)
					continue
				}
				k := kv.Key.(*ast.Ident).Name
				if c, ok := constOf(kv.Value); ok {
					res[k] = c
				} else {
					o.problem("%s: non-constant default for %s", fn, k)
				}
			}
			return true
		case *ast.CallExpr:
			if id, ok := v.Fun.(*ast.Ident); ok && len(v.Args) == 0 {
				if _, ok := p.funcs[id.Name]; ok {
					if sub := p.settingsOf(o, id.Name, depth+1); sub != nil {
						for k, val := range sub {
							res[k] = val
						}
						return true
					}
				}
			}
			// g(…, <settings expression>, …): the defaults are what is handed to g
			// (mutateSettings(options, defaultPrinterSettings()) applies the caller's options to them)
			for _, a := range v.Args {
				if fromExpr(a) {
					return true
				}
			}
		}
		return false
	}
	settingsVar := ""
	for _, st := range fd.Body.List {
		switch v := st.(type) {
		case *ast.DeclStmt:
			// var settings printerSettings — the zero value, fields assigned afterwards
			if gd, ok := v.Decl.(*ast.GenDecl); ok && gd.Tok == token.VAR && !found {
				for _, sp := range gd.Specs {
					vs, ok := sp.(*ast.ValueSpec)
					if !ok || len(vs.Names) != 1 || len(vs.Values) != 0 {
						continue
					}
					if id, ok := vs.Type.(*ast.Ident); ok && id.Name == "printerSettings" {
						found = true
						settingsVar = vs.Names[0].Name
					}
				}
			}
		case *ast.AssignStmt:
			if len(v.Lhs) == 1 && len(v.Rhs) == 1 {
				if id, ok := v.Lhs[0].(*ast.Ident); ok && !found {
					if fromExpr(v.Rhs[0]) {
						found = true
						settingsVar = id.Name
						continue
					}
				}
				if sel, ok := v.Lhs[0].(*ast.SelectorExpr); ok && found {
					if base, ok := sel.X.(*ast.Ident); ok && base.Name == settingsVar {
						if c, ok := constOf(v.Rhs[0]); ok {
							res[sel.Sel.Name] = c
						} else {
							o.problem("%s: non-constant default for %s", fn, sel.Sel.Name)
						}
					}
				}
			}
		case *ast.ReturnStmt:
			if len(v.Results) == 1 && !found {
				if fromExpr(v.Results[0]) {
					found = true
				}
			}
		}
	}
	if !found {
		// fall back: a literal anywhere in the body (e.g. passed directly as an argument)
		ast.Inspect(fd.Body, func(n ast.Node) bool {
			if cl, ok := n.(*ast.CompositeLit); ok && !found {
				if fromExpr(cl) {
					found = true
					return false
				}
			}
			return true
		})
	}
	if !found {
		if depth == 0 {
			o.problem("%s: no printerSettings literal found", fn)
		}
		return nil
	}
	return res
}

func emitSettings(o *out, name string, m map[string]string) {
	if m == nil {
		if name == "fprintDefaults" {
			// containment: the definition exists in every version (the model must still build);
			// the problem recorded by settingsOf breaks the ties of the properties that use it
			o.line("def %s : Sqroot.PrinterDefaults := default", name)
			return
		}
		o.line("-- %s: not present in this version", name)
		return
	}
	get := func(k, def string) string {
		if v, ok := m[k]; ok {
			delete(m, k)
			return v
		}
		return def
	}
	o.line("def %s : Sqroot.PrinterDefaults :=\n  { digitsPerRow := %s, digitsPerColumn := %s, showCount := %s, missingDigit := %s, bufferSize := %s, trailingLineFeed := %s, leadingDecimal := %s }",
		name, get("digitsPerRow", "0"), get("digitsPerColumn", "0"), get("showCount", "false"),
		get("missingDigit", "0"), get("bufferSize", "0"), get("trailingLineFeed", "false"), get("leadingDecimal", "false"))
	for k := range m {
		o.problem("%s: unknown printerSettings field %s", name, k)
	}
}

// ---------------------------------------------------------------- main

func main() {
	if len(os.Args) != 4 {
		fatal("usage: extract <dir> <Vn> <out.lean>")
	}
	dir, ver, outPath := os.Args[1], os.Args[2], os.Args[3]
	p := load(dir)
	o := &out{}
	o.line("/- GENERATED by /verif/go/extract from %s — do not edit. Regenerated on every check run. -/", dir)
	o.line("import Sqroot.GenTypes")
	o.line("set_option maxRecDepth 4096")
	o.line("namespace Sqroot.Gen.%s", ver)
	o.line("")
	o.line("-- G1 constants")
	for _, c := range []string{"kMemoizerChunkSize", "fPrecision", "gPrecision"} {
		n, ok := p.intConst(c)
		if !ok {
			o.problem("constant %s not found", c)
		}
		o.line("def %s : Int := %s", c, leanInt(n))
	}
	if n, ok := p.intConst("kMaxChunks"); ok {
		o.line("def kMaxChunks : Int := %s", leanInt(n))
	} else {
		o.problem("constant kMaxChunks not found")
	}
	emitSettings(o, "fprintDefaults", p.settingsLiteral(o, "Fprint"))
	emitSettings(o, "fwriteDefaults", p.settingsLiteral(o, "Fwrite"))
	o.line("")
	o.line("-- G2 root managers (symbolic evaluation of the big.Int method bodies)")
	a, b := p.managerMethod(o, "sqrtManager", "Next")
	o.line("def sqrtNext (incr incr2 : Int) : Int × Int := (%s, %s)", a, b)
	a, b = p.managerMethod(o, "sqrtManager", "NextDigit")
	o.line("def sqrtNextDigit (incr incr2 : Int) : Int × Int := (%s, %s)", a, b)
	o.line("def sqrtBase : Int := %s", p.managerBase(o, "sqrtManager"))
	o.line("def sqrtInit2 : Int := 0")
	a, b = p.managerMethod(o, "cubeRootManager", "Next")
	o.line("def cubeNext (incr incr2 : Int) : Int × Int := (%s, %s)", a, b)
	a, b = p.managerMethod(o, "cubeRootManager", "NextDigit")
	o.line("def cubeNextDigit (incr incr2 : Int) : Int × Int := (%s, %s)", a, b)
	o.line("def cubeBase : Int := %s", p.managerBase(o, "cubeRootManager"))
	{
		fd := p.funcs["newCubeRootManager"]
		if fd == nil {
			o.problem("newCubeRootManager not found")
			o.line("def cubeInit2 : Int := 0")
		} else {
			env := &bigEnv{p: p, vals: map[string]sym{}, o: o, ctx: "newCubeRootManager"}
			env.exec(fd.Body)
			v, ok := env.vals["result.incr2"]
			if !ok {
				o.problem("newCubeRootManager: incr2 not initialised through result.incr2")
				v = "0"
			}
			o.line("def cubeInit2 : Int := %s", v)
		}
	}
	// initial incr / remainder of computeRootDigits, found by ROLE: `incr` is the variable handed
	// to manager.Next inside the returned closure, `remainder` the one compared with it in the digit
	// loop; their initial values come from the statements before the closure (big.NewInt(k),
	// new(big.Int), var x big.Int, x.Set(const), x.SetInt64(k), new(big.Int).Set(const), ...)
	{
		fd := p.funcs["computeRootDigits"]
		incr, rem := int64(-999), int64(-999)
		if fd != nil {
			incrVar, remVar := "", ""
			identOf := func(e ast.Expr) string {
				if u, ok := e.(*ast.UnaryExpr); ok && u.Op == token.AND {
					e = u.X
				}
				if id, ok := e.(*ast.Ident); ok {
					return id.Name
				}
				return ""
			}
			ast.Inspect(fd.Body, func(n ast.Node) bool {
				c, ok := n.(*ast.CallExpr)
				if !ok {
					return true
				}
				if sel, ok := c.Fun.(*ast.SelectorExpr); ok && sel.Sel.Name == "Next" && len(c.Args) == 1 {
					incrVar = identOf(c.Args[0])
				}
				return true
			})
			// `remainder` is what is compared with `incr` (in the loop condition, or in an `if … break`
			// inside a condition-less loop)
			ast.Inspect(fd.Body, func(m ast.Node) bool {
				c, ok := m.(*ast.CallExpr)
				if !ok {
					return true
				}
				if sel, ok := c.Fun.(*ast.SelectorExpr); ok && sel.Sel.Name == "Cmp" && len(c.Args) == 1 && identOf(c.Args[0]) == incrVar && incrVar != "" {
					if name := identOf(sel.X); name != "" {
						remVar = name
					}
				}
				return true
			})
			vals := map[string]int64{}
			var valueOf func(e ast.Expr) (int64, bool)
			valueOf = func(e ast.Expr) (int64, bool) {
				if n, ok := p.bigNewInt(e); ok {
					return n, true
				}
				if u, ok := e.(*ast.UnaryExpr); ok && u.Op == token.AND {
					return valueOf(u.X)
				}
				if id, ok := e.(*ast.Ident); ok {
					if v, ok := vals[id.Name]; ok {
						return v, true
					}
					return p.bigConst(id.Name)
				}
				c, ok := e.(*ast.CallExpr)
				if !ok {
					return 0, false
				}
				if id, ok := c.Fun.(*ast.Ident); ok && id.Name == "new" { // new(big.Int)
					return 0, true
				}
				if sel, ok := c.Fun.(*ast.SelectorExpr); ok && len(c.Args) == 1 {
					switch sel.Sel.Name {
					case "Set":
						return valueOf(c.Args[0])
					case "SetInt64", "SetUint64":
						return p.evalConst(c.Args[0])
					}
				}
				return 0, false
			}
			for _, st := range fd.Body.List {
				switch v := st.(type) {
				case *ast.AssignStmt:
					if len(v.Lhs) == len(v.Rhs) {
						for i := range v.Lhs {
							if id, ok := v.Lhs[i].(*ast.Ident); ok {
								if n, ok := valueOf(v.Rhs[i]); ok {
									vals[id.Name] = n
								}
							}
						}
					}
				case *ast.DeclStmt:
					if gd, ok := v.Decl.(*ast.GenDecl); ok {
						for _, sp := range gd.Specs {
							if vs, ok := sp.(*ast.ValueSpec); ok {
								for i, id := range vs.Names {
									if i < len(vs.Values) {
										if n, ok := valueOf(vs.Values[i]); ok {
											vals[id.Name] = n
										}
									} else if p.src(vs.Type) == "big.Int" {
										vals[id.Name] = 0 // the zero value of big.Int is 0
									}
								}
							}
						}
					}
				case *ast.ExprStmt: // x.Set(y) / x.SetInt64(k) as a statement
					if c, ok := v.X.(*ast.CallExpr); ok {
						if sel, ok := c.Fun.(*ast.SelectorExpr); ok {
							if name := identOf(sel.X); name != "" && (sel.Sel.Name == "Set" || sel.Sel.Name == "SetInt64") {
								if n, ok := valueOf(c); ok {
									vals[name] = n
								}
							}
						}
					}
				}
			}
			if v, ok := vals[incrVar]; ok {
				incr = v
			}
			if v, ok := vals[remVar]; ok {
				rem = v
			}
		}
		if incr == -999 || rem == -999 {
			o.problem("computeRootDigits: initial incr/remainder not found")
		}
		o.line("def rootInitIncr : Int := %s", leanInt(incr))
		o.line("def rootInitRem : Int := %s", leanInt(rem))
	}
	o.line("")
	o.line("-- G3 pure functions")
	p.translateFunc(o, "bigExponent", "bigExponent", nil, nil)
	if _, ok := p.funcs["digitOutOfRange"]; ok {
		p.translateFunc(o, "digitOutOfRange", "digitOutOfRange", nil, nil)
	}
	p.emitRunEndTest(o)
	// formatSpecForG is used by String()/Exact() directly; formatSpecForF/E (v3) are inlined into
	// newFormatSpec, so that folding them into their caller does not change what is generated
	for _, f := range []string{"formatSpecForG"} {
		if _, ok := p.funcs[f]; ok {
			p.translateFunc(o, f, f, nil, nil)
		}
	}
	p.translateFunc(o, "newFormatSpec", "newFormatSpec",
		[]leanParam{{"precision", "Int"}, {"precisionOk", "Bool"}}, map[string]bool{"state": true})
	p.translateFunc(o, "printerSettings.digitCountWidth", "digitCountWidth", nil, nil)
	p.emitGapLoopFact(o)
	p.emitBuildResetFact(o)
	o.line("")
	p.emitFacts(o)
	o.line("")
	o.line("-- problems reported by the extractor (empty list = everything above was translated)")
	var qs []string
	for _, pr := range o.problems {
		qs = append(qs, strconv.Quote(pr))
	}
	o.line("def problems : List String := [%s]", strings.Join(qs, ", "))
	o.line("")
	o.line("end Sqroot.Gen.%s", ver)
	text := o.sb.String()
	old, err := os.ReadFile(outPath)
	if err == nil && string(old) == text {
		return // unchanged: keep mtime so lake does not rebuild
	}
	if err := os.WriteFile(outPath, []byte(text), 0o644); err != nil {
		fatal("write: %v", err)
	}
}

// emitRunEndTest extracts the end-of-digits test of memoizer.run: the condition of the `if`
// whose body calls setData(..., true) inside the inner loop, as a function of the value x.
func (p *pkgInfo) emitRunEndTest(o *out) {
	// the statement `x := m.iter()` (in `run` or in a helper of it) and the `if` that follows it:
	// its condition is the end-of-digits test
	fieldCanon, _ := p.memoFields()
	iterName := "iter"
	for n, c := range fieldCanon {
		if c == "_iter" {
			iterName = n
		}
	}
	var cond ast.Expr
	var varName, where string
	for _, k := range p.order {
		fd := p.funcs[k]
		if fd.Body == nil || !strings.HasPrefix(k, "memoizer.") || cond != nil {
			continue
		}
		ast.Inspect(fd.Body, func(n ast.Node) bool {
			blk, ok := n.(*ast.BlockStmt)
			if !ok || cond != nil {
				return true
			}
			for i, st := range blk.List {
				as, ok := st.(*ast.AssignStmt)
				if !ok || len(as.Rhs) != 1 || len(as.Lhs) != 1 {
					continue
				}
				c, ok := as.Rhs[0].(*ast.CallExpr)
				if !ok {
					continue
				}
				s, ok := c.Fun.(*ast.SelectorExpr)
				if !ok || s.Sel.Name != iterName {
					continue
				}
				id, ok := as.Lhs[0].(*ast.Ident)
				if !ok || i+1 >= len(blk.List) {
					continue
				}
				if is, ok := blk.List[i+1].(*ast.IfStmt); ok && is.Init == nil {
					mentions := false
					ast.Inspect(is.Cond, func(m ast.Node) bool {
						if x, ok := m.(*ast.Ident); ok && x.Name == id.Name {
							mentions = true
						}
						return true
					})
					if mentions {
						cond, varName, where = is.Cond, id.Name, k
					}
				}
			}
			return true
		})
	}
	if cond == nil || varName == "" {
		o.problem("memoizer.run: end-of-digits test not recognised")
		o.line("def runEndTest (x : Int) : Bool := true")
		return
	}
	e := &intEnv{p: p, o: o, ctx: where + " end test", fields: map[string]bool{}}
	o.line("def runEndTest (x : Int) : Bool := %s", e.expr(cond, scope{varName: "x"}))
}

// emitGapLoopFact: does the gap-filling loop of printer.Consume re-check the error state?
// (`for p.index < posit && p.CanConsume()`; without it a latched write error spins for ever)
func (p *pkgInfo) emitGapLoopFact(o *out) {
	fd := p.funcs["printer.Consume"]
	if fd == nil {
		o.problem("printer.Consume not found")
		o.line("def gapLoopChecksErr : Bool := false")
		return
	}
	found, checks := false, false
	// the loop may have been moved into a helper method of printer (fillGapTo): follow such calls
	body := fd.Body
	for depth := 0; depth < 3; depth++ {
		has := false
		ast.Inspect(body, func(n ast.Node) bool {
			if fs, ok := n.(*ast.ForStmt); ok && fs.Cond != nil {
				has = true
			}
			return !has
		})
		if has {
			break
		}
		var next *ast.BlockStmt
		ast.Inspect(body, func(n ast.Node) bool {
			if c, ok := n.(*ast.CallExpr); ok && next == nil {
				if sel, ok := c.Fun.(*ast.SelectorExpr); ok {
					if _, ok := sel.X.(*ast.Ident); ok {
						if h := p.funcs["printer."+sel.Sel.Name]; h != nil && h != fd && h.Body != nil {
							hasLoop := false
							ast.Inspect(h.Body, func(m ast.Node) bool {
								if fs, ok := m.(*ast.ForStmt); ok && fs.Cond != nil {
									hasLoop = true
								}
								return !hasLoop
							})
							if hasLoop {
								next = h.Body
							}
						}
					}
				}
			}
			return next == nil
		})
		if next == nil {
			break
		}
		body = next
	}
	ast.Inspect(body, func(n ast.Node) bool {
		fs, ok := n.(*ast.ForStmt)
		if !ok || fs.Cond == nil {
			return true
		}
		found = true
		src := p.src(fs.Cond)
		if strings.Contains(src, "CanConsume()") || strings.Contains(src, ".err == nil") {
			checks = true
		}
		// a break / return on error inside the body counts as well
		ast.Inspect(fs.Body, func(m ast.Node) bool {
			if is, ok := m.(*ast.IfStmt); ok {
				c := p.src(is.Cond)
				if strings.Contains(c, "CanConsume()") || strings.Contains(c, ".err != nil") || strings.Contains(c, ".err == nil") {
					ast.Inspect(is.Body, func(k ast.Node) bool {
						switch k.(type) {
						case *ast.BranchStmt, *ast.ReturnStmt:
							checks = true
						}
						return true
					})
				}
			}
			return true
		})
		return false
	})
	if !found {
		o.problem("printer.Consume: gap loop not recognised")
	}
	o.line("def gapLoopChecksErr : Bool := %v", checks)
}

// emitBuildResetFact: PositionsBuilder.Build resets the builder with `*p = PositionsBuilder{}`
// (empty literal: the slice header is dropped, not truncated) before every return, and on the
// sorted path builds its result from a nil slice (`var result []PositionRange`).
func (p *pkgInfo) emitBuildResetFact(o *out) {
	fd := p.funcs["PositionsBuilder.Build"]
	if fd == nil {
		o.problem("PositionsBuilder.Build not found")
		o.line("def buildFullReset : Bool := false")
		o.line("def buildResultFresh : Bool := false")
		return
	}
	recv := p.recvName(fd)
	isReset := func(st ast.Stmt) bool {
		as, ok := st.(*ast.AssignStmt)
		if !ok || len(as.Lhs) != 1 || len(as.Rhs) != 1 || as.Tok != token.ASSIGN {
			return false
		}
		star, ok := as.Lhs[0].(*ast.StarExpr)
		if !ok {
			return false
		}
		id, ok := star.X.(*ast.Ident)
		if !ok || id.Name != recv {
			return false
		}
		cl, ok := as.Rhs[0].(*ast.CompositeLit)
		return ok && len(cl.Elts) == 0
	}
	allReset := true
	returns := 0
	var walk func(list []ast.Stmt)
	walk = func(list []ast.Stmt) {
		for i, st := range list {
			switch v := st.(type) {
			case *ast.ReturnStmt:
				returns++
				if i == 0 || !isReset(list[i-1]) {
					allReset = false
				}
			case *ast.IfStmt:
				walk(v.Body.List)
				if b, ok := v.Else.(*ast.BlockStmt); ok {
					walk(b.List)
				}
			case *ast.BlockStmt:
				walk(v.List)
			case *ast.ForStmt:
				walk(v.Body.List)
			case *ast.RangeStmt:
				walk(v.Body.List)
			}
		}
	}
	walk(fd.Body.List)
	if !allReset {
		// alternative shape: ONE reset at the top level of the body that every return comes after
		// (`ranges, unsorted := p.ranges, p.unsorted; *p = PositionsBuilder{}; …`)
		for i, st := range fd.Body.List {
			if !isReset(st) {
				continue
			}
			early := false
			for _, before := range fd.Body.List[:i] {
				ast.Inspect(before, func(n ast.Node) bool {
					if _, ok := n.(*ast.ReturnStmt); ok {
						early = true
					}
					return !early
				})
			}
			if !early {
				allReset = true
			}
			break
		}
	}
	// the sorted-path result must be a FRESH slice: in Build or in a package-level helper it calls
	// there is a `var result []T` without initialiser, a slice literal `[]T{…}` or a make([]T, …),
	// and no variable is initialised from a slice EXPRESSION (x[a:b]: shares the backing array)
	bodies := []*ast.BlockStmt{fd.Body}
	ast.Inspect(fd.Body, func(n ast.Node) bool {
		if c, ok := n.(*ast.CallExpr); ok {
			if id, ok := c.Fun.(*ast.Ident); ok {
				if callee, ok := p.funcs[id.Name]; ok && callee.Body != nil && callee.Recv == nil {
					bodies = append(bodies, callee.Body)
				}
			}
			// … or in a helper METHOD of the builder (p.sortAndMerge())
			if sel, ok := c.Fun.(*ast.SelectorExpr); ok {
				if id, ok := sel.X.(*ast.Ident); ok && id.Name == recv {
					if callee, ok := p.funcs["PositionsBuilder."+sel.Sel.Name]; ok && callee.Body != nil && callee != fd {
						bodies = append(bodies, callee.Body)
					}
				}
			}
		}
		return true
	})
	fresh, reslice := false, false
	isFreshExpr := func(e ast.Expr) bool {
		switch v := e.(type) {
		case *ast.CompositeLit:
			_, isSlice := v.Type.(*ast.ArrayType)
			return isSlice
		case *ast.CallExpr:
			if id, ok := v.Fun.(*ast.Ident); ok && id.Name == "make" && len(v.Args) > 0 {
				_, isSlice := v.Args[0].(*ast.ArrayType)
				return isSlice
			}
			// append([]T(nil), x…): a fresh backing array as well
			if id, ok := v.Fun.(*ast.Ident); ok && id.Name == "append" && len(v.Args) > 0 {
				if conv, ok := v.Args[0].(*ast.CallExpr); ok && len(conv.Args) == 1 {
					if _, isSlice := conv.Fun.(*ast.ArrayType); isSlice {
						if nilId, ok := conv.Args[0].(*ast.Ident); ok && nilId.Name == "nil" {
							return true
						}
					}
				}
			}
		}
		return false
	}
	for _, body := range bodies {
		ast.Inspect(body, func(n ast.Node) bool {
			switch v := n.(type) {
			case *ast.DeclStmt:
				if gd, ok := v.Decl.(*ast.GenDecl); ok {
					for _, sp := range gd.Specs {
						vs, ok := sp.(*ast.ValueSpec)
						if !ok {
							continue
						}
						if _, isSlice := vs.Type.(*ast.ArrayType); isSlice && len(vs.Values) == 0 {
							fresh = true
						}
						for _, val := range vs.Values {
							if isFreshExpr(val) {
								fresh = true
							}
							if _, ok := val.(*ast.SliceExpr); ok {
								reslice = true
							}
						}
					}
				}
			case *ast.AssignStmt:
				for _, r := range v.Rhs {
					if isFreshExpr(r) {
						fresh = true
					}
					if _, ok := r.(*ast.SliceExpr); ok {
						reslice = true
					}
				}
			}
			return true
		})
	}
	fresh = fresh && !reslice
	// any other write to the receiver's slice besides the reset counts against it
	ast.Inspect(fd.Body, func(n ast.Node) bool {
		as, ok := n.(*ast.AssignStmt)
		if !ok {
			return true
		}
		for _, l := range as.Lhs {
			if sel, ok := l.(*ast.SelectorExpr); ok {
				if id, ok := sel.X.(*ast.Ident); ok && id.Name == recv && sel.Sel.Name == "ranges" {
					allReset = false // p.ranges = … (e.g. p.ranges[:0]) keeps the backing array
				}
			}
		}
		return true
	})
	o.line("def buildFullReset : Bool := %v", allReset && returns > 0)
	o.line("def buildResultFresh : Bool := %v", fresh)
}

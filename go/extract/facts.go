package main

import (
	"bytes"
	"go/ast"
	"go/printer"
	"go/scanner"
	"go/token"
	"sort"
	"strconv"
	"strings"
)

// ---------------------------------------------------------------- G4–G6 facts

func (p *pkgInfo) src(n ast.Node) string {
	var buf bytes.Buffer
	cfg := printer.Config{Mode: printer.RawFormat, Tabwidth: 1}
	// strip comments by printing the node without the file's comment map
	_ = cfg.Fprint(&buf, token.NewFileSet(), n)
	// collapse whitespace so that formatting is irrelevant
	return strings.Join(strings.Fields(buf.String()), " ")
}

func leanStr(s string) string { return strconv.Quote(s) }

// memoFields maps the field names of `type memoizer struct` to canonical names derived from the
// field's TYPE (and, among fields of one type, its order): _mu, _cond0/_cond1, _iter, _f_<type>_<k>.
// Renaming or reordering the fields is then not a change of the normalised source.
func (p *pkgInfo) memoFields() (canon map[string]string, shared map[string]bool) {
	canon, shared = map[string]string{}, map[string]bool{}
	for _, f := range p.files {
		for _, d := range f.Decls {
			gd, ok := d.(*ast.GenDecl)
			if !ok || gd.Tok != token.TYPE {
				continue
			}
			for _, sp := range gd.Specs {
				ts := sp.(*ast.TypeSpec)
				st, ok := ts.Type.(*ast.StructType)
				if !ok || ts.Name.Name != "memoizer" {
					continue
				}
				count := map[string]int{}
				for _, fl := range st.Fields.List {
					typ := strings.ReplaceAll(p.src(fl.Type), " ", "")
					for _, n := range fl.Names {
						var c string
						switch {
						case typ == "sync.Mutex":
							c = "_mu"
						case typ == "*sync.Cond":
							c = "_cond" + strconv.Itoa(count[typ])
						case strings.HasPrefix(typ, "func("):
							c = "_iter" + strings.Repeat("'", count[typ])
						default:
							c = "_f_" + typ + "_" + strconv.Itoa(count[typ])
							shared[n.Name] = true
						}
						count[typ]++
						canon[n.Name] = c
					}
				}
			}
		}
	}
	return
}

// alphaSrc prints a function body with receiver, parameters and local variables renamed to
// canonical names in order of declaration, so that renaming a variable is not a change.
func (p *pkgInfo) alphaSrc(fd *ast.FuncDecl) string {
	fieldCanon, _ := p.memoFields()
	names := map[string]string{}
	add := func(n, canon string) {
		if n == "_" || n == "" {
			return
		}
		if _, ok := names[n]; !ok {
			names[n] = canon
		}
	}
	if fd.Recv != nil {
		for _, f := range fd.Recv.List {
			for _, n := range f.Names {
				add(n.Name, "_recv")
			}
		}
	}
	k := 0
	for _, f := range fd.Type.Params.List {
		for _, n := range f.Names {
			add(n.Name, "_p"+strconv.Itoa(k))
			k++
		}
	}
	l := 0
	ast.Inspect(fd.Body, func(n ast.Node) bool {
		switch v := n.(type) {
		case *ast.AssignStmt:
			if v.Tok == token.DEFINE {
				for _, lhs := range v.Lhs {
					if id, ok := lhs.(*ast.Ident); ok {
						if _, seen := names[id.Name]; !seen {
							add(id.Name, "_l"+strconv.Itoa(l))
							l++
						}
					}
				}
			}
		case *ast.ValueSpec:
			for _, id := range v.Names {
				if _, seen := names[id.Name]; !seen {
					add(id.Name, "_l"+strconv.Itoa(l))
					l++
				}
			}
		}
		return true
	})
	src := p.src(fd.Body)
	// token-level renaming: identifiers not preceded by '.' and not followed by ':' inside a composite literal key
	var sc scanner.Scanner
	fset := token.NewFileSet()
	file := fset.AddFile("", fset.Base(), len(src))
	sc.Init(file, []byte(src), nil, 0)
	var out []string
	var orig []string
	prev := token.ILLEGAL
	for {
		_, tok, lit := sc.Scan()
		if tok == token.EOF {
			break
		}
		text := lit
		if text == "" {
			text = tok.String()
		}
		if tok == token.SEMICOLON && lit == "\n" {
			prev = tok
			continue
		}
		if tok == token.IDENT && prev != token.PERIOD {
			if c, ok := names[lit]; ok {
				text = c
			}
		} else if tok == token.IDENT && prev == token.PERIOD {
			if c, ok := fieldCanon[lit]; ok {
				text = c // a field of the memoizer, named by its role
			}
		}
		out = append(out, text)
		orig = append(orig, lit)
		prev = tok
	}
	// composite-literal keys (`memoizer{iter: iter}`): the key is a field name, undo its renaming
	for i := 1; i+1 < len(out); i++ {
		if out[i+1] == ":" && (out[i-1] == "{" || out[i-1] == ",") && orig[i] != "" {
			out[i] = orig[i]
			if c, ok := fieldCanon[orig[i]]; ok {
				out[i] = c
			}
		}
	}
	return strings.Join(out, " ")
}

func (p *pkgInfo) emitFacts(o *out) {
	// G4: the four monitor functions, comment-free and whitespace-normalised
	o.line("-- G4 monitor functions (normalised source) and lock discipline")
	o.line("def monitorSrc : List (String × String) := [")
	mon := []string{"memoizer.wait", "memoizer.waitToGrow", "memoizer.setData", "memoizer.run", "newMemoizeSpec"}
	for i, k := range mon {
		fd := p.funcs[k]
		body := "<missing>"
		if fd != nil {
			body = p.alphaSrc(fd)
		} else {
			o.problem("monitor function %s not found", k)
		}
		sep := ","
		if i == len(mon)-1 {
			sep = ""
		}
		o.line("  (%s, %s)%s", leanStr(k), leanStr(body), sep)
	}
	o.line("]")

	// lock discipline: every memoizer method touching data/maxLength/done starts with
	// m.mu.Lock(); defer m.mu.Unlock()
	fieldCanon, shared := p.memoFields() // every field that is neither the mutex, a Cond nor the digit function
	muName, iterName := "mu", "iter"
	for n, c := range fieldCanon {
		if c == "_mu" {
			muName = n
		}
		if c == "_iter" {
			iterName = n
		}
	}
	var touching, unlocked []string
	holdsLock := map[string]bool{}     // starts with mu.Lock(); defer mu.Unlock()
	touchesShared := map[string]bool{} // reads or writes a shared field through the receiver
	callers := map[string][]string{}   // memoizer method -> functions that call it
	iterCallers := map[string]bool{}
	goStmts := []string{}
	condWaitOutsideLoop := []string{}
	for _, k := range p.order {
		fd := p.funcs[k]
		if fd.Body == nil {
			continue
		}
		recv := p.recvName(fd)
		isMemo := strings.HasPrefix(k, "memoizer.")
		touches := false
		ast.Inspect(fd.Body, func(n ast.Node) bool {
			switch v := n.(type) {
			case *ast.SelectorExpr:
				if id, ok := v.X.(*ast.Ident); ok && isMemo && id.Name == recv {
					if shared[v.Sel.Name] {
						touches = true
					}
				}
			case *ast.CallExpr:
				if s, ok := v.Fun.(*ast.SelectorExpr); ok && s.Sel.Name == iterName {
					if id, ok := s.X.(*ast.Ident); ok && isMemo && id.Name == recv {
						iterCallers[k] = true
					}
				}
			case *ast.GoStmt:
				goStmts = append(goStmts, k+": "+p.src(v.Call))
			}
			return true
		})
		// a memoizer value reached other than through the receiver (e.g. result.data) also counts
		if !isMemo {
			ast.Inspect(fd.Body, func(n ast.Node) bool {
				if v, ok := n.(*ast.SelectorExpr); ok && shared[v.Sel.Name] {
					if _, isIdent := v.X.(*ast.Ident); isIdent {
						// only flag when the package has no other struct with such a field: data/maxLength/done are memoizer-only names
						touching = append(touching, k+" (non-method access to ."+v.Sel.Name+")")
						unlocked = append(unlocked, k)
					}
				}
				return true
			})
		}
		if isMemo && len(fd.Body.List) >= 2 {
			a := p.src(fd.Body.List[0])
			b := p.src(fd.Body.List[1])
			if a == recv+"."+muName+".Lock()" && b == "defer "+recv+"."+muName+".Unlock()" {
				holdsLock[k] = true
			}
			// the same critical section without defer: Lock() first, Unlock() as the very last
			// statement, and no return / goto / other Unlock in between (every path leaves through it)
			// … the Unlock may be followed by one final `return` whose expressions do not touch the
			// receiver at all (values copied to locals while the lock was held)
			stmts := fd.Body.List
			if ret, ok := stmts[len(stmts)-1].(*ast.ReturnStmt); ok && len(stmts) >= 3 {
				touchesRecv := false
				for _, r := range ret.Results {
					ast.Inspect(r, func(n ast.Node) bool {
						if id, ok := n.(*ast.Ident); ok && id.Name == recv {
							touchesRecv = true
						}
						return !touchesRecv
					})
				}
				if !touchesRecv {
					stmts = stmts[:len(stmts)-1]
				}
			}
			last := p.src(stmts[len(stmts)-1])
			if a == recv+"."+muName+".Lock()" && last == recv+"."+muName+".Unlock()" && (fd.Type.Results == nil || len(stmts) < len(fd.Body.List)) {
				clean := true
				for _, st := range stmts[1 : len(stmts)-1] {
					ast.Inspect(st, func(n ast.Node) bool {
						switch v := n.(type) {
						case *ast.ReturnStmt, *ast.FuncLit, *ast.GoStmt, *ast.DeferStmt:
							clean = false
						case *ast.BranchStmt:
							if v.Tok == token.GOTO {
								clean = false
							}
						case *ast.CallExpr:
							if strings.HasSuffix(p.src(v.Fun), "."+muName+".Unlock") || strings.HasSuffix(p.src(v.Fun), "."+muName+".Lock") {
								clean = false
							}
						}
						return clean
					})
				}
				if clean {
					holdsLock[k] = true
				}
			}
		}
		if touches {
			touching = append(touching, k)
			touchesShared[k] = true
		}
		// calls of memoizer methods through the receiver: the call graph inside the monitor
		if isMemo {
			ast.Inspect(fd.Body, func(n ast.Node) bool {
				if c, ok := n.(*ast.CallExpr); ok {
					if s, ok := c.Fun.(*ast.SelectorExpr); ok {
						if id, ok := s.X.(*ast.Ident); ok && id.Name == recv {
							if _, isMethod := p.funcs["memoizer."+s.Sel.Name]; isMethod {
								callers["memoizer."+s.Sel.Name] = append(callers["memoizer."+s.Sel.Name], k)
							}
						}
					}
				}
				return true
			})
		} else {
			// any other function calling a memoizer method on some value: an outside entry
			// (the call of a go statement starts a goroutine, it is not a call by this function)
			goCalls := map[*ast.CallExpr]bool{}
			ast.Inspect(fd.Body, func(n ast.Node) bool {
				if g, ok := n.(*ast.GoStmt); ok {
					goCalls[g.Call] = true
				}
				return true
			})
			ast.Inspect(fd.Body, func(n ast.Node) bool {
				if c, ok := n.(*ast.CallExpr); ok && !goCalls[c] {
					if s, ok := c.Fun.(*ast.SelectorExpr); ok {
						if _, isMethod := p.funcs["memoizer."+s.Sel.Name]; isMethod {
							callers["memoizer."+s.Sel.Name] = append(callers["memoizer."+s.Sel.Name], k)
						}
					}
				}
				return true
			})
		}
		// Cond.Wait only as the sole statement of a for-loop body
		if isMemo {
			var walk func(n ast.Node, inLoop bool)
			walk = func(n ast.Node, inLoop bool) {
				ast.Inspect(n, func(m ast.Node) bool {
					switch v := m.(type) {
					case *ast.ForStmt:
						if m != n {
							walk(v.Body, true)
							return false
						}
					case *ast.CallExpr:
						if s, ok := v.Fun.(*ast.SelectorExpr); ok && s.Sel.Name == "Wait" && !inLoop {
							condWaitOutsideLoop = append(condWaitOutsideLoop, k)
						}
					}
					return true
				})
			}
			walk(fd.Body, false)
		}
	}
	// a function touching shared state is safe if it holds the mutex itself, or if it is an
	// unexported memoizer method every call of which comes from a safe function that holds it
	// (a helper "called with mu held"); greatest fixed point over the call graph
	safe := map[string]bool{}
	for k := range touchesShared {
		safe[k] = true
	}
	for changed := true; changed; {
		changed = false
		for k := range touchesShared {
			if !safe[k] || holdsLock[k] {
				continue
			}
			name := strings.TrimPrefix(k, "memoizer.")
			ok := len(callers[k]) > 0 && !ast.IsExported(name)
			for _, c := range callers[k] {
				if !(holdsLock[c] || (touchesShared[c] && safe[c])) || !strings.HasPrefix(c, "memoizer.") {
					ok = false
				}
			}
			if !ok {
				safe[k] = false
				changed = true
			}
		}
	}
	for k := range touchesShared {
		if !safe[k] {
			unlocked = append(unlocked, k)
		}
	}
	// the digit source may be called only by code that runs in the single producer goroutine:
	// `run` itself, or methods all of whose callers are such code (and `run` is never called directly)
	producerOnly := map[string]bool{"memoizer.run": true}
	var inProducer func(k string, depth int) bool
	inProducer = func(k string, depth int) bool {
		if producerOnly[k] {
			return true
		}
		if depth > 8 || len(callers[k]) == 0 {
			return false
		}
		for _, c := range callers[k] {
			if !inProducer(c, depth+1) {
				return false
			}
		}
		return true
	}
	var iterOutside []string
	for k := range iterCallers {
		if !inProducer(k, 0) {
			iterOutside = append(iterOutside, k)
		}
	}
	for _, c := range callers["memoizer.run"] {
		iterOutside = append(iterOutside, c+" (calls run directly)")
	}
	sort.Strings(iterOutside)
	sort.Strings(touching)
	sort.Strings(unlocked)
	var ic []string
	for k := range iterCallers {
		ic = append(ic, k)
	}
	sort.Strings(ic)
	o.line("def sharedStateTouchedBy : List String := %s", leanStrList(touching))
	o.line("def sharedStateTouchedWithoutLock : List String := %s", leanStrList(unlocked))
	o.line("def iterCalledBy : List String := %s", leanStrList(ic))
	o.line("def iterCalledOutsideProducer : List String := %s", leanStrList(iterOutside))
	o.line("def goStatements : List String := %s", leanStrList(goStmts))
	o.line("def condWaitOutsideLoop : List String := %s", leanStrList(condWaitOutsideLoop))

	// package-level big.Int "constants": never a receiver or destination of a mutating method
	var bigVars []string
	for name := range p.vars {
		if _, ok := p.bigConst(name); ok {
			bigVars = append(bigVars, name)
		}
	}
	sort.Strings(bigVars)
	mutating := map[string]bool{"Add": true, "Sub": true, "Mul": true, "Div": true, "Mod": true, "DivMod": true,
		"Set": true, "SetInt64": true, "Neg": true, "Abs": true, "Quo": true, "Rem": true, "QuoRem": true,
		"Exp": true, "Lsh": true, "Rsh": true, "SetString": true, "SetUint64": true, "Sqrt": true, "SetBit": true,
		"And": true, "Or": true, "Xor": true, "Not": true, "SetBits": true, "SetBytes": true, "GCD": true, "ModInverse": true}
	isBigVar := map[string]bool{}
	for _, b := range bigVars {
		isBigVar[b] = true
	}
	var mutatedConsts []string
	for _, k := range p.order {
		fd := p.funcs[k]
		if fd.Body == nil {
			continue
		}
		ast.Inspect(fd.Body, func(n ast.Node) bool {
			c, ok := n.(*ast.CallExpr)
			if !ok {
				return true
			}
			s, ok := c.Fun.(*ast.SelectorExpr)
			if !ok || !mutating[s.Sel.Name] {
				return true
			}
			if id, ok := s.X.(*ast.Ident); ok && isBigVar[id.Name] {
				mutatedConsts = append(mutatedConsts, k+": "+id.Name+"."+s.Sel.Name)
			}
			// DivMod's third argument is also written
			if s.Sel.Name == "DivMod" || s.Sel.Name == "QuoRem" {
				if len(c.Args) == 3 {
					if id, ok := c.Args[2].(*ast.Ident); ok && isBigVar[id.Name] {
						mutatedConsts = append(mutatedConsts, k+": "+id.Name+" as remainder")
					}
				}
			}
			return true
		})
		// assignment to the variable itself
		ast.Inspect(fd.Body, func(n ast.Node) bool {
			as, ok := n.(*ast.AssignStmt)
			if !ok {
				return true
			}
			for _, l := range as.Lhs {
				if id, ok := l.(*ast.Ident); ok && isBigVar[id.Name] && as.Tok == token.ASSIGN {
					// a local may shadow; only report when no local of that name is declared in this function
					shadow := false
					ast.Inspect(fd, func(m ast.Node) bool {
						if a2, ok := m.(*ast.AssignStmt); ok && a2.Tok == token.DEFINE {
							for _, l2 := range a2.Lhs {
								if i2, ok := l2.(*ast.Ident); ok && i2.Name == id.Name {
									shadow = true
								}
							}
						}
						return true
					})
					for _, f := range fd.Type.Params.List {
						for _, nm := range f.Names {
							if nm.Name == id.Name {
								shadow = true
							}
						}
					}
					if !shadow {
						mutatedConsts = append(mutatedConsts, k+": "+id.Name+" reassigned")
					}
				}
			}
			return true
		})
	}
	sort.Strings(mutatedConsts)
	o.line("def bigConstants : List String := %s", leanStrList(bigVars))
	o.line("def bigConstantsMutated : List String := %s", leanStrList(mutatedConsts))

	// G5: interface satisfaction by method names (embedded interfaces / structs promoted)
	o.line("")
	o.line("-- G5 API surface")
	ifaceMethods := map[string]map[string]bool{}
	structEmbeds := map[string][]string{}
	typeIsIface := map[string]bool{}
	for _, f := range p.files {
		for _, d := range f.Decls {
			gd, ok := d.(*ast.GenDecl)
			if !ok || gd.Tok != token.TYPE {
				continue
			}
			for _, s := range gd.Specs {
				ts := s.(*ast.TypeSpec)
				switch t := ts.Type.(type) {
				case *ast.InterfaceType:
					typeIsIface[ts.Name.Name] = true
					m := map[string]bool{}
					for _, fl := range t.Methods.List {
						if len(fl.Names) == 0 {
							if id, ok := fl.Type.(*ast.Ident); ok {
								m["$embed:"+id.Name] = true
							}
							continue
						}
						for _, n := range fl.Names {
							m[n.Name] = true
						}
					}
					ifaceMethods[ts.Name.Name] = m
				case *ast.StructType:
					for _, fl := range t.Fields.List {
						if len(fl.Names) == 0 {
							structEmbeds[ts.Name.Name] = append(structEmbeds[ts.Name.Name], recvTypeName(fl.Type))
						}
					}
				}
			}
		}
	}
	var ifaceSet func(name string, seen map[string]bool) map[string]bool
	ifaceSet = func(name string, seen map[string]bool) map[string]bool {
		res := map[string]bool{}
		if seen[name] {
			return res
		}
		seen[name] = true
		for m := range ifaceMethods[name] {
			if strings.HasPrefix(m, "$embed:") {
				for k := range ifaceSet(strings.TrimPrefix(m, "$embed:"), seen) {
					res[k] = true
				}
			} else {
				res[m] = true
			}
		}
		return res
	}
	var typeSet func(name string, seen map[string]bool) map[string]bool
	typeSet = func(name string, seen map[string]bool) map[string]bool {
		res := map[string]bool{}
		if seen[name] {
			return res
		}
		seen[name] = true
		if typeIsIface[name] {
			return ifaceSet(name, map[string]bool{})
		}
		for k := range p.funcs {
			if strings.HasPrefix(k, name+".") {
				res[strings.TrimPrefix(k, name+".")] = true
			}
		}
		for _, e := range structEmbeds[name] {
			for k := range typeSet(e, seen) {
				res[k] = true
			}
		}
		return res
	}
	concrete := []string{"FiniteNumber", "mantissaWithStart", "opqNumber", "opqSequence", "Number", "numberWithStart"}
	ifaces := []string{"Sequence", "FiniteSequence", "Number"}
	o.line("def implementsTable : List (String × String × Bool) := [")
	var rows []string
	for _, c := range concrete {
		hasType := false
		for k := range p.funcs {
			if strings.HasPrefix(k, c+".") {
				hasType = true
			}
		}
		if !hasType {
			continue
		}
		ms := typeSet(c, map[string]bool{})
		for _, i := range ifaces {
			if !typeIsIface[i] {
				continue
			}
			ok := true
			for m := range ifaceSet(i, map[string]bool{}) {
				if !ms[m] {
					ok = false
				}
			}
			rows = append(rows, "  ("+leanStr(c)+", "+leanStr(i)+", "+strconv.FormatBool(ok)+")")
		}
	}
	o.line("%s", strings.Join(rows, ",\n"))
	o.line("]")

	// exported package-level functions that take a FiniteSequence: the ones that must traverse to
	// the end and therefore must not be handed an unbounded sequence (C17)
	var finiteOnly []string
	for _, k := range p.order {
		fd := p.funcs[k]
		if fd.Recv != nil || !ast.IsExported(fd.Name.Name) || fd.Type.Params == nil {
			continue
		}
		for _, f := range fd.Type.Params.List {
			if id, ok := f.Type.(*ast.Ident); ok && id.Name == "FiniteSequence" {
				finiteOnly = append(finiteOnly, fd.Name.Name)
				break
			}
		}
	}
	sort.Strings(finiteOnly)
	o.line("def finiteOnlyFunctions : List String := %s", leanStrList(finiteOnly))

	// what each exported constructor with result type Number can return (C17): followed through
	// package-level helpers, variables and local assignments down to the literals —
	// "opaque" (&opqNumber{…}), "finite" (&FiniteNumber{…} with fields), "zero" (&FiniteNumber{}), "nil"
	var ctorRows []string
	for _, k := range p.order {
		fd := p.funcs[k]
		if fd.Recv != nil || !ast.IsExported(fd.Name.Name) || fd.Body == nil || fd.Type.Results == nil || len(fd.Type.Results.List) == 0 {
			continue
		}
		if id, ok := fd.Type.Results.List[0].Type.(*ast.Ident); !ok || id.Name != "Number" {
			continue
		}
		ks := p.returnKinds(fd, map[string]bool{})
		var names []string
		for x := range ks {
			names = append(names, x)
		}
		sort.Strings(names)
		ctorRows = append(ctorRows, "("+leanStr(fd.Name.Name)+", "+leanStrList(names)+")")
	}
	sort.Strings(ctorRows)
	o.line("def numberConstructorKinds : List (String × List String) := [%s]", strings.Join(ctorRows, ", "))

	// exported functions and methods with their signatures
	var api []string
	for _, k := range p.order {
		fd := p.funcs[k]
		name := fd.Name.Name
		if !ast.IsExported(name) {
			continue
		}
		if fd.Recv != nil {
			rt := recvTypeName(fd.Recv.List[0].Type)
			if !ast.IsExported(rt) {
				continue
			}
		}
		api = append(api, k+" "+p.src(fd.Type))
	}
	for name, ms := range ifaceMethods {
		if !ast.IsExported(name) {
			continue
		}
		for m := range ms {
			if ast.IsExported(m) && !strings.HasPrefix(m, "$") {
				api = append(api, name+"."+m+" (interface method)")
			}
		}
	}
	sort.Strings(api)
	o.line("def exportedApi : List String := %s", leanStrList(api))

	// G6: explicit panic sites
	var panics []string
	for _, k := range p.order {
		fd := p.funcs[k]
		if fd.Body == nil {
			continue
		}
		ast.Inspect(fd.Body, func(n ast.Node) bool {
			c, ok := n.(*ast.CallExpr)
			if !ok {
				return true
			}
			if id, ok := c.Fun.(*ast.Ident); ok && id.Name == "panic" {
				panics = append(panics, k+": "+p.src(c))
			}
			return true
		})
	}
	sort.Strings(panics)
	o.line("")
	o.line("-- G6 explicit panic sites")
	o.line("def panicSites : List String := %s", leanStrList(panics))
	// the distinct panic statements, whatever function they live in (moving a guard into a helper or
	// delegating to a function that already has it is not a change)
	seenMsg := map[string]bool{}
	var msgs []string
	for _, s := range panics {
		m := s[strings.Index(s, ": ")+2:]
		if !seenMsg[m] {
			seenMsg[m] = true
			msgs = append(msgs, m)
		}
	}
	sort.Strings(msgs)
	o.line("def panicStatements : List String := %s", leanStrList(msgs))

	p.emitArgModes(o)
}

func leanStrList(xs []string) string {
	var qs []string
	for _, x := range xs {
		qs = append(qs, leanStr(x))
	}
	return "[" + strings.Join(qs, ", ") + "]"
}

// returnKinds: the kinds of value the first result of fd can be (see numberConstructorKinds)
func (p *pkgInfo) returnKinds(fd *ast.FuncDecl, busy map[string]bool) map[string]bool {
	out := map[string]bool{}
	if fd.Body == nil || busy[fd.Name.Name] || len(busy) > 12 {
		out["?"+fd.Name.Name] = true
		return out
	}
	busy[fd.Name.Name] = true
	defer delete(busy, fd.Name.Name)
	params := map[string]bool{}
	if fd.Type.Params != nil {
		for _, f := range fd.Type.Params.List {
			for _, n := range f.Names {
				params[n.Name] = true
			}
		}
	}
	// local assignments: name -> right-hand sides (a multi-value call assigns its first result to the first name)
	assigned := map[string][]ast.Expr{}
	walkNoFuncLit(fd.Body, func(n ast.Node) {
		switch st := n.(type) {
		case *ast.AssignStmt:
			for i, l := range st.Lhs {
				id, ok := l.(*ast.Ident)
				if !ok {
					continue
				}
				if len(st.Rhs) == len(st.Lhs) {
					assigned[id.Name] = append(assigned[id.Name], st.Rhs[i])
				} else if i == 0 && len(st.Rhs) == 1 {
					assigned[id.Name] = append(assigned[id.Name], st.Rhs[0])
				} else if len(st.Rhs) == 1 {
					assigned[id.Name] = append(assigned[id.Name], nil)
				}
			}
		case *ast.ValueSpec:
			for i, id := range st.Names {
				if i < len(st.Values) {
					assigned[id.Name] = append(assigned[id.Name], st.Values[i])
				} else {
					assigned[id.Name] = append(assigned[id.Name], nil)
				}
			}
		}
	})
	var kinds func(e ast.Expr, depth int)
	kinds = func(e ast.Expr, depth int) {
		if e == nil || depth > 8 {
			out["?"] = true
			return
		}
		switch x := e.(type) {
		case *ast.ParenExpr:
			kinds(x.X, depth+1)
		case *ast.UnaryExpr:
			if cl, ok := x.X.(*ast.CompositeLit); ok && x.Op == token.AND {
				tn := p.src(cl.Type)
				switch {
				case tn == "opqNumber":
					out["opaque"] = true
				case tn == "FiniteNumber" && len(cl.Elts) == 0:
					out["zero"] = true
				case tn == "FiniteNumber":
					out["finite"] = true
				default:
					out["lit:"+tn] = true
				}
				return
			}
			out["?"] = true
		case *ast.Ident:
			switch {
			case x.Name == "nil":
				out["nil"] = true
			case params[x.Name]:
				out["param"] = true
			case len(assigned[x.Name]) > 0:
				for _, r := range assigned[x.Name] {
					kinds(r, depth+1)
				}
			case p.vars[x.Name] != nil:
				kinds(p.vars[x.Name], depth+1)
			default:
				out["?"+x.Name] = true
			}
		case *ast.CallExpr:
			id, ok := x.Fun.(*ast.Ident)
			callee := (*ast.FuncDecl)(nil)
			if ok {
				callee = p.funcs[id.Name]
			}
			if callee == nil || callee.Recv != nil {
				out["?call:"+p.src(x.Fun)] = true
				return
			}
			sub := p.returnKinds(callee, busy)
			// a wrapper that hands its argument back only when it is wrapped already
			if sub["opaque"] && sub["param"] {
				delete(sub, "param")
			}
			for k := range sub {
				out[k] = true
			}
		default:
			out["?"] = true
		}
	}
	walkNoFuncLit(fd.Body, func(n ast.Node) {
		if r, ok := n.(*ast.ReturnStmt); ok {
			if len(r.Results) == 0 {
				out["?bare-return"] = true
			} else {
				kinds(r.Results[0], 0)
			}
		}
	})
	return out
}

func walkNoFuncLit(n ast.Node, f func(ast.Node)) {
	ast.Inspect(n, func(m ast.Node) bool {
		if _, ok := m.(*ast.FuncLit); ok {
			return false
		}
		if m != nil {
			f(m)
		}
		return true
	})
}

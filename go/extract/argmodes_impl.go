package main

func (p *pkgInfo) emitArgModes(o *out) {
	o.line("")
	o.line("-- G5 argument modes: (not yet extracted)")
}

package main

// G5 argument modes (C14): for every exported function and every reference-typed parameter
// (*big.Int, *big.Rat, []int): is the caller's data only READ during the call ("read"), or can the
// library MUTATE it ("mutated"), or keep a live reference to it after the call returns
// ("retained")?  A small, conservative, package-local taint analysis over the AST, specialised to
// the idioms of this code base; anything it does not recognise as a copy or a synchronous read
// counts against the function.

import (
	"go/ast"
	"go/token"
	"sort"
	"strings"
)

type effect struct{ mut, ret, esc bool }

type amAnalysis struct {
	p     *pkgInfo
	sum   map[string][]effect // function key -> per-parameter summary
	notes []string
}

var bigMutating = map[string]bool{"Add": true, "Sub": true, "Mul": true, "Div": true, "Mod": true, "DivMod": true,
	"Set": true, "SetInt64": true, "Neg": true, "Abs": true, "Quo": true, "Rem": true, "QuoRem": true, "Exp": true,
	"Lsh": true, "Rsh": true, "SetString": true, "SetUint64": true, "Sqrt": true, "SetBit": true, "SetFrac": true,
	"SetFrac64": true, "SetFloat64": true, "Inv": true, "SetInt": true, "SetRat": true}

// external functions that consume their (function/iterator) argument synchronously
var extConsumes = map[string]bool{"consume2.FromIntGenerator": true, "consume2.FromGenerator": true,
	"slices.Collect": true, "fmt.Fprint": true, "fmt.Fprintf": true, "fmt.Sprintf": true, "fmt.Fprintln": true,
	"len": true, "cap": true, "copy": true, "min": true, "max": true, "panic": true, "slices.Clone": true}

// external functions whose result holds on to the argument
var extHolds = map[string]bool{"itertools.Take": true}

func isRefType(t ast.Expr) bool {
	switch v := t.(type) {
	case *ast.StarExpr:
		if s, ok := v.X.(*ast.SelectorExpr); ok {
			if x, ok := s.X.(*ast.Ident); ok && x.Name == "big" && (s.Sel.Name == "Int" || s.Sel.Name == "Rat") {
				return true
			}
		}
	case *ast.ArrayType:
		if v.Len == nil {
			if id, ok := v.Elt.(*ast.Ident); ok && id.Name == "int" {
				return true
			}
		}
	}
	return false
}

// holderType: parameter types through which a reference may travel (closures, iterators, interfaces)
func isHolderType(t ast.Expr) bool {
	switch v := t.(type) {
	case *ast.FuncType:
		return true
	case *ast.SelectorExpr: // iter.Seq etc.
		return true
	case *ast.IndexExpr, *ast.IndexListExpr:
		return true
	case *ast.Ident:
		// any named non-scalar type (interfaces, structs) may carry a reference
		return !map[string]bool{"int": true, "int64": true, "bool": true, "string": true, "rune": true, "error": true, "byte": true, "int8": true}[v.Name]
	case *ast.StarExpr, *ast.InterfaceType:
		return true
	}
	return false
}

func paramNames(fd *ast.FuncDecl) []string {
	var out []string
	for _, f := range fd.Type.Params.List {
		if len(f.Names) == 0 {
			out = append(out, "_")
		}
		for _, n := range f.Names {
			out = append(out, n.Name)
		}
	}
	return out
}

func paramTypes(fd *ast.FuncDecl) []ast.Expr {
	var out []ast.Expr
	for _, f := range fd.Type.Params.List {
		k := len(f.Names)
		if k == 0 {
			k = 1
		}
		for i := 0; i < k; i++ {
			out = append(out, f.Type)
		}
	}
	return out
}

func callName(c *ast.CallExpr) string {
	switch f := c.Fun.(type) {
	case *ast.Ident:
		return f.Name
	case *ast.SelectorExpr:
		if x, ok := f.X.(*ast.Ident); ok {
			return x.Name + "." + f.Sel.Name
		}
		return "?." + f.Sel.Name
	case *ast.IndexExpr: // generic instantiation f[T](...)
		return callName(&ast.CallExpr{Fun: f.X})
	}
	return "?"
}

// isCopyOf: expression that produces a fresh copy of the tainted name
func isCopyExpr(e ast.Expr, tainted func(ast.Expr) bool) bool {
	c, ok := e.(*ast.CallExpr)
	if !ok {
		return false
	}
	name := callName(c)
	if name == "slices.Clone" {
		return true
	}
	if name == "append" && len(c.Args) >= 2 && c.Ellipsis != token.NoPos {
		// append([]int(nil), x...)
		if conv, ok := c.Args[0].(*ast.CallExpr); ok && len(conv.Args) == 1 {
			if id, ok := conv.Args[0].(*ast.Ident); ok && id.Name == "nil" {
				return true
			}
		}
	}
	// new(big.Int).Set(x)
	if s, ok := c.Fun.(*ast.SelectorExpr); ok && s.Sel.Name == "Set" {
		if inner, ok := s.X.(*ast.CallExpr); ok && callName(inner) == "new" {
			return true
		}
	}
	return false
}

func (a *amAnalysis) analyse(key string, fd *ast.FuncDecl, idx int) effect {
	var eff effect
	names := paramNames(fd)
	if idx >= len(names) {
		return eff
	}
	taint := map[string]bool{names[idx]: true}
	var tainted func(e ast.Expr) bool
	tainted = func(e ast.Expr) bool {
		switch v := e.(type) {
		case nil:
			return false
		case *ast.Ident:
			return taint[v.Name]
		case *ast.ParenExpr:
			return tainted(v.X)
		case *ast.StarExpr:
			return tainted(v.X) // struct copy of a big.Int shares its digits
		case *ast.UnaryExpr:
			if v.Op == token.AND {
				return tainted(v.X)
			}
			return false
		case *ast.SliceExpr:
			return tainted(v.X)
		case *ast.SelectorExpr:
			return false
		case *ast.IndexExpr:
			return false // element of []int is an int
		case *ast.CompositeLit:
			for _, el := range v.Elts {
				if kv, ok := el.(*ast.KeyValueExpr); ok {
					if tainted(kv.Value) {
						return true
					}
				} else if tainted(el) {
					return true
				}
			}
			return false
		case *ast.FuncLit:
			cap := false
			ast.Inspect(v.Body, func(n ast.Node) bool {
				if id, ok := n.(*ast.Ident); ok && taint[id.Name] {
					cap = true
				}
				return true
			})
			return cap
		case *ast.CallExpr:
			if isCopyExpr(v, tainted) {
				return false
			}
			name := callName(v)
			// x.Num(), x.Denom(): pointers into the Rat
			if s, ok := v.Fun.(*ast.SelectorExpr); ok && (s.Sel.Name == "Num" || s.Sel.Name == "Denom") && tainted(s.X) {
				return true
			}
			// call of a tainted function value: results are plain values in this package
			if id, ok := v.Fun.(*ast.Ident); ok && taint[id.Name] {
				return false
			}
			// method call on a tainted holder (generator.Generate(), …): the result may hold the
			// reference too, unless it is a known scalar accessor
			if s, ok := v.Fun.(*ast.SelectorExpr); ok && tainted(s.X) {
				if !map[string]bool{"Sign": true, "Cmp": true, "Int64": true, "String": true, "BitLen": true, "IsInt64": true}[s.Sel.Name] && !bigMutating[s.Sel.Name] {
					return true
				}
			}
			// method call on a tainted holder (e.g. iterator methods): not tracked further
			if sum, ok := a.sum[name]; ok {
				for j, arg := range v.Args {
					if j < len(sum) && tainted(arg) && sum[j].ret {
						return true
					}
				}
				return false
			}
			if extHolds[name] {
				for _, arg := range v.Args {
					if tainted(arg) {
						return true
					}
				}
			}
			// conversion such as optionFunc(func…) or []int(x)
			if len(v.Args) == 1 && tainted(v.Args[0]) {
				if _, isLocal := a.p.funcs[name]; !isLocal && !extConsumes[name] && !strings.Contains(name, ".") {
					return true
				}
			}
			return false
		}
		return false
	}
	var visitCall func(c *ast.CallExpr)
	visitCall = func(c *ast.CallExpr) {
		name := callName(c)
		// receiver of a mutating big method
		if s, ok := c.Fun.(*ast.SelectorExpr); ok {
			if bigMutating[s.Sel.Name] && tainted(s.X) {
				eff.mut = true
				a.notes = append(a.notes, key+": "+names[idx]+"."+s.Sel.Name+" mutates the argument")
			}
			if (s.Sel.Name == "DivMod" || s.Sel.Name == "QuoRem") && len(c.Args) == 3 && tainted(c.Args[2]) {
				eff.mut = true
			}
		}
		if name == "append" && len(c.Args) > 0 && tainted(c.Args[0]) {
			eff.mut = true // may write into the caller's backing array
		}
		if sum, ok := a.sum[name]; ok {
			for j, arg := range c.Args {
				if j < len(sum) && tainted(arg) {
					if sum[j].mut {
						eff.mut = true
					}
					if sum[j].esc {
						eff.esc = true
					}
				}
			}
			return
		}
		// method of a package type called through a value: look for a unique method of that name
		if s, ok := c.Fun.(*ast.SelectorExpr); ok {
			var cands []string
			for k := range a.sum {
				if strings.HasSuffix(k, "."+s.Sel.Name) {
					cands = append(cands, k)
				}
			}
			if len(cands) > 0 {
				for _, k := range cands {
					for j, arg := range c.Args {
						if j < len(a.sum[k]) && tainted(arg) {
							if a.sum[k][j].mut {
								eff.mut = true
							}
							if a.sum[k][j].esc {
								eff.esc = true
							}
						}
					}
				}
				return
			}
		}
		// big.Int / big.Rat methods and known consumers read their arguments
		if s, ok := c.Fun.(*ast.SelectorExpr); ok {
			if bigMutating[s.Sel.Name] || map[string]bool{"Sign": true, "Cmp": true, "Int64": true, "Num": true, "Denom": true,
				"String": true, "BitLen": true, "IsInt64": true, "WriteByte": true}[s.Sel.Name] {
				return
			}
		}
		if extConsumes[name] || extHolds[name] || name == "new" || name == "make" || name == "append" {
			return
		}
		for _, arg := range c.Args {
			if tainted(arg) {
				eff.esc = true
				a.notes = append(a.notes, key+": "+names[idx]+" passed to unknown function "+name)
			}
		}
	}
	var walkStmts func(stmts []ast.Stmt)
	var walkStmt func(st ast.Stmt)
	inspectExprs := func(n ast.Node) {
		ast.Inspect(n, func(m ast.Node) bool {
			if c, ok := m.(*ast.CallExpr); ok {
				visitCall(c)
			}
			if g, ok := m.(*ast.GoStmt); ok {
				for _, arg := range g.Call.Args {
					if tainted(arg) {
						eff.esc = true
					}
				}
			}
			return true
		})
	}
	walkStmt = func(st ast.Stmt) {
		switch s := st.(type) {
		case *ast.AssignStmt:
			inspectExprs(s)
			for i, l := range s.Lhs {
				var r ast.Expr
				if len(s.Rhs) == len(s.Lhs) {
					r = s.Rhs[i]
				} else if len(s.Rhs) == 1 {
					r = s.Rhs[0]
				}
				switch lv := l.(type) {
				case *ast.Ident:
					if r != nil && isCopyExpr(r, tainted) {
						delete(taint, lv.Name) // rebinding to a fresh copy (x = new(big.Int).Set(x))
					} else if r != nil && tainted(r) {
						taint[lv.Name] = true
					}
				case *ast.IndexExpr:
					if tainted(lv.X) {
						eff.mut = true // x[i] = …
					}
				case *ast.SelectorExpr, *ast.StarExpr:
					if r != nil && tainted(r) {
						// stored into a field: it escapes unless the struct is a local that is merely returned;
						// a local composite is handled through CompositeLit, so a field store counts as escape
						if id, ok := firstIdent(lv); ok && isLocalResult(fd, id) {
							taint[id] = true
						} else {
							eff.esc = true
						}
					}
				}
			}
		case *ast.ReturnStmt:
			inspectExprs(s)
			for _, r := range s.Results {
				if tainted(r) {
					eff.ret = true
				}
			}
		case *ast.BlockStmt:
			walkStmts(s.List)
		case *ast.IfStmt:
			if s.Init != nil {
				walkStmt(s.Init)
			}
			inspectExprs(s.Cond)
			walkStmts(s.Body.List)
			if s.Else != nil {
				walkStmt(s.Else)
			}
		case *ast.ForStmt:
			if s.Init != nil {
				walkStmt(s.Init)
			}
			if s.Cond != nil {
				inspectExprs(s.Cond)
			}
			walkStmts(s.Body.List)
		case *ast.RangeStmt:
			inspectExprs(s.X)
			walkStmts(s.Body.List)
		default:
			if st != nil {
				inspectExprs(st)
			}
		}
	}
	walkStmts = func(stmts []ast.Stmt) {
		for _, st := range stmts {
			walkStmt(st)
		}
	}
	// two passes so that taint introduced late reaches earlier uses (flow-insensitive apart from rebinds)
	walkStmts(fd.Body.List)
	// named results that are tainted count as returned
	if fd.Type.Results != nil {
		for _, f := range fd.Type.Results.List {
			for _, n := range f.Names {
				if taint[n.Name] {
					eff.ret = true
				}
			}
		}
	}
	// closures defined in the body that capture the tainted name and are returned were handled by tainted(FuncLit)
	return eff
}

func firstIdent(e ast.Expr) (string, bool) {
	switch v := e.(type) {
	case *ast.Ident:
		return v.Name, true
	case *ast.SelectorExpr:
		return firstIdent(v.X)
	case *ast.StarExpr:
		return firstIdent(v.X)
	case *ast.ParenExpr:
		return firstIdent(v.X)
	}
	return "", false
}

// isLocalResult: name is a local variable of fd (declared by := or var in the body), i.e. a value
// under construction, as opposed to a receiver, parameter or package variable
func isLocalResult(fd *ast.FuncDecl, name string) bool {
	local := false
	ast.Inspect(fd.Body, func(n ast.Node) bool {
		switch v := n.(type) {
		case *ast.AssignStmt:
			if v.Tok == token.DEFINE {
				for _, l := range v.Lhs {
					if id, ok := l.(*ast.Ident); ok && id.Name == name {
						local = true
					}
				}
			}
		case *ast.ValueSpec:
			for _, id := range v.Names {
				if id.Name == name {
					local = true
				}
			}
		}
		return true
	})
	return local
}

func (p *pkgInfo) emitArgModes(o *out) {
	a := &amAnalysis{p: p, sum: map[string][]effect{}}
	var keys []string
	for k, fd := range p.funcs {
		if fd.Body == nil {
			continue
		}
		keys = append(keys, k)
		a.sum[k] = make([]effect, len(paramNames(fd)))
	}
	sort.Strings(keys)
	// fixpoint over summaries (parameters of reference or holder type)
	for iter := 0; iter < 8; iter++ {
		changed := false
		for _, k := range keys {
			fd := p.funcs[k]
			types := paramTypes(fd)
			for i, t := range types {
				if !isRefType(t) && !isHolderType(t) {
					continue
				}
				a.notes = nil
				e := a.analyse(k, fd, i)
				if e != a.sum[k][i] {
					a.sum[k][i] = e
					changed = true
				}
			}
		}
		if !changed {
			break
		}
	}
	o.line("")
	o.line("-- G5 argument modes: (exported function, reference-typed parameter, mode)")
	var rows []string
	for _, k := range keys {
		fd := p.funcs[k]
		if !ast.IsExported(fd.Name.Name) {
			continue
		}
		if fd.Recv != nil && !ast.IsExported(recvTypeName(fd.Recv.List[0].Type)) {
			continue
		}
		names, types := paramNames(fd), paramTypes(fd)
		for i, t := range types {
			if !isRefType(t) {
				continue
			}
			e := a.sum[k][i]
			mode := "read"
			if e.mut {
				mode = "mutated"
			} else if e.ret || e.esc {
				mode = "retained"
			}
			rows = append(rows, "  ("+leanStr(k)+", "+leanStr(names[i])+", "+leanStr(mode)+")")
		}
	}
	o.line("def argModes : List (String × String × String) := [")
	o.line("%s", strings.Join(rows, ",\n"))
	o.line("]")
}

module verif/shimgen

go 1.23

// Command shimgen prepares a `go build -overlay` that puts one sqroot package under the
// controlled scheduler of /verif/go/sched/shim.go.tmpl.
//
// usage: shimgen <package dir> <scratch dir> <tag>   → prints overlay entries as JSON object members
//
// Every non-test source file of the package that mentions package sync or contains a go statement
// is rewritten mechanically (go/ast):
//
//	sync.Mutex            → verifMutex
//	sync.Cond             → verifCond
//	sync.NewCond(&E.f)    → verifNewCond(&E.f, E)      (owner = the struct the mutex lives in)
//	sync.NewCond(x)       → verifNewCond(x, nil)
//	go f(args)            → verifGo(func() { f(args) })
//
// Anything else from package sync (Once, WaitGroup, RWMutex, atomic, channels used for
// synchronisation) is left alone and listed on stderr as "unsupported"; the scheduler then cannot
// control it (a task blocking there is reported as `stuck`).
package main

import (
	"bytes"
	"encoding/json"
	"fmt"
	"go/ast"
	"go/format"
	"go/parser"
	"go/token"
	"os"
	"path/filepath"
	"strings"
)

func main() {
	if len(os.Args) != 4 {
		fmt.Fprintln(os.Stderr, "usage: shimgen <package dir> <scratch dir> <tag>")
		os.Exit(2)
	}
	dir, out, tag := os.Args[1], os.Args[2], os.Args[3]
	ents, err := os.ReadDir(dir)
	if err != nil {
		fmt.Fprintln(os.Stderr, err)
		os.Exit(2)
	}
	overlay := map[string]string{}
	pkgName := ""
	var unsupported []string
	for _, e := range ents {
		name := e.Name()
		if e.IsDir() || !strings.HasSuffix(name, ".go") || strings.HasSuffix(name, "_test.go") {
			continue
		}
		path := filepath.Join(dir, name)
		src, err := os.ReadFile(path)
		if err != nil {
			fmt.Fprintln(os.Stderr, err)
			os.Exit(2)
		}
		fset := token.NewFileSet()
		f, err := parser.ParseFile(fset, path, src, parser.ParseComments)
		if err != nil {
			fmt.Fprintln(os.Stderr, err)
			os.Exit(2)
		}
		if pkgName == "" {
			pkgName = f.Name.Name
		}
		syncName := ""
		for _, im := range f.Imports {
			if im.Path.Value == `"sync"` {
				syncName = "sync"
				if im.Name != nil {
					syncName = im.Name.Name
				}
			}
			if im.Path.Value == `"sync/atomic"` {
				unsupported = append(unsupported, name+": sync/atomic")
			}
		}
		changed := false
		isSync := func(x ast.Expr, sel string) bool {
			s, ok := x.(*ast.SelectorExpr)
			if !ok || syncName == "" {
				return false
			}
			id, ok := s.X.(*ast.Ident)
			return ok && id.Name == syncName && id.Obj == nil && (sel == "" || s.Sel.Name == sel)
		}
		var rewriteExpr func(n ast.Node) bool
		replaceIn := func(ptr *ast.Expr) {
			x := *ptr
			switch {
			case isSync(x, "Mutex"):
				*ptr = ast.NewIdent("verifMutex")
				changed = true
			case isSync(x, "Cond"):
				*ptr = ast.NewIdent("verifCond")
				changed = true
			}
		}
		rewriteExpr = func(n ast.Node) bool {
			switch v := n.(type) {
			case *ast.Field:
				replaceIn(&v.Type)
			case *ast.StarExpr:
				replaceIn(&v.X)
			case *ast.ValueSpec:
				if v.Type != nil {
					replaceIn(&v.Type)
				}
			case *ast.CompositeLit:
				if v.Type != nil {
					replaceIn(&v.Type)
				}
			case *ast.ArrayType:
				replaceIn(&v.Elt)
			case *ast.MapType:
				replaceIn(&v.Key)
				replaceIn(&v.Value)
			case *ast.CallExpr:
				if isSync(v.Fun, "NewCond") && len(v.Args) == 1 {
					var owner ast.Expr = ast.NewIdent("nil")
					if u, ok := v.Args[0].(*ast.UnaryExpr); ok && u.Op == token.AND {
						if s, ok := u.X.(*ast.SelectorExpr); ok {
							owner = s.X
						}
					}
					v.Fun = ast.NewIdent("verifNewCond")
					v.Args = append(v.Args, owner)
					changed = true
				}
				for i := range v.Args {
					replaceIn(&v.Args[i])
				}
			case *ast.BlockStmt:
				for i, st := range v.List {
					if g, ok := st.(*ast.GoStmt); ok {
						v.List[i] = &ast.ExprStmt{X: &ast.CallExpr{
							Fun: ast.NewIdent("verifGo"),
							Args: []ast.Expr{&ast.FuncLit{
								Type: &ast.FuncType{Params: &ast.FieldList{}},
								Body: &ast.BlockStmt{List: []ast.Stmt{&ast.ExprStmt{X: g.Call}}},
							}},
						}}
						changed = true
					}
				}
			case *ast.CaseClause:
				for i, st := range v.Body {
					if g, ok := st.(*ast.GoStmt); ok {
						v.Body[i] = &ast.ExprStmt{X: &ast.CallExpr{Fun: ast.NewIdent("verifGo"),
							Args: []ast.Expr{&ast.FuncLit{Type: &ast.FuncType{Params: &ast.FieldList{}},
								Body: &ast.BlockStmt{List: []ast.Stmt{&ast.ExprStmt{X: g.Call}}}}}}}
						changed = true
					}
				}
			case *ast.SendStmt, *ast.SelectStmt:
				unsupported = append(unsupported, fmt.Sprintf("%s:%d: channel operation", name, fset.Position(n.Pos()).Line))
			case *ast.UnaryExpr:
				if v.Op == token.ARROW {
					unsupported = append(unsupported, fmt.Sprintf("%s:%d: channel receive", name, fset.Position(n.Pos()).Line))
				}
			}
			return true
		}
		ast.Inspect(f, rewriteExpr)
		// what is left of package sync?
		left := false
		ast.Inspect(f, func(n ast.Node) bool {
			if s, ok := n.(*ast.SelectorExpr); ok && isSync(s, "") {
				left = true
				unsupported = append(unsupported, fmt.Sprintf("%s:%d: sync.%s", name, fset.Position(n.Pos()).Line, s.Sel.Name))
			}
			if _, ok := n.(*ast.GoStmt); ok {
				unsupported = append(unsupported, fmt.Sprintf("%s:%d: go statement not rewritten", name, fset.Position(n.Pos()).Line))
			}
			return true
		})
		if !changed {
			continue
		}
		if !left && syncName != "" {
			// drop the import of sync
			for _, d := range f.Decls {
				gd, ok := d.(*ast.GenDecl)
				if !ok || gd.Tok != token.IMPORT {
					continue
				}
				var specs []ast.Spec
				for _, sp := range gd.Specs {
					if sp.(*ast.ImportSpec).Path.Value != `"sync"` {
						specs = append(specs, sp)
					}
				}
				gd.Specs = specs
			}
			var decls []ast.Decl
			for _, d := range f.Decls {
				if gd, ok := d.(*ast.GenDecl); ok && gd.Tok == token.IMPORT && len(gd.Specs) == 0 {
					continue
				}
				decls = append(decls, d)
			}
			f.Decls = decls
		}
		var buf bytes.Buffer
		if err := format.Node(&buf, fset, f); err != nil {
			fmt.Fprintln(os.Stderr, "format:", err)
			os.Exit(2)
		}
		dst := filepath.Join(out, tag+"_"+name)
		if err := os.WriteFile(dst, buf.Bytes(), 0o644); err != nil {
			fmt.Fprintln(os.Stderr, err)
			os.Exit(2)
		}
		overlay[path] = dst
	}
	// the shim itself
	self, _ := os.Executable()
	_ = self
	tmpl, err := os.ReadFile(os.Getenv("VERIF_SHIM_TMPL"))
	if err != nil {
		fmt.Fprintln(os.Stderr, "VERIF_SHIM_TMPL:", err)
		os.Exit(2)
	}
	shim := strings.Replace(string(tmpl), "package PKGNAME", "package "+pkgName, 1)
	dst := filepath.Join(out, tag+"_verif_sched_shim.go")
	if err := os.WriteFile(dst, []byte(shim), 0o644); err != nil {
		fmt.Fprintln(os.Stderr, err)
		os.Exit(2)
	}
	overlay[filepath.Join(dir, "verif_sched_shim.go")] = dst
	for _, u := range unsupported {
		fmt.Fprintln(os.Stderr, "unsupported:", u)
	}
	b, _ := json.Marshal(overlay)
	fmt.Println(string(b))
}

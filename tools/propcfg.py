"""Per-property configuration of ./check (which harness groups, which theorem module, notes)."""

TRUSTED_BASE = [
    "Lean 4.33.0 kernel; axioms limited to propext, Classical.choice, Quot.sound (printed per theorem)",
    "go/extract: translator from /repo's Go source to Sqroot/Gen/V*.lean (symbolic evaluation of big.Int method bodies and pure int functions; facts G4-G6)",
    "go/harness + specdriver/modeldriver (compiled Lean, GMP): correspondence check between the hand-written model and the running code",
    "math/big modelled as exact integer arithmetic (Euclidean DivMod on positives)",
]

NOT_APPLICABLE = {}

PROPS = {
    "C01": {
        "level_text": 'Theorem sqrt_exact (all radicands num/den>0, all k, all three versions): digits and exponent computed by the model satisfy M^2*10^(2(e-k)) <= r < (M+1)^2*10^(2(e-k)), digits 0-9, first 1-9; prefix consistency and representation independence are theorems too. The manager arithmetic is regenerated from compute.go each run and re-proved; the hand-modelled loops are compared with the running code of all three versions on boundary-biased radicands, and every implementation answer is checked against the integer inequality itself.',
        "level_note": 'Lean kernel + propext/Classical.choice/Quot.sound; go/extract symbolic evaluator; normalisation loops and digit closure hand-modelled (correspondence-checked, not verified); math/big as exact integers; memoizer assumed to pass digits through (C04/C06).',
        "groups": ["C01"],
        "props_module": "Sqroot.Props.C01",
        "trivial_re": r"=> zero",
        "trivial_desc": "radicand is non-zero (digits were checked against the truncation inequality)",
        "ties": "tie 1: sqrtManager.{Next,NextDigit,Base}, initial incr/remainder regenerated into Gen and re-proved (ring). tie 2: normalisation loops and digit closure are hand-modelled; model and implementation compared on every generated radicand, implementation checked against the integer inequality of the property.",
        "assumptions": ["Go int as unbounded Int is irrelevant here (big.Int arithmetic only)",
                        "the memoizer delivers the closure's digits unchanged (C04/C06)"],
    },
    "C02": {
        "level_text": 'Theorem cube_exact, as C01 for degree 3 with the generated cubeRootManager constants (6, 45, 54, 171, 100, 1000): changing any of them makes cube_manager_correct fail to check.',
        "level_note": 'As C01.',
        "groups": ["C02"],
        "props_module": "Sqroot.Props.C02",
        "trivial_re": r"=> zero",
        "trivial_desc": "radicand is non-zero",
        "ties": "as C01 with cubeRootManager (constants 6, 45, 54, 171, 100, 1000 regenerated)",
        "assumptions": ["the memoizer delivers the closure's digits unchanged (C04/C06)"],
    },
    "C03": {
        "level_text": 'Theorems sqrt_ends_iff / cube_ends_iff (stream has exactly L digits iff those L digits are the exact root), *_end_last_nonzero, end_sticky, *_never_ends, over the same regenerated managers; implementation checked against ExactRoot/TruncRoot on terminating and non-terminating radicands.',
        "level_note": "As C01; 'never ends' on the implementation is observed only to the explored depth (the theorem is about the model).",
        "groups": ["C03"],
        "props_module": "Sqroot.Props.C03",
        "trivial_re": r"=> zero",
        "trivial_desc": "radicand is non-zero",
        "ties": "as C01/C02; generators stress (a/10^t)^n, perfect powers at misaligned scales, 1/9, 4/9",
        "assumptions": ["'never ends' is a theorem about the model; on the implementation it is observed to the explored depth only"],
    },
    "C11": {
        "level_text": 'Theorem build_normal_exact_union: every Add/AddRange sequence succeeds, and Build, for ANY permutation the sort may produce, returns the unique normal form (non-empty, increasing, disjoint, non-adjacent ranges) of exactly the non-negative positions added and resets the builder; End/UpTo/Between theorems. Hand model compared with all three implementations on exhaustive small scripts and random scripts over the extreme-integer grid; implementation answers checked against set semantics at all critical points; earlier-built Positions re-read after later builder use.',
        "level_note": 'Lean kernel + standard axioms; positions.go hand-modelled (correspondence-checked); sort.Slice trusted to return a permutation ordered by Start; slice aliasing (Build hands over the backing array) checked dynamically only; Add(MaxInt) is a documented no-op (posit+1 wraps).',
        "groups": ["C11"],
        "props_module": "Sqroot.Props.C11",
        "trivial_re": r"pos v\d - ",
        "trivial_desc": "script has at least one call",
        "ties": "hand model of positions.go; tie 2 with random and exhaustive small builder scripts on all three versions; sort.Slice modelled as any permutation ordered by Start (theorem quantifies over it)",
        "assumptions": ["sort.Slice returns a permutation ordered by the less function",
                        "slice aliasing between builder and built Positions is checked dynamically (re-read after later builder use), not proved"],
    },
}

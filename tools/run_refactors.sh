#!/bin/bash
# usage: run_refactors.sh <results-file>  — behaviour-preserving refactorings (/tmp/mut/REF-out/r*/patch.diff) against every check:
# every line other than OK is a false alarm (or a tie broken by a harmless rewrite)
out="$1"
mkdir -p /tmp/vcopy2
rsync -a --delete --exclude .git --exclude replays --exclude evidence /verif/ /tmp/vcopy2/
wt=/tmp/mut/REF
for d in /tmp/mut/REF-out/r*; do
  [ -f "$d/patch.diff" ] || continue
  git -C $wt checkout -q -- . ; git -C $wt clean -fdq
  if ! git -C $wt apply "$d/patch.diff"; then echo "$(basename $d) PATCH-FAILS" >> "$out"; continue; fi
  for p in C01 C02 C03 C04 C05 C06 C07 C08 C09 C10 C11 C12 C13 C14 C15 C16 C17 C18; do
    res=$(cd /tmp/vcopy2 && VERIF_REPO=$wt timeout 1500 ./check $p 2>&1 | tail -1)
    case "$res" in *"] OK"*) ;; *) echo "$(basename $d) $p :: $res" >> "$out";; esac
  done
  echo "$(basename $d) done" >> "$out"
  git -C $wt checkout -q -- . ; git -C $wt clean -fdq
done
echo DONE >> "$out"

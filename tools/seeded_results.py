#!/usr/bin/env python3
"""Rewrite the table at the top of seeded/RESULTS.md from seeded/*/meta.json (checks_run); the
hand-written history sections below the marker line are kept."""
import glob, json, os, re
V = "/verif/seeded"
rows = []
for f in sorted(glob.glob(os.path.join(V, "*", "meta.json"))):
    m = json.load(open(f))
    verdicts = []
    for c in m.get("checks_run", []):
        if c.get("caught"):
            verdicts.append(f"{c['check']}: caught" + ("" if c.get("concrete_counterexample") else " (no failing input)") + f" ({c.get('seconds', '?')}s)")
        else:
            verdicts.append(f"{c['check']}: MISSED ({c.get('seconds', '?')}s)")
    rows.append((m["id"], m.get("property", ""), m.get("module", ""), "; ".join(verdicts) or m.get("result", "")))
p = os.path.join(V, "RESULTS.md")
old = open(p).read() if os.path.exists(p) else ""
marker = "<!-- history -->"
tail = old[old.index(marker):] if marker in old else marker + "\n" + old[old.index("C15-m2 is a concurrency-only"):] if "C15-m2 is a concurrency-only" in old else marker + "\n"
head = "# Seeded changes and the checks that catch them\n\nEach change compiles, passes the 488 existing tests, and has a demonstration that fails with it and passes without it (confirmed in a scratch worktree). Verdicts are from `./check <property>` (quick tier, seed 1) run against the change with the machinery as committed; `rN-` prefixes name the round of independent sub-agents that produced the change.\n\n| id | property | module | result |\n|---|---|---|---|\n"
with open(p, "w") as f:
    f.write(head)
    for r in rows:
        f.write("| %s | %s | %s | %s |\n" % r)
    f.write("\n" + tail)
print(len(rows), "rows")

#!/usr/bin/env python3
"""Confirm and record seeded changes delivered by independent sub-agents.

  seed_round.py confirm <out-dir> <mK> <seeded-id> <property>
      In a scratch worktree of /repo (created and removed here): the diff applies, all three
      modules build and pass their existing tests with it, the demonstration fails with it and
      passes without it. On success the change is stored as /verif/seeded/<seeded-id>/
      (patch.diff, demo_test.go, notes.md, meta.json).
  seed_round.py check <seeded-id> <property> [<property>...]
      Applies /verif/seeded/<id>/patch.diff to /repo, runs ./check <property> (quick), ALWAYS
      reverts, and appends the verdict to meta.json.
"""
import json, os, re, shutil, subprocess, sys, tempfile, time

ENV = dict(os.environ, GOFLAGS="-mod=mod", GOPROXY="off", GOSUMDB="off", GOTOOLCHAIN="local", VERIF_EVIDENCE_DIR="/tmp/verif-mutant-evidence")
VERIF = "/verif"


def sh(cmd, cwd=None, timeout=1800):
    p = subprocess.run(cmd, cwd=cwd, env=ENV, shell=isinstance(cmd, str), stdout=subprocess.PIPE, stderr=subprocess.STDOUT, text=True, timeout=timeout)
    return p.returncode, p.stdout


def confirm(outdir, mk, sid, prop):
    diff = os.path.join(outdir, mk + ".diff")
    demo = os.path.join(outdir, mk + "_demo_test.go")
    notes = os.path.join(outdir, mk + "_notes.md")
    for f in (diff, demo):
        if not os.path.exists(f):
            print("missing", f)
            return 1
    head = open(demo).read(600)
    m = re.search(r"//\s*module:\s*(\S+)", head)
    module = m.group(1).strip("`'\" ,;") if m else "v3"
    module = {"root": ".", "./": ".", "v1": ".", "./v2": "v2", "./v3": "v3"}.get(module, module)
    wt = tempfile.mkdtemp(prefix="seedwt-")
    os.rmdir(wt)
    rc, out = sh(["git", "-C", "/repo", "worktree", "add", "--detach", wt, "HEAD"])
    res = {"module": module}
    try:
        def tests():
            ok = True
            for mod in (".", "v2", "v3"):
                rc, out = sh("go build ./... && go test -vet=off -count=1 ./...", cwd=os.path.join(wt, mod))
                if rc != 0:
                    ok = False
                    print(out[-1500:])
            return ok

        def run_demo():
            dst = os.path.join(wt, module, "zz_seed_demo_test.go")
            shutil.copy(demo, dst)
            try:
                rc, out = sh("go test -vet=off -count=1 -timeout 180s -run 'Demo|demo|Seed|M1|M2|m1|m2' .", cwd=os.path.join(wt, module), timeout=400)
                ran = "no tests to run" not in out
                if not ran:
                    rc, out = sh("go test -vet=off -count=1 -timeout 300s .", cwd=os.path.join(wt, module), timeout=600)
                return rc == 0, out[-800:]
            finally:
                os.remove(dst)

        clean_ok, o1 = run_demo()
        res["demo_passes_without"] = clean_ok
        rc, out = sh(["git", "apply", diff], cwd=wt)
        if rc != 0:
            print("patch does not apply:", out)
            return 1
        res["existing_tests_pass_with_change"] = tests()
        with_ok, o2 = run_demo()
        res["demo_fails_with_change"] = not with_ok
        res["demo_output_with_change"] = o2[-500:]
    finally:
        sh(["git", "-C", "/repo", "worktree", "remove", "--force", wt])
    print(sid, res["module"], {k: v for k, v in res.items() if k != "demo_output_with_change"})
    if not (res["demo_passes_without"] and res["existing_tests_pass_with_change"] and res["demo_fails_with_change"]):
        print("NOT CONFIRMED")
        return 1
    dst = os.path.join(VERIF, "seeded", sid)
    os.makedirs(dst, exist_ok=True)
    shutil.copy(diff, os.path.join(dst, "patch.diff"))
    shutil.copy(demo, os.path.join(dst, "demo_test.go"))
    if os.path.exists(notes):
        shutil.copy(notes, os.path.join(dst, "notes.md"))
    meta = {
        "id": sid, "property": prop, "module": module,
        "origin": "independent sub-agent (round " + os.environ.get("SEED_ROUND", "4") + ") given only the property text and a scratch worktree; asked for changes that need something specific to manifest",
        "what_and_needs_to_manifest": (open(notes).read()[:1800] if os.path.exists(notes) else ""),
        "confirmed": {"existing_tests_pass_with_change": True, "demo_fails_with_change": True, "demo_passes_without": True,
                      "how": "tools/seed_round.py confirm: scratch worktree; git apply; go build + go test ./... in ., v2, v3; demo copied into the module with and without the change"},
        "checks_run": [],
    }
    json.dump(meta, open(os.path.join(dst, "meta.json"), "w"), indent=1)
    return 0


def check(sid, props):
    dst = os.path.join(VERIF, "seeded", sid)
    meta = json.load(open(os.path.join(dst, "meta.json")))
    rc, out = sh("git -C /repo status --porcelain")
    if out.strip():
        print("REPO NOT CLEAN")
        return 2
    rc, out = sh(["git", "-C", "/repo", "apply", os.path.join(dst, "patch.diff")])
    if rc != 0:
        print("patch does not apply", out)
        return 2
    try:
        for prop in props:
            t0 = time.time()
            rc, out = sh(["./check", prop, "--tier", "quick"], cwd=VERIF, timeout=3000)
            secs = int(time.time() - t0)
            vio = [l for l in out.splitlines() if l.startswith("VIOLATION")]
            caught = rc != 0 and bool(vio)
            nf = any("no-failing-input-found" in l for l in vio)
            detail = ""
            if vio:
                m = re.search(r"replay=(\S+)", vio[0])
                if m and os.path.exists(m.group(1)):
                    p = json.load(open(m.group(1)))
                    detail = (p.get("failing_case", "")[:300] + " :: " + p.get("spec_verdict", "")[:300]) if p.get("failing_case") else json.dumps(p.get("broken", ""))[:600]
            v = {"check": prop, "caught": caught, "concrete_counterexample": caught and not nf, "seconds": secs, "detail": detail}
            meta["checks_run"] = [c for c in meta["checks_run"] if c["check"] != prop] + [v]
            print(sid, prop, "caught" if caught else "MISSED", "(no failing input)" if nf else "", f"{secs}s", detail[:200])
    finally:
        sh("git -C /repo checkout -- . && git -C /repo clean -fdq")
    json.dump(meta, open(os.path.join(dst, "meta.json"), "w"), indent=1)
    return 0


if __name__ == "__main__":
    a = sys.argv[1:]
    if a and a[0] == "confirm":
        sys.exit(confirm(a[1], a[2], a[3], a[4]))
    if a and a[0] == "check":
        sys.exit(check(a[1], a[2:]))
    print(__doc__)
    sys.exit(2)

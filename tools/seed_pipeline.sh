#!/bin/bash
# usage: seed_pipeline.sh <round e.g. r5> <property>...  — confirm the changes delivered in /tmp/mut/<round>-<prop>-out
# (scratch worktree), then run the property's quick check against each on private copies (tools/sweep.py), merge verdicts
rnd="$1"; shift
ids=()
for p in "$@"; do
  for k in m1 m2 m3; do
    [ -f /tmp/mut/$rnd-$p-out/$k.diff ] || continue
    id=$rnd-$p-$k
    if [ ! -d /verif/seeded/$id ]; then
      SEED_ROUND=${rnd#r} python3 /verif/tools/seed_round.py confirm /tmp/mut/$rnd-$p-out $k $id $p 2>&1 | tail -2 | cut -c1-300
    fi
    [ -d /verif/seeded/$id ] && ids+=($id)
  done
  git -C /repo worktree remove --force /tmp/mut/$rnd-$p 2>/dev/null
done
out=/tmp/sweep_$rnd_$$.jsonl
SWEEP_ROOT=/tmp/sweep_$$ python3 /verif/tools/sweep.py mutants $out --workers 3 "${ids[@]}" | grep -v "^DONE" | cut -c1-330
python3 /verif/tools/sweep.py merge-mutants $out

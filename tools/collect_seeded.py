#!/usr/bin/env python3
"""Collect confirmed seeded changes from /tmp/mut/*-out into /verif/seeded/<id>/ and write seeded/RESULTS.md.
usage: collect_seeded.py <confirm files...> -- <result files...>"""
import glob, json, os, re, shutil, sys
args = sys.argv[1:]
i = args.index("--")
confirm_files, result_files = args[:i], args[i + 1:]
confirm = {}
for f in confirm_files:
    for l in open(f):
        m = re.match(r"(\S+) (m\d) module=(\S+) existing-tests=(\S+) demo-with-change=(\S+) demo-without=(\S+)", l)
        if m:
            confirm[(m.group(1), m.group(2))] = dict(module=m.group(3), tests=m.group(4), demo_with=m.group(5), demo_without=m.group(6))
results = {}
for f in result_files:
    for l in open(f):
        m = re.match(r"(\S+?)(?:/(\S+))? (m\d) (\d+)s :: (.*)", l)
        if m:
            d, prop, mm, secs, res = m.groups()
            prop = prop or d
            results.setdefault((d, mm), []).append((prop, int(secs), res.strip()))
VERIF = "/verif"
rows = []
for (d, mm), c in sorted(confirm.items()):
    src = f"/tmp/mut/{d}-out/{mm}"
    prop = re.match(r"(C\d+)", d).group(1)
    sid = f"{d}-{mm}"
    dst = os.path.join(VERIF, "seeded", sid)
    ok = c["tests"] == "ok" and c["demo_with"] == "FAIL" and c["demo_without"] == "PASS"
    if not ok:
        rows.append((sid, prop, "NOT KEPT (confirmation failed: %s)" % c, ""))
        continue
    os.makedirs(dst, exist_ok=True)
    for fn in os.listdir(src):
        if fn.endswith((".diff", ".go", ".md")):
            shutil.copy(os.path.join(src, fn), os.path.join(dst, fn))
    notes = open(os.path.join(src, "notes.md")).read() if os.path.exists(os.path.join(src, "notes.md")) else ""
    det = results.get((d, mm), [])
    verdicts = []
    for (p, secs, res) in det:
        caught = "VIOLATION" in res
        nf = "no-failing-input-found" in res
        verdicts.append({"check": p, "caught": caught, "concrete_counterexample": caught and not nf, "seconds": secs})
    meta = {
        "id": sid, "property": prop, "module": c["module"],
        "origin": "independent sub-agent given only the property text and a scratch worktree",
        "what_and_needs_to_manifest": notes[:1500],
        "confirmed": {"existing_tests_pass_with_change": True, "demo_fails_with_change": True, "demo_passes_without": True,
                      "how": "/tmp/mut/confirm.sh: git apply; go test ./... in ., v2, v3; demo as zz_demo_test.go with and without the change"},
        "checks_run": verdicts,
    }
    json.dump(meta, open(os.path.join(dst, "meta.json"), "w"), indent=1)
    rows.append((sid, prop, c["module"], "; ".join(f"{v['check']}: {'caught' + ('' if v['concrete_counterexample'] else ' (no failing input)') if v['caught'] else 'MISSED'} ({v['seconds']}s)" for v in verdicts)))
with open(os.path.join(VERIF, "seeded", "RESULTS.md"), "w") as f:
    f.write("# Seeded changes and the checks that catch them\n\nEach change compiles, passes the 488 existing tests, and has a demonstration that fails with it and passes without it (confirmed in a scratch worktree). Verdicts are from `./check <property>` (quick tier, seed 1) run against the change with the machinery as committed.\n\n| id | property | module | result |\n|---|---|---|---|\n")
    for r in rows:
        f.write("| %s | %s | %s | %s |\n" % r)
print(len(rows), "seeded changes recorded")

#!/bin/bash
# usage: run_mutants.sh <results-file> <Cxx>...   — tests the seeded candidates under /tmp/mut/<Cxx>-out/m*/patch.diff
# against a COPY of /verif (so that /repo and /verif/lean stay untouched), using the agent's scratch worktree as the tree.
out="$1"; shift
mkdir -p /tmp/vcopy
rsync -a --delete --exclude .git --exclude replays --exclude evidence /verif/ /tmp/vcopy/
for arg in "$@"; do
  dirn="${arg%%:*}"; p="${arg##*:}"     # <worktree-dir>[:<property>]
  for d in /tmp/mut/$dirn-out/m*; do
    [ -f "$d/patch.diff" ] || continue
    wt=/tmp/mut/$dirn
    git -C $wt checkout -q -- . ; git -C $wt clean -fdq
    if ! git -C $wt apply "$d/patch.diff"; then echo "$dirn/$p $(basename $d) PATCH-FAILS" >> "$out"; continue; fi
    start=$(date +%s)
    res=$(cd /tmp/vcopy && VERIF_REPO=$wt timeout 1500 ./check $p 2>&1 | tail -3 | tr '\n' ' ')
    end=$(date +%s)
    git -C $wt checkout -q -- . ; git -C $wt clean -fdq
    echo "$dirn/$p $(basename $d) $((end-start))s :: $res" >> "$out"
  done
done
echo "DONE $*" >> "$out"

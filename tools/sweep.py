#!/usr/bin/env python3
"""Run the quick checks against seeded changes and behaviour-preserving refactorings, in parallel,
on PRIVATE copies of /verif and private worktrees of /repo (neither /repo nor /verif is touched).

  sweep.py mutants  <out.jsonl> [--workers N] [id ...]     every seeded/<id>/patch.diff against its property
                                                            (and the checks listed in EXTRA below)
  sweep.py refactor <out.jsonl> [--workers N] [rNN ...]     every seeded/refactorings/rNN.diff against all 18 checks
  sweep.py merge-mutants <out.jsonl>                        write the verdicts into seeded/<id>/meta.json
  sweep.py merge-refactor <out.jsonl>                       write seeded/REFACTORINGS.md

One JSON object per line: {kind, id, check, caught, concrete, seconds, detail}.
"""
import glob, json, os, re, subprocess, sys, threading, time, queue, shutil

VERIF = "/verif"
ROOT = os.environ.get("SWEEP_ROOT", "/tmp/sweep")
# concurrency-only changes filed under a sequential property are C05's business as well
EXTRA = {"r8-C15-m2": ["C05"], "r7-C07-m1": ["C04"], "r6-C15-m2": ["C05"], "r5-C15-m3": ["C09"], "r5-C02-m2": ["C14"], "r5-C15-m1": ["C05"], "r5-C13-m2": ["C14"], "C15-m2": ["C05"], "r4-C15-m1": ["C05"], "C15-m1": ["C05"], "r3-C13-m1": ["C14"], "r3-C16-m1": ["C12"], "C14-m2": ["C11"]}
ENV = dict(os.environ, GOFLAGS="-mod=mod", GOPROXY="off", GOSUMDB="off", GOTOOLCHAIN="local")


def sh(cmd, cwd=None, env=None, timeout=None):
    p = subprocess.run(cmd, cwd=cwd, env=env or ENV, shell=isinstance(cmd, str), stdout=subprocess.PIPE, stderr=subprocess.STDOUT, text=True, timeout=timeout)
    return p.returncode, p.stdout


def setup_worker(w):
    d = os.path.join(ROOT, f"w{w}")
    os.makedirs(d, exist_ok=True)
    sh(["rsync", "-a", "--delete", "--exclude", ".git", "--exclude", "replays", "--exclude", "evidence", VERIF + "/", d + "/verif/"])
    repo = d + "/repo"
    if not os.path.isdir(repo):
        sh(["git", "-C", "/repo", "worktree", "add", "--detach", repo, "HEAD"])
    sh("git checkout -q -- . && git clean -fdq", cwd=repo)
    return d


def run_task(d, patch, prop):
    repo, verif = d + "/repo", d + "/verif"
    rc, out = sh(["git", "apply", patch], cwd=repo)
    if rc != 0:
        return {"check": prop, "caught": False, "concrete": False, "seconds": 0, "detail": "PATCH DOES NOT APPLY " + out[:200]}
    t0 = time.time()
    try:
        for f in glob.glob(verif + "/replays/*.json"):
            os.remove(f)
        env = dict(ENV, VERIF_REPO=repo, VERIF_EVIDENCE_DIR=d + "/ev")
        try:
            rc, out = sh(["./check", prop, "--tier", "quick"], cwd=verif, env=env, timeout=2400)
        except subprocess.TimeoutExpired:
            return {"check": prop, "caught": False, "concrete": False, "seconds": int(time.time() - t0), "detail": "CHECK TIMED OUT"}
        vio = [l for l in out.splitlines() if l.startswith("VIOLATION")]
        caught = rc != 0 and bool(vio)
        nf = any("no-failing-input-found" in l for l in vio)
        detail = ""
        if vio:
            m = re.search(r"replay=(\S+)", vio[0])
            if m and os.path.exists(m.group(1)):
                p = json.load(open(m.group(1)))
                detail = (p.get("failing_case", "")[:300] + " :: " + p.get("spec_verdict", "")[:300]) if p.get("failing_case") else json.dumps(p.get("broken", ""))[:700]
        elif rc != 0:
            detail = "CHECK FAILED WITHOUT VIOLATION LINE: " + out[-400:]
        return {"check": prop, "caught": caught, "concrete": caught and not nf, "seconds": int(time.time() - t0), "detail": detail}
    finally:
        sh("git checkout -q -- . && git clean -fdq", cwd=repo)


def main():
    a = sys.argv[1:]
    mode, outp = a[0], a[1]
    rest = a[2:]
    workers = 4
    if "--workers" in rest:
        i = rest.index("--workers")
        workers = int(rest[i + 1])
        rest = rest[:i] + rest[i + 2:]
    if mode == "merge-mutants":
        rows = [json.loads(l) for l in open(outp)]
        for r in rows:
            if r["kind"] != "mutant":
                continue
            mp = os.path.join(VERIF, "seeded", r["id"], "meta.json")
            meta = json.load(open(mp))
            v = {"check": r["check"], "caught": r["caught"], "concrete_counterexample": r["concrete"], "seconds": r["seconds"], "detail": r["detail"]}
            meta["checks_run"] = [c for c in meta.get("checks_run", []) if c["check"] != r["check"]] + [v]
            json.dump(meta, open(mp, "w"), indent=1)
        print(len(rows), "verdicts merged")
        return 0
    if mode == "merge-refactor":
        rows = [json.loads(l) for l in open(outp)]
        notes = {}
        np_ = os.path.join(VERIF, "seeded", "refactorings", "NOTES.md")
        if os.path.exists(np_):
            for l in open(np_):
                m = re.match(r"(r\d\d) \| ([^|]*)\| ([^|]*)\| (.*)", l)
                if m:
                    notes[m.group(1)] = (m.group(2).strip(), m.group(3).strip(), m.group(4).strip())
        by = {}
        for r in rows:
            by.setdefault(r["id"], []).append(r)
        with open(os.path.join(VERIF, "seeded", "REFACTORINGS.md"), "w") as f:
            f.write("# Behaviour-preserving refactorings against every check (false-alarm test)\n\n"
                    "Sixteen refactorings written by an independent sub-agent (`seeded/refactorings/rNN.diff`, described in `NOTES.md` there): each keeps every observable behaviour, compiles and passes the 488 tests. "
                    "Every quick check was run against every one of them on private copies (`tools/sweep.py refactor`). A VIOLATION here is an alarm on code where the property holds; "
                    "`no-failing-input-found` alarms are the expected cost of a tie that a rewrite breaks (the brief allows them, DESIGN §9.5 lists which ties are that brittle), a concrete counterexample would be a defect of the machinery.\n\n"
                    "| id | modules / files | alarms (of 18 checks) |\n|---|---|---|\n")
            for rid in sorted(by):
                al = [r for r in by[rid] if r["caught"] or "CHECK" in r["detail"]]
                txt = "none" if not al else "; ".join(f"{r['check']}: " + ("CONCRETE " if r["concrete"] else ("no-failing-input-found " if r["caught"] else "")) + r["detail"][:260].replace("|", "/").replace("\n", " ") for r in al)
                n = notes.get(rid, ("", "", ""))
                f.write(f"| {rid} | {n[0]} {n[1]} | {txt} |\n")
        print("written")
        return 0
    tasks = queue.Queue()
    if mode == "mutants":
        ids = rest or sorted(os.path.basename(os.path.dirname(p)) for p in glob.glob(VERIF + "/seeded/*/meta.json"))
        for i in ids:
            meta = json.load(open(os.path.join(VERIF, "seeded", i, "meta.json")))
            for prop in [meta["property"]] + EXTRA.get(i, []):
                tasks.put(("mutant", i, os.path.join(VERIF, "seeded", i, "patch.diff"), prop))
    else:
        rdir = os.environ.get("SWEEP_REFDIR", "refactorings")
        ids = rest or sorted(os.path.basename(p)[:-5] for p in glob.glob(VERIF + "/seeded/" + rdir + "/*.diff"))
        for i in ids:
            for k in range(1, 19):
                tasks.put(("refactor", i, os.path.join(VERIF, "seeded", rdir, i + ".diff"), "C%02d" % k))
    lock = threading.Lock()

    def worker(w):
        d = setup_worker(w)
        while True:
            try:
                kind, i, patch, prop = tasks.get_nowait()
            except queue.Empty:
                return
            r = run_task(d, patch, prop)
            r.update(kind=kind, id=i)
            with lock:
                with open(outp, "a") as f:
                    f.write(json.dumps(r) + "\n")
                print(kind, i, prop, "caught" if r["caught"] else "-", "concrete" if r["concrete"] else "", r["seconds"], r["detail"][:160], flush=True)

    ths = [threading.Thread(target=worker, args=(w,)) for w in range(workers)]
    for t in ths:
        t.start()
    for t in ths:
        t.join()
    for w in range(workers):
        sh(["git", "-C", "/repo", "worktree", "remove", "--force", os.path.join(ROOT, f"w{w}", "repo")])
        shutil.rmtree(os.path.join(ROOT, f"w{w}"), ignore_errors=True)
    print("DONE")
    return 0


if __name__ == "__main__":
    sys.exit(main())

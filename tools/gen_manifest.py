#!/usr/bin/env python3
"""Regenerate /verif/MANIFEST.json from tools/propcfg.py (claimed checks) and properties.jsonl."""
import json, os, sys
sys.path.insert(0, os.path.dirname(os.path.abspath(__file__)))
from propcfg import PROPS, NOT_APPLICABLE

VERIF = os.path.dirname(os.path.dirname(os.path.abspath(__file__)))
ids = [json.loads(l)["id"] for l in open(os.path.join(VERIF, "properties.jsonl"))]
checks = []
for pid in ids:
    if pid not in PROPS or not PROPS[pid].get("registered", True):
        continue
    c = PROPS[pid]
    checks.append({
        "property_id": pid,
        "quick_cmd": f"./check {pid} --tier quick",
        "thorough_cmd": f"./check {pid} --tier thorough",
        "evidence_file": f"/verif/evidence/{pid}.json",
        "replay_cmd_template": "./check replay {path}",
        "engine": "lean4-proof+correspondence",
        "level_claimed": {"category": "proof", "text": c["level_text"], "design_ref": c.get("design_ref", "DESIGN.md §4 " + pid)},
        "level_note": c["level_note"],
        "technique": c.get("technique", "Lean 4 theorems over an executable model; model tied to the source by regeneration (go/extract → Sqroot/Gen) and by a differential correspondence check"),
    })
claimed = {c["property_id"] for c in checks}
na = []
for pid in ids:
    if pid not in claimed:
        na.append({"property_id": pid, "reason": NOT_APPLICABLE.get(pid, "check under construction in this session (not yet registered); planned theorem in DESIGN.md §4")})
m = {
    "version": 1,
    "setup_cmd": "./check setup",
    "hooks": {
        "guard": "verif",
        "enable": "go build -tags verif (harness module /verif/go/harness replaces the three sqroot modules by /repo, /repo/v2, /repo/v3)",
        "baseline_off_cmd": "for m in . ./v2 ./v3; do (cd /repo/$m && GOFLAGS=-mod=mod go test -vet=off -count=1 ./...) || exit 1; done",
        "source_commits": ["4610e3c"],
        "add_only": True,
    },
    "engines": [
        {"name": "lean4-proof+correspondence", "path": "/verif/lean", "serves_properties": sorted(claimed),
         "kind_free_text": "Lean 4.33 lake project Sqroot: Gen (regenerated from /repo by go/extract), Model, Spec, Proofs, Props; compiled drivers specdriver/modeldriver; Go harness go/harness linking v1+v2+v3"},
    ],
    "checks": checks,
    "notes": "All checks are ./check <id>; see DESIGN.md. known_findings.json lists the repaired C12 defect (fixed: entry, suppresses nothing).",
    "not_applicable": na,
}
json.dump(m, open(os.path.join(VERIF, "MANIFEST.json"), "w"), indent=1)
print("claimed:", sorted(claimed))

#!/bin/bash
# usage: seed_batch.sh <round-prefix e.g. r4> <property>...  — confirm the changes delivered in /tmp/mut/<round>-<prop>-out
# (m1, m2) and run the property's quick check against each; prints one verdict line per change
rnd="$1"; shift
for p in "$@"; do
  for k in m1 m2 m3; do
    [ -f /tmp/mut/$rnd-$p-out/$k.diff ] || continue
    id=$rnd-$p-$k
    if [ ! -d /verif/seeded/$id ]; then
      python3 /verif/tools/seed_round.py confirm /tmp/mut/$rnd-$p-out $k $id $p 2>&1 | tail -2 | cut -c1-300
    fi
    [ -d /verif/seeded/$id ] && python3 /verif/tools/seed_round.py check $id $p 2>&1 | tail -1 | cut -c1-600
  done
done

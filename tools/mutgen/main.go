// mutgen — systematic first-order mutations of keep94/sqroot's non-test sources (development aid,
// not part of any registered check): used to find gaps in the generators of /verif's correspondence
// checks. Usage: mutgen <module-dir> <out-dir>; writes <out>/<id>/<file> (the mutated file) and
// <out>/<id>/desc.txt for every mutation point.
package main

import (
	"fmt"
	"go/ast"
	"go/parser"
	"go/token"
	"os"
	"path/filepath"
	"strconv"
	"strings"
)

type edit struct {
	from, to int // byte offsets
	repl     string
	desc     string
}

var binSwap = map[token.Token][]string{
	token.LSS:  {"<="},
	token.LEQ:  {"<"},
	token.GTR:  {">="},
	token.GEQ:  {">"},
	token.EQL:  {"!="},
	token.NEQ:  {"=="},
	token.ADD:  {"-"},
	token.SUB:  {"+"},
	token.LAND: {"||"},
	token.LOR:  {"&&"},
	token.MUL:  {"+"},
	token.QUO:  {"*"},
	token.REM:  {"/"},
}

func main() {
	dir, out := os.Args[1], os.Args[2]
	files, _ := filepath.Glob(filepath.Join(dir, "*.go"))
	n := 0
	for _, f := range files {
		base := filepath.Base(f)
		if strings.HasSuffix(base, "_test.go") || strings.HasPrefix(base, "verif_") {
			continue
		}
		src, err := os.ReadFile(f)
		if err != nil {
			panic(err)
		}
		fset := token.NewFileSet()
		af, err := parser.ParseFile(fset, f, src, parser.ParseComments)
		if err != nil {
			panic(err)
		}
		off := func(p token.Pos) int { return fset.Position(p).Offset }
		var edits []edit
		add := func(from, to token.Pos, repl, desc string) {
			edits = append(edits, edit{off(from), off(to), repl,
				fmt.Sprintf("%s:%d %s", base, fset.Position(from).Line, desc)})
		}
		ast.Inspect(af, func(nd ast.Node) bool {
			switch x := nd.(type) {
			case *ast.BinaryExpr:
				for _, r := range binSwap[x.Op] {
					// skip string concatenation
					add(x.OpPos, x.OpPos+token.Pos(len(x.Op.String())), r, fmt.Sprintf("binop %s -> %s", x.Op, r))
				}
			case *ast.BasicLit:
				if x.Kind == token.INT {
					v, err := strconv.ParseInt(x.Value, 0, 64)
					if err == nil {
						add(x.Pos(), x.End(), strconv.FormatInt(v+1, 10), fmt.Sprintf("int %d -> %d", v, v+1))
						if v > 0 {
							add(x.Pos(), x.End(), strconv.FormatInt(v-1, 10), fmt.Sprintf("int %d -> %d", v, v-1))
						}
					}
				}
			case *ast.UnaryExpr:
				if x.Op == token.NOT {
					add(x.OpPos, x.OpPos+1, "", "drop !")
				}
			case *ast.IncDecStmt:
				if x.Tok == token.INC {
					add(x.TokPos, x.TokPos+2, "--", "++ -> --")
				} else {
					add(x.TokPos, x.TokPos+2, "++", "-- -> ++")
				}
			case *ast.AssignStmt:
				switch x.Tok {
				case token.ADD_ASSIGN:
					add(x.TokPos, x.TokPos+2, "-=", "+= -> -=")
				case token.SUB_ASSIGN:
					add(x.TokPos, x.TokPos+2, "+=", "-= -> +=")
				}
			case *ast.BlockStmt:
				for _, st := range x.List {
					switch s := st.(type) {
					case *ast.ExprStmt:
						add(s.Pos(), s.End(), "", "delete call statement")
					case *ast.AssignStmt:
						if s.Tok != token.DEFINE {
							add(s.Pos(), s.End(), "", "delete assignment")
						}
					case *ast.IncDecStmt:
						add(s.Pos(), s.End(), "", "delete inc/dec")
					case *ast.BranchStmt:
						if s.Tok == token.BREAK || s.Tok == token.CONTINUE {
							add(s.Pos(), s.End(), "", "delete "+s.Tok.String())
						}
					case *ast.DeferStmt:
						add(s.Pos(), s.End(), "", "delete defer")
					case *ast.GoStmt:
					case *ast.IfStmt:
						if s.Else == nil && s.Init == nil {
							add(s.Pos(), s.End(), "", "delete if statement")
							// condition forced true: keep body only
							add(s.Pos(), s.Body.Lbrace, "", "if condition -> true")
						}
					case *ast.ReturnStmt:
						if len(s.Results) == 0 {
							add(s.Pos(), s.End(), "", "delete bare return")
						}
					}
				}
			case *ast.ForStmt:
				if x.Cond != nil {
					if be, ok := x.Cond.(*ast.BinaryExpr); ok && be.Op == token.LAND {
						add(be.X.Pos(), be.Y.Pos(), "", "for cond: drop left conjunct")
						add(be.X.End(), be.Y.End(), "", "for cond: drop right conjunct")
					}
				}
			case *ast.IfStmt:
				if be, ok := x.Cond.(*ast.BinaryExpr); ok && (be.Op == token.LAND || be.Op == token.LOR) {
					add(be.X.Pos(), be.Y.Pos(), "", "if cond: drop left operand")
					add(be.X.End(), be.Y.End(), "", "if cond: drop right operand")
				}
			case *ast.SliceExpr:
				if x.Low != nil {
					add(x.Low.End(), x.Low.End(), "+1", "slice low +1")
				}
				if x.High != nil {
					add(x.High.End(), x.High.End(), "-1", "slice high -1")
					add(x.High.End(), x.High.End(), "+1", "slice high +1")
				}
			}
			return true
		})
		for _, e := range edits {
			n++
			id := fmt.Sprintf("%04d", n)
			d := filepath.Join(out, id)
			os.MkdirAll(d, 0o755)
			mut := string(src[:e.from]) + e.repl + string(src[e.to:])
			os.WriteFile(filepath.Join(d, base), []byte(mut), 0o644)
			os.WriteFile(filepath.Join(d, "desc.txt"), []byte(e.desc+"\n"), 0o644)
		}
	}
	fmt.Println(n, "mutants")
}

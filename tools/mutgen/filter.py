#!/usr/bin/env python3
"""filter.py <v1|v2|v3> <workers> — keeps the mutants of /tmp/mutsys/<v> that compile, vet and pass the
module's own test suite (survivors of the existing tests); writes /tmp/mutsys/<v>/survivors.txt and a
patch.diff (relative to the repository root) into each surviving mutant's directory."""
import os, subprocess, sys, shutil, glob
from concurrent.futures import ThreadPoolExecutor
import threading, queue

v, workers = sys.argv[1], int(sys.argv[2])
root = "/tmp/mutsys"
sub = "" if v == "v1" else v
env = dict(os.environ, GOFLAGS="-mod=mod", GOPROXY="off", GOSUMDB="off", GOTOOLCHAIN="local")
pool = queue.Queue()
for k in range(workers):
    w = f"{root}/w_{v}_{k}"
    shutil.rmtree(w, ignore_errors=True)
    subprocess.run(["rsync", "-a", "--exclude", ".git", "/repo/", w + "/"], check=True)
    pool.put(w)

def run(mdir):
    mid = os.path.basename(mdir)
    f = [x for x in os.listdir(mdir) if x.endswith(".go")][0]
    w = pool.get()
    try:
        target = os.path.join(w, sub, f)
        orig = os.path.join("/repo", sub, f)
        shutil.copy(os.path.join(mdir, f), target)
        cwd = os.path.join(w, sub)
        try:
            r = subprocess.run(["go", "build", "./..."], cwd=cwd, env=env, capture_output=True, timeout=120)
            if r.returncode != 0:
                return mid, "nocompile"
            r = subprocess.run(["go", "test", "-count=1", "-timeout", "60s", "./..."], cwd=cwd, env=env,
                               capture_output=True, timeout=150)
            if r.returncode != 0:
                return mid, "killed"
        except subprocess.TimeoutExpired:
            return mid, "killed-timeout"
        rel = os.path.join(sub, f)
        d = subprocess.run(["diff", "-u", "--label", "a/" + rel, "--label", "b/" + rel, orig, target],
                           capture_output=True, text=True).stdout
        open(os.path.join(mdir, "patch.diff"), "w").write(d)
        return mid, "survived"
    finally:
        shutil.copy(os.path.join("/repo", sub, f), os.path.join(w, sub, f))
        pool.put(w)

mdirs = sorted(d for d in glob.glob(f"{root}/{v}/[0-9]*") if os.path.isdir(d))
res = {}
with ThreadPoolExecutor(workers) as ex:
    for mid, st in ex.map(run, mdirs):
        res[mid] = st
with open(f"{root}/{v}/survivors.txt", "w") as out:
    for mid, st in sorted(res.items()):
        if st == "survived":
            out.write(mid + " " + open(f"{root}/{v}/{mid}/desc.txt").read())
from collections import Counter
print(v, Counter(res.values()))
for k in range(workers):
    shutil.rmtree(f"{root}/w_{v}_{k}", ignore_errors=True)

#!/usr/bin/env python3
"""Run every check (quick) against behaviour-preserving changes: any VIOLATION here is an alarm on code
where the properties hold. usage: run_refactors.py <dir with rNN.diff> <out.md> [props...]"""
import glob, os, re, subprocess, sys, time, json
d, outp = sys.argv[1], sys.argv[2]
props = [a for a in sys.argv[3:] if re.fullmatch(r"C\d\d", a)] or ["C%02d" % i for i in range(1, 19)]
only = [a for a in sys.argv[3:] if re.fullmatch(r"r\d\d", a)]          # restrict to these refactorings (sharding)
VERIF_DIR = os.environ.get("SWEEP_VERIF", "/verif")                      # a private copy of /verif ...
REPO_DIR = os.environ.get("SWEEP_REPO", "/repo")                         # ... and a private worktree of /repo
env = dict(os.environ, VERIF_EVIDENCE_DIR="/tmp/verif-mutant-evidence-" + str(os.getpid()), VERIF_REPO=REPO_DIR)
rows = []
for diff in sorted(glob.glob(os.path.join(d, "r*.diff"))):
    name = os.path.basename(diff)[:-5]
    if only and name not in only:
        continue
    if subprocess.run("git -C " + REPO_DIR + " status --porcelain", shell=True, capture_output=True, text=True).stdout.strip():
        print("REPO NOT CLEAN"); sys.exit(2)
    if subprocess.run(["git", "-C", REPO_DIR, "apply", diff]).returncode != 0:
        rows.append((name, "does not apply", "")); continue
    try:
        res = []
        for p in props:
            t0 = time.time()
            r = subprocess.run(["./check", p, "--tier", "quick"], cwd=VERIF_DIR, env=env, capture_output=True, text=True)
            vio = [l for l in r.stdout.splitlines() if l.startswith("VIOLATION")]
            if vio:
                kind = "no-failing-input" if "no-failing-input-found" in vio[0] else "CONCRETE"
                detail = ""
                m = re.search(r"replay=(\S+)", vio[0])
                if m and os.path.exists(m.group(1)):
                    pl = json.load(open(m.group(1)))
                    detail = (pl.get("failing_case", "")[:200] + " :: " + pl.get("spec_verdict", "")[:200]) if pl.get("failing_case") else json.dumps(pl.get("broken", ""))[:500]
                res.append(f"{p}:{kind} ({detail})")
            print(name, p, "ALARM" if vio else "ok", int(time.time() - t0), flush=True)
        rows.append((name, "; ".join(res) if res else "no alarm", ""))
    finally:
        subprocess.run("git -C " + REPO_DIR + " checkout -- . && git -C " + REPO_DIR + " clean -fdq", shell=True)
with open(outp, "w") as f:
    for r in rows:
        f.write(f"| {r[0]} | {r[1]} |\n")
print(open(outp).read())

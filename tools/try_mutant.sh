#!/bin/bash
# usage: try_mutant.sh <patch.diff> <property> [tier]  — applies the patch to /repo, runs the check, ALWAYS reverts
patch="$1"; prop="$2"; tier="${3:-quick}"
export VERIF_EVIDENCE_DIR=/tmp/verif-mutant-evidence
patch="$(realpath "$patch")"
cd /repo || exit 2
if [ -n "$(git status --porcelain)" ]; then echo "REPO NOT CLEAN"; git status --short; exit 2; fi
git apply "$patch" || { echo "PATCH DOES NOT APPLY"; exit 2; }
trap 'git -C /repo checkout -- . ; git -C /repo clean -fdq' EXIT
cd /verif && timeout 1500 ./check "$prop" --tier "$tier" 2>&1 | tail -4
echo "exit=${PIPESTATUS[0]}"

/-
Specification of C11: a Positions value is the normal form of a set of non-negative integers.
Core only; imports neither Gen nor Model.
-/
namespace Sqroot.Spec

/-- (start, stop) pairs: non-empty, strictly increasing, pairwise disjoint and non-adjacent -/
def NormalRanges : List (Int × Int) → Prop
  | [] => True
  | [(s, e)] => 0 ≤ s ∧ s < e
  | (s, e) :: (s', e') :: rest => 0 ≤ s ∧ s < e ∧ e < s' ∧ NormalRanges ((s', e') :: rest)

instance : (l : List (Int × Int)) → Decidable (NormalRanges l)
  | [] => isTrue trivial
  | [(s, e)] => by unfold NormalRanges; exact inferInstance
  | (s, e) :: (s', e') :: rest =>
    have : Decidable (NormalRanges ((s', e') :: rest)) := instDecidableNormalRanges _
    by unfold NormalRanges; exact inferInstance

def memRanges (l : List (Int × Int)) (x : Int) : Prop := ∃ r ∈ l, r.1 ≤ x ∧ x < r.2

/-- a builder call as the spec sees it: `add p` / `addRange s e` over mathematical integers.
`add p` contributes `p` (the implementation cannot represent position MaxInt: documented exception). -/
inductive Call
  | add (p : Int)
  | addRange (s e : Int)
deriving Repr, DecidableEq

def maxInt : Int := 9223372036854775807

def Call.covers : Call → Int → Prop
  | .add p, x => x = p ∧ p ≠ maxInt
  | .addRange s e, x => s ≤ x ∧ x < e

def memCalls (cs : List Call) (x : Int) : Prop := 0 ≤ x ∧ ∃ c ∈ cs, c.covers x

/-- executable version used by the oracle: is `x` covered by the calls? -/
def Call.coversB : Call → Int → Bool
  | .add p, x => x == p && p != maxInt
  | .addRange s e, x => decide (s ≤ x) && decide (x < e)

def memCallsB (cs : List Call) (x : Int) : Bool := decide (0 ≤ x) && cs.any (·.coversB x)

def memRangesB (l : List (Int × Int)) (x : Int) : Bool := l.any fun r => decide (r.1 ≤ x) && decide (x < r.2)

end Sqroot.Spec

/-
Specification of C04/C07/C17: a view is an interval of positions over the parent's digit string.
Core only; imports neither Gen nor Model.
-/
namespace Sqroot.Spec

inductive VOp
  | withStart (s : Int)
  | withEnd (e : Int)
  | withSig (k : Int)
  | finiteWithStart (s : Int)
deriving Repr, DecidableEq

/-- window of positions `[lo, hi)`; `hi = none` is "no upper bound" -/
structure Win where
  lo : Int := 0
  hi : Option Int := none
deriving Repr, DecidableEq

def minOpt (a : Option Int) (b : Int) : Option Int :=
  match a with
  | none => some b
  | some x => some (min x b)

def Win.apply (w : Win) : VOp → Win
  | .withStart s | .finiteWithStart s => { w with lo := max w.lo s }
  | .withEnd e | .withSig e => { w with hi := minOpt w.hi e }

/-- max(0, all starts) ≤ p < min(all ends) -/
def winOf (chain : List VOp) : Win := chain.foldl Win.apply {}

/-- exclusive upper bound on positions actually present: min(hi, |D|), `none` if unbounded -/
def upper (len : Option Nat) (w : Win) : Option Int :=
  match w.hi, len with
  | none, none => none
  | some h, none => some h
  | none, some L => some (L : Int)
  | some h, some L => some (min h (L : Int))

/-- the first `take` pairs (p, D[p]) for max(0, lo) ≤ p < min(hi, |D|), ascending -/
def windowList (len : Option Nat) (digit : Nat → Nat) (w : Win) (take : Nat) : List (Nat × Nat) :=
  let lo := (max w.lo 0).toNat
  let cnt := match upper len w with
    | none => take
    | some u => min take (u - (lo : Int)).toNat
  (List.range' lo cnt).map fun p => (p, digit p)

/-- number of positions in the window when it is finite -/
def windowSize (len : Option Nat) (w : Win) : Option Nat :=
  (upper len w).map fun u => (u - max w.lo 0).toNat

/-- C17: bounded by construction. `baseFinite` = the base constructor returns a `*FiniteNumber`
(zero number, NewFiniteNumber, NewNumberForTesting without repeating digits). -/
def boundedStep (b : Bool) : VOp → Bool
  | .withStart _ => b          -- WithStart applied to a bounded value stays bounded, otherwise not
  | _ => true                  -- result of WithEnd, WithSignificant, FiniteWithStart

def boundedByConstruction (baseFinite : Bool) (chain : List VOp) : Bool :=
  chain.foldl boundedStep baseFinite

end Sqroot.Spec

namespace Sqroot.Spec

/-- C10: the requested positions that exist in the sequence, ascending: for each range
`[s, e)` of a normalised Positions value, the part of the view's window inside it -/
def shownOf (len : Option Nat) (digit : Nat → Nat) (w : Win) (ranges : List (Int × Int)) : List (Nat × Nat) :=
  ranges.flatMap fun (s, e) =>
    windowList len digit { lo := max w.lo s, hi := minOpt w.hi e } ((e - s).toNat + 1)

end Sqroot.Spec

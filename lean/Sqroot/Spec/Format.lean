/-
Specification of C08: what text a format directive denotes. Declarative (no state machine):
which digits are taken, how they are padded, where the point goes. Core only.
-/
namespace Sqroot.Spec

def zeros (n : Nat) : String := String.mk (List.replicate n '0')
def spaces (n : Nat) : String := String.mk (List.replicate n ' ')
def digitsString (ds : List Nat) : String := String.mk (ds.map fun d => Char.ofNat (48 + d))

/-- the documented rule: significant digits requested, whether exactly that many digits are shown
(zero padded), scientific form, capital E. `none` for an unsupported verb. -/
def formatRule (verb : Nat) (prec : Option Nat) (e : Int) : Option (Int × Bool × Bool × Bool) :=
  let g := fun (capital : Bool) =>
    let s : Int := if prec.getD 16 = 0 then 1 else prec.getD 16
    some (s, false, decide (s < e ∨ e < -3 ∨ e > 6), capital)
  if verb = 'f'.toNat ∨ verb = 'F'.toNat then some ((prec.getD 6 : Int) + e, true, false, false)
  else if verb = 'e'.toNat then some ((prec.getD 6 : Int), true, true, false)
  else if verb = 'E'.toNat then some ((prec.getD 6 : Int), true, true, true)
  else if verb = 'g'.toNat ∨ verb = 'v'.toNat then g false
  else if verb = 'G'.toNat then g true
  else none

/-- positional rendering of the value `0.D × 10^e` truncated to `s` significant digits
(`s ≥ e`): the digits kept are `D.take s`, never rounded; `exact` pads with zeros to exactly `s`
significant digits, otherwise only the integer part is completed. -/
def renderFixed (s e : Int) (exact : Bool) (D : List Nat) : String :=
  let ds := D.take s.toNat
  let n := ds.length
  let T : Nat := if exact then s.toNat else max n e.toNat
  let P := digitsString ds ++ zeros (T - n)
  if T = 0 then
    let count := if exact then s - e else -e
    if count ≤ 0 then "0" else "0." ++ zeros count.toNat
  else if e ≤ 0 then "0." ++ zeros (-e).toNat ++ P
  else if T > e.toNat then String.mk (P.toList.take e.toNat) ++ "." ++ String.mk (P.toList.drop e.toNat)
  else P

/-- sign and at least two digits -/
def expString (e : Int) : String :=
  (if e < 0 then "-" else "+") ++ (if e.natAbs < 10 then "0" else "") ++ toString e.natAbs

def renderNumber (s : Int) (exact sci capital : Bool) (e : Int) (D : List Nat) : String :=
  if sci then renderFixed s 0 exact D ++ (if capital then "E" else "e") ++ expString e
  else renderFixed s e exact D

def pad (field : String) (width : Option Nat) (minus : Bool) : String :=
  match width with
  | none => field
  | some w => if minus then field ++ spaces (w - field.length) else spaces (w - field.length) ++ field

/-- `String()` is `%g` -/
def renderString (e : Int) (D : List Nat) : String :=
  match formatRule 'g'.toNat none e with
  | some (s, ex, sci, cap) => renderNumber s ex sci cap e D
  | none => ""

/-- the text `Format` must produce for a directive -/
def render (verb : Nat) (prec : Option Nat) (width : Option Nat) (minus : Bool) (e : Int) (D : List Nat) : String :=
  match formatRule verb prec e with
  | some (s, ex, sci, cap) => pad (renderNumber s ex sci cap e D) width minus
  | none => "%!" ++ String.singleton (Char.ofNat verb) ++ "(number=" ++ renderString e D ++ ")"

/-- v3 `Exact()`: all digits of a finite number, `%g` shape -/
def renderExact (e : Int) (D : List Nat) : String :=
  renderNumber 9223372036854775807 false (decide (e < -3 ∨ e > 6)) false e D

/-- value spelled by a digit list -/
def ofDigitList (ds : List Nat) : Nat := ds.foldl (fun a d => 10 * a + d) 0

/-- parse positional text `ddd` or `ddd.ddd`: (integer spelled by all digits, number of digits
after the point) -/
def parsePositional (t : String) : Option (Nat × Nat) :=
  match t.splitOn "." with
  | [a] => if a.all Char.isDigit ∧ a ≠ "" then some (a.toNat!, 0) else none
  | [a, b] => if a.all Char.isDigit ∧ b.all Char.isDigit ∧ a ≠ "" then some ((a ++ b).toNat!, b.length) else none
  | _ => none

end Sqroot.Spec

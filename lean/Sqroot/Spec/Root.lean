/-
Specification of C01/C02/C03/C13 (root / rational digits), independent of model and code:
pure integer inequalities, no root extraction. Core Lean only; imports neither Gen nor Model.
-/
namespace Sqroot.Spec

/-- value spelled by a digit list, most significant first -/
def ofDigits (ds : List Nat) : Nat := ds.foldl (fun a d => 10 * a + d) 0

/-- `M^n · 10^(n(e−k)) ≤ num/den < (M+1)^n · 10^(n(e−k))`, cross-multiplied so that it is a
statement about natural numbers whatever the sign of `e − k`. -/
def TruncRoot (n num den M : Nat) (e : Int) (k : Nat) : Prop :=
  M ^ n * 10 ^ (n * (e - k).toNat) * den ≤ num * 10 ^ (n * ((k : Int) - e).toNat) ∧
  num * 10 ^ (n * ((k : Int) - e).toNat) < (M + 1) ^ n * 10 ^ (n * (e - k).toNat) * den

instance (n num den M : Nat) (e : Int) (k : Nat) : Decidable (TruncRoot n num den M e k) := by
  unfold TruncRoot; exact inferInstance

/-- `M^n · 10^(n(e−k)) = num/den` exactly -/
def ExactRoot (n num den M : Nat) (e : Int) (k : Nat) : Prop :=
  M ^ n * 10 ^ (n * (e - k).toNat) * den = num * 10 ^ (n * ((k : Int) - e).toNat)

instance (n num den M : Nat) (e : Int) (k : Nat) : Decidable (ExactRoot n num den M e k) := by
  unfold ExactRoot; exact inferInstance

/-- digits are decimal digits and the first is non-zero -/
def DigitsOk (ds : List Nat) : Prop := (∀ d ∈ ds, d ≤ 9) ∧ (∀ d, ds.head? = some d → 1 ≤ d)

instance (ds : List Nat) : Decidable (DigitsOk ds) := by
  unfold DigitsOk
  cases ds <;> simp <;> exact inferInstance

/-- C13 rational: `10^(e-1) ≤ num/den < 10^e`, and the first `k` digits spell `⌊(num/den)·10^(k−e)⌋`
(this is `TruncRoot` with n = 1). -/
def TruncRat (num den M : Nat) (e : Int) (k : Nat) : Prop := TruncRoot 1 num den M e k

instance (num den M : Nat) (e : Int) (k : Nat) : Decidable (TruncRat num den M e k) := by
  unfold TruncRat; exact inferInstance

end Sqroot.Spec

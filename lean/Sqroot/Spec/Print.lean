/-
Specification of C10: the canonical layout of a digit table, defined cell by cell from the
options alone (no simulation of the printer). Core only.
-/
namespace Sqroot.Spec

structure POpts where
  digitsPerRow : Int
  digitsPerColumn : Int
  /-- text before position 0 -/
  zeroString : String
  /-- rows are labelled with their first position, right-aligned in `width`, then two spaces -/
  countOn : Bool
  width : Nat
  /-- row prefix when rows are not labelled -/
  nonZeroString : String
  missing : Int
  trailingLineFeed : Bool
deriving Repr

def utf8 (s : String) : List Nat := s.toUTF8.toList.map (·.toNat)

def encodeRune (r : Int) : List Nat :=
  if r < 0 ∨ r > 0x10FFFF ∨ (0xD800 ≤ r ∧ r ≤ 0xDFFF) then [0xEF, 0xBF, 0xBD]
  else
    let c := r.toNat
    if c < 0x80 then [c]
    else if c < 0x800 then [0xC0 + c / 64, 0x80 + c % 64]
    else if c < 0x10000 then [0xE0 + c / 4096, 0x80 + (c / 64) % 64, 0x80 + c % 64]
    else [0xF0 + c / 262144, 0x80 + (c / 4096) % 64, 0x80 + (c / 64) % 64, 0x80 + c % 64]

def padLeft (width : Nat) (s : String) : String :=
  String.mk (List.replicate (width - s.length) ' ') ++ s

def rowOf (o : POpts) (q : Nat) : Nat := if o.digitsPerRow > 0 then q / o.digitsPerRow.toNat else 0
def colOf (o : POpts) (q : Nat) : Nat := if o.digitsPerRow > 0 then q % o.digitsPerRow.toNat else q

/-- which positions get a cell: everything up to the last shown position; when rows are labelled,
only positions in rows that contain a shown position (such rows are complete up to their end,
the last one up to the last shown position) -/
def cells (o : POpts) (shown : List (Nat × Nat)) : List Nat :=
  match shown.getLast? with
  | none => []
  | some (last, _) =>
    (List.range (last + 1)).filter fun q =>
      !(o.countOn && decide (o.digitsPerRow > 0)) || shown.any fun (p, _) => rowOf o p == rowOf o q

/-- text of one cell: what precedes the rune (row start, column gap, nothing) and the rune -/
def cellBytes (o : POpts) (shown : List (Nat × Nat)) (first : Bool) (q : Nat) : List Nat :=
  let pre : List Nat :=
    if q = 0 then utf8 o.zeroString
    else if o.digitsPerRow > 0 ∧ q % o.digitsPerRow.toNat = 0 then
      (if first then [] else [10]) ++
        (if o.countOn then utf8 (padLeft o.width (toString q) ++ "  ") else utf8 o.nonZeroString)
    else if o.digitsPerColumn > 0 ∧ colOf o q % o.digitsPerColumn.toNat = 0 then [32]
    else []
  let rune : List Nat :=
    match shown.find? (fun (p, _) => p == q) with
    | some (_, d) => [48 + d]
    | none => encodeRune o.missing
  pre ++ rune

def layoutCells (o : POpts) (shown : List (Nat × Nat)) : List Nat → Bool → List Nat
  | [], _ => []
  | q :: rest, first => cellBytes o shown first q ++ layoutCells o shown rest false

/-- the canonical layout, as bytes -/
def layout (o : POpts) (shown : List (Nat × Nat)) : List Nat :=
  layoutCells o shown (cells o shown) true ++ (if o.trailingLineFeed then [10] else [])

/-- label width: number of decimal digits of the first position of the last row -/
def labelWidth (digitsPerRow : Int) (showCount : Bool) (maxDigits : Int) : Nat :=
  if !showCount ∨ digitsPerRow ≤ 0 ∨ maxDigits ≤ digitsPerRow then 0
  else (toString (((maxDigits - 1) / digitsPerRow) * digitsPerRow)).length

/-- the options as the user states them, resolved to `POpts` (row starters as documented) -/
def resolve (digitsPerRow digitsPerColumn : Int) (showCount : Bool) (missing : Int)
    (trailingLineFeed leadingDecimal : Bool) (maxDigits : Int) : POpts :=
  let w := labelWidth digitsPerRow showCount maxDigits
  if w = 0 then
    if leadingDecimal then ⟨digitsPerRow, digitsPerColumn, "0.", false, 0, "  ", missing, trailingLineFeed⟩
    else if showCount then ⟨digitsPerRow, digitsPerColumn, "0  ", false, 0, "   ", missing, trailingLineFeed⟩
    else ⟨digitsPerRow, digitsPerColumn, "", false, 0, "", missing, trailingLineFeed⟩
  else if leadingDecimal then
    ⟨digitsPerRow, digitsPerColumn, String.mk (List.replicate w ' ') ++ "0.", true, w, "", missing, trailingLineFeed⟩
  else
    ⟨digitsPerRow, digitsPerColumn, String.mk (List.replicate (w - 1) ' ') ++ "0  ", true, w, "", missing, trailingLineFeed⟩

end Sqroot.Spec

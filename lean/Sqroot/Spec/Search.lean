/-
Specification of C09: occurrences of a pattern in a text, by definition. Core only.
-/
namespace Sqroot.Spec

/-- `p` occurs in `T` at offset `i` wholly inside `T` -/
def occursAt (p T : List Int) (i : Nat) : Bool := i + p.length ≤ T.length && (T.drop i).take p.length == p

/-- all offsets at which `p` occurs in `T`, ascending (overlaps included) -/
def occurrences (p T : List Int) : List Nat :=
  (List.range (T.length + 1)).filter (occursAt p T)

end Sqroot.Spec

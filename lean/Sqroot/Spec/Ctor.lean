/-
Specification of C13 (test numbers and generator-backed numbers). Core only.
-/
namespace Sqroot.Spec

def isDigit (d : Int) : Bool := decide (0 ≤ d ∧ d ≤ 9)

/-- the digit string "fixed followed by repeating for ever" -/
def fixedThenRepeating (fixed rep : List Int) (p : Nat) : Option Int :=
  if p < fixed.length then fixed[p]?
  else if rep.length = 0 then none
  else rep[(p - fixed.length) % rep.length]?

inductive TestOutcome
  | zero
  | error
  | number (finite : Bool)
deriving DecidableEq, Repr

/-- error exactly when some digit is outside 0–9 or the first digit would be 0; the zero number
when both lists are empty -/
def testOutcome (fixed rep : List Int) : TestOutcome :=
  if fixed = [] ∧ rep = [] then .zero
  else if (fixed ++ rep).any (fun d => !isDigit d) ∨ (fixed ++ rep).head? = some 0 then .error
  else .number (rep = [])

/-- longest prefix of the stream whose values are all digits -/
def validPrefixDigit (stream : Nat → Int) (p : Nat) : Option Int :=
  if (List.range (p + 1)).all (fun j => isDigit (stream j)) then some (stream p) else none

end Sqroot.Spec

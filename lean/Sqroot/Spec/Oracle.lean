/-
An independent digit oracle for roots and rationals (used by specdriver only): digits of
`(num/den)^(1/n)` obtained from ONE integer n-th root (Newton iteration) of a scaled radicand —
no digit-by-digit extraction, nothing shared with the implementation's or the model's algorithm.
Core only.
-/
namespace Sqroot.Spec

/-- ⌊x^(1/n)⌋ by Newton iteration from above (n ≥ 1) -/
partial def irootGo (n x r : Nat) : Nat :=
  -- r ≥ ⌊root⌋; next = ((n-1) r + x / r^(n-1)) / n
  let r' := ((n - 1) * r + x / r ^ (n - 1)) / n
  if r' < r then irootGo n x r' else r

def iroot (n x : Nat) : Nat :=
  if x = 0 then 0
  else if n ≤ 1 then x
  else
    -- start above the root: 2^(⌈bits/n⌉)
    let start := 2 ^ (x.log2 / n + 1)
    irootGo n x start

/-- exponent `e` with `10^(e-1) ≤ (num/den)^(1/n) < 10^e`, i.e. `10^(n(e-1)) ≤ num/den < 10^(ne)` -/
partial def findExpUp (n num den : Nat) (e : Nat) : Nat :=
  if num < den * 10 ^ (n * e) then e else findExpUp n num den (e + 1)
partial def findExpDown (n num den : Nat) (k : Nat) : Nat :=
  -- largest k with num * 10^(n k) < den  (so value < 10^(-n k))
  if num * 10 ^ (n * (k + 1)) < den then findExpDown n num den (k + 1) else k

def rootExponent (n num den : Nat) : Int :=
  if num ≥ den then (findExpUp n num den 0 : Int)
  else -((findExpDown n num den 0 : Nat) : Int)

def natDigits (x : Nat) : List Nat := (toString x).toList.map fun c => c.toNat - 48

structure Digits where
  exp : Int
  /-- the first `K` digits (fewer if the expansion terminates earlier) -/
  ds : Array Nat
  /-- the expansion terminates within `K` digits -/
  ended : Bool

/-- first `K` digits of the n-th root of `num/den` (num, den > 0) -/
def rootDigits (n num den K : Nat) : Digits :=
  let e := rootExponent n num den
  -- X = ⌊ root · 10^(K − e) ⌋ = ⌊ iroot( num · 10^(n(K−e)) / den ) ⌋
  let sh : Int := (K : Int) - e
  let scaledNum := if sh ≥ 0 then num * 10 ^ (n * sh.toNat) else num
  let scaledDen := if sh ≥ 0 then den else den * 10 ^ (n * (-sh).toNat)
  let q := scaledNum / scaledDen
  let X := iroot n q
  let exact := X ^ n * scaledDen == scaledNum
  let ds := natDigits X
  -- X has exactly K digits (root·10^(K−e) ∈ [10^(K−1), 10^K)); pad defensively
  let ds := List.replicate (K - ds.length) 0 ++ ds
  if exact then
    let stripped := (ds.reverse.dropWhile (· == 0)).reverse
    ⟨e, stripped.toArray, true⟩
  else ⟨e, ds.toArray, false⟩

end Sqroot.Spec

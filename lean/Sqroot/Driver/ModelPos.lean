/-
Model answers for `pos` lines.
-/
import Sqroot.Driver.PosScript
import Sqroot.Model.Positions
namespace Sqroot.Driver
open Sqroot.Model

def showModelPos (rs : List PRange) : String :=
  showPosVal (rs.map fun r => (r.start, r.stop)) (positionsEnd rs)

def modelPosWalk : List PosTok → Builder → List String → Except Panic (List String)
  | [], _, acc => .ok acc.reverse
  | .add p :: ts, b, acc => do modelPosWalk ts (← b.add p) acc
  | .addRange s e :: ts, b, acc => do modelPosWalk ts (← b.addRange s e) acc
  | .build :: ts, b, acc => do
    let (r, b') ← b.build
    modelPosWalk ts b' (showModelPos r :: acc)
  | .upTo e :: ts, b, acc => do modelPosWalk ts b (showModelPos (← upTo e) :: acc)
  | .between s e :: ts, b, acc => do modelPosWalk ts b (showModelPos (← between s e) :: acc)

def modelPosResult (script : String) : String :=
  match parsePosScript script with
  | none => "unparsable"
  | some toks =>
    match modelPosWalk toks {} [] with
    | .error p => p.tag
    | .ok rs =>
      let j := if rs.isEmpty then "-" else "|".intercalate rs
      j ++ " ## " ++ j

end Sqroot.Driver

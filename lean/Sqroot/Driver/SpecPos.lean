/-
Spec oracle for `pos` lines (C11): set semantics, evaluated at all critical points.
-/
import Sqroot.Driver.PosScript
import Sqroot.Spec.Positions
namespace Sqroot.Driver
open Sqroot.Spec

/-- Both sides are finite unions of half-open intervals whose endpoints lie in `crit`; they are
equal iff their indicator functions agree on `crit` (each maximal interval of constancy starts at
a critical point). -/
def sameSetAt (rs : List (Int × Int)) (cs : List Call) (crit : List Int) : Option Int :=
  crit.find? fun x => memRangesB rs x != memCallsB cs x

def critOf (rs : List (Int × Int)) (cs : List Call) : List Int :=
  [-1, 0] ++ rs.flatMap (fun (a, b) => [a, b]) ++ cs.flatMap fun
    | .add p => [p, p + 1]
    | .addRange s e => [s, e]

def checkPosVal (what : String) (cs : List Call) (v : List (Int × Int) × Int) : Option String :=
  let (rs, e) := v
  if ¬ decide (NormalRanges rs) then some s!"FAIL {what}: ranges not normalised (non-empty, increasing, disjoint, non-adjacent): {rs}"
  else match sameSetAt rs cs (critOf rs cs) with
    | some x => some s!"FAIL {what}: position {x} is {if memRangesB rs x then "in" else "not in"} the result but {if memCallsB cs x then "was" else "was not"} added"
    | none =>
      let expectEnd := match rs.getLast? with | none => 0 | some l => l.2
      if e ≠ expectEnd then some s!"FAIL {what}: End()={e}, expected {expectEnd}" else none

/-- walk the script, pairing each Build/UpTo/Between with its recorded result -/
def specPosWalk : List PosTok → List Call → List (List (Int × Int) × Int) → Nat → Option String
  | [], _, [], _ => none
  | [], _, _ :: _, _ => some "FAIL more results than Build/UpTo/Between calls"
  | .add p :: ts, cs, rs, i => specPosWalk ts (cs ++ [.add p]) rs i
  | .addRange s e :: ts, cs, rs, i => specPosWalk ts (cs ++ [.addRange s e]) rs i
  | .build :: ts, cs, r :: rs, i =>
    match checkPosVal s!"Build #{i}" cs r with
    | some e => some e
    | none => specPosWalk ts [] rs (i + 1)      -- Build leaves the builder empty
  | .upTo e :: ts, cs, r :: rs, i =>
    match checkPosVal s!"UpTo({e}) #{i}" [.addRange 0 e] r with
    | some e => some e
    | none => specPosWalk ts cs rs (i + 1)
  | .between s e :: ts, cs, r :: rs, i =>
    match checkPosVal s!"Between({s},{e}) #{i}" [.addRange s e] r with
    | some e => some e
    | none => specPosWalk ts cs rs (i + 1)
  | _ :: _, _, [], _ => some "FAIL fewer results than Build/UpTo/Between calls"

def specPosLine (script : String) (raw : String) : String :=
  match raw.splitOn " ## " with
  | [first, again] =>
    if first ≠ again then s!"FAIL a Positions value built earlier changed after later use of the builder: first={first} later={again}"
    else match parsePosScript script, parsePosResults first with
      | some toks, some rs => (specPosWalk toks [] rs 0).getD "ok"
      | _, _ => s!"FAIL unparsable: {raw}"
  | _ => s!"FAIL implementation did not return normally: {raw}"

end Sqroot.Driver

/-
Spec oracle for `script` lines: every statement's recorded answer is checked against what the
properties say (C04, C06, C07, C08, C09, C10, C12, C13, C15, C16, C17), computed from the digit
string D of the Number by the declarative definitions in `Sqroot/Spec`. Imports Spec only.
-/
import Sqroot.Driver.Script
import Sqroot.Spec.Oracle
import Sqroot.Spec.View
import Sqroot.Spec.Format
import Sqroot.Spec.Search
import Sqroot.Spec.Print
import Sqroot.Spec.Positions
namespace Sqroot.Driver
open Sqroot.Spec

/-- the digit string of the base Number as the specification knows it -/
structure SD where
  isZero : Bool
  exp : Int
  len : Option Nat
  digit : Nat → Nat
  /-- positions below `depth` are known to the oracle (`none`: all) -/
  depth : Option Nat
  /-- generator-backed (consult counter available) -/
  counting : Bool := false
  /-- v3 NewNumber consults the first digit at construction -/
  eagerFirst : Bool := false

def oracleDepth : Nat := 3000

def sdOfRoot (n num den : Nat) : SD :=
  if num = 0 then ⟨true, 0, some 0, fun _ => 0, none, false, false⟩
  else
    let d := rootDigits n num den oracleDepth
    ⟨false, d.exp, if d.ended then some d.ds.size else none, fun p => d.ds.getD p 0,
      if d.ended then none else some oracleDepth, false, false⟩

def inRange (d : Int) : Bool := decide (0 ≤ d ∧ d ≤ 9)

/-- expected construction outcome: `some sd`, or `none` = an error must be returned -/
def sdOf (v : String) : NumDesc → Option SD
  | .zero => some ⟨true, 0, some 0, fun _ => 0, none, false, false⟩
  | .sqrt a b => some (sdOfRoot 2 a b)
  | .cube a b => some (sdOfRoot 3 a b)
  | .rat a b => some (sdOfRoot 1 a b)
  | .test f r e =>
    if f.isEmpty && r.isEmpty then some ⟨true, 0, some 0, fun _ => 0, none, false, false⟩
    else if !(f ++ r).all inRange || (f ++ r).head? = some 0 then none
    else some ⟨false, e, if r.isEmpty then some f.length else none,
      fun p => if p < f.length then (f.getD p 0).toNat else (r.getD ((p - f.length) % r.length) 0).toNat, none, false, false⟩
  | .finite f e =>
    if f.isEmpty then some ⟨true, 0, some 0, fun _ => 0, none, false, false⟩
    else if !f.all inRange || f.head? = some 0 then none
    else some ⟨false, e, some f.length, fun p => (f.getD p 0).toNat, none, false, false⟩
  | .gen l e _ first hashed =>
    -- NewNumber: the longest prefix of in-range values; zero if it is empty or starts with 0
    let firstOk := match first with | none => true | some f => decide (1 ≤ f ∧ f ≤ 9)
    if l = 0 || !firstOk then some ⟨true, 0, some 0, fun _ => 0, none, true, v == "v3"⟩
    else some ⟨false, e, if l < 0 then none else some l.toNat,
      fun p => match first with | some f => if p = 0 then f.toNat else srcDigit hashed p | none => srcDigit hashed p, none, true, v == "v3"⟩

structure SH where
  win : Win
  bounded : Bool
deriving Repr

structure SIter where
  h : Nat
  back : Bool
  consumed : Nat
deriving Repr

structure SFind where
  h : Nat
  pat : List Int
  back : Bool
  consumed : Nat
deriving Repr

structure SSt where
  handles : Array SH
  iters : Array SIter
  seqs : Array Nat
  finds : Array SFind := #[]
  /-- stored (re-runnable) Matches / BackwardMatches sequence values -/
  mseqs : Array SFind := #[]
  /-- highest position delivered or asked about so far (C06 bound) -/
  reach : Int := -1
  /-- consult counter at the last `cons`, valid while only creation / view statements followed -/
  lastCons : Option Nat := none

def maxTake : Nat := 100000

/-- the complete forward listing of a window, as far as it is finite and known -/
def winAll (sd : SD) (w : Win) : List (Nat × Nat) :=
  windowList sd.len sd.digit w (match upper sd.len w with | none => oracleDepth | some _ => maxTake)

def winFinite (sd : SD) (w : Win) : Bool := (upper sd.len w).isSome

def takeStr (xs : List (Nat × Nat)) (take : Int) : String :=
  pdShow xs ++ (if (xs.length : Int) < take then "$" else "")

def fail (what got want : String) : String := s!"FAIL {what}: got {got}, specification says {want}"

/-- digits of a Number handle (lo ≤ 0) as a list, at most `n` of them -/
def numDigits (sd : SD) (w : Win) (n : Nat) : List Nat :=
  (windowList sd.len sd.digit { w with lo := 0 } n).map (·.2)

def handleIsZero (sd : SD) (w : Win) : Bool :=
  sd.isZero || (windowList sd.len sd.digit { w with lo := 0 } 1).isEmpty

/-- `Spec.occurrences` evaluated on arrays (same definition: every offset i with
T[i..i+|p|) = p, ascending; the list version drops i elements for every i, which is quadratic) -/
def occurrencesArr (p T : Array Int) : List Nat :=
  if p.size > T.size then [] else
  (List.range (T.size - p.size + 1)).filter fun i =>
    (List.range p.size).all fun j => T.getD (i + j) 0 == p.getD j 1

/-- occurrences of `pat` in the window, as absolute positions (ascending) -/
def occIn (sd : SD) (w : Win) (pat : List Int) (prefixLen : Nat) : List Nat :=
  let cells := windowList sd.len sd.digit w prefixLen
  match cells with
  | [] => []
  | (s, _) :: _ =>
    let T := cells.map fun (_, d) => (d : Int)
    if pat.isEmpty then cells.map (·.1) else (occurrencesArr pat.toArray T.toArray).map (fun (i : Nat) => i + s)

/-- how much of an infinite generator-backed source the oracle looks at when judging a search:
far enough to see every position the implementation reported (so that a deep answer is judged,
not skipped), never less than 12000 cells -/
def knownPrefix (res : String) (plen : Nat) : Nat :=
  let top := ((res.splitOn ",").filterMap fun (t : String) => t.toNat?).foldl max 0
  max 12000 (min 400000 (top + plen + 2))

def boolStr (b : Bool) : String := if b then "true" else "false"

/-- resolved print options: function defaults overridden by explicitly passed options -/
structure ROpts where
  row : Int
  col : Int
  showCount : Bool
  missing : Int
  tlf : Bool
  ld : Bool

def resolveOpts (v : String) (isWrite : Bool) (o : OptSet) : ROpts :=
  let tlf := if v == "v3" then o.trailingLF.getD isWrite else false
  let ld := if v == "v3" then o.leadingDecimal.getD (!isWrite) else true
  ⟨o.row.getD 50, o.col.getD 5, o.showCount.getD true, o.missing.getD 46, tlf, ld⟩

def posCalls (ps : List PTok) : List Call :=
  ps.map fun | .add p => .add p | .addRange s e => .addRange s e

/-- positions requested by a script that lie in the window and exist, ascending; `none` if the
requested set is too large to enumerate -/
def shownOf (sd : SD) (w : Win) (ps : List PTok) : Option (List (Nat × Nat) × Int) :=
  let cs := posCalls ps
  -- positions at or beyond the end of a finite sequence / window are never shown: ranges are
  -- enumerated only up to there (so that "everything up to MaxInt" on a finite sequence is judged)
  let top : Option Int := upper sd.len w
  let clampE := fun (e : Int) => match top with | some u => min e (max u 0) | none => e
  let cands : List Int := ps.flatMap fun
    | .add p => [p]
    | .addRange s e =>
      let e' := clampE e
      if e' - max s 0 > 5000 then [] else (List.range (e' - max s 0).toNat).map fun (i : Nat) => max s 0 + (i : Int)
  if ps.any (fun | .addRange s e => decide (clampE e - max s 0 > 5000) | _ => false) then none else
  let pts := (cands.filter fun x => memCallsB cs x).map Int.toNat
  let pts := pts.eraseDups.mergeSort
  -- Positions.End(): the largest position added, plus one (Add(MaxInt) adds nothing)
  let endP : Int := ps.foldl (fun acc t => match t with
    | .add p => if 0 ≤ p ∧ p < 9223372036854775807 then max acc (p + 1) else acc
    | .addRange s e => if max s 0 < e then max acc e else acc) 0
  let lo := (max w.lo 0).toNat
  let shown := pts.filterMap fun p =>
    if p < lo then none
    else match top with
      | some u => if (p : Int) < u then some (p, sd.digit p) else none
      | none => some (p, sd.digit p)
  some (shown, endP)

def layoutFor (v : String) (isWrite : Bool) (o : OptSet) (maxDigits : Int) (shown : List (Nat × Nat)) : List Nat :=
  let r := resolveOpts v isWrite o
  layout (resolve r.row r.col r.showCount r.missing r.tlf r.ld maxDigits) shown

/-- The printer emits the missing marks before a shown position only when that position's digit
arrives. So digit `p` of the shown list must be pulled iff the output up to the END of the
previous shown cell is shorter than `limit` (= fault offset + one buffer + slack). Returns the
highest shown position that a promptly stopping printer may have to pull. -/
def lastShownNeeded (o : POpts) (shown : List (Nat × Nat)) (limit : Nat) : Int :=
  let rec go : List Nat → Bool → Nat → Nat → Int → Int
    -- cells left, first?, offset so far, offset at the end of the previous SHOWN cell, answer
    | [], _, _, _, acc => acc
    | q :: rest, first, off, prevEnd, acc =>
      let off' := off + (cellBytes o shown first q).length
      if shown.any (fun (p, _) => p == q) then
        if prevEnd < limit then go rest false off' off' q else acc
      else go rest false off' prevEnd acc
  go (cells o shown) true 0 0 (-1)

def popts (v : String) (isWrite : Bool) (o : OptSet) (maxDigits : Int) : POpts :=
  let r := resolveOpts v isWrite o
  resolve r.row r.col r.showCount r.missing r.tlf r.ld maxDigits

def isPrefixOf (a b : List Nat) : Bool := a.length ≤ b.length && b.take a.length == a

def parseHexBytes (s : String) : Option (List Nat) :=
  match s.toList with
  | 'x' :: cs =>
    let hv := fun (c : Char) => if c.isDigit then some (c.toNat - 48) else if 'a' ≤ c && c ≤ 'f' then some (c.toNat - 87) else none
    let rec go : List Char → Option (List Nat)
      | [] => some []
      | [_] => none
      | a :: b :: r => do
        let x ← hv a
        let y ← hv b
        let rest ← go r
        pure ((x * 16 + y) :: rest)
    go cs
  | _ => none

def checkFault3 (want : List Nat) (res : String) (mode k : Nat) : String :=
  match res.splitOn "/" with
  | [ns, es, hx] =>
    -- accepted bytes: `x<hex>` or, when long, `y<length>:<FNV-1a hash>`
    let accInfo : Option (Nat × Bool) :=
      if hx.startsWith "y" then
        match ((String.mk (hx.toList.drop 1)).splitOn ":").map String.toNat? with
        | [some len, some h] => some (len, decide (len ≤ want.length) && (fnv64 (want.take len)).toNat == h)
        | _ => none
      else (parseHexBytes hx).map fun acc => (acc.length, isPrefixOf acc want)
    match ns.toNat?, accInfo with
    | some n, some (accLen, isPre) =>
      let err := es == "true"
      let complete := accLen == want.length
      if !isPre then fail "bytes accepted by the failing writer" (String.mk (hx.toList.take 200)) ("a prefix of " ++ String.mk ((hexOf want).toList.take 200))
      else if n ≠ accLen then fail "byte count returned" ns (toString accLen)
      else if err ≠ (!complete) then fail "error returned" es (boolStr (!complete) ++ " (error iff the output was not delivered completely)")
      else if mode ≤ 2 && accLen ≠ min k want.length then fail "number of bytes delivered" (toString accLen) (toString (min k want.length))
      else "ok"
    | _, _ => s!"FAIL unparsable fault result {res}"
  | _ => s!"FAIL Fprint/Fwrite to a failing writer did not return normally: {res}"

/-- `written/err/xBYTES` or, on a counting source used by this script alone,
`written/err/xBYTES/after` where `after` = calls the digit source received between the moment the
writer first reported its fault and the return of Fprint/Fwrite (producer quiescent). C12: "stop
consuming digits promptly after the fault" — once the writer has failed nothing more is requested. -/
def checkFault (want : List Nat) (res : String) (mode k : Nat) : String :=
  match res.splitOn "/" with
  | [ns, es, hx, after] =>
    match checkFault3 want (ns ++ "/" ++ es ++ "/" ++ hx) mode k with
    | "ok" =>
      (match after.toNat? with
       | some 0 => "ok"
       | some a => fail "digits requested from the source after the writer had reported its fault" (toString a) "0"
       | none => s!"FAIL unparsable fault result {res}")
    | bad => bad
  | _ => checkFault3 want res mode k

/-- check one statement; returns the verdict ("ok" / "FAIL …") and the new state -/
def specStmt (v : String) (sd : SD) (st : SSt) (s : Stmt) (res : String) : String × SSt :=
  let isV3 := v == "v3"
  let hOf := fun (h : Nat) => st.handles[h]?
  let bump := fun (st : SSt) (r : Int) => { st with reach := max st.reach r }
  -- positions asked about by a full or partial traversal of window w delivering `got` items
  let reachOf := fun (w : Win) (delivered : List (Nat × Nat)) (take : Int) =>
    let lastP : Int := match delivered.getLast? with
      | some (p, _) => p
      | none => match upper sd.len w with
        | some u => min (max w.lo 0) (max u 0)     -- empty window: asked about is clamped to its end
        | none => max w.lo 0
    if (delivered.length : Int) < take then
      -- ran to the end of the window: the end itself was asked about
      match upper sd.len w with | some u => max u lastP | none => lastP
    else lastP
  if res.startsWith "hang" then (s!"FAIL statement did not return (watchdog)", st)
  else
  match s with
  | .ws h x | .we h x | .wsig h x | .fws h x =>
    match hOf h with
    | none => ("FAIL bad handle", st)
    | some sh =>
      let isSig : Bool := match s with | .wsig _ _ => true | _ => false
      let isFws : Bool := match s with | .fws _ _ => true | _ => false
      if isSig && x < 0 then
        if res == "na" then ("ok", st)
        else if res == "panic:limit_must_be_non-negative" then ("ok", st)
        else (fail "WithSignificant with a negative limit" res "panic: limit must be non-negative", st)
      else if res.startsWith "panic" then (fail "view operation" res "normal return", st)
      else if res == "na" then
        if isFws && isV3 && sh.bounded then (fail "FiniteWithStart availability" res "value is bounded by construction, must assert to FiniteSequence", st)
        else ("ok", st)
      else
        let op : VOp := match s with
          | .ws _ _ => .withStart x | .we _ _ => .withEnd x | .wsig _ _ => .withSig x | _ => .finiteWithStart x
        let nb := boundedStep sh.bounded op
        let nh : SH := ⟨sh.win.apply op, nb⟩
        let st' := { st with handles := st.handles.push nh }
        if isV3 then
          let f := res.contains 'F'
          let p := res.contains 'P'
          if f ≠ nb then (fail "type assertion to FiniteSequence" (boolStr f) (boolStr nb ++ " (finite iff bounded by construction)"), st')
          else if p && !f then (fail "type assertions" res "*FiniteNumber implies FiniteSequence", st')
          else ("ok", st')
        else ("ok", st')
  | .at h p =>
    match hOf h with
    | none => ("FAIL bad handle", st)
    | some sh =>
      if res == "na" then ("ok", st) else
      let w := { sh.win with lo := 0 }
      let want : Int := if p < 0 then -1 else
        match (windowList sd.len sd.digit { w with lo := p } 1) with
        | (q, d) :: _ => if (q : Int) = p then d else -1
        | [] => -1
      let asked : Int := match w.hi with | some hi => min p hi | none => p
      (if res == toString want then "ok" else fail s!"At({p})" res (toString want), bump st asked)
  | .exp h =>
    match hOf h with
    | none => ("FAIL bad handle", st)
    | some sh =>
      if res == "na" then ("ok", st) else
      let want : Int := if handleIsZero sd sh.win then 0 else sd.exp
      (if res == toString want then "ok" else fail "Exponent()" res (toString want), st)
  | .zero h =>
    match hOf h with
    | none => ("FAIL bad handle", st)
    | some sh =>
      if res == "na" then ("ok", st) else
      let want := boolStr (handleIsZero sd sh.win)
      (if res == want then "ok" else fail "IsZero()" res want, st)
  | .fwd h take | .fwd2 h take =>
    match hOf h with
    | none => ("FAIL bad handle", st)
    | some sh =>
      if res == "na" then ("ok", st) else
      let xs := windowList sd.len sd.digit sh.win take.toNat
      let digitsOnlyForm : Bool := match s with | .fwd2 _ _ => true | _ => false
      let want := if digitsOnlyForm then digitsShow (xs.map (·.2)) ++ (if (xs.length : Int) < take then "$" else "")
                  else takeStr xs take
      (if res == want then "ok" else fail "forward traversal" res want, bump st (reachOf sh.win xs take))
  | .itat h p take =>
    match hOf h with
    | none => ("FAIL bad handle", st)
    | some sh =>
      if res == "na" then ("ok", st)
      else if p < 0 then
        (if res == "panic:posit_must_be_non-negative" then "ok" else fail "IteratorAt with a negative position" res "panic: posit must be non-negative", st)
      else
        let w := { sh.win with lo := max sh.win.lo p }
        let xs := windowList sd.len sd.digit w take.toNat
        let want := digitsShow (xs.map (·.2)) ++ (if (xs.length : Int) < take then "$" else "")
        (if res == want then "ok" else fail s!"IteratorAt({p})" res want, bump st (reachOf w xs take))
  | .back h take | .back2 h take =>
    match hOf h with
    | none => ("FAIL bad handle", st)
    | some sh =>
      if res == "na" then
        (if isV3 && sh.bounded then fail "backward traversal availability" res "bounded value must assert to FiniteSequence" else "ok", st)
      else if isV3 && !sh.bounded then (fail "backward traversal availability" res "na: an unbounded value must not satisfy FiniteSequence", st)
      else if !winFinite sd sh.win then ("ok", st)     -- not decidable here (generator avoids it)
      else
        let xs := ((winAll sd sh.win).reverse).take take.toNat
        let digitsOnlyForm : Bool := (match s with | .back2 _ _ => true | _ => false) && v == "v1"
        let want := if digitsOnlyForm then digitsShow (xs.map (·.2)) else pdShow xs
        let top : Int := match upper sd.len sh.win with | some u => u | none => 0
        (if res == want then "ok" else fail "backward traversal" res want, bump st (if take > 0 then top else st.reach))
  | .nd h =>
    match hOf h with
    | none => ("FAIL bad handle", st)
    | some sh =>
      if res == "na" then ("ok", st) else
      let want := toString (winAll sd { sh.win with lo := 0 }).length
      let top : Int := match upper sd.len sh.win with | some u => u | none => 0
      (if res == want then "ok" else fail "NumDigits()" res want, bump st top)
  | .astr h =>
    match hOf h with
    | none => ("FAIL bad handle", st)
    | some sh =>
      if res == "na" then
        (if isV3 && sh.bounded then fail "AsString availability" res "bounded value must assert to FiniteSequence" else "ok", st)
      else
        let want := digitsShow ((winAll sd sh.win).map (·.2))
        let top : Int := match upper sd.len sh.win with | some u => u | none => 0
        (if res == want then "ok" else fail "AsString" res want, bump st top)
  | .mk h kind =>
    match hOf h with
    | none => ("FAIL bad handle", st)
    | some sh =>
      if res == "na" then
        (if kind == "back" && isV3 && sh.bounded then fail "Reverse availability" res "bounded value must assert to FiniteSequence" else "ok", st)
      else if res == "ok" then
        let st' := { st with iters := st.iters.push ⟨h, kind == "back", 0⟩ }
        -- v1/v2 iterators are eager (C06 exempts only v3 creation): FullIterator fetches its first
        -- item when it is created, FullReverse reads the whole sequence — creation asks about those positions
        if isV3 then ("ok", st')
        else if kind == "back" then ("ok", bump st' (match upper sd.len sh.win with | some u => u | none => 0))
        else ("ok", bump st' (reachOf sh.win (windowList sd.len sd.digit sh.win 1) 1))
      else (fail "iterator creation" res "ok", st)
  | .nx it n =>
    match st.iters[it]? with
    | none => (if res == "na" then "ok" else fail "iterator" res "na", st)
    | some si =>
      match hOf si.h with
      | none => ("FAIL bad handle", st)
      | some sh =>
        let all := if si.back then (winAll sd sh.win).reverse
                   else windowList sd.len sd.digit sh.win (si.consumed + n.toNat)
        let xs := (all.drop si.consumed).take n.toNat
        let want := takeStr xs n
        let st' := { st with iters := st.iters.set! it { si with consumed := si.consumed + xs.length } }
        let r : Int := if si.back then (match upper sd.len sh.win with | some u => u | none => 0) else reachOf sh.win (all.take (si.consumed + xs.length)) ((si.consumed : Int) + n)
        (if res == want then "ok" else fail "live iterator (consecutive positions, no gaps or repeats)" res want, bump st' r)
  | .mkseq h =>
    if res == "na" then ("ok", st)
    else if res == "ok" then ("ok", { st with seqs := st.seqs.push h })
    else (fail "All()" res "ok", st)
  | .mkseqb h =>
    -- a stored Backward() sequence is entered as handle + 1000000
    if res == "na" then ("ok", st)
    else if res == "ok" then ("ok", { st with seqs := st.seqs.push (h + 1000000) })
    else (fail "Backward()" res "ok", st)
  | .run q take =>
    match st.seqs[q]? with
    | none => (if res == "na" then "ok" else fail "stored sequence" res "na", st)
    | some hh =>
      let isBack := decide (hh ≥ 1000000)
      let h := if isBack then hh - 1000000 else hh
      match hOf h with
      | none => ("FAIL bad handle", st)
      | some sh =>
        if isBack then
          if !winFinite sd sh.win then ("ok", st) else
          let xs := (winAll sd sh.win).reverse.take take.toNat
          let want := takeStr xs take
          let top : Int := match upper sd.len sh.win with | some u => u | none => 0
          (if take ≤ 0 then (if res == "-" then "ok" else fail "re-run of a Backward() sequence obtained earlier" res "-")
           else if res == want then "ok" else fail "re-run of a Backward() sequence obtained earlier" res want, bump st top)
        else
        let xs := windowList sd.len sd.digit sh.win take.toNat
        let want := takeStr xs take
        (if res == want then "ok" else fail "re-run of an iterator obtained earlier" res want, bump st (reachOf sh.win xs take))
  | .str h | .exact h =>
    match hOf h with
    | none => ("FAIL bad handle", st)
    | some sh =>
      if res == "na" then ("ok", st) else
      let isExact : Bool := match s with | .exact _ => true | _ => false
      let w := { sh.win with lo := 0 }
      let e : Int := if handleIsZero sd w then 0 else sd.exp
      let want :=
        if isExact then
          if !winFinite sd w then "?" else "\"" ++ renderExact e ((winAll sd w).map (·.2)) ++ "\""
        else "\"" ++ renderString e (numDigits sd w 40) ++ "\""
      if want == "?" then ("ok", st)
      else (if res == want then "ok" else fail (if isExact then "Exact()" else "String()") res want,
            bump st (if isExact then (match upper sd.len w with | some u => u | none => 0) else 16))
  | .fmt h dir =>
    match hOf h with
    | none => ("FAIL bad handle", st)
    | some sh =>
      if res == "na" then ("ok", st) else
      match parseDirective dir with
      | none => ("FAIL unparsable directive", st)
      | some d =>
        if res.contains "PANIC" || res.startsWith "panic" then (fail s!"Format {dir}" res "no panic", st)
        else if d.otherFlags then ("ok", st)    -- flags other than '-' are unspecified beyond "no panic"
        else
          let w := { sh.win with lo := 0 }
          let e : Int := if handleIsZero sd w then 0 else sd.exp
          let need : Nat := match formatRule d.verb.toNat d.prec e with
            | some (sg, _, _, _) => sg.toNat
            | none => 16
          let ds := numDigits sd w (min need 20000)
          let want := "\"" ++ render d.verb.toNat d.prec d.width d.minus e ds ++ "\""
          (if res == want then "ok" else fail s!"Format {dir}" res want, bump st (min need 20000))
  | .find op h pat n =>
    match hOf h with
    | none => ("FAIL bad handle", st)
    | some sh =>
      let finiteOnly : Bool := ["fa", "fl", "fln", "findr", "bm"].contains op
      if res == "na" then
        (if finiteOnly && isV3 && sh.bounded then fail s!"{op} availability" res "bounded value must assert to FiniteSequence" else "ok", st)
      else if finiteOnly && isV3 && !sh.bounded then (fail s!"{op} availability" res "na", st)
      else if res.startsWith "RERUN-MISMATCH" then (fail "re-running a returned iterator" res "the same positions again", st)
      else if res.startsWith "ARG-MODIFIED-DURING-CALL" then
        (fail "the caller's pattern slice as seen by the digit source while the search was in progress" res "unmodified (the library never writes to its arguments, not even temporarily)", st)
      else if res.startsWith "panic" then (fail op res "normal return", st)
      else
        let fin := winFinite sd sh.win
        let occ := occIn sd sh.win pat (if fin then maxTake else (match sd.depth with | some k => k | none => knownPrefix res pat.length))
        let plen := pat.length
        let endOfMatch := fun (p : Nat) => (p + (if plen = 0 then 1 else plen) : Nat)
        -- for infinite windows only a prefix is known: answers are decidable iff enough matches lie inside it
        let known := fun (cnt : Nat) => fin || occ.length ≥ cnt
        let top : Int := match upper sd.len sh.win with | some u => u | none => 0
        let showI := fun (l : List Int) => showInts l
        let toI := fun (l : List Nat) => l.map fun (x : Nat) => (x : Int)
        match op with
        | "ff" =>
          if !known 1 then ("ok", st) else
          let want : Int := match occ.head? with | some p => p | none => -1
          (if res == toString want then "ok" else fail "FindFirst" res (toString want),
            bump st (match occ.head? with | some p => (endOfMatch p : Int) - 1 | none => top))
        | "ffn" =>
          if !known n.toNat then ("ok", st) else
          let xs := occ.take n.toNat
          (if res == showI (toI xs) then "ok" else fail s!"FindFirstN n={n}" res (showI (toI xs)),
            bump st (if n ≤ 0 then st.reach else if xs.length < n.toNat then top else match xs.getLast? with | some p => (endOfMatch p : Int) - 1 | none => top))
        | "fa" =>
          if !fin then ("ok", st) else
          (if res == showI (toI occ) then "ok" else fail "FindAll" res (showI (toI occ)), bump st top)
        | "fl" =>
          if !fin then ("ok", st) else
          let want : Int := match occ.getLast? with | some p => p | none => -1
          (if res == toString want then "ok" else fail "FindLast" res (toString want), bump st top)
        | "fln" =>
          if !fin then ("ok", st) else
          let xs := occ.reverse.take n.toNat
          (if res == showI (toI xs) then "ok" else fail s!"FindLastN n={n}" res (showI (toI xs)), bump st (if n ≤ 0 && isV3 then st.reach else top))
        | "find" | "findr" =>
          if !known n.toNat then ("ok", st) else
          if op == "findr" && !fin then ("ok", st) else
          let base := if op == "find" then occ else occ.reverse
          let xs := toI (base.take n.toNat) ++ List.replicate (n.toNat - base.length) (-1)
          (if res == showI xs then "ok" else fail s!"{op} pulled {n} times" res (showI xs),
            bump st (if op == "findr" || base.length < n.toNat then top else match (base.take n.toNat).getLast? with | some p => (endOfMatch p : Int) - 1 | none => st.reach))
        | "m" | "m2" =>
          if n ≤ 0 then (if res == "-" then "ok" else fail "Matches" res "-", st) else
          if !known n.toNat then ("ok", st) else
          let xs := occ.take n.toNat
          let want := showI (toI xs) ++ (if xs.length < n.toNat then "$" else "")
          (if res == want then "ok" else fail s!"Matches, loop left after {n} matches" res want,
            bump st (if xs.length < n.toNat then top else match xs.getLast? with | some p => (endOfMatch p : Int) - 1 | none => top))
        | "bm" =>
          if n ≤ 0 then (if res == "-" then "ok" else fail "BackwardMatches" res "-", st) else
          if !fin then ("ok", st) else
          let xs := occ.reverse.take n.toNat
          (if res == showI (toI xs) then "ok" else fail "BackwardMatches" res (showI (toI xs)), bump st top)
        | _ => ("FAIL unknown find op", st)
  | .pr h pos o | .fpr h pos o _ _ =>
    match hOf h with
    | none => ("FAIL bad handle", st)
    | some sh =>
      if res == "na" then ("ok", st) else
      match shownOf sd sh.win pos with
      | none =>
        -- too large to enumerate: not judged — and whatever was requested counts as asked about
        ("ok", bump st (pos.foldl (fun a t => match t with | .add p => max a p | .addRange _ e => max a e) 0))
      | some (shown, endP) =>
        let want := layoutFor v false o endP shown
        let r : Int := match shown.getLast? with | some (p, _) => p | none => st.reach
        -- asking for positions beyond the end of a finite sequence asks about its end
        let r := match upper sd.len sh.win with | some u => if endP > u then max r u else r | none => r
        match s with
        | .fpr _ _ _ mode k =>
          -- prompt stop: digits are needed only for the bytes up to the fault plus one buffer
          let bs : Nat := match o.bufSize with | some b => if b ≤ 0 then 4096 else b.toNat | none => 4096
          let rf := if mode ≤ 2 ∧ k < want.length then min r (lastShownNeeded (popts v false o endP) shown (k + bs + 32)) else r
          (checkFault want res mode k, bump st rf)
        | _ => (if res == hexOf want then "ok" else fail "Sprint" res (hexOf want), bump st r)
  | .wr h o | .fwr h o _ _ =>
    match hOf h with
    | none => ("FAIL bad handle", st)
    | some sh =>
      if res == "na" then
        (if isV3 && sh.bounded then fail "Fwrite availability" res "bounded value must assert to FiniteSequence" else "ok", st)
      else if isV3 && !sh.bounded then (fail "Fwrite availability" res "na", st)
      else
        let shown := winAll sd sh.win
        let endP : Int := match shown.getLast? with | some (p, _) => (p : Int) + 1 | none => 0
        let want := layoutFor v true o endP shown
        let top : Int := match upper sd.len sh.win with | some u => u | none => 0
        match s with
        | .fwr _ _ mode k =>
          -- Fwrite first determines the end of the sequence (it must traverse to the end)
          (checkFault want res mode k, bump st top)
        | _ => (if res == hexOf want then "ok" else fail "Swrite" res (hexOf want), bump st top)
  | .mkms h pat back =>
    -- a stored Matches / BackwardMatches VALUE (v3): creating it consults nothing
    match hOf h with
    | none => ("FAIL bad handle", st)
    | some _ =>
      if res == "na" then ("ok", st)
      else if res == "ok" then ("ok", { st with mseqs := st.mseqs.push ⟨h, pat, back, 0⟩ })
      else (fail "Matches / BackwardMatches" res "ok", st)
  | .runm q n =>
    match st.mseqs[q]? with
    | none => (if res == "na" then "ok" else fail "stored Matches sequence" res "na", st)
    | some sf =>
      match hOf sf.h with
      | none => ("FAIL bad handle", st)
      | some sh =>
        if n ≤ 0 then (if res == "-" then "ok" else fail "Matches (stored sequence)" res "-", st) else
        let fin := winFinite sd sh.win
        let occ := occIn sd sh.win sf.pat (if fin then maxTake else (match sd.depth with | some k => k | none => knownPrefix res sf.pat.length))
        let top : Int := match upper sd.len sh.win with | some u => u | none => 0
        let plen := sf.pat.length
        let endOfMatch := fun (p : Nat) => (p + (if plen = 0 then 1 else plen) : Nat)
        if sf.back then
          if !fin then ("ok", st) else
          let xs := occ.reverse.take n.toNat
          let want := showInts (xs.map fun (x : Nat) => (x : Int)) ++ (if xs.length < n.toNat then "$" else "")
          (if res == want then "ok" else fail "re-run of a BackwardMatches sequence obtained earlier" res want, bump st top)
        else
          if !(fin || occ.length ≥ n.toNat) then ("ok", st) else
          let xs := occ.take n.toNat
          let want := showInts (xs.map fun (x : Nat) => (x : Int)) ++ (if xs.length < n.toNat then "$" else "")
          (if res == want then "ok" else fail "re-run of a Matches sequence obtained earlier" res want,
            bump st (if xs.length < n.toNat then top else match xs.getLast? with | some p => (endOfMatch p : Int) - 1 | none => top))
  | .mkf h pat back =>
    match hOf h with
    | none => ("FAIL bad handle", st)
    | some sh =>
      if res == "na" then
        (if back ∧ isV3 ∧ sh.bounded then fail "FindR availability" res "bounded value must assert to FiniteSequence" else "ok", st)
      else if res == "ok" then ("ok", { st with finds := st.finds.push ⟨h, pat, back, 0⟩ })
      else (fail "search iterator creation" res "ok", st)
  | .nxf it n =>
    match st.finds[it]? with
    | none => (if res == "na" then "ok" else fail "search iterator" res "na", st)
    | some sf =>
      match hOf sf.h with
      | none => ("FAIL bad handle", st)
      | some sh =>
        let fin := winFinite sd sh.win
        let occ := occIn sd sh.win sf.pat (if fin then maxTake else (match sd.depth with | some k => k | none => knownPrefix res sf.pat.length))
        if !fin ∧ (sf.back ∨ occ.length < sf.consumed + n.toNat) then ("ok", st) else
        let base := if sf.back then occ.reverse else occ
        let avail := (base.drop sf.consumed).take n.toNat
        let xs : List Int := avail.map (fun (x : Nat) => (x : Int)) ++ List.replicate (n.toNat - avail.length) (-1)
        let st' := { st with finds := st.finds.set! it { sf with consumed := sf.consumed + avail.length } }
        let top : Int := match upper sd.len sh.win with | some u => u | none => 0
        (if res == showInts xs then "ok" else fail "live search iterator (other searches were created and run in between)" res (showInts xs), bump st' top)
  | .cons =>
    if res == "na" then ("ok", st) else
    let stPrev := st
    match (res.splitOn "/").map String.toNat? with
    | [some calls, some afterEnd, some reentry] =>
      -- C06: never again after the end marker, never re-entrant/concurrent, bounded read-ahead
      let bound : Int := st.reach + 1 + 1000
      let bound := if sd.eagerFirst then max bound 1 else max bound 0
      let st := { st with lastCons := some calls }
      if afterEnd ≠ 0 then ("FAIL the digit source was consulted again after it had signalled the end", st)
      else if reentry ≠ 0 then ("FAIL the digit source was consulted re-entrantly or concurrently", st)
      else if (match stPrev.lastCons with | some c0 => decide (calls > c0) | none => false) then
        (s!"FAIL deriving views / creating iterators or matchers consulted the source ({calls} consultations, {stPrev.lastCons.getD 0} before): creation must consult nothing", st)
      else if (calls : Int) > bound then
        (s!"FAIL {calls} positions consulted although the highest position delivered or asked about is {st.reach} (bound {st.reach}+1+1000)", st)
      else match sd.len with
        | some L => if calls > L + 1 then (s!"FAIL {calls} consultations of a source with {L} digits", st) else ("ok", st)
        | none => ("ok", st)
    | _ => (s!"FAIL unparsable consult counter {res}", st)

/-- positions at or beyond the oracle's depth cannot be judged (generators stay below it) -/
def beyondDepth (sd : SD) (st : SSt) : Bool :=
  match sd.depth with
  | some k => decide (st.reach + 2 ≥ (k : Int))
  | none => false

def specScriptLine (v desc stmts : String) (raw : String) : String :=
  -- D: the harness drops (and lets the collector reclaim) the base Number after the leading view
  -- statements; what the views deliver is specified exactly as without it
  let desc := if desc.startsWith "D" then String.mk (desc.toList.drop 1) else desc
  match parseNumDesc desc, parseStmts stmts with
  | some nd, some ss =>
    if raw == "na" then "ok"        -- constructor not available in this version
    else match sdOf v nd with
    | none => if raw.startsWith "err:" then "ok" else fail "constructor with invalid digits" raw "an error"
    | some sd =>
      if raw.startsWith "err:" then fail "constructor" raw "a Number"
      else if raw.startsWith "!!" then s!"FAIL script did not complete: {raw}"
      else
        let rs := if raw == "-" then [] else raw.splitOn ";"
        let baseBounded := match nd with
          | .zero => true
          | .finite _ _ => true
          | .test f r _ => r.isEmpty || (f.isEmpty && r.isEmpty)
          | .gen l _ _ first _ => l == 0 || (match first with | some f => !(decide (1 ≤ f ∧ f ≤ 9)) | none => false)
          | .sqrt a _ | .cube a _ | .rat a _ => a == 0
        let st0 : SSt := { handles := #[⟨{}, if v == "v3" then baseBounded else false⟩], iters := #[], seqs := #[], reach := if sd.eagerFirst && !sd.isZero then 0 else -1 }
        let rec go : List Stmt → List String → SSt → Nat → String
          | [], _, _, _ => "ok"
          | _ :: _, [], _, i => s!"FAIL statement {i} has no result"
          | s :: ss, r :: rs, st, i =>
            let (verdict, st') := specStmt v sd st s r
            let pureStmt : Bool := v == "v3" && (match s with
              | .ws _ _ | .we _ _ | .wsig _ _ | .fws _ _ | .mk _ _ | .mkseq _ | .mkseqb _ | .mkms _ _ _ | .mkf _ _ _ | .exp _ | .zero _ | .cons => true
              | .find op _ _ n => (op == "m" || op == "bm" || op == "ffn" || op == "fln") && n ≤ 0
              | _ => false)
            let st' := if pureStmt then st' else { st' with lastCons := none }
            if beyondDepth sd st' then "ok"      -- the rest of this script is outside the oracle's reach
            else if verdict == "ok" then go ss rs st' (i + 1) else s!"{verdict} [statement {i}]"
        go ss rs st0 0
  | _, _ => "FAIL unparsable script"

/-- `conc` line: several reader goroutines on ONE shared Number; under every interleaving each
call must return exactly its sequential result, so every program is checked as a script of its
own; the consult counter read at the end is checked against the union of what was asked. -/
def specConcLine (v desc progs : String) (raw : String) : String :=
  -- X: every goroutine uses its OWN Number; P: the objects created by the first statement of the
  -- programs (the same statement in all of them) are SHARED by the goroutines
  let desc := if desc.startsWith "X" || desc.startsWith "P" then String.mk (desc.toList.drop 1) else desc
  if raw.startsWith "!!" then s!"FAIL concurrent program did not complete: {raw}"
  else if raw == "na" then "ok"
  else match raw.splitOn " ## " with
  | [rs, cons] =>
    let ps := progs.splitOn "|"
    let rl := rs.splitOn "|"
    if ps.length ≠ rl.length then "FAIL result count differs from program count"
    else
      -- a program marked `~` is a call that need not finish (unbounded or very distant demand,
      -- running in the background of a controlled run): nothing is required of it
      let verdicts := ((ps.zip rl).filter fun (p, _) => !p.startsWith "~").map fun (p, r) => specScriptLine v desc p r
      match verdicts.find? (· != "ok") with
      | some bad => bad ++ " [concurrent reader]"
      | none =>
        -- consult counter: never after the end, never concurrently
        match (cons.splitOn "/").map String.toNat? with
        | [some calls, some afterEnd, some reentry] =>
          if afterEnd ≠ 0 then "FAIL the digit source was consulted again after it had signalled the end"
          else if reentry ≠ 0 then "FAIL the digit source was consulted concurrently"
          else
            -- bounded read-ahead, however many readers ask at the same time (C06): when every
            -- program consists of At calls only, the highest position asked about is known
            let ats : List (Option Int) := ps.flatMap fun p => (p.splitOn ";").map fun st =>
              match st.splitOn ":" with
              | ["at", "0", x] => x.toInt?
              | _ => none
            if ats.all Option.isSome && !ats.isEmpty then
              let top : Int := ats.foldl (fun a x => max a (x.getD 0)) 0
              if (calls : Int) > top + 1 + 1000 then
                s!"FAIL {calls} positions consulted although the highest position asked about by any of the concurrent readers is {top} (bound {top}+1+1000)"
              else "ok"
            else "ok"
        | _ => if cons == "na" then "ok" else s!"FAIL unparsable consult counter {cons}"
  | _ => s!"FAIL unparsable result {raw}"

/-- `sconc` / `strace` lines: the same programs run as tasks of the controlled scheduler
(/verif/go/sched); the recorded schedule is the interleaving. The run must reach quiescence with
every reader finished (no deadlock / lost wake-up, no overrun, no background panic), and every
result must be the sequential one. -/
def specSchedLine (v desc progs : String) (raw : String) (traced : Bool) : String :=
  let parts := raw.splitOn " ## "
  let parts := if traced then parts.drop 1 else parts
  match parts with
  | [rs, cons, status] =>
    if status == "na" || status.startsWith "err:" then "ok"
    else if status.startsWith "deadlock" then
      s!"FAIL under this schedule the readers {status} can never run again (lost wake-up / deadlock); results so far {rs}"
    else if status.startsWith "starved" then
      s!"FAIL {status}: these calls never returned although their answers are determinable — another call with an unbounded (or very distant) demand was in progress and the producer kept publishing blocks; results so far {rs}"
    else if status != "ok" then s!"FAIL controlled run ended with status {status}"
    else specConcLine v desc progs (rs ++ " ## " ++ cons)
  | _ => s!"FAIL unparsable result {raw}"

end Sqroot.Driver

/-
Spec oracle for `ctor` and `zv` lines (C16): the exported API panics exactly in the documented
cases, with the documented message, synchronously at the call.
-/
import Sqroot.Driver.Proto
namespace Sqroot.Driver

def expectedCtor (fn : String) (a b : Int) : String :=
  let viaRat := fn.endsWith "bigrat" || fn == "frombigrat"
  let single := fn == "sqrt" || fn == "cuberoot" || fn == "sqrtbigint" || fn == "cuberootbigint"
  if single then (if a < 0 then "panic:Numerator_must_be_non-negative" else "ok")
  else if viaRat then
    -- big.Rat normalises the sign into the numerator; its denominator is always positive
    (if (a < 0 ∧ b > 0) ∨ (a > 0 ∧ b < 0) then "panic:Numerator_must_be_non-negative" else "ok")
  else
    (if b ≤ 0 then "panic:Denominator_must_be_positive"
     else if a < 0 then "panic:Numerator_must_be_non-negative" else "ok")

def specCtorLine (fn : String) (a b : Int) (raw : String) : String :=
  let want := expectedCtor fn a b
  if raw == want then "ok"
  else s!"FAIL {fn}({a}, {b}): got {raw}, documented behaviour is {want}"

def specZvLine (raw : String) : String :=
  if raw == "ok" then "ok" else s!"FAIL a call on a zero value or with a degenerate argument did not return normally: {raw}"

end Sqroot.Driver

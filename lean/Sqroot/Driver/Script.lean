/-
Parsing of `script` lines (shared by both drivers; core only, imports neither Model nor Spec).
-/
import Sqroot.Driver.Proto
namespace Sqroot.Driver

inductive NumDesc
  | zero
  | sqrt (num den : Nat)
  | cube (num den : Nat)
  | rat (num den : Nat)
  | test (fixed rep : List Int) (exp : Int)
  | finite (fixed : List Int) (exp : Int)
  | gen (len : Int) (exp : Int) (ill : Bool) (first : Option Int) (hashed : Bool)
deriving Repr

/-- digit function of H sources (same as harness `hashDigit`): 32-bit multiplicative hash -/
def hashDigit (p : Nat) : Nat :=
  if p = 0 then 3 else
  let m := 4294967296
  let x := ((p + 1) % m * 2654435761) % m
  let x := x ^^^ (x >>> 15)
  let x := (x * 2246822519) % m
  let x := x ^^^ (x >>> 13)
  x % 10

/-- digit function of G sources (same as harness `genDigit`) -/
def genDigit (p : Nat) : Nat := if p = 0 then 3 else (p * p / 7 + p * 3 + p / 13 + p / 101 * 7) % 10

/-- digit function of a generator-backed source -/
def srcDigit (hashed : Bool) (p : Nat) : Nat := if hashed then hashDigit p else genDigit p

def parseNumDesc (s : String) : Option NumDesc :=
  match s.splitOn ":" with
  | ["Z"] => some .zero
  | ["S", a, b] => do pure (.sqrt (← a.toNat?) (← b.toNat?))
  | ["C", a, b] => do pure (.cube (← a.toNat?) (← b.toNat?))
  -- Si / Sr / Sb, Ci / Cr / Cb: the same Number through the int64 / int64-fraction / *big.Int constructor
  | ["Si", a, "1"] | ["Sb", a, "1"] => do pure (.sqrt (← a.toNat?) 1)
  | ["Sr", a, b] => do pure (.sqrt (← a.toNat?) (← b.toNat?))
  | ["Ci", a, "1"] | ["Cb", a, "1"] => do pure (.cube (← a.toNat?) 1)
  | ["Cr", a, b] => do pure (.cube (← a.toNat?) (← b.toNat?))
  | ["R", a, b] => do pure (.rat (← a.toNat?) (← b.toNat?))
  | ["T", f, r, e] => do pure (.test (← intList f) (← intList r) (← e.toInt?))
  | ["F", f, e] => do pure (.finite (← intList f) (← e.toInt?))
  -- TM / FM: the caller overwrites its digit slices after construction (C14): same Number expected
  | ["TM", f, r, e] => do pure (.test (← intList f) (← intList r) (← e.toInt?))
  -- TS: the two lists are windows of ONE caller buffer (C13/C14): same Number expected
  | ["TS", f, r, e] => do pure (.test (← intList f) (← intList r) (← e.toInt?))
  -- TE: empty lists passed as empty non-nil slices
  | ["TE", f, r, e] => do pure (.test (← intList f) (← intList r) (← e.toInt?))
  | ["FM", f, e] => do pure (.finite (← intList f) (← e.toInt?))
  | ["G", l, e, i] => do pure (.gen (← l.toInt?) (← e.toInt?) (i != "0") none false)
  | ["H", l, e, i] => do pure (.gen (← l.toInt?) (← e.toInt?) (i != "0") none true)
  | ["G", l, e, i, f] => do pure (.gen (← l.toInt?) (← e.toInt?) (i != "0") (some (← f.toInt?)) false)
  | _ => none

/-- pattern: "e" empty, "nil" nil, else '_'-separated ints -/
def parsePat (s : String) : Option (List Int) :=
  if s = "e" ∨ s = "nil" then some [] else (s.splitOn "_").mapM String.toInt?

inductive PTok
  | add (p : Int)
  | addRange (s e : Int)
deriving Repr

def parsePTok (t : String) : Option PTok :=
  let arg := String.mk (t.toList.drop 1)
  match t.front with
  | 'a' => arg.toInt?.map .add
  | 'r' => match arg.splitOn "~" with
    | [a, b] => do pure (.addRange (← a.toInt?) (← b.toInt?))
    | _ => none
  | _ => none

def parsePScript (s : String) : Option (List PTok) :=
  if s = "-" then some [] else (s.splitOn ",").mapM parsePTok

/-- explicitly passed print options (absent = the function's default) -/
structure OptSet where
  row : Option Int := none
  col : Option Int := none
  showCount : Option Bool := none
  missing : Option Int := none
  trailingLF : Option Bool := none
  leadingDecimal : Option Bool := none
  bufSize : Option Int := none
deriving Repr

def parseOptSet (s : String) : Option OptSet :=
  if s = "-" ∨ s = "" then some {} else
  (s.splitOn ".").foldlM (fun (o : OptSet) t => do
    let x ← (String.mk (t.toList.drop 1)).toInt?
    match t.front with
    | 'R' => pure { o with row := some x }
    | 'C' => pure { o with col := some x }
    | 'S' => pure { o with showCount := some (x != 0) }
    | 'M' => pure { o with missing := some ((x + 2147483648) % 4294967296 - 2147483648) }   -- the harness passes rune(x): int32 truncation
    | 'T' => pure { o with trailingLF := some (x != 0) }
    | 'L' => pure { o with leadingDecimal := some (x != 0) }
    | 'B' => pure { o with bufSize := some x }
    | _ => none) {}

inductive Stmt
  | ws (h : Nat) (s : Int) | we (h : Nat) (e : Int) | wsig (h : Nat) (k : Int) | fws (h : Nat) (s : Int)
  | at (h : Nat) (p : Int) | exp (h : Nat) | zero (h : Nat)
  | fwd (h : Nat) (take : Int) | fwd2 (h : Nat) (take : Int) | itat (h : Nat) (p : Int) (take : Int)
  | back (h : Nat) (take : Int) | back2 (h : Nat) (take : Int) | nd (h : Nat) | astr (h : Nat)
  | mk (h : Nat) (kind : String) | nx (it : Nat) (n : Int) | mkseq (h : Nat) | mkseqb (h : Nat) | run (q : Nat) (take : Int)
  | mkms (h : Nat) (pat : List Int) (back : Bool) | runm (q : Nat) (n : Int)
  | str (h : Nat) | exact (h : Nat) | fmt (h : Nat) (dir : String)
  | find (op : String) (h : Nat) (pat : List Int) (n : Int)
  | pr (h : Nat) (pos : List PTok) (o : OptSet)
  | wr (h : Nat) (o : OptSet)
  | fpr (h : Nat) (pos : List PTok) (o : OptSet) (mode k : Nat)
  | fwr (h : Nat) (o : OptSet) (mode k : Nat)
  | mkf (h : Nat) (pat : List Int) (back : Bool)
  | nxf (it : Nat) (n : Int)
  | cons
deriving Repr

def parseStmt (s : String) : Option Stmt :=
  match s.splitOn ":" with
  | ["cons"] => some .cons
  | ["ws", h, x] => do pure (.ws (← h.toNat?) (← x.toInt?))
  | ["we", h, x] => do pure (.we (← h.toNat?) (← x.toInt?))
  | ["wsig", h, x] => do pure (.wsig (← h.toNat?) (← x.toInt?))
  | ["fws", h, x] => do pure (.fws (← h.toNat?) (← x.toInt?))
  | ["at", h, x] => do pure (.at (← h.toNat?) (← x.toInt?))
  | ["exp", h] => do pure (.exp (← h.toNat?))
  | ["zero", h] => do pure (.zero (← h.toNat?))
  | ["fwd", h, x] => do pure (.fwd (← h.toNat?) (← x.toInt?))
  | ["fwd2", h, x] => do pure (.fwd2 (← h.toNat?) (← x.toInt?))
  | ["itat", h, p, x] => do pure (.itat (← h.toNat?) (← p.toInt?) (← x.toInt?))
  | ["back", h, x] => do pure (.back (← h.toNat?) (← x.toInt?))
  | ["back2", h, x] => do pure (.back2 (← h.toNat?) (← x.toInt?))
  | ["nd", h] => do pure (.nd (← h.toNat?))
  | ["astr", h] => do pure (.astr (← h.toNat?))
  | ["mk", h, k] => do pure (.mk (← h.toNat?) k)
  | ["nx", i, n] => do pure (.nx (← i.toNat?) (← n.toInt?))
  | ["mkseq", h] => do pure (.mkseq (← h.toNat?))
  | ["mkseqb", h] => do pure (.mkseqb (← h.toNat?))
  | ["mkf", h, p] => do pure (.mkf (← h.toNat?) (← parsePat p) false)
  | ["mkfr", h, p] => do pure (.mkf (← h.toNat?) (← parsePat p) true)
  | ["nxf", i, n] => do pure (.nxf (← i.toNat?) (← n.toInt?))
  | ["run", q, x] => do pure (.run (← q.toNat?) (← x.toInt?))
  | ["mkms", h, p] => do pure (.mkms (← h.toNat?) (← parsePat p) false)
  | ["mkbms", h, p] => do pure (.mkms (← h.toNat?) (← parsePat p) true)
  | ["runm", q, x] => do pure (.runm (← q.toNat?) (← x.toInt?))
  | ["str", h] => do pure (.str (← h.toNat?))
  | ["exact", h] => do pure (.exact (← h.toNat?))
  | ["fmt", h, d] => do pure (.fmt (← h.toNat?) d)
  | ["pr", h, p, o] => do pure (.pr (← h.toNat?) (← parsePScript p) (← parseOptSet o))
  | ["wr", h, o] => do pure (.wr (← h.toNat?) (← parseOptSet o))
  | ["fpr", h, p, o, m, k] => do pure (.fpr (← h.toNat?) (← parsePScript p) (← parseOptSet o) (← m.toNat?) (← k.toNat?))
  | ["fwr", h, o, m, k] => do pure (.fwr (← h.toNat?) (← parseOptSet o) (← m.toNat?) (← k.toNat?))
  | [op, h, p] => if ["ff", "fa", "fl"].contains op then do pure (.find op (← h.toNat?) (← parsePat p) 0) else none
  | [op, h, p, n] =>
    -- findm / findrm / mm / bmm: the caller overwrites the pattern while the iterator is live (C14):
    -- the same answers are expected
    let op := match op with | "findm" => "find" | "findrm" => "findr" | "mm" => "m" | "bmm" => "bm" | o => o
    if ["ffn", "fln", "find", "findr", "m", "m2", "bm"].contains op then
      do pure (.find op (← h.toNat?) (← parsePat p) (← n.toInt?))
    else none
  | _ => none

def parseStmts (s : String) : Option (List Stmt) :=
  if s = "-" then some [] else (s.splitOn ";").mapM parseStmt

/-- a format directive `%[-+#0]*[width][.prec]verb` → (minus, otherFlags, width, prec, verb) -/
structure Directive where
  minus : Bool
  otherFlags : Bool
  width : Option Nat
  prec : Option Nat
  verb : Char
deriving Repr

def parseDirective (s : String) : Option Directive :=
  match s.toList with
  | '%' :: rest =>
    let flags := rest.takeWhile fun c => c == '-' || c == '+' || c == '#' || c == '0'
    let rest := rest.drop flags.length
    let wd := rest.takeWhile Char.isDigit
    let rest := rest.drop wd.length
    let (prec, rest) := match rest with
      | '.' :: r => let pd := r.takeWhile Char.isDigit; (some ((String.mk pd).toNat?.getD 0), r.drop pd.length)
      | r => (none, r)
    match rest with
    | [v] => some ⟨flags.contains '-', flags.any (· != '-'), if wd.isEmpty then none else (String.mk wd).toNat?, prec, v⟩
    | _ => none
  | _ => none

def pdShow (xs : List (Nat × Nat)) : String :=
  if xs.isEmpty then "-" else ",".intercalate (xs.map fun (p, d) => s!"{p}:{d}")

def digitsShow (xs : List Nat) : String :=
  if xs.isEmpty then "-" else String.mk (xs.map fun d => Char.ofNat (48 + d))

def hexOf (bs : List Nat) : String :=
  let hd := fun (n : Nat) => if n < 10 then Char.ofNat (48 + n) else Char.ofNat (87 + n)
  "x" ++ String.mk (bs.flatMap fun b => [hd (b / 16), hd (b % 16)])

/-- FNV-1a, 64 bit -/
def fnv64 (bs : List Nat) : UInt64 :=
  bs.foldl (fun h b => (h ^^^ UInt64.ofNat b) * 1099511628211) 14695981039346656037

/-- bytes accepted by a failing writer as the harness reports them: hex when short, otherwise
length and FNV-1a hash (an output of several kilobytes at every fault point would be gigabytes) -/
def encAccepted (bs : List Nat) : String :=
  if bs.length ≤ 96 then hexOf bs else s!"y{bs.length}:{(fnv64 bs).toNat}"

end Sqroot.Driver

/-
Model answers for `root` and `rat` lines. Imports Model (and through it Gen).
-/
import Sqroot.Driver.Proto
import Sqroot.Model.Managers
namespace Sqroot.Driver
open Sqroot.Model

def parseVersion : String → Option Version
  | "v1" => some .v1 | "v2" => some .v2 | "v3" => some .v3 | _ => none

/-- what the model says the implementation prints for a root/rat line -/
def modelDigitsResult (mgr : Manager) (num den k : Nat) : String :=
  if num = 0 then "zero exp=0 digits=\"\" at0=-1"
  else
    let r := rootPrefix mgr num den (k + 1)
    let ds := r.1.take k
    let ended := r.1.length ≤ k
    s!"{r.2} {showDigits ds} {if ended then 1 else 0}"

def modelRatResult (num den k : Nat) : String :=
  if num = 0 then "zero exp=0 digits=\"\" at0=-1"
  else
    let r := ratPrefix num den (k + 1)
    let ds := r.1.take k
    let ended := r.1.length ≤ k
    s!"{r.2} {showDigits ds} {if ended then 1 else 0}"

def cmp (model impl : String) : String :=
  if model = impl then "ok" else s!"DIFF model={model} impl={impl}"

end Sqroot.Driver

/-
Parsing of Positions scripts (shared by both drivers; core only, no Model/Spec import).
-/
import Sqroot.Driver.Proto
namespace Sqroot.Driver

inductive PosTok
  | add (p : Int)
  | addRange (s e : Int)
  | build
  | upTo (e : Int)
  | between (s e : Int)
deriving Repr

def parseTwo (s : String) : Option (Int × Int) :=
  match s.splitOn ":" with
  | [a, b] => do pure (← a.toInt?, ← b.toInt?)
  | _ => none

def parsePosTok (t : String) : Option PosTok :=
  let arg := String.mk (t.toList.drop 1)
  match t.front with
  | 'a' => arg.toInt?.map .add
  | 'r' => (parseTwo arg).map fun (a, b) => .addRange a b
  | 'b' => some .build
  | 'u' => arg.toInt?.map .upTo
  | 'w' => (parseTwo arg).map fun (a, b) => .between a b
  | _ => none

def parsePosScript (s : String) : Option (List PosTok) :=
  if s = "-" then some [] else (s.splitOn ",").mapM parsePosTok

def parseRange (r : String) : Option (Int × Int) :=
  match r.splitOn ".." with
  | [a, b] => do pure (← a.toInt?, ← b.toInt?)
  | _ => none

/-- "<s>..<e>_<s>..<e>;<End>" -/
def parsePosVal (s : String) : Option (List (Int × Int) × Int) :=
  match s.splitOn ";" with
  | [rs, e] => do
    let e ← e.toInt?
    let rs ← (if rs = "-" then some [] else (rs.splitOn "_").mapM parseRange)
    pure (rs, e)
  | _ => none

def showPosVal (rs : List (Int × Int)) (e : Int) : String :=
  (if rs.isEmpty then "-" else "_".intercalate (rs.map fun (a, b) => s!"{a}..{b}")) ++ s!";{e}"

def parsePosResults (s : String) : Option (List (List (Int × Int) × Int)) :=
  if s = "-" then some [] else (s.splitOn "|").mapM parsePosVal

end Sqroot.Driver

/-
Model answers for `script` lines: the executable MODEL (Model/Memo, View, Format, Search,
Positions, Printer, Bufio, Ctor — built on the regenerated Gen definitions) is run on the same
statements as the implementation and its answers are compared literally (tie 2, direct form).
For every statement the model yields the exact result string, or "?" where the model has no
opinion (statement kinds not modelled for that version). The consult counter is predicted exactly
as long as every statement so far has exact consumption semantics in the model (`memoKnown`);
the comparison tolerates an undercount by the implementation (quiescence polling).
-/
import Sqroot.Driver.Script
import Sqroot.Model.View
import Sqroot.Model.Format
import Sqroot.Model.Search
import Sqroot.Model.Positions
import Sqroot.Model.Printer
import Sqroot.Model.Fprint
import Sqroot.Model.EndToEnd
import Sqroot.Model.Ctor
namespace Sqroot.Driver
open Sqroot.Model

def modelDepth : Nat := 3000

structure MNum where
  isZero : Bool
  exp : Int
  src : Src
  counting : Bool
  eagerFirst : Bool
  finiteBase : Bool
  /-- positions ≥ depth are unknown to the model's digit table -/
  depth : Option Nat

def mnumOfRoot (mgr : Manager) (num den : Nat) : MNum :=
  if num = 0 then ⟨true, 0, ⟨some 0, fun _ => 0⟩, false, false, true, none⟩
  else
    let r := rootPrefix mgr num den modelDepth
    let arr := r.1.toArray
    let ended := arr.size < modelDepth
    ⟨false, r.2, ⟨if ended then some arr.size else none, fun p => arr.getD p 0⟩, false, false, false,
      if ended then none else some modelDepth⟩

def mnumOfStream (stream : Nat → Int) (exp : Int) (finite : Bool) (counting eager : Bool) (maxLen : Nat) : MNum :=
  -- length of the valid prefix (searched up to maxLen; beyond = infinite)
  let len := (List.range (maxLen + 1)).find? fun p => (streamDigit stream p).isNone
  ⟨false, exp, ⟨len, fun p => (stream p).toNat⟩, counting, eager, finite, none⟩

def zeroMNum (counting eager : Bool) : MNum := ⟨true, 0, ⟨some 0, fun _ => 0⟩, counting, eager, true, none⟩

/-- `none` = the constructor must return an error -/
def mnumOf (v : Version) : NumDesc → Option MNum
  | .zero => some (zeroMNum false false)
  | .sqrt a b => some (mnumOfRoot (sqrtMgr v) a b)
  | .cube a b => some (mnumOfRoot (cubeMgr v) a b)
  | .rat a b =>
    if a = 0 then some (zeroMNum false false) else
    let r := ratPrefix a b modelDepth
    let arr := r.1.toArray
    let ended := arr.size < modelDepth
    some ⟨false, r.2, ⟨if ended then some arr.size else none, fun p => arr.getD p 0⟩, false, false, false,
      if ended then none else some modelDepth⟩
  | .test f r e =>
    match newNumberForTesting f r e with
    | .zero => some (zeroMNum false false)
    | .error _ => none
    | .number fin stream ex => some (mnumOfStream stream ex fin false false (f.length + 1))
  | .finite f e =>
    match newFiniteNumber f e with
    | .zero => some (zeroMNum false false)
    | .error _ => none
    | .number fin stream ex => some (mnumOfStream stream ex fin false false (f.length + 1))
  | .gen l e _ first hashed =>
    let stream : Nat → Int := fun p =>
      if l ≥ 0 ∧ (p : Int) ≥ l then -1
      else match first with
        | some f => if p = 0 then f else (srcDigit hashed p : Int)
        | none => (srcDigit hashed p : Int)
    match v with
    | .v3 =>
      match newNumber stream e with
      | .number _ s ex => some (mnumOfStream s ex false true true (if l < 0 then 0 else l.toNat + 1) |> fun m =>
          if l < 0 then { m with src := ⟨none, m.src.digit⟩ } else m)
      | _ => some (zeroMNum true true)
    | _ => some ⟨false, e, ⟨if l < 0 then none else some l.toNat, srcDigit hashed⟩, true, false, false, none⟩

inductive MH
  | h3 (v : Val3)
  | h12 (v : Val12)

inductive MIter
  | fwd3 (it : PullIt)
  | fwd12 (it : PullIt) (lim : Option Int) (started : Bool)
  | back (h : Nat) (consumed : Nat)
  | unknown

structure MSt where
  memo : Memo
  handles : Array MH
  iters : Array MIter := #[]
  seqs : Array Nat := #[]
  finds : Array (Nat × List Int × Bool × Nat) := #[]
  memoKnown : Bool := true

def flags3 (v : Val3) : String :=
  let s := (if v.assertsFiniteSeq then "F" else "") ++ (if v.assertsFiniteNum then "P" else "") ++
    (if v.assertsNumber then "N" else "")
  if s == "" then "-" else s

def flags12 : Val12 → String
  | .num _ _ => "N"
  | .nws _ _ _ => "-"

def cfgOf (v : Version) : MemoCfg :=
  ⟨chunkSize v, (match v with | .v1 => Gen.V1.kMaxChunks | .v2 => Gen.V2.kMaxChunks | .v3 => Gen.V3.kMaxChunks).toNat⟩

def allTake : Nat := 1000000

def viewOpOf : Stmt → Option ViewOp
  | .ws _ x => some (.withStart x)
  | .we _ x => some (.withEnd x)
  | .wsig _ x => some (.withSig x)
  | .fws _ x => some (.finiteWithStart x)
  | _ => none

def takeSuffix (n : Nat) (take : Int) : String := if (n : Int) < take then "$" else ""

/-- window digits of a v3 value as a feed (position, digit), without touching the memo state -/
def feed3 (c : MemoCfg) (m : Memo) (v : Val3) (take : Nat) : List (Nat × Nat) :=
  match v.forward c m take with
  | .ok r => r.2
  | .error _ => []

def feed12 (c : MemoCfg) (m : Memo) (v : Val12) (take : Nat) : List (Nat × Nat) :=
  (spec12Iterate c m v.spec v.start.toNat take).2

def isFinite3 (m : Memo) (v : Val3) : Bool :=
  m.src.len.isSome || (match v.spec with | .limited _ => true | .nil => true | .memo => false)
def isFinite12 (m : Memo) (v : Val12) : Bool :=
  m.src.len.isSome || (match v.spec with | .limited _ => true | .nil => true | .memo => false)

def exOk (x : Except Panic String) : String :=
  match x with
  | .ok s => s
  | .error p => p.tag

def resolvePS (v : Version) (isWrite : Bool) (o : OptSet) : PSettings :=
  let d : PrinterDefaults := match v, isWrite with
    | .v1, _ => Gen.V1.fprintDefaults
    | .v2, _ => Gen.V2.fprintDefaults
    | .v3, false => Gen.V3.fprintDefaults
    | .v3, true => Gen.V3.fwriteDefaults
  let s := PSettings.ofDefaults d
  { s with digitsPerRow := o.row.getD s.digitsPerRow, digitsPerColumn := o.col.getD s.digitsPerColumn,
           showCount := o.showCount.getD s.showCount, missingDigit := o.missing.getD s.missingDigit,
           bufferSize := o.bufSize.getD s.bufferSize,
           trailingLineFeed := (match v with | .v3 => o.trailingLF.getD s.trailingLineFeed | _ => false),
           leadingDecimal := (match v with | .v3 => o.leadingDecimal.getD s.leadingDecimal | _ => true) }

def buildPositions (ps : List PTok) : Option (List PRange) :=
  let calls : List BCall := ps.map fun | .add p => .add p | .addRange s e => .addRange s e
  match (({} : Builder).calls calls) with
  | .ok b => match b.build with
    | .ok (r, _) => some r
    | .error _ => none
  | .error _ => none

def reliableSink : Sink := { w := faultWriter 3 0 }

/-- results of searching a finite feed -/
def findAnswer (op : String) (isV3 : Bool) (pat : List Int) (n : Int) (feed : List (Nat × Nat)) (fin : Bool) : String :=
  let feedI := feed.map fun (p, d) => ((p : Int), (d : Int))
  let fwd := if isV3 then matchesAll pat.toArray feedI else matchesAllV1 pat.toArray feedI
  let bwd := if isV3 then backwardMatchesAll pat.toArray feedI.reverse else backwardMatchesAllV1 pat.toArray feedI.reverse
  match fwd, bwd with
  | .ok occ, .ok rocc =>
    let known := fun (cnt : Nat) => fin || occ.length ≥ cnt
    match op with
    | "ff" => if known 1 then toString (occ.headD (-1)) else "?"
    | "ffn" => if known n.toNat then showInts (occ.take n.toNat) else "?"
    | "fa" => if fin then showInts occ else "?"
    | "fl" => if fin then toString (rocc.headD (-1)) else "?"
    | "fln" => if fin then showInts (rocc.take n.toNat) else "?"
    | "find" => if known n.toNat then showInts (occ.take n.toNat ++ List.replicate (n.toNat - occ.length) (-1)) else "?"
    | "findr" => if fin then showInts (rocc.take n.toNat ++ List.replicate (n.toNat - rocc.length) (-1)) else "?"
    | "m" | "m2" =>
      if n ≤ 0 then "-" else if known n.toNat then showInts (occ.take n.toNat) ++ takeSuffix (occ.take n.toNat).length n else "?"
    | "bm" => if n ≤ 0 then "-" else if fin then showInts (rocc.take n.toNat) else "?"
    | _ => "?"
  | .error p, _ => p.tag
  | _, .error p => p.tag

def modelStmt (ver : Version) (mn : MNum) (st : MSt) (s : Stmt) : String × MSt :=
  let c := cfgOf ver
  let isV3 := ver == .v3
  let unknownMemo := fun (st : MSt) => { st with memoKnown := false }
  match viewOpOf s with
  | some op =>
    let h := match s with | .ws h _ | .we h _ | .wsig h _ | .fws h _ => h | _ => 0
    match (st.handles[h]? : Option MH) with
    | none => ("na", st)
    | some (.h3 v) =>
      match v.apply op with
      | none => ("na", st)
      | some (.error p) => (p.tag.replace " " "_", st)
      | some (.ok v') => (flags3 v', { st with handles := st.handles.push (.h3 v') })
    | some (.h12 v) =>
      match v.apply op with
      | none => ("na", st)
      | some (.error p) => (p.tag.replace " " "_", st)
      | some (.ok v') => (flags12 v', { st with handles := st.handles.push (.h12 v') })
  | none =>
  match s with
  | .cons =>
    if !mn.counting then ("na", st)
    else if !st.memoKnown then ("?", st)
    else
      let memoCalls := st.memo.consulted
      let calls := if mn.eagerFirst then max 1 memoCalls else memoCalls
      (s!"<={calls}", st)
  | .at h p =>
    match (st.handles[h]? : Option MH) with
    | some (.h3 v) =>
      if !v.assertsNumber then ("na", st) else
      let (m', r) := specAt c st.memo v.spec p
      (toString r, { st with memo := m' })
    | some (.h12 (.num sp _)) =>
      let (m', r) := specAt c st.memo sp p
      (toString r, { st with memo := m' })
    | _ => ("na", st)
  | .exp h =>
    match (st.handles[h]? : Option MH) with
    | some (.h3 v) => (match v.exponent with | some e => if v.assertsNumber then toString e else "na" | none => "na", st)
    | some (.h12 (.num _ e)) => (toString e, st)
    | _ => ("na", st)
  | .zero h =>
    match (st.handles[h]? : Option MH) with
    | some (.h3 v) => (if v.assertsNumber then toString v.isZero else "na", st)
    | some (.h12 (.num sp _)) => (toString (sp == .nil), st)
    | _ => ("na", st)
  | .fwd h take | .fwd2 h take | .run h take =>
    let h := match s with | .run q _ => st.seqs.getD q 1000000 | _ => h
    let digitsOnly : Bool := match s with | .fwd2 _ _ => true | _ => false
    if h == 2000000 then ("?", unknownMemo st) else
    match (st.handles[h]? : Option MH) with
    | some (.h3 v) =>
      if take ≤ 0 then ("-", st) else
      match v.forward c st.memo take.toNat with
      | .ok (m', xs) =>
        ((if digitsOnly then digitsShow (xs.map (·.2)) else pdShow xs) ++ takeSuffix xs.length take, { st with memo := m' })
      | .error p => (p.tag, st)
    | some (.h12 v) =>
      (match s with
       | .fwd _ _ =>
         let xs := feed12 c st.memo v take.toNat
         (pdShow xs ++ takeSuffix xs.length take, unknownMemo st)
       | .fwd2 _ _ =>
         -- v1 Number.Iterator(): digits only, Numbers only; v2 has no such method
         (match ver, v with
          | .v1, .num _ _ =>
            let xs := feed12 c st.memo v take.toNat
            (digitsShow (xs.map (·.2)) ++ takeSuffix xs.length take, unknownMemo st)
          | _, _ => ("na", st))
       | _ => ("na", st))
    | none => ("na", st)
  | .mkms _ _ _ => ("?", st)      -- stored Matches values: the specification's business
  | .runm _ _ => ("?", unknownMemo st)
  | .mkseq h =>
    if isV3 then ("ok", { st with seqs := st.seqs.push h }) else ("na", st)
  | .mkseqb h =>
    -- a stored Backward() sequence: recorded (as an unknown handle), its runs are not modelled
    (match (st.handles[h]? : Option MH) with
     | some (.h3 v) => if v.assertsFiniteSeq then ("ok", { st with seqs := st.seqs.push 2000000 }) else ("na", st)
     | _ => ("na", st))
  | .back h take | .back2 h take =>
    let isBack2 : Bool := match s with | .back2 _ _ => true | _ => false
    match (st.handles[h]? : Option MH) with
    | some (.h3 v) =>
      if !v.assertsFiniteSeq then ("na", st)
      else if take ≤ 0 then ("-", st)
      else if !isFinite3 st.memo v then ("?", unknownMemo st)
      else
        let (m', xs) := v.backward c st.memo take.toNat
        (pdShow xs, { st with memo := m' })
    | some (.h12 v) =>
      if isBack2 ∧ ver == .v2 then ("na", st)
      else if isBack2 && (match v with | .num _ _ => false | _ => true) then ("na", st)
      else if !isFinite12 st.memo v then ("?", unknownMemo st)
      else
        let all := feed12 c st.memo v allTake
        let xs := all.reverse.take take.toNat
        ((if isBack2 then digitsShow (xs.map (·.2)) else pdShow xs), unknownMemo st)
    | none => ("na", st)
  | .astr h =>
    match (st.handles[h]? : Option MH) with
    | some (.h3 v) =>
      if !v.assertsFiniteSeq then ("na", st)
      else if !isFinite3 st.memo v then ("?", unknownMemo st)
      else match v.forward c st.memo allTake with
        | .ok (m', xs) => (digitsShow (xs.map (·.2)), { st with memo := m' })
        | .error p => (p.tag, st)
    | _ => ("na", st)
  | .nd h =>
    match ver, st.handles[h]? with
    | .v1, some (.h12 (.num sp e)) =>
      if !isFinite12 st.memo (.num sp e) then ("?", unknownMemo st)
      else (toString (feed12 c st.memo (.num sp e) allTake).length, unknownMemo st)
    | _, _ => ("na", st)
  | .itat h p take =>
    match ver, st.handles[h]? with
    | .v1, some (.h12 (.num sp _)) =>
      if p < 0 then ("panic:posit_must_be_non-negative", st)
      else
        let xs := (spec12Iterate c st.memo sp p.toNat take.toNat).2
        (digitsShow (xs.map (·.2)) ++ takeSuffix xs.length take, unknownMemo st)
    | _, _ => ("na", st)
  | .mk h kind =>
    match (st.handles[h]? : Option MH) with
    | some (.h3 v) =>
      if kind == "fwd" then
        let it : MIter := match v.spec with
          | .nil => .fwd3 { index := 0, limit := 0, initialized := true, snap := 0, ok := false }
          | .memo => .fwd3 { index := v.start.toNat, limit := maxInt }
          | .limited l => .fwd3 { index := (min v.start l).toNat, limit := l }
        ("ok", { st with iters := st.iters.push it })
      else if kind == "back" then
        if v.assertsFiniteSeq then ("ok", { st with iters := st.iters.push (.back h 0) }) else ("na", st)
      else ("na", st)
    | some (.h12 _) =>
      -- v1/v2 pull iterators fetch eagerly; results are modelled, consumption is not
      if kind == "fwd" ∨ kind == "back" then ("ok", unknownMemo { st with iters := st.iters.push (if kind == "back" then .back h 0 else .unknown) })
      else ("na", st)
    | none => ("na", st)
  | .nx it n =>
    match st.iters[it]? with
    | none => ("na", st)
    | some (.fwd3 pit) =>
      let rec go (k : Nat) (m : Memo) (pit : PullIt) (acc : List (Nat × Nat)) : Memo × PullIt × List (Nat × Nat) × Bool :=
        match k with
        | 0 => (m, pit, acc.reverse, false)
        | k + 1 =>
          let (m', pit', r) := m.pull3 c pit
          match r with
          | none => (m', pit', acc.reverse, true)
          | some x => go k m' pit' (x :: acc)
      let (m', pit', xs, ended) := go n.toNat st.memo pit []
      (pdShow xs ++ (if ended then "$" else ""), { st with memo := m', iters := st.iters.set! it (.fwd3 pit') })
    | some (.back h consumed) =>
      match (st.handles[h]? : Option MH) with
      | some (.h3 v) =>
        if !isFinite3 st.memo v then ("?", unknownMemo st) else
        let (m', all) := v.backward c st.memo allTake
        let xs := (all.drop consumed).take n.toNat
        (pdShow xs ++ takeSuffix xs.length n, { st with memo := m', iters := st.iters.set! it (.back h (consumed + xs.length)) })
      | some (.h12 v) =>
        if !isFinite12 st.memo v then ("?", unknownMemo st) else
        let all := (feed12 c st.memo v allTake).reverse
        let xs := (all.drop consumed).take n.toNat
        (pdShow xs ++ takeSuffix xs.length n, unknownMemo { st with iters := st.iters.set! it (.back h (consumed + xs.length)) })
      | none => ("na", st)
    | some _ => ("?", unknownMemo st)
  | .str h | .exact h | .fmt h _ =>
    if formatRuleUntranslated ver then ("?", unknownMemo st) else
    let numInfo : Option (VSpec × Int × Bool) := match (st.handles[h]? : Option MH) with
      | some (.h3 v) => if v.assertsNumber then (match v.exponent with | some e => some (v.spec, e, v.assertsFiniteNum) | none => none) else none
      | some (.h12 (.num sp e)) => some (sp, e, false)
      | _ => none
    match numInfo with
    | none => ("na", st)
    | some (sp, e, isFnum) =>
      let pull := fun (need : Nat) (st : MSt) =>
        -- digits the formatter pulls through mantissa.Values() (v3) / iteratorAt(0) (v1, v2)
        if need = 0 then (([] : List Nat), if isV3 then st else unknownMemo st)
        else match ver with
          | .v3 => (match specScan c st.memo sp 0 need with
              | .ok (m', xs) => (xs.map (·.2), { st with memo := m' })
              | .error _ => ([], st))
          | _ => (((spec12Iterate c st.memo sp 0 need).2).map (·.2), unknownMemo st)
      match s with
      | .str _ =>
        let fs := stringSpec ver e
        let (ds, st') := pull fs.sigDigits.toNat st
        ("\"" ++ exOk (numString ver e ds) ++ "\"", st')
      | .exact _ =>
        if !isV3 ∨ !isFnum then ("na", st)
        else if !(st.memo.src.len.isSome || (match sp with | .limited _ => true | .nil => true | .memo => false)) then ("?", unknownMemo st)
        else
          let (ds, st') := pull allTake st
          ("\"" ++ exOk (numExact e ds) ++ "\"", st')
      | .fmt _ dir =>
        (match parseDirective dir with
         | none => ("?", st)
         | some d =>
           if d.otherFlags then ("?", unknownMemo st) else
           let r := genNewFormatSpec ver (d.prec.getD 0) d.prec.isSome d.verb.toNat e
           let need : Nat := if r.2 then r.1.sigDigits.toNat else (stringSpec ver e).sigDigits.toNat
           let (ds, st') := pull (min need 20000) st
           ("\"" ++ exOk (numFormat ver e ds d.verb.toNat d.prec d.width d.minus) ++ "\"", st'))
      | _ => ("?", st)
  | .find op h pat n =>
    let finiteOnly : Bool := ["fa", "fl", "fln", "findr", "bm"].contains op
    match (st.handles[h]? : Option MH) with
    | some (.h3 v) =>
      if finiteOnly ∧ !v.assertsFiniteSeq then ("na", st) else
      let fin := isFinite3 st.memo v
      let bound := if fin then allTake else 12000
      let feed := feed3 c st.memo v bound
      -- the lazy searches that STOP at their answer: the memoizer state afterwards is the one of
      -- `findFirstN3` (theorem findFirstN_stops_at_answer_end_to_end) — exact consult counter
      let st' : MSt :=
        if op == "ff" || op == "ffn" || op == "m" || op == "m2" then
          let k : Nat := if op == "ff" then 1 else n.toNat
          if k = 0 then st                      -- v3: nothing is ranged over
          else match findFirstN3 c st.memo v pat k bound with
            | .ok (m', ms, _) => if ms.length = k then { st with memo := m' } else unknownMemo st
            | .error _ => unknownMemo st
        else unknownMemo st
      (findAnswer op true pat n feed fin, st')
    | some (.h12 v) =>
      if op == "m" ∨ op == "m2" ∨ op == "bm" then ("na", st) else
      let fin := isFinite12 st.memo v
      if finiteOnly ∧ !fin then ("?", unknownMemo st) else
      let feed := feed12 c st.memo v (if fin then allTake else 12000)
      (findAnswer op false pat n feed fin, unknownMemo st)
    | none => ("na", st)
  | .mkf h pat back =>
    match (st.handles[h]? : Option MH) with
    | some (.h3 v) =>
      if back ∧ !v.assertsFiniteSeq then ("na", st)
      else ("ok", unknownMemo { st with finds := st.finds.push (h, pat, back, 0) })
    | some (.h12 _) => ("ok", unknownMemo { st with finds := st.finds.push (h, pat, back, 0) })
    | none => ("na", st)
  | .nxf it n =>
    match st.finds[it]? with
    | none => ("na", st)
    | some (h, pat, back, consumed) =>
      let feedFin : Option (List (Nat × Nat) × Bool) := match (st.handles[h]? : Option MH) with
        | some (.h3 v) => let fin := isFinite3 st.memo v; some (feed3 c st.memo v (if fin then allTake else 12000), fin)
        | some (.h12 v) => let fin := isFinite12 st.memo v; some (feed12 c st.memo v (if fin then allTake else 12000), fin)
        | none => none
      match feedFin with
      | none => ("na", st)
      | some (feed, fin) =>
        if back ∧ !fin then ("?", st) else
        let feedI := feed.map fun (p, d) => ((p : Int), (d : Int))
        let occ := if back then (if isV3 then backwardMatchesAll pat.toArray feedI.reverse else backwardMatchesAllV1 pat.toArray feedI.reverse)
                   else (if isV3 then matchesAll pat.toArray feedI else matchesAllV1 pat.toArray feedI)
        match occ with
        | .error p => (p.tag, st)
        | .ok occ =>
          if !fin ∧ occ.length < consumed + n.toNat then ("?", st) else
          let avail := (occ.drop consumed).take n.toNat
          (showInts (avail ++ List.replicate (n.toNat - avail.length) (-1)),
            { st with finds := st.finds.set! it (h, pat, back, consumed + avail.length) })
  | .pr h pos o | .fpr h pos o _ _ =>
    if printerUntranslated ver then ("?", unknownMemo st) else
    match buildPositions pos with
    | none => ("?", st)
    | some ranges =>
      if ranges.any (fun r => decide (r.stop - r.start > 6000)) then ("?", unknownMemo st) else
      let ps := resolvePS ver false o
      let maxDigits := positionsEnd ranges
      -- one feed per range: s.WithStart(pr.Start).WithEnd(pr.End)
      let feeds : Option (List (List (Nat × Nat)) × Memo) := match (st.handles[h]? : Option MH) with
        | some (.h3 v) =>
          ranges.foldlM (fun (acc : List (List (Nat × Nat)) × Memo) r =>
            match v.apply (.withStart r.start) with
            | some (.ok v1) => match v1.apply (.withEnd r.stop) with
              | some (.ok v2) => match v2.forward c acc.2 allTake with
                | .ok (m', xs) => some (acc.1 ++ [xs], m')
                | .error _ => none
              | _ => none
            | _ => none) ([], st.memo)
        | some (.h12 v) =>
          ranges.foldlM (fun (acc : List (List (Nat × Nat)) × Memo) r =>
            match v.apply (.withStart r.start) with
            | some (.ok v1) => match v1.apply (.withEnd r.stop) with
              | some (.ok v2) => some (acc.1 ++ [feed12 c acc.2 v2 allTake], acc.2)
              | _ => none
            | _ => none) ([], st.memo)
        | none => none
      match feeds with
      | none => ("?", st)
      | some (fs, m') =>
        match s with
        | .fpr _ _ _ mode k =>
          if k % 13 != 0 ∧ k > 3 then ("?", unknownMemo st) else
          -- on a counting source the implementation also reports the calls the source received
          -- after the writer's fault: none (`rangesFault3`: nothing is requested once the error is latched)
          let after := if mn.counting then "/0" else ""
          (match (st.handles[h]? : Option MH) with
           | some (.h3 v) =>
             -- v3: exact requests of the early-exit loops
             (match fprintFault3 c st.memo { w := faultWriter mode k } ps v ranges with
              | some (.ok (r, mF)) => (s!"{r.written}/{r.err}/{encAccepted r.accepted}{after}", { st with memo := mF })
              | some (.error p) => (p.tag, unknownMemo st)
              | none => ("?", unknownMemo st))
           | some (.h12 v) =>
             -- v1/v2: pull iterators with one digit of look-ahead
             (match fprintFault12 ver c st.memo { w := faultWriter mode k } ps v ranges with
              | some (.ok (r, mF)) => (s!"{r.written}/{r.err}/{encAccepted r.accepted}{after}", { st with memo := mF })
              | some (.error p) => (p.tag, unknownMemo st)
              | none => ("?", unknownMemo st))
           | none => ("?", unknownMemo st))
        | _ =>
          (match printRun ver reliableSink maxDigits ps fs with
           | .ok r =>
             (hexOf r.accepted,
              if isV3 then { st with memo := m' }
              else match (st.handles[h]? : Option MH) with
                | some (.h12 v) =>
                  -- the requests of the pull iterators (a reliable sink never stops them early)
                  (match rangesFault12 c st.memo (newPrinter ver reliableSink maxDigits ps) v ranges with
                   | some (.ok (mF, _)) => { st with memo := mF }
                   | _ => unknownMemo st)
                | _ => unknownMemo st)
           | .error p => (p.tag, unknownMemo st))
  | .wr h o | .fwr h o _ _ =>
    if printerUntranslated ver then ("?", unknownMemo st) else
    match (st.handles[h]? : Option MH) with
    | some (.h3 v) =>
      if !v.assertsFiniteSeq then ("na", st)
      else if !isFinite3 st.memo v then ("?", unknownMemo st)
      else
        let ps := resolvePS ver true o
        -- endOf(s): first item of Backward() + 1
        let (m1, bk) := v.backward c st.memo 1
        let maxDigits : Int := match bk.head? with | some (p, _) => (p : Int) + 1 | none => 0
        match v.forward c m1 allTake with
        | .error p => (p.tag, st)
        | .ok (m2, xs) =>
          (match s with
           | .fwr _ _ mode k =>
             if k % 13 != 0 ∧ k > 3 then ("?", unknownMemo st) else
             let after := if mn.counting then "/0" else ""
             (match fwriteFault3 c st.memo { w := faultWriter mode k } ps v xs.length with
              | some (.ok (r, mF)) => (s!"{r.written}/{r.err}/{encAccepted r.accepted}{after}", { st with memo := mF })
              | some (.error p) => (p.tag, unknownMemo st)
              | none => ("?", unknownMemo st))
           | _ =>
             (match printRun ver reliableSink maxDigits ps [xs] with
              | .ok r => (hexOf r.accepted, { st with memo := m2 })
              | .error p => (p.tag, unknownMemo st)))
    | _ => ("na", st)
  | _ => ("?", st)

/-- largest integer argument of a statement (positions, counts, range bounds) -/
def stmtMaxArg : Stmt → Int
  | .ws _ x | .we _ x | .wsig _ x | .fws _ x | .at _ x | .fwd _ x | .fwd2 _ x | .back _ x | .back2 _ x
  | .nx _ x | .run _ x | .nxf _ x => x
  | .itat _ p t => max p 0 + max t 0
  | .find _ _ _ n => n
  | .pr _ pos _ | .fpr _ pos _ _ _ => pos.foldl (fun a t => match t with | .add p => max a p | .addRange s e => max a (max s e)) 0
  | .fmt _ d => match parseDirective d with | some dd => (dd.prec.getD 16 : Nat) | none => 0
  | _ => 0

def handleStart : MH → Int
  | .h3 v => v.start
  | .h12 v => v.start

/-- compare one statement's model answer with the implementation's -/
def agrees (model impl : String) : Bool :=
  if model == "?" then true
  else if model.startsWith "<=" then
    -- consult counter: "calls/afterEnd/reentry"; an undercount is tolerated (quiescence polling)
    match (String.mk (model.toList.drop 2)).toNat?, (impl.splitOn "/").map String.toNat? with
    | some bound, [some calls, some 0, some 0] => calls ≤ bound
    | _, _ => false
  else model == impl

def unknownMemoSt (st : MSt) : MSt := { st with memoKnown := false }

def modelScriptLine (v desc stmts raw : String) : String :=
  let desc := if desc.startsWith "D" then String.mk (desc.toList.drop 1) else desc
  match (match v with | "v1" => some Version.v1 | "v2" => some .v2 | "v3" => some .v3 | _ => none),
        parseNumDesc desc, parseStmts stmts with
  | some ver, some nd, some ss =>
    if raw == "na" then "ok"
    else if raw.startsWith "!!" then "ok"        -- hangs / escaped panics are the spec driver's business
    else if (match nd with | .sqrt _ _ | .cube _ _ => true | _ => false) && rootArithmeticUntranslated ver then "ok"
    else match mnumOf ver nd with
    | none => if raw.startsWith "err:" then "ok" else s!"DIFF model=err impl={raw}"
    | some mn =>
      if raw.startsWith "err:" then s!"DIFF model=number impl={raw}" else
      let base : MH := match ver with
        | .v3 => .h3 (if mn.isZero then zero3 else if mn.finiteBase then .fnum .memo mn.exp else .opqN .memo mn.exp)
        | _ => .h12 (if mn.isZero then zero12 else .num .memo mn.exp)
      let st0 : MSt := { memo := { src := mn.src }, handles := #[base] }
      let rs := if raw == "-" then [] else raw.splitOn ";"
      let rec go : List Stmt → List String → MSt → Nat → String
        | [], _, _, _ => "ok"
        | _ :: _, [], _, _ => "ok"
        | s :: ss, r :: rs, st, i =>
          let (want, st') := modelStmt ver mn st s
          -- beyond the model's digit table nothing can be said
          -- positions the statement can touch: its largest argument on top of the largest window start
          let maxLo := st'.handles.foldl (fun a h => max a (handleStart h)) 0
          let beyond := match mn.depth with
            | some d => decide (st'.memo.maxLength + 200 ≥ d) || decide (st.memo.maxLength + 200 ≥ d) ||
                decide (stmtMaxArg s + maxLo + 700 ≥ (d : Int))
            | none => false
          if beyond then go ss rs (unknownMemoSt st') (i + 1)
          else if agrees want r then
            -- keep the handle tables in step with the implementation ("na" from it pushes nothing)
            go ss rs st' (i + 1)
          else s!"DIFF statement {i}: model={want.take 300} impl={r.take 300}"
      go ss rs st0 0
  | _, _, _ => "FAIL unparsable script"

end Sqroot.Driver

/-
Spec oracle for `root` and `rat` lines (C01, C02, C03, C13-rational, C18 digits).
Imports Spec only.
-/
import Sqroot.Driver.Proto
import Sqroot.Spec.Root
namespace Sqroot.Driver
open Sqroot.Spec

/-- prefixes at which the truncation inequality is evaluated -/
def samplePrefixes (len : Nat) : List Nat :=
  ([1, 2, 3, 5, 16, 17, 50, 99, 100, 101, 199, 200, 201, len / 2, len - 1, len].filter
    fun j => 1 ≤ j ∧ j ≤ len).eraseDups

def checkDigits (n num den : Nat) (e : Int) (ds : List Nat) (ended : Bool) (k : Nat) : String :=
  let len := ds.length
  if num = 0 then "FAIL zero radicand must give the zero number"
  else if len > k then "FAIL more digits than asked"
  else if len = 0 ∧ k > 0 then "FAIL non-zero value without digits"
  else if ¬ decide (DigitsOk ds) then "FAIL digit out of range or leading zero"
  else if !ended ∧ len < k then "FAIL fewer digits than asked but not ended"
  else
    let bad := (samplePrefixes len).filter fun j =>
      ¬ decide (TruncRoot n num den (ofDigits (ds.take j)) e j)
    if !bad.isEmpty then s!"FAIL truncation inequality fails at prefix lengths {bad}"
    else
      let exactAt := fun j => decide (ExactRoot n num den (ofDigits (ds.take j)) e j)
      if ended then
        if len = 0 then "ok"
        else if ¬ exactAt len then "FAIL sequence ended but the digits are not the exact root"
        else if ds.getLast? = some 0 then "FAIL sequence ended with a trailing zero"
        else "ok"
      else
        let early := (samplePrefixes len).filter exactAt
        if !early.isEmpty then s!"FAIL root is exact at prefix {early} but the sequence did not end there"
        else "ok"

def specRootLine (n : Nat) (num den : Nat) (k : Nat) (res : List String) (raw : String) : String :=
  match res with
  | "zero" :: rest =>
    if num ≠ 0 then "FAIL zero number for a non-zero value"
    else if rest = ["exp=0", "digits=\"\"", "at0=-1"] then "ok"
    else s!"FAIL zero number with wrong observables: {raw}"
  | [es, dss, ens] =>
    match es.toInt?, digitsOfString dss, ens.toNat? with
    | some e, some ds, some en => checkDigits n num den e ds (en == 1) k
    | _, _, _ => s!"FAIL unparsable result: {raw}"
  | _ => s!"FAIL implementation did not return normally: {raw}"

end Sqroot.Driver

/-
Line protocol shared by the two drivers (core only).
A line is `<kind> <arg tokens...> => <result tokens...>`.
-/
namespace Sqroot.Driver

structure Line where
  kind : String
  args : List String
  res : List String
  rawRes : String
deriving Repr

def tokens (s : String) : List String := (s.splitOn " ").filter (· ≠ "")

def parseLine (s : String) : Option Line :=
  match s.splitOn " => " with
  | [l, r] =>
    match tokens l with
    | k :: as => some ⟨k, as, tokens r, r⟩
    | [] => none
  | _ => none

def digitsOfString (s : String) : Option (List Nat) :=
  if s = "-" then some []
  else s.toList.mapM fun c => if c.isDigit then some (c.toNat - '0'.toNat) else none

/-- comma separated ints, "-" = empty -/
def intList (s : String) : Option (List Int) :=
  if s = "-" then some [] else (s.splitOn ",").mapM String.toInt?

def natList (s : String) : Option (List Nat) :=
  if s = "-" then some [] else (s.splitOn ",").mapM String.toNat?

def showInts (l : List Int) : String :=
  if l.isEmpty then "-" else ",".intercalate (l.map toString)

def showDigits (l : List Nat) : String :=
  if l.isEmpty then "-" else String.mk (l.map fun d => Char.ofNat (d + 48))

/-- run a per-line function over stdin, printing one verdict per line -/
partial def loop (h : IO.FS.Stream) (out : IO.FS.Stream) (f : Line → String) : IO Unit := do
  let line ← h.getLine
  if line.isEmpty then return ()
  let l := (line.dropRightWhile (· == '\n')).dropRightWhile (· == '\r')
  match parseLine l with
  | none => out.putStrLn "FAIL unparsable line"
  | some ln => out.putStrLn ((f ln).replace "\n" " ")   -- one verdict per line, whatever a pretty-printer did
  loop h out f

end Sqroot.Driver

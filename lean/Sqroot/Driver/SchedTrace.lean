/-
Trace validation for `strace` lines (C05, tie 2 for the monitor): the implementation was run
under the controlled scheduler of /verif/go/sched (every goroutine a task, one task at a time, the
interleaving chosen by the harness) and logged every sync operation of the memoizer together with
the values of maxLength / len(data) / done. This file replays that log through the FINE-GRAINED
monitor model `Model/MonitorFine.lean` — the system the C05 theorems are about:

  * every logged operation must be the next visible micro step of that thread in the model
    (Lock, Wait, Wake-and-reacquire, Signal, Broadcast, Unlock; the model's silent micro steps —
    reads, writes, the producer's digit computations — are taken in between),
  * after it the model's (maxLength, len, done) must equal the logged snapshot,
  * every value a reader's call returned must be what the model's `results` say,
  * a thread the implementation blocked must be blocked in the model.

So every explored interleaving of the real code is shown to be a run of the model.
Core only.
-/
import Sqroot.Driver.Script
import Sqroot.Model.MonitorFine
import Sqroot.Model.Managers
import Sqroot.Driver.ModelRoot
namespace Sqroot.Driver
open Sqroot.Model

structure SEv where
  tid : Int
  kind : String
  val : Int
  mx : Int
  ln : Int
  dn : Int
deriving Repr

def parseSEv (s : String) : Option SEv :=
  match s.splitOn ":" with
  | [t, k, v, mx, ln, dn, _] => do
    pure ⟨← t.toInt?, k, ← v.toInt?, ← mx.toInt?, ← ln.toInt?, ← dn.toInt?⟩
  | _ => none

/-- the visible operation the next micro step of reader `k` performs (`none` = silent step,
`some "-"` = cannot move) -/
def readerNext (s : FSt) (k : Nat) : Option String :=
  match s.readers[k]? with
  | none => some "-"
  | some r =>
    match r.pc with
    | .idle => if r.todo.isEmpty then some "-" else some "A"
    | .acq _ => some "L"
    | .acqW _ => some "K"
    | .r1 _ | .r2 _ => none
    | .r3 _ => some "S"
    | .r4 i => if !s.done && s.len ≤ i then some "W" else none
    | .r5 _ _ _ => some "U"
    | .parked _ => some "-"

def prodNext (s : FSt) : Option String :=
  match s.prod with
  | .acq _ => some "L"
  | .acqW _ => some "K"
  | .p1 _ => if s.len ≥ s.maxLength then some "W" else none
  | .p2 _ => some "U"
  | .parked _ => some "-"
  | .computing _ _ _ => none
  | .sAcq _ _ _ _ => some "L"
  | .s1 _ _ _ _ | .s2 _ _ _ _ => none
  | .s3 _ _ _ _ => some "B"
  | .s4 _ _ _ _ => some "U"
  | .exited => some "E"

def snapshotOk (s : FSt) (e : SEv) : Bool :=
  (e.mx < 0 || e.mx == (s.maxLength : Int)) && (e.ln < 0 || e.ln == (s.len : Int)) &&
  (e.dn < 0 || e.dn == (if s.done then 1 else 0))

def showSt (s : FSt) : String :=
  s!"maxLength={s.maxLength} len={s.len} done={s.done} prod={repr s.prod} readers={repr (s.readers.map (·.pc))}"

/-- advance thread `tid` through its silent micro steps to the visible operation `kind`, take
it, and compare the snapshot -/
def stepTo (c : MonCfg) (isProd : Bool) (k : Nat) (e : SEv) : Nat → FSt → Except String FSt
  | 0, s => .error s!"model did not reach operation {e.kind} of task {e.tid} within its fuel; {showSt s}"
  | fuel + 1, s =>
    let nxt := if isProd then prodNext s else readerNext s k
    let stp := if isProd then fStepProd c s else fStepReader c s k
    match nxt with
    | none =>
      match stp with
      | some s' => stepTo c isProd k e fuel s'
      | none => .error s!"model: silent step of task {e.tid} not enabled; {showSt s}"
    | some op =>
      if op != e.kind then
        .error s!"implementation performed {e.kind} in task {e.tid} where the model's next operation of that thread is {op}; {showSt s}"
      else match stp with
        | none => .error s!"implementation performed {e.kind} in task {e.tid}, which is not enabled in the model (mutex held by {repr s.mu}); {showSt s}"
        | some s' =>
          if snapshotOk s' e then .ok s'
          else .error s!"after {e.kind} of task {e.tid} the implementation has maxLength={e.mx} len={e.ln} done={e.dn}, the model {showSt s'}"

def validateEvents (c : MonCfg) (readers : Nat) : List SEv → FSt → Except String FSt
  | [], s => .ok s
  | e :: es, s =>
    if e.kind == "G" || e.kind == "I" then validateEvents c readers es s
    else if e.tid == 0 then
      if e.kind == "E" then
        -- the producer goroutine returned
        match stepToExit c (c.chunk + 12) s with
        | .ok s' => validateEvents c readers es s'
        | .error m => .error m
      else
        match stepTo c true 0 e (c.chunk + 12) s with
        | .ok s' => validateEvents c readers es s'
        | .error m => .error m
    else
      let k := (e.tid - 1).toNat
      if e.tid < 1 || k ≥ readers then .error s!"event of unknown task {e.tid}"
      else if e.kind == "A" then
        match s.readers[k]? with
        | some r =>
          match r.pc, r.todo with
          | .idle, i :: _ =>
            if (i : Int) != e.val then .error s!"task {e.tid} calls wait({e.val}), the model's program says {i}"
            else match fStepReader c s k with
              | some s' => validateEvents c readers es s'
              | none => .error "model: call start not enabled"
          | _, _ => .error s!"task {e.tid} starts a call while the model's reader is at {repr r.pc}"
        | none => .error "no such reader"
      else if e.kind == "R" then
        match s.readers[k]? with
        | some r =>
          match r.pc, r.results with
          | .idle, (i, _, ok) :: _ =>
            let want : Int := if ok then c.src i else -1
            if want != e.val then .error s!"At({i}) returned {e.val} in task {e.tid}; the model's wait gave ok={ok}, digit {want}"
            else validateEvents c readers es s
          | _, _ => .error s!"task {e.tid} returned from a call while the model's reader is at {repr r.pc}"
        | none => .error "no such reader"
      else if e.kind == "E" then
        match s.readers[k]? with
        | some r =>
          if r.pc == .idle && r.todo.isEmpty then validateEvents c readers es s
          else .error s!"task {e.tid} ended while the model's reader is at {repr r.pc} with {r.todo.length} calls to make"
        | none => .error "no such reader"
      else
        match stepTo c false k e 12 s with
        | .ok s' => validateEvents c readers es s'
        | .error m => .error m
where
  stepToExit (c : MonCfg) : Nat → FSt → Except String FSt
    | 0, s => .error s!"producer goroutine returned but the model's producer is at {repr s.prod}"
    | fuel + 1, s =>
      match prodNext s with
      | some "E" => .ok s
      | none => match fStepProd c s with
        | some s' => stepToExit c fuel s'
        | none => .error "model: silent producer step not enabled"
      | some op => .error s!"producer goroutine returned where the model's producer is about to {op}; {showSt s}"

def monCfgOf (v : Version) (src : Nat → Int) : MonCfg :=
  { chunk := chunkSize v,
    maxChunks := (match v with | .v1 => Gen.V1.kMaxChunks | .v2 => Gen.V2.kMaxChunks | .v3 => Gen.V3.kMaxChunks).toNat,
    src := src,
    endTest := match v with | .v1 => Gen.V1.runEndTest | .v2 => Gen.V2.runEndTest | .v3 => Gen.V3.runEndTest }

/-- positions a program of `at:0:<i>` statements asks for -/
def atProgram (p : String) : Option (List Nat) :=
  (p.splitOn ";").mapM fun st =>
    match st.splitOn ":" with
    | ["at", "0", i] => i.toNat?
    | _ => none

/-- some thread can move in the model -/
def anyEnabled (c : MonCfg) (s : FSt) : Bool :=
  (fStepProd c s).isSome || (List.range s.readers.length).any fun k => (fStepReader c s k).isSome

def straceLine (v desc progs : String) (raw : String) : String :=
  match parseVersion v, parseNumDesc desc, (progs.splitOn "|").mapM atProgram with
  | some ver, some (.gen len _ ill first hashed), some programs =>
    if ill || first.isSome then "skip" else
    match raw.splitOn " ## " with
    | [evs, _, _, status] =>
      if ver == Version.v3 && len == 0 then "skip"    -- NewNumber returns the zero Number: no memoizer
      else
      let src : Nat → Int := fun p => if len < 0 || (p : Int) < len then (srcDigit hashed p : Int) else -1
      let c := monCfgOf ver src
      match (if evs == "-" then some [] else (evs.splitOn ",").mapM parseSEv) with
      | none => "DIFF unparsable event list"
      | some events =>
        match validateEvents c programs.length events (fInit programs) with
        | .error m => s!"DIFF the logged run is not a run of the fine-grained monitor model: {m}"
        | .ok s =>
          if status == "ok" then
            if s.readers.all fun r => r.pc == FReaderPc.idle && r.todo.isEmpty then "ok"
            else s!"DIFF run reported complete but the model has unfinished readers; {showSt s}"
          else if status.startsWith "deadlock" then
            if anyEnabled c s then s!"DIFF implementation deadlocked ({status}) where the model can still move; {showSt s}"
            else s!"DIFF implementation and model both blocked ({status}); {showSt s}"
          else s!"DIFF run status {status}"
    | _ => "DIFF unparsable strace result"
  | _, _, _ => "skip"

end Sqroot.Driver

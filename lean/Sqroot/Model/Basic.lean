/-
Shared basics of the model: Go `int` bounds and the panic type.
Go `int` is modelled as unbounded `Int`; the few places where 64-bit wrap-around is observable
are modelled explicitly with `wrap64`.
-/
namespace Sqroot.Model

def maxInt : Int := 9223372036854775807
def minInt : Int := -9223372036854775808

/-- two's complement wrap of a value known to lie in (−2^64, 2^64) around the int64 range -/
def wrap64 (x : Int) : Int :=
  if x > maxInt then x - 18446744073709551616
  else if x < minInt then x + 18446744073709551616
  else x

/-- a Go run-time panic or explicit `panic(...)` -/
inductive Panic
  | explicit (msg : String)
  | indexOutOfRange
  | negativeRepeat
  | divideByZero
  | nilDeref
  /-- not a Go panic: a fuelled loop of the model ran out of fuel (= the Go loop would not have
  terminated within the proved bound). Theorems show it never occurs. -/
  | outOfFuel
deriving Repr, DecidableEq

def Panic.tag : Panic → String
  | .explicit m => "panic:" ++ m
  | .indexOutOfRange => "panic:index"
  | .negativeRepeat => "panic:repeat"
  | .divideByZero => "panic:div0"
  | .nilDeref => "panic:nil"
  | .outOfFuel => "hang"

end Sqroot.Model

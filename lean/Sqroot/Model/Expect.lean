/-
Expectation tables for the regenerated facts G4–G6 (DESIGN §2.3): the form of the source the
hand-written models were derived from. A mismatch is a broken tie, reported by the check.
-/
import Sqroot.Gen.V1
import Sqroot.Gen.V2
import Sqroot.Gen.V3
namespace Sqroot.Expect

def waitSrc : String := "{ m.mu.Lock() defer m.mu.Unlock() if !m.done && m.maxLength <= index { chunkCount := index/kMemoizerChunkSize + 1 if chunkCount > kMaxChunks { chunkCount = kMaxChunks } m.maxLength = kMemoizerChunkSize * chunkCount m.mustGrow.Signal() } for !m.done && len(m.data) <= index { m.updateAvailable.Wait() } return m.data, len(m.data) > index }"
def waitToGrowSrc : String := "{ m.mu.Lock() defer m.mu.Unlock() for len(m.data) >= m.maxLength { m.mustGrow.Wait() } }"
def setDataSrc : String := "{ m.mu.Lock() defer m.mu.Unlock() m.data = data m.done = done m.updateAvailable.Broadcast() }"
def run3Src : String := "{ var data []int8 for i := 0; i < kMaxChunks; i++ { m.waitToGrow() for j := 0; j < kMemoizerChunkSize; j++ { x := m.iter() if digitOutOfRange(x) { m.setData(data, true) return } data = append(data, int8(x)) } m.setData(data, false) } m.setData(data, true) }"
def run12Src : String := "{ var data []int8 for i := 0; i < kMaxChunks; i++ { m.waitToGrow() for j := 0; j < kMemoizerChunkSize; j++ { x := m.iter() if x == -1 { m.setData(data, true) return } data = append(data, int8(x)) } m.setData(data, false) } m.setData(data, true) }"
def newMemoSrc : String := "{ result := &memoizer{iter: iter} result.mustGrow = sync.NewCond(&result.mu) result.updateAvailable = sync.NewCond(&result.mu) go result.run() return result }"

def monitorSrc3 : List (String × String) :=
  [("memoizer.wait", waitSrc), ("memoizer.waitToGrow", waitToGrowSrc), ("memoizer.setData", setDataSrc),
   ("memoizer.run", run3Src), ("newMemoizeSpec", newMemoSrc)]

def monitorSrc12 : List (String × String) :=
  [("memoizer.wait", waitSrc), ("memoizer.waitToGrow", waitToGrowSrc), ("memoizer.setData", setDataSrc),
   ("memoizer.run", run12Src), ("newMemoizeSpec", newMemoSrc)]

/-- every explicit `panic(` in non-test code, with its enclosing function (G6) -/
def panicSites1 : List String := ["Number.IteratorAt: panic(\"posit must be non-negative\")", "Number.WithSignificant: panic(\"limit must be non-negative\")", "checkNumDenom: panic(\"Denominator must be positive\")", "checkNumDenom: panic(\"Numerator must be non-negative\")", "memoizer.IteratorAt: panic(\"index must be non-negative\")", "newFormatter: panic(\"sigDigits must be >= exponent\")"]
def panicSites2 : List String := ["Number.WithSignificant: panic(\"limit must be non-negative\")", "checkNumDenom: panic(\"Denominator must be positive\")", "checkNumDenom: panic(\"Numerator must be non-negative\")", "memoizer.IteratorAt: panic(\"index must be non-negative\")", "newFormatter: panic(\"sigDigits must be >= exponent\")"]
def panicSites3 : List String := ["FiniteNumber.WithSignificant: panic(\"limit must be non-negative\")", "checkNumDenom: panic(\"Denominator must be positive\")", "checkNumDenom: panic(\"Numerator must be non-negative\")", "memoizer.IteratorAt: panic(\"index must be non-negative\")", "memoizer.Scan: panic(\"index must be non-negative\")", "memoizer.ScanValues: panic(\"index must be non-negative\")", "newFormatter: panic(\"sigDigits must be >= exponent\")"]

end Sqroot.Expect

/-
Expectation tables for the regenerated facts G4–G6 (DESIGN §2.3): the form of the source the
hand-written models were derived from (receiver, parameters and locals renamed canonically by
the extractor: `_recv`, `_p0…`, `_l0…`; the memoizer's fields are named by the role their type gives
them: `_mu`, `_cond0`, `_cond1`, `_iter`, `_f_[]int8_0` (data), `_f_int_0` (maxLength), `_f_bool_0` (done)). A mismatch is a broken tie, reported by the check.
-/
import Sqroot.Gen.V1
import Sqroot.Gen.V2
import Sqroot.Gen.V3
namespace Sqroot.Expect

def waitSrc : String := "{ _recv . _mu . Lock ( ) defer _recv . _mu . Unlock ( ) if ! _recv . _f_bool_0 && _recv . _f_int_0 <= _p0 { _l0 := _p0 / kMemoizerChunkSize + 1 if _l0 > kMaxChunks { _l0 = kMaxChunks } _recv . _f_int_0 = kMemoizerChunkSize * _l0 _recv . _cond0 . Signal ( ) } for ! _recv . _f_bool_0 && len ( _recv . _f_[]int8_0 ) <= _p0 { _recv . _cond1 . Wait ( ) } return _recv . _f_[]int8_0 , len ( _recv . _f_[]int8_0 ) > _p0 }"
def waitToGrowSrc : String := "{ _recv . _mu . Lock ( ) defer _recv . _mu . Unlock ( ) for len ( _recv . _f_[]int8_0 ) >= _recv . _f_int_0 { _recv . _cond0 . Wait ( ) } }"
def setDataSrc : String := "{ _recv . _mu . Lock ( ) defer _recv . _mu . Unlock ( ) _recv . _f_[]int8_0 = _p0 _recv . _f_bool_0 = _p1 _recv . _cond1 . Broadcast ( ) }"
def run3Src : String := "{ var _l0 [ ] int8 for _l1 := 0 ; _l1 < kMaxChunks ; _l1 ++ { _recv . waitToGrow ( ) for _l2 := 0 ; _l2 < kMemoizerChunkSize ; _l2 ++ { _l3 := _recv . _iter ( ) if digitOutOfRange ( _l3 ) { _recv . setData ( _l0 , true ) return } _l0 = append ( _l0 , int8 ( _l3 ) ) } _recv . setData ( _l0 , false ) } _recv . setData ( _l0 , true ) }"
def run12Src : String := "{ var _l0 [ ] int8 for _l1 := 0 ; _l1 < kMaxChunks ; _l1 ++ { _recv . waitToGrow ( ) for _l2 := 0 ; _l2 < kMemoizerChunkSize ; _l2 ++ { _l3 := _recv . _iter ( ) if _l3 == - 1 { _recv . setData ( _l0 , true ) return } _l0 = append ( _l0 , int8 ( _l3 ) ) } _recv . setData ( _l0 , false ) } _recv . setData ( _l0 , true ) }"
def newMemoSrc : String := "{ _l0 := & memoizer { _iter : _p0 } _l0 . _cond0 = sync . NewCond ( & _l0 . _mu ) _l0 . _cond1 = sync . NewCond ( & _l0 . _mu ) go _l0 . run ( ) return _l0 }"

def monitorSrc3 : List (String × String) :=
  [("memoizer.wait", waitSrc), ("memoizer.waitToGrow", waitToGrowSrc), ("memoizer.setData", setDataSrc),
   ("memoizer.run", run3Src), ("newMemoizeSpec", newMemoSrc)]

def monitorSrc12 : List (String × String) :=
  [("memoizer.wait", waitSrc), ("memoizer.waitToGrow", waitToGrowSrc), ("memoizer.setData", setDataSrc),
   ("memoizer.run", run12Src), ("newMemoizeSpec", newMemoSrc)]

/-- every explicit `panic(` in non-test code, with its enclosing function (G6) -/
def panicSites1 : List String := ["Number.IteratorAt: panic(\"posit must be non-negative\")", "Number.WithSignificant: panic(\"limit must be non-negative\")", "checkNumDenom: panic(\"Denominator must be positive\")", "checkNumDenom: panic(\"Numerator must be non-negative\")", "memoizer.IteratorAt: panic(\"index must be non-negative\")", "newFormatter: panic(\"sigDigits must be >= exponent\")"]
def panicSites2 : List String := ["Number.WithSignificant: panic(\"limit must be non-negative\")", "checkNumDenom: panic(\"Denominator must be positive\")", "checkNumDenom: panic(\"Numerator must be non-negative\")", "memoizer.IteratorAt: panic(\"index must be non-negative\")", "newFormatter: panic(\"sigDigits must be >= exponent\")"]
def panicSites3 : List String := ["FiniteNumber.WithSignificant: panic(\"limit must be non-negative\")", "checkNumDenom: panic(\"Denominator must be positive\")", "checkNumDenom: panic(\"Numerator must be non-negative\")", "memoizer.IteratorAt: panic(\"index must be non-negative\")", "memoizer.Scan: panic(\"index must be non-negative\")", "memoizer.ScanValues: panic(\"index must be non-negative\")", "newFormatter: panic(\"sigDigits must be >= exponent\")"]

/-- the distinct explicit panic statements of each version, whatever function they live in -/
def panicStatements1 : List String := ["panic(\"Denominator must be positive\")", "panic(\"Numerator must be non-negative\")", "panic(\"index must be non-negative\")", "panic(\"limit must be non-negative\")", "panic(\"posit must be non-negative\")", "panic(\"sigDigits must be >= exponent\")"]
def panicStatements23 : List String := ["panic(\"Denominator must be positive\")", "panic(\"Numerator must be non-negative\")", "panic(\"index must be non-negative\")", "panic(\"limit must be non-negative\")", "panic(\"sigDigits must be >= exponent\")"]

end Sqroot.Expect

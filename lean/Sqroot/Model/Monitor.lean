/-
L1 — the memoizer of `numberspec.go` as a labelled transition system, one transition per critical
section or blocking point:

  reader   `wait(index)`      : rEnter (Lock … Wait-or-return)   rWake (re-test after Broadcast)
  producer `waitToGrow()`     : pCheck (Lock; test; Wait-or-return)      [Signal moves parked → check]
           `iter()` + append  : pCompute (outside the lock; producer-local)
           `setData(data, d)` : pPublish (Lock; assign; Broadcast; Unlock)

`step` is an executable function, so the very definition the theorems quantify over is also what
the model driver replays logged implementation traces through.

sync.Cond semantics: Wait atomically releases the mutex and parks; Signal wakes one waiter of that
condition (only the producer ever waits on `mustGrow`); Broadcast wakes all waiters (only readers
wait on `updateAvailable`); a woken thread re-acquires the mutex and re-runs its loop test.
Core Lean only.
-/
namespace Sqroot.Model

/-- producer program counter. `i` = outer loop counter, `j` = inner loop counter,
`loc` = length of the producer-local slice `data`. -/
inductive ProdPc
  | check (i : Nat)
  | parked (i : Nat)
  | computing (i j loc : Nat)
  | publishing (i loc : Nat) (fin : Bool)
  | finalPublish (loc : Nat)
  | exited
deriving Repr, DecidableEq

inductive ReaderPc
  | idle
  | parked (i : Nat)
  | woken (i : Nat)
deriving Repr, DecidableEq

structure Reader where
  pc : ReaderPc
  /-- remaining `wait(index)` calls of this thread -/
  todo : List Nat
  /-- results returned so far, most recent first: (index, len(data) returned, ok) -/
  results : List (Nat × Nat × Bool)
deriving Repr, DecidableEq

structure MonCfg where
  chunk : Nat
  maxChunks : Nat
  src : Nat → Int
  endTest : Int → Bool

structure MonSt where
  len : Nat
  done : Bool
  maxLength : Nat
  /-- ghost: number of calls of `iter` so far; the k-th call is the one for position k -/
  consulted : Nat
  prod : ProdPc
  readers : List Reader
deriving Repr, DecidableEq

inductive Label
  | rEnter (r : Nat)
  | rWake (r : Nat)
  | pCheck
  | pCompute
  | pPublish
deriving Repr, DecidableEq

def monInit (programs : List (List Nat)) : MonSt :=
  { len := 0, done := false, maxLength := 0, consulted := 0, prod := .check 0,
    readers := programs.map fun p => ⟨.idle, p, []⟩ }

/-- `mustGrow.Signal()`: wakes the producer if it is parked -/
def signalProd : ProdPc → ProdPc
  | .parked i => .check i
  | p => p

/-- `updateAvailable.Broadcast()`: every parked reader becomes woken -/
def broadcast (rs : List Reader) : List Reader :=
  rs.map fun r => match r.pc with
    | .parked i => { r with pc := .woken i }
    | _ => r

/-- the tail of `wait`: `for !m.done && len(m.data) <= index { Wait }; return m.data, len(m.data) > index` -/
def waitTail (len : Nat) (done : Bool) (index : Nat) (r : Reader) : Reader :=
  if !done && len ≤ index then { r with pc := .parked index }
  else { r with pc := .idle, results := (index, len, decide (index < len)) :: r.results }

/-- new `maxLength` computed by `wait(index)` when it has to grow -/
def grownMax (c : MonCfg) (index : Nat) : Nat :=
  c.chunk * min (index / c.chunk + 1) c.maxChunks

def step (c : MonCfg) (s : MonSt) : Label → Option MonSt
  | .rEnter k =>
    match s.readers[k]? with
    | none => none
    | some r =>
      match r.pc, r.todo with
      | .idle, index :: rest =>
        let grow := !s.done && s.maxLength ≤ index
        let maxLength := if grow then grownMax c index else s.maxLength
        let prod := if grow then signalProd s.prod else s.prod
        let r' := waitTail s.len s.done index { r with todo := rest }
        some { s with maxLength := maxLength, prod := prod, readers := s.readers.set k r' }
      | _, _ => none
  | .rWake k =>
    match s.readers[k]? with
    | none => none
    | some r =>
      match r.pc with
      | .woken index => some { s with readers := s.readers.set k (waitTail s.len s.done index r) }
      | _ => none
  | .pCheck =>
    match s.prod with
    | .check i =>
      if s.len ≥ s.maxLength then some { s with prod := .parked i }
      else if c.chunk = 0 then some { s with prod := .publishing i s.len false }
      else some { s with prod := .computing i 0 s.len }
    | _ => none
  | .pCompute =>
    match s.prod with
    | .computing i j loc =>
      let x := c.src s.consulted
      let s' := { s with consulted := s.consulted + 1 }
      if c.endTest x then some { s' with prod := .publishing i loc true }
      else if j + 1 ≥ c.chunk then some { s' with prod := .publishing i (loc + 1) false }
      else some { s' with prod := .computing i (j + 1) (loc + 1) }
    | _ => none
  | .pPublish =>
    match s.prod with
    | .publishing i loc fin =>
      let next := if fin then ProdPc.exited
                  else if i + 1 < c.maxChunks then .check (i + 1) else .finalPublish loc
      some { s with len := loc, done := fin, readers := broadcast s.readers, prod := next }
    | .finalPublish loc =>
      some { s with len := loc, done := true, readers := broadcast s.readers, prod := .exited }
    | _ => none

/-- run a label sequence; `none` if some label is not enabled -/
def runLabels (c : MonCfg) (s : MonSt) : List Label → Option MonSt
  | [] => some s
  | l :: ls => match step c s l with
    | none => none
    | some s' => runLabels c s' ls

/-- reachable from the initial state of some reader programs -/
def Reachable (c : MonCfg) (programs : List (List Nat)) (s : MonSt) : Prop :=
  ∃ ls, runLabels c (monInit programs) ls = some s

/-- all labels that could possibly be enabled in `s` -/
def allLabels (s : MonSt) : List Label :=
  [.pCheck, .pCompute, .pPublish] ++
    (List.range s.readers.length).flatMap fun k => [.rEnter k, .rWake k]

def enabledLabels (c : MonCfg) (s : MonSt) : List Label :=
  (allLabels s).filter fun l => (step c s l).isSome

/-- some reader still has work (a call in progress or calls to make) -/
def pending (s : MonSt) : Bool :=
  s.readers.any fun r => r.pc != .idle || !r.todo.isEmpty

end Sqroot.Model

/-
L1-fine — the memoizer with the mutex made explicit and every critical section split into its
individual shared-memory accesses (read `done`/`maxLength`, write `maxLength`, `Signal`, loop
test, `Wait` = release-and-park, deferred `Unlock`; `setData`: write `data`, write `done`,
`Broadcast`, `Unlock`). Threads blocked on `mu.Lock()` (also after being woken) must first acquire
the mutex. `Proofs/MonitorFine.lean` shows that every execution of this system is an execution of
the coarse system `Model/Monitor.lean` (one transition per critical section), which is what makes
"critical sections are atomic" a theorem instead of a modelling decision.
Core Lean only.
-/
import Sqroot.Model.Monitor
namespace Sqroot.Model

/-- reader micro program counter inside `wait(index)` -/
inductive FReaderPc
  | idle
  /-- blocked on `m.mu.Lock()` at entry -/
  | acq (i : Nat)
  /-- holds the mutex: about to evaluate `!m.done && m.maxLength <= index` -/
  | r1 (i : Nat)
  /-- about to write `m.maxLength` -/
  | r2 (i : Nat)
  /-- about to `m.mustGrow.Signal()` -/
  | r3 (i : Nat)
  /-- loop test `!m.done && len(m.data) <= index` → Wait (release + park) or compute the results -/
  | r4 (i : Nat)
  /-- results computed, deferred `Unlock` pending -/
  | r5 (i n : Nat) (ok : Bool)
  | parked (i : Nat)
  /-- woken by Broadcast: must re-acquire the mutex inside `Wait` before re-testing -/
  | acqW (i : Nat)
deriving Repr, DecidableEq

structure FReader where
  pc : FReaderPc
  todo : List Nat
  results : List (Nat × Nat × Bool)
deriving Repr, DecidableEq

/-- producer micro program counter -/
inductive FProdPc
  /-- `waitToGrow`: blocked on Lock -/
  | acq (i : Nat)
  /-- holds the mutex: loop test `len(m.data) >= m.maxLength` -/
  | p1 (i : Nat)
  /-- deferred Unlock of waitToGrow pending -/
  | p2 (i : Nat)
  | parked (i : Nat)
  /-- signalled: must re-acquire inside Wait -/
  | acqW (i : Nat)
  | computing (i j loc : Nat)
  /-- `setData(data[:loc], fin)`: blocked on Lock -/
  | sAcq (i loc : Nat) (fin last : Bool)
  /-- write m.data -/
  | s1 (i loc : Nat) (fin last : Bool)
  /-- write m.done -/
  | s2 (i loc : Nat) (fin last : Bool)
  /-- Broadcast -/
  | s3 (i loc : Nat) (fin last : Bool)
  /-- Unlock -/
  | s4 (i loc : Nat) (fin last : Bool)
  | exited
deriving Repr, DecidableEq

inductive Tid
  | producer
  | reader (k : Nat)
deriving Repr, DecidableEq

structure FSt where
  len : Nat
  done : Bool
  maxLength : Nat
  consulted : Nat
  mu : Option Tid
  prod : FProdPc
  readers : List FReader
deriving Repr, DecidableEq

inductive FLabel
  | r (k : Nat)      -- one micro step of reader k
  | p                -- one micro step of the producer
deriving Repr, DecidableEq

def fInit (programs : List (List Nat)) : FSt :=
  { len := 0, done := false, maxLength := 0, consulted := 0, mu := none, prod := .acq 0,
    readers := programs.map fun p => ⟨.idle, p, []⟩ }

def fSignalProd : FProdPc → FProdPc
  | .parked i => .acqW i
  | p => p

def fBroadcast (rs : List FReader) : List FReader :=
  rs.map fun r => match r.pc with
    | .parked i => { r with pc := .acqW i }
    | _ => r

/-- pc after `setData` returned -/
def afterPublish (c : MonCfg) (i loc : Nat) (fin last : Bool) : FProdPc :=
  if fin || last then .exited
  else if i + 1 < c.maxChunks then .acq (i + 1) else .sAcq i loc true true

def setReader (s : FSt) (k : Nat) (r : FReader) : FSt := { s with readers := s.readers.set k r }

/-- one micro step of reader `k`; `none` if it cannot move (blocked on the mutex, parked, done) -/
def fStepReader (c : MonCfg) (s : FSt) (k : Nat) : Option FSt :=
  match s.readers[k]? with
  | none => none
  | some r =>
    match r.pc with
    | .idle =>
      match r.todo with
      | [] => none
      | i :: rest => some (setReader s k { r with pc := .acq i, todo := rest })
    | .acq i => if s.mu = none then some { setReader s k { r with pc := .r1 i } with mu := some (.reader k) } else none
    | .acqW i => if s.mu = none then some { setReader s k { r with pc := .r4 i } with mu := some (.reader k) } else none
    | .r1 i =>
      if !s.done && s.maxLength ≤ i then some (setReader s k { r with pc := .r2 i })
      else some (setReader s k { r with pc := .r4 i })
    | .r2 i => some { setReader s k { r with pc := .r3 i } with maxLength := grownMax c i }
    | .r3 i => some { setReader s k { r with pc := .r4 i } with prod := fSignalProd s.prod }
    | .r4 i =>
      if !s.done && s.len ≤ i then some { setReader s k { r with pc := .parked i } with mu := none }
      else some (setReader s k { r with pc := .r5 i s.len (decide (i < s.len)) })
    | .r5 i n ok =>
      some { setReader s k { r with pc := .idle, results := (i, n, ok) :: r.results } with mu := none }
    | .parked _ => none

/-- one micro step of the producer -/
def fStepProd (c : MonCfg) (s : FSt) : Option FSt :=
  match s.prod with
  | .acq i => if s.mu = none then some { s with prod := .p1 i, mu := some .producer } else none
  | .acqW i => if s.mu = none then some { s with prod := .p1 i, mu := some .producer } else none
  | .p1 i =>
    if s.len ≥ s.maxLength then some { s with prod := .parked i, mu := none }
    else some { s with prod := .p2 i }
  | .p2 i =>
    if c.chunk = 0 then some { s with prod := .sAcq i s.len false false, mu := none }
    else some { s with prod := .computing i 0 s.len, mu := none }
  | .parked _ => none
  | .computing i j loc =>
    let x := c.src s.consulted
    let s' := { s with consulted := s.consulted + 1 }
    if c.endTest x then some { s' with prod := .sAcq i loc true false }
    else if j + 1 ≥ c.chunk then some { s' with prod := .sAcq i (loc + 1) false false }
    else some { s' with prod := .computing i (j + 1) (loc + 1) }
  | .sAcq i loc fin last => if s.mu = none then some { s with prod := .s1 i loc fin last, mu := some .producer } else none
  | .s1 i loc fin last => some { s with prod := .s2 i loc fin last, len := loc }
  | .s2 i loc fin last => some { s with prod := .s3 i loc fin last, done := fin }
  | .s3 i loc fin last => some { s with prod := .s4 i loc fin last, readers := fBroadcast s.readers }
  | .s4 i loc fin last => some { s with prod := afterPublish c i loc fin last, mu := none }
  | .exited => none

def fStep (c : MonCfg) (s : FSt) : FLabel → Option FSt
  | .r k => fStepReader c s k
  | .p => fStepProd c s

def fRun (c : MonCfg) (s : FSt) : List FLabel → Option FSt
  | [] => some s
  | l :: ls => match fStep c s l with
    | none => none
    | some s' => fRun c s' ls

/-- does thread `t` hold the mutex according to its own pc? -/
def readerHolds : FReaderPc → Bool
  | .r1 _ | .r2 _ | .r3 _ | .r4 _ | .r5 _ _ _ => true
  | _ => false

def prodHolds : FProdPc → Bool
  | .p1 _ | .p2 _ | .s1 _ _ _ _ | .s2 _ _ _ _ | .s3 _ _ _ _ | .s4 _ _ _ _ => true
  | _ => false

/-- run the holder of the mutex to the end of its critical section (at most 6 micro steps) -/
def completeSection (c : MonCfg) : Nat → FSt → FSt
  | 0, s => s
  | fuel + 1, s =>
    match s.mu with
    | none => s
    | some .producer => match fStepProd c s with
      | some s' => completeSection c fuel s'
      | none => s
    | some (.reader k) => match fStepReader c s k with
      | some s' => completeSection c fuel s'
      | none => s

/-- projection of a fine state in which nobody is inside a critical section -/
def projReader (r : FReader) : Reader :=
  match r.pc with
  | .idle => ⟨.idle, r.todo, r.results⟩
  | .acq i => ⟨.idle, i :: r.todo, r.results⟩          -- the call has not taken effect yet
  | .parked i => ⟨.parked i, r.todo, r.results⟩
  | .acqW i => ⟨.woken i, r.todo, r.results⟩
  | .r1 i | .r2 i | .r3 i | .r4 i => ⟨.idle, i :: r.todo, r.results⟩   -- not reached after completeSection
  | .r5 i n ok => ⟨.idle, r.todo, (i, n, ok) :: r.results⟩

def projProd : FProdPc → ProdPc
  | .acq i | .acqW i | .p1 i | .p2 i => .check i
  | .parked i => .parked i
  | .computing i j loc => .computing i j loc
  | .sAcq i loc fin last | .s1 i loc fin last | .s2 i loc fin last | .s3 i loc fin last | .s4 i loc fin last =>
    if last then .finalPublish loc else .publishing i loc fin
  | .exited => .exited

/-- abstraction to the coarse system: finish the section in progress, then forget the mutex -/
def absF (c : MonCfg) (s : FSt) : MonSt :=
  let s' := completeSection c 8 s
  { len := s'.len, done := s'.done, maxLength := s'.maxLength, consulted := s'.consulted,
    prod := projProd s'.prod, readers := s'.readers.map projReader }

end Sqroot.Model

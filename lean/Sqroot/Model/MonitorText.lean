/-
Advisory tie (not a proof obligation): are the five monitor functions of each version, statement
for statement, the text `Model/Monitor.lean` was written from? `./check` evaluates `monitorTextReport`;
when some version differs, C05/C06 fall back on a much larger exploration of the behavioural tie
(trace validation under the controlled scheduler) instead of failing outright.
-/
import Sqroot.Model.Expect
namespace Sqroot.Model

def monitorTextReport : List (String × Bool) :=
  [("v1", Gen.V1.monitorSrc == Expect.monitorSrc12), ("v2", Gen.V2.monitorSrc == Expect.monitorSrc12),
   ("v3", Gen.V3.monitorSrc == Expect.monitorSrc3)]

end Sqroot.Model

/-
Non-root constructors of v3 (`sqroot.go`, `generator.go`): NewNumberForTesting, NewFiniteNumber,
NewNumber(Generator). The end-of-digits test is the regenerated `Gen.V3.digitOutOfRange`.
Core Lean only.
-/
import Sqroot.Gen.V3
import Sqroot.Model.Basic
namespace Sqroot.Model

/-- `validDigits` -/
def validDigits (xs : List Int) : Bool := xs.all fun d => !(Gen.V3.digitOutOfRange d)

/-- the closure returned by `repeatingGenerator.Generate()` as a stream: value of the p-th call -/
def repStream (fixed rep : List Int) (p : Nat) : Int :=
  if p < fixed.length then fixed.getD p 0
  else if rep.length = 0 then -1
  else rep.getD ((p - fixed.length) % rep.length) 0

inductive CtorResult
  | zero
  | error (msg : String)
  /-- a Number backed by the memoizer over `stream`, statically finite (`*FiniteNumber`) or not -/
  | number (finite : Bool) (stream : Nat → Int) (exp : Int)

/-- `NewNumberForTesting(fixed, repeating, exp)` -/
def newNumberForTesting (fixed rep : List Int) (exp : Int) : CtorResult :=
  if fixed.length = 0 ∧ rep.length = 0 then .zero
  else if !validDigits fixed || !validDigits rep then
    .error "NewNumberForTesting: digits must be between 0 and 9"
  else if repStream fixed rep 0 = 0 then
    .error "NewNumberForTesting: leading zeros not allowed in digits"
  else if rep.length = 0 then .number true (repStream fixed rep) exp
  else .number false (repStream fixed rep) exp

/-- `NewFiniteNumber(fixed, exponent)` = NewNumberForTesting(fixed, nil, exponent) asserted to *FiniteNumber -/
def newFiniteNumber (fixed : List Int) (exp : Int) : CtorResult := newNumberForTesting fixed [] exp

/-- `NewNumber(g)`: `first := digits()`; zero if it is 0 or out of range; otherwise
`firstAndThen(first, digits)` — the same stream — behind the memoizer -/
def newNumber (stream : Nat → Int) (exp : Int) : CtorResult :=
  if stream 0 = 0 ∨ Gen.V3.digitOutOfRange (stream 0) then .zero
  else .number false stream exp

/-- what the memoizer exposes of a stream: the digit at `p` if no value at or before `p` is out
of range (`memoizer.run` stops at the first such value and never consults again, C06) -/
def streamDigit (stream : Nat → Int) (p : Nat) : Option Int :=
  if (List.range (p + 1)).all (fun j => !(Gen.V3.digitOutOfRange (stream j))) then some (stream p) else none

end Sqroot.Model

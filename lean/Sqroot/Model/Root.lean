/-
L0 — radicand normalisation and digit-by-digit root extraction.
Hand model of `compute.go`: `computeGroupsFromRational`, `groupsToDigits`, `computeRootDigits`.
The arithmetic of the two `rootManager`s is NOT written here: it comes from `Sqroot/Gen/V*.lean`,
which is regenerated from /repo on every run (see `Sqroot/Model/Managers.lean`).

Core Lean only (this file is linked into the compiled model driver).
-/
namespace Sqroot.Model

/-- A `rootManager` of compute.go as pure functions of `(incr, incr2)`.
`incr2` is the extra `big.Int` the cube-root manager carries (the square-root one ignores it). -/
structure Manager where
  base : Nat
  /-- initial `remainder` and `incr` of `computeRootDigits` (`big.NewInt(0)`, `big.NewInt(1)`) -/
  initRem : Int
  init1 : Int
  init2 : Int
  next : Int → Int → Int × Int
  nextDigit : Int → Int → Int × Int

/-- First loop of `computeGroupsFromRational`: `for num.Cmp(denom) < 0 { exp--; num.Mul(num, base) }`.
The Go loop does not terminate for `num = 0` or `base ≤ 1`; every caller excludes `num = 0`
(`nRootFrac`, `NewNumberFromBigRat` return the zero number first) and the bases are 10, 100, 1000.
The guard makes the model total; theorems state `0 < num` explicitly. -/
def scaleUp (B num den : Nat) (exp : Int) : Nat × Int :=
  if _h : num < den ∧ 0 < num ∧ 1 < B then scaleUp B (num * B) den (exp - 1) else (num, exp)
termination_by den - num
decreasing_by
  obtain ⟨h1, h2, h3⟩ := _h
  have : num * 2 ≤ num * B := Nat.mul_le_mul_left num h3
  omega

/-- Third loop: `for num.Cmp(denom) >= 0 { exp++; denom.Mul(denom, base) }`. -/
def scaleDown (B num den : Nat) (exp : Int) : Nat × Int :=
  if _h : den ≤ num ∧ 0 < den ∧ 1 < B then scaleDown B num (den * B) (exp + 1) else (den, exp)
termination_by num + 1 - den
decreasing_by
  obtain ⟨h1, h2, h3⟩ := _h
  have : den * 2 ≤ den * B := Nat.mul_le_mul_left den h3
  omega

structure Norm where
  num : Nat
  den : Nat
  exp : Int
deriving Repr, DecidableEq

/-- `computeGroupsFromRational` up to the point where the closure is created. -/
def normalize (num den B : Nat) : Norm :=
  let r1 := scaleUp B num den 0
  let r2 : Nat × Int := if r1.2 < 0 then (r1.1 / B, r1.2 + 1) else r1
  let r3 := scaleDown B r2.1 den r2.2
  ⟨r2.1, r3.1, r3.2⟩

/-- One call of the `groups` closure: `none` is Go's `nil` (radicand expansion exhausted). -/
def groupStep (B den num : Nat) : Option (Nat × Nat) :=
  if num = 0 then none else some ((num * B) / den, (num * B) % den)

structure RootSt where
  num : Nat
  rem : Int
  incr : Int
  incr2 : Int
deriving Repr, DecidableEq

/-- `for remainder.Cmp(incr) >= 0 { remainder.Sub(remainder, incr); digit++; manager.Next(incr) }`.
(The Go loop spins if `incr ≤ 0`; `incr > 0` is an invariant proved in `Proofs/Root`.) -/
def digitLoop (mgr : Manager) (rem incr incr2 : Int) (digit : Nat) : Int × Int × Int × Nat :=
  if _h : incr ≤ rem ∧ 0 < incr then
    digitLoop mgr (rem - incr) (mgr.next incr incr2).1 (mgr.next incr incr2).2 (digit + 1)
  else (rem, incr, incr2, digit)
termination_by rem.toNat
decreasing_by omega

/-- One call of the closure returned by `computeRootDigits`; `none` is the `-1` end marker. -/
def rootStep (mgr : Manager) (den : Nat) (s : RootSt) : Option (Nat × RootSt) :=
  match groupStep mgr.base den s.num with
  | none =>
    if s.rem = 0 then none
    else
      let r := digitLoop mgr (s.rem * mgr.base) s.incr s.incr2 0
      let nd := mgr.nextDigit r.2.1 r.2.2.1
      some (r.2.2.2, ⟨s.num, r.1, nd.1, nd.2⟩)
  | some (g, num') =>
    let r := digitLoop mgr (s.rem * mgr.base + g) s.incr s.incr2 0
    let nd := mgr.nextDigit r.2.1 r.2.2.1
    some (r.2.2.2, ⟨num', r.1, nd.1, nd.2⟩)

def rootInit (mgr : Manager) (num : Nat) : RootSt := ⟨num, mgr.initRem, mgr.init1, mgr.init2⟩

/-- up to `k` successive results of the closure, stopping at the end marker -/
def iterDigits (mgr : Manager) (den : Nat) : Nat → RootSt → List Nat
  | 0, _ => []
  | k + 1, s =>
    match rootStep mgr den s with
    | none => []
    | some (d, s') => d :: iterDigits mgr den k s'

/-- state after `k` calls (`none` once the end marker has been returned) -/
def iterState (mgr : Manager) (den : Nat) : Nat → RootSt → Option RootSt
  | 0, s => some s
  | k + 1, s =>
    match rootStep mgr den s with
    | none => none
    | some (_, s') => iterState mgr den k s'

/-- digits (at most `k`) and exponent of `nRootFrac(num, den)` for `num > 0` -/
def rootPrefix (mgr : Manager) (num den k : Nat) : List Nat × Int :=
  let nm := normalize num den mgr.base
  (iterDigits mgr nm.den k (rootInit mgr nm.num), nm.exp)

/-- `groupsToDigits` at base 10: one call of the rational digit closure -/
def ratStep (den num : Nat) : Option (Nat × Nat) := groupStep 10 den num

def ratIter (den : Nat) : Nat → Nat → List Nat
  | 0, _ => []
  | k + 1, num =>
    match ratStep den num with
    | none => []
    | some (d, num') => d :: ratIter den k num'

def ratPrefix (num den k : Nat) : List Nat × Int :=
  let nm := normalize num den 10
  (ratIter nm.den k nm.num, nm.exp)

end Sqroot.Model

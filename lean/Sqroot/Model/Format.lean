/-
L4 — formatting: `formatter` (formatters.go) and `formatSpec.PrintNumber/PrintField`, `Format`,
`String`, `Exact` (sqroot.go). `newFormatSpec` itself is NOT written here: it is the regenerated
`Gen.V*.newFormatSpec` (tie 1).  `fmt.State` is modelled as (width?, precision?, minus flag);
fmt's own directive parsing is outside the model.
Core Lean only.
-/
import Sqroot.Model.Basic
import Sqroot.Model.Managers
namespace Sqroot.Model

def zeros (n : Nat) : String := String.mk (List.replicate n '0')
def spaces (n : Nat) : String := String.mk (List.replicate n ' ')
def digitChar (d : Nat) : Char := Char.ofNat (48 + d)

structure Formatter where
  sigDigits : Int
  exponent : Int
  exact : Bool
  index : Int := 0
  out : String := ""

/-- `newFormatter`: panics when `sigDigits < exponent` -/
def newFormatter (sigDigits exponent : Int) (exact : Bool) : Except Panic Formatter :=
  if sigDigits < exponent then .error (.explicit "sigDigits must be >= exponent")
  else .ok { sigDigits := sigDigits, exponent := exponent, exact := exact }

/-- `addLeadingZeros(count)` -/
def Formatter.addLeadingZeros (f : Formatter) (count : Int) : Formatter :=
  if count ≤ 0 then { f with out := f.out ++ "0" }
  else { f with out := f.out ++ "0." ++ zeros count.toNat }

/-- `add(digit)` -/
def Formatter.add (f : Formatter) (digit : Nat) : Formatter :=
  let f := if f.index = 0 ∧ f.exponent ≤ 0 then f.addLeadingZeros (-f.exponent) else f
  let f := if f.index = f.exponent then { f with out := f.out ++ "." } else f
  { f with out := f.out.push (digitChar digit), index := f.index + 1 }

def Formatter.canConsume (f : Formatter) : Bool := f.index < f.sigDigits

/-- `Consume(digit)` -/
def Formatter.consume (f : Formatter) (digit : Nat) : Formatter :=
  if f.canConsume then f.add digit else f

/-- `fromMantissa`: feed digits while the formatter can consume; returns the formatter and how
many digits were pulled from the feed -/
def Formatter.feed : Formatter → List Nat → Nat → Formatter × Nat
  | f, [], n => (f, n)
  | f, d :: ds, n => if f.canConsume then (f.consume d).feed ds (n + 1) else (f, n)

/-- `for f.index < maxDigits { f.add(0) }` -/
def Formatter.padTo (f : Formatter) (maxDigits : Int) : Nat → Formatter
  | 0 => f
  | k + 1 => if f.index < maxDigits then (f.add 0).padTo maxDigits k else f

/-- `Finish()` -/
def Formatter.finish (f : Formatter) : String :=
  let maxDigits := if f.exact then f.sigDigits else f.exponent
  let f := f.padTo maxDigits (maxDigits - f.index).toNat
  let f := if f.index = 0 then
      f.addLeadingZeros (if f.exact then f.sigDigits - f.exponent else -f.exponent)
    else f
  f.out

/-- `printFixed(w, m, exponent)` on the digit feed `ds` (what `m.Values()` would deliver) -/
def printFixed (sigDigits exponent : Int) (exact : Bool) (ds : List Nat) : Except Panic String := do
  let f ← newFormatter sigDigits exponent exact
  pure (f.feed ds 0).1.finish

/-- number of digits `printFixed` pulls from the feed: `min(sigDigits, |ds|)` (it stops as soon as
`CanConsume` turns false; with the range-over-func feed one digit is pulled, consumed, then the
loop exits) -/
def digitsPulled (sigDigits : Int) (ds : List Nat) : Nat := min sigDigits.toNat ds.length

/-- `fmt.Fprintf(w, "%+03d", exponent)` -/
def fmtExp (e : Int) : String :=
  let a := e.natAbs
  (if e < 0 then "-" else "+") ++ (if a < 10 then "0" else "") ++ toString a

/-- `PrintNumber` -/
def printNumber (fs : FormatSpec) (exponent : Int) (ds : List Nat) : Except Panic String :=
  if fs.sci then do
    let body ← printFixed fs.sigDigits 0 fs.exactDigitCount ds
    pure (body ++ (if fs.capital then "E" else "e") ++ fmtExp exponent)
  else printFixed fs.sigDigits exponent fs.exactDigitCount ds

/-- `PrintField`: pad to width with spaces, left (default) or right (`-` flag); never truncates -/
def printField (fs : FormatSpec) (exponent : Int) (ds : List Nat) (width : Option Nat) (minus : Bool) :
    Except Panic String := do
  let field ← printNumber fs exponent ds
  match width with
  | none => pure field
  | some w =>
    let pad := spaces (w - field.length)
    pure (if minus then field ++ pad else pad ++ field)

def genNewFormatSpec (v : Version) (precision : Int) (precisionOk : Bool) (verb : Int) (exponent : Int) :
    FormatSpec × Bool :=
  match v with
  | .v1 => Gen.V1.newFormatSpec precision precisionOk verb exponent
  | .v2 => Gen.V2.newFormatSpec precision precisionOk verb exponent
  | .v3 => Gen.V3.newFormatSpec precision precisionOk verb exponent

def genBigExponent (v : Version) (e : Int) : Bool :=
  match v with
  | .v1 => Gen.V1.bigExponent e
  | .v2 => Gen.V2.bigExponent e
  | .v3 => Gen.V3.bigExponent e

def gPrecisionOf (v : Version) : Int :=
  match v with
  | .v1 => Gen.V1.gPrecision
  | .v2 => Gen.V2.gPrecision
  | .v3 => Gen.V3.gPrecision

/-- `String()`: v3 `formatSpecForG(gPrecision, exponent, false)`; v1/v2 build the spec directly -/
def stringSpec (v : Version) (exponent : Int) : FormatSpec :=
  match v with
  | .v3 => Gen.V3.formatSpecForG Gen.V3.gPrecision exponent false
  | _ => { sigDigits := gPrecisionOf v, exactDigitCount := false, sci := genBigExponent v exponent, capital := false }

def numString (v : Version) (exponent : Int) (ds : List Nat) : Except Panic String :=
  printNumber (stringSpec v exponent) exponent ds

/-- v3 `Exact()`: `formatSpecForG(math.MaxInt, exponent, false)` -/
def numExact (exponent : Int) (ds : List Nat) : Except Panic String :=
  printNumber (Gen.V3.formatSpecForG maxInt exponent false) exponent ds

/-- `Format(state, verb)`; `verb` is the rune's code point -/
def numFormat (v : Version) (exponent : Int) (ds : List Nat) (verb : Nat) (prec : Option Nat)
    (width : Option Nat) (minus : Bool) : Except Panic String :=
  let r := genNewFormatSpec v (prec.getD 0) prec.isSome verb exponent
  if r.2 then printField r.1 exponent ds width minus
  else do
    let s ← numString v exponent ds
    pure ("%!" ++ String.singleton (Char.ofNat verb) ++ "(number=" ++ s ++ ")")

end Sqroot.Model

/-
L6 — `positions.go`: PositionsBuilder.Add/AddRange/Build, Positions.End, UpTo, Between.
Slices are modelled as lists in the same order as the Go slice. Partial operations
(`(*ranges)[length-1]`, `p.ranges[0]`) return `Except Panic`.
-/
import Sqroot.Model.Basic
namespace Sqroot.Model

structure PRange where
  start : Int
  stop : Int          -- Go field `End`
deriving Repr, DecidableEq, Inhabited

structure Builder where
  ranges : List PRange := []
  unsorted : Bool := false
deriving Repr, DecidableEq, Inhabited

/-- `appendNotBefore(item, &ranges)` — indexes `(*ranges)[length-1]`, which panics on an empty slice -/
def appendNotBefore (item : PRange) (rs : List PRange) : Except Panic (List PRange) :=
  match rs.getLast? with
  | none => .error .indexOutOfRange
  | some last =>
    if item.start ≤ last.stop then
      if item.stop > last.stop then .ok (rs.dropLast ++ [{ last with stop := item.stop }])
      else .ok rs
    else .ok (rs ++ [item])

def Builder.addRange (b : Builder) (start stop : Int) : Except Panic Builder :=
  let start := if start < 0 then 0 else start
  if stop ≤ start then .ok b
  else
    let nr : PRange := ⟨start, stop⟩
    match b.ranges.getLast? with
    | none => .ok { b with ranges := b.ranges ++ [nr] }
    | some last =>
      if start < last.start then .ok { ranges := b.ranges ++ [nr], unsorted := true }
      else (appendNotBefore nr b.ranges).map fun r => { b with ranges := r }

/-- `Add(posit)` is `AddRange(posit, posit+1)`; in Go `posit+1` wraps at MaxInt. -/
def Builder.add (b : Builder) (posit : Int) : Except Panic Builder :=
  b.addRange posit (wrap64 (posit + 1))

/-- insertion of one range into a list sorted by `start` (stable) -/
def insertByStart (x : PRange) : List PRange → List PRange
  | [] => [x]
  | y :: ys => if x.start < y.start then x :: y :: ys else y :: insertByStart x ys

/-- one concrete outcome of `sort.Slice(ranges, less-by-Start)`; the theorems hold for ANY
permutation ordered by `start` (see `Props/C11`), this one is what the executable model uses. -/
def sortByStart (rs : List PRange) : List PRange := rs.foldr insertByStart []

/-- the merge pass of `Build` after sorting -/
def mergeSorted (sorted : List PRange) : Except Panic (List PRange) :=
  match sorted with
  | [] => .error .indexOutOfRange          -- `p.ranges[0]` on an empty slice
  | r0 :: rest => rest.foldlM (fun acc r => appendNotBefore r acc) [r0]

/-- `Build` given the outcome `sorted` of the sort; returns the Positions and the reset builder -/
def Builder.buildWith (b : Builder) (sorted : List PRange) : Except Panic (List PRange × Builder) :=
  if !b.unsorted then .ok (b.ranges, {})
  else (mergeSorted sorted).map fun r => (r, {})

def Builder.build (b : Builder) : Except Panic (List PRange × Builder) :=
  b.buildWith (sortByStart b.ranges)

/-- `Positions.End()` -/
def positionsEnd (rs : List PRange) : Int :=
  match rs.getLast? with
  | none => 0
  | some l => l.stop

def upTo (stop : Int) : Except Panic (List PRange) := do
  let b ← (({} : Builder).addRange 0 stop)
  let r ← b.build
  pure r.1

def between (start stop : Int) : Except Panic (List PRange) := do
  let b ← (({} : Builder).addRange start stop)
  let r ← b.build
  pure r.1

/-- a call on a builder -/
inductive BCall
  | add (p : Int)
  | addRange (s e : Int)
deriving Repr, DecidableEq

def Builder.call (b : Builder) : BCall → Except Panic Builder
  | .add p => b.add p
  | .addRange s e => b.addRange s e

def Builder.calls (b : Builder) (cs : List BCall) : Except Panic Builder :=
  cs.foldlM Builder.call b

end Sqroot.Model

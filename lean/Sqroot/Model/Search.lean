/-
L5 — `kmp.go` / `find.go`: failure table, KMP automaton, forward / backward search over a digit
feed, `patternReverse`, and the N-variants. Slices are `Array Int`; every index expression of the
Go code is a checked access returning `Except Panic` (index safety is proved, not assumed).
Inner `for` loops without an obvious bound are fuelled; `Panic.outOfFuel` is proved unreachable.
-/
import Sqroot.Model.Basic
namespace Sqroot.Model

def getIdx (a : Array Int) (i : Int) : Except Panic Int :=
  if i < 0 then .error .indexOutOfRange
  else match a[i.toNat]? with
    | some v => .ok v
    | none => .error .indexOutOfRange

def setIdx (a : Array Int) (i : Int) (v : Int) : Except Panic (Array Int) :=
  if i < 0 then .error .indexOutOfRange
  else if h : i.toNat < a.size then .ok (a.set i.toNat v h)
  else .error .indexOutOfRange

/-- `for posit != -1 && pattern[i] != pattern[posit] { posit = result[posit] }` -/
def ttInner (pat tbl : Array Int) (i : Int) : Nat → Int → Except Panic Int
  | 0, _ => .error .outOfFuel
  | fuel + 1, posit =>
    if posit = -1 then .ok posit
    else do
      let a ← getIdx pat i
      let b ← getIdx pat posit
      if a ≠ b then do
        let p ← getIdx tbl posit
        ttInner pat tbl i fuel p
      else .ok posit

/-- `for i := 1; i < len(pattern); i++ { posit++; result[i] = posit; <inner> }`,
`cnt` = remaining iterations -/
def ttLoop (pat : Array Int) : Nat → Int → Array Int → Int → Except Panic (Array Int × Int)
  | 0, _, tbl, posit => .ok (tbl, posit)
  | cnt + 1, i, tbl, posit => do
    let posit := posit + 1
    let tbl ← setIdx tbl i posit
    let posit ← ttInner pat tbl i (pat.size + 1) posit
    ttLoop pat cnt (i + 1) tbl posit

/-- `ttable(pattern)` -/
def ttable (pat : Array Int) : Except Panic (Array Int) := do
  let n := pat.size
  let tbl := Array.replicate (n + 1) (0 : Int)
  let tbl ← setIdx tbl 0 (-1)
  let (tbl, posit) ← ttLoop pat (n - 1) 1 tbl (-1)
  setIdx tbl n (posit + 1)

structure Kernel where
  table : Array Int
  pat : Array Int
  idx : Int
deriving Repr, DecidableEq

def newKernel (pat : Array Int) : Except Panic Kernel := do
  let t ← ttable pat
  pure ⟨t, pat, 0⟩

/-- `for k.patternIndex != -1 && k.pattern[k.patternIndex] != digit { k.patternIndex = k.table[k.patternIndex] }` -/
def visitInner (k : Kernel) (digit : Int) : Nat → Int → Except Panic Int
  | 0, _ => .error .outOfFuel
  | fuel + 1, idx =>
    if idx = -1 then .ok idx
    else do
      let c ← getIdx k.pat idx
      if c ≠ digit then do
        let j ← getIdx k.table idx
        visitInner k digit fuel j
      else .ok idx

/-- `kmpKernel.Visit(digit)` -/
def Kernel.visit (k : Kernel) (digit : Int) : Except Panic (Kernel × Bool) := do
  let c ← getIdx k.pat k.idx
  if digit = c then
    let idx := k.idx + 1
    if idx = k.pat.size then do
      let j ← getIdx k.table idx
      pure ({ k with idx := j }, true)
    else pure ({ k with idx := idx }, false)
  else do
    let idx ← visitInner k digit (k.pat.size + 2) k.idx
    pure ({ k with idx := idx + 1 }, false)

/-- `kmpKernel.Reset()` (v1, v2) -/
def Kernel.reset (k : Kernel) : Kernel := { k with idx := 0 }

/-- The body of v3 `kmp` (and `kmpOld`) run over a finite feed of (position, digit) pairs,
collecting every yielded value. -/
def kmpFeed (k : Kernel) (reverse : Bool) : List (Int × Int) → Except Panic (List Int)
  | [] => .ok []
  | (posit, digit) :: rest => do
    let (k', hit) ← k.visit digit
    let tail ← kmpFeed k' reverse rest
    if hit then
      pure ((if reverse then posit else posit + 1 - k.pat.size) :: tail)
    else pure tail

/-- v1/v2 `kmp`: additionally `Reset`s the kernel when the position is not the expected one. -/
def kmpFeedV1 (k : Kernel) (reverse : Bool) (expected : Int) : List (Int × Int) → Except Panic (List Int)
  | [] => .ok []
  | (posit, digit) :: rest => do
    let k0 := if posit ≠ expected then k.reset else k
    let (k', hit) ← k0.visit digit
    let tail ← kmpFeedV1 k' reverse (posit + (if reverse then -1 else 1)) rest
    if hit then
      pure ((if reverse then posit else posit + 1 - k.pat.size) :: tail)
    else pure tail

/-- `patternReverse` -/
def patternReverse (p : Array Int) : Array Int := p.reverse

/-- `matches(s, pattern)` on a finite feed (all yields). `feed` is the list of (position, digit)
pairs that `s.All()` produces. -/
def matchesAll (pat : Array Int) (feed : List (Int × Int)) : Except Panic (List Int) :=
  if pat.size = 0 then .ok (feed.map (·.1))
  else do
    let k ← newKernel pat
    kmpFeed k false feed

/-- `BackwardMatches(s, pattern)`; `feedBack` is what `s.Backward()` produces (descending positions) -/
def backwardMatchesAll (pat : Array Int) (feedBack : List (Int × Int)) : Except Panic (List Int) :=
  if pat.size = 0 then .ok (feedBack.map (·.1))
  else do
    let k ← newKernel (patternReverse pat)
    kmpFeed k true feedBack

def matchesAllV1 (pat : Array Int) (feed : List (Int × Int)) : Except Panic (List Int) :=
  if pat.size = 0 then .ok (feed.map (·.1))
  else do
    let k ← newKernel pat
    kmpFeedV1 k false (-1) feed

def backwardMatchesAllV1 (pat : Array Int) (feedBack : List (Int × Int)) : Except Panic (List Int) :=
  if pat.size = 0 then .ok (feedBack.map (·.1))
  else do
    let k ← newKernel (patternReverse pat)
    kmpFeedV1 k true (-1) feedBack

/-- Lazy search with a probe count: the number of feed items pulled by the time the `n`-th match
has been yielded (`itertools.Take` / `PSlice(0,n)` / `collectFirst` stop pulling there).
Returns (matches, items pulled). `n ≤ 0` pulls nothing (v3 `Take`). -/
def kmpTake (k : Kernel) (reverse : Bool) : Nat → List (Int × Int) → Except Panic (List Int × Nat)
  | 0, _ => .ok ([], 0)
  | _ + 1, [] => .ok ([], 0)
  | n + 1, (posit, digit) :: rest => do
    let (k', hit) ← k.visit digit
    if hit then
      let (ms, c) ← kmpTake k' reverse n rest
      pure ((if reverse then posit else posit + 1 - k.pat.size) :: ms, c + 1)
    else
      let (ms, c) ← kmpTake k' reverse (n + 1) rest
      pure (ms, c + 1)

end Sqroot.Model

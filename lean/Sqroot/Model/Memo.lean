/-
L2 — the sequential contract of the memoizer (`numberspec.go`) as seen by ONE caller between
quiescent points, and the read paths built on it: `At`, `FirstN`, `Scan`/`ScanValues`
(v3 push iterators), `IteratorAt` (v3 lazy pull closure; v1/v2 eager pull closure).

The concurrent object is `Model/Monitor.lean`; `Proofs/Monitor.lean` shows every `wait(index)`
returns the sequential answer. Here the state of a memoizer is just its demand counter
`maxLength` (ghost for C06): at quiescence exactly `min(maxLength, |D|+1)` positions of the
source have been consulted.

Digit sources are `Src`: a length (`none` = infinite) and a digit function.
Core Lean only.
-/
import Sqroot.Model.Basic
namespace Sqroot.Model

structure Src where
  len : Option Nat
  digit : Nat → Nat

/-- digit at position `p` of the valid prefix, `none` at or beyond the end -/
def Src.get (s : Src) (p : Nat) : Option Nat :=
  match s.len with
  | some L => if p < L then some (s.digit p) else none
  | none => some (s.digit p)

/-- `p < |D|` -/
def Src.has (s : Src) (p : Nat) : Bool :=
  match s.len with
  | some L => decide (p < L)
  | none => true

def Src.minLen (s : Src) (n : Nat) : Nat :=
  match s.len with
  | some L => min n L
  | none => n

structure MemoCfg where
  chunk : Nat
  maxChunks : Nat

structure Memo where
  src : Src
  maxLength : Nat := 0

/-- positions of the source consulted so far, at quiescence (the end marker counts) -/
def Memo.consulted (m : Memo) : Nat :=
  match m.src.len with
  | some L => min m.maxLength (L + 1)
  | none => m.maxLength

/-- the producer has seen the end marker (at quiescence) -/
def Memo.done (m : Memo) : Bool :=
  match m.src.len with
  | some L => decide (L < m.maxLength)
  | none => false

/-- `wait(index)` at quiescence: new state, length of the snapshot returned, ok -/
def Memo.wait (c : MemoCfg) (m : Memo) (index : Nat) : Memo × Nat × Bool :=
  let m' : Memo :=
    if !m.done && m.maxLength ≤ index then
      { m with maxLength := c.chunk * min (index / c.chunk + 1) c.maxChunks }
    else m
  let snap := m'.src.minLen m'.maxLength
  (m', snap, decide (index < snap))

/-- `memoizer.At(index)` -/
def Memo.at (c : MemoCfg) (m : Memo) (index : Int) : Memo × Int :=
  if index < 0 then (m, -1)
  else
    let (m', _, ok) := m.wait c index.toNat
    if ok then (m', (m.src.digit index.toNat : Int)) else (m', -1)

/-- `memoizer.FirstN(n)`: length of the slice returned -/
def Memo.firstN (c : MemoCfg) (m : Memo) (n : Int) : Memo × Nat :=
  if n ≤ 0 then (m, 0)
  else
    let (m', snap, _) := m.wait c (n - 1).toNat
    (m', min snap n.toNat)

/-- loop of `Scan(index, limit, yield)` after the initial `wait`; `take` = number of items the
consumer accepts before its `yield` returns false (`range` loop with `break`) -/
def Memo.scanLoop (c : MemoCfg) : Nat → Memo → Nat → Int → Nat → Bool → List (Nat × Nat) → Memo × List (Nat × Nat)
  | 0, m, _, _, _, _, acc => (m, acc.reverse)
  | take + 1, m, index, limit, snap, ok, acc =>
    if !ok || (index : Int) ≥ limit then (m, acc.reverse)
    else
      let acc := (index, m.src.digit index) :: acc
      if take = 0 then (m, acc.reverse)          -- consumer's yield returned false
      else
        let index := index + 1
        if index = snap then
          let (m', snap', ok') := m.wait c index
          Memo.scanLoop c take m' index limit snap' ok' acc
        else Memo.scanLoop c take m index limit snap ok acc

/-- `memoizer.Scan(index, limit, yield)` with a consumer that stops after `take` items.
`index < 0` panics ("index must be non-negative"). `take = 0` models a sequence that is never
ranged over. -/
def Memo.scan (c : MemoCfg) (m : Memo) (index limit : Int) (take : Nat) :
    Except Panic (Memo × List (Nat × Nat)) :=
  if index < 0 then .error (.explicit "index must be non-negative")
  else if take = 0 then .ok (m, [])
  else
    let (m', snap, ok) := m.wait c index.toNat
    .ok (Memo.scanLoop c take m' index.toNat limit snap ok [])

/-- state of a v3 `IteratorAt(index, limit)` closure -/
structure PullIt where
  index : Nat
  limit : Int
  initialized : Bool := false
  snap : Nat := 0
  ok : Bool := false
deriving Repr, DecidableEq

/-- one call of the v3 lazy closure: `some (pos, digit)` or `none` (= false) -/
def Memo.pull3 (c : MemoCfg) (m : Memo) (it : PullIt) : Memo × PullIt × Option (Nat × Nat) :=
  let (m, it) :=
    if !it.initialized then
      let (m', snap, ok) := m.wait c it.index
      (m', { it with initialized := true, snap := snap, ok := ok })
    else (m, it)
  if !it.ok || (it.index : Int) ≥ it.limit then (m, it, none)
  else
    let r := (it.index, m.src.digit it.index)
    let index := it.index + 1
    if index = it.snap then
      let (m', snap, ok) := m.wait c index
      (m', { it with index := index, snap := snap, ok := ok }, some r)
    else (m, { it with index := index }, some r)

/-- creation of a v1/v2 `memoizer.IteratorAt(index)` closure: eager `wait(index)` -/
def Memo.newPull12 (c : MemoCfg) (m : Memo) (index : Nat) : Memo × PullIt :=
  let (m', snap, ok) := m.wait c index
  (m', { index := index, limit := maxInt, initialized := true, snap := snap, ok := ok })

/-- one call of the v1/v2 closure (no limit inside the memoizer; `limitSpec` counts outside) -/
def Memo.pull12 (c : MemoCfg) (m : Memo) (it : PullIt) : Memo × PullIt × Option (Nat × Nat) :=
  if !it.ok then (m, it, none)
  else
    let r := (it.index, m.src.digit it.index)
    let index := it.index + 1
    if index = it.snap then
      let (m', snap, ok) := m.wait c index
      (m', { it with index := index, snap := snap, ok := ok }, some r)
    else (m, { it with index := index }, some r)

end Sqroot.Model

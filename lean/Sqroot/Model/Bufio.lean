/-
L8 — `bufio.Writer` restricted to what the printer uses, `countingWriter`, and an ADVERSARIAL
underlying `io.Writer`. This models standard-library code (Go 1.23 `bufio`); it is tied to the real
`bufio` of the toolchain in use by its own differential test (harness group `bufio`).

Bytes are `Nat`s (0–255). The underlying writer is any function
`w : state → bytes → (n, err, state)`; the ghost field `accepted` logs the bytes it took
(`countingWriter.bytesWritten = accepted.length`).
Core Lean only.
-/
import Sqroot.Model.Basic
namespace Sqroot.Model

structure Sink where
  /-- underlying writer: given its state and a byte slice, how many bytes it accepts, whether it
  returns an error, and its next state -/
  w : Nat → List Nat → Nat × Bool × Nat
  st : Nat := 0
  /-- ghost: every byte the underlying writer accepted, in order -/
  accepted : List Nat := []
  /-- ghost: number of `Write` calls that reached the underlying writer -/
  calls : Nat := 0

/-- `countingWriter.Write(p)`: delegate, clamp `n` into `[0, len p]` (contract of io.Writer) -/
def Sink.write (s : Sink) (p : List Nat) : Sink × Nat × Bool :=
  let r := s.w s.st p
  let n := min r.1 p.length
  ({ s with st := r.2.2, accepted := s.accepted ++ p.take n, calls := s.calls + 1 }, n, r.2.1)

structure BufW where
  size : Nat              -- len(b.buf)
  buf : List Nat := []    -- b.buf[0:b.n]
  err : Bool := false     -- b.err != nil (sticky)
  sink : Sink

/-- `bufio.NewWriterSize(w, size)`; `size ≤ 0` means the default 4096 -/
def newBufW (size : Int) (sink : Sink) : BufW :=
  { size := if size ≤ 0 then 4096 else size.toNat, sink := sink }

def BufW.available (b : BufW) : Nat := b.size - b.buf.length
def BufW.buffered (b : BufW) : Nat := b.buf.length

/-- `Flush()` -/
def BufW.flush (b : BufW) : BufW :=
  if b.err then b
  else if b.buf.length = 0 then b
  else
    let (sink, n, e) := b.sink.write b.buf
    let e := e || decide (n < b.buf.length)            -- io.ErrShortWrite
    if e then { b with sink := sink, buf := b.buf.drop n, err := true }
    else { b with sink := sink, buf := [] }

/-- `Write(p)`; fuel bounds the loop (each round either consumes bytes or latches an error,
except for an underlying writer that returns (0, nil) on the direct path — then the real
bufio.Writer spins; the model reports `outOfFuel`). Returns bytes taken. -/
def BufW.writeLoop : Nat → BufW → List Nat → Nat → Except Panic (BufW × Nat)
  | 0, _, _, _ => .error .outOfFuel
  | fuel + 1, b, p, nn =>
    if p.length > b.available ∧ !b.err then
      if b.buffered = 0 then
        -- large write, empty buffer: write directly
        let (sink, n, e) := b.sink.write p
        BufW.writeLoop fuel { b with sink := sink, err := e } (p.drop n) (nn + n)
      else
        let n := min b.available p.length
        let b := ({ b with buf := b.buf ++ p.take n }).flush
        BufW.writeLoop fuel b (p.drop n) (nn + n)
    else if b.err then .ok (b, nn)
    else .ok ({ b with buf := b.buf ++ p }, nn + p.length)

def BufW.write (b : BufW) (p : List Nat) : Except Panic (BufW × Nat) :=
  BufW.writeLoop (2 * p.length + 4) b p 0

/-- `WriteString(s)`: `countingWriter` is not an `io.StringWriter`, so the copy path is always
taken -/
def BufW.writeStringLoop : Nat → BufW → List Nat → Nat → Except Panic (BufW × Nat)
  | 0, _, _, _ => .error .outOfFuel
  | fuel + 1, b, p, nn =>
    if p.length > b.available ∧ !b.err then
      let n := min b.available p.length
      let b := ({ b with buf := b.buf ++ p.take n }).flush
      BufW.writeStringLoop fuel b (p.drop n) (nn + n)
    else if b.err then .ok (b, nn)
    else .ok ({ b with buf := b.buf ++ p }, nn + p.length)

def BufW.writeString (b : BufW) (p : List Nat) : Except Panic (BufW × Nat) :=
  BufW.writeStringLoop (2 * p.length + 4) b p 0

/-- `WriteByte(c)`; returns (writer, error?) -/
def BufW.writeByte (b : BufW) (c : Nat) : BufW × Bool :=
  if b.err then (b, true)
  else
    let b := if b.available = 0 then b.flush else b
    if b.err then (b, true)
    else if b.available = 0 then (b, true)     -- size 0 cannot happen (NewWriterSize); defensive
    else ({ b with buf := b.buf ++ [c] }, false)

/-- UTF-8 encoding of a rune as `utf8.EncodeRune` does it (invalid → U+FFFD) -/
def encodeRune (r : Int) : List Nat :=
  if r < 0 ∨ r > 0x10FFFF ∨ (0xD800 ≤ r ∧ r ≤ 0xDFFF) then [0xEF, 0xBF, 0xBD]
  else
    let c := r.toNat
    if c < 0x80 then [c]
    else if c < 0x800 then [0xC0 + c / 64, 0x80 + c % 64]
    else if c < 0x10000 then [0xE0 + c / 4096, 0x80 + (c / 64) % 64, 0x80 + c % 64]
    else [0xF0 + c / 262144, 0x80 + (c / 4096) % 64, 0x80 + (c / 64) % 64, 0x80 + c % 64]

/-- `WriteRune(r)`; returns (writer, error?) -/
def BufW.writeRune (b : BufW) (r : Int) : Except Panic (BufW × Bool) :=
  if 0 ≤ r ∧ r < 0x80 then .ok (b.writeByte r.toNat)
  else if b.err then .ok (b, true)
  else
    let b := if b.available < 4 then b.flush else b
    if b.err then .ok (b, true)
    else if b.available < 4 then do
      -- "buffer is silly small": falls back to WriteString(string(r))
      let (b', _) ← b.writeString (encodeRune r)
      pure (b', b'.err)
    else .ok ({ b with buf := b.buf ++ encodeRune r }, false)

/-- an `io.Writer` that behaves: `0 ≤ n ≤ len p` is enforced by `Sink.write`; honest = an error is
returned whenever fewer bytes than offered are taken on two consecutive… (see `Proofs/Bufio`) -/
def Sink.bytesWritten (s : Sink) : Nat := s.accepted.length

/-- the underlying writers used by the fault enumeration: accept exactly `k` bytes, then …
  mode 0: every write that would cross `k` takes the bytes up to `k` and returns an error, for ever
  mode 1: the write crossing `k` is short WITHOUT error; later writes take nothing and return an error
  mode 2: the write crossing `k` takes the bytes up to `k` and returns an error ONCE; later writes succeed
  mode 3: never fails -/
def faultWriter (mode k : Nat) : Nat → List Nat → Nat × Bool × Nat := fun st p =>
  -- st = bytes accepted so far, + (k+1) * 2^40 once the fault has fired (modes 1, 2)
  let fired := st ≥ 1099511627776
  let got := st % 1099511627776
  match mode with
  | 0 => if got + p.length ≤ k then (p.length, false, st + p.length)
         else (k - got, true, st + (k - got))
  | 1 => if fired then (0, true, st)
         else if got + p.length ≤ k then (p.length, false, st + p.length)
         else (k - got, false, st + (k - got) + 1099511627776)
  | 2 => if fired then (p.length, false, st + p.length)
         else if got + p.length ≤ k then (p.length, false, st + p.length)
         else (k - got, true, st + (k - got) + 1099511627776)
  | _ => (p.length, false, st + p.length)

end Sqroot.Model

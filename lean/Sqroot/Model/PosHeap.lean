/-
L9 (slices) — `PositionsBuilder` over an explicit heap of backing arrays, to state what the pure
model cannot: a Positions value handed out by `Build` is never altered by later use of the
builder. Go slice semantics: a slice header is (array id, length, capacity); `append` writes in
place when there is spare capacity and otherwise allocates a fresh array; `lastItem.End = …`
writes into the array; `Build` hands over the header itself (fast path) or a header built by
`append` from nil (sorted path), and then resets the builder with `*p = PositionsBuilder{}` —
a fact regenerated from the source (`Gen.V*.buildFullReset`).
Core Lean only.
-/
import Sqroot.Model.Positions
namespace Sqroot.Model

structure SliceH where
  /-- `none` is the nil slice -/
  arr : Option Nat
  len : Nat
  cap : Nat
deriving Repr, DecidableEq

def nilSlice : SliceH := ⟨none, 0, 0⟩

/-- heap of backing arrays; array `i` is `arrays[i]` (its length is its capacity) -/
structure PHeap where
  arrays : List (List PRange)
deriving Repr

def PHeap.read (h : PHeap) (s : SliceH) : List PRange :=
  match s.arr with
  | none => []
  | some a => ((h.arrays.getD a []).take s.len)

def PHeap.writeAt (h : PHeap) (a i : Nat) (x : PRange) : PHeap :=
  ⟨h.arrays.modify a (fun arr => arr.set i x)⟩

/-- `append(s, x)`; growth doubles the capacity (any growth policy with cap' > len works) -/
def PHeap.append (h : PHeap) (s : SliceH) (x : PRange) : PHeap × SliceH :=
  match s.arr with
  | some a =>
    if s.len < s.cap then (h.writeAt a s.len x, { s with len := s.len + 1 })
    else
      let newCap := 2 * s.cap + 1
      let content := h.read s ++ [x] ++ List.replicate (newCap - s.len - 1) default
      (⟨h.arrays ++ [content]⟩, ⟨some h.arrays.length, s.len + 1, newCap⟩)
  | none =>
    (⟨h.arrays ++ [[x]]⟩, ⟨some h.arrays.length, 1, 1⟩)

structure HBuilder where
  ranges : SliceH := nilSlice
  unsorted : Bool := false
deriving Repr

/-- `appendNotBefore(item, &ranges)` on the heap -/
def hAppendNotBefore (h : PHeap) (s : SliceH) (item : PRange) : PHeap × SliceH :=
  match (h.read s).getLast?, s.arr with
  | some last, some a =>
    if item.start ≤ last.stop then
      if item.stop > last.stop then (h.writeAt a (s.len - 1) { last with stop := item.stop }, s)
      else (h, s)
    else h.append s item
  | _, _ => (h, s)      -- unreachable for the callers (non-empty slice)

def HBuilder.addRange (b : HBuilder) (h : PHeap) (start stop : Int) : PHeap × HBuilder :=
  let start := if start < 0 then 0 else start
  if stop ≤ start then (h, b)
  else
    let nr : PRange := ⟨start, stop⟩
    match (h.read b.ranges).getLast? with
    | none => let (h', s') := h.append b.ranges nr; (h', { b with ranges := s' })
    | some last =>
      if start < last.start then
        let (h', s') := h.append b.ranges nr; (h', { ranges := s', unsorted := true })
      else
        let (h', s') := hAppendNotBefore h b.ranges nr; (h', { b with ranges := s' })

def HBuilder.add (b : HBuilder) (h : PHeap) (p : Int) : PHeap × HBuilder :=
  b.addRange h p (wrap64 (p + 1))

/-- `Build()`: returns the heap, the header of the Positions handed out, and the reset builder -/
def HBuilder.build (b : HBuilder) (h : PHeap) : PHeap × SliceH × HBuilder :=
  if !b.unsorted then (h, b.ranges, {})        -- result := p.ranges; *p = PositionsBuilder{}
  else
    match b.ranges.arr with
    | none => (h, nilSlice, {})
    | some a =>
      -- sort.Slice(p.ranges, …): permutes the builder's own array in place
      let sorted := sortByStart (h.read b.ranges)
      let h1 : PHeap := ⟨h.arrays.modify a (fun arr => sorted ++ arr.drop b.ranges.len)⟩
      -- var result []PositionRange; result = append(result, p.ranges[0]); for … appendNotBefore
      match sorted with
      | [] => (h1, nilSlice, {})
      | r0 :: rest =>
        let (h2, s2) := h1.append nilSlice r0
        let (h3, s3) := rest.foldl (fun (acc : PHeap × SliceH) r => hAppendNotBefore acc.1 acc.2 r) (h2, s2)
        (h3, s3, {})

inductive HCall
  | add (p : Int)
  | addRange (s e : Int)
  | build
deriving Repr, DecidableEq

/-- run a script on one builder; collects the header of every Positions built, in order -/
def runHCalls : List HCall → PHeap → HBuilder → List SliceH → PHeap × HBuilder × List SliceH
  | [], h, b, acc => (h, b, acc)
  | .add p :: cs, h, b, acc => let (h', b') := b.add h p; runHCalls cs h' b' acc
  | .addRange s e :: cs, h, b, acc => let (h', b') := b.addRange h s e; runHCalls cs h' b' acc
  | .build :: cs, h, b, acc => let (h', s, b') := b.build h; runHCalls cs h' b' (acc ++ [s])

end Sqroot.Model

/-
L9 — what the argument-mode table buys (C14). Reference-typed arguments are addresses into a
store the CALLER can mutate at any time; a library function treats each such parameter in one of
three ways (the mode is what `go/extract` computes from the source, `Gen.V*.argModes`):

  read      the value is read (or copied) during the call; nothing of the caller's is kept
  retained  the constructed object keeps the address and reads through it later
  mutated   the call writes through the address

The object model is deliberately tiny: an object built from an argument observes either the
snapshot taken at construction or the store at observation time.
Core Lean only.
-/
namespace Sqroot.Model

inductive ArgMode | read | retained | mutated
deriving Repr, DecidableEq

def ArgMode.ofString : String → ArgMode
  | "read" => .read
  | "mutated" => .mutated
  | _ => .retained        -- anything unrecognised counts against the function

abbrev Store (α : Type) := Nat → α

structure Obj (α : Type) where
  snapshot : α
  ref : Option Nat

/-- a library call with one reference argument at address `a` -/
def construct {α : Type} (m : ArgMode) (damage : α → α) (st : Store α) (a : Nat) : Obj α × Store α :=
  match m with
  | .read => (⟨st a, none⟩, st)
  | .retained => (⟨st a, some a⟩, st)
  | .mutated => (⟨st a, none⟩, fun x => if x = a then damage (st x) else st x)

/-- what is later observed of the object (digits, exponent, matches are functions of this) -/
def observe {α : Type} (o : Obj α) (st : Store α) : α :=
  match o.ref with
  | none => o.snapshot
  | some a => st a

end Sqroot.Model

/-
`Fprint` / `Sprint` end to end (v3): `fromSequenceWithPositions` derives one view per Positions
range (`s.WithStart(pr.Start).WithEnd(pr.End)`), traverses it with `All()`, and feeds the printer.
Composes L3 (views), L6 (Positions) and L7/L8 (printer over bufio). Core Lean only.
-/
import Sqroot.Model.View
import Sqroot.Model.Positions
import Sqroot.Model.Printer
namespace Sqroot.Model

/-- the feed of one range: `s.WithStart(start).WithEnd(stop).All()` run to its end -/
def rangeFeed3 (c : MemoCfg) (m : Memo) (v : Val3) (r : PRange) : Option (Memo × List (Nat × Nat)) :=
  match v.apply (.withStart r.start) with
  | some (.ok v1) =>
    match v1.apply (.withEnd r.stop) with
    | some (.ok v2) =>
      match v2.forward c m ((r.stop - r.start).toNat + 1) with
      | .ok res => some res
      | .error _ => none
    | _ => none
  | _ => none

/-- feeds of all ranges, in order, threading the memoizer state -/
def fprintFeeds3 (c : MemoCfg) : Memo → Val3 → List PRange → Option (Memo × List (List (Nat × Nat)))
  | m, _, [] => some (m, [])
  | m, v, r :: rs =>
    match rangeFeed3 c m v r with
    | none => none
    | some (m', f) =>
      match fprintFeeds3 c m' v rs with
      | none => none
      | some (m'', fs) => some (m'', f :: fs)

/-- `Fprint(w, s, p, options…)` for v3 after option processing -/
def fprint3 (c : MemoCfg) (m : Memo) (sink : Sink) (s : PSettings) (v : Val3) (ranges : List PRange) :
    Option (Except Panic PrintResult) :=
  match fprintFeeds3 c m v ranges with
  | none => none
  | some (_, feeds) => some (printRun .v3 sink (positionsEnd ranges) s feeds)

end Sqroot.Model

/-
`Fprint` / `Sprint` end to end (v3): `fromSequenceWithPositions` derives one view per Positions
range (`s.WithStart(pr.Start).WithEnd(pr.End)`), traverses it with `All()`, and feeds the printer.
Composes L3 (views), L6 (Positions) and L7/L8 (printer over bufio). Core Lean only.
-/
import Sqroot.Model.View
import Sqroot.Model.Positions
import Sqroot.Model.Printer
namespace Sqroot.Model

/-- the feed of one range: `s.WithStart(start).WithEnd(stop).All()` run to its end -/
def rangeFeed3 (c : MemoCfg) (m : Memo) (v : Val3) (r : PRange) : Option (Memo × List (Nat × Nat)) :=
  match v.apply (.withStart r.start) with
  | some (.ok v1) =>
    match v1.apply (.withEnd r.stop) with
    | some (.ok v2) =>
      match v2.forward c m ((r.stop - r.start).toNat + 1) with
      | .ok res => some res
      | .error _ => none
    | _ => none
  | _ => none

/-- feeds of all ranges, in order, threading the memoizer state -/
def fprintFeeds3 (c : MemoCfg) : Memo → Val3 → List PRange → Option (Memo × List (List (Nat × Nat)))
  | m, _, [] => some (m, [])
  | m, v, r :: rs =>
    match rangeFeed3 c m v r with
    | none => none
    | some (m', f) =>
      match fprintFeeds3 c m' v rs with
      | none => none
      | some (m'', fs) => some (m'', f :: fs)

/-- `Fprint(w, s, p, options…)` for v3 after option processing -/
def fprint3 (c : MemoCfg) (m : Memo) (sink : Sink) (s : PSettings) (v : Val3) (ranges : List PRange) :
    Option (Except Panic PrintResult) :=
  match fprintFeeds3 c m v ranges with
  | none => none
  | some (_, feeds) => some (printRun .v3 sink (positionsEnd ranges) s feeds)

/-! ### Fprint with early exit (failing writers): which digits are REQUESTED

`fromFiniteSequence` leaves the `for … range s.All()` loop right after the `Consume` that latched
an error (the `yield` of `memoizer.Scan` returns false, so `Scan` returns WITHOUT its next
`wait`), and is not entered at all — `s.All()` is never ranged over — once the printer cannot
consume. The functions below thread the memoizer state through exactly these requests. -/

/-- one range: printer state and memoizer state after `fromFiniteSequence(s.WithStart(a).WithEnd(b), printer)` -/
def rangeFault3 (c : MemoCfg) (m : Memo) (pr : Printer) (v : Val3) (r : PRange) :
    Option (Except Panic (Memo × Printer)) :=
  match v.apply (.withStart r.start) with
  | some (.ok v1) =>
    match v1.apply (.withEnd r.stop) with
    | some (.ok v2) =>
      if !pr.raw.canConsume then some (.ok (m, pr))          -- returns before ranging over s.All()
      else
        match v2.forward c m ((r.stop - r.start).toNat + 1) with
        | .error p => some (.error p)
        | .ok (mFull, xs) =>
          match pr.feed xs with
          | .error p => some (.error p)
          | .ok pr' =>
            if pr'.raw.canConsume then some (.ok (mFull, pr'))   -- the loop ran to the end of the range
            else
              -- left after `pulled` items: the traversal with a consumer that stops there
              match v2.forward c m (pr'.pulled - pr.pulled) with
              | .error p => some (.error p)
              | .ok (mj, _) => some (.ok (mj, pr'))
    | _ => none
  | _ => none

def rangesFault3 (c : MemoCfg) : Memo → Printer → Val3 → List PRange → Option (Except Panic (Memo × Printer))
  | m, pr, _, [] => some (.ok (m, pr))
  | m, pr, v, r :: rs =>
    match rangeFault3 c m pr v r with
    | none => none
    | some (.error p) => some (.error p)
    | some (.ok (m', pr')) => rangesFault3 c m' pr' v rs

/-- `Fprint(w, s, p, options…)` (v3) with the memoizer state it leaves behind -/
def fprintFault3 (c : MemoCfg) (m : Memo) (sink : Sink) (s : PSettings) (v : Val3) (ranges : List PRange) :
    Option (Except Panic (PrintResult × Memo)) :=
  match rangesFault3 c m (newPrinter .v3 sink (positionsEnd ranges) s) v ranges with
  | none => none
  | some (.error p) => some (.error p)
  | some (.ok (m', pr)) =>
    match pr.raw.finish with
    | .error p => some (.error p)
    | .ok raw => some (.ok (⟨raw.w.sink.accepted, raw.w.sink.bytesWritten, raw.err, pr.pulled, raw.w.sink.calls⟩, m'))

/-- `Fwrite(w, s, options…)` (v3) on a finite value with the memoizer state it leaves behind:
`endOf(s)` first (one step of `Backward()`), then `fromFiniteSequence` -/
def fwriteFault3 (c : MemoCfg) (m : Memo) (sink : Sink) (s : PSettings) (v : Val3) (size : Nat) :
    Option (Except Panic (PrintResult × Memo)) :=
  if !v.assertsFiniteSeq then none else
  let (m1, bk) := v.backward c m 1
  let maxDigits : Int := match bk.head? with | some (p, _) => (p : Int) + 1 | none => 0
  let pr := newPrinter .v3 sink maxDigits s
  let fin := fun (m' : Memo) (pr : Printer) => match pr.raw.finish with
    | .error p => some (Except.error p)
    | .ok raw => some (.ok ((⟨raw.w.sink.accepted, raw.w.sink.bytesWritten, raw.err, pr.pulled, raw.w.sink.calls⟩ : PrintResult), m'))
  match v.forward c m1 (size + 1) with
  | .error p => some (.error p)
  | .ok (mFull, xs) =>
    match pr.feed xs with
    | .error p => some (.error p)
    | .ok pr' =>
      if pr'.raw.canConsume then fin mFull pr'
      else match v.forward c m1 pr'.pulled with
        | .error p => some (.error p)
        | .ok (mj, _) => fin mj pr'

/-! ### v1 / v2: `fromSequenceWithPositions` over pull iterators

`for pr, ok := iter(); ok && consumer.CanConsume(); … { consume2.FromGenerator(
s.WithStart(pr.Start).WithEnd(pr.End).FullIterator(), consumer) }`. `FullIterator()` creates the
memoizer's iterator (an eager `wait(start)`) and pulls one digit ahead; `FromGenerator` asks
`CanConsume()` before every pull. A consumer that takes `j` items therefore makes `j + 1` calls of
the inner iterator (fewer when the range ends first). -/

/-- one range (v1/v2): `none` when a view operation is not available -/
def rangeFault12 (c : MemoCfg) (m : Memo) (pr : Printer) (v : Val12) (r : PRange) :
    Option (Except Panic (Memo × Printer)) :=
  match v.apply (.withStart r.start) with
  | some (.ok v1) =>
    match v1.apply (.withEnd r.stop) with
    | some (.ok v2) =>
      if !pr.raw.canConsume then some (.ok (m, pr))        -- the loop of ranges is left (f037092)
      else
        let full := spec12Iterate c m v2.spec v2.start.toNat ((r.stop - r.start).toNat + 2)
        match pr.feed full.2 with
        | .error p => some (.error p)
        | .ok pr' =>
          if pr'.raw.canConsume then some (.ok (full.1, pr'))
          else some (.ok ((spec12Iterate c m v2.spec v2.start.toNat (pr'.pulled - pr.pulled + 1)).1, pr'))
    | _ => none
  | _ => none

def rangesFault12 (c : MemoCfg) : Memo → Printer → Val12 → List PRange → Option (Except Panic (Memo × Printer))
  | m, pr, _, [] => some (.ok (m, pr))
  | m, pr, v, r :: rs =>
    match rangeFault12 c m pr v r with
    | none => none
    | some (.error p) => some (.error p)
    | some (.ok (m', pr')) => rangesFault12 c m' pr' v rs

/-- `Fprint(w, s, p, options…)` of v1 / v2 with the memoizer state it leaves behind -/
def fprintFault12 (ver : Version) (c : MemoCfg) (m : Memo) (sink : Sink) (s : PSettings) (v : Val12)
    (ranges : List PRange) : Option (Except Panic (PrintResult × Memo)) :=
  match rangesFault12 c m (newPrinter ver sink (positionsEnd ranges) s) v ranges with
  | none => none
  | some (.error p) => some (.error p)
  | some (.ok (m', pr)) =>
    match pr.raw.finish with
    | .error p => some (.error p)
    | .ok raw => some (.ok (⟨raw.w.sink.accepted, raw.w.sink.bytesWritten, raw.err, pr.pulled, raw.w.sink.calls⟩, m'))

/-- v1 / v2: the feeds of all ranges under a writer that never fails (every range run to its
end), threading the memoizer state -/
def fprintFeeds12 (c : MemoCfg) : Memo → Val12 → List PRange → Option (Memo × List (List (Nat × Nat)))
  | m, _, [] => some (m, [])
  | m, v, r :: rs =>
    match v.apply (.withStart r.start) with
    | some (.ok v1) =>
      match v1.apply (.withEnd r.stop) with
      | some (.ok v2) =>
        let full := spec12Iterate c m v2.spec v2.start.toNat ((r.stop - r.start).toNat + 2)
        match fprintFeeds12 c full.1 v rs with
        | none => none
        | some (m'', fs) => some (m'', full.2 :: fs)
      | _ => none
    | _ => none

/-- `Fprint(w, s, p, options…)` of v1 / v2 after option processing (plain run) -/
def fprint12 (ver : Version) (c : MemoCfg) (m : Memo) (sink : Sink) (s : PSettings) (v : Val12)
    (ranges : List PRange) : Option (Except Panic PrintResult) :=
  match fprintFeeds12 c m v ranges with
  | none => none
  | some (_, feeds) => some (printRun ver sink (positionsEnd ranges) s feeds)

end Sqroot.Model

/-
The root managers of the three shipped versions, assembled from the REGENERATED definitions in
`Sqroot/Gen/V*.lean` (tie 1): the arithmetic the theorems of C01–C03 are about is what the Go
source says today.
-/
import Sqroot.Model.Root
import Sqroot.Gen.V1
import Sqroot.Gen.V2
import Sqroot.Gen.V3
namespace Sqroot.Model

inductive Version | v1 | v2 | v3
deriving Repr, DecidableEq

def sqrtMgr : Version → Manager
  | .v1 => ⟨Gen.V1.sqrtBase.toNat, Gen.V1.rootInitRem, Gen.V1.rootInitIncr, Gen.V1.sqrtInit2, Gen.V1.sqrtNext, Gen.V1.sqrtNextDigit⟩
  | .v2 => ⟨Gen.V2.sqrtBase.toNat, Gen.V2.rootInitRem, Gen.V2.rootInitIncr, Gen.V2.sqrtInit2, Gen.V2.sqrtNext, Gen.V2.sqrtNextDigit⟩
  | .v3 => ⟨Gen.V3.sqrtBase.toNat, Gen.V3.rootInitRem, Gen.V3.rootInitIncr, Gen.V3.sqrtInit2, Gen.V3.sqrtNext, Gen.V3.sqrtNextDigit⟩

def cubeMgr : Version → Manager
  | .v1 => ⟨Gen.V1.cubeBase.toNat, Gen.V1.rootInitRem, Gen.V1.rootInitIncr, Gen.V1.cubeInit2, Gen.V1.cubeNext, Gen.V1.cubeNextDigit⟩
  | .v2 => ⟨Gen.V2.cubeBase.toNat, Gen.V2.rootInitRem, Gen.V2.rootInitIncr, Gen.V2.cubeInit2, Gen.V2.cubeNext, Gen.V2.cubeNextDigit⟩
  | .v3 => ⟨Gen.V3.cubeBase.toNat, Gen.V3.rootInitRem, Gen.V3.rootInitIncr, Gen.V3.cubeInit2, Gen.V3.cubeNext, Gen.V3.cubeNextDigit⟩

/-- problems the extractor reported for a version (untranslatable source) -/
def genProblems : Version → List String
  | .v1 => Gen.V1.problems
  | .v2 => Gen.V2.problems
  | .v3 => Gen.V3.problems

/-- the extractor could not translate (part of) the root arithmetic of this version: the generated
manager is a placeholder, so the executable model has no opinion on digits of roots. Containment:
the properties whose theorems use the managers (C01–C03, C13, C18) report the broken tie through
the extractor's problem list; properties about the layers above must not. -/
def rootArithmeticUntranslated (v : Version) : Bool :=
  (genProblems v).any fun s =>
    (s.splitOn "Manager").length > 1 || (s.splitOn "computeRootDigits").length > 1

/-- the extractor could not translate (part of) the format rule of this version: the generated
`newFormatSpec` / `bigExponent` are placeholders and the executable model has no opinion on
formatted text (containment: C08, C16, C18 report the broken tie, other properties must not) -/
def formatRuleUntranslated (v : Version) : Bool :=
  (genProblems v).any fun s =>
    (s.splitOn "newFormatSpec").length > 1 || (s.splitOn "formatSpecFor").length > 1 ||
    (s.splitOn "bigExponent").length > 1

/-- the same for the printer's regenerated pieces (label width, defaults, gap loop) -/
def printerUntranslated (v : Version) : Bool :=
  (genProblems v).any fun s =>
    (s.splitOn "digitCountWidth").length > 1 || (s.splitOn "printerSettings").length > 1 ||
    (s.splitOn "Fprint").length > 1 || (s.splitOn "Fwrite").length > 1 || (s.splitOn "printer.Consume").length > 1

def chunkSize : Version → Nat
  | .v1 => Gen.V1.kMemoizerChunkSize.toNat
  | .v2 => Gen.V2.kMemoizerChunkSize.toNat
  | .v3 => Gen.V3.kMemoizerChunkSize.toNat

end Sqroot.Model

/-
L7 — `printer` / `rawPrinter` (formatters.go), `Fprint` / `Fwrite` drivers (print.go), on top of
the bufio model. The printer is a state machine over (index, indexInRow, err); every write goes
through `BufW`, so write errors latch exactly where the Go code checks them.

Whether the gap loop of `printer.Consume` re-checks the error (`for p.index < posit &&
p.CanConsume()`) is a fact regenerated from the source (`Gen.V*.gapLoopChecksErr`, see DESIGN §9.1).
Core Lean only.
-/
import Sqroot.Model.Bufio
import Sqroot.Model.Managers
namespace Sqroot.Model

def utf8 (s : String) : List Nat := s.toUTF8.toList.map (·.toNat)

structure PSettings where
  digitsPerRow : Int
  digitsPerColumn : Int
  showCount : Bool
  missingDigit : Int
  bufferSize : Int
  trailingLineFeed : Bool
  leadingDecimal : Bool
deriving Repr, DecidableEq

def PSettings.ofDefaults (d : PrinterDefaults) : PSettings :=
  ⟨d.digitsPerRow, d.digitsPerColumn, d.showCount, d.missingDigit, d.bufferSize, d.trailingLineFeed, d.leadingDecimal⟩

/-- `rowStarter`: count on/off and the two strings (for count-on the non-zero string is the
`%<width>d  ` format, applied to the index) -/
structure RowStarter where
  countOn : Bool
  width : Nat
  zeroString : String
  nonZeroString : String      -- used when countOn = false
deriving Repr, DecidableEq

def digitCountWidthOf (v : Version) (s : PSettings) (maxDigits : Int) : Int :=
  match v with
  | .v1 => Gen.V1.digitCountWidth s.digitsPerRow s.showCount maxDigits
  | .v2 => Gen.V2.digitCountWidth s.digitsPerRow s.showCount maxDigits
  | .v3 => Gen.V3.digitCountWidth s.digitsPerRow s.showCount maxDigits

/-- v3 `computeRowStarter`; v1/v2 `computeIndentation` behaves as `leadingDecimal = true` -/
def computeRowStarter (v : Version) (s : PSettings) (maxDigits : Int) : RowStarter :=
  let width := digitCountWidthOf v s maxDigits
  let ld := match v with | .v3 => s.leadingDecimal | _ => true
  if width ≤ 0 then
    if ld then ⟨false, 0, "0.", "  "⟩
    else if s.showCount then ⟨false, 0, "0  ", "   "⟩
    else ⟨false, 0, "", ""⟩
  else if ld then ⟨true, width.toNat, String.mk (List.replicate width.toNat ' ') ++ "0.", ""⟩
  else ⟨true, width.toNat, String.mk (List.replicate (width.toNat - 1) ' ') ++ "0  ", ""⟩

/-- `fmt.Sprintf("%<width>d", index)`: right-aligned in `width` -/
def padLeft (width : Nat) (s : String) : String :=
  String.mk (List.replicate (width - s.length) ' ') ++ s

structure RawPrinter where
  w : BufW
  starter : RowStarter
  digitsPerRow : Int
  digitsPerColumn : Int
  trailingLineFeed : Bool
  index : Int := 0
  indexInRow : Int := 0
  err : Bool := false

def RawPrinter.canConsume (p : RawPrinter) : Bool := !p.err

/-- `rowStarter.Start(w, index)` → (writer, err) -/
def RowStarter.start (r : RowStarter) (w : BufW) (index : Int) : Except Panic (BufW × Bool) :=
  if index = 0 then do
    let (w', _) ← w.writeString (utf8 r.zeroString)
    pure (w', w'.err)
  else if r.countOn then do
    -- fmt.Fprintf(w, "%<width>d  ", index): formatted in fmt's buffer, then ONE w.Write
    let (w', _) ← w.write (utf8 (padLeft r.width (toString index) ++ "  "))
    pure (w', w'.err)
  else do
    let (w', _) ← w.writeString (utf8 r.nonZeroString)
    pure (w', w'.err)

/-- `rawPrinter.Consume(digit rune)` -/
def RawPrinter.consume (p : RawPrinter) (digit : Int) : Except Panic RawPrinter :=
  if !p.canConsume then .ok p
  else do
    -- the three-way prefix
    let p ←
      if p.index = 0 then do
        let (w, e) ← p.starter.start p.w 0
        pure { p with w := w, err := e }
      else if p.digitsPerRow > 0 ∧ Int.tmod p.index p.digitsPerRow = 0 then do
        let (w, e) ←
          if p.w.sink.bytesWritten + p.w.buffered > 0 then do
            let (w, _) ← p.w.write [10]            -- fmt.Fprintln(p.writer)
            pure (w, w.err)
          else pure (p.w, false)
        if e then pure { p with w := w, err := true }
        else do
          let (w, e) ← p.starter.start w p.index
          if e then pure { p with w := w, err := true }
          else pure { p with w := w, indexInRow := 0 }
      else if p.digitsPerColumn > 0 ∧ Int.tmod p.indexInRow p.digitsPerColumn = 0 then
        let (w, e) := p.w.writeByte 32
        pure { p with w := w, err := e }
      else pure p
    if p.err then pure p
    else do
      let (w, e) ← p.w.writeRune digit
      if e then pure { p with w := w, err := true }
      else pure { p with w := w, index := p.index + 1, indexInRow := p.indexInRow + 1 }

/-- `rawPrinter.Finish()` (v3 adds the trailing line feed) -/
def RawPrinter.finish (p : RawPrinter) : Except Panic RawPrinter := do
  let p ←
    if !p.err ∧ p.trailingLineFeed then do
      let (w, _) ← p.w.write [10]
      pure { p with w := w, err := w.err }
    else pure p
  let w := p.w.flush
  pure { p with w := w, err := p.err || w.err }

structure Printer where
  raw : RawPrinter
  missingDigit : Int
  /-- regenerated fact: the gap loop is `for p.index < posit && p.CanConsume()` -/
  gapChecksErr : Bool
  /-- ghost: number of digits consumed from the sequence -/
  pulled : Nat := 0

def gapChecksErrOf : Version → Bool
  | .v1 => Gen.V1.gapLoopChecksErr
  | .v2 => Gen.V2.gapLoopChecksErr
  | .v3 => Gen.V3.gapLoopChecksErr

def newPrinter (v : Version) (sink : Sink) (maxDigits : Int) (s : PSettings) : Printer :=
  { raw := { w := newBufW s.bufferSize sink, starter := computeRowStarter v s maxDigits,
             digitsPerRow := s.digitsPerRow, digitsPerColumn := s.digitsPerColumn,
             trailingLineFeed := s.trailingLineFeed },
    missingDigit := s.missingDigit, gapChecksErr := gapChecksErrOf v }

/-- `skipRowsFor(nextPosit)` (only called with digitsPerRow > 0) -/
def RawPrinter.skipRowsFor (p : RawPrinter) (nextPosit : Int) : RawPrinter :=
  let currentRow := Int.tdiv p.index p.digitsPerRow
  let nextRow := Int.tdiv nextPosit p.digitsPerRow
  if Int.tmod p.index p.digitsPerRow = 0 then
    { p with index := p.index + (nextRow - currentRow) * p.digitsPerRow }
  else if nextRow > currentRow then
    { p with index := p.index + (nextRow - currentRow - 1) * p.digitsPerRow }
  else p

/-- the gap loop `for p.index < posit [&& p.CanConsume()] { p.rawPrinter.Consume(missingDigit) }`.
Fuel = number of missing marks still owed; without the error re-check a latched error makes the
Go loop spin for ever — reported as `outOfFuel`. -/
def gapLoop (checksErr : Bool) (missing : Int) (posit : Int) : Nat → RawPrinter → Except Panic RawPrinter
  | 0, p => if p.index < posit ∧ (!checksErr ∨ p.canConsume) then .error .outOfFuel else .ok p
  | fuel + 1, p =>
    if p.index < posit ∧ (!checksErr ∨ p.canConsume) then do
      let p' ← p.consume missing
      gapLoop checksErr missing posit fuel p'
    else .ok p

/-- `printer.Consume(posit, digit)` -/
def Printer.consume (pr : Printer) (posit : Int) (digit : Nat) : Except Panic Printer := do
  let raw ←
    if pr.raw.index < posit then do
      let raw := if pr.raw.digitsPerRow > 0 ∧ pr.raw.starter.countOn then pr.raw.skipRowsFor posit else pr.raw
      gapLoop pr.gapChecksErr pr.missingDigit posit (posit - raw.index).toNat raw
    else pure pr.raw
  let raw ← raw.consume (48 + (digit : Int))
  pure { pr with raw := raw }

/-- `fromFiniteSequence(s, printer)` on the (position, digit) feed of `s.All()` -/
def Printer.feed : Printer → List (Nat × Nat) → Except Panic Printer
  | pr, [] => .ok pr
  | pr, (p, d) :: rest =>
    if !pr.raw.canConsume then .ok pr
    else do
      let pr' ← pr.consume p d
      Printer.feed { pr' with pulled := pr'.pulled + 1 } rest

/-- outcome of Fprint/Fwrite: bytes the underlying writer accepted, the count returned, error? -/
structure PrintResult where
  accepted : List Nat
  written : Nat
  err : Bool
  pulled : Nat
  calls : Nat
deriving Repr, DecidableEq

/-- `Fprint` / `Fwrite` after option processing: `feeds` = for each PositionRange the digits that
`s.WithStart(pr.Start).WithEnd(pr.End).All()` delivers (one feed for Fwrite) -/
def printRun (v : Version) (sink : Sink) (maxDigits : Int) (s : PSettings) (feeds : List (List (Nat × Nat))) :
    Except Panic PrintResult := do
  let pr ← feeds.foldlM (fun pr f => pr.feed f) (newPrinter v sink maxDigits s)
  let raw ← pr.raw.finish
  pure ⟨raw.w.sink.accepted, raw.w.sink.bytesWritten, raw.err, pr.pulled, raw.w.sink.calls⟩

end Sqroot.Model

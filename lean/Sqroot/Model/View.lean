/-
L3 — views: `withLimit`/`limitSpec`, `FiniteNumber`, `mantissaWithStart`, `opqNumber`,
`opqSequence` (v3) and `Number`, `numberWithStart` (v1, v2), with the DYNAMIC TYPE of every value
tracked, so that Go type assertions (`x.(FiniteSequence)`, `x.(*FiniteNumber)`, `x.(Number)`) are
functions of the model value (C17). Pointer identity (`if result == n.Number { return n }`) is
modelled by operations reporting whether they returned their receiver.
Core Lean only.
-/
import Sqroot.Model.Memo
namespace Sqroot.Model

/-- `mantissa.spec` / `Number.spec`: nil, the memoizer itself, or ONE `limitSpec` around it
(`withLimit` never nests them) -/
inductive VSpec
  | nil
  | memo
  | limited (limit : Int)
deriving Repr, DecidableEq

/-- `withLimit(spec, limit)`: the new spec and whether it is the SAME interface value as `spec` -/
def withLimit (s : VSpec) (limit : Int) : VSpec × Bool :=
  if limit ≤ 0 then (.nil, s == .nil)
  else match s with
    | .nil => (.nil, true)
    | .limited l => if limit ≥ l then (s, true) else (.limited limit, false)
    | .memo => (.limited limit, false)

/-- dynamic type + fields of a v3 value -/
inductive Val3
  | fnum (spec : VSpec) (exp : Int)        -- *FiniteNumber
  | mws (spec : VSpec) (start : Int)       -- *mantissaWithStart
  | opqN (spec : VSpec) (exp : Int)        -- *opqNumber wrapping a *FiniteNumber
  | opqS (spec : VSpec) (start : Int)      -- *opqSequence wrapping a *mantissaWithStart
deriving Repr, DecidableEq

def zero3 : Val3 := .fnum .nil 0

/-- `FiniteNumber.withMantissa` -/
def fnumWithSpec (spec : VSpec) (exp : Int) (r : VSpec × Bool) : Val3 :=
  if r.2 then .fnum spec exp
  else if r.1 = .nil then zero3
  else .fnum r.1 exp

inductive ViewOp
  | withStart (s : Int)
  | withEnd (e : Int)
  | withSig (k : Int)
  | finiteWithStart (s : Int)
deriving Repr, DecidableEq

/-- result of applying a view operation: `none` when the dynamic type does not have the method
(the Go type system rejects the call), `error` for the documented panic -/
def Val3.apply (v : Val3) (op : ViewOp) : Option (Except Panic Val3) :=
  match v, op with
  | .fnum sp ex, .withStart s | .fnum sp ex, .finiteWithStart s =>
    some (.ok (if s ≤ 0 then .fnum sp ex else .mws sp s))
  | .mws sp st, .withStart s | .mws sp st, .finiteWithStart s =>
    some (.ok (if s ≤ st then .mws sp st else .mws sp s))
  | .opqN sp ex, .withStart s => some (.ok (if s ≤ 0 then .opqN sp ex else .opqS sp s))
  | .opqS sp st, .withStart s => some (.ok (if s ≤ st then .opqS sp st else .opqS sp s))
  | .opqN _ _, .finiteWithStart _ | .opqS _ _, .finiteWithStart _ => none
  | .fnum sp ex, .withEnd e | .opqN sp ex, .withEnd e => some (.ok (fnumWithSpec sp ex (withLimit sp e)))
  | .mws sp st, .withEnd e | .opqS sp st, .withEnd e =>
    let r := withLimit sp e
    some (.ok (if r.2 then .mws sp st else .mws r.1 st))
  | .fnum sp ex, .withSig k | .opqN sp ex, .withSig k =>
    if k < 0 then some (.error (.explicit "limit must be non-negative"))
    else some (.ok (fnumWithSpec sp ex (withLimit sp k)))
  | .mws _ _, .withSig _ | .opqS _ _, .withSig _ => none

/-- `x.(FiniteSequence)` succeeds -/
def Val3.assertsFiniteSeq : Val3 → Bool
  | .fnum _ _ | .mws _ _ => true
  | _ => false
/-- `x.(*FiniteNumber)` succeeds -/
def Val3.assertsFiniteNum : Val3 → Bool
  | .fnum _ _ => true
  | _ => false
/-- `x.(Number)` succeeds -/
def Val3.assertsNumber : Val3 → Bool
  | .fnum _ _ | .opqN _ _ => true
  | _ => false

def Val3.spec : Val3 → VSpec
  | .fnum s _ | .mws s _ | .opqN s _ | .opqS s _ => s

/-- index at which traversals start (`mantissa.Scan(0 | m.start, …)`) -/
def Val3.start : Val3 → Int
  | .fnum _ _ | .opqN _ _ => 0
  | .mws _ s | .opqS _ s => s

def Val3.exponent : Val3 → Option Int
  | .fnum _ e | .opqN _ e => some e
  | _ => none

def Val3.isZero (v : Val3) : Bool := v.spec == .nil

/-- `mantissa.Scan(index, yield)` through `limitSpec.Scan` (clamps) down to `memoizer.Scan` -/
def specScan (c : MemoCfg) (m : Memo) (sp : VSpec) (index : Int) (take : Nat) :
    Except Panic (Memo × List (Nat × Nat)) :=
  match sp with
  | .nil => .ok (m, [])
  | .memo => m.scan c index maxInt take
  | .limited l => m.scan c (min index l) (min maxInt l) take

/-- `All()` / `Values()` of any v3 value, consumer stopping after `take` items -/
def Val3.forward (c : MemoCfg) (m : Memo) (v : Val3) (take : Nat) :
    Except Panic (Memo × List (Nat × Nat)) :=
  specScan c m v.spec v.start take

/-- `mantissa.At(posit)` through `limitSpec.At` -/
def specAt (c : MemoCfg) (m : Memo) (sp : VSpec) (posit : Int) : Memo × Int :=
  match sp with
  | .nil => (m, -1)
  | .memo => m.at c posit
  | .limited l =>
    if posit ≥ l then ((m.at c l).1, -1)       -- `l.delegate.At(l.limit)` is evaluated and discarded
    else m.at c posit

/-- `mantissa.allDigits()` = `spec.FirstN(MaxInt)`: number of digits -/
def specAllDigits (c : MemoCfg) (m : Memo) (sp : VSpec) : Memo × Nat :=
  match sp with
  | .nil => (m, 0)
  | .memo => m.firstN c maxInt
  | .limited l => m.firstN c (if maxInt > l then l else maxInt)

/-- `Backward()` (`mantissa.ReverseScan(start, yield)`), consumer stopping after `take` items -/
def Val3.backward (c : MemoCfg) (m : Memo) (v : Val3) (take : Nat) : Memo × List (Nat × Nat) :=
  if take = 0 then (m, []) else
  let (m', n) := specAllDigits c m v.spec
  let lo := v.start.toNat
  (m', ((List.range n).reverse.filter (fun i => decide (lo ≤ i))).take take |>.map fun i => (i, m.src.digit i))

/-- v1 / v2 values: `*Number` and `*numberWithStart` -/
inductive Val12
  | num (spec : VSpec) (exp : Int)
  | nws (spec : VSpec) (exp : Int) (start : Int)
deriving Repr, DecidableEq

def zero12 : Val12 := .num .nil 0

/-- `Number.withSpec` -/
def numWithSpec (spec : VSpec) (exp : Int) (r : VSpec × Bool) : VSpec × Int :=
  if r.2 then (spec, exp) else if r.1 = .nil then (.nil, 0) else (r.1, exp)

def Val12.apply (v : Val12) (op : ViewOp) : Option (Except Panic Val12) :=
  match v, op with
  | .num sp ex, .withStart s => some (.ok (if s ≤ 0 then .num sp ex else .nws sp ex s))
  | .nws sp ex st, .withStart s => some (.ok (if s ≤ st then .nws sp ex st else .nws sp ex s))
  | .num sp ex, .withEnd e =>
    let r := numWithSpec sp ex (withLimit sp e); some (.ok (.num r.1 r.2))
  | .nws sp ex st, .withEnd e =>
    let r := numWithSpec sp ex (withLimit sp e); some (.ok (.nws r.1 r.2 st))
  | .num sp ex, .withSig k =>
    if k < 0 then some (.error (.explicit "limit must be non-negative"))
    else let r := numWithSpec sp ex (withLimit sp k); some (.ok (.num r.1 r.2))
  | .nws _ _ _, .withSig _ => none
  | _, .finiteWithStart _ => none

def Val12.spec : Val12 → VSpec
  | .num s _ | .nws s _ _ => s
def Val12.start : Val12 → Int
  | .num _ _ => 0
  | .nws _ _ s => s

/-- v1/v2 `limitSpec.IteratorAt(index)` over `memoizer.IteratorAt`: returns the digits delivered,
pulling at most `take` times (the closure is called `take` times or until it returns −1) -/
def pullLoop12 (c : MemoCfg) : Nat → Memo → PullIt → Option Int → List (Nat × Nat) → Memo × List (Nat × Nat)
  | 0, m, _, _, acc => (m, acc.reverse)
  | take + 1, m, it, lim, acc =>
    match lim with
    | some l => if (it.index : Int) = l then (m, acc.reverse) else
      let (m', it', r) := m.pull12 c it
      match r with
      | none => (m', acc.reverse)
      | some x => pullLoop12 c take m' it' lim (x :: acc)
    | none =>
      let (m', it', r) := m.pull12 c it
      match r with
      | none => (m', acc.reverse)
      | some x => pullLoop12 c take m' it' lim (x :: acc)

/-- `Number.iteratorAt(index)` then `take` calls (index ≥ 0) -/
def spec12Iterate (c : MemoCfg) (m : Memo) (sp : VSpec) (index : Nat) (take : Nat) : Memo × List (Nat × Nat) :=
  match sp with
  | .nil => (m, [])
  | .memo =>
    let (m', it) := m.newPull12 c index
    pullLoop12 c take m' it none []
  | .limited l =>
    let idx : Nat := if (index : Int) > l then l.toNat else index
    let (m', it) := m.newPull12 c idx
    pullLoop12 c take m' it (some l) []

end Sqroot.Model

/-
API-level entry points of v3 assembled from the layers: `Format` / `String` on a Number value,
`FindFirstN` (and, for n = 1, `FindFirst`) on any Sequence value, `Fwrite` on a FiniteSequence
value — each as the composition the Go code performs: the view's traversal feeds the formatter /
the KMP automaton / the printer. Core Lean only.
-/
import Sqroot.Model.View
import Sqroot.Model.Format
import Sqroot.Model.Search
import Sqroot.Model.Printer
namespace Sqroot.Model

/-- `n.Format(state, verb)` for a v3 Number value `v` (fnum / opqN): the formatter pulls
`mantissa.Values()` until it cannot consume any more -/
def format3 (c : MemoCfg) (m : Memo) (v : Val3) (verb : Nat) (prec width : Option Nat) (minus : Bool) :
    Option (Except Panic (Memo × String)) :=
  match v.exponent with
  | none => none
  | some e =>
    if !v.assertsNumber then none else
    let r := genNewFormatSpec .v3 (prec.getD 0) prec.isSome verb e
    let need : Nat := if r.2 then r.1.sigDigits.toNat else (stringSpec .v3 e).sigDigits.toNat
    -- fromMantissa: nothing is ranged over when the formatter cannot consume at all
    match (if need = 0 then Except.ok (m, []) else specScan c m v.spec 0 need) with
    | .error p => some (.error p)
    | .ok (m', xs) =>
      match numFormat .v3 e (xs.map (·.2)) verb prec width minus with
      | .ok s => some (.ok (m', s))
      | .error p => some (.error p)

/-- `FindFirstN(s, pattern, n)` = `slices.Collect(itertools.Take(Matches(s, pattern), n))`.
`bound` = how far the model looks for the matches (the real iterator is unbounded; the theorem
assumes the n-th match completes within `bound` digits of the window, or the window ends). The
memoizer state returned is the one after pulling exactly the digits the search consumed. -/
def findFirstN3 (c : MemoCfg) (m : Memo) (v : Val3) (pat : List Int) (n : Nat) (bound : Nat) :
    Except Panic (Memo × List Int × Nat) :=
  if n = 0 then .ok (m, [], 0)           -- itertools.Take with n ≤ 0: the empty sequence
  else
    match v.forward c m bound with
    | .error p => .error p
    | .ok (_, feed) =>
      let feedI := feed.map fun (p, d) => ((p : Int), (d : Int))
      if pat.length = 0 then
        -- zeroPattern: every position, the consumer stops after n
        let ms := (feedI.take n).map (·.1)
        match v.forward c m ms.length with
        | .ok (m', _) => .ok (m', ms, ms.length)
        | .error p => .error p
      else
        match newKernel pat.toArray with
        | .error p => .error p
        | .ok k =>
          match kmpTake k false n feedI with
          | .error p => .error p
          | .ok (ms, cnt) =>
            match v.forward c m cnt with
            | .ok (m', _) => .ok (m', ms, cnt)
            | .error p => .error p

/-- `Fwrite(w, s, options…)` on a finite value: `endOf(s)` (first item of `Backward()`), then
`All()` into the printer -/
def fwrite3 (c : MemoCfg) (m : Memo) (sink : Sink) (s : PSettings) (v : Val3) (size : Nat) :
    Option (Except Panic PrintResult) :=
  if !v.assertsFiniteSeq then none else
  let (m1, bk) := v.backward c m 1
  let maxDigits : Int := match bk.head? with | some (p, _) => (p : Int) + 1 | none => 0
  match v.forward c m1 (size + 1) with
  | .error p => some (.error p)
  | .ok (_, xs) => some (printRun .v3 sink maxDigits s [xs])

/-- `FindAll(s, pattern)` = `slices.Collect(Matches(s, pattern))` on a finite value: `All()` run to
its end into the KMP automaton (every position for the empty pattern). `size` = number of digits
of the view (the traversal is asked for one item more than that, so it ends by itself). -/
def findAll3 (c : MemoCfg) (m : Memo) (v : Val3) (pat : List Int) (size : Nat) :
    Option (Except Panic (Memo × List Int)) :=
  if !v.assertsFiniteSeq then none else
  match v.forward c m (size + 1) with
  | .error p => some (.error p)
  | .ok (m', feed) =>
    match matchesAll pat.toArray (feed.map fun (p, d) => ((p : Int), (d : Int))) with
    | .ok ms => some (.ok (m', ms))
    | .error p => some (.error p)

/-- `FindLastN(s, pattern, n)` = `slices.Collect(itertools.Take(BackwardMatches(s, pattern), n))`;
`FindLast` is the head for n = 1. `Backward()` first reads ALL digits of the finite view
(`FirstN`), then walks down; `Take` with n ≤ 0 ranges over nothing. -/
def findLastN3 (c : MemoCfg) (m : Memo) (v : Val3) (pat : List Int) (n : Nat) (size : Nat) :
    Option (Except Panic (Memo × List Int)) :=
  if !v.assertsFiniteSeq then none else
  if n = 0 then some (.ok (m, []))
  else
    let (m', back) := v.backward c m (size + 1)
    match backwardMatchesAll pat.toArray (back.map fun (p, d) => ((p : Int), (d : Int))) with
    | .ok ms => some (.ok (m', ms.take n))
    | .error p => some (.error p)

/-- v1 / v2 `FindAll(s, pattern)` = `asIntSlice(find(s, pattern), Identity)` on a view with `size`
digits: `s.FullIterator()` (pull iterator, eager, one digit of look-ahead) drained into the KMP
automaton of v1/v2 (which resets on a position discontinuity); every position for the empty
pattern. -/
def findAll12 (c : MemoCfg) (m : Memo) (v : Val12) (pat : List Int) (size : Nat) :
    Except Panic (Memo × List Int) :=
  let r := spec12Iterate c m v.spec v.start.toNat (size + 1)
  match matchesAllV1 pat.toArray (r.2.map fun (p, d) => ((p : Int), (d : Int))) with
  | .ok ms => .ok (r.1, ms)
  | .error p => .error p

/-- v1 / v2 `n.Format(state, verb)` on a `*Number` value: `printFixed` creates `n.Iterator()` (an
eager `wait(0)`, also when the formatter will not consume anything) and
`consume2.FromIntGenerator` pulls digits while the formatter can consume — `need` calls of the
pull iterator. `none`: not a Number (a started view has no Format). -/
def format12 (ver : Version) (c : MemoCfg) (m : Memo) (v : Val12) (verb : Nat) (prec width : Option Nat)
    (minus : Bool) : Option (Except Panic (Memo × String)) :=
  match v with
  | .nws _ _ _ => none
  | .num sp e =>
    let r := genNewFormatSpec ver (prec.getD 0) prec.isSome verb e
    let need : Nat := if r.2 then r.1.sigDigits.toNat else (stringSpec ver e).sigDigits.toNat
    let it := spec12Iterate c m sp 0 need
    match numFormat ver e (it.2.map (·.2)) verb prec width minus with
    | .ok s => some (.ok (it.1, s))
    | .error p => some (.error p)

end Sqroot.Model

/-
Argument checks of the exported constructors (`checkNumDenom`, sqroot.go) — the documented
panics. Core Lean only.
-/
import Sqroot.Model.Basic
namespace Sqroot.Model

/-- `checkNumDenom(num, denom)` -/
def checkNumDenom (num den : Int) : Except Panic Unit :=
  if den ≤ 0 then .error (.explicit "Denominator must be positive")
  else if num < 0 then .error (.explicit "Numerator must be non-negative")
  else .ok ()

end Sqroot.Model

/-
Argument checks of the exported constructors (`checkNumDenom`, sqroot.go) — the documented
panics. Core Lean only.
-/
import Sqroot.Model.Basic
namespace Sqroot.Model

/-- `checkNumDenom(num, denom)` -/
def checkNumDenom (num den : Int) : Except Panic Unit :=
  if den ≤ 0 then .error (.explicit "Denominator must be positive")
  else if num < 0 then .error (.explicit "Numerator must be non-negative")
  else .ok ()

end Sqroot.Model

namespace Sqroot.Model

/-- what a root constructor returns, as far as C01/C02 are concerned -/
inductive RootResult
  /-- the shared zero number: IsZero, exponent 0, no digits -/
  | zero
  /-- a Number backed by the memoizer over the root digit closure for `num/den` -/
  | root (num den : Nat)
deriving Repr, DecidableEq

/-- `nRootFrac(num, denom, newManager)`: argument check, zero shortcut, otherwise the lazy root -/
def nRootFrac (num den : Int) : Except Panic RootResult :=
  match checkNumDenom num den with
  | .error p => .error p
  | .ok () => if num = 0 then .ok .zero else .ok (.root num.toNat den.toNat)

theorem nRootFrac_zero (den : Int) (hden : 0 < den) : nRootFrac 0 den = .ok .zero := by
  simp [nRootFrac, checkNumDenom, Int.not_le.mpr hden]

theorem nRootFrac_pos (num den : Int) (hnum : 0 < num) (hden : 0 < den) :
    nRootFrac num den = .ok (.root num.toNat den.toNat) ∧ 0 < num.toNat ∧ 0 < den.toNat := by
  have h1 : ¬ den ≤ 0 := Int.not_le.mpr hden
  have h2 : ¬ num < 0 := by omega
  have h3 : num ≠ 0 := by omega
  refine ⟨by simp [nRootFrac, checkNumDenom, h1, h2, h3], by omega, by omega⟩

end Sqroot.Model

/-
C18 — The three shipped module versions agree wherever their APIs overlap.
Where the copies are the same code the agreement is `rfl` between the REGENERATED definitions of
the versions (a fix or slip applied to one copy only breaks that `rfl`); where they differ in code
the equivalence is a theorem (KMP with/without Reset, String() built directly vs through %g,
computeIndentation vs rowStarter, x == −1 vs digitOutOfRange on digit sources that end with −1).
Each version is tied to its model instance by the correspondence check, which also compares the
three implementations with each other directly, to depths where only the specification's
inequality serves as oracle.
-/
import Sqroot.Proofs.Root
import Sqroot.Proofs.Search
import Sqroot.Proofs.Format
import Sqroot.Proofs.Print
namespace Sqroot.Props.C18
open Sqroot.Model Sqroot.Proofs

/-- root managers, block size, default precisions, exponent rule, gap loop: the generated
definitions of v1, v2 and v3 are identical -/
theorem generated_definitions_agree :
    sqrtMgr .v1 = sqrtMgr .v3 ∧ sqrtMgr .v2 = sqrtMgr .v3 ∧
    cubeMgr .v1 = cubeMgr .v3 ∧ cubeMgr .v2 = cubeMgr .v3 ∧
    chunkSize .v1 = chunkSize .v3 ∧ chunkSize .v2 = chunkSize .v3 ∧
    Gen.V1.fPrecision = Gen.V3.fPrecision ∧ Gen.V2.fPrecision = Gen.V3.fPrecision ∧
    Gen.V1.gPrecision = Gen.V3.gPrecision ∧ Gen.V2.gPrecision = Gen.V3.gPrecision ∧
    Gen.V1.kMaxChunks = Gen.V3.kMaxChunks ∧ Gen.V2.kMaxChunks = Gen.V3.kMaxChunks ∧
    Gen.V1.bigExponent = Gen.V3.bigExponent ∧ Gen.V2.bigExponent = Gen.V3.bigExponent ∧
    Gen.V1.newFormatSpec = Gen.V2.newFormatSpec ∧
    Gen.V1.gapLoopChecksErr = Gen.V3.gapLoopChecksErr ∧ Gen.V2.gapLoopChecksErr = Gen.V3.gapLoopChecksErr := by
  repeat' apply And.intro
  all_goals rfl

/-- the label width: the three generated functions compute the same width for all arguments
(each equals the documented `Spec.labelWidth`; a rewrite of one copy's arithmetic keeps this) -/
theorem label_width_agrees (v : Version) (s : PSettings) (m : Int) :
    digitCountWidthOf v s m = digitCountWidthOf .v3 s m := by
  rw [Prt.width_eq, Prt.width_eq]

/-- hence identical digits and exponents of roots, for every radicand and depth -/
theorem root_digits_agree (v : Version) (num den k : Nat) :
    rootPrefix (sqrtMgr v) num den k = rootPrefix (sqrtMgr .v3) num den k ∧
    rootPrefix (cubeMgr v) num den k = rootPrefix (cubeMgr .v3) num den k := by
  have h := generated_definitions_agree
  cases v
  · rw [h.1, h.2.2.1]; exact ⟨rfl, rfl⟩
  · rw [h.2.1, h.2.2.2.1]; exact ⟨rfl, rfl⟩
  · exact ⟨rfl, rfl⟩

/-- every Format directive and String(): all versions produce the specified text, hence the same -/
theorem format_agrees (v : Version) (e : Int) (ds : List Nat) (hd : ∀ d ∈ ds, d ≤ 9)
    (verb : Nat) (prec : Option Nat) (width : Option Nat) (minus : Bool) :
    numFormat v e ds verb prec width minus = numFormat .v3 e ds verb prec width minus ∧
    numString v e ds = numString .v3 e ds := by
  rw [format_spec v e ds hd, format_spec .v3 e ds hd, (string_is_g v e ds hd).1, (string_is_g .v3 e ds hd).1]
  exact ⟨rfl, rfl⟩

/-- every search result: v1/v2 KMP (with Reset) reports what v3 reports -/
theorem search_agrees (p : List Int) (T : List Int) (s : Int) :
    matchesAllV1 p.toArray (feedOf s T) = matchesAll p.toArray (feedOf s T) ∧
    backwardMatchesAllV1 p.toArray (feedOf s T).reverse
      = backwardMatchesAll p.toArray (feedOf s T).reverse :=
  matchesAllV1_eq p T s

/-- Sprint under the options common to all versions: v1/v2 lay out as v3 does with the leading
decimal shown and no trailing line feed -/
theorem print_agrees (v : Version) (s : PSettings) (maxDigits : Int) :
    toPOpts v s maxDigits =
      Spec.resolve s.digitsPerRow s.digitsPerColumn s.showCount s.missingDigit s.trailingLineFeed
        (match v with | .v3 => s.leadingDecimal | _ => true) maxDigits :=
  rowStarter_resolve v s maxDigits

end Sqroot.Props.C18

/-
C13 — Non-root constructors reproduce exactly the digits they were given.
-/
import Sqroot.Proofs.Root
import Sqroot.Proofs.Ctor
namespace Sqroot.Props.C13
open Sqroot.Model Sqroot.Proofs

/-- NewNumberFromBigRat(num/den): exponent e with 10^(e−1) ≤ v < 10^e and the first k digits spell
⌊v·10^(k−e)⌋ (TruncRat is the cross-multiplied statement), digits 0–9, first 1–9 -/
theorem rat_expansion (num den : Nat) (hnum : 0 < num) (hden : 0 < den) (k : Nat) :
    Spec.TruncRat num den (Spec.ofDigits (ratPrefix num den k).1)
        (ratPrefix num den k).2 (ratPrefix num den k).1.length
      ∧ Spec.DigitsOk (ratPrefix num den k).1 :=
  rat_exact num den hnum hden k

/-- the expansion ends precisely when it terminates … -/
theorem rat_ends_exactly_when_terminating (num den : Nat) (hnum : 0 < num) (hden : 0 < den) (L : Nat) :
    RatEndsAt num den L ↔
      ((ratPrefix num den L).1.length = L ∧
        Spec.ExactRoot 1 num den (Spec.ofDigits (ratPrefix num den L).1) (ratPrefix num den L).2 L) :=
  rat_ends_iff num den hnum hden L

/-- … with no trailing zero -/
theorem rat_no_trailing_zero (num den : Nat) (hnum : 0 < num) (hden : 0 < den) (L : Nat)
    (h : RatEndsAt num den L) :
    0 < L ∧ ∀ d, (ratPrefix num den L).1.getLast? = some d → d ≠ 0 :=
  rat_end_last_nonzero num den hnum hden L h

/-- NewNumberForTesting / NewFiniteNumber: zero when both lists are empty; an error exactly when
some digit is outside 0–9 or the first digit would be 0; otherwise the digits are the fixed ones
followed by the repeating block for ever (ending after the fixed ones when there is no block),
with the given exponent; finite type iff there is no repeating block -/
theorem test_number (fixed rep : List Int) (exp : Int) :
    OutcomeMatches fixed rep exp (newNumberForTesting fixed rep exp) (Spec.testOutcome fixed rep) :=
  test_number_outcome fixed rep exp

/-- NewNumber(g): exactly the longest prefix of g's stream whose values are all within 0–9, with
g's exponent; the zero number if that prefix is empty or starts with 0 -/
theorem generator_number (stream : Nat → Int) (exp : Int) :
    match newNumber stream exp with
    | .zero => stream 0 = 0 ∨ Spec.isDigit (stream 0) = false
    | .number fin s e => fin = false ∧ e = exp ∧ (1 ≤ stream 0 ∧ stream 0 ≤ 9) ∧
        ∀ p, streamDigit s p = Spec.validPrefixDigit stream p
    | .error _ => False :=
  new_number_outcome stream exp

example : (ratPrefix 1 8 10) = ([1, 2, 5], 0) := by decide +kernel

end Sqroot.Props.C13

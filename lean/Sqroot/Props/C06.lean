/-
C06 — Digits are computed lazily, in order, once per Number, with bounded read-ahead.
-/
import Sqroot.Proofs.Monitor
import Sqroot.Proofs.MonitorMemo
import Sqroot.Proofs.MemoDemand
import Sqroot.Model.Expect
import Sqroot.Model.Managers
import Sqroot.Proofs.FprintDemand
namespace Sqroot.Props.C06
open Sqroot.Model Sqroot.Proofs

/-- only the producer's compute step consults the source — never a reader, never two threads —
one position per step, in position order (the k-th consultation is position k) -/
theorem consulted_in_order_by_one_thread (c : MonCfg) (s s' : MonSt) (l : Label) (h : step c s l = some s') :
    (l ≠ .pCompute → s'.consulted = s.consulted) ∧
    (l = .pCompute → s'.consulted = s.consulted + 1) :=
  consult_single c s s' l h

/-- never again after the source has signalled the end -/
theorem never_after_end (c : MonCfg) (hc : 0 < c.chunk) (programs : List (List Nat))
    (s : MonSt) (h : Reachable c programs s) (e : Nat) (he : IsEndPos c e) : s.consulted ≤ e + 1 :=
  consult_stops c hc programs s h e he

/-- bounded read-ahead: consulted ≤ demand ≤ highest index asked for + one block -/
theorem bounded_read_ahead (c : MonCfg) (hc : 0 < c.chunk) (programs : List (List Nat))
    (s : MonSt) (h : Reachable c programs s) :
    s.consulted ≤ s.maxLength ∧
    (s.maxLength = 0 ∨ ∃ i ∈ entered s, s.maxLength ≤ i + c.chunk) :=
  consult_bound c hc programs s h

/-- the block size regenerated from the source stays within the property's allowance of 1000,
in every version -/
theorem block_size_within_allowance : chunkSize .v1 ≤ 1000 ∧ chunkSize .v2 ≤ 1000 ∧ chunkSize .v3 ≤ 1000 ∧
    0 < chunkSize .v1 ∧ 0 < chunkSize .v2 ∧ 0 < chunkSize .v3 := by
  decide

/-- constructing a Number and deriving views consults nothing: before any `wait` nothing happens -/
theorem lazy_until_first_request (c : MonCfg) (hc : 0 < c.chunk) (programs : List (List Nat))
    (s : MonSt) (h : Reachable c programs s) (hnone : entered s = []) : s.consulted = 0 :=
  consult_lazy c hc programs s h hnone

/-- bridge from the concurrent object to the sequential model used by C04/C15 and by the model
walker of the correspondence check: ONE client issuing calls one after the other, under every
interleaving with the producer — once nothing can move, every call has returned `ok` exactly for
positions that exist, and the source has been consulted exactly `Memo.consulted` times:
`min(demand, |D|+1)` -/
theorem sequential_client_matches_memo_model (c : MonCfg) (hc : 0 < c.chunk) (src : Src) (hsrc : SrcOf c src)
    (idxs : List Nat) (hcap : InCapacity c [idxs])
    (ls : List Label) (s : MonSt) (hrun : runLabels c (monInit [idxs]) ls = some s)
    (hstuck : enabledLabels c s = []) :
    (∃ r, s.readers = [r] ∧ r.pc = .idle ∧ r.todo = [] ∧
      r.results.reverse.map (fun x => (x.1, x.2.2)) = idxs.map (fun i => (i, src.has i))) ∧
    s.consulted = (memoRun ⟨c.chunk, c.maxChunks⟩ src idxs).consulted ∧
    s.len = src.minLen (memoRun ⟨c.chunk, c.maxChunks⟩ src idxs).maxLength :=
  single_client_final c hc src hsrc idxs hcap ls s hrun hstuck

/-- the property's formula on the sequential model, for every read path and through every view:
`consulted ≤ demand`, and each operation raises the demand to at most (highest position it
DELIVERED + 1 + one block), or — when it delivers nothing — to (the position it asked about after
clamping to the view's end + 1 + one block). `DemandLe c m r` reads "demand ≤ r + 1 + chunk". -/
theorem consulted_at_most_demand (m : Memo) : m.consulted ≤ m.maxLength := consulted_le_demand m

theorem at_read_ahead (c : MemoCfg) (hc : 0 < c.chunk) (m : Memo) (sp : VSpec) (p : Int) (r : Int) (h : DemandLe c m r) :
    DemandLe c (specAt c m sp p).1 (max r (match sp with | .limited l => min p l | _ => p)) :=
  at_demand c hc m sp p r h

theorem traversal_read_ahead (c : MemoCfg) (hc : 0 < c.chunk) (m : Memo) (sp : VSpec) (index : Int) (take : Nat)
    (hidx : 0 ≤ index) (r : Int) (h : DemandLe c m r) (m' : Memo) (xs : List (Nat × Nat))
    (hs : specScan c m sp index take = .ok (m', xs)) :
    DemandLe c m'
      (max r (match xs.getLast? with
        | some (q, _) => (q : Int) + 1
        | none => (match sp with | .limited l => min index l | _ => index))) ∧
    (take = 0 → m' = m) :=
  scan_demand c hc m sp index take hidx r h m' xs hs

theorem live_iterator_read_ahead (c : MemoCfg) (hc : 0 < c.chunk) (m : Memo) (it : PullIt) (r : Int) (h : DemandLe c m r) :
    DemandLe c (m.pull3 c it).1 (max r ((it.index : Int) + 1)) :=
  pull3_demand c hc m it r h

/-- tie 1: the digit source is consulted only by code that runs in the single producer goroutine
(`run` and helpers only `run` calls), which only `newMemoizeSpec` starts, once per Number -/
theorem source_consulted_only_by_the_producer :
    Gen.V1.iterCalledOutsideProducer = [] ∧ Gen.V2.iterCalledOutsideProducer = [] ∧
    Gen.V3.iterCalledOutsideProducer = [] ∧
    Gen.V1.goStatements = ["newMemoizeSpec: result.run()"] ∧ Gen.V2.goStatements = ["newMemoizeSpec: result.run()"] ∧
    Gen.V3.goStatements = ["newMemoizeSpec: result.run()"] := by
  repeat' apply And.intro
  all_goals rfl

/-- bounded read-ahead of printing (v3 `Fprint` / `Sprint`, every range traversed to its end): with
`r` bounding what earlier reads had demanded, afterwards the demand is bounded by
`max r (Positions.End())` — at most that + 1 + one block -/
theorem fprint_read_ahead (c : MemoCfg) (hc : 0 < c.chunk) (m : Memo) (v : Val3) (ranges : List PRange)
    (hnorm : Spec.NormalRanges (toPairs ranges))
    (r : Int) (h : DemandLe c m r) (m' : Memo) (feeds : List (List (Nat × Nat)))
    (hf : fprintFeeds3 c m v ranges = some (m', feeds)) :
    DemandLe c m' (max r (positionsEnd ranges)) :=
  Sqroot.Proofs.fprint_read_ahead c hc m v ranges hnorm r h m' feeds hf

/-- … and of the early-exit run under ANY writer (a failing writer never makes `Fprint` read
further than a reliable one) -/
theorem fprint_fault_read_ahead (c : MemoCfg) (hc : 0 < c.chunk) (m : Memo) (pr : Printer) (v : Val3)
    (ranges : List PRange) (hnorm : Spec.NormalRanges (toPairs ranges))
    (r : Int) (h : DemandLe c m r) (m' : Memo) (pr' : Printer)
    (hf : rangesFault3 c m pr v ranges = some (.ok (m', pr'))) :
    DemandLe c m' (max r (positionsEnd ranges)) :=
  Sqroot.Proofs.fprint_fault_read_ahead c hc m pr v ranges hnorm r h m' pr' hf

end Sqroot.Props.C06

/-
C01 — Square-root digits and exponent are the exact truncated root.
Statements only; proofs are one-liners from `Sqroot/Proofs/Root.lean`.
The manager arithmetic (`sqrtMgr v`) is the text regenerated from /repo's compute.go of version v.
-/
import Sqroot.Proofs.Root
import Sqroot.Model.Api
namespace Sqroot.Props.C01
open Sqroot.Model Sqroot.Proofs

/-- the generated `sqrtManager.{Next,NextDigit,Base}` and the initial `incr`/`remainder` of
`computeRootDigits` satisfy the algebraic contract of a degree-2 manager (all three versions) -/
theorem sqrt_manager_correct (v : Version) : ManagerCorrect 2 (sqrtMgr v) := sqrt_mgr_correct v

/-- for every radicand `num/den > 0` and every `k`: the first `len ≤ k` digits `ds` and the
exponent `e` satisfy `M² · 10^(2(e−len)) ≤ num/den < (M+1)² · 10^(2(e−len))` with `M` the integer
spelled by `ds`; every digit is 0–9 and the first is 1–9 -/
theorem sqrt_exact (v : Version) (num den : Nat) (hnum : 0 < num) (hden : 0 < den) (k : Nat) :
    Spec.TruncRoot 2 num den (Spec.ofDigits (rootPrefix (sqrtMgr v) num den k).1)
        (rootPrefix (sqrtMgr v) num den k).2 (rootPrefix (sqrtMgr v) num den k).1.length
      ∧ Spec.DigitsOk (rootPrefix (sqrtMgr v) num den k).1 :=
  root_exact (sqrt_mgr_correct v) num den hnum hden k

/-- asking for fewer digits yields a prefix of what asking for more yields, same exponent:
"every k not exceeding the number of digits" is covered by `sqrt_exact` at each `k` -/
theorem sqrt_prefix (v : Version) (num den j k : Nat) (hjk : j ≤ k) :
    (rootPrefix (sqrtMgr v) num den j).1 = (rootPrefix (sqrtMgr v) num den k).1.take j
      ∧ (rootPrefix (sqrtMgr v) num den j).2 = (rootPrefix (sqrtMgr v) num den k).2 :=
  root_prefix_take _ num den j k hjk

/-- the result depends only on the value of the fraction, not on its representation -/
theorem sqrt_repr_indep (v : Version) (num den c : Nat) (hnum : 0 < num) (hden : 0 < den)
    (hc : 0 < c) (k : Nat) :
    rootPrefix (sqrtMgr v) (c * num) (c * den) k = rootPrefix (sqrtMgr v) num den k :=
  root_repr_indep (sqrt_mgr_correct v) num den c hnum hden hc k

/-- r = 0 yields the zero number (IsZero, exponent 0, no digits) for every positive denominator;
every other admissible radicand yields the lazily computed root of `num/den` with `0 < num`,
`0 < den` — the hypotheses of the exactness theorem -/
theorem zero_radicand_gives_zero_number (den : Int) (hden : 0 < den) : nRootFrac 0 den = .ok .zero :=
  nRootFrac_zero den hden

theorem positive_radicand_gives_root (num den : Int) (hnum : 0 < num) (hden : 0 < den) :
    nRootFrac num den = .ok (.root num.toNat den.toNat) ∧ 0 < num.toNat ∧ 0 < den.toNat :=
  nRootFrac_pos num den hnum hden

/-- non-vacuity: a concrete instance (√(3/70000) to 12 digits) meets the hypotheses and the
conclusion evaluates to true -/
example : (rootPrefix (sqrtMgr .v3) 3 70000 12) = ([6, 5, 4, 6, 5, 3, 6, 7, 0, 7, 0, 7], -2) := by
  decide +kernel

end Sqroot.Props.C01

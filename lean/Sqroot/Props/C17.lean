/-
C17 — Finite interface types are held only by sequences bounded by construction (v3).
The dynamic type of every value is tracked by `Val3`; `assertsFiniteSeq` etc. are the Go type
assertions. The method-set facts behind them (which concrete type implements which interface)
are regenerated from the source: `Gen.V3.implementsTable` is compared with the table the model
was written from.
-/
import Sqroot.Proofs.View
import Sqroot.Gen.V3
namespace Sqroot.Props.C17
open Sqroot.Model Sqroot.Proofs

/-- tie 1: the concrete types of v3 and the interfaces they satisfy, as extracted from the source
today, are the ones `Val3.asserts*` encode (fnum = *FiniteNumber, mws = *mantissaWithStart, …) -/
theorem method_sets_as_modelled :
    Gen.V3.implementsTable =
      [("FiniteNumber", "Sequence", true), ("FiniteNumber", "FiniteSequence", true), ("FiniteNumber", "Number", true),
       ("mantissaWithStart", "Sequence", true), ("mantissaWithStart", "FiniteSequence", true), ("mantissaWithStart", "Number", false),
       ("opqNumber", "Sequence", true), ("opqNumber", "FiniteSequence", false), ("opqNumber", "Number", true),
       ("opqSequence", "Sequence", true), ("opqSequence", "FiniteSequence", false), ("opqSequence", "Number", false)] := by
  decide

/-- a value asserts to FiniteSequence iff it is bounded by construction; *FiniteNumber implies
FiniteSequence -/
theorem finite_iff_bounded_by_construction (b v : Val3) (chain : List ViewOp)
    (hb : ∃ sp e, b = .fnum sp e ∨ b = .opqN sp e) (hv : applyChain3 b chain = some v) :
    v.assertsFiniteSeq = Spec.boundedByConstruction b.assertsFiniteSeq (chain.map toSpecOp) ∧
    (v.assertsFiniteNum = true → v.assertsFiniteSeq = true) :=
  finite_iff_bounded b v chain hb hv

/-- no chain of WithStart calls on an unbounded Number ever satisfies the finite interfaces -/
theorem withStart_never_finite (sp : VSpec) (e : Int) (starts : List Int) (v : Val3)
    (hv : applyChain3 (.opqN sp e) (starts.map .withStart) = some v) :
    v.assertsFiniteSeq = false ∧ v.assertsFiniteNum = false :=
  withStart_chain_not_finite sp e starts v hv

example : applyChain3 (.opqN .memo 1) ([-3, 0, 5, 2, maxInt].map .withStart) = some (.opqS .memo maxInt) := by decide

/-- tie 1: the exported functions that must traverse their argument to the end — `Backward` users,
`Fwrite`, `AsString` — accept a `FiniteSequence` only, in the source of v3 today (widening one of
them to `Sequence` would let an unbounded sequence in; no value's dynamic type would change) -/
theorem traversing_functions_take_finite_sequences_only :
    Gen.V3.finiteOnlyFunctions =
      ["AsString", "BackwardMatches", "DigitsToString", "FindAll", "FindLast", "FindLastN", "FindR",
       "Fwrite", "Swrite", "Write"] := by
  decide

/-- tie 1: what each exported v3 constructor with result type `Number` can return, followed through
the package's helpers down to the literals, in the source today: only `NewNumberForTesting` (whose
bounded results are bounded by construction: no repeating digits) can return a bare `*FiniteNumber`
with digits; every root and every generator-backed Number is wrapped (`opaque`) or is the zero
value. These are the base values `finite_iff_bounded_by_construction` starts from (`.opqN` for the
wrapped ones, `.fnum` for the finite ones); a fast path that returns an unwrapped Number for some
radicands changes this table. -/
theorem constructors_wrap_unbounded_numbers :
    Gen.V3.numberConstructorKinds =
      [("CubeRoot", ["opaque", "zero"]), ("CubeRootBigInt", ["opaque", "zero"]), ("CubeRootBigRat", ["opaque", "zero"]),
       ("CubeRootRat", ["opaque", "zero"]), ("NewNumber", ["opaque", "zero"]), ("NewNumberForTesting", ["finite", "nil", "opaque", "zero"]),
       ("NewNumberFromBigRat", ["opaque", "zero"]), ("Sqrt", ["opaque", "zero"]), ("SqrtBigInt", ["opaque", "zero"]),
       ("SqrtBigRat", ["opaque", "zero"]), ("SqrtRat", ["opaque", "zero"])] := by
  decide

end Sqroot.Props.C17

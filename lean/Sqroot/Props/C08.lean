/-
C08 — Formatting renders the truncated value in the requested shape.
`genNewFormatSpec v` is the regenerated `newFormatSpec` of version v (tie 1).
-/
import Sqroot.Proofs.Format
import Sqroot.Proofs.Overflow
import Sqroot.Proofs.EndToEndFormat
import Sqroot.Proofs.Format12
namespace Sqroot.Props.C08
open Sqroot.Model Sqroot.Proofs

/-- the regenerated `newFormatSpec` of every version is the documented rule (f/F: precision
fractional digits; e/E: precision significant digits in 0.ddde±XX form; g/G/v: precision
significant digits, scientific iff precision < exponent, exponent < −3 or exponent > 6) -/
theorem format_rule (v : Version) (verb : Nat) (prec : Option Nat) (e : Int) :
    (match Spec.formatRule verb prec e with
     | some (s, ex, sci, cap) =>
        (genNewFormatSpec v (prec.getD 0) prec.isSome verb e).2 = true ∧
        (genNewFormatSpec v (prec.getD 0) prec.isSome verb e).1.sigDigits = s ∧
        (genNewFormatSpec v (prec.getD 0) prec.isSome verb e).1.exactDigitCount = ex ∧
        (genNewFormatSpec v (prec.getD 0) prec.isSome verb e).1.sci = sci ∧
        (sci = true → (genNewFormatSpec v (prec.getD 0) prec.isSome verb e).1.capital = cap)
     | none => (genNewFormatSpec v (prec.getD 0) prec.isSome verb e).2 = false) :=
  newFormatSpec_rule v verb prec e

/-- `Format` produces exactly the specified text for every version, verb (supported or not),
precision, width, flag, exponent and digit string; in particular it never panics -/
theorem format_text (v : Version) (e : Int) (ds : List Nat) (hd : ∀ d ∈ ds, d ≤ 9)
    (verb : Nat) (prec : Option Nat) (width : Option Nat) (minus : Bool) :
    numFormat v e ds verb prec width minus = .ok (Spec.render verb prec width minus e ds) :=
  format_spec v e ds hd verb prec width minus

/-- the streaming formatter is the declarative rendering; its guard fails exactly when
sigDigits < exponent (which `format_text` shows unreachable through `Format`) -/
theorem formatter_is_render (s e : Int) (exact : Bool) (ds : List Nat) (hd : ∀ d ∈ ds, d ≤ 9) :
    printFixed s e exact ds =
      (if s < e then .error (.explicit "sigDigits must be >= exponent")
       else .ok (Spec.renderFixed s e exact ds)) :=
  printFixed_spec s e exact ds hd

/-- String() equals %g in every version -/
theorem string_equals_g (v : Version) (e : Int) (ds : List Nat) (hd : ∀ d ∈ ds, d ≤ 9) :
    numString v e ds = .ok (Spec.renderString e ds) ∧
    numString v e ds = numFormat v e ds 'g'.toNat none none false :=
  string_is_g v e ds hd

/-- v3 Exact() prints all digits of a finite number -/
theorem exact_all_digits (e : Int) (ds : List Nat) (hd : ∀ d ∈ ds, d ≤ 9) (hlen : (ds.length : Int) < maxInt) :
    numExact e ds = .ok (Spec.renderExact e ds) :=
  exact_spec e ds hd hlen

/-- truncated toward zero, never rounded: parsing the positional text back gives exactly the
first min(s, |D|) digits scaled by the exponent -/
theorem parses_back_to_truncation (s e : Int) (exact : Bool) (D : List Nat) (hd : ∀ d ∈ D, d ≤ 9) (hs : e ≤ s) :
    ∃ N frac, Spec.parsePositional (Spec.renderFixed s e exact D) = some (N, frac) ∧
      let ds := D.take s.toNat
      N * 10 ^ ((ds.length : Int) - e).toNat = Spec.ofDigitList ds * 10 ^ (e - (ds.length : Int)).toNat * 10 ^ frac :=
  renderFixed_value s e exact D hd hs

/-- exact-digit verbs show exactly `s − e` fractional digits (the precision, for f/F) -/
theorem exact_fraction_digits (s e : Int) (D : List Nat) (hd : ∀ d ∈ D, d ≤ 9) (hs : e ≤ s) :
    ∃ N frac, Spec.parsePositional (Spec.renderFixed s e true D) = some (N, frac) ∧ (frac : Int) = s - e :=
  renderFixed_exact_frac s e D hd hs

/-- padding to the width never truncates -/
theorem width_never_truncates (field : String) (w : Nat) (minus : Bool) :
    (Spec.pad field (some w) minus).length = max w field.length :=
  pad_length field w minus

example : Spec.render 'f'.toNat (some 3) (some 9) true 1 [1, 4, 1, 4, 2, 1] = "1.414    " := by decide

/-- end to end (v3 `Format`/`Sprintf` on a Number): composition of the read path through any chain
of `WithSignificant` views (the only view operation that yields Numbers) over the memoizer with the
formatter — the text is the rendering of the window's digits, the memoised source is unchanged.
`numberDigits … 20000` is the digit string cut at 20 000 digits; the hypothesis on the precision
keeps the directive below that cut (the rendering only looks at the digits the rule asks for). -/
theorem format_end_to_end (c : MemoCfg) (m : Memo) (b v : Val3) (limits : List Int) (e : Int)
    (hb : b = .opqN .memo e ∨ b = .fnum .memo e)
    (hv : applyChain3 b (limits.map .withSig) = some v) (hnz : v.isZero = false)
    (hd : ∀ p, m.src.digit p ≤ 9)
    (hfit : Fits c m.src (Spec.winOf ((limits.map ViewOp.withSig).map toSpecOp)) 20000)
    (verb : Nat) (prec width : Option Nat) (minus : Bool) (hprec : prec.getD 16 + e.natAbs < 10000) :
    ∃ m' txt, format3 c m v verb prec width minus = some (.ok (m', txt)) ∧ m'.src = m.src ∧
      txt = Spec.render verb prec width minus e
              (numberDigits m.src (Spec.winOf ((limits.map ViewOp.withSig).map toSpecOp)) 20000) :=
  Sqroot.Proofs.format_end_to_end c m b v limits e hb hv hnz hd hfit verb prec width minus hprec

/-- `newFormatSpec` is regenerated into unbounded `Int`; its only arithmetic is `precision +
exponent` (verbs f, F): whenever the requested digit count itself fits int64 no intermediate
result of the Go code overflows, in all three versions, so the unbounded reading is the Go reading.
(With an exponent within `precision` of MaxInt the Go sum wraps; the fixed-point output would then
have more than 9·10^18 digits.) -/
theorem format_spec_arithmetic_fits_int64 (precision exponent verb : Int) (precisionOk : Bool)
    (hp : 0 ≤ precision ∧ Sqroot.Proofs.I64 precision) (he : Sqroot.Proofs.I64 exponent)
    (hs : Sqroot.Proofs.I64 (precision + exponent) ∧ Sqroot.Proofs.I64 (6 + exponent)) :
    Gen.V1.newFormatSpecOvf precision precisionOk verb exponent = false ∧
    Gen.V2.newFormatSpecOvf precision precisionOk verb exponent = false ∧
    Gen.V3.newFormatSpecOvf precision precisionOk verb exponent = false :=
  ⟨Sqroot.Proofs.newFormatSpec_fits_v1 precision exponent verb precisionOk hp he hs,
   Sqroot.Proofs.newFormatSpec_fits_v2 precision exponent verb precisionOk hp he hs,
   Sqroot.Proofs.newFormatSpec_fits_v3 precision exponent verb precisionOk hp he hs⟩

/-- end to end for v1 / v2: `Format` on a Number obtained by any chain of `WithSignificant` calls
(the pull iterator over the memoizer feeding the formatter) renders the truncated value of the
chain's window, for every verb, precision, width and flag -/
theorem format12_end_to_end (ver : Version) (c : MemoCfg) (m : Memo) (v : Val12) (limits : List Int) (e : Int)
    (hv : applyChain12 (.num .memo e) (limits.map .withSig) = some v)
    (hnz : v.spec ≠ .nil)
    (hd : ∀ p, m.src.digit p ≤ 9)
    (hfit : Fits c m.src (Spec.winOf ((limits.map ViewOp.withSig).map toSpecOp)) 20000)
    (verb : Nat) (prec width : Option Nat) (minus : Bool) (hprec : prec.getD 16 + e.natAbs < 10000) :
    ∃ m' txt, format12 ver c m v verb prec width minus = some (.ok (m', txt)) ∧ m'.src = m.src ∧
      txt = Spec.render verb prec width minus e
              (numberDigits m.src (Spec.winOf ((limits.map ViewOp.withSig).map toSpecOp)) 20000) :=
  Sqroot.Proofs.format12_end_to_end ver c m v limits e hv hnz hd hfit verb prec width minus hprec

end Sqroot.Props.C08

/-
C09 — Pattern search reports exactly the occurrences, in order.
-/
import Sqroot.Proofs.Search
import Sqroot.Proofs.EndToEnd
import Sqroot.Proofs.FindEndToEnd
import Sqroot.Proofs.FindEndToEnd12
namespace Sqroot.Props.C09
open Sqroot.Model Sqroot.Proofs

/-- the failure table is the longest-proper-border table; building it never indexes out of range
and terminates -/
theorem failure_table (p : List Int) (hp : p ≠ []) :
    ∃ t : Array Int, ttable p.toArray = .ok t ∧ t.size = p.length + 1 ∧ t[0]? = some (-1) ∧
      ∀ i, 1 ≤ i → i ≤ p.length →
        ∃ b : List Int, t[i]? = some (b.length : Int) ∧ IsBorder b (p.take i) ∧
          ∀ b', IsBorder b' (p.take i) → b'.length ≤ b.length :=
  ttable_spec p hp

/-- forward search on any window `[s, s+|T|)` of any digit string: exactly the occurrences,
ascending, overlaps included (every pattern: every border/period structure, any length) -/
theorem forward_exact (p : List Int) (hp : p ≠ []) (T : List Int) (s : Int) :
    matchesAll p.toArray (feedOf s T) = .ok ((Spec.occurrences p T).map (shiftPos s)) :=
  matchesAll_spec p hp T s

/-- backward search: the same set, descending -/
theorem backward_exact (p : List Int) (hp : p ≠ []) (T : List Int) (s : Int) :
    backwardMatchesAll p.toArray (feedOf s T).reverse
      = .ok (((Spec.occurrences p T).map (shiftPos s)).reverse) :=
  backwardMatchesAll_spec p hp T s

/-- the empty pattern matches at every digit position of the sequence -/
theorem empty_pattern (T : List Int) (s : Int) :
    matchesAll #[] (feedOf s T) = .ok ((List.range T.length).map (shiftPos s)) ∧
    backwardMatchesAll #[] (feedOf s T).reverse
      = .ok (((List.range T.length).map (shiftPos s)).reverse) :=
  matchesAll_empty T s

/-- a pattern containing a value outside 0–9 matches nowhere -/
theorem bad_pattern (p T : List Int) (hb : ∃ v ∈ p, v < 0 ∨ 9 < v)
    (hT : ∀ d ∈ T, 0 ≤ d ∧ d ≤ 9) : Spec.occurrences p T = [] :=
  bad_pattern_no_match p T hb hT

/-- v1/v2 (kernel `Reset` on position discontinuity) report the same positions as v3 -/
theorem v1_same_as_v3 (p : List Int) (T : List Int) (s : Int) :
    matchesAllV1 p.toArray (feedOf s T) = matchesAll p.toArray (feedOf s T) ∧
    backwardMatchesAllV1 p.toArray (feedOf s T).reverse
      = backwardMatchesAll p.toArray (feedOf s T).reverse :=
  matchesAllV1_eq p T s

/-- FindFirst / FindFirstN / Find / a Matches loop left early: the first `n` occurrences
(none for n = 0), the extreme one being the head -/
theorem first_n (p : List Int) (hp : p ≠ []) (T : List Int) (s : Int) (n : Nat) :
    ∃ k, newKernel p.toArray = .ok k ∧
      ∃ c, kmpTake k false n (feedOf s T)
          = .ok (((Spec.occurrences p T).take n).map (shiftPos s), c) ∧
        (n = 0 → c = 0) ∧
        (0 < n → n ≤ (Spec.occurrences p T).length →
          ∀ last, ((Spec.occurrences p T).take n).getLast? = some last → c = last + p.length) ∧
        ((Spec.occurrences p T).length < n → c = T.length) :=
  kmpTake_spec p hp T s n

/-- non-vacuity: overlapping occurrences of a pattern with a non-trivial border -/
example : Spec.occurrences [1, 2, 1] [1, 2, 1, 2, 1, 3, 1, 2, 1] = [0, 2, 6] := by decide

/-- end to end (v3 `FindFirstN` on any view of a Number): composition of the view read path over the
memoizer with the KMP search — the result is the first n occurrences inside the view's window
(restricted to its first `bound` digits, `bound` arbitrary), reported as absolute positions. -/
theorem findFirstN_end_to_end (c : MemoCfg) (m : Memo) (b v : Val3) (chain : List ViewOp)
    (pat : List Int) (hp : pat ≠ []) (n bound : Nat) (hn : 0 < n)
    (hb : IsBase3 b) (hv : applyChain3 b chain = some v)
    (hfit : Fits c m.src (Spec.winOf (chain.map toSpecOp)) bound) :
    let w := Spec.winOf (chain.map toSpecOp)
    let T : List Int := (Spec.windowList m.src.len m.src.digit w bound).map fun x => (x.2 : Int)
    ∃ m' cnt, findFirstN3 c m v pat n bound
        = .ok (m', ((Spec.occurrences pat T).take n).map (shiftPos (max w.lo 0)), cnt) := by
  intro w T
  obtain ⟨m', cnt, h, _⟩ :=
    Sqroot.Proofs.findFirstN_end_to_end c m b v chain pat hp n bound hn hb hv hfit (m.maxLength : Int)
      (by unfold DemandLe; omega)
  exact ⟨m', cnt, h⟩

/-- end to end (v3 `FindAll` on any FINITE view of `size` digits of any Number): the view's full
traversal over the memoizer feeding the automaton reports exactly the occurrences inside the
view's window, ascending, as absolute positions (every position for the empty pattern) -/
theorem findAll_end_to_end (c : MemoCfg) (m : Memo) (b v : Val3) (chain : List ViewOp)
    (pat : List Int) (size : Nat)
    (hb : IsBase3 b) (hv : applyChain3 b chain = some v) (hfin : v.assertsFiniteSeq = true)
    (hsize : Spec.windowSize m.src.len (Spec.winOf (chain.map toSpecOp)) = some size)
    (hfit : Fits c m.src (Spec.winOf (chain.map toSpecOp)) (size + 1)) :
    let w := Spec.winOf (chain.map toSpecOp)
    let T : List Int := (Spec.windowList m.src.len m.src.digit w size).map fun x => (x.2 : Int)
    ∃ m', findAll3 c m v pat size
        = some (.ok (m', if pat = [] then (List.range T.length).map (shiftPos (max w.lo 0))
                         else (Spec.occurrences pat T).map (shiftPos (max w.lo 0)))) :=
  Sqroot.Proofs.findAll_end_to_end c m b v chain pat size hb hv hfin hsize hfit

/-- end to end (v3 `FindLastN`, `FindLast` for n = 1, on any finite view): the last n occurrences,
descending; none for n = 0 -/
theorem findLastN_end_to_end (c : MemoCfg) (m : Memo) (b v : Val3) (chain : List ViewOp)
    (pat : List Int) (n size : Nat)
    (hb : IsBase3 b) (hv : applyChain3 b chain = some v) (hfin : v.assertsFiniteSeq = true)
    (hsize : Spec.windowSize m.src.len (Spec.winOf (chain.map toSpecOp)) = some size)
    (hfit : Fits c m.src (Spec.winOf (chain.map toSpecOp)) (size + 1)) :
    let w := Spec.winOf (chain.map toSpecOp)
    let T : List Int := (Spec.windowList m.src.len m.src.digit w size).map fun x => (x.2 : Int)
    ∃ m', findLastN3 c m v pat n size
        = some (.ok (m', ((if pat = [] then (List.range T.length).map (shiftPos (max w.lo 0))
                           else (Spec.occurrences pat T).map (shiftPos (max w.lo 0))).reverse).take n)) :=
  Sqroot.Proofs.findLastN_end_to_end c m b v chain pat n size hb hv hfin hsize hfit

/-- end to end for v1 / v2 (`FindAll` over the pull iterator of any finite view chain, KMP with
Reset): exactly the occurrences inside the view's window, ascending, as absolute positions -/
theorem findAll12_end_to_end (c : MemoCfg) (m : Memo) (v : Val12) (chain : List ViewOp) (e : Int)
    (pat : List Int) (size : Nat)
    (hv : applyChain12 (.num .memo e) chain = some v)
    (hsize : Spec.windowSize m.src.len (Spec.winOf (chain.map toSpecOp)) = some size)
    (hfit : Fits c m.src (Spec.winOf (chain.map toSpecOp)) (size + 2)) :
    let w := Spec.winOf (chain.map toSpecOp)
    let T : List Int := (Spec.windowList m.src.len m.src.digit w size).map fun x => (x.2 : Int)
    ∃ m', findAll12 c m v pat size
        = .ok (m', if pat = [] then (List.range T.length).map (shiftPos (max w.lo 0))
                   else (Spec.occurrences pat T).map (shiftPos (max w.lo 0))) :=
  Sqroot.Proofs.findAll12_end_to_end c m v chain e pat size hv hsize hfit

end Sqroot.Props.C09

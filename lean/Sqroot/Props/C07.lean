/-
C07 — Views compose as interval intersection over the parent's digits.
-/
import Sqroot.Proofs.View
namespace Sqroot.Props.C07
open Sqroot.Model Sqroot.Proofs

/-- any chain of WithStart / WithEnd / FiniteWithStart / WithSignificant with ANY integer
arguments yields the pairs (p, D[p]) for max(0, starts) ≤ p < min(|D|, ends), ascending (v3) -/
theorem view_chain_forward (c : MemoCfg) (m : Memo) (b v : Val3) (chain : List ViewOp) (take : Nat)
    (hb : IsBase3 b) (hv : applyChain3 b chain = some v)
    (hfit : Fits c m.src (Spec.winOf (chain.map toSpecOp)) take) :
    ∃ m', v.forward c m take
        = .ok (m', Spec.windowList m.src.len m.src.digit (Spec.winOf (chain.map toSpecOp)) take)
      ∧ m'.src = m.src :=
  forward_chain3 c m b v chain take hb hv hfit

/-- … and the backward traversal is the exact reverse -/
theorem view_chain_backward (c : MemoCfg) (m : Memo) (b v : Val3) (chain : List ViewOp) (take n : Nat)
    (hb : IsBase3 b) (hv : applyChain3 b chain = some v)
    (hn : Spec.windowSize m.src.len (Spec.winOf (chain.map toSpecOp)) = some n)
    (hfit : Fits c m.src (Spec.winOf (chain.map toSpecOp)) n) :
    (v.backward c m take).2
      = ((Spec.windowList m.src.len m.src.digit (Spec.winOf (chain.map toSpecOp)) n).reverse).take take :=
  backward_chain3 c m b v chain take n hb hv hn hfit

/-- same for v1/v2 (`Number`, `numberWithStart`) -/
theorem view_chain_forward_v12 (c : MemoCfg) (m : Memo) (v : Val12) (chain : List ViewOp) (e : Int) (take : Nat)
    (hv : applyChain12 (.num .memo e) chain = some v)
    (hfit : Fits c m.src (Spec.winOf (chain.map toSpecOp)) (take + 1)) :
    (spec12Iterate c m v.spec v.start.toNat take).2
      = Spec.windowList m.src.len m.src.digit (Spec.winOf (chain.map toSpecOp)) take :=
  forward_chain12 c m v chain e take hv hfit

/-- the result depends only on the interval, not on the order of the chain -/
theorem view_order_irrelevant (c₁ c₂ : List Spec.VOp) (h : c₁.Perm c₂) : Spec.winOf c₁ = Spec.winOf c₂ :=
  winOf_perm c₁ c₂ h

/-- WithSignificant(k) keeps the exponent when a digit remains and yields the zero number
(exponent 0) otherwise; parent and siblings are untouched because values are immutable — every
view operation returns a NEW value or the receiver itself (`Val3.apply` has no other effect) -/
theorem withSignificant_exponent (sp : VSpec) (e k : Int) (hk : 0 ≤ k) (hsp : sp ≠ .nil) :
    ∃ v, (Val3.opqN sp e).apply (.withSig k) = some (.ok v) ∧
      (Val3.fnum sp e).apply (.withSig k) = some (.ok v) ∧
      (0 < k → v.exponent = some e ∧ v.isZero = false) ∧
      (k = 0 → v = zero3) :=
  withSig_exponent sp e k hk hsp

/-- non-vacuity: a chain with extreme arguments on a base Number is applicable -/
example : applyChain3 (.opqN .memo 3) [.withStart (-5), .withSig 100, .withEnd maxInt, .withStart 7, .finiteWithStart minInt]
    = some (.mws (.limited 100) 7) := by decide

end Sqroot.Props.C07

/-
C10 — Printed digit tables place every digit at its true position.
-/
import Sqroot.Proofs.OverflowWidth
import Sqroot.Proofs.Print
import Sqroot.Proofs.Fprint
import Sqroot.Proofs.Fprint12
import Sqroot.Proofs.EndToEndPrint
namespace Sqroot.Props.C10
open Sqroot.Model Sqroot.Proofs

/-- the row starters computed from the regenerated `digitCountWidth` are the documented ones:
label width = digits of the first position of the last row; "0." / "0  " / indentation -/
theorem row_starters_as_documented (v : Version) (s : PSettings) (maxDigits : Int) :
    toPOpts v s maxDigits =
      Spec.resolve s.digitsPerRow s.digitsPerColumn s.showCount s.missingDigit s.trailingLineFeed
        (match v with | .v3 => s.leadingDecimal | _ => true) maxDigits :=
  rowStarter_resolve v s maxDigits

/-- for every option combination (ANY integers for rows/columns, any rune, both v3 booleans), any
buffer size and any strictly ascending set of shown positions, delivered through any number of
Positions ranges: the bytes are exactly the canonical cell-by-cell layout — each shown digit at
the place rows/columns assign to its position, the missing rune elsewhere up to the last shown
digit of a printed row, nothing beyond, unlabelled empty rows omitted -/
theorem table_is_canonical_layout (v : Version) (s : PSettings) (maxDigits : Int) (feeds : List (List (Nat × Nat)))
    (w : Nat → List Nat → Nat × Bool × Nat) (st : Nat) (hw : Reliable w)
    (hasc : StrictAsc feeds.flatten) (hd : ∀ x ∈ feeds.flatten, x.2 ≤ 9) :
    ∃ r, printRun v { w := w, st := st } maxDigits s feeds = .ok r ∧
      r.accepted = Spec.layout (toPOpts v s maxDigits) feeds.flatten ∧
      r.written = r.accepted.length ∧ r.err = false ∧ r.pulled = feeds.flatten.length :=
  print_layout v s maxDigits feeds w st hw hasc hd

/-- END TO END (v3): Fprint on any view (any chain of view operations on a base Number) with any
normalised Positions value — one derived view per range, as `fromSequenceWithPositions` does —
prints the canonical layout of exactly the requested positions that exist in the view
(`Spec.shownOf`: for each range the part of the window inside it). Composition of C07
(`forward_chain3`), C11 (normal form ⇒ strictly ascending) and the printer theorem. -/
theorem fprint_end_to_end (c : MemoCfg) (m : Memo) (b v : Val3) (chain : List ViewOp) (ranges : List PRange)
    (s : PSettings) (w : Nat → List Nat → Nat × Bool × Nat) (st : Nat) (hw : Reliable w)
    (hb : IsBase3 b) (hv : applyChain3 b chain = some v)
    (hnorm : Spec.NormalRanges (toPairs ranges)) (hfit : FitsRanges c m.src ranges)
    (hd : ∀ p, m.src.digit p ≤ 9) :
    ∃ r, fprint3 c m { w := w, st := st } s v ranges = some (.ok r) ∧
      r.accepted = Spec.layout (toPOpts .v3 s (positionsEnd ranges))
        (Spec.shownOf m.src.len m.src.digit (Spec.winOf (chain.map toSpecOp)) (toPairs ranges)) ∧
      r.written = r.accepted.length ∧ r.err = false :=
  fprint_is_layout c m b v chain ranges s w st hw hb hv hnorm hfit hd

/-- the defaults of Fprint / Fwrite regenerated from the source are the documented ones -/
theorem defaults_as_documented :
    Gen.V3.fprintDefaults = ⟨50, 5, true, 46, 0, false, true⟩ ∧
    Gen.V3.fwriteDefaults = ⟨50, 5, true, 46, 0, true, false⟩ ∧
    Gen.V1.fprintDefaults = ⟨50, 5, true, 46, 0, false, false⟩ ∧
    Gen.V2.fprintDefaults = ⟨50, 5, true, 46, 0, false, false⟩ := by
  decide

/-- end to end (v3 `Fwrite`/`Swrite` on a finite view of `size` digits): the backward step that
finds the last position, the forward traversal and the printer together write the canonical
layout of all positions of the view, label width taken from the last position. -/
theorem fwrite_end_to_end (c : MemoCfg) (m : Memo) (b v : Val3) (chain : List ViewOp) (size : Nat)
    (s : PSettings) (w : Nat → List Nat → Nat × Bool × Nat) (st : Nat) (hw : Reliable w)
    (hb : IsBase3 b) (hv : applyChain3 b chain = some v) (hfin : v.assertsFiniteSeq = true)
    (hsize : Spec.windowSize m.src.len (Spec.winOf (chain.map toSpecOp)) = some size)
    (hfit : Fits c m.src (Spec.winOf (chain.map toSpecOp)) (size + 1))
    (hd : ∀ p, m.src.digit p ≤ 9) :
    let shown := Spec.windowList m.src.len m.src.digit (Spec.winOf (chain.map toSpecOp)) size
    let endP : Int := match shown.getLast? with | some (p, _) => (p : Int) + 1 | none => 0
    ∃ r, fwrite3 c m { w := w, st := st } s v size = some (.ok r) ∧
      r.accepted = Spec.layout (toPOpts .v3 s endP) shown ∧
      r.written = r.accepted.length ∧ r.err = false :=
  Sqroot.Proofs.fwrite_end_to_end c m b v chain size s w st hw hb hv hfin hsize hfit hd

/-- The label width is the one place of the printer whose arithmetic is regenerated into unbounded
`Int`: for every `DigitsPerRow` in the int64 range and every `Positions.End()` in [0, MaxInt] no
intermediate result of the Go code leaves int64 (the generated overflow companion is false), so
the unbounded reading IS the Go reading — also for "print everything", `UpTo(math.MaxInt)` -/
theorem label_width_arithmetic_fits_int64 (row maxDigits : Int) (showCount : Bool)
    (hr : Sqroot.Proofs.I64 row) (hm : 0 ≤ maxDigits ∧ Sqroot.Proofs.I64 maxDigits) :
    Gen.V1.digitCountWidthOvf row showCount maxDigits = false ∧
    Gen.V2.digitCountWidthOvf row showCount maxDigits = false ∧
    Gen.V3.digitCountWidthOvf row showCount maxDigits = false :=
  ⟨Sqroot.Proofs.digitCountWidth_fits_v1 row maxDigits showCount hr hm,
   Sqroot.Proofs.digitCountWidth_fits_v2 row maxDigits showCount hr hm,
   Sqroot.Proofs.digitCountWidth_fits_v3 row maxDigits showCount hr hm⟩

example : Gen.V1.digitCountWidthOvf 50 true 9223372036854775807 = false ∧
    Gen.V1.digitCountWidth 50 true 9223372036854775807 = 19 := by decide

/-- end to end for v1 / v2 (`Fprint` / `Sprint` over pull iterators with one digit of look-ahead):
on any view chain of a Number with any normalised Positions the output is the canonical layout
of exactly the requested positions that exist -/
theorem fprint12_end_to_end (ver : Version) (c : MemoCfg) (m : Memo) (v : Val12) (chain : List ViewOp) (e : Int)
    (ranges : List PRange) (s : PSettings) (w : Nat → List Nat → Nat × Bool × Nat) (st : Nat) (hw : Reliable w)
    (hv : applyChain12 (.num .memo e) chain = some v)
    (hnorm : Spec.NormalRanges (toPairs ranges)) (hfit : FitsRanges c m.src ranges)
    (hd : ∀ p, m.src.digit p ≤ 9) :
    ∃ r, fprint12 ver c m { w := w, st := st } s v ranges = some (.ok r) ∧
      r.accepted = Spec.layout (toPOpts ver s (positionsEnd ranges))
        (Spec.shownOf m.src.len m.src.digit (Spec.winOf (chain.map toSpecOp)) (toPairs ranges)) ∧
      r.written = r.accepted.length ∧ r.err = false :=
  fprint12_is_layout ver c m v chain e ranges s w st hw hv hnorm hfit hd

end Sqroot.Props.C10

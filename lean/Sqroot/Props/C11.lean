/-
C11 — Positions are a normalised set: sorted, disjoint, exact union.
-/
import Sqroot.Proofs.Positions
import Sqroot.Proofs.PosHeap
import Sqroot.Gen.V1
import Sqroot.Gen.V2
import Sqroot.Gen.V3
namespace Sqroot.Props.C11
open Sqroot.Model Sqroot.Proofs

/-- every call sequence succeeds (no panic) and Build — for ANY outcome of the sort — returns the
normal form of exactly the non-negative positions added, leaving the builder empty -/
theorem build_normal_exact_union (cs : List BCall) (hcs : ∀ c ∈ cs, BCall.InRange c) :
    ∃ b, ({} : Builder).calls cs = .ok b ∧
      ∀ sorted, IsSortOf sorted b.ranges →
        ∃ r, b.buildWith sorted = .ok (r, {}) ∧
          Spec.NormalRanges (toPairs r) ∧
          ∀ x, Spec.memRanges (toPairs r) x ↔ Spec.memCalls (cs.map toSpecCall) x :=
  calls_build_normal cs hcs

theorem build_normal_exec (cs : List BCall) (hcs : ∀ c ∈ cs, BCall.InRange c) :
    ∃ b r, ({} : Builder).calls cs = .ok b ∧ b.build = .ok (r, {}) ∧
      Spec.NormalRanges (toPairs r) ∧
      ∀ x, Spec.memRanges (toPairs r) x ↔ Spec.memCalls (cs.map toSpecCall) x :=
  calls_build_normal_exec cs hcs

/-- the model's sort is a sort -/
theorem sort_is_sort (rs : List PRange) : IsSortOf (sortByStart rs) rs := sortByStart_isSort rs

/-- normal forms are unique: order, grouping and sort permutation are irrelevant -/
theorem normal_form_unique (r₁ r₂ : List (Int × Int)) (h₁ : Spec.NormalRanges r₁)
    (h₂ : Spec.NormalRanges r₂) (h : ∀ x, Spec.memRanges r₁ x ↔ Spec.memRanges r₂ x) : r₁ = r₂ :=
  normal_unique r₁ r₂ h₁ h₂ h

theorem end_is_max_plus_one (r : List PRange) (h : Spec.NormalRanges (toPairs r)) :
    (r = [] → positionsEnd r = 0) ∧
    (r ≠ [] → Spec.memRanges (toPairs r) (positionsEnd r - 1)) ∧
    (∀ x, Spec.memRanges (toPairs r) x → x < positionsEnd r) :=
  positionsEnd_spec r h

theorem between_is_single_range (s e : Int) :
    ∃ r, between s e = .ok r ∧ Spec.NormalRanges (toPairs r) ∧
      ∀ x, Spec.memRanges (toPairs r) x ↔ (0 ≤ x ∧ s ≤ x ∧ x < e) :=
  between_spec s e

theorem upTo_is_single_range (e : Int) :
    ∃ r, upTo e = .ok r ∧ Spec.NormalRanges (toPairs r) ∧
      ∀ x, Spec.memRanges (toPairs r) x ↔ (0 ≤ x ∧ x < e) :=
  upTo_spec e

theorem build_leaves_builder_empty (b : Builder) (sorted r : List PRange) (b' : Builder)
    (h : b.buildWith sorted = .ok (r, b')) : b' = {} :=
  build_resets b sorted r b' h

/-- tie 1: in the source of every version `Build` drops the builder's slice header before every
return (`*p = PositionsBuilder{}`, no `p.ranges = p.ranges[:0]`-style truncation that would keep
the backing array) and builds the sorted-path result from a nil slice — the two facts the
slice/heap model `Model/PosHeap.lean` is written from (isolation theorem: `Proofs/PosHeap.lean`) -/
theorem build_reset_as_modelled :
    Gen.V1.buildFullReset = true ∧ Gen.V2.buildFullReset = true ∧ Gen.V3.buildFullReset = true ∧
    Gen.V1.buildResultFresh = true ∧ Gen.V2.buildResultFresh = true ∧ Gen.V3.buildResultFresh = true :=
  ⟨rfl, rfl, rfl, rfl, rfl, rfl⟩

/-- later use of the builder never changes a Positions value built earlier: on the slice/heap
model (Go slice headers over backing arrays, in-place writes, append with spare capacity), for
ANY script before the Build and ANY script after it on the same builder -/
theorem built_positions_are_isolated (pre post : List HCall) :
    let r1 := runHCalls pre ⟨[]⟩ {} []
    let built := r1.2.1.build r1.1
    let r2 := runHCalls post built.1 built.2.2 []
    r2.1.read built.2.1 = built.1.read built.2.1 :=
  build_isolated pre post

/-- the slice/heap builder hands out exactly what the pure builder of `build_normal_exact_union`
computes -/
theorem heap_builder_refines_pure (cs : List BCall) (b : Builder) (hb : ({} : Builder).calls cs = .ok b) :
    let hcs := cs.map (fun c => match c with | .add p => HCall.add p | .addRange s e => HCall.addRange s e)
    let r := runHCalls hcs ⟨[]⟩ {} []
    r.1.read r.2.1.ranges = b.ranges ∧ r.2.1.unsorted = b.unsorted ∧
    (∀ res b', b.build = .ok (res, b') → (r.2.1.build r.1).1.read (r.2.1.build r.1).2.1 = res) :=
  heap_build_refines cs b hb

/-- non-vacuity: an out-of-order, overlapping, adjacent, negative and wrapping script -/
example : (do let b ← ({} : Builder).calls [.addRange 5 9, .add 3, .addRange (-4) 2, .add 2, .add maxInt, .addRange 9 9, .addRange 8 12]; b.build).toOption
    = some ([⟨0, 4⟩, ⟨5, 12⟩], {}) := by decide +kernel

end Sqroot.Props.C11

/-
C12 — Printing to a failing writer reports exact byte counts and a clean prefix.
The underlying writer `w` is an ARBITRARY function (adversarial): every failure point, every
failure mode, every buffer size are instances.
-/
import Sqroot.Proofs.Print
import Sqroot.Proofs.FprintFault
import Sqroot.Proofs.FprintFaultRun
import Sqroot.Proofs.FprintFault12
import Sqroot.Proofs.Fprint12
namespace Sqroot.Props.C12
open Sqroot.Model Sqroot.Proofs

/-- whatever the writer does: accepted bytes are a prefix of the fault-free output and the count
returned is their number -/
theorem clean_prefix_exact_count (v : Version) (s : PSettings) (maxDigits : Int) (feeds : List (List (Nat × Nat)))
    (w : Nat → List Nat → Nat × Bool × Nat) (st : Nat)
    (hasc : StrictAsc feeds.flatten) (hd : ∀ x ∈ feeds.flatten, x.2 ≤ 9)
    (r : PrintResult) (hr : printRun v { w := w, st := st } maxDigits s feeds = .ok r) :
    r.accepted <+: Spec.layout (toPOpts v s maxDigits) feeds.flatten ∧ r.written = r.accepted.length :=
  fault_prefix v s maxDigits feeds w st hasc hd r hr

/-- error iff the output was not delivered completely (writers honouring io.Writer's contract) -/
theorem error_iff_incomplete (v : Version) (s : PSettings) (maxDigits : Int) (feeds : List (List (Nat × Nat)))
    (w : Nat → List Nat → Nat × Bool × Nat) (st : Nat) (hh : Honest w)
    (hasc : StrictAsc feeds.flatten) (hd : ∀ x ∈ feeds.flatten, x.2 ≤ 9)
    (r : PrintResult) (hr : printRun v { w := w, st := st } maxDigits s feeds = .ok r) :
    (r.err = false ↔ r.accepted = Spec.layout (toPOpts v s maxDigits) feeds.flatten) :=
  fault_err_iff v s maxDigits feeds w st hh hasc hd r hr

/-- tie 1: the gap loop of `printer.Consume` re-checks the error state — in the source of all
three versions, today (this is what the repaired defect of DESIGN §9.1 broke) -/
theorem gap_loop_rechecks_error (v : Version) : gapChecksErrOf v = true := gap_loop_checks_err v

/-- Fprint/Fwrite return — no panic, no endless loop — for every writer that does not stall -/
theorem always_returns (v : Version) (s : PSettings) (maxDigits : Int) (feeds : List (List (Nat × Nat)))
    (w : Nat → List Nat → Nat × Bool × Nat) (st : Nat) (hn : NoStall w) :
    ∃ r, printRun v { w := w, st := st } maxDigits s feeds = .ok r :=
  fault_terminates v s maxDigits feeds w st hn (gap_loop_checks_err v)

/-- prompt stop: an error latched by the buffered writer is seen by the printer within the same
`Consume`, and from then on no further digit is pulled from the sequence -/
theorem error_seen_at_once (p p' : RawPrinter) (d : Int) (h : p.consume d = .ok p')
    (hp : p.w.err = true → p.err = true) : p'.w.err = true → p'.err = true :=
  fault_prompt_latch p p' d h hp

theorem no_digit_after_error (pr pr' : Printer) (feed : List (Nat × Nat)) (h : pr.feed feed = .ok pr')
    (herr : pr.raw.err = true) : pr'.pulled = pr.pulled :=
  fault_prompt_stop pr pr' feed h herr

/-- the buffered writer neither reorders nor invents bytes -/
theorem buffered_writer_is_fifo (b b' : BufW) (p : List Nat) (n : Nat) (h : b.write p = .ok (b', n)) :
    (b'.sink.accepted ++ b'.buf) <+: (b.sink.accepted ++ b.buf ++ p) ∧
    (b'.err = false → b'.sink.accepted ++ b'.buf = b.sink.accepted ++ b.buf ++ p) ∧
    (b.err = true → b' = b ∨ (b'.sink.accepted = b.sink.accepted ∧ b'.err = true)) :=
  bufw_write_spec b b' p n h

/-! ### "stop consuming digits promptly after the fault": requests to the memoizer (v3)

`Model/Fprint.lean` threads the memoizer state through `fromSequenceWithPositions` /
`fromFiniteSequence` with their early exits (`rangeFault3`, `rangesFault3`, `fprintFault3`; the model
walker of the correspondence check runs exactly these functions against the implementation's
consult counter). `blockUp c q` is the demand, in whole blocks, that delivering position `q` needs. -/

/-- a traversal left by its consumer after `take` delivered items has requested nothing beyond
what delivering the LAST of them needs (`memoizer.Scan` returns without its next `wait`) -/
theorem early_exit_requests_nothing_more (c : MemoCfg) (m : Memo) (v : Val3) (take : Nat)
    (m' : Memo) (xs : List (Nat × Nat)) (hs : v.forward c m take = .ok (m', xs))
    (hfull : xs.length = take) (hpos : 0 < take) :
    ∃ q d, xs.getLast? = some (q, d) ∧ m'.maxLength ≤ max m.maxLength (blockUp c q) :=
  forward_early_exit_exact c m v take m' xs hs hfull hpos

/-- the range during which the error is latched: at least one digit was handed to the printer, and
the demand afterwards is what delivering a position INSIDE that range needs — nothing is requested
for the rest of the range -/
theorem fault_stops_the_range (c : MemoCfg) (m : Memo) (pr : Printer) (v : Val3) (r : PRange)
    (m' : Memo) (pr' : Printer) (h : rangeFault3 c m pr v r = some (.ok (m', pr')))
    (hok : pr.raw.err = false) (herr : pr'.raw.err = true) :
    pr.pulled < pr'.pulled ∧
    ∃ q, m'.maxLength ≤ max m.maxLength (blockUp c q) ∧ (r.start ≤ (q : Int)) ∧ ((q : Int) < r.stop) :=
  range_fault_prompt_stop c m pr v r m' pr' h hok herr

/-- once the error is latched the remaining ranges request nothing at all: memoizer and printer
are left exactly as they were -/
theorem no_request_after_the_fault (c : MemoCfg) (m : Memo) (pr : Printer) (v : Val3) (rs : List PRange)
    (herr : pr.raw.err = true) (res : Memo × Printer) (h : rangesFault3 c m pr v rs = some (.ok res)) :
    res = (m, pr) :=
  ranges_after_error c m pr v rs herr res h

/-- the early-exit run WRITES what the plain run writes (same accepted bytes, count, error flag,
digits pulled, writer calls): every theorem above about `printRun` under an arbitrary writer is a
theorem about `fprintFault3`, the function the correspondence check runs against the
implementation's faulted `Fprint` -/
theorem early_exit_run_is_the_plain_run (c : MemoCfg) (m : Memo) (sink : Sink) (s : PSettings) (v : Val3)
    (ranges : List PRange) (r : PrintResult) (m' : Memo) (r0 : PrintResult)
    (h : fprintFault3 c m sink s v ranges = some (.ok (r, m')))
    (h0 : fprint3 c m sink s v ranges = some (.ok r0)) : r = r0 :=
  fprintFault3_result_eq c m sink s v ranges r m' r0 h h0

theorem early_exit_fwrite_is_the_plain_fwrite (c : MemoCfg) (m : Memo) (sink : Sink) (s : PSettings) (v : Val3)
    (size : Nat) (r : PrintResult) (m' : Memo) (r0 : PrintResult)
    (h : fwriteFault3 c m sink s v size = some (.ok (r, m')))
    (h0 : fwrite3 c m sink s v size = some (.ok r0)) : r = r0 :=
  fwriteFault3_result_eq c m sink s v size r m' r0 h h0

/-! ### v1 / v2 (pull iterators with one digit of look-ahead; `rangeFault12`, `rangesFault12`) -/

/-- once the printer has latched an error, the remaining ranges request nothing — no iterator is
even created (this is what the repaired defect of DESIGN §9.1b violated) -/
theorem no_request_after_the_fault_v12 (c : MemoCfg) (m : Memo) (pr : Printer) (v : Val12) (rs : List PRange)
    (herr : pr.raw.err = true) (res : Memo × Printer) (h : rangesFault12 c m pr v rs = some (.ok res)) :
    res = (m, pr) :=
  ranges_after_error12 c m pr v rs herr res h

/-- the range during which the error is latched: with `j ≥ 1` digits handed to the printer the
iterator was called `j + 1` times, and the demand afterwards is at most what delivering position
`start + j + 1` needs — two positions beyond the last digit printed (the look-ahead digit and the
block prefetch it may trigger), nothing more -/
theorem fault_stops_the_range_v12 (c : MemoCfg) (m : Memo) (pr : Printer) (v v1 v2 : Val12) (r : PRange)
    (m' : Memo) (pr' : Printer)
    (h1 : v.apply (.withStart r.start) = some (.ok v1)) (h2 : v1.apply (.withEnd r.stop) = some (.ok v2))
    (h : rangeFault12 c m pr v r = some (.ok (m', pr')))
    (hok : pr.raw.err = false) (herr : pr'.raw.err = true) :
    pr.pulled < pr'.pulled ∧
    m'.maxLength ≤ max m.maxLength (blockUp c (v2.start.toNat + (pr'.pulled - pr.pulled) + 1)) :=
  range_fault_prompt_stop12 c m pr v v1 v2 r m' pr' h1 h2 h hok herr

/-- v1 / v2: the early-exit run writes what the plain run writes -/
theorem early_exit_run_is_the_plain_run_v12 (ver : Version) (c : MemoCfg) (m : Memo) (sink : Sink) (s : PSettings)
    (v : Val12) (ranges : List PRange) (r : PrintResult) (m' : Memo) (r0 : PrintResult)
    (h : fprintFault12 ver c m sink s v ranges = some (.ok (r, m')))
    (h0 : fprint12 ver c m sink s v ranges = some (.ok r0)) : r = r0 :=
  fprintFault12_result_eq ver c m sink s v ranges r m' r0 h h0

end Sqroot.Props.C12

/-
C16 — Panics occur only for documented preconditions, at the call site.
Every partial Go operation of the modelled layers is `Except Panic`-valued; the theorems of the
other properties conclude `= .ok …`, i.e. they already carry "does not panic" for every input.
This file collects those corollaries per API family, pins the set of explicit panic sites in the
source, and states the documented panics as iff's.
-/
import Sqroot.Model.Api
import Sqroot.Model.Expect
import Sqroot.Proofs.Positions
import Sqroot.Proofs.Search
import Sqroot.Proofs.Format
import Sqroot.Proofs.Print
import Sqroot.Proofs.View
namespace Sqroot.Props.C16
open Sqroot.Model Sqroot.Proofs

/-- tie 1 (G6): the distinct explicit `panic(` statements in the source of each version are exactly
the known ones: the two argument checks, WithSignificant, (v1) IteratorAt, the internal index
guard and the formatter guard. A new kind of panic breaks this `rfl`; moving a guard into a helper
or delegating to a function that already has it does not (the per-function list `panicSites` is
kept in the generated files for reference). -/
theorem panic_statements_as_modelled :
    Gen.V1.panicStatements = Expect.panicStatements1 ∧ Gen.V2.panicStatements = Expect.panicStatements23 ∧
    Gen.V3.panicStatements = Expect.panicStatements23 := ⟨rfl, rfl, rfl⟩

/-- root and rational constructors panic iff denominator ≤ 0 or numerator < 0 (in this order) -/
theorem constructors_panic_iff (num den : Int) :
    (∃ p, checkNumDenom num den = .error p) ↔ (den ≤ 0 ∨ num < 0) := by
  unfold checkNumDenom
  by_cases h1 : den ≤ 0
  · simp [h1]
  · by_cases h2 : num < 0
    · simp [h1, h2]
    · simp [h1, h2]

/-- view operations panic iff it is WithSignificant with a negative limit (on a Number) -/
theorem views_panic_iff (v : Val3) (op : ViewOp) :
    (∃ p, v.apply op = some (.error p)) ↔
      (∃ k, op = .withSig k ∧ k < 0 ∧ v.assertsNumber = true) := by
  cases v <;> cases op <;> simp [Val3.apply, Val3.assertsNumber] <;>
    (first | omega | (intro h; split at h <;> simp_all) | skip)
  all_goals (first | (constructor <;> intro h <;> split at * <;> simp_all <;> omega) | skip)

/-- Positions: no call sequence with any integer arguments panics, nor does Build -/
theorem positions_never_panic (cs : List BCall) (hcs : ∀ c ∈ cs, BCall.InRange c) :
    ∃ b r, ({} : Builder).calls cs = .ok b ∧ b.build = .ok (r, {}) := by
  obtain ⟨b, r, h1, h2, _⟩ := calls_build_normal_exec cs hcs
  exact ⟨b, r, h1, h2⟩

/-- searching: no index out of range in `ttable` / `Visit`, no endless inner loop, for any pattern
(values of any size) and any text -/
theorem search_never_panics (p : List Int) (hp : p ≠ []) (T : List Int) (s : Int) :
    ∃ r, matchesAll p.toArray (feedOf s T) = .ok r ∧ ∃ r', backwardMatchesAll p.toArray (feedOf s T).reverse = .ok r' :=
  ⟨_, matchesAll_spec p hp T s, _, backwardMatchesAll_spec p hp T s⟩

/-- formatting: any verb (supported or not), precision, width, flag, exponent, digits -/
theorem format_never_panics (v : Version) (e : Int) (ds : List Nat) (hd : ∀ d ∈ ds, d ≤ 9)
    (verb : Nat) (prec : Option Nat) (width : Option Nat) (minus : Bool) :
    ∃ r, numFormat v e ds verb prec width minus = .ok r :=
  ⟨_, format_spec v e ds hd verb prec width minus⟩

/-- printing: any integer option values, any rune, any buffer size, any writer that does not
stall — returns normally (`index / digitsPerRow`, `strings.Repeat` counts, buffer indices) -/
theorem print_never_panics (v : Version) (s : PSettings) (maxDigits : Int) (feeds : List (List (Nat × Nat)))
    (w : Nat → List Nat → Nat × Bool × Nat) (st : Nat) (hn : NoStall w) :
    ∃ r, printRun v { w := w, st := st } maxDigits s feeds = .ok r :=
  fault_terminates v s maxDigits feeds w st hn (gap_loop_checks_err v)

/-- traversals of any view chain: the internal "index must be non-negative" guards are unreachable -/
theorem traversal_never_panics (c : MemoCfg) (m : Memo) (b v : Val3) (chain : List ViewOp) (take : Nat)
    (hb : IsBase3 b) (hv : applyChain3 b chain = some v)
    (hfit : Fits c m.src (Spec.winOf (chain.map toSpecOp)) take) :
    ∃ r, v.forward c m take = .ok r := by
  obtain ⟨m', h, _⟩ := forward_chain3 c m b v chain take hb hv hfit
  exact ⟨_, h⟩

end Sqroot.Props.C16

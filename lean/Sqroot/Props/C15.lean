/-
C15 — Searches on infinite sequences stop at the answer.
"Stops" is a statement about how many feed items the lazy search pulls: `kmpTake` returns the
count; the memoizer then bounds the consulted positions (C06 `consult_bound`).
-/
import Sqroot.Proofs.Search
import Sqroot.Proofs.Monitor
import Sqroot.Proofs.EndToEnd
namespace Sqroot.Props.C15
open Sqroot.Model Sqroot.Proofs

/-- a search for the first `n` matches over ANY finite prefix `T` of the sequence that contains
them pulls exactly the digits up to the end of the last reported match — so on an infinite
sequence it terminates as soon as the matches exist, wherever the pattern is planted; it pulls
nothing for n = 0; on a finite sequence with fewer matches it stops at the end -/
theorem search_stops_at_answer (p : List Int) (hp : p ≠ []) (T : List Int) (s : Int) (n : Nat) :
    ∃ k, newKernel p.toArray = .ok k ∧
      ∃ c, kmpTake k false n (feedOf s T)
          = .ok (((Spec.occurrences p T).take n).map (shiftPos s), c) ∧
        (n = 0 → c = 0) ∧
        (0 < n → n ≤ (Spec.occurrences p T).length →
          ∀ last, ((Spec.occurrences p T).take n).getLast? = some last → c = last + p.length) ∧
        ((Spec.occurrences p T).length < n → c = T.length) :=
  kmpTake_spec p hp T s n

/-- the digits consulted for any sequence of requests never exceed the demand, which is at most
one block beyond the highest index asked for (bounded read-ahead, C06) -/
theorem consults_bounded (c : MonCfg) (hc : 0 < c.chunk) (programs : List (List Nat))
    (s : MonSt) (h : Reachable c programs s) :
    s.consulted ≤ s.maxLength ∧
    (s.maxLength = 0 ∨ ∃ i ∈ entered s, s.maxLength ≤ i + c.chunk) :=
  consult_bound c hc programs s h

/-- end to end (v3 `FindFirstN` on any view of a Number, over the memoizer): the search pulls
exactly the digits up to the end of the n-th match (`cnt = last + |pat|`), never more than the
window holds, and the demand it places on the digit source grows to at most
(position of the last pulled digit + 1 + one block) — or stays where earlier reads had left it. -/
theorem findFirstN_stops_at_answer_end_to_end (c : MemoCfg) (m : Memo) (b v : Val3) (chain : List ViewOp)
    (pat : List Int) (hp : pat ≠ []) (n bound : Nat) (hn : 0 < n)
    (hb : IsBase3 b) (hv : applyChain3 b chain = some v)
    (hfit : Fits c m.src (Spec.winOf (chain.map toSpecOp)) bound)
    (r : Int) (hr : DemandLe c m r) :
    let w := Spec.winOf (chain.map toSpecOp)
    let cells := Spec.windowList m.src.len m.src.digit w bound
    let T : List Int := cells.map fun x => (x.2 : Int)
    let s : Int := (max w.lo 0)
    ∃ m' cnt, findFirstN3 c m v pat n bound
        = .ok (m', ((Spec.occurrences pat T).take n).map (shiftPos s), cnt) ∧
      cnt ≤ cells.length ∧
      (n ≤ (Spec.occurrences pat T).length →
        ∀ last, ((Spec.occurrences pat T).take n).getLast? = some last → cnt = last + pat.length) ∧
      DemandLe c m' (max r (s + cnt)) :=
  Sqroot.Proofs.findFirstN_end_to_end c m b v chain pat hp n bound hn hb hv hfit r hr

end Sqroot.Props.C15

/-
C15 — Searches on infinite sequences stop at the answer.
"Stops" is a statement about how many feed items the lazy search pulls: `kmpTake` returns the
count; the memoizer then bounds the consulted positions (C06 `consult_bound`).
-/
import Sqroot.Proofs.Search
import Sqroot.Proofs.Monitor
namespace Sqroot.Props.C15
open Sqroot.Model Sqroot.Proofs

/-- a search for the first `n` matches over ANY finite prefix `T` of the sequence that contains
them pulls exactly the digits up to the end of the last reported match — so on an infinite
sequence it terminates as soon as the matches exist, wherever the pattern is planted; it pulls
nothing for n = 0; on a finite sequence with fewer matches it stops at the end -/
theorem search_stops_at_answer (p : List Int) (hp : p ≠ []) (T : List Int) (s : Int) (n : Nat) :
    ∃ k, newKernel p.toArray = .ok k ∧
      ∃ c, kmpTake k false n (feedOf s T)
          = .ok (((Spec.occurrences p T).take n).map (shiftPos s), c) ∧
        (n = 0 → c = 0) ∧
        (0 < n → n ≤ (Spec.occurrences p T).length →
          ∀ last, ((Spec.occurrences p T).take n).getLast? = some last → c = last + p.length) ∧
        ((Spec.occurrences p T).length < n → c = T.length) :=
  kmpTake_spec p hp T s n

/-- the digits consulted for any sequence of requests never exceed the demand, which is at most
one block beyond the highest index asked for (bounded read-ahead, C06) -/
theorem consults_bounded (c : MonCfg) (hc : 0 < c.chunk) (programs : List (List Nat))
    (s : MonSt) (h : Reachable c programs s) :
    s.consulted ≤ s.maxLength ∧
    (s.maxLength = 0 ∨ ∃ i ∈ entered s, s.maxLength ≤ i + c.chunk) :=
  consult_bound c hc programs s h

end Sqroot.Props.C15

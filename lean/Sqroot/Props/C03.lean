/-
C03 — A root's digit sequence ends exactly when the root is a terminating decimal.
-/
import Sqroot.Proofs.Root
namespace Sqroot.Props.C03
open Sqroot.Model Sqroot.Proofs

/-- the stream has exactly `L` digits  iff  those `L` digits raised to the power are the radicand
exactly (square roots, all versions) -/
theorem sqrt_ends_iff (v : Version) (num den : Nat) (hnum : 0 < num) (hden : 0 < den) (L : Nat) :
    RootEndsAt (sqrtMgr v) num den L ↔
      ((rootPrefix (sqrtMgr v) num den L).1.length = L ∧
        Spec.ExactRoot 2 num den (Spec.ofDigits (rootPrefix (sqrtMgr v) num den L).1)
          (rootPrefix (sqrtMgr v) num den L).2 L) :=
  root_ends_iff (sqrt_mgr_correct v) num den hnum hden L

theorem cube_ends_iff (v : Version) (num den : Nat) (hnum : 0 < num) (hden : 0 < den) (L : Nat) :
    RootEndsAt (cubeMgr v) num den L ↔
      ((rootPrefix (cubeMgr v) num den L).1.length = L ∧
        Spec.ExactRoot 3 num den (Spec.ofDigits (rootPrefix (cubeMgr v) num den L).1)
          (rootPrefix (cubeMgr v) num den L).2 L) :=
  root_ends_iff (cube_mgr_correct v) num den hnum hden L

/-- when the stream ends it has at least one digit and its last digit is non-zero -/
theorem sqrt_end_last_nonzero (v : Version) (num den : Nat) (hnum : 0 < num) (hden : 0 < den)
    (L : Nat) (h : RootEndsAt (sqrtMgr v) num den L) :
    0 < L ∧ ∀ d, (rootPrefix (sqrtMgr v) num den L).1.getLast? = some d → d ≠ 0 :=
  root_end_last_nonzero (sqrt_mgr_correct v) num den hnum hden L h

theorem cube_end_last_nonzero (v : Version) (num den : Nat) (hnum : 0 < num) (hden : 0 < den)
    (L : Nat) (h : RootEndsAt (cubeMgr v) num den L) :
    0 < L ∧ ∀ d, (rootPrefix (cubeMgr v) num den L).1.getLast? = some d → d ≠ 0 :=
  root_end_last_nonzero (cube_mgr_correct v) num den hnum hden L h

/-- position `L` and every later position report "no digit": asking for more changes nothing -/
theorem end_sticky (mgr : Manager) (num den L : Nat) (h : RootEndsAt mgr num den L) (k : Nat)
    (hk : L ≤ k) : (rootPrefix mgr num den k).1 = (rootPrefix mgr num den L).1 :=
  root_end_sticky mgr num den L h k hk

/-- in every other case each position holds a digit and the sequence never ends -/
theorem sqrt_never_ends (v : Version) (num den : Nat) (hnum : 0 < num) (hden : 0 < den)
    (hne : ∀ L, ¬ RootEndsAt (sqrtMgr v) num den L) (k : Nat) :
    (rootPrefix (sqrtMgr v) num den k).1.length = k :=
  root_never_ends (sqrt_mgr_correct v) num den hnum hden hne k

theorem cube_never_ends (v : Version) (num den : Nat) (hnum : 0 < num) (hden : 0 < den)
    (hne : ∀ L, ¬ RootEndsAt (cubeMgr v) num den L) (k : Nat) :
    (rootPrefix (cubeMgr v) num den k).1.length = k :=
  root_never_ends (cube_mgr_correct v) num den hnum hden hne k

/-- non-vacuity: √(2401/400) = 2.45 ends after 3 digits; ∛(1/1000000) = 0.01 after 1 -/
example : RootEndsAt (sqrtMgr .v3) 2401 400 3 := by
  have h : rootPrefix (sqrtMgr .v3) 2401 400 (3 + 1) = ([2, 4, 5], 1) := by decide +kernel
  simp [RootEndsAt, h]
example : RootEndsAt (cubeMgr .v1) 1 1000000 1 := by
  have h : rootPrefix (cubeMgr .v1) 1 1000000 (1 + 1) = ([1], -1) := by decide +kernel
  simp [RootEndsAt, h]

end Sqroot.Props.C03

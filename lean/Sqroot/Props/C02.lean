/-
C02 — Cube-root digits and exponent are the exact truncated root.
The constants 6, 45, 54, 171, 100, 1000 of `cubeRootManager` live in `Sqroot/Gen/V*.lean`.
-/
import Sqroot.Proofs.Root
import Sqroot.Model.Api
namespace Sqroot.Props.C02
open Sqroot.Model Sqroot.Proofs

theorem cube_manager_correct (v : Version) : ManagerCorrect 3 (cubeMgr v) := cube_mgr_correct v

theorem cube_exact (v : Version) (num den : Nat) (hnum : 0 < num) (hden : 0 < den) (k : Nat) :
    Spec.TruncRoot 3 num den (Spec.ofDigits (rootPrefix (cubeMgr v) num den k).1)
        (rootPrefix (cubeMgr v) num den k).2 (rootPrefix (cubeMgr v) num den k).1.length
      ∧ Spec.DigitsOk (rootPrefix (cubeMgr v) num den k).1 :=
  root_exact (cube_mgr_correct v) num den hnum hden k

theorem cube_prefix (v : Version) (num den j k : Nat) (hjk : j ≤ k) :
    (rootPrefix (cubeMgr v) num den j).1 = (rootPrefix (cubeMgr v) num den k).1.take j
      ∧ (rootPrefix (cubeMgr v) num den j).2 = (rootPrefix (cubeMgr v) num den k).2 :=
  root_prefix_take _ num den j k hjk

theorem cube_repr_indep (v : Version) (num den c : Nat) (hnum : 0 < num) (hden : 0 < den)
    (hc : 0 < c) (k : Nat) :
    rootPrefix (cubeMgr v) (c * num) (c * den) k = rootPrefix (cubeMgr v) num den k :=
  root_repr_indep (cube_mgr_correct v) num den c hnum hden hc k

/-- r = 0 yields the zero number (IsZero, exponent 0, no digits) for every positive denominator;
every other admissible radicand yields the lazily computed root of `num/den` with `0 < num`,
`0 < den` — the hypotheses of the exactness theorem -/
theorem zero_radicand_gives_zero_number (den : Int) (hden : 0 < den) : nRootFrac 0 den = .ok .zero :=
  nRootFrac_zero den hden

theorem positive_radicand_gives_root (num den : Int) (hnum : 0 < num) (hden : 0 < den) :
    nRootFrac num den = .ok (.root num.toNat den.toNat) ∧ 0 < num.toNat ∧ 0 < den.toNat :=
  nRootFrac_pos num den hnum hden

example : (rootPrefix (cubeMgr .v3) 35223040952 1 8) = ([3, 2, 7, 8], 4) := by
  decide +kernel

end Sqroot.Props.C02

/-
C14 — No aliasing: caller data is neither modified nor retained live (PARTIAL).
Static part: the argument-mode table regenerated from the source by a conservative taint
analysis (`go/extract`, G5) says "read" for every reference-typed parameter of every exported
function of every version; on the little heap model `Model/Heap.lean` "read" means: the caller's
store is unchanged by the call, and nothing the caller does to its data later changes what is
observed. Dynamic part (the other half of this property, see the check): every such function is
called and its argument mutated in place before any digit is computed, between blocks and
mid-iteration, on all versions.
Not modelled: the Go heap beyond addresses (slice capacity, big.Int internals).
-/
import Sqroot.Model.Heap
import Sqroot.Proofs.PosHeap
import Sqroot.Gen.V1
import Sqroot.Gen.V2
import Sqroot.Gen.V3
namespace Sqroot.Props.C14
open Sqroot.Model

/-- tie 1: every reference-typed parameter of every exported function is only read during the
call — in the source of all three versions, today. (Removing a defensive copy — `slices.Clone`,
`x.Set(p)`, `append([]int(nil), p...)`, `patternReverse` — or mutating an argument flips an entry
to "retained"/"mutated" and this fails.) -/
theorem no_alias_modes :
    (Gen.V1.argModes.all fun e => ArgMode.ofString e.2.2 == .read) = true ∧
    (Gen.V2.argModes.all fun e => ArgMode.ofString e.2.2 == .read) = true ∧
    (Gen.V3.argModes.all fun e => ArgMode.ofString e.2.2 == .read) = true := by
  decide

/-- the table covers every exported function that takes reference-typed data (a new one must be
added here, i.e. looked at) -/
theorem arg_mode_table_covers :
    Gen.V3.argModes.map (fun e => (e.1, e.2.1)) =
      [("BackwardMatches", "pattern"), ("CubeRootBigInt", "radican"), ("CubeRootBigRat", "radican"),
       ("Find", "pattern"), ("FindAll", "pattern"), ("FindFirst", "pattern"), ("FindFirstN", "pattern"),
       ("FindLast", "pattern"), ("FindLastN", "pattern"), ("FindR", "pattern"), ("Matches", "pattern"),
       ("NewFiniteNumber", "fixed"), ("NewNumberForTesting", "fixed"), ("NewNumberForTesting", "repeating"),
       ("NewNumberFromBigRat", "value"), ("SqrtBigInt", "radican"), ("SqrtBigRat", "radican")] ∧
    Gen.V1.argModes.map (fun e => (e.1, e.2.1)) = Gen.V2.argModes.map (fun e => (e.1, e.2.1)) ∧
    Gen.V1.argModes.map (fun e => (e.1, e.2.1)) =
      [("CubeRootBigInt", "radican"), ("CubeRootBigRat", "radican"), ("Find", "pattern"), ("FindAll", "pattern"),
       ("FindFirst", "pattern"), ("FindFirstN", "pattern"), ("FindLast", "pattern"), ("FindLastN", "pattern"),
       ("FindR", "pattern"), ("NewNumberFromBigRat", "value"), ("SqrtBigInt", "radican"), ("SqrtBigRat", "radican")] := by
  decide

/-- the package-level big.Int "constants" are never the destination of a mutating method -/
theorem shared_constants_never_mutated :
    Gen.V1.bigConstantsMutated = [] ∧ Gen.V2.bigConstantsMutated = [] ∧ Gen.V3.bigConstantsMutated = [] :=
  ⟨rfl, rfl, rfl⟩

/-- values handed out are not altered by later use of the object they came from: Positions built
earlier vs. later builder use, on the slice/heap model; the two source facts it rests on
(`Build` drops the slice header, the sorted-path result starts from nil) are regenerated -/
theorem handed_out_positions_stable (pre post : List HCall) :
    let r1 := runHCalls pre ⟨[]⟩ {} []
    let built := r1.2.1.build r1.1
    let r2 := runHCalls post built.1 built.2.2 []
    r2.1.read built.2.1 = built.1.read built.2.1 :=
  Sqroot.Proofs.build_isolated pre post

theorem build_reset_as_modelled :
    Gen.V1.buildFullReset = true ∧ Gen.V2.buildFullReset = true ∧ Gen.V3.buildFullReset = true ∧
    Gen.V1.buildResultFresh = true ∧ Gen.V2.buildResultFresh = true ∧ Gen.V3.buildResultFresh = true :=
  ⟨rfl, rfl, rfl, rfl, rfl, rfl⟩

/-- a parameter in mode "read": the call leaves the caller's store unchanged … -/
theorem read_mode_does_not_modify {α : Type} (damage : α → α) (st : Store α) (a : Nat) :
    (construct .read damage st a).2 = st := rfl

/-- … and whatever the caller later writes into its data (any store `st'`), the object observes
what the ORIGINAL value determined -/
theorem read_mode_mutation_irrelevant {α : Type} (damage : α → α) (st st' : Store α) (a : Nat) :
    observe (construct .read damage st a).1 st' = st a := rfl

/-- the two other modes are exactly the two ways the property can fail (so the table's verdict
is not vacuous) -/
theorem retained_mode_observes_mutation {α : Type} (damage : α → α) (st st' : Store α) (a : Nat) :
    observe (construct .retained damage st a).1 st' = st' a := rfl

theorem mutated_mode_modifies {α : Type} (damage : α → α) (st : Store α) (a : Nat) :
    (construct .mutated damage st a).2 a = damage (st a) := by
  simp [construct]

end Sqroot.Props.C14

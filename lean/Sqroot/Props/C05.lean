/-
C05 — Concurrent use is safe: sequential answers, no lost wake-up (PROTOCOL LEVEL; partial).
Theorems about the monitor transition system `Model/Monitor.lean` for ANY number of reader threads,
ANY finite programs and EVERY interleaving. What ties the system to the code: the regenerated
source of the four monitor functions must equal the text it was written from, and the lock
discipline facts must hold (`monitor_as_modelled`, one per version).
Not carried by these theorems (named in DESIGN §4 C05): the Go memory model, the implementation of
sync.Mutex/sync.Cond, the scheduler, the race detector.
-/
import Sqroot.Proofs.Monitor
import Sqroot.Proofs.MonitorFine
import Sqroot.Model.Expect
namespace Sqroot.Props.C05
open Sqroot.Model Sqroot.Proofs

/-- tie 1 (lock discipline, regenerated from the source on every run, all three versions): every
access to a field of the memoizer other than the mutex, the two conditions and the digit function
happens with the mutex held — in a method that holds it from its first statement to its return, or
in an unexported helper all of whose callers do; the digit function is called only by code that
runs in the producer goroutine (`run` and helpers only `run` calls; nobody calls `run` directly);
the only `go` statement starts `run`; every Cond.Wait is in a loop; the package-level big.Int
constants are never mutated. (That the five monitor functions are, statement for statement, the
text the transition system was written from is checked as well — `Expect.monitorSrc*` — but as an
advisory: when the text differs the check falls back on a much larger exploration of the
behavioural tie, the trace validation under the controlled scheduler; DESIGN §4 C05.) -/
theorem lock_discipline_as_modelled :
    Gen.V1.sharedStateTouchedWithoutLock = [] ∧ Gen.V2.sharedStateTouchedWithoutLock = [] ∧
    Gen.V3.sharedStateTouchedWithoutLock = [] ∧
    Gen.V1.iterCalledOutsideProducer = [] ∧ Gen.V2.iterCalledOutsideProducer = [] ∧
    Gen.V3.iterCalledOutsideProducer = [] ∧
    Gen.V1.goStatements = ["newMemoizeSpec: result.run()"] ∧ Gen.V2.goStatements = ["newMemoizeSpec: result.run()"] ∧
    Gen.V3.goStatements = ["newMemoizeSpec: result.run()"] ∧
    Gen.V1.condWaitOutsideLoop = [] ∧ Gen.V2.condWaitOutsideLoop = [] ∧ Gen.V3.condWaitOutsideLoop = [] ∧
    Gen.V1.bigConstantsMutated = [] ∧ Gen.V2.bigConstantsMutated = [] ∧ Gen.V3.bigConstantsMutated = [] := by
  repeat' apply And.intro
  all_goals rfl

/-- ATOMICITY OF THE CRITICAL SECTIONS IS A THEOREM: the fine-grained system (`Model/MonitorFine`:
explicit mutex; every critical section split into its individual shared-memory accesses — read
`done`/`maxLength`, write `maxLength`, Signal, loop test, Wait = release-and-park, Unlock; setData:
write data, write done, Broadcast, Unlock; threads blocked on Lock, also after being woken)
refines the coarse system: mutual exclusion holds, every fine step is a stutter or exactly one
coarse transition, every reachable fine state abstracts to a reachable coarse state -/
theorem mutual_exclusion (c : MonCfg) (programs : List (List Nat)) (s : FSt)
    (h : FReachable c programs s) : MutexInv s :=
  mutex_invariant c programs s h

theorem fine_step_is_coarse_step_or_stutter (c : MonCfg) (programs : List (List Nat)) (s s' : FSt) (l : FLabel)
    (h : FReachable c programs s) (hs : fStep c s l = some s') :
    absF c s' = absF c s ∨ ∃ L, step c (absF c s) L = some (absF c s') :=
  fine_step_simulates c programs s s' l h hs

theorem fine_grained_refines_coarse (c : MonCfg) (programs : List (List Nat)) (s : FSt)
    (h : FReachable c programs s) : Reachable c programs (absF c s) :=
  fine_refines_coarse c programs s h

/-- … so in the fine-grained system, too, every `wait(index)` that has returned gave the
sequential answer, under every interleaving of single memory accesses -/
theorem sequential_answers_fine_grained (c : MonCfg) (hc : 0 < c.chunk) (programs : List (List Nat))
    (hcap : InCapacity c programs) (s : FSt) (h : FReachable c programs s) :
    ∀ r ∈ s.readers, ∀ res ∈ r.results,
      (res.2.2 = true → res.1 < res.2.1 ∧ ∀ k, k < res.2.1 → ValidUpTo c k) ∧
      (res.2.2 = false → ∃ e, e ≤ res.1 ∧ IsEndPos c e) :=
  fine_sequential_answers c hc programs hcap s h

/-- every `wait(index)` that has returned gave the sequential answer -/
theorem sequential_answers (c : MonCfg) (hc : 0 < c.chunk) (programs : List (List Nat))
    (hcap : InCapacity c programs) (s : MonSt) (h : Reachable c programs s) :
    ∀ r ∈ s.readers, ∀ res ∈ r.results,
      (res.2.2 = true → res.1 < res.2.1 ∧ ∀ k, k < res.2.1 → ValidUpTo c k) ∧
      (res.2.2 = false → ∃ e, e ≤ res.1 ∧ IsEndPos c e) :=
  mon_safety c hc programs hcap s h

/-- no lost wake-up: I1 (parked producer has nothing to do), I2 (parked reader waits for something
that has been demanded), hence a parked reader ⇒ the producer is neither parked nor gone -/
theorem no_lost_wakeup (c : MonCfg) (hc : 0 < c.chunk) (programs : List (List Nat))
    (hcap : InCapacity c programs) (s : MonSt) (h : Reachable c programs s) :
    (∀ i, s.prod = .parked i → s.maxLength ≤ s.len) ∧
    (∀ r ∈ s.readers, ∀ i, r.pc = .parked i → s.done = false ∧ s.len ≤ i ∧ i < s.maxLength) ∧
    ((∃ r ∈ s.readers, ∃ i, r.pc = .parked i) → ∀ i, s.prod ≠ .parked i ∧ s.prod ≠ .exited) :=
  mon_no_lost_wakeup c hc programs hcap s h

/-- no deadlock: while any reader has work some transition is enabled -/
theorem deadlock_free (c : MonCfg) (hc : 0 < c.chunk) (programs : List (List Nat))
    (hcap : InCapacity c programs) (s : MonSt) (h : Reachable c programs s)
    (hp : pending s = true) : enabledLabels c s ≠ [] :=
  mon_deadlock_free c hc programs hcap s h hp

/-- every execution is finite, under any scheduler (no fairness assumption): with
`deadlock_free`, no call whose answer is determinable blocks forever -/
theorem all_calls_return (c : MonCfg) (hc : 0 < c.chunk) (programs : List (List Nat))
    (hcap : InCapacity c programs) :
    ∃ N : Nat, ∀ ls s, runLabels c (monInit programs) ls = some s → ls.length ≤ N :=
  mon_terminates c hc programs hcap

/-- the producer writes its slice only at indices ≥ the published length; every snapshot handed
to a reader is no longer than the published length (model-level content of "no data race on the
digit array") -/
theorem disjoint_access (c : MonCfg) (hc : 0 < c.chunk) (programs : List (List Nat))
    (s : MonSt) (h : Reachable c programs s) :
    (∀ i j loc, s.prod = .computing i j loc → s.len ≤ loc) ∧
    (∀ r ∈ s.readers, ∀ res ∈ r.results, res.2.1 ≤ s.len) :=
  mon_disjoint_access c hc programs s h

end Sqroot.Props.C05

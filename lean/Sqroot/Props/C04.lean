/-
C04 — All read paths agree on every digit, independent of access history.
The memoizer state `m` (its demand counter, i.e. everything that was read before) is universally
quantified in every statement: the answers do not depend on it.
-/
import Sqroot.Proofs.View
namespace Sqroot.Props.C04
open Sqroot.Model Sqroot.Proofs

/-- `At(p)` reports the digit iff `0 ≤ p < min(|D|, limit)`, else −1 (absence exactly for negative
positions and positions at or beyond the end), for every memoizer state -/
theorem at_agrees (c : MemoCfg) (m : Memo) (sp : VSpec) (p : Int) (hc : 0 < c.chunk)
    (hfit : match m.src.len with
      | some L => L < c.chunk * c.maxChunks
      | none => p < c.chunk * c.maxChunks) (hsp : sp ≠ .nil) :
    (specAt c m sp p).2 =
      (if 0 ≤ p ∧ m.src.has p.toNat = true ∧ underLimit sp p = true
       then (m.src.digit p.toNat : Int) else -1) :=
  at_spec c m sp p hc hfit hsp

/-- forward push iterators (v3 All/Values): consecutive positions of the window, no gaps or
repeats, whatever was read before and wherever the consumer stops (`take`) -/
theorem forward_agrees (c : MemoCfg) (m : Memo) (b v : Val3) (chain : List ViewOp) (take : Nat)
    (hb : IsBase3 b) (hv : applyChain3 b chain = some v)
    (hfit : Fits c m.src (Spec.winOf (chain.map toSpecOp)) take) :
    ∃ m', v.forward c m take
        = .ok (m', Spec.windowList m.src.len m.src.digit (Spec.winOf (chain.map toSpecOp)) take)
      ∧ m'.src = m.src :=
  forward_chain3 c m b v chain take hb hv hfit

/-- backward iterators are the exact reverse (v3 Backward/Reverse; v1 FullReverse/NumDigits read
the same `FirstN(MaxInt)` snapshot) -/
theorem backward_agrees (c : MemoCfg) (m : Memo) (b v : Val3) (chain : List ViewOp) (take n : Nat)
    (hb : IsBase3 b) (hv : applyChain3 b chain = some v)
    (hn : Spec.windowSize m.src.len (Spec.winOf (chain.map toSpecOp)) = some n)
    (hfit : Fits c m.src (Spec.winOf (chain.map toSpecOp)) n) :
    (v.backward c m take).2
      = ((Spec.windowList m.src.len m.src.digit (Spec.winOf (chain.map toSpecOp)) n).reverse).take take :=
  backward_chain3 c m b v chain take n hb hv hn hfit

/-- a live pull iterator (v3 deprecated Iterator) keeps delivering consecutive positions whatever
happens to the memoizer between its calls — other readers, other iterators, abandoned ones:
`ItOk` is preserved and is all it relies on -/
theorem live_iterator_step (c : MemoCfg) (m : Memo) (it : PullIt) (hc : 0 < c.chunk)
    (hfit : match m.src.len with
      | some L => L < c.chunk * c.maxChunks
      | none => it.index + 1 < c.chunk * c.maxChunks)
    (hit : ItOk m.src it) :
    let r := m.pull3 c it
    ItOk m.src r.2.1 ∧ r.1.src = m.src ∧
    (r.2.2 = (if m.src.has it.index = true ∧ (it.index : Int) < it.limit
              then some (it.index, m.src.digit it.index) else none)) ∧
    (r.2.1.index = if r.2.2.isSome then it.index + 1 else it.index) ∧ r.2.1.limit = it.limit :=
  pull3_spec c m it hc hfit hit

/-- v1/v2 pull traversal (Iterator / FullIterator / IteratorAt) -/
theorem forward_agrees_v12 (c : MemoCfg) (m : Memo) (v : Val12) (chain : List ViewOp) (e : Int) (take : Nat)
    (hv : applyChain12 (.num .memo e) chain = some v)
    (hfit : Fits c m.src (Spec.winOf (chain.map toSpecOp)) (take + 1)) :
    (spec12Iterate c m v.spec v.start.toNat take).2
      = Spec.windowList m.src.len m.src.digit (Spec.winOf (chain.map toSpecOp)) take :=
  forward_chain12 c m v chain e take hv hfit

end Sqroot.Props.C04

/-
Lemmas for C11 (Positions are a normalised set).
-/
import Sqroot.Model.Positions
import Sqroot.Spec.Positions
namespace Sqroot.Proofs
open Sqroot.Model

def toPairs (rs : List PRange) : List (Int × Int) := rs.map fun r => (r.start, r.stop)

def toSpecCall : BCall → Spec.Call
  | .add p => .add p
  | .addRange s e => .addRange s e

/-- arguments are Go `int`s (only `Add` is sensitive to it: `posit+1` wraps at MaxInt) -/
def BCall.InRange : BCall → Prop
  | .add p => minInt ≤ p ∧ p ≤ maxInt
  | .addRange _ _ => True

/-- what `sort.Slice` with `less = Start <` guarantees: some permutation ordered by `start` -/
def IsSortOf (sorted rs : List PRange) : Prop :=
  sorted.Perm rs ∧ sorted.Pairwise (fun a b => a.start ≤ b.start)

theorem sortByStart_isSort (rs : List PRange) : IsSortOf (sortByStart rs) rs := by
  sorry

/-- C11 main theorem: any sequence of Add/AddRange calls on an empty builder succeeds (no panic),
and Build — whatever permutation the sort produces — returns the normal form of exactly the
non-negative positions added, and resets the builder. -/
theorem calls_build_normal (cs : List BCall) (hcs : ∀ c ∈ cs, BCall.InRange c) :
    ∃ b, ({} : Builder).calls cs = .ok b ∧
      ∀ sorted, IsSortOf sorted b.ranges →
        ∃ r, b.buildWith sorted = .ok (r, {}) ∧
          Spec.NormalRanges (toPairs r) ∧
          ∀ x, Spec.memRanges (toPairs r) x ↔ Spec.memCalls (cs.map toSpecCall) x := by
  sorry

/-- the executable model's Build is one instance -/
theorem calls_build_normal_exec (cs : List BCall) (hcs : ∀ c ∈ cs, BCall.InRange c) :
    ∃ b r, ({} : Builder).calls cs = .ok b ∧ b.build = .ok (r, {}) ∧
      Spec.NormalRanges (toPairs r) ∧
      ∀ x, Spec.memRanges (toPairs r) x ↔ Spec.memCalls (cs.map toSpecCall) x := by
  sorry

/-- normal forms are unique: the result does not depend on which sorted permutation was used,
nor on the order or grouping of the calls -/
theorem normal_unique (r₁ r₂ : List (Int × Int)) (h₁ : Spec.NormalRanges r₁) (h₂ : Spec.NormalRanges r₂)
    (h : ∀ x, Spec.memRanges r₁ x ↔ Spec.memRanges r₂ x) : r₁ = r₂ := by
  sorry

/-- `End()` is the largest position plus one, or 0 when empty -/
theorem positionsEnd_spec (r : List PRange) (h : Spec.NormalRanges (toPairs r)) :
    (r = [] → positionsEnd r = 0) ∧
    (r ≠ [] → Spec.memRanges (toPairs r) (positionsEnd r - 1)) ∧
    (∀ x, Spec.memRanges (toPairs r) x → x < positionsEnd r) := by
  sorry

/-- `UpTo(e)` / `Between(s, e)` are the single-AddRange normal forms -/
theorem between_spec (s e : Int) :
    ∃ r, between s e = .ok r ∧ Spec.NormalRanges (toPairs r) ∧
      ∀ x, Spec.memRanges (toPairs r) x ↔ (0 ≤ x ∧ s ≤ x ∧ x < e) := by
  sorry

theorem upTo_spec (e : Int) :
    ∃ r, upTo e = .ok r ∧ Spec.NormalRanges (toPairs r) ∧
      ∀ x, Spec.memRanges (toPairs r) x ↔ (0 ≤ x ∧ x < e) := by
  sorry

/-- Build leaves the builder empty (whatever it returns) -/
theorem build_resets (b : Builder) (sorted : List PRange) (r : List PRange) (b' : Builder)
    (h : b.buildWith sorted = .ok (r, b')) : b' = {} := by
  sorry

end Sqroot.Proofs

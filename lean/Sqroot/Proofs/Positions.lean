/-
Lemmas for C11 (Positions are a normalised set).
-/
import Sqroot.Model.Positions
import Sqroot.Spec.Positions
namespace Sqroot.Proofs
open Sqroot.Model

def toPairs (rs : List PRange) : List (Int × Int) := rs.map fun r => (r.start, r.stop)

def toSpecCall : BCall → Spec.Call
  | .add p => .add p
  | .addRange s e => .addRange s e

/-- arguments are Go `int`s (only `Add` is sensitive to it: `posit+1` wraps at MaxInt) -/
def BCall.InRange : BCall → Prop
  | .add p => minInt ≤ p ∧ p ≤ maxInt
  | .addRange _ _ => True

/-- what `sort.Slice` with `less = Start <` guarantees: some permutation ordered by `start` -/
def IsSortOf (sorted rs : List PRange) : Prop :=
  sorted.Perm rs ∧ sorted.Pairwise (fun a b => a.start ≤ b.start)

/-! ### sorting -/

theorem insertByStart_perm (x : PRange) (l : List PRange) : (insertByStart x l).Perm (x :: l) := by
  induction l with
  | nil => exact List.Perm.refl _
  | cons y ys ih =>
    unfold insertByStart
    split
    · exact List.Perm.refl _
    · exact ((List.Perm.cons y ih).trans (List.Perm.swap x y ys))

theorem insertByStart_sorted (x : PRange) (l : List PRange)
    (h : l.Pairwise (fun a b => a.start ≤ b.start)) :
    (insertByStart x l).Pairwise (fun a b => a.start ≤ b.start) := by
  induction l with
  | nil => simp [insertByStart]
  | cons y ys ih =>
    unfold insertByStart
    rw [List.pairwise_cons] at h
    split
    · rename_i hlt
      refine List.pairwise_cons.2 ⟨?_, List.pairwise_cons.2 h⟩
      intro z hz
      rcases List.mem_cons.1 hz with rfl | hz
      · omega
      · have := h.1 z hz; omega
    · rename_i hge
      refine List.pairwise_cons.2 ⟨?_, ih h.2⟩
      intro z hz
      have hz' := (insertByStart_perm x ys).mem_iff.1 hz
      rcases List.mem_cons.1 hz' with rfl | hz'
      · omega
      · exact h.1 z hz'

theorem sortByStart_isSort (rs : List PRange) : IsSortOf (sortByStart rs) rs := by
  induction rs with
  | nil => exact ⟨List.Perm.refl _, List.Pairwise.nil⟩
  | cons x xs ih =>
    have e : sortByStart (x :: xs) = insertByStart x (sortByStart xs) := rfl
    rw [e]
    exact ⟨(insertByStart_perm x _).trans (List.Perm.cons x ih.1), insertByStart_sorted x _ ih.2⟩

/-! ### range lists as sets -/

/-- membership in the union of a list of ranges -/
def memR (rs : List PRange) (x : Int) : Prop := ∃ r ∈ rs, r.start ≤ x ∧ x < r.stop

/-- every range is non-empty and starts at a non-negative position -/
def Good (rs : List PRange) : Prop := ∀ r ∈ rs, 0 ≤ r.start ∧ r.start < r.stop

/-- every range ends strictly before every later range starts -/
def Disj (rs : List PRange) : Prop := rs.Pairwise (fun a b => a.stop < b.start)

theorem memRanges_toPairs (rs : List PRange) (x : Int) :
    Spec.memRanges (toPairs rs) x ↔ memR rs x := by
  unfold Spec.memRanges memR toPairs
  constructor
  · rintro ⟨p, hp, h⟩
    obtain ⟨r, hr, rfl⟩ := List.mem_map.1 hp
    exact ⟨r, hr, h⟩
  · rintro ⟨r, hr, h⟩
    exact ⟨_, List.mem_map.2 ⟨r, hr, rfl⟩, h⟩

theorem good_nil : Good [] := by intro r hr; cases hr

theorem good_cons {a : PRange} {l : List PRange} :
    Good (a :: l) ↔ (0 ≤ a.start ∧ a.start < a.stop) ∧ Good l := by
  simp [Good]

theorem good_append {l₁ l₂ : List PRange} : Good (l₁ ++ l₂) ↔ Good l₁ ∧ Good l₂ := by
  simp only [Good, List.mem_append]
  constructor
  · intro h; exact ⟨fun r hr => h r (Or.inl hr), fun r hr => h r (Or.inr hr)⟩
  · rintro ⟨h1, h2⟩ r (hr | hr)
    · exact h1 r hr
    · exact h2 r hr

theorem good_singleton {a : PRange} : Good [a] ↔ (0 ≤ a.start ∧ a.start < a.stop) := by
  simp [Good]

theorem memR_nil (x : Int) : ¬ memR [] x := by
  rintro ⟨r, hr, _⟩; cases hr

theorem memR_append {l₁ l₂ : List PRange} {x : Int} :
    memR (l₁ ++ l₂) x ↔ memR l₁ x ∨ memR l₂ x := by
  simp only [memR, List.mem_append]
  constructor
  · rintro ⟨r, hr | hr, h⟩
    · exact Or.inl ⟨r, hr, h⟩
    · exact Or.inr ⟨r, hr, h⟩
  · rintro (⟨r, hr, h⟩ | ⟨r, hr, h⟩)
    · exact ⟨r, Or.inl hr, h⟩
    · exact ⟨r, Or.inr hr, h⟩

theorem memR_singleton {a : PRange} {x : Int} : memR [a] x ↔ (a.start ≤ x ∧ x < a.stop) := by
  simp [memR]

theorem memR_cons {a : PRange} {l : List PRange} {x : Int} :
    memR (a :: l) x ↔ (a.start ≤ x ∧ x < a.stop) ∨ memR l x := by
  simp [memR]

theorem memR_perm {l₁ l₂ : List PRange} (h : l₁.Perm l₂) (x : Int) : memR l₁ x ↔ memR l₂ x := by
  unfold memR
  constructor
  · rintro ⟨r, hr, hx⟩; exact ⟨r, h.mem_iff.1 hr, hx⟩
  · rintro ⟨r, hr, hx⟩; exact ⟨r, h.mem_iff.2 hr, hx⟩

theorem good_perm {l₁ l₂ : List PRange} (h : l₁.Perm l₂) : Good l₁ ↔ Good l₂ := by
  unfold Good
  constructor
  · intro g r hr; exact g r (h.mem_iff.2 hr)
  · intro g r hr; exact g r (h.mem_iff.1 hr)

theorem disj_cons {a : PRange} {l : List PRange} :
    Disj (a :: l) ↔ (∀ b ∈ l, a.stop < b.start) ∧ Disj l := by
  unfold Disj; exact List.pairwise_cons

theorem disj_snoc {init : List PRange} {l : PRange} :
    Disj (init ++ [l]) ↔ Disj init ∧ ∀ a ∈ init, a.stop < l.start := by
  simp [Disj, List.pairwise_append]

/-- the chain-style `NormalRanges` of the specification is `Good ∧ Disj` -/
theorem normal_iff (rs : List PRange) : Spec.NormalRanges (toPairs rs) ↔ Good rs ∧ Disj rs := by
  induction rs with
  | nil => simp [toPairs, Spec.NormalRanges, Good, Disj]
  | cons a t ih =>
    cases t with
    | nil => simp [toPairs, Spec.NormalRanges, Good, Disj]
    | cons b t' =>
      have e : toPairs (a :: b :: t') = (a.start, a.stop) :: (b.start, b.stop) :: toPairs t' := rfl
      have e' : toPairs (b :: t') = (b.start, b.stop) :: toPairs t' := rfl
      rw [e, Spec.NormalRanges, ← e', ih, good_cons (a := a), disj_cons (a := a)]
      constructor
      · rintro ⟨h0, h1, h2, hg, hd⟩
        refine ⟨⟨⟨h0, h1⟩, hg⟩, ?_, hd⟩
        intro c hc
        rcases List.mem_cons.1 hc with rfl | hc
        · exact h2
        · have := (disj_cons.1 hd).1 c hc
          have := (good_cons.1 hg).1
          omega
      · rintro ⟨⟨⟨h0, h1⟩, hg⟩, h2, hd⟩
        exact ⟨h0, h1, h2 b (List.mem_cons_self ..), hg, hd⟩

/-! ### `appendNotBefore` -/

theorem exists_snoc_of_ne_nil {rs : List PRange} (h : rs ≠ []) :
    ∃ init last, rs = init ++ [last] := by
  rcases List.eq_nil_or_concat rs with h' | ⟨init, last, h'⟩
  · exact absurd h' h
  · exact ⟨init, last, by rw [h', List.concat_eq_append]⟩

theorem anb_eq (item last : PRange) (init : List PRange) :
    appendNotBefore item (init ++ [last]) =
      .ok (if item.start ≤ last.stop then
             (if item.stop > last.stop then init ++ [{ last with stop := item.stop }]
              else init ++ [last])
           else init ++ [last] ++ [item]) := by
  unfold appendNotBefore
  rw [List.getLast?_concat]
  simp only [List.dropLast_concat]
  split
  · split <;> rfl
  · rfl

/-- everything the proofs need to know about one `appendNotBefore` step -/
theorem anb_spec (item last : PRange) (init : List PRange)
    (h0 : 0 ≤ item.start) (h1 : item.start < item.stop) (hl : last.start ≤ item.start)
    (hg : Good (init ++ [last])) :
    ∃ rs', appendNotBefore item (init ++ [last]) = .ok rs' ∧ rs' ≠ [] ∧ Good rs' ∧
      (∀ x, memR rs' x ↔ memR (init ++ [last]) x ∨ (item.start ≤ x ∧ x < item.stop)) ∧
      (Disj (init ++ [last]) → Disj rs') ∧
      (∀ k, (∀ a ∈ init ++ [last], a.start ≤ k) → item.start ≤ k → ∀ a ∈ rs', a.start ≤ k) := by
  rw [anb_eq]
  rw [good_append, good_singleton] at hg
  obtain ⟨hgi, hgl0, hgl1⟩ := hg
  by_cases c1 : item.start ≤ last.stop
  · by_cases c2 : item.stop > last.stop
    · refine ⟨_, by rw [if_pos c1, if_pos c2], by simp, ?_, ?_, ?_, ?_⟩
      · rw [good_append, good_singleton]
        refine ⟨hgi, hgl0, ?_⟩
        show last.start < item.stop
        omega
      · intro x
        rw [memR_append, memR_append, memR_singleton, memR_singleton]
        show _ ∨ (last.start ≤ x ∧ x < item.stop) ↔ _
        constructor
        · rintro (h | h)
          · exact Or.inl (Or.inl h)
          · by_cases hx : x < last.stop
            · exact Or.inl (Or.inr ⟨h.1, hx⟩)
            · exact Or.inr ⟨by omega, h.2⟩
        · rintro ((h | h) | h)
          · exact Or.inl h
          · exact Or.inr ⟨h.1, by omega⟩
          · exact Or.inr ⟨by omega, h.2⟩
      · rw [disj_snoc, disj_snoc]
        exact fun h => h
      · intro k hk hik a ha
        rcases List.mem_append.1 ha with ha | ha
        · exact hk a (List.mem_append.2 (Or.inl ha))
        · rw [List.mem_singleton] at ha
          subst ha
          exact hk last (List.mem_append.2 (Or.inr (List.mem_singleton.2 rfl)))
    · refine ⟨_, by rw [if_pos c1, if_neg c2], by simp, ?_, ?_, fun h => h, ?_⟩
      · rw [good_append, good_singleton]
        exact ⟨hgi, hgl0, hgl1⟩
      · intro x
        rw [memR_append, memR_singleton]
        constructor
        · exact Or.inl
        · rintro (h | h)
          · exact h
          · exact Or.inr ⟨by omega, by omega⟩
      · intro k hk _ a ha
        exact hk a ha
  · refine ⟨_, by rw [if_neg c1], by simp, ?_, ?_, ?_, ?_⟩
    · rw [good_append, good_append, good_singleton, good_singleton]
      exact ⟨⟨hgi, hgl0, hgl1⟩, h0, h1⟩
    · intro x
      rw [memR_append (l₂ := [item]), memR_singleton]
    · intro hd
      rw [disj_snoc]
      refine ⟨hd, ?_⟩
      rw [disj_snoc] at hd
      intro a ha
      rcases List.mem_append.1 ha with ha | ha
      · have := hd.2 a ha
        omega
      · rw [List.mem_singleton] at ha
        subst ha
        omega
    · intro k hk hik a ha
      rcases List.mem_append.1 ha with ha | ha
      · exact hk a ha
      · rw [List.mem_singleton] at ha
        subst ha
        exact hik

/-! ### the merge pass of `Build` -/

theorem merge_fold (rest : List PRange) : ∀ (acc : List PRange), acc ≠ [] → Good acc → Disj acc →
    Good rest → rest.Pairwise (fun a b => a.start ≤ b.start) →
    (∀ a ∈ acc, ∀ r ∈ rest, a.start ≤ r.start) →
    ∃ r, rest.foldlM (fun acc r => appendNotBefore r acc) acc = .ok r ∧ Good r ∧ Disj r ∧
      ∀ x, memR r x ↔ memR acc x ∨ memR rest x := by
  induction rest with
  | nil =>
    intro acc _ hg hd _ _ _
    exact ⟨acc, rfl, hg, hd, fun x => ⟨Or.inl, fun h => h.elim id (fun h => absurd h (memR_nil x))⟩⟩
  | cons item rest ih =>
    intro acc hne hg hd hgr hs hle
    obtain ⟨init, last, rfl⟩ := exists_snoc_of_ne_nil hne
    rw [good_cons] at hgr
    rw [List.pairwise_cons] at hs
    obtain ⟨rs', e, hne', hg', hm', hd', hk'⟩ :=
      anb_spec item last init hgr.1.1 hgr.1.2
        (hle last (List.mem_append.2 (Or.inr (List.mem_singleton.2 rfl))) item
          (List.mem_cons_self ..)) hg
    obtain ⟨r, er, hgr', hdr, hmr⟩ := ih rs' hne' hg' (hd' hd) hgr.2 hs.2 (by
      intro a ha r hr
      exact hk' r.start (fun a ha => hle a ha r (List.mem_cons_of_mem _ hr)) (hs.1 r hr) a ha)
    refine ⟨r, ?_, hgr', hdr, ?_⟩
    · rw [List.foldlM_cons, e]
      exact er
    · intro x
      rw [hmr, hm', memR_cons]
      constructor
      · rintro ((h | h) | h)
        · exact Or.inl h
        · exact Or.inr (Or.inl h)
        · exact Or.inr (Or.inr h)
      · rintro (h | h | h)
        · exact Or.inl (Or.inl h)
        · exact Or.inl (Or.inr h)
        · exact Or.inr h

theorem mergeSorted_spec (sorted : List PRange) (hne : sorted ≠ []) (hg : Good sorted)
    (hs : sorted.Pairwise (fun a b => a.start ≤ b.start)) :
    ∃ r, mergeSorted sorted = .ok r ∧ Good r ∧ Disj r ∧ ∀ x, memR r x ↔ memR sorted x := by
  cases sorted with
  | nil => exact absurd rfl hne
  | cons r0 rest =>
    rw [good_cons] at hg
    rw [List.pairwise_cons] at hs
    obtain ⟨r, er, hgr, hdr, hmr⟩ := merge_fold rest [r0] (by simp) (good_singleton.2 hg.1)
      (List.pairwise_singleton _ _) hg.2 hs.2 (by
        intro a ha r hr
        rw [List.mem_singleton] at ha
        subst ha
        exact hs.1 r hr)
    refine ⟨r, er, hgr, hdr, ?_⟩
    intro x
    rw [hmr, memR_singleton, memR_cons]

/-! ### the builder invariant -/

structure BuilderInv (b : Builder) : Prop where
  good : Good b.ranges
  sorted : b.unsorted = false → Disj b.ranges
  nonempty : b.unsorted = true → b.ranges ≠ []

theorem inv_empty : BuilderInv {} :=
  ⟨good_nil, fun _ => List.Pairwise.nil, fun h => by cases h⟩

theorem addRange_spec (b : Builder) (s e : Int) (hb : BuilderInv b) :
    ∃ b', b.addRange s e = .ok b' ∧ BuilderInv b' ∧
      ∀ x, memR b'.ranges x ↔ memR b.ranges x ∨ (0 ≤ x ∧ s ≤ x ∧ x < e) := by
  obtain ⟨rs, u⟩ := b
  obtain ⟨hgood, hsorted, hnonempty⟩ := hb
  simp only at hgood hsorted hnonempty
  have hs0 : 0 ≤ (if s < 0 then 0 else s) := by split <;> omega
  have hsx : ∀ x, (if s < 0 then 0 else s) ≤ x ↔ (0 ≤ x ∧ s ≤ x) := by
    intro x; split <;> omega
  unfold Builder.addRange
  simp only []
  generalize (if s < 0 then 0 else s) = s' at hs0 hsx ⊢
  by_cases he : e ≤ s'
  · rw [if_pos he]
    refine ⟨_, rfl, ⟨hgood, hsorted, hnonempty⟩, fun x => ⟨Or.inl, ?_⟩⟩
    rintro (h | ⟨h0, h1, h2⟩)
    · exact h
    · have := (hsx x).2 ⟨h0, h1⟩
      omega
  · rw [if_neg he]
    split
    · rename_i hnone
      rw [List.getLast?_eq_none_iff] at hnone
      subst hnone
      refine ⟨_, rfl, ⟨?_, ?_, ?_⟩, ?_⟩
      · show Good ([] ++ [⟨s', e⟩])
        rw [List.nil_append, good_singleton]
        exact ⟨hs0, by show s' < e; omega⟩
      · intro _
        show Disj ([] ++ [⟨s', e⟩])
        exact List.pairwise_singleton _ _
      · intro _
        show ([] ++ [(⟨s', e⟩ : PRange)]) ≠ []
        simp
      · intro x
        show memR ([] ++ [⟨s', e⟩]) x ↔ _
        rw [List.nil_append, memR_singleton]
        show (s' ≤ x ∧ x < e) ↔ _
        rw [hsx]
        constructor
        · rintro ⟨⟨h0, h1⟩, h2⟩; exact Or.inr ⟨h0, h1, h2⟩
        · rintro (h | ⟨h0, h1, h2⟩)
          · exact absurd h (memR_nil x)
          · exact ⟨⟨h0, h1⟩, h2⟩
    · rename_i last hsome
      obtain ⟨init, rfl⟩ := List.getLast?_eq_some_iff.1 hsome
      by_cases hlt : s' < last.start
      · rw [if_pos hlt]
        refine ⟨_, rfl, ⟨?_, ?_, ?_⟩, ?_⟩
        · show Good (init ++ [last] ++ [⟨s', e⟩])
          rw [good_append, good_singleton]
          exact ⟨hgood, hs0, by show s' < e; omega⟩
        · intro h; cases h
        · intro _
          show (init ++ [last] ++ [(⟨s', e⟩ : PRange)]) ≠ []
          simp
        · intro x
          show memR (init ++ [last] ++ [⟨s', e⟩]) x ↔ _
          rw [memR_append (l₂ := [⟨s', e⟩]), memR_singleton]
          show _ ∨ (s' ≤ x ∧ x < e) ↔ _
          rw [hsx]
          constructor
          · rintro (h | ⟨⟨h0, h1⟩, h2⟩)
            · exact Or.inl h
            · exact Or.inr ⟨h0, h1, h2⟩
          · rintro (h | ⟨h0, h1, h2⟩)
            · exact Or.inl h
            · exact Or.inr ⟨⟨h0, h1⟩, h2⟩
      · rw [if_neg hlt]
        obtain ⟨rs', e', hne', hg', hm', hd', _⟩ :=
          anb_spec ⟨s', e⟩ last init hs0 (by show s' < e; omega) (by show last.start ≤ s'; omega)
            hgood
        rw [e']
        refine ⟨_, rfl, ⟨hg', fun h => hd' (hsorted h), fun _ => hne'⟩, ?_⟩
        intro x
        show memR rs' x ↔ _
        rw [hm']
        show _ ∨ (s' ≤ x ∧ x < e) ↔ _
        rw [hsx]
        constructor
        · rintro (h | ⟨⟨h0, h1⟩, h2⟩)
          · exact Or.inl h
          · exact Or.inr ⟨h0, h1, h2⟩
        · rintro (h | ⟨h0, h1, h2⟩)
          · exact Or.inl h
          · exact Or.inr ⟨⟨h0, h1⟩, h2⟩

theorem add_covers (p x : Int) (h : minInt ≤ p ∧ p ≤ maxInt) :
    (0 ≤ x ∧ p ≤ x ∧ x < wrap64 (p + 1)) ↔ (0 ≤ x ∧ x = p ∧ p ≠ Spec.maxInt) := by
  unfold wrap64
  by_cases c1 : p + 1 > maxInt
  · rw [if_pos c1]
    simp only [minInt, maxInt, Spec.maxInt] at *
    omega
  · rw [if_neg c1]
    by_cases c2 : p + 1 < minInt
    · rw [if_pos c2]
      simp only [minInt, maxInt, Spec.maxInt] at *
      omega
    · rw [if_neg c2]
      simp only [minInt, maxInt, Spec.maxInt] at *
      omega

theorem call_spec (b : Builder) (c : BCall) (hc : BCall.InRange c) (hb : BuilderInv b) :
    ∃ b', b.call c = .ok b' ∧ BuilderInv b' ∧
      ∀ x, memR b'.ranges x ↔ memR b.ranges x ∨ (0 ≤ x ∧ (toSpecCall c).covers x) := by
  cases c with
  | addRange s e => exact addRange_spec b s e hb
  | add p =>
    obtain ⟨b', e, hi, hm⟩ := addRange_spec b p (wrap64 (p + 1)) hb
    refine ⟨b', e, hi, ?_⟩
    intro x
    rw [hm, add_covers p x hc]
    exact Iff.rfl

theorem calls_spec (cs : List BCall) : ∀ (b : Builder), (∀ c ∈ cs, BCall.InRange c) → BuilderInv b →
    ∃ b', b.calls cs = .ok b' ∧ BuilderInv b' ∧
      ∀ x, memR b'.ranges x ↔
        memR b.ranges x ∨ (0 ≤ x ∧ ∃ c ∈ cs.map toSpecCall, c.covers x) := by
  induction cs with
  | nil =>
    intro b _ hb
    refine ⟨b, rfl, hb, fun x => ⟨Or.inl, ?_⟩⟩
    rintro (h | ⟨_, c, hc, _⟩)
    · exact h
    · cases hc
  | cons c cs ih =>
    intro b hcs hb
    obtain ⟨b1, e1, hb1, hm1⟩ := call_spec b c (hcs c (List.mem_cons_self ..)) hb
    obtain ⟨b2, e2, hb2, hm2⟩ := ih b1 (fun c' hc' => hcs c' (List.mem_cons_of_mem _ hc')) hb1
    refine ⟨b2, ?_, hb2, ?_⟩
    · unfold Builder.calls at e2 ⊢
      rw [List.foldlM_cons, e1]
      exact e2
    · intro x
      rw [hm2, hm1, List.map_cons]
      constructor
      · rintro ((h | ⟨h0, h⟩) | ⟨h0, c', hc', h⟩)
        · exact Or.inl h
        · exact Or.inr ⟨h0, _, List.mem_cons_self .., h⟩
        · exact Or.inr ⟨h0, c', List.mem_cons_of_mem _ hc', h⟩
      · rintro (h | ⟨h0, c', hc', h⟩)
        · exact Or.inl (Or.inl h)
        · rcases List.mem_cons.1 hc' with rfl | hc'
          · exact Or.inl (Or.inr ⟨h0, h⟩)
          · exact Or.inr ⟨h0, c', hc', h⟩

theorem buildWith_spec (b : Builder) (hb : BuilderInv b) (sorted : List PRange)
    (hs : IsSortOf sorted b.ranges) :
    ∃ r, b.buildWith sorted = .ok (r, {}) ∧ Spec.NormalRanges (toPairs r) ∧
      ∀ x, Spec.memRanges (toPairs r) x ↔ memR b.ranges x := by
  unfold Builder.buildWith
  by_cases hu : b.unsorted = true
  · have hne : sorted ≠ [] := by
      intro h
      rw [h] at hs
      exact hb.nonempty hu (List.nil_perm.1 hs.1)
    obtain ⟨r, er, hg, hd, hm⟩ :=
      mergeSorted_spec sorted hne ((good_perm hs.1).2 hb.good) hs.2
    refine ⟨r, ?_, (normal_iff r).2 ⟨hg, hd⟩, ?_⟩
    · rw [hu, er]; rfl
    · intro x
      rw [memRanges_toPairs, hm, memR_perm hs.1]
  · have hu' : b.unsorted = false := by
      cases h : b.unsorted
      · rfl
      · exact absurd h hu
    refine ⟨b.ranges, ?_, (normal_iff _).2 ⟨hb.good, hb.sorted hu'⟩, ?_⟩
    · rw [hu']; rfl
    · intro x
      rw [memRanges_toPairs]

/-- C11 main theorem: any sequence of Add/AddRange calls on an empty builder succeeds (no panic),
and Build — whatever permutation the sort produces — returns the normal form of exactly the
non-negative positions added, and resets the builder. -/
theorem calls_build_normal (cs : List BCall) (hcs : ∀ c ∈ cs, BCall.InRange c) :
    ∃ b, ({} : Builder).calls cs = .ok b ∧
      ∀ sorted, IsSortOf sorted b.ranges →
        ∃ r, b.buildWith sorted = .ok (r, {}) ∧
          Spec.NormalRanges (toPairs r) ∧
          ∀ x, Spec.memRanges (toPairs r) x ↔ Spec.memCalls (cs.map toSpecCall) x := by
  obtain ⟨b, e, hb, hm⟩ := calls_spec cs {} hcs inv_empty
  refine ⟨b, e, ?_⟩
  intro sorted hs
  obtain ⟨r, er, hn, hmr⟩ := buildWith_spec b hb sorted hs
  refine ⟨r, er, hn, ?_⟩
  intro x
  rw [hmr, hm]
  unfold Spec.memCalls
  constructor
  · rintro (h | h)
    · exact absurd h (memR_nil x)
    · exact h
  · exact Or.inr

/-- the executable model's Build is one instance -/
theorem calls_build_normal_exec (cs : List BCall) (hcs : ∀ c ∈ cs, BCall.InRange c) :
    ∃ b r, ({} : Builder).calls cs = .ok b ∧ b.build = .ok (r, {}) ∧
      Spec.NormalRanges (toPairs r) ∧
      ∀ x, Spec.memRanges (toPairs r) x ↔ Spec.memCalls (cs.map toSpecCall) x := by
  obtain ⟨b, e, h⟩ := calls_build_normal cs hcs
  obtain ⟨r, er, hn, hm⟩ := h (sortByStart b.ranges) (sortByStart_isSort b.ranges)
  exact ⟨b, r, e, er, hn, hm⟩

/-! ### uniqueness of normal forms -/

theorem memRanges_nil (x : Int) : ¬ Spec.memRanges [] x := by
  rintro ⟨r, hr, _⟩; cases hr

theorem memRanges_cons {p : Int × Int} {l : List (Int × Int)} {x : Int} :
    Spec.memRanges (p :: l) x ↔ (p.1 ≤ x ∧ x < p.2) ∨ Spec.memRanges l x := by
  simp [Spec.memRanges]

theorem normal_cons {s e : Int} {l : List (Int × Int)} (h : Spec.NormalRanges ((s, e) :: l)) :
    0 ≤ s ∧ s < e ∧ Spec.NormalRanges l := by
  cases l with
  | nil => exact ⟨h.1, h.2, trivial⟩
  | cons p l' =>
    obtain ⟨s', e'⟩ := p
    exact ⟨h.1, h.2.1, h.2.2.2⟩

theorem normal_lower (l : List (Int × Int)) : ∀ (s e : Int), Spec.NormalRanges ((s, e) :: l) →
    ∀ x, Spec.memRanges ((s, e) :: l) x → s ≤ x := by
  induction l with
  | nil =>
    intro s e _ x hx
    rcases memRanges_cons.1 hx with h | h
    · exact h.1
    · exact absurd h (memRanges_nil x)
  | cons p l' ih =>
    obtain ⟨s', e'⟩ := p
    intro s e hn x hx
    rcases memRanges_cons.1 hx with h | h
    · exact h.1
    · have h1 : s < e := hn.2.1
      have h2 : e < s' := hn.2.2.1
      have := ih s' e' hn.2.2.2 x h
      omega

theorem normal_gap {s e : Int} {l : List (Int × Int)} (hn : Spec.NormalRanges ((s, e) :: l)) :
    ∀ x, Spec.memRanges l x → e < x := by
  cases l with
  | nil => intro x hx; exact absurd hx (memRanges_nil x)
  | cons p l' =>
    obtain ⟨s', e'⟩ := p
    intro x hx
    have h2 : e < s' := hn.2.2.1
    have := normal_lower l' s' e' hn.2.2.2 x hx
    omega

/-- normal forms are unique: the result does not depend on which sorted permutation was used,
nor on the order or grouping of the calls -/
theorem normal_unique (r₁ r₂ : List (Int × Int)) (h₁ : Spec.NormalRanges r₁) (h₂ : Spec.NormalRanges r₂)
    (h : ∀ x, Spec.memRanges r₁ x ↔ Spec.memRanges r₂ x) : r₁ = r₂ := by
  induction r₁ generalizing r₂ with
  | nil =>
    cases r₂ with
    | nil => rfl
    | cons p l =>
      obtain ⟨s, e⟩ := p
      have hc := normal_cons h₂
      exact absurd ((h s).2 (memRanges_cons.2 (Or.inl ⟨Int.le_refl _, hc.2.1⟩))) (memRanges_nil s)
  | cons p₁ l₁ ih =>
    obtain ⟨s₁, e₁⟩ := p₁
    have hc₁ := normal_cons h₁
    cases r₂ with
    | nil =>
      exact absurd ((h s₁).1 (memRanges_cons.2 (Or.inl ⟨Int.le_refl _, hc₁.2.1⟩)))
        (memRanges_nil s₁)
    | cons p₂ l₂ =>
      obtain ⟨s₂, e₂⟩ := p₂
      have hc₂ := normal_cons h₂
      have hin : ∀ {s e : Int} {l : List (Int × Int)} {x : Int}, s ≤ x → x < e →
          Spec.memRanges ((s, e) :: l) x := fun hs he => memRanges_cons.2 (Or.inl ⟨hs, he⟩)
      -- the first ranges start at the common minimum
      have hs : s₁ = s₂ := by
        have a := normal_lower l₂ s₂ e₂ h₂ s₁ ((h s₁).1 (hin (Int.le_refl _) hc₁.2.1))
        have b := normal_lower l₁ s₁ e₁ h₁ s₂ ((h s₂).2 (hin (Int.le_refl _) hc₂.2.1))
        omega
      subst hs
      -- `e` itself is not a member
      have hnot : ∀ {s e : Int} {l : List (Int × Int)}, Spec.NormalRanges ((s, e) :: l) →
          ¬ Spec.memRanges ((s, e) :: l) e := by
        intro s e l hn hm
        rcases memRanges_cons.1 hm with hm | hm
        · exact absurd hm.2 (Int.lt_irrefl _)
        · exact absurd (normal_gap hn e hm) (Int.lt_irrefl _)
      have he : e₁ = e₂ := by
        rcases Int.lt_trichotomy e₁ e₂ with hlt | heq | hgt
        · exact absurd ((h e₁).2 (hin (Int.le_of_lt hc₁.2.1) hlt)) (hnot h₁)
        · exact heq
        · exact absurd ((h e₂).1 (hin (Int.le_of_lt hc₂.2.1) hgt)) (hnot h₂)
      subst he
      have ht : l₁ = l₂ := by
        apply ih l₂ hc₁.2.2 hc₂.2.2
        intro x
        constructor
        · intro hx
          have hgt := normal_gap h₁ x hx
          rcases memRanges_cons.1 ((h x).1 (memRanges_cons.2 (Or.inr hx))) with h' | h'
          · have := h'.2
            exact absurd hgt (by simp only at this; omega)
          · exact h'
        · intro hx
          have hgt := normal_gap h₂ x hx
          rcases memRanges_cons.1 ((h x).2 (memRanges_cons.2 (Or.inr hx))) with h' | h'
          · have := h'.2
            exact absurd hgt (by simp only at this; omega)
          · exact h'
      rw [ht]

/-- `End()` is the largest position plus one, or 0 when empty -/
theorem positionsEnd_spec (r : List PRange) (h : Spec.NormalRanges (toPairs r)) :
    (r = [] → positionsEnd r = 0) ∧
    (r ≠ [] → Spec.memRanges (toPairs r) (positionsEnd r - 1)) ∧
    (∀ x, Spec.memRanges (toPairs r) x → x < positionsEnd r) := by
  rw [normal_iff] at h
  obtain ⟨hg, hd⟩ := h
  rcases List.eq_nil_or_concat r with rfl | ⟨init, l, rfl⟩
  · exact ⟨fun _ => rfl, fun h => absurd rfl h, fun x hx => absurd hx (memRanges_nil x)⟩
  · rw [List.concat_eq_append] at *
    have hpe : positionsEnd (init ++ [l]) = l.stop := by
      unfold positionsEnd
      rw [List.getLast?_concat]
    rw [hpe]
    rw [good_append, good_singleton] at hg
    rw [disj_snoc] at hd
    refine ⟨fun h => absurd h (by simp), fun _ => ?_, fun x hx => ?_⟩
    · rw [memRanges_toPairs, memR_append, memR_singleton]
      exact Or.inr ⟨by omega, by omega⟩
    · rw [memRanges_toPairs, memR_append, memR_singleton] at hx
      rcases hx with ⟨a, ha, hx⟩ | hx
      · have := hd.2 a ha
        omega
      · omega

/-- `UpTo(e)` / `Between(s, e)` are the single-AddRange normal forms -/
theorem between_spec (s e : Int) :
    ∃ r, between s e = .ok r ∧ Spec.NormalRanges (toPairs r) ∧
      ∀ x, Spec.memRanges (toPairs r) x ↔ (0 ≤ x ∧ s ≤ x ∧ x < e) := by
  obtain ⟨b, e1, hb, hm⟩ := addRange_spec {} s e inv_empty
  obtain ⟨r, e2, hn, hmr⟩ := buildWith_spec b hb _ (sortByStart_isSort b.ranges)
  refine ⟨r, ?_, hn, ?_⟩
  · unfold between
    rw [e1]
    show (b.build >>= fun r => pure r.1) = _
    unfold Builder.build
    rw [e2]
    rfl
  · intro x
    rw [hmr, hm]
    constructor
    · rintro (h | h)
      · exact absurd h (memR_nil x)
      · exact h
    · exact Or.inr

theorem upTo_spec (e : Int) :
    ∃ r, upTo e = .ok r ∧ Spec.NormalRanges (toPairs r) ∧
      ∀ x, Spec.memRanges (toPairs r) x ↔ (0 ≤ x ∧ x < e) := by
  obtain ⟨r, e1, hn, hm⟩ := between_spec 0 e
  refine ⟨r, e1, hn, ?_⟩
  intro x
  rw [hm]
  constructor
  · rintro ⟨h0, _, h1⟩; exact ⟨h0, h1⟩
  · rintro ⟨h0, h1⟩; exact ⟨h0, h0, h1⟩

/-- Build leaves the builder empty (whatever it returns) -/
theorem build_resets (b : Builder) (sorted : List PRange) (r : List PRange) (b' : Builder)
    (h : b.buildWith sorted = .ok (r, b')) : b' = {} := by
  unfold Builder.buildWith at h
  split at h
  · exact (Prod.mk.inj (Except.ok.inj h)).2.symm
  · cases hm : mergeSorted sorted with
    | error p => rw [hm] at h; cases h
    | ok r' =>
      rw [hm] at h
      exact (Prod.mk.inj (Except.ok.inj h)).2.symm

end Sqroot.Proofs

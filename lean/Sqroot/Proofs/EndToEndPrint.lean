/-
`Fwrite` end to end (v3): kept apart from the formatting / search compositions of
`Proofs/EndToEnd.lean` so that the checks of C08, C09 and C15 do not depend on the printer proofs.
-/
import Sqroot.Proofs.EndToEnd
import Sqroot.Proofs.Print
namespace Sqroot.Proofs
open Sqroot.Model

namespace E2E

theorem windowList_asc (len : Option Nat) (digit : Nat → Nat) (w : Spec.Win) (take : Nat) :
    StrictAsc (Spec.windowList len digit w take) := by
  unfold StrictAsc Spec.windowList
  simp only
  rw [List.pairwise_map]
  exact List.pairwise_lt_range'

end E2E

open E2E ViewL

/-- C10 end to end for Fwrite: a finite view of `size` digits is written as the canonical layout
of all its positions, label width taken from its last position -/
theorem fwrite_end_to_end (c : MemoCfg) (m : Memo) (b v : Val3) (chain : List ViewOp) (size : Nat)
    (s : PSettings) (w : Nat → List Nat → Nat × Bool × Nat) (st : Nat) (hw : Reliable w)
    (hb : IsBase3 b) (hv : applyChain3 b chain = some v) (hfin : v.assertsFiniteSeq = true)
    (hsize : Spec.windowSize m.src.len (Spec.winOf (chain.map toSpecOp)) = some size)
    (hfit : Fits c m.src (Spec.winOf (chain.map toSpecOp)) (size + 1))
    (hd : ∀ p, m.src.digit p ≤ 9) :
    let shown := Spec.windowList m.src.len m.src.digit (Spec.winOf (chain.map toSpecOp)) size
    let endP : Int := match shown.getLast? with | some (p, _) => (p : Int) + 1 | none => 0
    ∃ r, fwrite3 c m { w := w, st := st } s v size = some (.ok r) ∧
      r.accepted = Spec.layout (toPOpts .v3 s endP) shown ∧
      r.written = r.accepted.length ∧ r.err = false := by
  intro shown endP
  have hbk := backward_chain3 c m b v chain 1 size hb hv hsize (fits_mono hfit (Nat.le_succ _))
  have hsrc := backward_src c m v 1
  have hfit1 : Fits c (v.backward c m 1).1.src (Spec.winOf (chain.map toSpecOp)) (size + 1) := by
    rw [hsrc]; exact hfit
  obtain ⟨m2, hfw, _⟩ := forward_chain3 c (v.backward c m 1).1 b v chain (size + 1) hb hv hfit1
  rw [hsrc, windowList_ge_size _ _ _ size (size + 1) hsize (Nat.le_succ _)] at hfw
  have hmax : (v.backward c m 1).2.head? = shown.getLast? := by
    rw [hbk, List.head?_take, if_neg (by omega), List.head?_reverse]
  obtain ⟨r, hr, h1, h2, h3, _⟩ := print_layout .v3 s endP [shown] w st hw
    (by simpa using windowList_asc _ _ _ _)
    (by
      intro x hx
      simp only [List.flatten_cons, List.flatten_nil, List.append_nil] at hx
      rw [windowList_digit _ _ _ _ x hx]; exact hd _)
  refine ⟨r, ?_, by simpa using h1, h2, h3⟩
  unfold fwrite3
  rw [hfin]
  simp only [Bool.not_true, Bool.false_eq_true, if_false]
  rw [hfw]
  simp only
  rw [hmax]
  exact congrArg some hr

end Sqroot.Proofs

/-
C12 for v1 / v2 (pull iterators with one digit of look-ahead): requests to the memoizer when the
writer fails (Model/Fprint.lean: `rangeFault12`, `rangesFault12`, `fprintFault12`).
-/
import Sqroot.Model.Fprint
import Sqroot.Proofs.FprintFault
namespace Sqroot.Proofs
open Sqroot.Model

namespace FF12

/-- one call of the v1/v2 closure: nothing delivered → the memoizer is untouched; otherwise the
index advances by one and the only possible request is `wait (index + 1)` -/
theorem pull12_step (c : MemoCfg) (m : Memo) (it : PullIt) :
    ((m.pull12 c it).2.2 = none ∧ (m.pull12 c it).1 = m) ∨
    ((∃ x, (m.pull12 c it).2.2 = some x) ∧ (m.pull12 c it).2.1.index = it.index + 1 ∧
      ((m.pull12 c it).1.maxLength = m.maxLength ∨
        (m.pull12 c it).1.maxLength ≤ blockUp c (it.index + 1))) := by
  unfold Memo.pull12
  split
  · left; exact ⟨rfl, rfl⟩
  · right
    simp only
    split
    · exact ⟨⟨_, rfl⟩, rfl, FF.wait_blockUp c m (it.index + 1)⟩
    · exact ⟨⟨_, rfl⟩, rfl, Or.inl rfl⟩

/-- the loop of calls never asks beyond position `it.index + take` -/
theorem pullLoop12_demand (c : MemoCfg) (lim : Option Int) (B N : Nat) :
    ∀ (take : Nat) (m : Memo) (it : PullIt) (acc : List (Nat × Nat)),
      it.index + take ≤ N → m.maxLength ≤ max B (blockUp c N) →
      (pullLoop12 c take m it lim acc).1.maxLength ≤ max B (blockUp c N) := by
  intro take
  induction take with
  | zero => intro m it acc _ hB; simpa [pullLoop12] using hB
  | succ take ih =>
    intro m it acc hN hB
    have body : (match m.pull12 c it with
        | (m', it', r) =>
          match r with
          | none => (m', acc.reverse)
          | some x => pullLoop12 c take m' it' lim (x :: acc)).1.maxLength ≤ max B (blockUp c N) := by
      rcases pull12_step c m it with ⟨hr, hm⟩ | ⟨⟨x, hr⟩, hi, hm⟩
      · rcases hp : m.pull12 c it with ⟨m', it', r⟩
        rw [hp] at hr hm
        simp only at hr hm
        subst hr hm
        exact hB
      · rcases hp : m.pull12 c it with ⟨m', it', r⟩
        rw [hp] at hr hi hm
        simp only at hr hi hm
        subst hr
        simp only
        apply ih
        · omega
        · have : blockUp c (it.index + 1) ≤ blockUp c N := FF.blockUp_mono c (by omega)
          omega
    unfold pullLoop12
    cases lim with
    | none => exact body
    | some l =>
      simp only
      split
      · exact hB
      · exact body

end FF12

/-- A12. `take` calls of the inner iterator started at `index` demand at most what delivering
position `index + take` needs (each call waits for at most the next position) -/
theorem iterate12_demand (c : MemoCfg) (m : Memo) (sp : VSpec) (index take : Nat) :
    (spec12Iterate c m sp index take).1.maxLength ≤ max m.maxLength (blockUp c (index + take)) := by
  have hnew : ∀ idx, idx ≤ index →
      (m.newPull12 c idx).1.maxLength ≤ max m.maxLength (blockUp c (index + take)) ∧
      (m.newPull12 c idx).2.index = idx := by
    intro idx hidx
    refine ⟨?_, rfl⟩
    have hb : blockUp c idx ≤ blockUp c (index + take) := FF.blockUp_mono c (by omega)
    have := FF.wait_blockUp c m idx
    simp only [Memo.newPull12]
    omega
  unfold spec12Iterate
  split
  · exact Nat.le_max_left _ _
  · obtain ⟨h1, h2⟩ := hnew index (Nat.le_refl _)
    exact FF12.pullLoop12_demand c none m.maxLength (index + take) take _ _ [] (Nat.le_refl _) h1
  · rename_i l
    obtain ⟨h1, h2⟩ := hnew (if (index : Int) > l then l.toNat else index) (by split <;> omega)
    exact FF12.pullLoop12_demand c (some l) m.maxLength (index + take) take _ _ []
      (by show (if (index : Int) > l then l.toNat else index) + take ≤ index + take; split <;> omega) h1

/-- B12. once the printer has latched an error, the remaining ranges request nothing (no iterator
is even created: the loop over the ranges is left — the repair f037092) -/
theorem ranges_after_error12 (c : MemoCfg) (m : Memo) (pr : Printer) (v : Val12) (rs : List PRange)
    (herr : pr.raw.err = true) (res : Memo × Printer) (h : rangesFault12 c m pr v rs = some (.ok res)) :
    res = (m, pr) := by
  induction rs with
  | nil =>
    simp only [rangesFault12, Option.some.injEq, Except.ok.injEq] at h
    exact h.symm
  | cons r rs ih =>
    have hr : ∀ x, rangeFault12 c m pr v r = some (.ok x) → x = (m, pr) := by
      intro x hx
      unfold rangeFault12 at hx
      split at hx
      · split at hx
        · rw [if_pos (by simp [RawPrinter.canConsume, herr])] at hx
          simp only [Option.some.injEq, Except.ok.injEq] at hx
          exact hx.symm
        · cases hx
      · cases hx
    unfold rangesFault12 at h
    split at h
    · cases h
    · cases h
    · rename_i m1 pr1 h1
      have := hr _ h1
      simp only [Prod.mk.injEq] at this
      rw [this.1, this.2] at h
      exact ih h

/-- D12. the range during which the error is latched: at least one digit reached the printer, and
with `j` digits handed over the iterator was called `j + 1` times: the demand afterwards is at most
what delivering position `start + j + 1` needs, where `start` is the first position of the
range's view — two positions beyond the last digit printed, nothing more -/
theorem range_fault_prompt_stop12 (c : MemoCfg) (m : Memo) (pr : Printer) (v v1 v2 : Val12) (r : PRange)
    (m' : Memo) (pr' : Printer)
    (h1 : v.apply (.withStart r.start) = some (.ok v1)) (h2 : v1.apply (.withEnd r.stop) = some (.ok v2))
    (h : rangeFault12 c m pr v r = some (.ok (m', pr')))
    (hok : pr.raw.err = false) (herr : pr'.raw.err = true) :
    pr.pulled < pr'.pulled ∧
    m'.maxLength ≤ max m.maxLength (blockUp c (v2.start.toNat + (pr'.pulled - pr.pulled) + 1)) := by
  unfold rangeFault12 at h
  simp only [h1, h2] at h
  rw [if_neg (by simp [RawPrinter.canConsume, hok])] at h
  split at h
  · cases h
  · rename_i pr1 hfeed
    split at h
    · rename_i hcan
      simp only [Option.some.injEq, Except.ok.injEq, Prod.mk.injEq] at h
      rw [h.2] at hcan
      simp [RawPrinter.canConsume, herr] at hcan
    · simp only [Option.some.injEq, Except.ok.injEq, Prod.mk.injEq] at h
      obtain ⟨rfl, rfl⟩ := h
      obtain ⟨_, _, hlt⟩ := FF.feed_pulled _ pr pr1 hfeed
      refine ⟨hlt hok herr, ?_⟩
      have := iterate12_demand c m v2.spec v2.start.toNat (pr1.pulled - pr.pulled + 1)
      rw [← Nat.add_assoc] at this
      exact this

end Sqroot.Proofs

/-
Lemmas about the `bufio.Writer` model: a tiny Hoare-style framework for `Except Panic`, the
invariant `BInv` ("accepted ++ buffered is a prefix of what was handed in, equal to it while no
error is latched"), and the specification of flush / Write / WriteString / WriteByte / WriteRune
with respect to it, including termination (no `outOfFuel`) for writers that do not stall.
-/
import Sqroot.Model.Bufio
namespace Sqroot.Proofs.Prt
open Sqroot.Model

/-! ### Hoare-style reasoning for `Except Panic` -/

/-- `Sp N x Q`: if `N` holds then `x` returns; whenever `x` returns `a`, `Q a` holds -/
def Sp {α : Type} (N : Prop) (x : Except Panic α) (Q : α → Prop) : Prop :=
  (N → ∃ a, x = .ok a) ∧ (∀ a, x = .ok a → Q a)

theorem Sp.ok {α : Type} {N : Prop} {Q : α → Prop} {a : α} (h : Q a) : Sp N (.ok a) Q :=
  ⟨fun _ => ⟨a, rfl⟩, fun a' e => by cases e; exact h⟩

theorem Sp.pure {α : Type} {N : Prop} {Q : α → Prop} {a : α} (h : Q a) :
    Sp N (Pure.pure a : Except Panic α) Q := Sp.ok h

theorem Sp.bind {α β : Type} {N : Prop} {x : Except Panic α} {f : α → Except Panic β}
    {Q : α → Prop} {R : β → Prop} (hx : Sp N x Q) (hf : ∀ a, Q a → Sp N (f a) R) :
    Sp N (x >>= f) R := by
  cases x with
  | error e =>
    refine ⟨fun n => ?_, fun a h => ?_⟩
    · obtain ⟨a, ha⟩ := hx.1 n; cases ha
    · cases h
  | ok a => exact hf a (hx.2 a rfl)

theorem Sp.mono {α : Type} {N : Prop} {x : Except Panic α} {Q R : α → Prop}
    (hx : Sp N x Q) (h : ∀ a, Q a → R a) : Sp N x R :=
  ⟨hx.1, fun a e => h a (hx.2 a e)⟩

theorem Sp.weakenN {α : Type} {N N' : Prop} {x : Except Panic α} {Q : α → Prop}
    (hx : Sp N x Q) (h : N' → N) : Sp N' x Q :=
  ⟨fun n => hx.1 (h n), hx.2⟩

/-! ### The three hypotheses on underlying writers (definitionally those of `Proofs/Print`) -/

def ReliableW (w : Nat → List Nat → Nat × Bool × Nat) : Prop :=
  ∀ st p, (w st p).1 = p.length ∧ (w st p).2.1 = false

def HonestW (w : Nat → List Nat → Nat × Bool × Nat) : Prop :=
  ∀ st p, (w st p).2.1 = true → (w st p).1 < p.length

def NoStallW (w : Nat → List Nat → Nat × Bool × Nat) : Prop :=
  ∀ st p, p ≠ [] → (w st p).1 = 0 → (w st p).2.1 = true

theorem ReliableW.noStall {w} (h : ReliableW w) : NoStallW w := by
  intro st p hp h0
  have := (h st p).1
  rw [h0] at this
  exact absurd (List.length_eq_zero_iff.mp this.symm) hp

/-! ### `Sink.write` -/

theorem sink_write_w (s : Sink) (p : List Nat) : (s.write p).1.w = s.w := rfl

theorem sink_write_acc (s : Sink) (p : List Nat) :
    (s.write p).1.accepted = s.accepted ++ p.take (s.write p).2.1 := rfl

theorem sink_write_le (s : Sink) (p : List Nat) : (s.write p).2.1 ≤ p.length :=
  Nat.min_le_right _ _

theorem sink_write_honest (s : Sink) (p : List Nat) (h : HonestW s.w)
    (he : (s.write p).2.2 = true) : (s.write p).2.1 < p.length :=
  Nat.lt_of_le_of_lt (Nat.min_le_left _ _) (h s.st p he)

theorem sink_write_reliable (s : Sink) (p : List Nat) (h : ReliableW s.w) :
    (s.write p).2.1 = p.length ∧ (s.write p).2.2 = false := by
  refine ⟨?_, (h s.st p).2⟩
  show min (s.w s.st p).1 p.length = p.length
  rw [(h s.st p).1]; exact Nat.min_self _

theorem sink_write_nostall (s : Sink) (p : List Nat) (h : NoStallW s.w) (hp : p ≠ [])
    (h0 : (s.write p).2.1 = 0) : (s.write p).2.2 = true := by
  apply h s.st p hp
  have h0' : min (s.w s.st p).1 p.length = 0 := h0
  have : 0 < p.length := List.length_pos_iff.mpr hp
  omega

/-! ### The invariant -/

/-- `H` = everything handed to the buffered writer so far (by a caller that stops at the first
error). `Hn` / `Rl` switch on the clauses that need an honest / a reliable underlying writer. -/
structure BInv (Hn Rl : Prop) (w : Nat → List Nat → Nat × Bool × Nat) (b : BufW) (H : List Nat) :
    Prop where
  hw : b.sink.w = w
  pre : b.sink.accepted ++ b.buf <+: H
  eq : b.err = false → b.sink.accepted ++ b.buf = H
  strict : Hn → b.err = true → b.sink.accepted.length < H.length
  rel : Rl → b.err = false

theorem BInv.mono {Hn Rl w b H H'} (h : BInv Hn Rl w b H) (herr : b.err = true) (hp : H <+: H') :
    BInv Hn Rl w b H' where
  hw := h.hw
  pre := List.IsPrefix.trans h.pre hp
  eq := fun e => by rw [herr] at e; cases e
  strict := fun hh e => Nat.lt_of_lt_of_le (h.strict hh e) hp.length_le
  rel := h.rel

theorem BInv.mono_app {Hn Rl w b H} (X : List Nat) (h : BInv Hn Rl w b H) (herr : b.err = true) :
    BInv Hn Rl w b (H ++ X) := h.mono herr (List.prefix_append _ _)

theorem BInv.len {Hn Rl w b H} (h : BInv Hn Rl w b H) (he : b.err = false) :
    b.sink.accepted.length + b.buf.length = H.length := by
  rw [← h.eq he, List.length_append]

theorem bool_not_true {x : Bool} (h : ¬ x = true) : x = false := by
  cases x <;> simp_all

/-- appending to the buffer of a writer without error -/
theorem BInv.push {Hn Rl w b H} (h : BInv Hn Rl w b H) (he : b.err = false) (X : List Nat) :
    BInv Hn Rl w { b with buf := b.buf ++ X } (H ++ X) where
  hw := h.hw
  pre := by
    show b.sink.accepted ++ (b.buf ++ X) <+: H ++ X
    rw [← List.append_assoc, h.eq he]; exact List.prefix_refl _
  eq := fun _ => by
    show b.sink.accepted ++ (b.buf ++ X) = H ++ X
    rw [← List.append_assoc, h.eq he]
  strict := fun _ e => by
    have : b.err = true := e
    rw [he] at this; cases this
  rel := fun _ => he

/-! ### `Flush` -/

theorem flush_eq (b : BufW) : b.flush =
    if b.err then b
    else if b.buf.length = 0 then b
    else
      if ((b.sink.write b.buf).2.2 || decide ((b.sink.write b.buf).2.1 < b.buf.length)) then
        { b with sink := (b.sink.write b.buf).1, buf := b.buf.drop (b.sink.write b.buf).2.1, err := true }
      else { b with sink := (b.sink.write b.buf).1, buf := [] } := rfl

theorem flush_of_err (b : BufW) (h : b.err = true) : b.flush = b := by
  rw [flush_eq, if_pos h]

theorem flush_size (b : BufW) : b.flush.size = b.size := by
  rw [flush_eq]; repeat' split
  all_goals rfl

section
variable {Hn Rl : Prop} {w : Nat → List Nat → Nat × Bool × Nat}
  (hHn : Hn → HonestW w) (hRl : Rl → ReliableW w)
include hHn hRl

theorem flush_spec {b H} (h : BInv Hn Rl w b H) :
    BInv Hn Rl w b.flush H ∧ (b.flush.err = false → b.flush.buf = []) := by
  rw [flush_eq]
  by_cases he : b.err = true
  · rw [if_pos he]; exact ⟨h, fun e => by rw [he] at e; cases e⟩
  rw [if_neg he]
  have he' : b.err = false := bool_not_true he
  by_cases hl : b.buf.length = 0
  · rw [if_pos hl]; exact ⟨h, fun _ => List.length_eq_zero_iff.mp hl⟩
  rw [if_neg hl]
  have hle := sink_write_le b.sink b.buf
  have hacc := sink_write_acc b.sink b.buf
  have heq := h.eq he'
  by_cases hc : ((b.sink.write b.buf).2.2 || decide ((b.sink.write b.buf).2.1 < b.buf.length)) = true
  · rw [if_pos hc]
    have hcont : (b.sink.accepted ++ List.take (b.sink.write b.buf).2.1 b.buf) ++
        List.drop (b.sink.write b.buf).2.1 b.buf = H := by
      rw [List.append_assoc, List.take_append_drop]; exact heq
    refine ⟨⟨h.hw, ?_, (fun e => by cases e), ?_, ?_⟩, (fun e => by cases e)⟩
    · show (b.sink.write b.buf).1.accepted ++ _ <+: H
      rw [hacc, hcont]; exact List.prefix_refl _
    · intro hh _
      show (b.sink.write b.buf).1.accepted.length < H.length
      have hn : (b.sink.write b.buf).2.1 < b.buf.length := by
        rcases Bool.or_eq_true _ _ ▸ hc with h1 | h1
        · exact sink_write_honest b.sink b.buf (h.hw ▸ hHn hh) h1
        · exact of_decide_eq_true h1
      rw [hacc, ← heq]
      simp only [List.length_append, List.length_take]
      omega
    · intro hr
      exfalso
      have := sink_write_reliable b.sink b.buf (h.hw ▸ hRl hr)
      rw [this.1, this.2] at hc
      simp at hc
  · rw [if_neg hc]
    have hc' : (b.sink.write b.buf).2.2 = false ∧ ¬ (b.sink.write b.buf).2.1 < b.buf.length := by
      cases h2 : (b.sink.write b.buf).2.2 <;> simp_all
    have hn : (b.sink.write b.buf).2.1 = b.buf.length := by omega
    have hacc' : (b.sink.write b.buf).1.accepted = b.sink.accepted ++ b.buf := by
      rw [hacc, hn, List.take_length]
    refine ⟨⟨h.hw, ?_, fun _ => ?_, fun _ e => ?_, fun _ => he'⟩, fun _ => rfl⟩
    · show (b.sink.write b.buf).1.accepted ++ [] <+: H
      rw [hacc', List.append_nil, heq]; exact List.prefix_refl _
    · show (b.sink.write b.buf).1.accepted ++ [] = H
      rw [hacc', List.append_nil, heq]
    · have : b.err = true := e
      rw [he'] at this; cases this

/-! ### `Write` -/

omit hHn hRl in
theorem writeLoop_succ (fuel : Nat) (b : BufW) (p : List Nat) (nn : Nat) :
    BufW.writeLoop (fuel + 1) b p nn =
      if p.length > b.available ∧ (!b.err) = true then
        if b.buffered = 0 then
          BufW.writeLoop fuel { b with sink := (b.sink.write p).1, err := (b.sink.write p).2.2 }
            (p.drop (b.sink.write p).2.1) (nn + (b.sink.write p).2.1)
        else
          BufW.writeLoop fuel ({ b with buf := b.buf ++ p.take (min b.available p.length) }).flush
            (p.drop (min b.available p.length)) (nn + min b.available p.length)
      else if b.err then .ok (b, nn)
      else .ok ({ b with buf := b.buf ++ p }, nn + p.length) := rfl

/-- fuel that certainly suffices -/
def need (b : BufW) (p : List Nat) : Nat :=
  if b.err then 1 else 2 * p.length + (if b.buf.length = 0 then 0 else 1) + 1

/-- loop invariant: `T` is everything handed in including the part `p` still to be copied -/
def LI (Hn Rl : Prop) (w : Nat → List Nat → Nat × Bool × Nat) (b : BufW) (p T : List Nat) : Prop :=
  (b.err = true ∧ BInv Hn Rl w b T) ∨ (b.err = false ∧ ∃ H, BInv Hn Rl w b H ∧ H ++ p = T)

omit hHn hRl in
theorem need_err {b : BufW} (p : List Nat) (h : b.err = true) : need b p = 1 := by
  unfold need; rw [if_pos h]

omit hHn hRl in
theorem need_ok {b : BufW} (p : List Nat) (h : b.err = false) :
    need b p = 2 * p.length + (if b.buf.length = 0 then 0 else 1) + 1 := by
  unfold need; rw [h]; rfl

omit hHn hRl in
theorem need_le (b : BufW) (p : List Nat) : need b p ≤ 2 * p.length + 2 := by
  unfold need; split
  · omega
  · split <;> omega

omit hHn hRl in
theorem LI.of_binv {b H} (p : List Nat) (h : BInv Hn Rl w b H) : LI Hn Rl w b p (H ++ p) := by
  cases he : b.err
  · exact .inr ⟨he, H, h, rfl⟩
  · exact .inl ⟨he, h.mono_app p he⟩

omit hHn hRl in
theorem LI.hw {b p T} (h : LI Hn Rl w b p T) : b.sink.w = w := by
  rcases h with ⟨_, h⟩ | ⟨_, _, h, _⟩ <;> exact h.hw

omit hHn hRl in
/-- the final step shared by both copy loops -/
theorem loop_exit {b p T} (h : LI Hn Rl w b p T) :
    (b.err = true → BInv Hn Rl w b T) ∧
    (b.err = false → BInv Hn Rl w { b with buf := b.buf ++ p } T) := by
  rcases h with ⟨he, h⟩ | ⟨he, H, h, rfl⟩
  · exact ⟨fun _ => h, (fun e => by rw [he] at e; cases e)⟩
  · exact ⟨(fun e => by rw [he] at e; cases e), (fun _ => h.push he p)⟩

/-- the copy-and-flush step shared by both loops -/
theorem copy_step {b p T} (h : LI Hn Rl w b p T) (he : b.err = false) (n : Nat) :
    LI Hn Rl w ({ b with buf := b.buf ++ p.take n }).flush (p.drop n) T := by
  rcases h with ⟨he', _⟩ | ⟨_, H, h, rfl⟩
  · rw [he] at he'; cases he'
  have h1 := (flush_spec hHn hRl (h.push he (p.take n))).1
  have hT : H ++ List.take n p ++ List.drop n p = H ++ p := by
    rw [List.append_assoc, List.take_append_drop]
  cases hf : ({ b with buf := b.buf ++ p.take n } : BufW).flush.err
  · exact .inr ⟨hf, _, h1, hT⟩
  · refine .inl ⟨hf, ?_⟩
    rw [← hT]; exact h1.mono_app _ hf

theorem direct_step {b p T} (h : LI Hn Rl w b p T) (he : b.err = false) (hb : b.buf = []) :
    LI Hn Rl w { b with sink := (b.sink.write p).1, err := (b.sink.write p).2.2 }
      (p.drop (b.sink.write p).2.1) T := by
  rcases h with ⟨he', _⟩ | ⟨_, H, h, rfl⟩
  · rw [he] at he'; cases he'
  have hH : b.sink.accepted = H := by
    have := h.eq he; rwa [hb, List.append_nil] at this
  have hle := sink_write_le b.sink p
  have hacc := sink_write_acc b.sink p
  cases hf : (b.sink.write p).2.2
  · refine .inr ⟨rfl, H ++ p.take (b.sink.write p).2.1, ⟨h.hw, ?_, fun _ => ?_, fun _ e => ?_, fun _ => rfl⟩, ?_⟩
    · show (b.sink.write p).1.accepted ++ b.buf <+: _
      rw [hacc, hb, hH, List.append_nil]; exact List.prefix_refl _
    · show (b.sink.write p).1.accepted ++ b.buf = _
      rw [hacc, hb, hH, List.append_nil]
    · cases e
    · rw [List.append_assoc, List.take_append_drop]
  · refine .inl ⟨rfl, ⟨h.hw, ?_, fun e => ?_, fun hh _ => ?_, fun hr => ?_⟩⟩
    · show (b.sink.write p).1.accepted ++ b.buf <+: _
      rw [hacc, hb, hH, List.append_nil]
      exact (List.prefix_append_right_inj H).mpr (List.take_prefix _ p)
    · cases e
    · show (b.sink.write p).1.accepted.length < _
      have := sink_write_honest b.sink p (h.hw ▸ hHn hh) hf
      rw [hacc, hH]
      simp only [List.length_append, List.length_take]
      omega
    · have := (sink_write_reliable b.sink p (h.hw ▸ hRl hr)).2
      rw [hf] at this; cases this

theorem writeLoop_spec {N : Prop} (hN : N → NoStallW w) :
    ∀ (fuel : Nat) (b : BufW) (p : List Nat) (nn : Nat) (T : List Nat), LI Hn Rl w b p T →
      (N → need b p ≤ fuel) →
      Sp N (BufW.writeLoop fuel b p nn)
        (fun r => BInv Hn Rl w r.1 T ∧ r.1.size = b.size ∧ (b.err = true → r.1 = b)) := by
  intro fuel
  induction fuel with
  | zero =>
    intro b p nn T _ hf
    refine ⟨fun n => ?_, fun a e => by cases e⟩
    have := hf n; unfold need at this; split at this <;> omega
  | succ fuel ih =>
    intro b p nn T h hf
    rw [writeLoop_succ]
    by_cases hc : p.length > b.available ∧ (!b.err) = true
    · rw [if_pos hc]
      have he : b.err = false := by simpa using hc.2
      by_cases hb : b.buffered = 0
      · rw [if_pos hb]
        have hb' : b.buf = [] := List.length_eq_zero_iff.mp hb
        refine (ih _ _ _ T (direct_step hHn hRl h he hb') ?_).mono ?_
        · intro n
          have hf := hf n
          have hle := sink_write_le b.sink p
          have hne : p ≠ [] := by
            intro h0; rw [h0] at hc; simp at hc
          have hpos : 0 < p.length := List.length_pos_iff.mpr hne
          have hw : b.sink.w = w := h.hw
          rw [need_ok p he, hb'] at hf
          simp only [List.length_nil, if_true] at hf
          cases hf2 : (b.sink.write p).2.2
          · have : (b.sink.write p).2.1 ≠ 0 := by
              intro h0
              have := sink_write_nostall b.sink p (hw ▸ hN n) hne h0
              rw [hf2] at this; cases this
            rw [need_ok _ rfl]
            simp only [hb', List.length_nil, if_true, List.length_drop]
            omega
          · rw [need_err _ rfl]
            omega
        · rintro r ⟨h1, h2, _⟩
          exact ⟨h1, h2, fun e => by rw [he] at e; cases e⟩
      · rw [if_neg hb]
        refine (ih _ _ _ T (copy_step hHn hRl h he _) ?_).mono ?_
        · intro n
          have hf := hf n
          have hfl := (flush_spec hHn hRl (b := { b with buf := b.buf ++ p.take (min b.available p.length) })
            (H := b.sink.accepted ++ (b.buf ++ p.take (min b.available p.length)))
            ⟨h.hw, List.prefix_refl _, (fun _ => rfl), (fun _ e => by
              have : b.err = true := e
              rw [he] at this; cases this), (fun _ => he)⟩).2
          have hb2 : b.buf.length ≠ 0 := hb
          rw [need_ok p he, if_neg hb2] at hf
          cases hf2 : ({ b with buf := b.buf ++ p.take (min b.available p.length) } : BufW).flush.err
          · rw [need_ok _ hf2, hfl hf2]
            simp only [List.length_nil, if_true, List.length_drop]
            omega
          · rw [need_err _ hf2]
            omega
        · rintro r ⟨h1, h2, _⟩
          exact ⟨h1, by rw [h2, flush_size], fun e => by rw [he] at e; cases e⟩
    · rw [if_neg hc]
      have hx := loop_exit h
      by_cases he : b.err = true
      · rw [if_pos he]
        exact Sp.ok ⟨hx.1 he, rfl, fun _ => rfl⟩
      · rw [if_neg he]
        have he' := bool_not_true he
        exact Sp.ok ⟨hx.2 he', rfl, fun e => absurd e he⟩

theorem write_spec {N : Prop} (hN : N → NoStallW w) {b : BufW} {H : List Nat} (p : List Nat)
    (h : BInv Hn Rl w b H) :
    Sp N (b.write p)
      (fun r => BInv Hn Rl w r.1 (H ++ p) ∧ r.1.size = b.size ∧ (b.err = true → r.1 = b)) := by
  refine writeLoop_spec hHn hRl hN _ _ _ _ _ (LI.of_binv p h) (fun _ => ?_)
  have := need_le b p; omega

/-! ### `WriteString` -/

omit hHn hRl in
theorem writeStringLoop_succ (fuel : Nat) (b : BufW) (p : List Nat) (nn : Nat) :
    BufW.writeStringLoop (fuel + 1) b p nn =
      if p.length > b.available ∧ (!b.err) = true then
        BufW.writeStringLoop fuel ({ b with buf := b.buf ++ p.take (min b.available p.length) }).flush
          (p.drop (min b.available p.length)) (nn + min b.available p.length)
      else if b.err then .ok (b, nn)
      else .ok ({ b with buf := b.buf ++ p }, nn + p.length) := rfl

theorem writeStringLoop_spec {N : Prop} :
    ∀ (fuel : Nat) (b : BufW) (p : List Nat) (nn : Nat) (T : List Nat), LI Hn Rl w b p T →
      1 ≤ b.size → need b p ≤ fuel →
      Sp N (BufW.writeStringLoop fuel b p nn)
        (fun r => BInv Hn Rl w r.1 T ∧ r.1.size = b.size ∧ (b.err = true → r.1 = b)) := by
  intro fuel
  induction fuel with
  | zero =>
    intro b p nn T _ _ hf
    exfalso
    unfold need at hf; split at hf <;> omega
  | succ fuel ih =>
    intro b p nn T h hs hf
    rw [writeStringLoop_succ]
    by_cases hc : p.length > b.available ∧ (!b.err) = true
    · rw [if_pos hc]
      have he : b.err = false := by simpa using hc.2
      refine (ih _ _ _ T (copy_step hHn hRl h he _) (by rw [flush_size]; exact hs) ?_).mono ?_
      · have hfl := (flush_spec hHn hRl (b := { b with buf := b.buf ++ p.take (min b.available p.length) })
          (H := b.sink.accepted ++ (b.buf ++ p.take (min b.available p.length)))
          ⟨h.hw, List.prefix_refl _, (fun _ => rfl), (fun _ e => by
            have : b.err = true := e
            rw [he] at this; cases this), (fun _ => he)⟩).2
        rw [need_ok p he] at hf
        have hav : b.available = b.size - b.buf.length := rfl
        cases hf2 : ({ b with buf := b.buf ++ p.take (min b.available p.length) } : BufW).flush.err
        · rw [need_ok _ hf2, hfl hf2]
          simp only [List.length_nil, if_true, List.length_drop]
          split at hf <;> omega
        · rw [need_err _ hf2]
          omega
      · rintro r ⟨h1, h2, _⟩
        exact ⟨h1, by rw [h2, flush_size], fun e => by rw [he] at e; cases e⟩
    · rw [if_neg hc]
      have hx := loop_exit h
      by_cases he : b.err = true
      · rw [if_pos he]
        exact Sp.ok ⟨hx.1 he, rfl, fun _ => rfl⟩
      · rw [if_neg he]
        have he' := bool_not_true he
        exact Sp.ok ⟨hx.2 he', rfl, fun e => absurd e he⟩

theorem writeString_spec {N : Prop} {b : BufW} {H : List Nat} (p : List Nat)
    (h : BInv Hn Rl w b H) (hs : 1 ≤ b.size) :
    Sp N (b.writeString p)
      (fun r => BInv Hn Rl w r.1 (H ++ p) ∧ r.1.size = b.size ∧ (b.err = true → r.1 = b)) := by
  refine writeStringLoop_spec hHn hRl _ _ _ _ _ (LI.of_binv p h) hs ?_
  have := need_le b p; omega

/-! ### `WriteByte` -/

theorem writeByte_spec {b : BufW} {H : List Nat} (c : Nat) (h : BInv Hn Rl w b H) (hs : 1 ≤ b.size) :
    BInv Hn Rl w (b.writeByte c).1 (H ++ [c]) ∧ (b.writeByte c).1.size = b.size ∧
      (b.writeByte c).2 = (b.writeByte c).1.err ∧ (b.err = true → (b.writeByte c).1 = b) := by
  unfold BufW.writeByte
  by_cases he : b.err = true
  · rw [if_pos he]; exact ⟨h.mono_app _ he, rfl, he.symm, fun _ => rfl⟩
  rw [if_neg he]
  have he' := bool_not_true he
  have hav : ∀ b : BufW, b.available = b.size - b.buf.length := fun _ => rfl
  -- the writer after the optional flush
  have key : ∀ b1 : BufW, BInv Hn Rl w b1 H → b1.size = b.size →
      (b1.err = false → b1.available ≠ 0) →
      BInv Hn Rl w (if b1.err = true then (b1, true) else if b1.available = 0 then (b1, true)
          else ({ b1 with buf := b1.buf ++ [c] }, false)).1 (H ++ [c]) ∧
        (if b1.err = true then (b1, true) else if b1.available = 0 then (b1, true)
          else ({ b1 with buf := b1.buf ++ [c] }, false)).1.size = b.size ∧
        (if b1.err = true then (b1, true) else if b1.available = 0 then (b1, true)
          else ({ b1 with buf := b1.buf ++ [c] }, false)).2 =
        (if b1.err = true then (b1, true) else if b1.available = 0 then (b1, true)
          else ({ b1 with buf := b1.buf ++ [c] }, false)).1.err := by
    intro b1 h1 hs1 hav1
    by_cases he1 : b1.err = true
    · rw [if_pos he1]; exact ⟨h1.mono_app _ he1, hs1, he1.symm⟩
    · rw [if_neg he1, if_neg (hav1 (bool_not_true he1))]
      exact ⟨h1.push (bool_not_true he1) _, hs1, (bool_not_true he1).symm⟩
  by_cases h0 : b.available = 0
  · simp only [if_pos h0]
    have hf := flush_spec hHn hRl h
    have := key b.flush hf.1 (flush_size b) (fun e => by
      rw [hav, hf.2 e, flush_size]; simp only [List.length_nil]; omega)
    exact ⟨this.1, this.2.1, this.2.2, fun e => absurd e he⟩
  · simp only [if_neg h0]
    have := key b h rfl (fun _ => h0)
    simp only [if_neg h0] at this
    exact ⟨this.1, this.2.1, this.2.2, fun e => absurd e he⟩

/-! ### `WriteRune` -/

omit hHn hRl in
theorem encodeRune_ascii (r : Int) (h : 0 ≤ r ∧ r < 0x80) : encodeRune r = [r.toNat] := by
  unfold encodeRune
  rw [if_neg (by omega)]
  simp only
  rw [if_pos (by omega)]

theorem writeRune_spec {N : Prop} {b : BufW} {H : List Nat} (r : Int) (h : BInv Hn Rl w b H)
    (hs : 1 ≤ b.size) :
    Sp N (b.writeRune r)
      (fun x => BInv Hn Rl w x.1 (H ++ encodeRune r) ∧ x.1.size = b.size ∧ x.2 = x.1.err ∧
        (b.err = true → x.1 = b)) := by
  unfold BufW.writeRune
  by_cases hr : 0 ≤ r ∧ r < 0x80
  · rw [if_pos hr, encodeRune_ascii r hr]
    exact Sp.ok (writeByte_spec hHn hRl _ h hs)
  rw [if_neg hr]
  by_cases he : b.err = true
  · rw [if_pos he]; exact Sp.ok ⟨h.mono_app _ he, rfl, he.symm, fun _ => rfl⟩
  rw [if_neg he]
  have he' := bool_not_true he
  have key : ∀ b1 : BufW, BInv Hn Rl w b1 H → b1.size = b.size →
      Sp N (if b1.err = true then .ok (b1, true)
        else if b1.available < 4 then do
          let (b', _) ← b1.writeString (encodeRune r)
          pure (b', b'.err)
        else .ok ({ b1 with buf := b1.buf ++ encodeRune r }, false))
      (fun x => BInv Hn Rl w x.1 (H ++ encodeRune r) ∧ x.1.size = b.size ∧ x.2 = x.1.err ∧
        (b.err = true → x.1 = b)) := by
    intro b1 h1 hs1
    by_cases he1 : b1.err = true
    · rw [if_pos he1]; exact Sp.ok ⟨h1.mono_app _ he1, hs1, he1.symm, fun e => absurd e he⟩
    rw [if_neg he1]
    by_cases h4 : b1.available < 4
    · rw [if_pos h4]
      refine Sp.bind (writeString_spec hHn hRl (encodeRune r) h1 (hs1 ▸ hs)) ?_
      rintro ⟨b', n⟩ ⟨h2, h3, _⟩
      exact Sp.pure ⟨h2, h3.trans hs1, rfl, fun e => absurd e he⟩
    · rw [if_neg h4]
      exact Sp.ok ⟨h1.push (bool_not_true he1) _, hs1, (bool_not_true he1).symm, fun e => absurd e he⟩
  by_cases h0 : b.available < 4
  · simp only [if_pos h0]
    exact key b.flush (flush_spec hHn hRl h).1 (flush_size b)
  · simp only [if_neg h0]
    have := key b h rfl
    simp only [if_neg h0] at this
    exact this

end

end Sqroot.Proofs.Prt

/-
The real printer over `BufW` simulates the ideal printer of `PrintIdeal`: as long as no error is
latched both are in lock step and everything emitted has been handed to the buffered writer; after
an error the real printer is frozen while the ideal output only grows.
-/
import Sqroot.Proofs.BufioLemmas
import Sqroot.Proofs.PrintIdeal
namespace Sqroot.Proofs.Prt
open Sqroot.Model

/-! ### the ideal output only grows -/

theorem iconsume_out_pfx (c : Cfg) (s : IP) (r : Int) : s.out <+: (iconsume c s r).out :=
  List.prefix_append _ _

theorem igap_out_pfx (c : Cfg) (posit : Int) : ∀ (n : Nat) (s : IP), s.out <+: (igap c posit n s).out
  | 0, s => List.prefix_refl _
  | n + 1, s => by
    unfold igap
    split
    · exact (iconsume_out_pfx c s _).trans (igap_out_pfx c posit n _)
    · exact List.prefix_refl _

theorem iskip_out_pfx (c : Cfg) (s : IP) (q : Int) : (iskip c s q).out = s.out := by
  unfold iskip; dsimp only
  split
  · rfl
  · split <;> rfl

theorem ipconsume_out_pfx (c : Cfg) (s : IP) (x : Nat × Nat) : s.out <+: (ipconsume c s x).out := by
  unfold ipconsume
  refine List.IsPrefix.trans ?_ (iconsume_out_pfx c _ _)
  split
  · refine List.IsPrefix.trans ?_ (igap_out_pfx c _ _ _)
    split
    · rw [iskip_out_pfx]; exact List.prefix_refl _
    · exact List.prefix_refl _
  · exact List.prefix_refl _

theorem ifeed_out_pfx (c : Cfg) : ∀ (xs : List (Nat × Nat)) (s : IP), s.out <+: (ifeed c s xs).out
  | [], _ => List.prefix_refl _
  | x :: xs, s => (ipconsume_out_pfx c s x).trans (ifeed_out_pfx c xs _)

theorem ifeed_append (c : Cfg) (s : IP) (xs ys : List (Nat × Nat)) :
    ifeed c s (xs ++ ys) = ifeed c (ifeed c s xs) ys := List.foldl_append

/-! ### the simulation relation -/

structure PRel (Hn Rl : Prop) (w : Nat → List Nat → Nat × Bool × Nat) (c : Cfg) (p : RawPrinter)
    (s : IP) : Prop where
  starter : p.starter = c.starter
  dpr : p.digitsPerRow = c.dpr
  dpc : p.digitsPerColumn = c.dpc
  tlf : p.trailingLineFeed = c.tlf
  size : 1 ≤ p.w.size
  binv : BInv Hn Rl w p.w s.out
  err : p.err = p.w.err
  idx : p.err = false → p.index = s.index ∧ p.indexInRow = s.inRow

theorem PRel.mono {Hn Rl w c p s s'} (h : PRel Hn Rl w c p s) (he : p.err = true)
    (hp : s.out <+: s'.out) : PRel Hn Rl w c p s' where
  starter := h.starter
  dpr := h.dpr
  dpc := h.dpc
  tlf := h.tlf
  size := h.size
  binv := h.binv.mono (h.err ▸ he) hp
  err := h.err
  idx := fun e => by rw [he] at e; cases e

section
variable {Hn Rl : Prop} {w : Nat → List Nat → Nat × Bool × Nat}
  (hHn : Hn → HonestW w) (hRl : Rl → ReliableW w) {N : Prop} (hN : N → NoStallW w)
include hHn hRl hN

/-! ### `rowStarter.Start` -/

theorem start_spec (rs : RowStarter) {b : BufW} {H : List Nat} (index : Int)
    (h : BInv Hn Rl w b H) (hs : 1 ≤ b.size) :
    Sp N (rs.start b index)
      (fun x => BInv Hn Rl w x.1 (H ++ startBytes rs index) ∧ x.1.size = b.size ∧ x.2 = x.1.err) := by
  unfold RowStarter.start startBytes
  by_cases h0 : index = 0
  · rw [if_pos h0, if_pos h0]
    refine Sp.bind (writeString_spec hHn hRl _ h hs) ?_
    rintro ⟨b', n⟩ ⟨h1, h2, _⟩
    exact Sp.pure ⟨h1, h2, rfl⟩
  rw [if_neg h0, if_neg h0]
  by_cases hc : rs.countOn = true
  · rw [if_pos hc, if_pos hc]
    refine Sp.bind (write_spec hHn hRl hN _ h) ?_
    rintro ⟨b', n⟩ ⟨h1, h2, _⟩
    exact Sp.pure ⟨h1, h2, rfl⟩
  · rw [if_neg hc, if_neg hc]
    refine Sp.bind (writeString_spec hHn hRl _ h hs) ?_
    rintro ⟨b', n⟩ ⟨h1, h2, _⟩
    exact Sp.pure ⟨h1, h2, rfl⟩

/-! ### `rawPrinter.Consume` -/

/-- the optional line feed before a row label -/
def nlStep (b : BufW) : Except Panic (BufW × Bool) :=
  if b.sink.bytesWritten + b.buffered > 0 then do
    let (w, _) ← b.write [10]
    pure (w, w.err)
  else pure (b, false)

theorem nlStep_spec {b : BufW} {H : List Nat} (h : BInv Hn Rl w b H) (he : b.err = false) :
    Sp N (nlStep b)
      (fun x => BInv Hn Rl w x.1 (H ++ (if H.length > 0 then [10] else [])) ∧ x.1.size = b.size ∧
        x.2 = x.1.err) := by
  unfold nlStep
  have hl : b.sink.bytesWritten + b.buffered = H.length := h.len he
  rw [hl]
  by_cases hp : H.length > 0
  · rw [if_pos hp, if_pos hp]
    refine Sp.bind (write_spec hHn hRl hN _ h) ?_
    rintro ⟨b', n⟩ ⟨h1, h2, _⟩
    exact Sp.pure ⟨h1, h2, rfl⟩
  · rw [if_neg hp, if_neg hp, List.append_nil]
    exact Sp.pure ⟨h, rfl, he.symm⟩

/-- the three-way prefix of `Consume` -/
def prefixStep (p : RawPrinter) : Except Panic RawPrinter :=
  if p.index = 0 then do
    let (w, e) ← p.starter.start p.w 0
    pure { p with w := w, err := e }
  else if p.digitsPerRow > 0 ∧ Int.tmod p.index p.digitsPerRow = 0 then do
    let (w, e) ← nlStep p.w
    if e then pure { p with w := w, err := true }
    else do
      let (w, e) ← p.starter.start w p.index
      if e then pure { p with w := w, err := true }
      else pure { p with w := w, indexInRow := 0 }
  else if p.digitsPerColumn > 0 ∧ Int.tmod p.indexInRow p.digitsPerColumn = 0 then
    let (w, e) := p.w.writeByte 32
    pure { p with w := w, err := e }
  else pure p

def runeStep (p : RawPrinter) (digit : Int) : Except Panic RawPrinter :=
  if p.err then pure p
  else do
    let (w, e) ← p.w.writeRune digit
    if e then pure { p with w := w, err := true }
    else pure { p with w := w, index := p.index + 1, indexInRow := p.indexInRow + 1 }

omit hHn hRl hN in
theorem consume_eq (p : RawPrinter) (digit : Int) :
    p.consume digit = if (!p.canConsume) = true then .ok p
      else prefixStep p >>= fun p => runeStep p digit := by
  unfold RawPrinter.consume prefixStep nlStep
  split
  · rfl
  · simp only [pure_bind]
    split
    · simp only [bind_assoc, pure_bind]
      apply bind_congr
      rintro ⟨w, e⟩
      rfl
    · split
      · split
        · simp only [bind_assoc, pure_bind]
          apply bind_congr
          rintro ⟨w, e⟩
          dsimp only
          split
          · simp [runeStep]
          · simp only [bind_assoc]
            apply bind_congr
            rintro ⟨w, e⟩
            dsimp only
            split
            · simp [runeStep]
            · simp only [pure_bind]; rfl
        · simp only [pure_bind]
          split
          · simp [runeStep]
          · simp only [bind_assoc]
            apply bind_congr
            rintro ⟨w, e⟩
            dsimp only
            split
            · simp [runeStep]
            · simp only [pure_bind]; rfl
      · split
        · rfl
        · rfl

/-- ideal state between prefix and rune -/
def imid (c : Cfg) (s : IP) : IP := ⟨s.out ++ (ipre c s).1, s.index, (ipre c s).2⟩

omit hHn hRl hN in
theorem iconsume_eq_mid (c : Cfg) (s : IP) (r : Int) :
    iconsume c s r = ⟨(imid c s).out ++ encodeRune r, (imid c s).index + 1, (imid c s).inRow + 1⟩ := by
  unfold iconsume imid
  simp only [List.append_assoc]

omit hHn hRl hN in
theorem ipre_zero (c : Cfg) (s : IP) (h0 : s.index = 0) :
    ipre c s = (startBytes c.starter 0, s.inRow) := by
  unfold ipre; rw [if_pos h0]

omit hHn hRl hN in
theorem ipre_row (c : Cfg) (s : IP) (h0 : ¬ s.index = 0)
    (h1 : c.dpr > 0 ∧ Int.tmod s.index c.dpr = 0) :
    ipre c s = ((if s.out.length > 0 then [10] else []) ++ startBytes c.starter s.index, 0) := by
  unfold ipre; rw [if_neg h0, if_pos h1]

omit hHn hRl hN in
theorem ipre_col (c : Cfg) (s : IP) (h0 : ¬ s.index = 0)
    (h1 : ¬ (c.dpr > 0 ∧ Int.tmod s.index c.dpr = 0))
    (h2 : c.dpc > 0 ∧ Int.tmod s.inRow c.dpc = 0) : ipre c s = ([32], s.inRow) := by
  unfold ipre; rw [if_neg h0, if_neg h1, if_pos h2]

omit hHn hRl hN in
theorem ipre_none (c : Cfg) (s : IP) (h0 : ¬ s.index = 0)
    (h1 : ¬ (c.dpr > 0 ∧ Int.tmod s.index c.dpr = 0))
    (h2 : ¬ (c.dpc > 0 ∧ Int.tmod s.inRow c.dpc = 0)) : ipre c s = ([], s.inRow) := by
  unfold ipre; rw [if_neg h0, if_neg h1, if_neg h2]

theorem prefix_sim {c : Cfg} {p : RawPrinter} {s : IP} (h : PRel Hn Rl w c p s)
    (he : p.err = false) : Sp N (prefixStep p) (fun p1 => PRel Hn Rl w c p1 (imid c s)) := by
  obtain ⟨hi, hir⟩ := h.idx he
  have hwe : p.w.err = false := h.err ▸ he
  have hst := h.starter
  have hdpr := h.dpr
  have hdpc := h.dpc
  unfold prefixStep imid
  by_cases h0 : p.index = 0
  · rw [if_pos h0, ipre_zero c s (hi ▸ h0)]
    refine Sp.bind (start_spec hHn hRl hN p.starter 0 h.binv h.size) ?_
    rintro ⟨b', e⟩ ⟨h1, h2, h3⟩
    rw [hst] at h1
    exact Sp.pure ⟨hst, hdpr, hdpc, h.tlf, h2 ▸ h.size, h1, h3, fun _ => ⟨hi, hir⟩⟩
  rw [if_neg h0]
  by_cases h1 : p.digitsPerRow > 0 ∧ Int.tmod p.index p.digitsPerRow = 0
  · rw [if_pos h1, ipre_row c s (hi ▸ h0) (by rw [← hi, ← hdpr]; exact h1)]
    refine Sp.bind (nlStep_spec hHn hRl hN h.binv hwe) ?_
    rintro ⟨b1, e1⟩ ⟨hb1, hs1, he1⟩
    dsimp only at he1 hs1 hb1 ⊢
    cases hb1e : b1.err
    · -- no error so far: the row starter
      rw [hb1e] at he1
      rw [he1]
      simp only [Bool.false_eq_true, if_false]
      refine Sp.bind (start_spec hHn hRl hN p.starter p.index hb1 (hs1 ▸ h.size)) ?_
      rintro ⟨b2, e2⟩ ⟨hb2, hs2, he2⟩
      rw [hst, hi] at hb2
      dsimp only at he2 hs2 hb2 ⊢
      have hb2' : BInv Hn Rl w b2
          (s.out ++ ((if s.out.length > 0 then [10] else []) ++ startBytes c.starter s.index)) := by
        rw [← List.append_assoc]; exact hb2
      cases hb2e : b2.err
      · rw [hb2e] at he2; rw [he2]
        simp only [Bool.false_eq_true, if_false]
        exact Sp.pure ⟨hst, hdpr, hdpc, h.tlf, by rw [hs2, hs1]; exact h.size, hb2',
          (he.trans hb2e.symm), fun _ => ⟨hi, rfl⟩⟩
      · rw [hb2e] at he2; rw [he2]
        simp only [if_true]
        exact Sp.pure ⟨hst, hdpr, hdpc, h.tlf, by rw [hs2, hs1]; exact h.size, hb2',
          hb2e.symm, fun e => by cases e⟩
    · rw [hb1e] at he1
      rw [he1]
      simp only [if_true]
      refine Sp.pure ⟨hst, hdpr, hdpc, h.tlf, hs1 ▸ h.size, ?_, hb1e.symm, fun e => by cases e⟩
      refine hb1.mono hb1e ?_
      rw [← List.append_assoc]; exact List.prefix_append _ _
  rw [if_neg h1]
  have h1' : ¬ (c.dpr > 0 ∧ Int.tmod s.index c.dpr = 0) := by rw [← hi, ← hdpr]; exact h1
  by_cases h2 : p.digitsPerColumn > 0 ∧ Int.tmod p.indexInRow p.digitsPerColumn = 0
  · rw [if_pos h2, ipre_col c s (hi ▸ h0) h1' (by rw [← hir, ← hdpc]; exact h2)]
    have hb := writeByte_spec hHn hRl 32 h.binv h.size
    exact Sp.pure ⟨hst, hdpr, hdpc, h.tlf, hb.2.1 ▸ h.size, hb.1, hb.2.2.1, fun _ => ⟨hi, hir⟩⟩
  · rw [if_neg h2, ipre_none c s (hi ▸ h0) h1' (by rw [← hir, ← hdpc]; exact h2)]
    refine Sp.pure ⟨hst, hdpr, hdpc, h.tlf, h.size, ?_, h.err, fun _ => ⟨hi, hir⟩⟩
    show BInv Hn Rl w p.w (s.out ++ [])
    rw [List.append_nil]; exact h.binv

omit hN in
theorem rune_sim {c : Cfg} {p : RawPrinter} {s : IP} (r : Int) (h : PRel Hn Rl w c p s) :
    Sp N (runeStep p r)
      (fun p' => PRel Hn Rl w c p' ⟨s.out ++ encodeRune r, s.index + 1, s.inRow + 1⟩) := by
  unfold runeStep
  by_cases he : p.err = true
  · rw [if_pos he]
    exact Sp.pure (h.mono he (List.prefix_append _ _))
  rw [if_neg he]
  have he' := bool_not_true he
  obtain ⟨hi, hir⟩ := h.idx he'
  refine Sp.bind (writeRune_spec hHn hRl r h.binv h.size) ?_
  rintro ⟨b1, e1⟩ ⟨hb1, hs1, he1, _⟩
  dsimp only at he1 hs1 hb1 ⊢
  cases hb1e : b1.err
  · rw [hb1e] at he1; rw [he1]
    simp only [Bool.false_eq_true, if_false]
    exact Sp.pure ⟨h.starter, h.dpr, h.dpc, h.tlf, hs1 ▸ h.size, hb1, he'.trans hb1e.symm,
      fun _ => ⟨by show p.index + 1 = s.index + 1; rw [hi], by
        show p.indexInRow + 1 = s.inRow + 1; rw [hir]⟩⟩
  · rw [hb1e] at he1; rw [he1]
    simp only [if_true]
    exact Sp.pure ⟨h.starter, h.dpr, h.dpc, h.tlf, hs1 ▸ h.size, hb1, hb1e.symm, fun e => by cases e⟩

omit hHn hRl hN in
theorem consume_of_err (p : RawPrinter) (r : Int) (he : p.err = true) : p.consume r = .ok p := by
  rw [consume_eq, if_pos (by simp [RawPrinter.canConsume, he])]

theorem consume_sim {c : Cfg} {p : RawPrinter} {s : IP} (r : Int) (h : PRel Hn Rl w c p s) :
    Sp N (p.consume r) (fun p' => PRel Hn Rl w c p' (iconsume c s r)) := by
  by_cases he : p.err = true
  · rw [consume_of_err p r he]
    exact Sp.ok (h.mono he (iconsume_out_pfx c s r))
  have he' := bool_not_true he
  rw [consume_eq, if_neg (by simp [RawPrinter.canConsume, he'])]
  refine Sp.bind (prefix_sim hHn hRl hN h he') ?_
  intro p1 h1
  rw [iconsume_eq_mid]
  exact rune_sim hHn hRl r h1

/-! ### the gap loop -/

omit hHn hRl hN in
theorem gapLoop_zero (ck : Bool) (m posit : Int) (p : RawPrinter) :
    gapLoop ck m posit 0 p =
      if p.index < posit ∧ ((!ck) = true ∨ p.canConsume = true) then .error .outOfFuel else .ok p := rfl

omit hHn hRl hN in
theorem gapLoop_succ (ck : Bool) (m posit : Int) (n : Nat) (p : RawPrinter) :
    gapLoop ck m posit (n + 1) p =
      if p.index < posit ∧ ((!ck) = true ∨ p.canConsume = true) then
        p.consume m >>= fun p' => gapLoop ck m posit n p'
      else .ok p := rfl

omit hHn hRl hN in
theorem gap_err {ck : Bool} (hck : N → ck = true) (m posit : Int) {p : RawPrinter}
    (he : p.err = true) : ∀ n : Nat, Sp N (gapLoop ck m posit n p) (fun p' => p' = p) := by
  have hcc : p.canConsume = false := by simp [RawPrinter.canConsume, he]
  intro n
  induction n with
  | zero =>
    rw [gapLoop_zero]
    refine ⟨fun hn => ?_, fun a h => ?_⟩
    · rw [if_neg]; exact ⟨p, rfl⟩
      rw [hck hn, hcc]; simp
    · split at h
      · cases h
      · cases h; rfl
  | succ n ih =>
    rw [gapLoop_succ]
    split
    · rw [consume_of_err p m he]; exact ih
    · exact Sp.ok rfl

theorem gap_sim {c : Cfg} {ck : Bool} (hck : N → ck = true) (posit : Int) :
    ∀ (n : Nat) (p : RawPrinter) (s : IP), PRel Hn Rl w c p s →
      (p.err = false → (posit - p.index).toNat ≤ n) →
      Sp N (gapLoop ck c.missing posit n p) (fun p' => PRel Hn Rl w c p' (igap c posit n s)) := by
  intro n
  induction n with
  | zero =>
    intro p s h hf
    by_cases he : p.err = true
    · exact (gap_err hck c.missing posit he 0).mono fun p' hp' => hp' ▸ h.mono he (igap_out_pfx c posit 0 s)
    have he' := bool_not_true he
    have := hf he'
    rw [gapLoop_zero, if_neg (by omega)]
    exact Sp.ok h
  | succ n ih =>
    intro p s h hf
    by_cases he : p.err = true
    · exact (gap_err hck c.missing posit he (n + 1)).mono fun p' hp' =>
        hp' ▸ h.mono he (igap_out_pfx c posit (n + 1) s)
    have he' := bool_not_true he
    obtain ⟨hi, _⟩ := h.idx he'
    have hf' := hf he'
    rw [gapLoop_succ]
    unfold igap
    by_cases hlt : p.index < posit
    · rw [if_pos ⟨hlt, Or.inr (by simp [RawPrinter.canConsume, he'])⟩, if_pos (hi ▸ hlt)]
      refine Sp.bind (consume_sim hHn hRl hN c.missing h) ?_
      intro p1 h1
      refine ih p1 _ h1 ?_
      intro he1
      have := (h1.idx he1).1
      have h2 : (iconsume c s c.missing).index = s.index + 1 := rfl
      omega
    · rw [if_neg (fun hc => hlt hc.1), if_neg (hi ▸ hlt)]
      exact Sp.ok h

/-! ### `skipRowsFor` -/

omit hHn hRl hN in
theorem skip_sim {c : Cfg} {p : RawPrinter} {s : IP} (h : PRel Hn Rl w c p s) (he : p.err = false)
    (q : Int) : PRel Hn Rl w c (p.skipRowsFor q) (iskip c s q) := by
  obtain ⟨hi, hir⟩ := h.idx he
  have hdpr := h.dpr
  have mk : ∀ X : Int, PRel Hn Rl w c { p with index := X } { s with index := X } := fun X =>
    ⟨h.starter, h.dpr, h.dpc, h.tlf, h.size, h.binv, h.err, fun _ => ⟨rfl, hir⟩⟩
  unfold RawPrinter.skipRowsFor iskip
  dsimp only
  rw [← hi, ← hdpr]
  by_cases h1 : p.index.tmod p.digitsPerRow = 0
  · simp only [if_pos h1]; exact mk _
  · simp only [if_neg h1]
    by_cases h2 : q.tdiv p.digitsPerRow > p.index.tdiv p.digitsPerRow
    · simp only [if_pos h2]; exact mk _
    · simp only [if_neg h2]; exact h

/-! ### `printer.Consume`, the feed loop, `Finish` -/

structure PPRel (Hn Rl : Prop) (w : Nat → List Nat → Nat × Bool × Nat) (c : Cfg) (ck : Bool)
    (pr : Printer) (s : IP) : Prop where
  raw : PRel Hn Rl w c pr.raw s
  missing : pr.missingDigit = c.missing
  checks : pr.gapChecksErr = ck

omit hHn hRl hN in
theorem pconsume_eq (pr : Printer) (posit : Int) (digit : Nat) :
    pr.consume posit digit =
      (if pr.raw.index < posit then
        gapLoop pr.gapChecksErr pr.missingDigit posit
          (posit - (if pr.raw.digitsPerRow > 0 ∧ pr.raw.starter.countOn = true
            then pr.raw.skipRowsFor posit else pr.raw).index).toNat
          (if pr.raw.digitsPerRow > 0 ∧ pr.raw.starter.countOn = true
            then pr.raw.skipRowsFor posit else pr.raw)
      else pure pr.raw) >>= fun raw =>
        raw.consume (48 + (digit : Int)) >>= fun raw => pure { pr with raw := raw } := by
  unfold Printer.consume
  dsimp only
  split <;> rfl

theorem pconsume_sim {c : Cfg} {ck : Bool} (hck : N → ck = true) {pr : Printer} {s : IP}
    (h : PPRel Hn Rl w c ck pr s) (he : pr.raw.err = false) (x : Nat × Nat) :
    Sp N (pr.consume x.1 x.2)
      (fun pr' => PPRel Hn Rl w c ck pr' (ipconsume c s x) ∧ pr'.pulled = pr.pulled) := by
  obtain ⟨hi, hir⟩ := h.raw.idx he
  rw [pconsume_eq]
  unfold ipconsume
  refine Sp.bind (Q := fun raw => PRel Hn Rl w c raw
      (if s.index < (x.1 : Int) then
        igap c x.1 ((x.1 : Int) - (if c.dpr > 0 ∧ c.starter.countOn = true then iskip c s x.1 else s).index).toNat
          (if c.dpr > 0 ∧ c.starter.countOn = true then iskip c s x.1 else s)
      else s)) ?_ ?_
  · by_cases hlt : pr.raw.index < (x.1 : Int)
    · rw [if_pos hlt, if_pos (show s.index < (x.1 : Int) from hi ▸ hlt), h.missing, h.checks,
        h.raw.dpr, h.raw.starter]
      have hsk : PRel Hn Rl w c
          (if c.dpr > 0 ∧ c.starter.countOn = true then pr.raw.skipRowsFor x.1 else pr.raw)
          (if c.dpr > 0 ∧ c.starter.countOn = true then iskip c s x.1 else s) := by
        split
        · exact skip_sim h.raw he _
        · exact h.raw
      have hidx : (if c.dpr > 0 ∧ c.starter.countOn = true then pr.raw.skipRowsFor x.1 else pr.raw).index
          = (if c.dpr > 0 ∧ c.starter.countOn = true then iskip c s x.1 else s).index := by
        refine (hsk.idx ?_).1
        split
        · unfold RawPrinter.skipRowsFor; dsimp only
          split
          · exact he
          · split <;> exact he
        · exact he
      rw [hidx]
      exact gap_sim hHn hRl hN hck _ _ _ _ hsk (fun _ => by rw [hidx]; exact Nat.le_refl _)
    · rw [if_neg hlt, if_neg (hi ▸ hlt)]
      exact Sp.pure h.raw
  · intro raw hraw
    refine Sp.bind (consume_sim hHn hRl hN _ hraw) ?_
    intro raw' hraw'
    exact Sp.pure ⟨⟨hraw', h.missing, h.checks⟩, rfl⟩

omit hHn hRl hN in
theorem feed_nil (pr : Printer) : pr.feed [] = .ok pr := rfl

omit hHn hRl hN in
theorem feed_cons (pr : Printer) (x : Nat × Nat) (rest : List (Nat × Nat)) :
    pr.feed (x :: rest) =
      if (!pr.raw.canConsume) = true then .ok pr
      else pr.consume x.1 x.2 >>= fun pr' =>
        Printer.feed { pr' with pulled := pr'.pulled + 1 } rest := rfl

theorem feed_sim {c : Cfg} {ck : Bool} (hck : N → ck = true) :
    ∀ (xs : List (Nat × Nat)) (pr : Printer) (s : IP), PPRel Hn Rl w c ck pr s →
      Sp N (pr.feed xs)
        (fun pr' => PPRel Hn Rl w c ck pr' (ifeed c s xs) ∧
          (pr'.raw.err = false → pr'.pulled = pr.pulled + xs.length) ∧
          (pr.raw.err = true → pr' = pr)) := by
  intro xs
  induction xs with
  | nil =>
    intro pr s h
    rw [feed_nil]
    exact Sp.ok ⟨h, fun _ => rfl, fun _ => rfl⟩
  | cons x rest ih =>
    intro pr s h
    rw [feed_cons]
    by_cases he : pr.raw.err = true
    · rw [if_pos (by simp [RawPrinter.canConsume, he])]
      refine Sp.ok ⟨⟨h.raw.mono he (ifeed_out_pfx c _ s), h.missing, h.checks⟩, fun e => ?_, fun _ => rfl⟩
      rw [he] at e; cases e
    have he' := bool_not_true he
    rw [if_neg (by simp [RawPrinter.canConsume, he'])]
    refine Sp.bind (pconsume_sim hHn hRl hN hck h he' x) ?_
    rintro pr1 ⟨h1, hp1⟩
    refine (ih { pr1 with pulled := pr1.pulled + 1 } _ ⟨h1.raw, h1.missing, h1.checks⟩).mono ?_
    rintro pr2 ⟨h2, hp2, _⟩
    refine ⟨h2, fun e => ?_, fun e => absurd e he⟩
    rw [hp2 e]
    show pr1.pulled + 1 + rest.length = pr.pulled + (rest.length + 1)
    omega

omit hHn hRl hN in
theorem foldlM_cons' (f : Printer → List (Nat × Nat) → Except Panic Printer) (pr : Printer)
    (x : List (Nat × Nat)) (xs : List (List (Nat × Nat))) :
    (x :: xs).foldlM f pr = f pr x >>= fun pr' => xs.foldlM f pr' := List.foldlM_cons

theorem feeds_sim {c : Cfg} {ck : Bool} (hck : N → ck = true) :
    ∀ (feeds : List (List (Nat × Nat))) (pr : Printer) (s : IP), PPRel Hn Rl w c ck pr s →
      Sp N (feeds.foldlM (fun pr f => pr.feed f) pr)
        (fun pr' => PPRel Hn Rl w c ck pr' (ifeed c s feeds.flatten) ∧
          (pr'.raw.err = false → pr'.pulled = pr.pulled + feeds.flatten.length) ∧
          (pr.raw.err = true → pr' = pr)) := by
  intro feeds
  induction feeds with
  | nil =>
    intro pr s h
    exact Sp.pure ⟨h, fun _ => rfl, fun _ => rfl⟩
  | cons f rest ih =>
    intro pr s h
    rw [foldlM_cons']
    refine Sp.bind (feed_sim hHn hRl hN hck f pr s h) ?_
    rintro pr1 ⟨h1, hp1, hq1⟩
    refine (ih pr1 _ h1).mono ?_
    rintro pr2 ⟨h2, hp2, hq2⟩
    rw [List.flatten_cons, ifeed_append]
    refine ⟨h2, fun e => ?_, fun e => ?_⟩
    · -- no error at the end means no error in between
      have he1 : pr1.raw.err = false := by
        cases hh : pr1.raw.err
        · rfl
        · rw [hq2 hh, hh] at e; cases e
      rw [hp2 e, hp1 he1, List.length_append]
      omega
    · have := hq1 e
      rw [this] at hq2
      exact hq2 e

/-! ### `Finish` and the whole run -/

omit hHn hRl hN in
theorem finish_eq (p : RawPrinter) :
    p.finish =
      (if (!p.err) = true ∧ p.trailingLineFeed = true then
        p.w.write [10] >>= fun x => pure { p with w := x.1, err := x.1.err }
      else pure p) >>= fun p =>
        pure { p with w := p.w.flush, err := p.err || p.w.flush.err } := by
  unfold RawPrinter.finish
  dsimp only
  split
  · simp only [bind_assoc, pure_bind]
  · rfl

theorem finish_sim {c : Cfg} {p : RawPrinter} {s : IP} (h : PRel Hn Rl w c p s) :
    Sp N p.finish
      (fun p' => BInv Hn Rl w p'.w (ifinish c s) ∧ p'.err = p'.w.err ∧
        (p'.err = false → p'.w.buf = []) ∧ (p.err = true → p'.err = true)) := by
  rw [finish_eq]
  unfold ifinish
  refine Sp.bind (Q := fun p1 => BInv Hn Rl w p1.w (s.out ++ if c.tlf = true then [10] else []) ∧
      p1.err = p1.w.err ∧ (p.err = true → p1.err = true)) ?_ ?_
  · by_cases hc : (!p.err) = true ∧ p.trailingLineFeed = true
    · rw [if_pos hc, if_pos (h.tlf ▸ hc.2)]
      refine Sp.bind (write_spec hHn hRl hN _ h.binv) ?_
      rintro ⟨b, n⟩ ⟨hb, _, _⟩
      refine Sp.pure ⟨hb, rfl, fun e => ?_⟩
      have := hc.1; rw [e] at this; cases this
    · rw [if_neg hc]
      refine Sp.pure ⟨?_, h.err, fun e => e⟩
      by_cases he : p.err = true
      · exact h.binv.mono_app _ (h.err ▸ he)
      · have : p.trailingLineFeed = false := by
          have he' := bool_not_true he
          cases ht : p.trailingLineFeed
          · rfl
          · exact absurd ⟨by simp [he'], ht⟩ hc
        rw [if_neg (by rw [← h.tlf, this]; simp), List.append_nil]
        exact h.binv
  · rintro p1 ⟨hb, he, hpe⟩
    have hf := flush_spec hHn hRl hb
    refine Sp.pure ⟨hf.1, ?_, ?_, fun e => by
      show (p1.err || p1.w.flush.err) = true
      rw [hpe e]; rfl⟩
    · show (p1.err || p1.w.flush.err) = p1.w.flush.err
      cases h1 : p1.err
      · rfl
      · rw [flush_of_err _ (he ▸ h1), ← he, h1]; rfl
    · intro e
      have e' : (p1.err || p1.w.flush.err) = false := e
      have : p1.w.flush.err = false := by
        cases h2 : p1.w.flush.err
        · rfl
        · rw [h2, Bool.or_true] at e'; cases e'
      exact hf.2 this

end

theorem gapChecksErrOf_true (v : Version) : gapChecksErrOf v = true := by
  cases v <;> rfl

/-- summary of a run -/
theorem run_spec {Hn Rl : Prop} {w : Nat → List Nat → Nat × Bool × Nat}
    (hHn : Hn → HonestW w) (hRl : Rl → ReliableW w) {N : Prop} (hN : N → NoStallW w)
    (v : Version) (hck : N → gapChecksErrOf v = true) (st : Nat) (maxDigits : Int) (s : PSettings)
    (feeds : List (List (Nat × Nat))) :
    Sp N (printRun v { w := w, st := st } maxDigits s feeds)
      (fun r => ∃ b : BufW, BInv Hn Rl w b (emit (cfgOf v s maxDigits) feeds.flatten) ∧
        r.accepted = b.sink.accepted ∧ r.written = r.accepted.length ∧ r.err = b.err ∧
        (b.err = false → b.buf = []) ∧ (b.err = false → r.pulled = feeds.flatten.length)) := by
  have h0 : PPRel Hn Rl w (cfgOf v s maxDigits) (gapChecksErrOf v)
      (newPrinter v { w := w, st := st } maxDigits s) IP.init := by
    refine ⟨⟨rfl, rfl, rfl, rfl, ?_, ⟨rfl, List.prefix_refl _, (fun _ => rfl), (fun _ e => by cases e),
      (fun _ => rfl)⟩, rfl, fun _ => ⟨rfl, rfl⟩⟩, rfl, rfl⟩
    show 1 ≤ (newBufW s.bufferSize _).size
    unfold newBufW; dsimp only
    split <;> omega
  unfold printRun
  refine Sp.bind (feeds_sim hHn hRl hN hck feeds _ _ h0) ?_
  rintro pr ⟨hpr, hpul, _⟩
  refine Sp.bind (finish_sim hHn hRl hN hpr.raw) ?_
  rintro raw ⟨hb, he, hbuf, hpe⟩
  refine Sp.pure ⟨raw.w, hb, rfl, rfl, he, fun e => hbuf (he ▸ e), fun e => ?_⟩
  -- no error after `Finish` means none before
  have : pr.raw.err = false := by
    cases hh : pr.raw.err
    · rfl
    · have := hpe hh; rw [he, e] at this; cases this
  have := hpul this
  rw [this]
  show 0 + _ = _
  omega

/-! ### prompt latch (no assumption on the writer or the buffer size) -/

theorem bind_ok {α β : Type} {x : Except Panic α} {f : α → Except Panic β} {b : β}
    (h : x >>= f = .ok b) : ∃ a, x = .ok a ∧ f a = .ok b := by
  cases x with
  | error e => cases h
  | ok a => exact ⟨a, rfl, h⟩

theorem writeByte_latch (b : BufW) (c : Nat) : (b.writeByte c).1.err = true → (b.writeByte c).2 = true := by
  unfold BufW.writeByte
  split
  · intro _; rfl
  · have key : ∀ b1 : BufW,
        (if b1.err = true then (b1, true) else if b1.available = 0 then (b1, true)
          else ({ b1 with buf := b1.buf ++ [c] }, false)).1.err = true →
        (if b1.err = true then (b1, true) else if b1.available = 0 then (b1, true)
          else ({ b1 with buf := b1.buf ++ [c] }, false)).2 = true := by
      intro b1
      split
      · intro _; rfl
      · split
        · intro _; rfl
        · rename_i h _
          intro e; exact absurd e h
    exact key _

theorem writeRune_latch (b : BufW) (r : Int) (x : BufW × Bool) (h : b.writeRune r = .ok x) :
    x.1.err = true → x.2 = true := by
  unfold BufW.writeRune at h
  split at h
  · cases h; exact writeByte_latch b _
  · split at h
    · cases h; intro _; rfl
    · have key : ∀ b1 : BufW,
          (if b1.err = true then Except.ok (b1, true)
            else if b1.available < 4 then do
              let (b', _) ← b1.writeString (encodeRune r)
              pure (b', b'.err)
            else .ok ({ b1 with buf := b1.buf ++ encodeRune r }, false)) = Except.ok x →
          x.1.err = true → x.2 = true := by
        intro b1 h
        split at h
        · cases h; intro _; rfl
        · split at h
          · obtain ⟨⟨b', n⟩, _, h2⟩ := bind_ok h
            cases h2; exact id
          · rename_i h1 _
            cases h; intro e; exact absurd e h1
      exact key _ h

theorem start_latch (rs : RowStarter) (b : BufW) (i : Int) (x : BufW × Bool)
    (h : rs.start b i = .ok x) : x.2 = x.1.err := by
  unfold RowStarter.start at h
  split at h
  · obtain ⟨⟨b', n⟩, _, h2⟩ := bind_ok h
    cases h2; rfl
  · split at h
    · obtain ⟨⟨b', n⟩, _, h2⟩ := bind_ok h
      cases h2; rfl
    · obtain ⟨⟨b', n⟩, _, h2⟩ := bind_ok h
      cases h2; rfl

theorem nlStep_latch (b : BufW) (x : BufW × Bool) (hb : b.err = false) (h : nlStep b = .ok x) :
    x.2 = x.1.err := by
  unfold nlStep at h
  split at h
  · obtain ⟨⟨b', n⟩, _, h2⟩ := bind_ok h
    cases h2; rfl
  · cases h; exact hb.symm

theorem prefix_latch (p p1 : RawPrinter) (h : prefixStep p = .ok p1)
    (hw : p.w.err = false) : p1.w.err = true → p1.err = true := by
  unfold prefixStep at h
  split at h
  · obtain ⟨⟨b', e⟩, h1, h2⟩ := bind_ok h
    cases h2
    exact fun e => (start_latch _ _ _ _ h1).trans e
  · split at h
    · obtain ⟨⟨b1, e1⟩, h1, h2⟩ := bind_ok h
      have hl1 := nlStep_latch _ _ hw h1
      dsimp only at h2 hl1
      split at h2
      · cases h2; intro _; rfl
      · obtain ⟨⟨b2, e2⟩, h3, h4⟩ := bind_ok h2
        have hl2 := start_latch _ _ _ _ h3
        dsimp only at h4 hl2
        split at h4
        · cases h4; intro _; rfl
        · rename_i hne
          cases h4
          intro e
          exact absurd (hl2.trans e) hne
    · split at h
      · cases h
        exact writeByte_latch _ _
      · cases h
        intro e; rw [hw] at e; cases e

theorem rune_latch (p p' : RawPrinter) (d : Int) (h : runeStep p d = .ok p')
    (hp : p.w.err = true → p.err = true) : p'.w.err = true → p'.err = true := by
  unfold runeStep at h
  split at h
  · cases h; exact hp
  · obtain ⟨⟨b1, e1⟩, h1, h2⟩ := bind_ok h
    have hl := writeRune_latch _ _ _ h1
    dsimp only at h2 hl
    split at h2
    · cases h2; intro _; rfl
    · rename_i hne
      cases h2
      intro e; exact absurd (hl e) hne

theorem consume_latch (p p' : RawPrinter) (d : Int) (h : p.consume d = .ok p')
    (hp : p.w.err = true → p.err = true) : p'.w.err = true → p'.err = true := by
  by_cases he : p.err = true
  · rw [consume_of_err p d he] at h
    cases h; exact hp
  have he' := bool_not_true he
  rw [consume_eq, if_neg (by simp [RawPrinter.canConsume, he'])] at h
  obtain ⟨p1, h1, h2⟩ := bind_ok h
  have hw : p.w.err = false := by
    cases hh : p.w.err
    · rfl
    · exact absurd (hp hh) he
  exact rune_latch p1 p' d h2 (prefix_latch p p1 h1 hw)

/-! ### the regenerated label width is the documented one -/

theorem width_body (dpr m : Int) (sc : Bool) :
    (if ((!sc) || decide (dpr ≤ 0)) = true then (0:Int) else
      if decide (m ≤ dpr) = true then 0 else Sqroot.itoaLen (Int.tdiv (m - 1) dpr * dpr))
    = ((Spec.labelWidth dpr sc m : Nat) : Int) := by
  unfold Spec.labelWidth Sqroot.itoaLen
  by_cases h1 : sc = true
  · by_cases h2 : dpr ≤ 0
    · simp [h1, h2]
    · by_cases h3 : m ≤ dpr
      · simp [h1, h2, h3]
      · have : Int.tdiv (m - 1) dpr = (m - 1) / dpr := Int.tdiv_eq_ediv_of_nonneg (by omega)
        simp [h1, h2, h3, this]
  · simp [h1]

/-- the same fact for OTHER shapes of the generated function (merged guards, `(m-1) - (m-1)%r`
instead of `((m-1)/r)*r`): case analysis on the three guards, then arithmetic -/
theorem sub_tmod_eq (a b : Int) (ha : 0 ≤ a) (hb : 0 < b) : a - Int.tmod a b = Int.tdiv a b * b := by
  rw [Int.tdiv_eq_ediv_of_nonneg ha, Int.tmod_eq_emod_of_nonneg ha]
  have := Int.emod_add_mul_ediv a b
  rw [Int.mul_comm] at this
  omega

macro "width_tac" : tactic => `(tactic|
  first
  | exact width_body _ _ _
  | (unfold Spec.labelWidth Sqroot.itoaLen
     rename_i s m
     by_cases h1 : s.showCount = true
     · by_cases h2 : s.digitsPerRow ≤ 0
       · simp [h1, h2]
       · by_cases h3 : m ≤ s.digitsPerRow
         · simp [h1, h2, h3]
         · have e0 : Int.tdiv (m - 1) s.digitsPerRow = (m - 1) / s.digitsPerRow :=
             Int.tdiv_eq_ediv_of_nonneg (by omega)
           have e1 := sub_tmod_eq (m - 1) s.digitsPerRow (by omega) (by omega)
           simp [h1, h2, h3, e1, e0]
     · simp [h1]))

theorem width_eq (v : Version) (s : PSettings) (m : Int) :
    digitCountWidthOf v s m = ((Spec.labelWidth s.digitsPerRow s.showCount m : Nat) : Int) := by
  cases v
  · unfold digitCountWidthOf Gen.V1.digitCountWidth; width_tac
  · unfold digitCountWidthOf Gen.V2.digitCountWidth; width_tac
  · unfold digitCountWidthOf Gen.V3.digitCountWidth; width_tac

end Sqroot.Proofs.Prt

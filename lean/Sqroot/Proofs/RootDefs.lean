/-
Definitions used by the statements of C01–C03/C13 (kept apart from the lemmas so that the
statements in `Props/` can be read without the proofs).
-/
import Sqroot.Model.Root
import Sqroot.Spec.Root
namespace Sqroot.Proofs
open Sqroot.Model

/-- `(Q+1)^n − Q^n`: the amount by which the remainder drops when the current digit goes up by one -/
def pw (n : Nat) (Q : Int) : Int := (Q + 1) ^ n - Q ^ n

/-- What a `rootManager` has to satisfy for degree `n`: base `10^n`, the initial `incr`/`remainder`
are those of the empty root, and `Next` / `NextDigit` move `incr` (and the manager's private
auxiliary value, `aux Q`) from the root prefix `Q` to `Q+1`, respectively to `10·Q`. -/
def ManagerCorrect (n : Nat) (mgr : Manager) : Prop :=
  0 < n ∧ mgr.base = 10 ^ n ∧ mgr.initRem = 0 ∧ mgr.init1 = 1 ∧
  ∃ aux : Int → Int, mgr.init2 = aux 0 ∧
    (∀ Q : Int, 0 ≤ Q → mgr.next (pw n Q) (aux Q) = (pw n (Q + 1), aux (Q + 1))) ∧
    (∀ Q : Int, 0 ≤ Q → mgr.nextDigit (pw n Q) (aux Q) = (pw n (10 * Q), aux (10 * Q)))

/-- the digit stream has exactly `L` digits: asking for `L+1` yields `L` -/
def RootEndsAt (mgr : Manager) (num den L : Nat) : Prop :=
  (rootPrefix mgr num den (L + 1)).1.length = L

def RatEndsAt (num den L : Nat) : Prop :=
  (ratPrefix num den (L + 1)).1.length = L

end Sqroot.Proofs

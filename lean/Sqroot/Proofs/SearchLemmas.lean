/-
Helper lemmas for `Sqroot.Proofs.Search`: border theory on lists, the failure-table invariant,
the inner "fall back along the failure links" loop, the automaton step, and the pure
characterisation of the hit indices.
-/
import Sqroot.Model.Search
import Sqroot.Spec.Search
namespace Sqroot.Proofs
open Sqroot.Model

/-! ### candidates: prefixes of `p` (of length `k < m`) that are suffixes of `L` -/

def Cand (p L : List Int) (m k : Nat) : Prop := k < m ∧ p.take k <:+ L

/-- `k` is the largest candidate -/
def IsLB (p L : List Int) (m k : Nat) : Prop := Cand p L m k ∧ ∀ k', Cand p L m k' → k' ≤ k

theorem snoc_suffix_snoc {a b : List Int} {x y : Int} :
    a ++ [x] <:+ b ++ [y] ↔ a <:+ b ∧ x = y := by
  rw [← List.reverse_prefix]
  simp only [List.reverse_append, List.reverse_cons, List.reverse_nil, List.nil_append,
    List.cons_append, List.cons_prefix_cons, List.reverse_prefix]
  exact And.comm

theorem take_succ_suffix_snoc {p L : List Int} {k : Nat} {c : Int} (hk : k < p.length) :
    p.take (k + 1) <:+ L ++ [c] ↔ p.take k <:+ L ∧ p[k]? = some c := by
  rw [List.take_add_one, List.getElem?_eq_getElem hk]
  simp only [Option.toList_some, snoc_suffix_snoc, Option.some.injEq]

theorem Cand.zero {p L : List Int} {m : Nat} (hm : 0 < m) : Cand p L m 0 :=
  ⟨hm, by simp⟩

theorem cand_succ_iff {p L : List Int} {m k : Nat} {c : Int} (hm : m ≤ p.length) :
    Cand p (L ++ [c]) (m + 1) (k + 1) ↔ Cand p L m k ∧ p[k]? = some c := by
  unfold Cand
  constructor
  · rintro ⟨h1, h2⟩
    have hk : k < p.length := by omega
    rw [take_succ_suffix_snoc hk] at h2
    exact ⟨⟨by omega, h2.1⟩, h2.2⟩
  · rintro ⟨⟨h1, h2⟩, h3⟩
    have hk : k < p.length := by omega
    exact ⟨by omega, (take_succ_suffix_snoc hk).2 ⟨h2, h3⟩⟩

/-- a shorter candidate is a candidate of the longer one -/
theorem Cand.down {p L : List Int} {m k k' : Nat} (hm : m ≤ p.length)
    (h : Cand p L m k) (h' : Cand p L m k') (hlt : k' < k) : Cand p (p.take k) k k' := by
  refine ⟨hlt, List.suffix_of_suffix_length_le h'.2 h.2 ?_⟩
  have := h.1
  simp only [List.length_take]; omega

theorem Cand.up {p L : List Int} {m k k' : Nat}
    (h : Cand p L m k) (h' : Cand p (p.take k) k k') : Cand p L m k' :=
  ⟨by have := h.1; have := h'.1; omega, h'.2.trans h.2⟩

/-- conclusion of a step: from the largest candidate `r` of `L` that can be extended by `c`
(or `-1` if none) to the largest candidate of `L ++ [c]` -/
theorem step_concl {p L : List Int} {m : Nat} {c : Int} (hm : m ≤ p.length) (r : Int)
    (hr : -1 ≤ r)
    (h1 : ∀ k, Cand p L m k → p[k]? = some c → (k : Int) ≤ r)
    (h2 : 0 ≤ r → Cand p L m r.toNat ∧ p[r.toNat]? = some c) :
    IsLB p (L ++ [c]) (m + 1) (r + 1).toNat := by
  constructor
  · by_cases h0 : 0 ≤ r
    · have : (r + 1).toNat = r.toNat + 1 := by omega
      rw [this]
      exact (cand_succ_iff hm).2 (h2 h0)
    · have : (r + 1).toNat = 0 := by omega
      rw [this]
      exact Cand.zero (by omega)
  · intro k' hk'
    cases k' with
    | zero => omega
    | succ k =>
      have := (cand_succ_iff hm).1 hk'
      have := h1 k this.1 this.2
      omega

/-! ### checked index access -/

theorem getIdx_ok {a : Array Int} {i : Int} {v : Int} (h0 : 0 ≤ i) (h : a[i.toNat]? = some v) :
    getIdx a i = .ok v := by
  unfold getIdx
  rw [if_neg (by omega), h]

theorem getIdx_list {p : List Int} {j : Nat} (hj : j < p.length) :
    getIdx p.toArray (j : Int) = .ok p[j] := by
  apply getIdx_ok (by omega)
  simp [hj]

theorem setIdx_ok {a : Array Int} {j : Nat} (v : Int) (hj : j < a.size) :
    setIdx a (j : Int) v = .ok (a.set j v hj) := by
  unfold setIdx
  rw [if_neg (by omega)]
  simp only [Int.toNat_natCast]
  rw [dif_pos hj]

/-! ### the failure table -/

/-- entries `0..m` of `tbl` are the failure table of `p` -/
def TblOK (p : List Int) (tbl : Array Int) (m : Nat) : Prop :=
  tbl[0]? = some (-1) ∧
    ∀ j, 1 ≤ j → j ≤ m → ∃ b : Nat, tbl[j]? = some (b : Int) ∧ IsLB p (p.take j) j b

/-! ### the fall-back loop -/

theorem visitInner_spec {p : List Int} {tbl : Array Int} {m : Nat} (hm : m ≤ p.length)
    (ht : TblOK p tbl m) (L : List Int) (c : Int) (x : Int) :
    ∀ (fuel : Nat) (idx : Int), idx + 2 ≤ fuel → -1 ≤ idx → idx < m →
      (0 ≤ idx → p.take idx.toNat <:+ L) →
      (∀ k, Cand p L m k → p[k]? = some c → (k : Int) ≤ idx) →
      ∃ r : Int, visitInner ⟨tbl, p.toArray, x⟩ c fuel idx = .ok r ∧ -1 ≤ r ∧ r ≤ idx ∧
        (∀ k, Cand p L m k → p[k]? = some c → (k : Int) ≤ r) ∧
        (0 ≤ r → Cand p L m r.toNat ∧ p[r.toNat]? = some c) := by
  intro fuel
  induction fuel with
  | zero => intro idx h1 h2; omega
  | succ fuel ih =>
    intro idx hf hlo hhi hsuf hmax
    unfold visitInner
    by_cases hneg : idx = -1
    · rw [if_pos hneg]
      exact ⟨idx, rfl, hlo, Int.le_refl _, hmax, fun h => by omega⟩
    · rw [if_neg hneg]
      obtain ⟨j, rfl⟩ : ∃ j : Nat, idx = (j : Int) := ⟨idx.toNat, by omega⟩
      have hjm : j < m := by omega
      have hjp : j < p.length := by omega
      have hsuf' : p.take j <:+ L := by simpa using hsuf (by omega)
      simp only [getIdx_list hjp, bind, Except.bind]
      by_cases hc : p[j] = c
      · rw [if_neg (by simpa using hc)]
        refine ⟨j, rfl, hlo, Int.le_refl _, hmax, fun _ => ?_⟩
        simp only [Int.toNat_natCast]
        exact ⟨⟨hjm, hsuf'⟩, by simp [hjp, hc]⟩
      · rw [if_pos (by simpa using hc)]
        -- every extendable candidate is strictly below j
        have hlt : ∀ k, Cand p L m k → p[k]? = some c → k < j := by
          intro k hk hkc
          have h1 := hmax k hk hkc
          have : k ≠ j := by
            rintro rfl
            simp [hjp] at hkc; exact hc hkc
          omega
        by_cases hj0 : j = 0
        · subst hj0
          have hg : getIdx tbl ((0 : Nat) : Int) = .ok (-1) := getIdx_ok (by omega) (by simpa using ht.1)
          simp only [hg]
          obtain ⟨r, hr, h1, h2, h3, h4⟩ := ih (-1) (by omega) (by omega) (by omega) (fun h => by omega)
            (fun k hk hkc => by have := hlt k hk hkc; omega)
          exact ⟨r, hr, h1, by omega, h3, h4⟩
        · obtain ⟨b, hb, hlb⟩ := ht.2 j (by omega) (by omega)
          have hg : getIdx tbl (j : Int) = .ok (b : Int) := getIdx_ok (by omega) (by simpa using hb)
          simp only [hg]
          have hbj : b < j := hlb.1.1
          have hcj : Cand p L m j := ⟨hjm, hsuf'⟩
          obtain ⟨r, hr, h1, h2, h3, h4⟩ := ih (b : Int) (by omega) (by omega) (by omega)
            (fun _ => by simpa using (Cand.up hcj hlb.1).2)
            (fun k hk hkc => by
              have := hlb.2 k (Cand.down hm hcj hk (hlt k hk hkc))
              omega)
          exact ⟨r, hr, h1, by omega, h3, h4⟩


/-! ### building the table -/

theorem ttInner_eq {pat tbl : Array Int} {i c x : Int} (hc : getIdx pat i = .ok c) :
    ∀ fuel posit, ttInner pat tbl i fuel posit = visitInner ⟨tbl, pat, x⟩ c fuel posit := by
  intro fuel
  induction fuel with
  | zero => intro posit; rfl
  | succ fuel ih =>
    intro posit
    unfold ttInner visitInner
    simp only [hc, bind, Except.bind]
    cases getIdx pat posit with
    | error e => rfl
    | ok b =>
      simp only []
      by_cases hb : c = b
      · subst hb; simp
      · have hb' : b ≠ c := fun h => hb h.symm
        simp only [ne_eq, hb, hb', not_false_eq_true, if_true]
        cases getIdx tbl posit with
        | error e => rfl
        | ok q => simp only [ih q]

theorem TblOK.set {p : List Int} {tbl : Array Int} {n : Nat} (hn : 1 ≤ n) (h : TblOK p tbl (n - 1))
    (hs : n < tbl.size) (b : Nat) (hb : IsLB p (p.take n) n b) :
    TblOK p (tbl.set n (b : Int) hs) n := by
  refine ⟨?_, ?_⟩
  · rw [Array.getElem?_set, if_neg (by omega)]; exact h.1
  · intro j h1 h2
    by_cases hj : j = n
    · subst hj
      exact ⟨b, by rw [Array.getElem?_set, if_pos rfl], hb⟩
    · obtain ⟨b', hb', hl⟩ := h.2 j h1 (by omega)
      exact ⟨b', by rw [Array.getElem?_set, if_neg (by omega)]; exact hb', hl⟩

theorem ttLoop_spec {p : List Int} :
    ∀ (cnt n : Nat) (tbl : Array Int) (posit : Int), 1 ≤ n → n + cnt = p.length →
      tbl.size = p.length + 1 → TblOK p tbl (n - 1) → -1 ≤ posit →
      IsLB p (p.take n) n (posit + 1).toNat →
      ∃ tbl' posit', ttLoop p.toArray cnt (n : Int) tbl posit = .ok (tbl', posit') ∧
        tbl'.size = p.length + 1 ∧ TblOK p tbl' (p.length - 1) ∧ -1 ≤ posit' ∧
        IsLB p p p.length (posit' + 1).toNat := by
  intro cnt
  induction cnt with
  | zero =>
    intro n tbl posit hn hnc hsz ht hpos hlb
    have : n = p.length := by omega
    subst this
    refine ⟨tbl, posit, rfl, hsz, ht, hpos, ?_⟩
    simpa using hlb
  | succ cnt ih =>
    intro n tbl posit hn hnc hsz ht hpos hlb
    have hnp : n < p.length := by omega
    unfold ttLoop
    have hb : posit + 1 = (((posit + 1).toNat : Nat) : Int) := by omega
    generalize (posit + 1).toNat = b at hb hlb
    rw [hb]
    have hs : n < tbl.size := by omega
    simp only [setIdx_ok _ hs, bind, Except.bind]
    have ht1 := TblOK.set hn ht hs b hlb
    rw [ttInner_eq (x := 0) (getIdx_list hnp)]
    have hbn : b < n := hlb.1.1
    obtain ⟨r, hr, h1, h2, h3, h4⟩ := visitInner_spec (Nat.le_of_lt hnp) ht1 (p.take n) p[n] 0
      (p.toArray.size + 1) (b : Int) (by simp; omega) (by omega) (by omega)
      (fun _ => by simpa using hlb.1.2)
      (fun k hk _ => by have := hlb.2 k hk; omega)
    simp only [hr]
    have hstep := step_concl (Nat.le_of_lt hnp) r h1 h3 h4
    have htk : p.take n ++ [p[n]] = p.take (n + 1) := by
      rw [List.take_add_one, List.getElem?_eq_getElem hnp]; rfl
    rw [htk] at hstep
    have := ih (n + 1) (tbl.set n (b : Int) hs) r (by omega) (by omega) (by simpa using hsz)
      (by simpa using ht1) h1 hstep
    simpa using this

theorem ttable_ok (p : List Int) (hp : p ≠ []) :
    ∃ t, ttable p.toArray = .ok t ∧ t.size = p.length + 1 ∧ TblOK p t p.length := by
  have hlen : 0 < p.length := List.length_pos_iff.2 hp
  unfold ttable
  have h0 : (0 : Nat) < (Array.replicate (p.toArray.size + 1) (0 : Int)).size := by simp
  have e0 : setIdx (Array.replicate (p.toArray.size + 1) (0 : Int)) 0 (-1)
      = .ok ((Array.replicate (p.toArray.size + 1) (0 : Int)).set 0 (-1) h0) :=
    setIdx_ok (j := 0) (-1) h0
  simp only [e0, bind, Except.bind]
  have hT0 : TblOK p ((Array.replicate (p.toArray.size + 1) (0 : Int)).set 0 (-1) h0) (1 - 1) :=
    ⟨by simp, fun j h1 h2 => by omega⟩
  have hL0 : IsLB p (p.take 1) 1 ((-1 : Int) + 1).toNat :=
    ⟨Cand.zero (by omega), fun k' hk' => by have := hk'.1; omega⟩
  obtain ⟨tbl', posit', hrun, hsz, ht, hpos, hlb⟩ := ttLoop_spec (p := p) (p.length - 1) 1 _ (-1)
    (Nat.le_refl _) (by omega) (by simp) hT0 (by omega) hL0
  have hrun' : ttLoop p.toArray (p.toArray.size - 1) 1
      ((Array.replicate (p.toArray.size + 1) (0 : Int)).set 0 (-1) h0) (-1) = .ok (tbl', posit') := by
    simpa using hrun
  simp only [hrun']
  have hb : posit' + 1 = (((posit' + 1).toNat : Nat) : Int) := by omega
  generalize (posit' + 1).toNat = b at hb hlb
  rw [hb]
  have hs : p.length < tbl'.size := by omega
  have hset : setIdx tbl' (p.toArray.size : Int) (b : Int) = .ok (tbl'.set p.length (b : Int) hs) := by
    simpa using setIdx_ok (j := p.length) (b : Int) hs
  refine ⟨_, hset, by simpa using hsz, ?_⟩
  exact TblOK.set hlen ht hs b (by simpa using hlb)


/-! ### the automaton step -/

/-- automaton invariant: after consuming `L` the state is the length of the longest proper
prefix of `p` that is a suffix of `L` -/
structure KInv (p : List Int) (t : Array Int) (k : Kernel) (L : List Int) : Prop where
  pat : k.pat = p.toArray
  table : k.table = t
  idx : ∃ j : Nat, k.idx = (j : Int) ∧ IsLB p L p.length j

theorem IsLB.restrict {p L : List Int} {q : Nat} (h : IsLB p L (p.length + 1) q)
    (hq : q < p.length) : IsLB p L p.length q ∧ ¬ p <:+ L := by
  refine ⟨⟨⟨hq, h.1.2⟩, fun k' hk' => h.2 k' ⟨by have := hk'.1; omega, hk'.2⟩⟩, fun hs => ?_⟩
  have := h.2 p.length ⟨by omega, by simpa using hs⟩
  omega

theorem visit_spec {p : List Int} {t : Array Int} (ht : TblOK p t p.length) {k : Kernel}
    {L : List Int} (h : KInv p t k L) (c : Int) :
    ∃ k', k.visit c = .ok (k', decide (p <:+ L ++ [c])) ∧ KInv p t k' (L ++ [c]) := by
  obtain ⟨tbl, pat, idx⟩ := k
  obtain ⟨hpat, htbl, j, hidx, hlb⟩ := h
  simp only at hpat htbl hidx
  subst hpat htbl hidx
  have hjp : j < p.length := hlb.1.1
  unfold Kernel.visit
  simp only [getIdx_list hjp, bind, Except.bind, List.size_toArray]
  by_cases hc : c = p[j]
  · rw [if_pos hc]
    have hcj : p[j]? = some c := by simp [hjp, hc]
    have hstep : IsLB p (L ++ [c]) (p.length + 1) (((j : Int) + 1).toNat) :=
      step_concl (Nat.le_refl _) (j : Int) (by omega)
        (fun k hk _ => by have := hlb.2 k hk; omega)
        (fun _ => by simpa using ⟨hlb.1, hcj⟩)
    have hj1 : ((j : Int) + 1).toNat = j + 1 := by omega
    rw [hj1] at hstep
    by_cases hfull : (j : Int) + 1 = (p.length : Int)
    · rw [if_pos hfull]
      have hfull' : j + 1 = p.length := by omega
      obtain ⟨b, hb, hbl⟩ := ht.2 p.length (by omega) (Nat.le_refl _)
      have hg : getIdx tbl ((j : Int) + 1) = .ok (b : Int) :=
        getIdx_ok (by omega) (by rw [show ((j : Int) + 1).toNat = p.length by omega]; exact hb)
      simp only [hg, pure, Except.pure]
      have hsuf : p <:+ L ++ [c] := by
        have := hstep.1.2
        rw [hfull'] at this
        simpa using this
      rw [List.take_length] at hbl
      refine ⟨⟨tbl, p.toArray, (b : Int)⟩, by simp [hsuf], rfl, rfl, b, rfl, ⟨hbl.1.1, hbl.1.2.trans hsuf⟩, ?_⟩
      intro k' hk'
      apply hbl.2 k' ⟨hk'.1, List.suffix_of_suffix_length_le hk'.2 hsuf ?_⟩
      have := hk'.1
      simp only [List.length_take]; omega
    · rw [if_neg hfull]
      obtain ⟨h1, h2⟩ := hstep.restrict (by omega)
      refine ⟨⟨tbl, p.toArray, (j : Int) + 1⟩, by simp [h2, pure, Except.pure], rfl, rfl, j + 1, by simp, h1⟩
  · rw [if_neg hc]
    obtain ⟨r, hr, h1, h2, h3, h4⟩ := visitInner_spec (Nat.le_refl _) ht L c (j : Int)
      (p.length + 2) (j : Int) (by omega) (by omega) (by omega)
      (fun _ => by simpa using hlb.1.2)
      (fun k hk _ => by have := hlb.2 k hk; omega)
    simp only [hr, pure, Except.pure]
    have hstep := step_concl (Nat.le_refl _) r h1 h3 h4
    have hrj : r < j := by
      have : r ≠ j := by
        rintro rfl
        have := (h4 (by omega)).2
        simp [hjp] at this
        exact hc this.symm
      omega
    obtain ⟨g1, g2⟩ := hstep.restrict (by omega)
    refine ⟨⟨tbl, p.toArray, r + 1⟩, by simp [g2], rfl, rfl, (r + 1).toNat, ?_, g1⟩
    simp only; omega


theorem newKernel_ok (p : List Int) (hp : p ≠ []) :
    ∃ t, TblOK p t p.length ∧ newKernel p.toArray = .ok ⟨t, p.toArray, 0⟩ ∧
      KInv p t ⟨t, p.toArray, 0⟩ [] := by
  obtain ⟨t, h1, _, h3⟩ := ttable_ok p hp
  have hlen : 0 < p.length := List.length_pos_iff.2 hp
  refine ⟨t, h3, by simp [newKernel, h1, bind, Except.bind, pure, Except.pure], rfl, rfl, 0, rfl,
    Cand.zero hlen, ?_⟩
  intro k' hk'
  have h := hk'.2
  have hk := hk'.1
  simp only [List.suffix_nil, List.take_eq_nil_iff] at h
  rcases h with h | h
  · omega
  · exact absurd h hp

/-! ### hit indices -/

/-- indices `j` of the digit list `D` at which a match is completed, when `L` was consumed before -/
def idxs (p L D : List Int) : List Nat :=
  (List.range D.length).filter fun j => decide (p <:+ L ++ D.take (j + 1))

theorem mem_idxs {p L D : List Int} {j : Nat} :
    j ∈ idxs p L D ↔ j < D.length ∧ p <:+ L ++ D.take (j + 1) := by
  simp [idxs]

theorem pairwise_idxs (p L D : List Int) : (idxs p L D).Pairwise (· < ·) :=
  List.pairwise_lt_range.filter _

theorem idxs_nil (p L : List Int) : idxs p L [] = [] := rfl

theorem idxs_cons (p L : List Int) (d : Int) (D : List Int) :
    idxs p L (d :: D) = (if p <:+ L ++ [d] then [0] else []) ++ (idxs p (L ++ [d]) D).map (· + 1) := by
  unfold idxs
  rw [List.length_cons, List.range_succ_eq_map, List.filter_cons, List.filter_map]
  have : (fun j => decide (p <:+ L ++ List.take (j + 1) (d :: D))) ∘ Nat.succ
      = fun j => decide (p <:+ L ++ [d] ++ D.take (j + 1)) := by
    funext j; simp only [Function.comp, Nat.succ_eq_add_one, List.take_succ_cons, List.append_assoc, List.singleton_append]
    congr
  rw [this]
  by_cases h : p <:+ L ++ [d] <;> simp [h]

def posAt (F : List (Int × Int)) (j : Nat) : Int := (F[j]?.map Prod.fst).getD 0

def outPos (rev : Bool) (n : Nat) (pos : Int) : Int := if rev then pos else pos + 1 - n

theorem posAt_zero (x : Int × Int) (F : List (Int × Int)) : posAt (x :: F) 0 = x.1 := rfl
theorem posAt_succ (x : Int × Int) (F : List (Int × Int)) (j : Nat) :
    posAt (x :: F) (j + 1) = posAt F j := by simp [posAt]

theorem kmpFeed_spec {p : List Int} {t : Array Int} (ht : TblOK p t p.length) (rev : Bool) :
    ∀ (F : List (Int × Int)) (k : Kernel) (L : List Int), KInv p t k L →
      kmpFeed k rev F = .ok ((idxs p L (F.map Prod.snd)).map
        fun j => outPos rev p.length (posAt F j)) := by
  intro F
  induction F with
  | nil => intro k L _; rfl
  | cons x F ih =>
    intro k L hk
    obtain ⟨pos, d⟩ := x
    obtain ⟨k', hv, hk'⟩ := visit_spec ht hk d
    unfold kmpFeed
    simp only [hv, ih k' _ hk', bind, Except.bind, pure, Except.pure, List.map_cons, idxs_cons,
      hk.pat, List.size_toArray]
    by_cases h : p <:+ L ++ [d]
    · simp [h, posAt_zero, posAt_succ, outPos, Function.comp_def]
    · simp [h, posAt_succ, Function.comp_def]

def takeCount (n : Nat) (I : List Nat) (len : Nat) : Nat :=
  if n = 0 then 0 else match I[n - 1]? with
    | some j => j + 1
    | none => len

theorem kmpTake_gen {p : List Int} {t : Array Int} (ht : TblOK p t p.length) (rev : Bool) :
    ∀ (F : List (Int × Int)) (k : Kernel) (L : List Int) (n : Nat), KInv p t k L →
      kmpTake k rev n F = .ok (((idxs p L (F.map Prod.snd)).take n).map
        (fun j => outPos rev p.length (posAt F j)),
        takeCount n (idxs p L (F.map Prod.snd)) F.length) := by
  intro F
  induction F with
  | nil =>
    intro k L n _
    cases n <;> simp [kmpTake, idxs_nil, takeCount]
  | cons x F ih =>
    intro k L n hk
    obtain ⟨pos, d⟩ := x
    cases n with
    | zero => simp [kmpTake, takeCount]
    | succ n =>
      obtain ⟨k', hv, hk'⟩ := visit_spec ht hk d
      unfold kmpTake
      simp only [hv, bind, Except.bind, pure, Except.pure, List.map_cons, idxs_cons,
        hk.pat, List.size_toArray]
      by_cases h : p <:+ L ++ [d]
      · simp only [h, decide_true, if_true, ih k' _ n hk']
        cases n with
        | zero => simp [takeCount, posAt_zero, outPos]
        | succ n =>
          simp only [takeCount, List.cons_append, List.nil_append, List.take_succ_cons, List.map_cons,
            posAt_zero, outPos, List.map_take, List.map_map, Function.comp_def, posAt_succ,
            Nat.add_one_ne_zero, if_false, Nat.add_sub_cancel, List.getElem?_cons_succ,
            List.getElem?_map, List.length_cons]
          cases (idxs p (L ++ [d]) (List.map Prod.snd F))[n]? <;> rfl
      · simp only [h, decide_false, Bool.false_eq_true, if_false, ih k' _ (n + 1) hk']
        simp only [takeCount, List.nil_append, List.map_take, List.map_map, Function.comp_def,
            posAt_succ, Nat.add_one_ne_zero, if_false, Nat.add_sub_cancel,
            List.getElem?_map, List.length_cons]
        cases (idxs p (L ++ [d]) (List.map Prod.snd F))[n]? <;> rfl


/-! ### pure facts: hit indices versus `Spec.occurrences` -/

theorem sorted_ext : ∀ {l1 l2 : List Nat}, l1.Pairwise (· < ·) → l2.Pairwise (· < ·) →
    (∀ x, x ∈ l1 ↔ x ∈ l2) → l1 = l2
  | [], [], _, _, _ => rfl
  | [], b :: l2, _, _, h => by have := (h b).2 (by simp); simp at this
  | a :: l1, [], _, _, h => by have := (h a).1 (by simp); simp at this
  | a :: l1, b :: l2, h1, h2, h => by
    rw [List.pairwise_cons] at h1 h2
    have hab : a = b := by
      have ha := (h a).1 (by simp)
      have hb := (h b).2 (by simp)
      rw [List.mem_cons] at ha hb
      rcases ha with ha | ha
      · exact ha
      · rcases hb with hb | hb
        · exact hb.symm
        · have := h1.1 b hb; have := h2.1 a ha; omega
    subst hab
    congr 1
    apply sorted_ext h1.2 h2.2
    intro x
    constructor
    · intro hx
      have := (h x).1 (List.mem_cons_of_mem _ hx)
      rw [List.mem_cons] at this
      rcases this with rfl | this
      · have := h1.1 x hx; omega
      · exact this
    · intro hx
      have := (h x).2 (List.mem_cons_of_mem _ hx)
      rw [List.mem_cons] at this
      rcases this with rfl | this
      · have := h2.1 x hx; omega
      · exact this

theorem mem_occurrences {p T : List Int} {i : Nat} :
    i ∈ Spec.occurrences p T ↔ i + p.length ≤ T.length ∧ (T.drop i).take p.length = p := by
  simp only [Spec.occurrences, Spec.occursAt, List.mem_filter, List.mem_range, Bool.and_eq_true,
    decide_eq_true_eq, beq_iff_eq]
  constructor
  · rintro ⟨_, h⟩; exact h
  · intro h; exact ⟨by omega, h⟩

theorem pairwise_occurrences (p T : List Int) : (Spec.occurrences p T).Pairwise (· < ·) :=
  List.pairwise_lt_range.filter _

theorem suffix_take_iff {p T : List Int} {e : Nat} (he : e ≤ T.length) :
    p <:+ T.take e ↔ p.length ≤ e ∧ (T.drop (e - p.length)).take p.length = p := by
  constructor
  · rintro ⟨a, ha⟩
    have hlen : a.length + p.length = e := by
      have := congrArg List.length ha
      simp only [List.length_append, List.length_take] at this
      omega
    have hT : T = a ++ (p ++ T.drop e) := by
      rw [← List.append_assoc, ha, List.take_append_drop]
    refine ⟨by omega, ?_⟩
    have hd : T.drop (e - p.length) = p ++ T.drop e := by
      conv => lhs; rw [hT]
      exact List.drop_left' (by omega)
    rw [hd]
    exact List.take_left' rfl
  · rintro ⟨h1, h2⟩
    have : T.take e = T.take (e - p.length) ++ p := by
      conv => lhs; rw [show e = (e - p.length) + p.length by omega]
      rw [List.take_add, h2]
    rw [this]
    exact List.suffix_append _ _

theorem prefix_drop_iff {p T : List Int} (hp : p ≠ []) {i : Nat} :
    p <+: T.drop i ↔ i + p.length ≤ T.length ∧ (T.drop i).take p.length = p := by
  have hlen : 0 < p.length := List.length_pos_iff.2 hp
  constructor
  · intro h
    have hl := h.length_le
    simp only [List.length_drop] at hl
    exact ⟨by omega, (List.prefix_iff_eq_take.1 h).symm⟩
  · rintro ⟨_, h⟩
    rw [← h]
    exact List.take_prefix _ _

theorem rev_suffix_iff {p T : List Int} {j : Nat} :
    p.reverse <:+ T.reverse.take (j + 1) ↔ p <+: T.drop (T.length - 1 - j) := by
  rw [List.take_reverse, List.reverse_suffix, show T.length - (j + 1) = T.length - 1 - j by omega]

theorem occurrences_eq_idxs {p : List Int} (hp : p ≠ []) (T : List Int) :
    Spec.occurrences p T = (idxs p [] T).map fun j => j + 1 - p.length := by
  have hlen : 0 < p.length := List.length_pos_iff.2 hp
  have key : ∀ j, j ∈ idxs p [] T ↔
      j < T.length ∧ p.length ≤ j + 1 ∧ (T.drop (j + 1 - p.length)).take p.length = p := by
    intro j
    rw [mem_idxs, List.nil_append]
    constructor
    · rintro ⟨h1, h2⟩; exact ⟨h1, (suffix_take_iff (by omega)).1 h2⟩
    · rintro ⟨h1, h2⟩; exact ⟨h1, (suffix_take_iff (by omega)).2 h2⟩
  apply sorted_ext (pairwise_occurrences p T)
  · rw [List.pairwise_map]
    refine (pairwise_idxs p [] T).imp_of_mem ?_
    intro a b ha hb hab
    have := (key a).1 ha; have := (key b).1 hb
    omega
  · intro x
    rw [mem_occurrences, List.mem_map]
    constructor
    · rintro ⟨h1, h2⟩
      refine ⟨x + p.length - 1, (key _).2 ⟨by omega, by omega, ?_⟩, by omega⟩
      rw [show x + p.length - 1 + 1 - p.length = x by omega]; exact h2
    · rintro ⟨j, hj, rfl⟩
      obtain ⟨h1, h2, h3⟩ := (key j).1 hj
      exact ⟨by omega, h3⟩

theorem idxs_bounds {p : List Int} {T : List Int} {j : Nat} (hj : j ∈ idxs p [] T) :
    j < T.length ∧ p.length ≤ j + 1 := by
  rw [mem_idxs, List.nil_append] at hj
  exact ⟨hj.1, ((suffix_take_iff (by omega)).1 hj.2).1⟩

theorem occurrences_reverse_eq_idxs {p : List Int} (hp : p ≠ []) (T : List Int) :
    (Spec.occurrences p T).reverse
      = (idxs p.reverse [] T.reverse).map fun j => T.length - 1 - j := by
  have key : ∀ j, j ∈ idxs p.reverse [] T.reverse ↔
      j < T.length ∧ (T.length - 1 - j) + p.length ≤ T.length ∧
        (T.drop (T.length - 1 - j)).take p.length = p := by
    intro j
    rw [mem_idxs, List.nil_append, rev_suffix_iff, prefix_drop_iff hp, List.length_reverse]
  suffices h : Spec.occurrences p T
      = ((idxs p.reverse [] T.reverse).map fun j => T.length - 1 - j).reverse by
    rw [h, List.reverse_reverse]
  apply sorted_ext (pairwise_occurrences p T)
  · rw [List.pairwise_reverse, List.pairwise_map]
    refine (pairwise_idxs _ [] _).imp_of_mem ?_
    intro a b ha hb hab
    have := (key a).1 ha; have := (key b).1 hb
    omega
  · intro x
    rw [mem_occurrences, List.mem_reverse, List.mem_map]
    have hlen : 0 < p.length := List.length_pos_iff.2 hp
    constructor
    · rintro ⟨h1, h2⟩
      refine ⟨T.length - 1 - x, (key _).2 ⟨by omega, ?_⟩, by omega⟩
      rw [show T.length - 1 - (T.length - 1 - x) = x by omega]; exact ⟨h1, h2⟩
    · rintro ⟨j, hj, rfl⟩
      exact ((key j).1 hj).2


end Sqroot.Proofs

/-
`Format` end to end (v3) and the rendering lemmas it needs: kept apart from the search
composition of `Proofs/EndToEnd.lean` so that the checks of C09 and C15 do not depend on the
formatting proofs.
-/
import Sqroot.Proofs.EndToEnd
import Sqroot.Proofs.Format
namespace Sqroot.Proofs
open Sqroot.Model

namespace E2E

theorem renderFixed_take (s e : Int) (ex : Bool) (D : List Nat) (k : Nat) (hk : s.toNat ≤ k) :
    Spec.renderFixed s e ex (D.take k) = Spec.renderFixed s e ex D := by
  unfold Spec.renderFixed
  rw [List.take_take, Nat.min_eq_left hk]

theorem renderNumber_take (s : Int) (ex sci cap : Bool) (e : Int) (D : List Nat) (k : Nat) (hk : s.toNat ≤ k) :
    Spec.renderNumber s ex sci cap e (D.take k) = Spec.renderNumber s ex sci cap e D := by
  unfold Spec.renderNumber
  rw [renderFixed_take _ _ _ _ _ hk, renderFixed_take _ _ _ _ _ hk]

theorem formatRule_g (e : Int) : Spec.formatRule 'g'.toNat none e
    = some (16, false, decide ((16:Int) < e ∨ e < -3 ∨ e > 6), false) := by
  simp [Spec.formatRule, Fmt.toNat_lits]

theorem renderString_take (e : Int) (D : List Nat) (k : Nat) (hk : 16 ≤ k) :
    Spec.renderString e (D.take k) = Spec.renderString e D := by
  unfold Spec.renderString
  rw [formatRule_g]
  exact renderNumber_take _ _ _ _ _ _ _ (by simpa using hk)

/-- the number of digits the formatter needs -/
def needOf (verb : Nat) (prec : Option Nat) (e : Int) : Nat :=
  match Spec.formatRule verb prec e with
  | some (s, _, _, _) => s.toNat
  | none => 16

theorem render_take (verb : Nat) (prec width : Option Nat) (minus : Bool) (e : Int) (D : List Nat) (k : Nat)
    (hk : needOf verb prec e ≤ k) :
    Spec.render verb prec width minus e (D.take k) = Spec.render verb prec width minus e D := by
  unfold needOf at hk
  unfold Spec.render
  cases hr : Spec.formatRule verb prec e with
  | none => rw [hr] at hk; simp only at hk ⊢; rw [renderString_take _ _ _ hk]
  | some q =>
    obtain ⟨s, ex, sci, cap⟩ := q
    rw [hr] at hk; simp only at hk ⊢
    rw [renderNumber_take _ _ _ _ _ _ _ hk]

theorem need_eq (verb : Nat) (prec : Option Nat) (e : Int) :
    (if (genNewFormatSpec .v3 (prec.getD 0) prec.isSome verb e).2
      then (genNewFormatSpec .v3 (prec.getD 0) prec.isSome verb e).1.sigDigits.toNat
      else (stringSpec .v3 e).sigDigits.toNat) = needOf verb prec e := by
  have hrule := newFormatSpec_rule .v3 verb prec e
  unfold needOf
  cases hr : Spec.formatRule verb prec e with
  | none =>
    rw [hr] at hrule
    simp only at hrule ⊢
    rw [hrule]
    simp [stringSpec, Gen.V3.formatSpecForG, Gen.V3.gPrecision]
  | some q =>
    obtain ⟨s, ex, sci, cap⟩ := q
    rw [hr] at hrule
    simp only at hrule ⊢
    rw [hrule.1, hrule.2.1]; rfl

theorem needOf_le (verb : Nat) (prec : Option Nat) (e : Int) (h : prec.getD 16 + e.natAbs < 10000) :
    needOf verb prec e ≤ 20000 := by
  unfold needOf
  have h6 : prec.getD 6 ≤ prec.getD 16 := by cases prec <;> simp
  cases hr : Spec.formatRule verb prec e with
  | none => simp
  | some q =>
    obtain ⟨s, ex, sci, cap⟩ := q
    simp only
    unfold Spec.formatRule at hr
    simp only at hr
    split at hr
    · simp only [Option.some.injEq, Prod.mk.injEq] at hr; omega
    split at hr
    · simp only [Option.some.injEq, Prod.mk.injEq] at hr; omega
    split at hr
    · simp only [Option.some.injEq, Prod.mk.injEq] at hr; omega
    split at hr
    · simp only [Option.some.injEq, Prod.mk.injEq] at hr
      obtain ⟨hs, _⟩ := hr
      split at hs <;> omega
    split at hr
    · simp only [Option.some.injEq, Prod.mk.injEq] at hr
      obtain ⟨hs, _⟩ := hr
      split at hs <;> omega
    · cases hr

end E2E
open E2E ViewL

/-- digits of the Number a chain of WithSignificant calls leads to (window `[0, hi)`) -/
def numberDigits (src : Src) (w : Spec.Win) (n : Nat) : List Nat :=
  (Spec.windowList src.len src.digit { w with lo := 0 } n).map (·.2)

/-- C08 end to end: formatting a Number reached by any chain of WithSignificant calls (the only
view operation that yields Numbers) renders the first digits of its window -/
theorem format_end_to_end (c : MemoCfg) (m : Memo) (b v : Val3) (limits : List Int) (e : Int)
    (hb : b = .opqN .memo e ∨ b = .fnum .memo e)
    (hv : applyChain3 b (limits.map .withSig) = some v) (hnz : v.isZero = false)
    (hd : ∀ p, m.src.digit p ≤ 9)
    (hfit : Fits c m.src (Spec.winOf ((limits.map ViewOp.withSig).map toSpecOp)) 20000)
    (verb : Nat) (prec width : Option Nat) (minus : Bool) (hprec : prec.getD 16 + e.natAbs < 10000) :
    ∃ m' txt, format3 c m v verb prec width minus = some (.ok (m', txt)) ∧ m'.src = m.src ∧
      txt = Spec.render verb prec width minus e
              (numberDigits m.src (Spec.winOf ((limits.map ViewOp.withSig).map toSpecOp)) 20000) := by
  have hbase : IsBase3 b := ⟨e, hb.symm⟩
  have hinv0 : NumInv e b := by
    rcases hb with h | h <;> subst h
    · exact ⟨.memo, e, Or.inr rfl, fun _ => rfl⟩
    · exact ⟨.memo, e, Or.inl rfl, fun _ => rfl⟩
  obtain ⟨sp, ex, hvv, hex⟩ := numInv_chain e limits b v hinv0 hv
  have hspn : sp ≠ .nil := by
    intro h; subst h
    rcases hvv with h | h <;> subst h <;> simp [Val3.isZero, Val3.spec] at hnz
  have hexe : ex = e := hex hspn
  subst hexe
  have hexp : v.exponent = some ex := by rcases hvv with h | h <;> subst h <;> rfl
  have hnum : v.assertsNumber = true := by rcases hvv with h | h <;> subst h <;> rfl
  have hst : v.start = 0 := by rcases hvv with h | h <;> subst h <;> rfl
  have hlo := winOf_withSig_lo limits
  have hnd : numberDigits m.src (Spec.winOf ((limits.map ViewOp.withSig).map toSpecOp)) 20000
      = (Spec.windowList m.src.len m.src.digit (Spec.winOf ((limits.map ViewOp.withSig).map toSpecOp)) 20000).map (·.2) := by
    unfold numberDigits
    congr 2
    generalize Spec.winOf ((limits.map ViewOp.withSig).map toSpecOp) = w at hlo
    obtain ⟨lo, hi⟩ := w
    simp only at hlo; subst hlo; rfl
  have hneed := need_eq verb prec ex
  have hle := needOf_le verb prec ex hprec
  -- the traversal
  have htrav : ∃ m' xs, (if needOf verb prec ex = 0 then Except.ok (m, [])
        else specScan c m v.spec 0 (needOf verb prec ex)) = Except.ok (m', xs) ∧ m'.src = m.src ∧
      xs.map (·.2) = (numberDigits m.src (Spec.winOf ((limits.map ViewOp.withSig).map toSpecOp)) 20000).take
        (needOf verb prec ex) := by
    by_cases h0 : needOf verb prec ex = 0
    · exact ⟨m, [], by rw [if_pos h0], rfl, by rw [h0]; rfl⟩
    · obtain ⟨m', hf, hm'⟩ := forward_chain3 c m b v _ (needOf verb prec ex) hbase hv (fits_mono hfit hle)
      refine ⟨m', Spec.windowList m.src.len m.src.digit (Spec.winOf ((limits.map ViewOp.withSig).map toSpecOp)) (needOf verb prec ex), ?_, hm', ?_⟩
      · rw [if_neg h0, ← hst]; exact hf
      · rw [hnd, ← List.map_take, windowList_take _ _ _ _ _ hle]
  obtain ⟨m', xs, hsc, hm', hxs⟩ := htrav
  have hds : ∀ d ∈ xs.map (·.2), d ≤ 9 := by
    intro d hd'
    rw [hxs, hnd] at hd'
    obtain ⟨x, hx, rfl⟩ := List.mem_map.1 (List.mem_of_mem_take hd')
    rw [windowList_digit _ _ _ _ x hx]; exact hd _
  refine ⟨m', _, ?_, hm', (render_take verb prec width minus ex _ _ (Nat.le_refl _))⟩
  unfold format3
  rw [hexp]
  simp only [hnum, Bool.not_true, Bool.false_eq_true, if_false]
  rw [hneed, hsc]
  simp only
  rw [format_spec .v3 ex _ hds, hxs]

end Sqroot.Proofs

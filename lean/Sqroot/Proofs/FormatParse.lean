/-
Helper lemmas for C08: characterisation of `Spec.parsePositional` on digit strings
(`String.splitOn`, `String.all`, `String.toNat!` moved to `List Char`).
-/
import Batteries.Data.String.Lemmas
import Std.Data.String.ToNat
import Sqroot.Spec.Format
namespace Sqroot.Proofs.Fmt
open String

/-- list-level splitting at '.' : `cur` is the current (unfinished) piece -/
def splitDot : List Char → List Char → List (List Char)
  | cur, [] => [cur]
  | cur, c :: r => if c = '.' then cur :: splitDot [] r else splitDot (cur ++ [c]) r

theorem dot_facts : Pos.Raw.get "." 0 = '.' ∧ Pos.Raw.next "." 0 = ⟨1⟩ ∧ Pos.Raw.atEnd "." ⟨1⟩ = true ∧ ("." == "") = false := by
  decide

theorem splitOnAux_dot (l m r : List Char) (acc : List String) :
    splitOnAux (ofList (l ++ m ++ r)) "." ⟨utf8Len l⟩ ⟨utf8Len l + utf8Len m⟩ 0 acc =
      acc.reverse ++ (splitDot m r).map ofList := by
  induction r generalizing l m acc with
  | nil =>
    unfold splitOnAux
    have h1 : Pos.Raw.atEnd (ofList (l ++ m ++ [])) ⟨utf8Len l + utf8Len m⟩ = true := by
      have := (atEnd_of_valid (l ++ m) []).2 rfl
      simpa using this
    simp only [h1, if_true]
    have := extract_of_valid l m []
    simp only [this, splitDot]
    simp
  | cons c r ih =>
    unfold splitOnAux
    have h1 : Pos.Raw.atEnd (ofList (l ++ m ++ c :: r)) ⟨utf8Len l + utf8Len m⟩ = false := by
      have := (atEnd_of_valid (l ++ m) (c :: r))
      simp only [utf8Len_append] at this
      cases h : Pos.Raw.atEnd (ofList (l ++ m ++ c :: r)) ⟨utf8Len l + utf8Len m⟩
      · rfl
      · exact absurd (this.1 h) (by simp)
    have h2 : Pos.Raw.get (ofList (l ++ m ++ c :: r)) ⟨utf8Len l + utf8Len m⟩ = c := by
      have := get_of_valid (l ++ m) (c :: r)
      simpa using this
    have h3 : Pos.Raw.next (ofList (l ++ m ++ c :: r)) ⟨utf8Len l + utf8Len m⟩ = ⟨utf8Len l + utf8Len m + c.utf8Size⟩ := by
      have := next_of_valid (l ++ m) c r
      simpa using this
    obtain ⟨d1, d2, d3, d4⟩ := dot_facts
    simp only [h1, h2, Bool.false_eq_true, if_false, d1]
    by_cases hc : c = '.'
    · subst hc
      simp only [beq_self_eq_true, if_true, h3, d2, d3, splitDot]
      have e1 : (⟨utf8Len l + utf8Len m + '.'.utf8Size⟩ : Pos.Raw).unoffsetBy ⟨1⟩ = ⟨utf8Len l + utf8Len m⟩ := by
        simp [Pos.Raw.unoffsetBy]; rfl
      rw [e1, extract_of_valid l m ('.' :: r)]
      have := ih (l ++ m ++ ['.']) [] (ofList m :: acc)
      simp only [utf8Len_append, utf8Len_cons, utf8Len_nil, List.append_assoc, List.append_nil, List.cons_append, List.nil_append, Nat.add_zero, Nat.zero_add] at this
      simp only [Nat.add_assoc, List.append_assoc] at this ⊢
      rw [this]
      simp
    · have hc' : (c == '.') = false := by simp [hc]
      simp only [hc', Bool.false_eq_true, if_false, splitDot, hc]
      have e1 : (⟨utf8Len l + utf8Len m⟩ : Pos.Raw).unoffsetBy 0 = ⟨utf8Len l + utf8Len m⟩ := by
        simp [Pos.Raw.unoffsetBy]
      rw [e1, h3]
      have := ih l (m ++ [c]) acc
      simp only [utf8Len_append, utf8Len_cons, utf8Len_nil, List.append_assoc, List.cons_append, List.nil_append, Nat.zero_add] at this
      simp only [Nat.add_assoc, List.append_assoc] at this ⊢
      exact this


theorem splitOn_dot (r : List Char) :
    (ofList r).splitOn "." = (splitDot [] r).map ofList := by
  unfold String.splitOn
  simp only [dot_facts.2.2.2, Bool.false_eq_true, if_false]
  have := splitOnAux_dot [] [] r []
  simpa using this

theorem splitDot_append (cur a rest : List Char) (ha : '.' ∉ a) :
    splitDot cur (a ++ rest) = splitDot (cur ++ a) rest := by
  induction a generalizing cur with
  | nil => simp
  | cons c a ih =>
    have hc : ¬ (c = '.') := by intro h; subst h; simp at ha
    have ha' : '.' ∉ a := by intro h; exact ha (List.mem_cons_of_mem _ h)
    simp only [List.cons_append, splitDot, hc, if_false]
    rw [ih _ ha']; simp

theorem splitDot_one (a : List Char) (ha : '.' ∉ a) : splitDot [] a = [a] := by
  have := splitDot_append [] a [] ha
  simpa [splitDot] using this

theorem splitDot_two (a b : List Char) (ha : '.' ∉ a) (hb : '.' ∉ b) :
    splitDot [] (a ++ '.' :: b) = [a, b] := by
  rw [splitDot_append [] a _ ha]
  simp [splitDot, splitDot_one b hb]

/-- the fold used by `String.toNat!` -/
def valF (n : Nat) (l : List Char) : Nat :=
  l.foldl (fun n c => if c = '_' then n else n * 10 + (c.toNat - '0'.toNat)) n

theorem toNat!_ofList (l : List Char) (hne : l ≠ []) (hd : ∀ c ∈ l, c.isDigit = true) :
    (ofList l).toNat! = valF 0 l := by
  have h : (ofList l).isNat = true := by
    apply String.isNat_of_isDigit
    · intro h; apply hne; simpa using congrArg String.toList h
    · simpa using hd
  unfold String.toNat! String.Slice.toNat!
  rw [String.isNat_toSlice, h]
  simp only [if_true, String.Slice.foldl_eq_foldl_toList, String.copy_toSlice, String.toList_ofList]
  rfl

theorem isDigit_not_dot (l : List Char) (hd : ∀ c ∈ l, c.isDigit = true) : '.' ∉ l := by
  intro h; have := hd _ h; simp at this

theorem parse_int (a : List Char) (hne : a ≠ []) (hd : ∀ c ∈ a, c.isDigit = true) :
    Spec.parsePositional (ofList a) = some (valF 0 a, 0) := by
  unfold Spec.parsePositional
  rw [splitOn_dot, splitDot_one a (isDigit_not_dot a hd)]
  simp only [List.map_cons, List.map_nil]
  have h1 : (ofList a).all Char.isDigit = true := by
    rw [String.all_bool_eq]; simpa using hd
  have h2 : ofList a ≠ "" := by
    intro h; apply hne; simpa using congrArg String.toList h
  simp only [h1, h2, ne_eq, not_false_eq_true, and_self, if_true, toNat!_ofList a hne hd]

theorem parse_frac (a b : List Char) (hne : a ≠ []) (hda : ∀ c ∈ a, c.isDigit = true)
    (hdb : ∀ c ∈ b, c.isDigit = true) :
    Spec.parsePositional (ofList (a ++ '.' :: b)) = some (valF 0 (a ++ b), b.length) := by
  unfold Spec.parsePositional
  rw [splitOn_dot, splitDot_two a b (isDigit_not_dot a hda) (isDigit_not_dot b hdb)]
  simp only [List.map_cons, List.map_nil]
  have h1 : (ofList a).all Char.isDigit = true := by
    rw [String.all_bool_eq]; simpa using hda
  have h1' : (ofList b).all Char.isDigit = true := by
    rw [String.all_bool_eq]; simpa using hdb
  have h2 : ofList a ≠ "" := by
    intro h; apply hne; simpa using congrArg String.toList h
  have h3 : (ofList a ++ ofList b).toNat! = valF 0 (a ++ b) := by
    rw [← String.ofList_append]
    apply toNat!_ofList
    · simp [hne]
    · intro c hc; rcases List.mem_append.1 hc with h | h
      · exact hda c h
      · exact hdb c h
  simp only [h1, h1', h2, ne_eq, not_false_eq_true, and_self, if_true, h3, String.length_ofList]

end Sqroot.Proofs.Fmt

/-
The ideal printer emits exactly the canonical layout: `emit c shown = Spec.layout c.toPOpts shown`.
-/
import Sqroot.Proofs.PrintIdeal
namespace Sqroot.Proofs.Prt
open Sqroot.Model

/-! ### the spec cell split into prefix and rune; a generalised `layoutCells` -/

/-- what precedes the rune in a cell -/
def specPre (o : Spec.POpts) (first : Bool) (q : Nat) : List Nat :=
  if q = 0 then Spec.utf8 o.zeroString
  else if o.digitsPerRow > 0 ∧ q % o.digitsPerRow.toNat = 0 then
    (if first then [] else [10]) ++
      (if o.countOn then Spec.utf8 (Spec.padLeft o.width (toString q) ++ "  ")
        else Spec.utf8 o.nonZeroString)
  else if o.digitsPerColumn > 0 ∧ Spec.colOf o q % o.digitsPerColumn.toNat = 0 then [32]
  else []

/-- the rune of a cell -/
def specRune (o : Spec.POpts) (shown : List (Nat × Nat)) (q : Nat) : List Nat :=
  match shown.find? (fun (p, _) => p == q) with
  | some (_, d) => [48 + d]
  | none => Spec.encodeRune o.missing

theorem cellBytes_eq (o : Spec.POpts) (shown : List (Nat × Nat)) (first : Bool) (q : Nat) :
    Spec.cellBytes o shown first q = specPre o first q ++ specRune o shown q := rfl

/-- `layoutCells` with an arbitrary rune function -/
def lay (o : Spec.POpts) (r : Nat → List Nat) : List Nat → Bool → List Nat
  | [], _ => []
  | q :: rest, first => (specPre o first q ++ r q) ++ lay o r rest false

theorem layoutCells_eq_lay (o : Spec.POpts) (shown : List (Nat × Nat)) (xs : List Nat) (f : Bool) :
    Spec.layoutCells o shown xs f = lay o (specRune o shown) xs f := by
  induction xs generalizing f with
  | nil => rfl
  | cons q rest ih => simp only [Spec.layoutCells, lay, cellBytes_eq, ih]

theorem lay_append (o : Spec.POpts) (r : Nat → List Nat) (xs ys : List Nat) (f : Bool) :
    lay o r (xs ++ ys) f = lay o r xs f ++ lay o r ys (f && xs.isEmpty) := by
  induction xs generalizing f with
  | nil => simp [lay]
  | cons q rest ih => simp [lay, ih]

theorem lay_congr (o : Spec.POpts) (r r' : Nat → List Nat) (xs : List Nat) (f : Bool)
    (h : ∀ q ∈ xs, r q = r' q) : lay o r xs f = lay o r' xs f := by
  induction xs generalizing f with
  | nil => rfl
  | cons q rest ih =>
    simp only [lay]
    rw [h q (by simp), ih _ (fun q hq => h q (by simp [hq]))]

theorem lay_isEmpty (o : Spec.POpts) (r : Nat → List Nat) (xs : List Nat) (f : Bool)
    (h : ∀ q, r q ≠ []) : (lay o r xs f).isEmpty = xs.isEmpty := by
  cases xs with
  | nil => rfl
  | cons q rest => simp [lay, h]

/-- relabelling the positions by `g` when neither prefix nor rune notices -/
theorem lay_map_congr (o : Spec.POpts) (r r' : Nat → List Nat) (g : Nat → Nat) (xs : List Nat)
    (f : Bool) (hp : ∀ q ∈ xs, ∀ b, specPre o b (g q) = specPre o b q)
    (hr : ∀ q ∈ xs, r' (g q) = r q) : lay o r' (xs.map g) f = lay o r xs f := by
  induction xs generalizing f with
  | nil => rfl
  | cons q rest ih =>
    simp only [List.map_cons, lay]
    rw [hp q (by simp), hr q (by simp),
      ih _ (fun q hq => hp q (by simp [hq])) (fun q hq => hr q (by simp [hq]))]

theorem encodeRune_ne_nil (r : Int) : encodeRune r ≠ [] := by
  unfold encodeRune
  split
  · simp
  · simp only []
    split
    · simp
    · split
      · simp
      · split <;> simp

theorem encodeRune_digit (dg : Nat) (h : dg ≤ 9) : encodeRune (48 + (dg : Int)) = [48 + dg] := by
  unfold encodeRune
  rw [if_neg (by omega)]
  simp only []
  rw [if_pos (by omega)]
  have : (48 + (dg : Int)).toNat = 48 + dg := by omega
  rw [this]

/-! ### one step of the ideal printer against the spec prefix -/

theorem tmod_cast (q : Nat) (x : Int) (hx : x > 0) :
    Int.tmod (q : Int) x = ((q % x.toNat : Nat) : Int) := by
  have h : x = (x.toNat : Int) := by omega
  rw [Int.ofNat_tmod, ← h]

theorem tdiv_cast (q : Nat) (x : Int) (hx : x > 0) :
    Int.tdiv (q : Int) x = ((q / x.toNat : Nat) : Int) := by
  have h : x = (x.toNat : Int) := by omega
  rw [Int.ofNat_tdiv, ← h]

theorem succ_mod_cases (q d : Nat) (hd : 0 < d) :
    (q + 1) % d = 0 ∨ (q + 1) % d = q % d + 1 := by
  have h1 := Nat.div_add_mod q d
  have h2 := Nat.mod_lt q hd
  by_cases h : q % d + 1 = d
  · left
    have : q + 1 = d * (q / d + 1) := by rw [Nat.mul_add, Nat.mul_one]; omega
    rw [this, Nat.mul_mod_right]
  · right
    have : q + 1 = d * (q / d) + (q % d + 1) := by omega
    rw [this, Nat.mul_add_mod, Nat.mod_eq_of_lt (by omega)]


/-- the ideal state sits at position `q` -/
def Inv (c : Cfg) (s : IP) (q : Nat) : Prop :=
  s.index = (q : Int) ∧
    ((c.dpr > 0 ∧ q % c.dpr.toNat = 0 ∧ q ≠ 0) ∨ s.inRow = ((Spec.colOf c.toPOpts q : Nat) : Int))

theorem nl_eq (l : List Nat) : (if l.length > 0 then [10] else ([] : List Nat)) =
    if l.isEmpty then [] else [10] := by
  cases l <;> simp

theorem startBytes_cast (c : Cfg) (q : Nat) (hq : q ≠ 0) :
    startBytes c.starter (q : Int) =
      if c.toPOpts.countOn then Spec.utf8 (Spec.padLeft c.toPOpts.width (toString q) ++ "  ")
        else Spec.utf8 c.toPOpts.nonZeroString := by
  unfold startBytes
  rw [if_neg (by omega)]
  rfl

theorem toPOpts_dpr (c : Cfg) : c.toPOpts.digitsPerRow = c.dpr := rfl
theorem toPOpts_dpc (c : Cfg) : c.toPOpts.digitsPerColumn = c.dpc := rfl

theorem ipre_fst (c : Cfg) (s : IP) (q : Nat) (h : Inv c s q) :
    (ipre c s).1 = specPre c.toPOpts s.out.isEmpty q := by
  obtain ⟨hi, hr⟩ := h
  unfold ipre specPre
  rw [hi]
  by_cases hq : q = 0
  · subst hq
    simp only [Int.natCast_eq_zero, if_true]
    rfl
  · rw [if_neg (by omega), if_neg hq]
    rw [toPOpts_dpr, toPOpts_dpc]
    by_cases hrow : c.dpr > 0 ∧ q % c.dpr.toNat = 0
    · rw [if_pos hrow, if_pos ⟨hrow.1, by rw [tmod_cast _ _ hrow.1, hrow.2]; rfl⟩]
      simp only [nl_eq, startBytes_cast c q hq]
    · have hrow' : ¬ (c.dpr > 0 ∧ Int.tmod (q : Int) c.dpr = 0) := by
        intro hh
        apply hrow
        refine ⟨hh.1, ?_⟩
        have := hh.2
        rw [tmod_cast _ _ hh.1] at this
        omega
      rw [if_neg hrow, if_neg hrow']
      have hcol : s.inRow = ((Spec.colOf c.toPOpts q : Nat) : Int) := by
        rcases hr with hr | hr
        · exact absurd ⟨hr.1, hr.2.1⟩ hrow
        · exact hr
      rw [hcol]
      by_cases hc : c.dpc > 0
      · rw [tmod_cast _ _ hc]
        simp only [hc, true_and, Int.natCast_eq_zero]
        split <;> rfl
      · simp [hc]


theorem ipre_snd (c : Cfg) (s : IP) (q : Nat) (h : Inv c s q) :
    (ipre c s).2 = if q = 0 ∨ (c.dpr > 0 ∧ q % c.dpr.toNat = 0) then 0
      else ((Spec.colOf c.toPOpts q : Nat) : Int) := by
  obtain ⟨hi, hr⟩ := h
  unfold ipre
  rw [hi]
  by_cases hq : q = 0
  · subst hq
    rcases hr with hr | hr
    · exact absurd rfl hr.2.2
    · simp only [Int.natCast_eq_zero, if_true, true_or, hr]
      simp [Spec.colOf]
  · rw [if_neg (by omega)]
    by_cases hrow : c.dpr > 0 ∧ q % c.dpr.toNat = 0
    · rw [if_pos (Or.inr hrow), if_pos ⟨hrow.1, by rw [tmod_cast _ _ hrow.1, hrow.2]; rfl⟩]
    · have hrow' : ¬ (c.dpr > 0 ∧ Int.tmod (q : Int) c.dpr = 0) := by
        intro hh
        apply hrow
        refine ⟨hh.1, ?_⟩
        have := hh.2
        rw [tmod_cast _ _ hh.1] at this
        omega
      have hne : ¬ (q = 0 ∨ (c.dpr > 0 ∧ q % c.dpr.toNat = 0)) := by
        intro h
        rcases h with h | h
        · exact hq h
        · exact hrow h
      rw [if_neg hrow', if_neg hne]
      have hcol : s.inRow = ((Spec.colOf c.toPOpts q : Nat) : Int) := by
        rcases hr with hr | hr
        · exact absurd ⟨hr.1, hr.2.1⟩ hrow
        · exact hr
      split <;> exact hcol

theorem iconsume_inv (c : Cfg) (s : IP) (q : Nat) (r : Int) (h : Inv c s q) :
    Inv c (iconsume c s r) (q + 1) := by
  have h2 := ipre_snd c s q h
  obtain ⟨hi, -⟩ := h
  refine ⟨by show s.index + 1 = _; rw [hi]; omega, ?_⟩
  show _ ∨ (ipre c s).2 + 1 = _
  rw [h2]
  unfold Spec.colOf
  rw [toPOpts_dpr]
  by_cases hd : c.dpr > 0
  · simp only [hd, if_true, true_and]
    have hd' : 0 < c.dpr.toNat := by omega
    rcases succ_mod_cases q c.dpr.toNat hd' with h0 | h1
    · left; exact ⟨h0, by omega⟩
    · right
      rw [h1]
      by_cases hq : q = 0
      · subst hq; simp
      · simp only [hq, false_or]
        split
        · rename_i hz; rw [hz]; rfl
        · omega
  · right
    simp only [hd, if_false, false_and, or_false]
    split
    · rename_i hz; rw [hz]; rfl
    · omega

theorem iconsume_out (c : Cfg) (s : IP) (q : Nat) (r : Int) (h : Inv c s q) :
    (iconsume c s r).out = s.out ++ (specPre c.toPOpts s.out.isEmpty q ++ encodeRune r) := by
  show s.out ++ ((ipre c s).1 ++ encodeRune r) = _
  rw [ipre_fst c s q h]


theorem iconsume_out_isEmpty (c : Cfg) (s : IP) (r : Int) : (iconsume c s r).out.isEmpty = false := by
  show (s.out ++ ((ipre c s).1 ++ encodeRune r)).isEmpty = false
  have := encodeRune_ne_nil r
  simp [this]

theorem igap_spec (c : Cfg) (n : Nat) : ∀ (s : IP) (i : Nat), Inv c s i →
    (igap c ((i + n : Nat) : Int) n s).out =
        s.out ++ lay c.toPOpts (fun _ => encodeRune c.missing) (List.range' i n) s.out.isEmpty
      ∧ Inv c (igap c ((i + n : Nat) : Int) n s) (i + n) := by
  induction n with
  | zero => intro s i h; simpa [igap, lay] using h
  | succ n ih =>
    intro s i h
    have hlt : s.index < ((i + (n + 1) : Nat) : Int) := by rw [h.1]; omega
    have e : i + (n + 1) = (i + 1) + n := by omega
    unfold igap
    rw [if_pos hlt, e]
    obtain ⟨h1, h2⟩ := ih _ _ (iconsume_inv c s i c.missing h)
    refine ⟨?_, h2⟩
    rw [h1, iconsume_out_isEmpty, iconsume_out c s i _ h, List.range'_succ]
    simp only [lay, List.append_assoc]


theorem isEmpty_append' (a b : List Nat) : (a ++ b).isEmpty = (a.isEmpty && b.isEmpty) := by
  cases a <;> simp
theorem gap_digit (c : Cfg) (s : IP) (j p dg : Nat) (R : Nat → List Nat) (h : Inv c s j)
    (hjp : j ≤ p) (hR : ∀ q, j ≤ q → q < p → R q = encodeRune c.missing)
    (hRp : R p = encodeRune (48 + (dg : Int))) :
    (iconsume c (igap c (p : Int) ((p : Int) - s.index).toNat s) (48 + (dg : Int))).out =
        s.out ++ lay c.toPOpts R (List.range' j (p + 1 - j)) s.out.isEmpty
      ∧ Inv c (iconsume c (igap c (p : Int) ((p : Int) - s.index).toNat s) (48 + (dg : Int))) (p + 1) := by
  obtain ⟨n, rfl⟩ : ∃ n, p = j + n := ⟨p - j, by omega⟩
  have e1 : (((j + n : Nat) : Int) - s.index).toNat = n := by rw [h.1]; omega
  have e2 : j + n + 1 - j = n + 1 := by omega
  rw [e1, e2]
  obtain ⟨h1, h2⟩ := igap_spec c n s j h
  refine ⟨?_, iconsume_inv c _ _ _ h2⟩
  rw [iconsume_out c _ _ _ h2, h1, List.range'_1_concat, lay_append, isEmpty_append',
    lay_isEmpty _ _ _ _ (fun _ => encodeRune_ne_nil _)]
  rw [lay_congr c.toPOpts R (fun _ => encodeRune c.missing) (List.range' j n) _
    (fun q hq => by rw [List.mem_range'_1] at hq; exact hR q hq.1 hq.2)]
  simp only [lay, hRp, List.append_assoc, List.append_nil]


/-! ### rows, arithmetically (`d` is the row length) -/

theorem row_top {d p q : Nat} (hd : 0 < d) (h1 : (p / d) * d ≤ q) (h2 : q ≤ p) : q / d = p / d :=
  Nat.le_antisymm (Nat.div_le_div_right h2) ((Nat.le_div_iff_mul_le hd).2 h1)

theorem row_below {d p q : Nat} (hd : 0 < d) (h : q < (p / d) * d) : q / d < p / d :=
  (Nat.div_lt_iff_lt_mul hd).2 h

theorem mod_zero_eq {d i : Nat} (h : i % d = 0) : i = (i / d) * d := by
  have := Nat.div_add_mod i d
  rw [h, Nat.mul_comm] at this
  omega

theorem row_pred_lt {d i : Nat} (hd : 0 < d) (h : i % d = 0) (h0 : i ≠ 0) : (i - 1) / d < i / d := by
  rw [Nat.div_lt_iff_lt_mul hd, ← mod_zero_eq h]
  omega

theorem row_pred_eq {d i : Nat} (hd : 0 < d) (h : i % d ≠ 0) : (i - 1) / d = i / d := by
  have h1 := Nat.div_add_mod i d
  have h2 := Nat.mod_lt i hd
  have : i - 1 = d * (i / d) + (i % d - 1) := by omega
  have h3 : (i % d - 1) / d = 0 := Nat.div_eq_of_lt (by omega)
  rw [this, Nat.mul_add_div hd, h3]
  rfl

theorem lt_row_end {d i : Nat} (hd : 0 < d) : i < (i / d + 1) * d :=
  (Nat.div_lt_iff_lt_mul hd).1 (Nat.lt_succ_self _)

theorem row_start_le {d p : Nat} : (p / d) * d ≤ p := Nat.div_mul_le_self p d

theorem row_same {d i q : Nat} (hd : 0 < d) (h1 : i ≤ q) (h2 : q < (i / d + 1) * d) : q / d = i / d :=
  Nat.le_antisymm (Nat.le_of_lt_succ ((Nat.div_lt_iff_lt_mul hd).2 h2)) (Nat.div_le_div_right h1)

theorem row_above {d i q : Nat} (hd : 0 < d) (h : (i / d + 1) * d ≤ q) : i / d < q / d :=
  (Nat.le_div_iff_mul_le hd).2 h

theorem row_end_le_start {d i p : Nat} (h : i / d < p / d) : (i / d + 1) * d ≤ (p / d) * d :=
  Nat.mul_le_mul_right d h

/-- mid-row positions are not row starts -/
theorem mid_row_mod {d i q : Nat} (hd : 0 < d) (hi : i % d ≠ 0) (h1 : i ≤ q) (h2 : q < (i / d + 1) * d) :
    q % d ≠ 0 := by
  intro h
  have e := mod_zero_eq h
  rw [row_same hd h1 h2] at e
  have := @row_start_le d i
  have : q = i := by omega
  exact hi (this ▸ h)

theorem range'_split (a n b : Nat) (h1 : a ≤ b) (h2 : b ≤ a + n) :
    List.range' a n = List.range' a (b - a) ++ List.range' b (a + n - b) := by
  have := @List.range'_append_1 a (b - a) (a + n - b)
  have e1 : a + (b - a) = b := by omega
  have e2 : b - a + (a + n - b) = n := by omega
  rw [e1, e2] at this
  exact this.symm


/-! ### the cells added by one more shown position -/

def ncond (o : Spec.POpts) (i p q : Nat) : Bool :=
  !(o.countOn && decide (o.digitsPerRow > 0)) ||
    ((decide (i ≠ 0) && Spec.rowOf o (i - 1) == Spec.rowOf o q) || Spec.rowOf o p == Spec.rowOf o q)

def newcells (o : Spec.POpts) (i p : Nat) : List Nat := (List.range' i (p + 1 - i)).filter (ncond o i p)

theorem ncond_off (o : Spec.POpts) (i p q : Nat) (h : ¬ (o.digitsPerRow > 0 ∧ o.countOn = true)) :
    ncond o i p q = true := by
  unfold ncond
  by_cases h1 : o.digitsPerRow > 0
  · have : o.countOn = false := by simpa [h1] using h
    simp [this]
  · simp [h1]

theorem ncond_on (o : Spec.POpts) (i p q d : Nat) (hdd : d = o.digitsPerRow.toNat)
    (hd : o.digitsPerRow > 0) (hc : o.countOn = true) :
    ncond o i p q = true ↔ (i ≠ 0 ∧ (i - 1) / d = q / d) ∨ p / d = q / d := by
  subst hdd
  simp [ncond, Spec.rowOf, hd, hc]

theorem newcells_off (o : Spec.POpts) (i p : Nat) (h : ¬ (o.digitsPerRow > 0 ∧ o.countOn = true)) :
    newcells o i p = List.range' i (p + 1 - i) :=
  List.filter_eq_self.2 fun q _ => ncond_off o i p q h

theorem newcells_self (o : Spec.POpts) (p : Nat) : newcells o p p = [p] := by
  have : p + 1 - p = 1 := by omega
  simp [newcells, this, ncond]

theorem newcells_rowstart (o : Spec.POpts) (i p d : Nat) (hdd : d = o.digitsPerRow.toNat)
    (hd : o.digitsPerRow > 0) (hc : o.countOn = true) (hi : i % d = 0) (hip : i ≤ p) :
    newcells o i p = List.range' (p / d * d) (p + 1 - p / d * d) := by
  have hd' : 0 < d := by omega
  have hle := @row_start_le d p
  have hie : i ≤ p / d * d := by
    rw [mod_zero_eq hi]
    exact Nat.mul_le_mul_right d (Nat.div_le_div_right hip)
  unfold newcells
  rw [range'_split i (p + 1 - i) (p / d * d) hie (by omega), List.filter_append]
  have e : i + (p + 1 - i) - p / d * d = p + 1 - p / d * d := by omega
  rw [e]
  have h1 : List.filter (ncond o i p) (List.range' i (p / d * d - i)) = [] := by
    rw [List.filter_eq_nil_iff]
    intro q hq
    rw [List.mem_range'_1] at hq
    rw [ncond_on o i p q d hdd hd hc]
    have hb := row_below hd' (show q < p / d * d by omega)
    have hm := Nat.div_le_div_right (c := d) hq.1
    rintro (⟨h0, h1⟩ | h1)
    · have := row_pred_lt hd' hi h0
      omega
    · omega
  have h2 : List.filter (ncond o i p) (List.range' (p / d * d) (p + 1 - p / d * d)) =
      List.range' (p / d * d) (p + 1 - p / d * d) := by
    rw [List.filter_eq_self]
    intro q hq
    rw [List.mem_range'_1] at hq
    rw [ncond_on o i p q d hdd hd hc]
    right
    exact (row_top hd' hq.1 (by omega)).symm
  rw [h1, h2, List.nil_append]


theorem newcells_near (o : Spec.POpts) (i p d : Nat) (hdd : d = o.digitsPerRow.toNat)
    (hd : o.digitsPerRow > 0) (hc : o.countOn = true) (hip : i ≤ p) (hrow : ¬ i / d < p / d) :
    newcells o i p = List.range' i (p + 1 - i) := by
  have hd' : 0 < d := by omega
  unfold newcells
  rw [List.filter_eq_self]
  intro q hq
  rw [List.mem_range'_1] at hq
  rw [ncond_on o i p q d hdd hd hc]
  right
  have h1 := Nat.div_le_div_right (c := d) hq.1
  have h2 := Nat.div_le_div_right (c := d) (show q ≤ p by omega)
  omega

theorem newcells_far (o : Spec.POpts) (i p d : Nat) (hdd : d = o.digitsPerRow.toNat)
    (hd : o.digitsPerRow > 0) (hc : o.countOn = true) (hi : i % d ≠ 0) (hrow : i / d < p / d) :
    newcells o i p = List.range' i ((i / d + 1) * d - i) ++
      List.range' (p / d * d) (p + 1 - p / d * d) := by
  have hd' : 0 < d := by omega
  have hle := @row_start_le d p
  have hes := @row_end_le_start d i p hrow
  have hie := @lt_row_end d i hd'
  have hi0 : i ≠ 0 := by intro h; subst h; simp at hi
  unfold newcells
  rw [range'_split i (p + 1 - i) ((i / d + 1) * d) (by omega) (by omega),
    range'_split ((i / d + 1) * d) (i + (p + 1 - i) - (i / d + 1) * d) (p / d * d) hes (by omega),
    List.filter_append, List.filter_append]
  have e : (i / d + 1) * d + (i + (p + 1 - i) - (i / d + 1) * d) - p / d * d = p + 1 - p / d * d := by
    omega
  rw [e]
  have h1 : List.filter (ncond o i p) (List.range' i ((i / d + 1) * d - i)) =
      List.range' i ((i / d + 1) * d - i) := by
    rw [List.filter_eq_self]
    intro q hq
    rw [List.mem_range'_1] at hq
    rw [ncond_on o i p q d hdd hd hc]
    left
    refine ⟨hi0, ?_⟩
    rw [row_pred_eq hd' hi, row_same hd' hq.1 (by omega)]
  have h2 : List.filter (ncond o i p) (List.range' ((i / d + 1) * d) (p / d * d - (i / d + 1) * d)) =
      [] := by
    rw [List.filter_eq_nil_iff]
    intro q hq
    rw [List.mem_range'_1] at hq
    rw [ncond_on o i p q d hdd hd hc, row_pred_eq hd' hi]
    have hb := row_below hd' (show q < p / d * d by omega)
    have ha := row_above hd' hq.1
    omega
  have h3 : List.filter (ncond o i p) (List.range' (p / d * d) (p + 1 - p / d * d)) =
      List.range' (p / d * d) (p + 1 - p / d * d) := by
    rw [List.filter_eq_self]
    intro q hq
    rw [List.mem_range'_1] at hq
    rw [ncond_on o i p q d hdd hd hc]
    right
    exact (row_top hd' hq.1 (by omega)).symm
  rw [h1, h2, h3, List.nil_append]


/-! ### `iskip` -/

theorem iskip_rowstart (c : Cfg) (s : IP) (i p d : Nat) (hdd : d = c.dpr.toNat) (hd : c.dpr > 0)
    (h : Inv c s i) (hi : i % d = 0) (hip : i ≤ p) :
    iskip c s (p : Int) = { s with index := ((p / d * d : Nat) : Int) } := by
  subst hdd
  unfold iskip
  simp only []
  rw [h.1, tmod_cast _ _ hd, tdiv_cast _ _ hd, tdiv_cast _ _ hd, hi, if_pos (show ((0 : Nat) : Int) = 0 from rfl)]
  congr 1
  have e := mod_zero_eq hi
  have hle := Nat.div_le_div_right (c := c.dpr.toNat) hip
  have hdpr : c.dpr = (c.dpr.toNat : Int) := by omega
  generalize c.dpr.toNat = d at *
  generalize p / d = a at *
  generalize i / d = b at *
  subst e
  rw [hdpr, Int.natCast_mul, Int.natCast_mul, Int.sub_mul]
  omega

theorem iskip_far (c : Cfg) (s : IP) (i p d : Nat) (hdd : d = c.dpr.toNat) (hd : c.dpr > 0)
    (h : Inv c s i) (hi : i % d ≠ 0) (hrow : i / d < p / d) :
    iskip c s (p : Int) = { s with index := ((i + (p / d - i / d - 1) * d : Nat) : Int) } := by
  subst hdd
  unfold iskip
  simp only []
  rw [h.1, tmod_cast _ _ hd, tdiv_cast _ _ hd, tdiv_cast _ _ hd, if_neg (by omega), if_pos (by omega)]
  congr 1
  have hdpr : c.dpr = (c.dpr.toNat : Int) := by omega
  have : ((p / c.dpr.toNat : Nat) : Int) - ((i / c.dpr.toNat : Nat) : Int) - 1 =
      ((p / c.dpr.toNat - i / c.dpr.toNat - 1 : Nat) : Int) := by omega
  rw [this, Int.natCast_add, Int.natCast_mul, ← hdpr]

theorem iskip_near (c : Cfg) (s : IP) (i p d : Nat) (hdd : d = c.dpr.toNat) (hd : c.dpr > 0)
    (h : Inv c s i) (hi : i % d ≠ 0) (hrow : ¬ i / d < p / d) :
    iskip c s (p : Int) = s := by
  subst hdd
  unfold iskip
  simp only []
  rw [h.1, tmod_cast _ _ hd, tdiv_cast _ _ hd, tdiv_cast _ _ hd, if_neg (by omega), if_neg (by omega)]


/-! ### `ipconsume` unfolded -/

theorem ipconsume_ge (c : Cfg) (s : IP) (p dg : Nat) (h : ¬ s.index < (p : Int)) :
    ipconsume c s (p, dg) = iconsume c s (48 + (dg : Int)) := by
  unfold ipconsume
  simp only [h, if_false]

theorem ipconsume_noskip (c : Cfg) (s : IP) (p dg : Nat) (hlt : s.index < (p : Int))
    (h : ¬ (c.dpr > 0 ∧ c.starter.countOn = true)) :
    ipconsume c s (p, dg) =
      iconsume c (igap c (p : Int) ((p : Int) - s.index).toNat s) (48 + (dg : Int)) := by
  unfold ipconsume
  simp only [hlt, h, if_true, if_false]

theorem ipconsume_skip (c : Cfg) (s : IP) (p dg : Nat) (hlt : s.index < (p : Int))
    (h : c.dpr > 0 ∧ c.starter.countOn = true) :
    ipconsume c s (p, dg) =
      iconsume c (igap c (p : Int) ((p : Int) - (iskip c s (p : Int)).index).toNat (iskip c s (p : Int)))
        (48 + (dg : Int)) := by
  unfold ipconsume
  simp only [hlt, h, if_true, and_self]

theorem specPre_shift (o : Spec.POpts) (d : Nat) (hdd : d = o.digitsPerRow.toNat)
    (hd : o.digitsPerRow > 0) (q m : Nat) (b : Bool) (hq : q % d ≠ 0) :
    specPre o b (q + m * d) = specPre o b q := by
  subst hdd
  have hq0 : q ≠ 0 := by intro h; subst h; simp at hq
  have hm : (q + m * o.digitsPerRow.toNat) % o.digitsPerRow.toNat = q % o.digitsPerRow.toNat :=
    Nat.add_mul_mod_self_right _ _ _
  have hcol : Spec.colOf o (q + m * o.digitsPerRow.toNat) = Spec.colOf o q := by
    unfold Spec.colOf
    rw [if_pos hd, if_pos hd, hm]
  have hn : ¬ (o.digitsPerRow > 0 ∧ q % o.digitsPerRow.toNat = 0) := fun h => hq h.2
  unfold specPre
  rw [if_neg (by omega), if_neg hq0, hm, hcol, if_neg hn, if_neg hn]

theorem skip_arith {d i p : Nat} (hd : 0 < d) (hrow : i / d < p / d) :
    i + (p / d - i / d - 1) * d + ((i / d + 1) * d - i) = p / d * d := by
  have hie := @lt_row_end d i hd
  have : (i / d + 1) * d + (p / d - i / d - 1) * d = p / d * d := by
    rw [← Nat.add_mul]
    congr 1
    omega
  omega


theorem range'_isEmpty (a b n : Nat) : (List.range' a n).isEmpty = (List.range' b n).isEmpty := by
  cases n <;> rfl

/-- the marks after a skip, emitted at shifted positions, read as the cells of the old row -/
theorem lay_far (o : Spec.POpts) (d : Nat) (hdd : d = o.digitsPerRow.toNat) (hd : o.digitsPerRow > 0)
    (i p : Nat) (hi : i % d ≠ 0) (hrow : i / d < p / d) (R R' : Nat → List Nat) (f : Bool)
    (miss : List Nat) (hR : ∀ q, i ≤ q → q < p → R q = miss)
    (hR1 : ∀ q, q < p / d * d → R' q = miss) (hR2 : ∀ q, p / d * d ≤ q → R' q = R q) :
    lay o R' (List.range' (i + (p / d - i / d - 1) * d) (p + 1 - (i + (p / d - i / d - 1) * d))) f =
      lay o R (List.range' i ((i / d + 1) * d - i) ++ List.range' (p / d * d) (p + 1 - p / d * d)) f := by
  have hd' : 0 < d := by omega
  have hle := @row_start_le d p
  have hie := @lt_row_end d i hd'
  have hsk := skip_arith hd' hrow
  generalize hm : p / d - i / d - 1 = m at *
  have e1 : i + m * d + (p + 1 - (i + m * d)) - p / d * d = p + 1 - p / d * d := by omega
  have e2 : p / d * d - (i + m * d) = (i / d + 1) * d - i := by omega
  rw [range'_split (i + m * d) _ (p / d * d) (by omega) (by omega), e1, e2, lay_append, lay_append,
    range'_isEmpty (i + m * d) i]
  congr 1
  · rw [Nat.add_comm i (m * d), ← List.map_add_range']
    apply lay_map_congr
    · intro q hq b
      rw [List.mem_range'_1] at hq
      rw [Nat.add_comm]
      exact specPre_shift o d hdd hd q m b (mid_row_mod hd' hi hq.1 (by omega))
    · intro q hq
      rw [List.mem_range'_1] at hq
      rw [hR1 _ (by omega), hR q hq.1 (by omega)]
  · apply lay_congr
    intro q hq
    rw [List.mem_range'_1] at hq
    exact hR2 q hq.1


theorem toPOpts_countOn (c : Cfg) : c.toPOpts.countOn = c.starter.countOn := rfl

/-- what one shown position adds to the output -/
def StepOK (c : Cfg) (s : IP) (i p dg : Nat) (R : Nat → List Nat) : Prop :=
  (ipconsume c s (p, dg)).out = s.out ++ lay c.toPOpts R (newcells c.toPOpts i p) s.out.isEmpty
    ∧ Inv c (ipconsume c s (p, dg)) (p + 1)

theorem step_eq (c : Cfg) (s : IP) (p dg : Nat) (R : Nat → List Nat) (h : Inv c s p)
    (hRp : R p = encodeRune (48 + (dg : Int))) : StepOK c s p p dg R := by
  unfold StepOK
  rw [ipconsume_ge c s p dg (by rw [h.1]; omega), newcells_self]
  refine ⟨?_, iconsume_inv c s p _ h⟩
  rw [iconsume_out c s p _ h]
  simp only [lay, hRp, List.append_nil]

theorem step_off (c : Cfg) (s : IP) (i p dg : Nat) (R : Nat → List Nat) (h : Inv c s i) (hip : i < p)
    (hR : ∀ q, i ≤ q → q < p → R q = encodeRune c.missing)
    (hRp : R p = encodeRune (48 + (dg : Int)))
    (hoff : ¬ (c.dpr > 0 ∧ c.starter.countOn = true)) : StepOK c s i p dg R := by
  unfold StepOK
  rw [ipconsume_noskip c s p dg (by rw [h.1]; omega) hoff, newcells_off _ _ _ hoff]
  exact gap_digit c s i p dg R h (by omega) hR hRp

theorem step_near (c : Cfg) (s : IP) (i p dg d : Nat) (R : Nat → List Nat) (h : Inv c s i) (hip : i < p)
    (hR : ∀ q, i ≤ q → q < p → R q = encodeRune c.missing)
    (hRp : R p = encodeRune (48 + (dg : Int))) (hdd : d = c.dpr.toNat)
    (hon : c.dpr > 0 ∧ c.starter.countOn = true) (hi : i % d ≠ 0) (hrow : ¬ i / d < p / d) :
    StepOK c s i p dg R := by
  unfold StepOK
  rw [ipconsume_skip c s p dg (by rw [h.1]; omega) hon, iskip_near c s i p d hdd hon.1 h hi hrow,
    newcells_near c.toPOpts i p d hdd hon.1 hon.2 (by omega) hrow]
  exact gap_digit c s i p dg R h (by omega) hR hRp

theorem step_rowstart (c : Cfg) (s : IP) (i p dg d : Nat) (R : Nat → List Nat) (h : Inv c s i)
    (hip : i < p) (hR : ∀ q, i ≤ q → q < p → R q = encodeRune c.missing)
    (hRp : R p = encodeRune (48 + (dg : Int))) (hdd : d = c.dpr.toNat)
    (hon : c.dpr > 0 ∧ c.starter.countOn = true) (hi : i % d = 0) : StepOK c s i p dg R := by
  unfold StepOK
  have hd' : 0 < d := by omega
  have hle := @row_start_le d p
  have hie : i ≤ p / d * d := by
    rw [mod_zero_eq hi]
    exact Nat.mul_le_mul_right d (Nat.div_le_div_right (by omega))
  rw [ipconsume_skip c s p dg (by rw [h.1]; omega) hon,
    iskip_rowstart c s i p d hdd hon.1 h hi (by omega),
    newcells_rowstart c.toPOpts i p d hdd hon.1 hon.2 hi (by omega)]
  have hinv : Inv c { s with index := ((p / d * d : Nat) : Int) } (p / d * d) := by
    refine ⟨rfl, ?_⟩
    by_cases h0 : p / d * d = 0
    · have hi0 : i = 0 := by omega
      rw [h0]
      rcases h.2 with h2 | h2
      · exact absurd hi0 h2.2.2
      · right; rw [hi0] at h2; exact h2
    · left
      exact ⟨hon.1, by rw [← hdd]; exact Nat.mul_mod_left _ _, h0⟩
  exact gap_digit c _ (p / d * d) p dg R hinv hle (fun q h1 h2 => hR q (by omega) h2) hRp


theorem step_far (c : Cfg) (s : IP) (i p dg d : Nat) (R : Nat → List Nat) (h : Inv c s i)
    (hR : ∀ q, i ≤ q → q < p → R q = encodeRune c.missing)
    (hRp : R p = encodeRune (48 + (dg : Int))) (hdd : d = c.dpr.toNat)
    (hon : c.dpr > 0 ∧ c.starter.countOn = true) (hi : i % d ≠ 0) (hrow : i / d < p / d) :
    StepOK c s i p dg R := by
  unfold StepOK
  have hd' : 0 < d := by omega
  have hle := @row_start_le d p
  have hie := @lt_row_end d i hd'
  have hes := @row_end_le_start d i p hrow
  have hsk := skip_arith hd' hrow
  rw [ipconsume_skip c s p dg (by rw [h.1]; omega) hon, iskip_far c s i p d hdd hon.1 h hi hrow,
    newcells_far c.toPOpts i p d hdd hon.1 hon.2 hi hrow]
  have hinv : Inv c { s with index := ((i + (p / d - i / d - 1) * d : Nat) : Int) }
      (i + (p / d - i / d - 1) * d) := by
    refine ⟨rfl, Or.inr ?_⟩
    rcases h.2 with h2 | h2
    · rw [← hdd] at h2; exact absurd h2.2.1 hi
    · show s.inRow = _
      rw [h2]
      unfold Spec.colOf
      rw [toPOpts_dpr, if_pos hon.1, if_pos hon.1, ← hdd, Nat.add_mul_mod_self_right]
  let R' : Nat → List Nat := fun q => if q < p / d * d then encodeRune c.missing else R q
  have hR1 : ∀ q, q < p / d * d → R' q = encodeRune c.missing := fun q hq => if_pos hq
  have hR2 : ∀ q, p / d * d ≤ q → R' q = R q := fun q hq => if_neg (by omega)
  have hg := gap_digit c _ (i + (p / d - i / d - 1) * d) p dg R' hinv (by omega)
    (fun q h1 h2 => by
      by_cases hq : q < p / d * d
      · exact hR1 q hq
      · rw [hR2 q (by omega)]; exact hR q (by omega) h2)
    (by rw [hR2 p hle]; exact hRp)
  refine ⟨?_, hg.2⟩
  rw [hg.1]
  show s.out ++ _ = _
  rw [lay_far c.toPOpts d hdd hon.1 i p hi hrow R R' _ _ hR hR1 hR2]

/-- the step from the position `i` just after the previous shown one to the shown position `p` -/
theorem step_ok (c : Cfg) (s : IP) (i p dg : Nat) (R : Nat → List Nat) (h : Inv c s i) (hip : i ≤ p)
    (hR : ∀ q, i ≤ q → q < p → R q = encodeRune c.missing)
    (hRp : R p = encodeRune (48 + (dg : Int))) : StepOK c s i p dg R := by
  by_cases he : i = p
  · subst he; exact step_eq c s i dg R h hRp
  have hip' : i < p := by omega
  by_cases hon : c.dpr > 0 ∧ c.starter.countOn = true
  · by_cases hi : i % c.dpr.toNat = 0
    · exact step_rowstart c s i p dg _ R h hip' hR hRp rfl hon hi
    · by_cases hrow : i / c.dpr.toNat < p / c.dpr.toNat
      · exact step_far c s i p dg _ R h hR hRp rfl hon hi hrow
      · exact step_near c s i p dg _ R h hip' hR hRp rfl hon hi hrow
  · exact step_off c s i p dg R h hip' hR hRp hon



/-! ### the cells of a list of shown positions, one more position at a time -/

/-- the position just after the last shown one -/
def nexti (sh : List (Nat × Nat)) : Nat :=
  match sh.getLast? with
  | none => 0
  | some l => l.1 + 1

def ccond (o : Spec.POpts) (sh : List (Nat × Nat)) (q : Nat) : Bool :=
  !(o.countOn && decide (o.digitsPerRow > 0)) || sh.any fun x => Spec.rowOf o x.1 == Spec.rowOf o q

theorem cells_eq (o : Spec.POpts) (sh : List (Nat × Nat)) :
    Spec.cells o sh = (List.range (nexti sh)).filter (ccond o sh) := by
  unfold Spec.cells nexti
  cases sh.getLast? with
  | none => rfl
  | some l => rfl

theorem nexti_concat (sh : List (Nat × Nat)) (x : Nat × Nat) : nexti (sh ++ [x]) = x.1 + 1 := by
  simp [nexti]

theorem nexti_mem (sh : List (Nat × Nat)) (h : nexti sh ≠ 0) : ∃ l ∈ sh, l.1 + 1 = nexti sh := by
  unfold nexti at *
  cases hl : sh.getLast? with
  | none => rw [hl] at h; exact absurd rfl h
  | some l => exact ⟨l, List.mem_of_getLast? hl, rfl⟩

theorem rowOf_mono (o : Spec.POpts) {a b : Nat} (h : a ≤ b) : Spec.rowOf o a ≤ Spec.rowOf o b := by
  unfold Spec.rowOf
  split
  · exact Nat.div_le_div_right h
  · exact Nat.le_refl _


theorem sh_any_iff (o : Spec.POpts) (sh : List (Nat × Nat)) (q : Nat)
    (hlt : ∀ x ∈ sh, x.1 < nexti sh) (hq : nexti sh ≤ q) :
    (sh.any fun x => Spec.rowOf o x.1 == Spec.rowOf o q) = true ↔
      nexti sh ≠ 0 ∧ Spec.rowOf o (nexti sh - 1) = Spec.rowOf o q := by
  rw [List.any_eq_true]
  constructor
  · rintro ⟨x, hx, hr⟩
    have h1 := hlt x hx
    have h2 := rowOf_mono o (show x.1 ≤ nexti sh - 1 by omega)
    have h3 := rowOf_mono o (show nexti sh - 1 ≤ q by omega)
    have hr' : Spec.rowOf o x.1 = Spec.rowOf o q := by simpa using hr
    exact ⟨by omega, by omega⟩
  · rintro ⟨h0, hr⟩
    obtain ⟨l, hl, e⟩ := nexti_mem sh h0
    refine ⟨l, hl, ?_⟩
    have : l.1 = nexti sh - 1 := by omega
    rw [this, hr]
    simp

theorem ccond_concat_hi (o : Spec.POpts) (sh : List (Nat × Nat)) (p dg q : Nat)
    (hlt : ∀ x ∈ sh, x.1 < nexti sh) (hq : nexti sh ≤ q) :
    ccond o (sh ++ [(p, dg)]) q = ncond o (nexti sh) p q := by
  unfold ccond ncond
  rw [List.any_append]
  have h := sh_any_iff o sh q hlt hq
  have e : (sh.any fun x => Spec.rowOf o x.1 == Spec.rowOf o q) =
      (decide (nexti sh ≠ 0) && Spec.rowOf o (nexti sh - 1) == Spec.rowOf o q) := by
    rw [Bool.eq_iff_iff, h]
    simp
  rw [e]
  simp

theorem ccond_concat_lo (o : Spec.POpts) (sh : List (Nat × Nat)) (p dg q : Nat)
    (hp : nexti sh ≤ p) (hq : q < nexti sh) :
    ccond o (sh ++ [(p, dg)]) q = ccond o sh q := by
  unfold ccond
  rw [List.any_append]
  have himp : Spec.rowOf o p = Spec.rowOf o q →
      (sh.any fun x => Spec.rowOf o x.1 == Spec.rowOf o q) = true := by
    intro hr
    obtain ⟨l, hl, e⟩ := nexti_mem sh (by omega)
    rw [List.any_eq_true]
    refine ⟨l, hl, ?_⟩
    have h2 := rowOf_mono o (show q ≤ l.1 by omega)
    have h3 := rowOf_mono o (show l.1 ≤ p by omega)
    have : Spec.rowOf o l.1 = Spec.rowOf o q := by omega
    simp [this]
  by_cases hr : Spec.rowOf o p = Spec.rowOf o q
  · simp [himp hr]
  · have hb : (Spec.rowOf o p == Spec.rowOf o q) = false := by simpa using hr
    simp [hb]

theorem cells_concat (o : Spec.POpts) (sh : List (Nat × Nat)) (p dg : Nat)
    (hlt : ∀ x ∈ sh, x.1 < nexti sh) (hp : nexti sh ≤ p) :
    Spec.cells o (sh ++ [(p, dg)]) = Spec.cells o sh ++ newcells o (nexti sh) p := by
  rw [cells_eq, cells_eq, nexti_concat, List.range_eq_range', List.range_eq_range']
  show List.filter _ (List.range' 0 (p + 1)) = _
  rw [range'_split 0 (p + 1) (nexti sh) (by omega) (by omega), List.filter_append]
  have e : 0 + (p + 1) - nexti sh = p + 1 - nexti sh := by omega
  rw [e, Nat.sub_zero]
  unfold newcells
  congr 1
  · apply List.filter_congr
    intro q hq
    rw [List.mem_range'_1] at hq
    exact ccond_concat_lo o sh p dg q hp (by omega)
  · apply List.filter_congr
    intro q hq
    rw [List.mem_range'_1] at hq
    exact ccond_concat_hi o sh p dg q hlt hq.1


/-! ### the runes -/

theorem specRune_ne_nil (o : Spec.POpts) (SH : List (Nat × Nat)) (q : Nat) : specRune o SH q ≠ [] := by
  unfold specRune
  split
  · simp
  · exact encodeRune_ne_nil _

theorem specRune_none (o : Spec.POpts) (SH : List (Nat × Nat)) (q : Nat) (h : ∀ x ∈ SH, x.1 ≠ q) :
    specRune o SH q = Spec.encodeRune o.missing := by
  unfold specRune
  have : SH.find? (fun x => match x with | (p, _) => p == q) = none := by
    rw [List.find?_eq_none]
    intro ⟨a, b⟩ hx
    simpa using h (a, b) hx
  rw [this]

theorem specRune_some (o : Spec.POpts) (sh rest : List (Nat × Nat)) (p dg : Nat)
    (h : ∀ x ∈ sh, x.1 ≠ p) : specRune o (sh ++ (p, dg) :: rest) p = [48 + dg] := by
  unfold specRune
  have : (sh ++ (p, dg) :: rest).find? (fun x => match x with | (p', _) => p' == p) = some (p, dg) := by
    rw [List.find?_append]
    have : sh.find? (fun x => match x with | (p', _) => p' == p) = none := by
      rw [List.find?_eq_none]
      intro ⟨a, b⟩ hx
      simpa using h (a, b) hx
    rw [this]
    simp
  rw [this]


/-! ### the main induction -/

theorem toPOpts_missing (c : Cfg) : c.toPOpts.missing = c.missing := rfl
theorem toPOpts_tlf (c : Cfg) : c.toPOpts.trailingLineFeed = c.tlf := rfl

theorem feed_main (c : Cfg) (SH : List (Nat × Nat)) (hasc : SH.Pairwise fun a b => a.1 < b.1)
    (hd : ∀ x ∈ SH, x.2 ≤ 9) : ∀ (rest sh : List (Nat × Nat)) (s : IP), SH = sh ++ rest →
      Inv c s (nexti sh) →
      s.out = lay c.toPOpts (specRune c.toPOpts SH) (Spec.cells c.toPOpts sh) true →
      (∀ x ∈ sh, x.1 < nexti sh) →
      (ifeed c s rest).out = lay c.toPOpts (specRune c.toPOpts SH) (Spec.cells c.toPOpts SH) true := by
  intro rest
  induction rest with
  | nil =>
    intro sh s hSH hinv hout _
    rw [List.append_nil] at hSH
    subst hSH
    exact hout
  | cons x rest ih =>
    intro sh s hSH hinv hout hlt
    obtain ⟨p, dg⟩ := x
    have hpw := hasc
    rw [hSH, List.pairwise_append, List.pairwise_cons] at hpw
    obtain ⟨-, ⟨hrest, -⟩, hcross⟩ := hpw
    have hshp : ∀ x ∈ sh, x.1 < p := fun x hx => hcross x hx (p, dg) (by simp)
    have hip : nexti sh ≤ p := by
      by_cases h0 : nexti sh = 0
      · omega
      · obtain ⟨l, hl, e⟩ := nexti_mem sh h0
        have := hshp l hl
        omega
    have hR : ∀ q, nexti sh ≤ q → q < p →
        specRune c.toPOpts SH q = encodeRune c.missing := by
      intro q h1 h2
      rw [specRune_none]
      · rfl
      · intro x hx
        rw [hSH, List.mem_append, List.mem_cons] at hx
        rcases hx with hx | hx | hx
        · have := hlt x hx; omega
        · subst hx; show p ≠ q; omega
        · have := hrest x hx; omega
    have hRp : specRune c.toPOpts SH p = encodeRune (48 + (dg : Int)) := by
      rw [hSH, specRune_some _ _ _ _ _ (fun x hx => by have := hshp x hx; omega),
        encodeRune_digit dg (hd (p, dg) (by rw [hSH]; simp))]
    obtain ⟨h1, h2⟩ := step_ok c s (nexti sh) p dg (specRune c.toPOpts SH) hinv hip hR hRp
    show (ifeed c (ipconsume c s (p, dg)) rest).out = _
    apply ih (sh ++ [(p, dg)])
    · rw [hSH]; simp
    · rw [nexti_concat]; exact h2
    · rw [h1, cells_concat _ _ _ _ hlt hip, lay_append, hout,
        lay_isEmpty _ _ _ _ (specRune_ne_nil _ _), Bool.true_and]
    · intro x hx
      rw [nexti_concat]
      rw [List.mem_append, List.mem_singleton] at hx
      rcases hx with hx | hx
      · have := hshp x hx; show x.1 < p + 1; omega
      · subst hx; show p < p + 1; omega

theorem emit_layout (c : Cfg) (shown : List (Nat × Nat))
    (hasc : shown.Pairwise fun a b => a.1 < b.1) (hd : ∀ x ∈ shown, x.2 ≤ 9) :
    emit c shown = Spec.layout c.toPOpts shown := by
  unfold emit ifinish Spec.layout
  rw [layoutCells_eq_lay, toPOpts_tlf]
  congr 1
  apply feed_main c shown hasc hd shown [] IP.init rfl
  · refine ⟨rfl, Or.inr ?_⟩
    show (0 : Int) = ((Spec.colOf c.toPOpts 0 : Nat) : Int)
    simp [Spec.colOf]
  · rfl
  · intro x hx; cases hx

end Sqroot.Proofs.Prt

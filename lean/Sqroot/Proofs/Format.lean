/-
Lemmas for C08 (formatting renders the truncated value in the requested shape).
-/
import Sqroot.Model.Format
import Sqroot.Spec.Format
import Sqroot.Proofs.FormatLemmas
import Sqroot.Proofs.FormatValue
namespace Sqroot.Proofs
open Sqroot.Model

-- several hypotheses (`hd`, `hlen`) of the statements below are not needed by the proofs
set_option linter.unusedVariables false

/-- the streaming formatter equals the declarative rendering whenever its guard holds; it panics
exactly when `sigDigits < exponent` -/
theorem printFixed_spec (s e : Int) (exact : Bool) (ds : List Nat) (hd : ∀ d ∈ ds, d ≤ 9) :
    printFixed s e exact ds =
      (if s < e then .error (.explicit "sigDigits must be >= exponent")
       else .ok (Spec.renderFixed s e exact ds)) := by
  exact Fmt.printFixed_spec' s e exact ds

/-- the regenerated `newFormatSpec` of every version is the documented rule -/
theorem newFormatSpec_rule (v : Version) (verb : Nat) (prec : Option Nat) (e : Int) :
    (match Spec.formatRule verb prec e with
     | some (s, ex, sci, cap) =>
        (genNewFormatSpec v (prec.getD 0) prec.isSome verb e).2 = true ∧
        (genNewFormatSpec v (prec.getD 0) prec.isSome verb e).1.sigDigits = s ∧
        (genNewFormatSpec v (prec.getD 0) prec.isSome verb e).1.exactDigitCount = ex ∧
        (genNewFormatSpec v (prec.getD 0) prec.isSome verb e).1.sci = sci ∧
        (sci = true → (genNewFormatSpec v (prec.getD 0) prec.isSome verb e).1.capital = cap)
     | none => (genNewFormatSpec v (prec.getD 0) prec.isSome verb e).2 = false) := by
  exact Fmt.newFormatSpec_rule' v verb prec e

/-- C08 main theorem: `Format` produces exactly the specified text, for every version, verb,
precision, width, flag, exponent and digit string — in particular it never panics (the
`newFormatter` guard is unreachable through `Format`) -/
theorem format_spec (v : Version) (e : Int) (ds : List Nat) (hd : ∀ d ∈ ds, d ≤ 9)
    (verb : Nat) (prec : Option Nat) (width : Option Nat) (minus : Bool) :
    numFormat v e ds verb prec width minus = .ok (Spec.render verb prec width minus e ds) := by
  exact Fmt.format_spec' v e ds verb prec width minus

/-- `String()` equals `%g` (all versions; v1/v2 build their spec by hand) -/
theorem string_is_g (v : Version) (e : Int) (ds : List Nat) (hd : ∀ d ∈ ds, d ≤ 9) :
    numString v e ds = .ok (Spec.renderString e ds) ∧
    numString v e ds = numFormat v e ds 'g'.toNat none none false := by
  exact ⟨Fmt.numString_eq v e ds, Fmt.string_is_g' v e ds⟩

/-- v3 `Exact()` shows all digits of a finite number -/
theorem exact_spec (e : Int) (ds : List Nat) (hd : ∀ d ∈ ds, d ≤ 9) (hlen : (ds.length : Int) < maxInt) :
    numExact e ds = .ok (Spec.renderExact e ds) := by
  exact Fmt.exact_spec' e ds

/-- never rounded, value preserved: positional text parses back to exactly the first
`min(s, |D|)` digits scaled by the exponent (cross-multiplied: `N / 10^frac = M · 10^(e − n)`) -/
theorem renderFixed_value (s e : Int) (exact : Bool) (D : List Nat) (hd : ∀ d ∈ D, d ≤ 9) (hs : e ≤ s) :
    ∃ N frac, Spec.parsePositional (Spec.renderFixed s e exact D) = some (N, frac) ∧
      let ds := D.take s.toNat
      N * 10 ^ ((ds.length : Int) - e).toNat = Spec.ofDigitList ds * 10 ^ (e - (ds.length : Int)).toNat * 10 ^ frac := by
  exact Fmt.renderFixed_value' s e exact D hd hs

/-- exact-digit verbs show exactly `s − e` fractional digits (i.e. the requested precision for
f/F) whenever that is non-negative -/
theorem renderFixed_exact_frac (s e : Int) (D : List Nat) (hd : ∀ d ∈ D, d ≤ 9) (hs : e ≤ s) :
    ∃ N frac, Spec.parsePositional (Spec.renderFixed s e true D) = some (N, frac) ∧
      (frac : Int) = s - e := by
  exact Fmt.renderFixed_exact_frac' s e D hd hs

/-- padding never truncates and pads to exactly the width -/
theorem pad_length (field : String) (w : Nat) (minus : Bool) :
    (Spec.pad field (some w) minus).length = max w field.length := by
  exact Fmt.pad_length' field w minus

/-- how many digits formatting pulls from the number: never more than requested (C06/C15 use it) -/
theorem feed_pulls (f : Formatter) (ds : List Nat) (n : Nat) :
    (f.feed ds n).2 - n ≤ (f.sigDigits - f.index).toNat ∧ (f.feed ds n).2 - n ≤ ds.length := by
  exact Fmt.feed_pulls' f ds n

end Sqroot.Proofs

/-
C08 end to end for v1 / v2: `Format` on a Number obtained by any chain of `WithSignificant` calls
renders the truncated value of the chain's window — the pull iterator over the memoizer feeding
the formatter.
-/
import Sqroot.Model.EndToEnd
import Sqroot.Proofs.EndToEndFormat
namespace Sqroot.Proofs
open Sqroot.Model

namespace E2E12
open E2E

theorem pull12_src (c : MemoCfg) (m : Memo) (it : PullIt) : (m.pull12 c it).1.src = m.src := by
  unfold Memo.pull12
  split
  · rfl
  · simp only
    split
    · exact MD.wait_src c m _
    · rfl

theorem newPull12_src (c : MemoCfg) (m : Memo) (i : Nat) : (m.newPull12 c i).1.src = m.src := by
  unfold Memo.newPull12
  exact MD.wait_src c m i

theorem pullLoop12_src (c : MemoCfg) : ∀ (take : Nat) (m : Memo) (it : PullIt) (lim : Option Int)
    (acc : List (Nat × Nat)), (pullLoop12 c take m it lim acc).1.src = m.src := by
  intro take
  induction take with
  | zero => intro m it lim acc; rfl
  | succ n ih =>
    intro m it lim acc
    have hp := pull12_src c m it
    unfold pullLoop12
    cases lim with
    | none =>
      simp only
      cases hr : (m.pull12 c it).2.2 with
      | none => simp only; exact hp
      | some x => simp only; rw [ih]; exact hp
    | some l =>
      simp only
      split
      · rfl
      · cases hr : (m.pull12 c it).2.2 with
        | none => simp only; exact hp
        | some x => simp only; rw [ih]; exact hp

theorem spec12Iterate_src (c : MemoCfg) (m : Memo) (sp : VSpec) (index take : Nat) :
    (spec12Iterate c m sp index take).1.src = m.src := by
  unfold spec12Iterate
  cases sp with
  | nil => rfl
  | memo => simp only; rw [pullLoop12_src]; exact newPull12_src c m _
  | limited l => simp only; rw [pullLoop12_src]; exact newPull12_src c m _

/-- invariant of v1/v2 Number values along a chain of WithSignificant calls -/
def NumInv12 (e : Int) (v : Val12) : Prop :=
  ∃ sp ex, v = .num sp ex ∧ (sp ≠ .nil → ex = e)

theorem numInv12_step (e : Int) (v v' : Val12) (k : Int) (hi : NumInv12 e v)
    (h : v.apply (.withSig k) = some (.ok v')) : NumInv12 e v' := by
  obtain ⟨sp, ex, hv, hex⟩ := hi
  subst hv
  simp only [Val12.apply] at h
  split at h
  · simp only [Option.some.injEq, reduceCtorEq] at h
  · simp only [Option.some.injEq, Except.ok.injEq] at h
    subst h
    refine ⟨_, _, rfl, ?_⟩
    unfold numWithSpec
    split
    · exact hex
    · split
      · intro h; exact absurd rfl h
      · rename_i hne
        intro _
        apply hex
        intro hsp; subst hsp
        exact hne (withLimit_nil k)

theorem numInv12_chain (e : Int) : ∀ (limits : List Int) (v v' : Val12), NumInv12 e v →
    applyChain12 v (limits.map .withSig) = some v' → NumInv12 e v'
  | [], v, v', hi, h => by
    simp only [List.map_nil, applyChain12, Option.some.injEq] at h
    subst h; exact hi
  | k :: rest, v, v', hi, h => by
    simp only [List.map_cons] at h
    unfold applyChain12 at h
    cases ha : v.apply (.withSig k) with
    | none => rw [ha] at h; cases h
    | some r =>
      cases r with
      | error e => rw [ha] at h; cases h
      | ok v1 =>
        rw [ha] at h
        exact numInv12_chain e rest v1 v' (numInv12_step e v v1 k hi ha) h

theorem need_eq12 (ver : Version) (verb : Nat) (prec : Option Nat) (e : Int) :
    (if (genNewFormatSpec ver (prec.getD 0) prec.isSome verb e).2
      then (genNewFormatSpec ver (prec.getD 0) prec.isSome verb e).1.sigDigits.toNat
      else (stringSpec ver e).sigDigits.toNat) = needOf verb prec e := by
  have hrule := newFormatSpec_rule ver verb prec e
  unfold needOf
  cases hr : Spec.formatRule verb prec e with
  | none =>
    rw [hr] at hrule
    simp only at hrule ⊢
    rw [hrule]
    cases ver <;>
      simp [stringSpec, gPrecisionOf, Gen.V1.gPrecision, Gen.V2.gPrecision,
        Gen.V3.formatSpecForG, Gen.V3.gPrecision]
  | some q =>
    obtain ⟨s, ex, sci, cap⟩ := q
    rw [hr] at hrule
    simp only at hrule ⊢
    rw [hrule.1, hrule.2.1]; rfl

theorem needOf_lt (verb : Nat) (prec : Option Nat) (e : Int) (h : prec.getD 16 + e.natAbs < 10000) :
    needOf verb prec e + 1 ≤ 20000 := by
  unfold needOf
  have h6 : prec.getD 6 ≤ prec.getD 16 := by cases prec <;> simp
  cases hr : Spec.formatRule verb prec e with
  | none => simp
  | some q =>
    obtain ⟨s, ex, sci, cap⟩ := q
    simp only
    unfold Spec.formatRule at hr
    simp only at hr
    split at hr
    · simp only [Option.some.injEq, Prod.mk.injEq] at hr; omega
    split at hr
    · simp only [Option.some.injEq, Prod.mk.injEq] at hr; omega
    split at hr
    · simp only [Option.some.injEq, Prod.mk.injEq] at hr; omega
    split at hr
    · simp only [Option.some.injEq, Prod.mk.injEq] at hr
      obtain ⟨hs, _⟩ := hr
      split at hs <;> omega
    split at hr
    · simp only [Option.some.injEq, Prod.mk.injEq] at hr
      obtain ⟨hs, _⟩ := hr
      split at hs <;> omega
    · cases hr

end E2E12
open E2E E2E12

/-- N. v1 / v2 analogue of `format_end_to_end` -/
theorem format12_end_to_end (ver : Version) (c : MemoCfg) (m : Memo) (v : Val12) (limits : List Int) (e : Int)
    (hv : applyChain12 (.num .memo e) (limits.map .withSig) = some v)
    (hnz : v.spec ≠ .nil)
    (hd : ∀ p, m.src.digit p ≤ 9)
    (hfit : Fits c m.src (Spec.winOf ((limits.map ViewOp.withSig).map toSpecOp)) 20000)
    (verb : Nat) (prec width : Option Nat) (minus : Bool) (hprec : prec.getD 16 + e.natAbs < 10000) :
    ∃ m' txt, format12 ver c m v verb prec width minus = some (.ok (m', txt)) ∧ m'.src = m.src ∧
      txt = Spec.render verb prec width minus e
              (numberDigits m.src (Spec.winOf ((limits.map ViewOp.withSig).map toSpecOp)) 20000) := by
  obtain ⟨sp, ex, hvv, hex⟩ := numInv12_chain e limits _ v ⟨.memo, e, rfl, fun _ => rfl⟩ hv
  subst hvv
  have hspn : sp ≠ .nil := hnz
  have hexe : ex = e := hex hspn
  subst hexe
  have hlo := winOf_withSig_lo limits
  have hnd : numberDigits m.src (Spec.winOf ((limits.map ViewOp.withSig).map toSpecOp)) 20000
      = (Spec.windowList m.src.len m.src.digit (Spec.winOf ((limits.map ViewOp.withSig).map toSpecOp)) 20000).map (·.2) := by
    unfold numberDigits
    congr 2
    generalize Spec.winOf ((limits.map ViewOp.withSig).map toSpecOp) = w at hlo
    obtain ⟨lo, hi⟩ := w
    simp only at hlo; subst hlo; rfl
  have hneed := need_eq12 ver verb prec ex
  have hlt := needOf_lt verb prec ex hprec
  have hle : needOf verb prec ex ≤ 20000 := by omega
  have hf := forward_chain12 c m (.num sp ex) _ ex (needOf verb prec ex) hv (fits_mono hfit hlt)
  simp only [Val12.spec, Val12.start, Int.toNat_zero] at hf
  have hxs : (spec12Iterate c m sp 0 (needOf verb prec ex)).2.map (·.2)
      = (numberDigits m.src (Spec.winOf ((limits.map ViewOp.withSig).map toSpecOp)) 20000).take
          (needOf verb prec ex) := by
    rw [hf, hnd, ← List.map_take, windowList_take _ _ _ _ _ hle]
  have hds : ∀ d ∈ (spec12Iterate c m sp 0 (needOf verb prec ex)).2.map (·.2), d ≤ 9 := by
    intro d hd'
    rw [hxs, hnd] at hd'
    obtain ⟨x, hx, rfl⟩ := List.mem_map.1 (List.mem_of_mem_take hd')
    rw [windowList_digit _ _ _ _ x hx]; exact hd _
  refine ⟨(spec12Iterate c m sp 0 (needOf verb prec ex)).1, _, ?_, spec12Iterate_src c m sp 0 _,
    (render_take verb prec width minus ex _ _ (Nat.le_refl _))⟩
  unfold format12
  simp only
  rw [hneed, format_spec ver ex _ hds, hxs]

end Sqroot.Proofs

/-
C05: the fine-grained system (explicit mutex, one shared-memory access per step) refines the
coarse system (one transition per critical section): atomicity of the critical sections is a
theorem. Every safety result about the coarse system transfers to fine executions through `absF`.
-/
import Sqroot.Model.MonitorFine
import Sqroot.Proofs.Monitor
namespace Sqroot.Proofs
open Sqroot.Model

/-- reachable fine states -/
def FReachable (c : MonCfg) (programs : List (List Nat)) (s : FSt) : Prop :=
  ∃ ls, fRun c (fInit programs) ls = some s

/-- mutual exclusion: the mutex is held by exactly the thread whose pc is inside a section -/
def MutexInv (s : FSt) : Prop :=
  (prodHolds s.prod = true ↔ s.mu = some .producer) ∧
  (∀ k r, s.readers[k]? = some r → (readerHolds r.pc = true ↔ s.mu = some (.reader k)))

theorem mutex_invariant (c : MonCfg) (programs : List (List Nat)) (s : FSt)
    (h : FReachable c programs s) : MutexInv s := by
  sorry

theorem absF_init (c : MonCfg) (programs : List (List Nat)) :
    absF c (fInit programs) = monInit programs := by
  sorry

/-- forward simulation: every fine step is a stutter or exactly one coarse transition -/
theorem fine_step_simulates (c : MonCfg) (programs : List (List Nat)) (s s' : FSt) (l : FLabel)
    (h : FReachable c programs s) (hs : fStep c s l = some s') :
    absF c s' = absF c s ∨ ∃ L, step c (absF c s) L = some (absF c s') := by
  sorry

/-- hence every fine execution is (after abstraction) a coarse execution … -/
theorem fine_refines_coarse (c : MonCfg) (programs : List (List Nat)) (s : FSt)
    (h : FReachable c programs s) : Reachable c programs (absF c s) := by
  sorry

/-- … and the sequential-answer theorem holds for fine executions: every `wait(index)` that has
returned (its result is recorded) gave the sequential answer -/
theorem fine_sequential_answers (c : MonCfg) (hc : 0 < c.chunk) (programs : List (List Nat))
    (hcap : InCapacity c programs) (s : FSt) (h : FReachable c programs s) :
    ∀ r ∈ s.readers, ∀ res ∈ r.results,
      (res.2.2 = true → res.1 < res.2.1 ∧ ∀ k, k < res.2.1 → ValidUpTo c k) ∧
      (res.2.2 = false → ∃ e, e ≤ res.1 ∧ IsEndPos c e) := by
  sorry

end Sqroot.Proofs

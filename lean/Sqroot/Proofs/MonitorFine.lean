/-
C05: the fine-grained system (explicit mutex, one shared-memory access per step) refines the
coarse system (one transition per critical section): atomicity of the critical sections is a
theorem. Every safety result about the coarse system transfers to fine executions through `absF`.
-/
import Sqroot.Model.MonitorFine
import Sqroot.Proofs.Monitor
namespace Sqroot.Proofs
open Sqroot.Model

/-- reachable fine states -/
def FReachable (c : MonCfg) (programs : List (List Nat)) (s : FSt) : Prop :=
  ∃ ls, fRun c (fInit programs) ls = some s

/-- mutual exclusion: the mutex is held by exactly the thread whose pc is inside a section -/
def MutexInv (s : FSt) : Prop :=
  (prodHolds s.prod = true ↔ s.mu = some .producer) ∧
  (∀ k r, s.readers[k]? = some r → (readerHolds r.pc = true ↔ s.mu = some (.reader k)))

namespace MF

structure HInv (s : FSt) : Prop where
  prod : prodHolds s.prod = true ↔ s.mu = some .producer
  rd : ∀ k r, s.readers[k]? = some r → (readerHolds r.pc = true ↔ s.mu = some (.reader k))
  ex : ∀ k, s.mu = some (.reader k) → k < s.readers.length

theorem hinv_init (programs : List (List Nat)) : HInv (fInit programs) := by
  refine ⟨by simp [fInit, prodHolds], ?_, by simp [fInit]⟩
  intro k r h
  simp [fInit] at h
  obtain ⟨a, _, rfl⟩ := h
  simp [readerHolds, fInit]

def bcF (r : FReader) : FReader := match r.pc with
  | .parked i => { r with pc := .acqW i }
  | _ => r

theorem fBroadcast_eq (rs : List FReader) : fBroadcast rs = rs.map bcF := rfl

theorem bcF_holds (r : FReader) : readerHolds (bcF r).pc = readerHolds r.pc := by
  unfold bcF; split <;> simp_all [readerHolds]


theorem fSignalProd_holds (p : FProdPc) : prodHolds (fSignalProd p) = prodHolds p := by
  cases p <;> rfl

theorem hinv_rset (s s' : FSt) (k : Nat) (r r' : FReader) (hi : HInv s)
    (hk : s.readers[k]? = some r) (hrd : s'.readers = s.readers.set k r') (hpr : prodHolds s'.prod = prodHolds s.prod)
    (hmu : (s'.mu = s.mu ∧ readerHolds r'.pc = readerHolds r.pc) ∨
           (s.mu = none ∧ s'.mu = some (.reader k) ∧ readerHolds r'.pc = true) ∨
           (s.mu = some (.reader k) ∧ s'.mu = none ∧ readerHolds r'.pc = false)) : HInv s' := by
  obtain ⟨hp, hr, he⟩ := hi
  have hlt : k < s.readers.length := (List.getElem?_eq_some_iff.mp hk).1
  have hrk := hr k r hk
  refine ⟨?_, ?_, ?_⟩
  · rw [hpr]
    rcases hmu with ⟨h1, _⟩ | ⟨h1, h2, _⟩ | ⟨h1, h2, _⟩
    · rw [h1]; exact hp
    · rw [h2]; rw [h1] at hp; simp_all
    · rw [h2]; rw [h1] at hp; simp_all
  · intro j rj hj
    rw [hrd, List.getElem?_set] at hj
    split at hj
    · subst_vars
      simp at hj
      subst hj
      rcases hmu with ⟨h1, h2⟩ | ⟨h1, h2, h3⟩ | ⟨h1, h2, h3⟩
      · rw [h1, h2]; exact hrk
      · simp [h2, h3]
      · simp [h2, h3]
    · rename_i hne
      have := hr j rj hj
      rcases hmu with ⟨h1, h2⟩ | ⟨h1, h2, h3⟩ | ⟨h1, h2, h3⟩
      · rw [h1]; exact this
      · rw [h1] at this; rw [h2, this]; simp; omega
      · rw [h1] at this; rw [h2, this]; simp; omega
  · intro j hj
    rw [hrd, List.length_set]
    rcases hmu with ⟨h1, h2⟩ | ⟨h1, h2, h3⟩ | ⟨h1, h2, h3⟩
    · rw [h1] at hj; exact he j hj
    · rw [h2] at hj; cases hj; exact hlt
    · rw [h2] at hj; cases hj

theorem hinv_reader (c : MonCfg) (s s' : FSt) (k : Nat) (hi : HInv s)
    (h : fStepReader c s k = some s') : HInv s' := by
  unfold fStepReader at h
  split at h
  · cases h
  · rename_i r hk
    have hrk := hi.rd k r hk
    split at h
    all_goals (try split at h)
    all_goals (first | cases h | skip)
    all_goals
      refine hinv_rset s _ k r _ hi hk rfl (by first | rfl | exact fSignalProd_holds _) ?_
    all_goals simp_all [readerHolds, setReader]

theorem hinv_pset (s s' : FSt) (hi : HInv s) (hrd : s'.readers = s.readers.map bcF ∨ s'.readers = s.readers)
    (hmu : (s'.mu = s.mu ∧ prodHolds s'.prod = prodHolds s.prod) ∨
           (s.mu = none ∧ s'.mu = some .producer ∧ prodHolds s'.prod = true) ∨
           (s.mu = some .producer ∧ s'.mu = none ∧ prodHolds s'.prod = false)) : HInv s' := by
  obtain ⟨hp, hr, he⟩ := hi
  have hr' : ∀ k r, s'.readers[k]? = some r → (readerHolds r.pc = true ↔ s.mu = some (.reader k)) := by
    intro k r hk
    rcases hrd with h | h
    · rw [h, List.getElem?_map] at hk
      cases h0 : s.readers[k]? with
      | none => simp [h0] at hk
      | some r0 =>
        simp [h0] at hk
        subst hk
        rw [bcF_holds]; exact hr k r0 h0
    · rw [h] at hk; exact hr k r hk
  have hl : s'.readers.length = s.readers.length := by
    rcases hrd with h | h <;> simp [h]
  refine ⟨?_, ?_, ?_⟩
  · rcases hmu with ⟨h1, h2⟩ | ⟨h1, h2, h3⟩ | ⟨h1, h2, h3⟩
    · rw [h1, h2]; exact hp
    · simp [h2, h3]
    · simp [h2, h3]
  · intro j rj hj
    have := hr' j rj hj
    rcases hmu with ⟨h1, h2⟩ | ⟨h1, h2, h3⟩ | ⟨h1, h2, h3⟩
    · rw [h1]; exact this
    · rw [h1] at this; rw [h2, this]; simp
    · rw [h1] at this; rw [h2, this]; simp
  · intro j hj
    rw [hl]
    rcases hmu with ⟨h1, h2⟩ | ⟨h1, h2, h3⟩ | ⟨h1, h2, h3⟩
    · rw [h1] at hj; exact he j hj
    · rw [h2] at hj; cases hj
    · rw [h2] at hj; cases hj

theorem afterPublish_holds (c : MonCfg) (i loc : Nat) (fin last : Bool) :
    prodHolds (afterPublish c i loc fin last) = false := by
  unfold afterPublish; split
  · rfl
  · split <;> rfl

theorem hinv_prod (c : MonCfg) (s s' : FSt) (hi : HInv s)
    (h : fStepProd c s = some s') : HInv s' := by
  have hp := hi.prod
  cases hpc : s.prod <;> simp only [fStepProd, hpc] at h
  all_goals (repeat' (split at h))
  all_goals (first | cases h | skip)
  all_goals
    refine hinv_pset s _ hi (by first | exact Or.inr rfl | exact Or.inl (fBroadcast_eq _)) ?_
  all_goals (try simp only [afterPublish_holds])
  all_goals simp_all [prodHolds]

theorem hinv_step (c : MonCfg) (s s' : FSt) (l : FLabel) (hi : HInv s)
    (h : fStep c s l = some s') : HInv s' := by
  cases l with
  | r k => exact hinv_reader c s s' k hi h
  | p => exact hinv_prod c s s' hi h

/-! ### runs -/

theorem fRun_snoc (c : MonCfg) (ls : List FLabel) : ∀ (s s' s'' : FSt) (l : FLabel),
    fRun c s ls = some s' → fStep c s' l = some s'' → fRun c s (ls ++ [l]) = some s'' := by
  induction ls with
  | nil => intro s s' s'' l h1 h2; simp [fRun] at h1; subst h1; simp [fRun, h2]
  | cons a ls ih =>
    intro s s' s'' l h1 h2
    simp only [fRun, List.cons_append] at h1 ⊢
    cases ha : fStep c s a with
    | none => simp [ha] at h1
    | some t => simp only [ha] at h1 ⊢; exact ih t s' s'' l h1 h2

theorem freach_step (c : MonCfg) (programs : List (List Nat)) (s s' : FSt) (l : FLabel)
    (h : FReachable c programs s) (hs : fStep c s l = some s') : FReachable c programs s' := by
  obtain ⟨ls, hls⟩ := h
  exact ⟨ls ++ [l], fRun_snoc c ls _ s s' l hls hs⟩

theorem freach_induct (c : MonCfg) (programs : List (List Nat)) {P : FSt → Prop}
    (h0 : P (fInit programs))
    (hs : ∀ s s' l, FReachable c programs s → P s → fStep c s l = some s' → P s') :
    ∀ s, FReachable c programs s → P s := by
  have aux : ∀ (ls : List FLabel) (s0 s : FSt), FReachable c programs s0 → P s0 →
      fRun c s0 ls = some s → P s := by
    intro ls
    induction ls with
    | nil => intro s0 s _ hp h; simp [fRun] at h; subst h; exact hp
    | cons a ls ih =>
      intro s0 s hr hp h
      simp only [fRun] at h
      cases ha : fStep c s0 a with
      | none => simp [ha] at h
      | some t =>
        simp only [ha] at h
        exact ih t s (freach_step c programs s0 t a hr ha) (hs s0 t a hr hp ha) h
  intro s ⟨ls, hls⟩
  exact aux ls _ s ⟨[], rfl⟩ h0 hls

theorem hinv_reachable (c : MonCfg) (programs : List (List Nat)) (s : FSt)
    (h : FReachable c programs s) : HInv s :=
  freach_induct c programs (hinv_init programs) (fun s s' l _ hi hs => hinv_step c s s' l hi hs) s h

/-! ### completion of the section in progress -/

def proj (s : FSt) : MonSt :=
  { len := s.len, done := s.done, maxLength := s.maxLength, consulted := s.consulted,
    prod := projProd s.prod, readers := s.readers.map projReader }

theorem absF_eq (c : MonCfg) (s : FSt) : absF c s = proj (completeSection c 8 s) := rfl

/-- the step of the mutex holder -/
def hstep (c : MonCfg) (s : FSt) : Option FSt :=
  match s.mu with
  | none => none
  | some .producer => fStepProd c s
  | some (.reader k) => fStepReader c s k

theorem cs_succ (c : MonCfg) (n : Nat) (s : FSt) :
    completeSection c (n + 1) s = match hstep c s with
      | some s' => completeSection c n s'
      | none => s := by
  unfold hstep
  rw [completeSection]
  split
  · rename_i h; simp [h]
  · rename_i h; simp only [h]; cases fStepProd c s <;> rfl
  · rename_i k h; simp only [h]; cases fStepReader c s k <;> rfl

theorem cs_none (c : MonCfg) (n : Nat) (s : FSt) (h : s.mu = none) : completeSection c n s = s := by
  cases n with
  | zero => rfl
  | succ n => rw [cs_succ]; simp [hstep, h]

theorem hstep_fStep (c : MonCfg) (s s' : FSt) (h : hstep c s = some s') : ∃ l, fStep c s l = some s' := by
  unfold hstep at h
  split at h
  · cases h
  · exact ⟨.p, h⟩
  · rename_i k _; exact ⟨.r k, h⟩

def rrem : FReaderPc → Nat
  | .r1 _ => 5 | .r2 _ => 4 | .r3 _ => 3 | .r4 _ => 2 | .r5 _ _ _ => 1 | _ => 0

def prem : FProdPc → Nat
  | .p1 _ => 2 | .p2 _ => 1 | .s1 _ _ _ _ => 4 | .s2 _ _ _ _ => 3 | .s3 _ _ _ _ => 2 | .s4 _ _ _ _ => 1
  | _ => 0

def rem (s : FSt) : Nat :=
  match s.mu with
  | none => 0
  | some .producer => prem s.prod
  | some (.reader k) => match s.readers[k]? with
    | some r => rrem r.pc
    | none => 0

theorem rem_le (s : FSt) : rem s ≤ 5 := by
  unfold rem
  split
  · omega
  · cases s.prod <;> simp [prem]
  · split
    · rename_i r _; cases r.pc <;> simp [rrem]
    · omega

theorem hstep_rem (c : MonCfg) (s : FSt) (t : Tid) (hi : HInv s) (hmu : s.mu = some t) :
    ∃ s', hstep c s = some s' ∧ rem s' < rem s := by
  cases t with
  | producer =>
    have hp := hi.prod.mpr hmu
    cases hpc : s.prod <;> simp [hpc, prodHolds] at hp
    all_goals simp only [hstep, hmu, fStepProd, hpc]
    all_goals (repeat' split)
    all_goals refine ⟨_, rfl, ?_⟩
    all_goals simp [rem, hmu, hpc, prem]
  | reader k =>
    have hlt := hi.ex k hmu
    have hk : s.readers[k]? = some s.readers[k] := List.getElem?_eq_getElem hlt
    have hh := (hi.rd k _ hk).mpr hmu
    generalize s.readers[k] = r at hk hh
    obtain ⟨_, hk'⟩ := List.getElem?_eq_some_iff.mp hk
    cases hpc : r.pc <;> simp [hpc, readerHolds] at hh
    all_goals simp only [hstep, hmu, fStepReader, hk, hpc]
    all_goals (repeat' split)
    all_goals refine ⟨_, rfl, ?_⟩
    all_goals simp [rem, hmu, hpc, rrem, setReader, hlt, hk']

theorem cs_stable (c : MonCfg) : ∀ (n : Nat) (s : FSt), HInv s → rem s ≤ n →
    completeSection c (n + 1) s = completeSection c n s := by
  intro n
  induction n with
  | zero =>
    intro s hi hr
    cases hmu : s.mu with
    | none => rw [cs_none c _ s hmu, cs_none c _ s hmu]
    | some t =>
      obtain ⟨s', _, h2⟩ := hstep_rem c s t hi hmu
      omega
  | succ n ih =>
    intro s hi hr
    cases hmu : s.mu with
    | none => rw [cs_none c _ s hmu, cs_none c _ s hmu]
    | some t =>
      obtain ⟨s', h1, h2⟩ := hstep_rem c s t hi hmu
      obtain ⟨l, hl⟩ := hstep_fStep c s s' h1
      rw [cs_succ c (n + 1), cs_succ c n, h1]
      exact ih s' (hinv_step c s s' l hi hl) (by omega)

theorem cs_stable' (c : MonCfg) (s : FSt) (hi : HInv s) (n : Nat) (hn : 5 ≤ n) :
    completeSection c n s = completeSection c 5 s := by
  induction n with
  | zero => omega
  | succ n ih =>
    by_cases h : n + 1 = 5
    · rw [h]
    · rw [cs_stable c n s hi (by have := rem_le s; omega)]
      exact ih (by omega)

/-- a step of the mutex holder does not change the completed section -/
theorem cs_hstep (c : MonCfg) (s s' : FSt) (hi : HInv s) (h : hstep c s = some s') :
    completeSection c 8 s' = completeSection c 8 s := by
  obtain ⟨l, hl⟩ := hstep_fStep c s s' h
  have hi' := hinv_step c s s' l hi hl
  rw [cs_succ c 7 s, h]
  simp only
  rw [cs_stable' c s' hi' 8 (by omega), cs_stable' c s' hi' 7 (by omega)]

/-! ### steps of a thread that does not hold the mutex commute with the completion -/

theorem hstep_mu (c : MonCfg) (s t : FSt) (h : hstep c s = some t) : t.mu = s.mu ∨ t.mu = none := by
  unfold hstep at h
  split at h
  · cases h
  · cases hpc : s.prod <;> simp only [fStepProd, hpc] at h
    all_goals (repeat' (split at h))
    all_goals (first | cases h | skip)
    all_goals simp_all
  · rename_i k hmu
    unfold fStepReader at h
    split at h
    · cases h
    · split at h
      all_goals (try split at h)
      all_goals (first | cases h | skip)
      all_goals simp_all [setReader]

theorem bcF_map_set (l : List FReader) (j : Nat) (r' : FReader) (hb : bcF r' = r') :
    fBroadcast (l.set j r') = (fBroadcast l).set j r' := by
  rw [fBroadcast_eq, fBroadcast_eq, List.map_set, hb]

theorem fStepProd_setReader (c : MonCfg) (s : FSt) (j : Nat) (r' : FReader) (hb : bcF r' = r') :
    fStepProd c (setReader s j r') = (fStepProd c s).map (fun t => setReader t j r') := by
  cases hpc : s.prod <;> simp only [fStepProd, setReader, hpc]
  all_goals (repeat' split)
  all_goals simp [bcF_map_set _ _ _ hb]

theorem fStepReader_setReader (c : MonCfg) (s : FSt) (j k : Nat) (r' : FReader) (hne : k ≠ j) :
    fStepReader c (setReader s j r') k = (fStepReader c s k).map (fun t => setReader t j r') := by
  have hne' : j ≠ k := fun h => hne h.symm
  unfold fStepReader
  have : (setReader s j r').readers[k]? = s.readers[k]? := by
    simp [setReader, List.getElem?_set_ne hne']
  rw [this]
  cases s.readers[k]? with
  | none => rfl
  | some r =>
    simp only
    cases hpc : r.pc <;> simp only [setReader, apply_ite (Option.map _), Option.map_some,
      Option.map_none, List.set_comm _ _ hne]
    all_goals (first | rfl | (cases r.todo <;> simp [List.set_comm _ _ hne]))

theorem hstep_setReader (c : MonCfg) (s : FSt) (j : Nat) (r' : FReader) (hb : bcF r' = r')
    (hmu : s.mu ≠ some (.reader j)) :
    hstep c (setReader s j r') = (hstep c s).map (fun t => setReader t j r') := by
  unfold hstep
  have : (setReader s j r').mu = s.mu := rfl
  rw [this]
  split
  · rfl
  · exact fStepProd_setReader c s j r' hb
  · rename_i k hk
    exact fStepReader_setReader c s j k r' (by intro h; subst h; exact hmu hk)

theorem cs_setReader (c : MonCfg) (j : Nat) (r' : FReader) (hb : bcF r' = r') : ∀ (n : Nat) (s : FSt),
    s.mu ≠ some (.reader j) →
    completeSection c n (setReader s j r') = setReader (completeSection c n s) j r' := by
  intro n
  induction n with
  | zero => intro s _; rfl
  | succ n ih =>
    intro s hmu
    rw [cs_succ, cs_succ, hstep_setReader c s j r' hb hmu]
    cases h : hstep c s with
    | none => rfl
    | some t =>
      simp only [Option.map_some]
      apply ih
      rcases hstep_mu c s t h with h1 | h1
      · rw [h1]; exact hmu
      · rw [h1]; simp

/-- update of the producer-private part -/
def upd (a : Nat) (q : FProdPc) (s : FSt) : FSt := { s with consulted := a, prod := q }

theorem fStepReader_upd (c : MonCfg) (s : FSt) (k a : Nat) (q : FProdPc) (hq : fSignalProd q = q) :
    fStepReader c (upd a q s) k = (fStepReader c s k).map (upd a q) := by
  unfold fStepReader
  have : (upd a q s).readers[k]? = s.readers[k]? := rfl
  rw [this]
  cases s.readers[k]? with
  | none => rfl
  | some r =>
    simp only
    cases hpc : r.pc <;> simp only [setReader, upd, apply_ite (Option.map _), Option.map_some,
      Option.map_none, hq]
    all_goals (first | rfl | (cases r.todo <;> simp [upd]))

theorem cs_upd (c : MonCfg) (a : Nat) (q : FProdPc) (hq : fSignalProd q = q) : ∀ (n : Nat) (s : FSt),
    s.mu ≠ some .producer →
    completeSection c n (upd a q s) = upd a q (completeSection c n s) := by
  intro n
  induction n with
  | zero => intro s _; rfl
  | succ n ih =>
    intro s hmu
    rw [cs_succ, cs_succ]
    have hh : hstep c (upd a q s) = (hstep c s).map (upd a q) := by
      unfold hstep
      have : (upd a q s).mu = s.mu := rfl
      rw [this]
      split
      · rfl
      · rename_i h; exact absurd h hmu
      · exact fStepReader_upd c s _ a q hq
    rw [hh]
    cases h : hstep c s with
    | none => rfl
    | some t =>
      simp only [Option.map_some]
      apply ih
      rcases hstep_mu c s t h with h1 | h1
      · rw [h1]; exact hmu
      · rw [h1]; simp

/-! ### the final publish always has `fin = true` -/

def prodOk : FProdPc → Prop
  | .sAcq _ _ fin last | .s1 _ _ fin last | .s2 _ _ fin last | .s3 _ _ fin last | .s4 _ _ fin last =>
    last = true → fin = true
  | _ => True

theorem prodOk_signal (p : FProdPc) (h : prodOk p) : prodOk (fSignalProd p) := by
  cases p <;> simp_all [fSignalProd, prodOk]

theorem prodOk_after (c : MonCfg) (i loc : Nat) (fin last : Bool) : prodOk (afterPublish c i loc fin last) := by
  unfold afterPublish
  split
  · trivial
  · split <;> simp [prodOk]

theorem pok_step (c : MonCfg) (s s' : FSt) (l : FLabel) (hi : prodOk s.prod)
    (h : fStep c s l = some s') : prodOk s'.prod := by
  cases l with
  | r k =>
    simp only [fStep] at h
    unfold fStepReader at h
    split at h
    · cases h
    · split at h
      all_goals (try split at h)
      all_goals (first | cases h | skip)
      all_goals (first | exact hi | exact prodOk_signal _ hi)
  | p =>
    simp only [fStep] at h
    cases hpc : s.prod <;> simp only [fStepProd, hpc] at h
    all_goals (repeat' (split at h))
    all_goals (first | cases h | skip)
    all_goals (first | exact prodOk_after _ _ _ _ _ | simp_all [prodOk])

theorem pok_reachable (c : MonCfg) (programs : List (List Nat)) (s : FSt)
    (h : FReachable c programs s) : prodOk s.prod :=
  freach_induct c programs (P := fun s => prodOk s.prod) (by simp [fInit, prodOk])
    (fun s s' l _ hi hs => pok_step c s s' l hi hs) s h

/-! ### explicit results of the sections -/

def growMax (c : MonCfg) (done : Bool) (maxLength i : Nat) : Nat :=
  if !done && decide (maxLength ≤ i) then grownMax c i else maxLength

def growProd (done : Bool) (maxLength i : Nat) (p : FProdPc) : FProdPc :=
  if !done && decide (maxLength ≤ i) then fSignalProd p else p

def growProdC (done : Bool) (maxLength i : Nat) (p : ProdPc) : ProdPc :=
  if !done && decide (maxLength ≤ i) then signalProd p else p

def checkEnd (c : MonCfg) (len maxLength i : Nat) : FProdPc :=
  if len ≥ maxLength then .parked i
  else if c.chunk = 0 then .sAcq i len false false else .computing i 0 len

def tailEnd (len : Nat) (done : Bool) (i : Nat) (r : FReader) : FReader :=
  if !done && len ≤ i then { r with pc := .parked i }
  else { r with pc := .idle, results := (i, len, decide (i < len)) :: r.results }

theorem tailEnd_pc (len : Nat) (done : Bool) (i : Nat) (r : FReader) (p : FReaderPc) :
    tailEnd len done i { r with pc := p } = tailEnd len done i r := by
  unfold tailEnd; split <;> rfl

theorem cs_step (c : MonCfg) (n : Nat) (s s' : FSt) (h : hstep c s = some s') :
    completeSection c (n + 1) s = completeSection c n s' := by
  rw [cs_succ, h]

theorem cs_r4 (c : MonCfg) (n : Nat) (s : FSt) (j i : Nat) (r : FReader) (hmu : s.mu = some (.reader j))
    (hk : s.readers[j]? = some r) (hpc : r.pc = .r4 i) :
    completeSection c (n + 2) s =
      { s with mu := none, readers := s.readers.set j (tailEnd s.len s.done i r) } := by
  have hlt : j < s.readers.length := (List.getElem?_eq_some_iff.mp hk).1
  by_cases hc : (!s.done && decide (s.len ≤ i)) = true
  · have h1 : hstep c s = some { setReader s j { r with pc := .parked i } with mu := none } := by
      simp only [hstep, hmu, fStepReader, hk, hpc, hc, if_true]
    rw [cs_step c _ s _ h1, cs_none _ _ _ rfl]
    simp [tailEnd, hc, setReader]
  · have h1 : hstep c s = some (setReader s j { r with pc := .r5 i s.len (decide (i < s.len)) }) := by
      simp only [hstep, hmu, fStepReader, hk, hpc, hc]; rfl
    rw [cs_step c _ s _ h1]
    have h2 : hstep c (setReader s j { r with pc := .r5 i s.len (decide (i < s.len)) }) =
        some { s with mu := none, readers := s.readers.set j (tailEnd s.len s.done i r) } := by
      simp [hstep, setReader, hmu, fStepReader, List.getElem?_set_self hlt, tailEnd, hc]
    rw [cs_step c _ _ _ h2, cs_none _ _ _ rfl]

theorem cs_r1 (c : MonCfg) (n : Nat) (s : FSt) (j i : Nat) (r : FReader) (hmu : s.mu = some (.reader j))
    (hk : s.readers[j]? = some r) (hpc : r.pc = .r1 i) :
    completeSection c (n + 5) s =
      { s with mu := none,
               maxLength := growMax c s.done s.maxLength i,
               prod := growProd s.done s.maxLength i s.prod,
               readers := s.readers.set j (tailEnd s.len s.done i r) } := by
  have hlt : j < s.readers.length := (List.getElem?_eq_some_iff.mp hk).1
  by_cases hc : (!s.done && decide (s.maxLength ≤ i)) = true
  · have h1 : hstep c s = some (setReader s j { r with pc := .r2 i }) := by
      simp only [hstep, hmu, fStepReader, hk, hpc, hc, if_true]
    have h2 : hstep c (setReader s j { r with pc := .r2 i }) =
        some { s with maxLength := grownMax c i, readers := s.readers.set j { r with pc := .r3 i } } := by
      simp [hstep, setReader, hmu, fStepReader, List.getElem?_set_self hlt]
    have h3 : hstep c { s with maxLength := grownMax c i, readers := s.readers.set j { r with pc := .r3 i } } =
        some { s with maxLength := grownMax c i, prod := fSignalProd s.prod,
                      readers := s.readers.set j { r with pc := .r4 i } } := by
      simp [hstep, setReader, hmu, fStepReader, List.getElem?_set_self hlt]
    rw [cs_step c _ s _ h1, cs_step c _ _ _ h2, cs_step c _ _ _ h3,
      cs_r4 c n { s with maxLength := grownMax c i, prod := fSignalProd s.prod,
                         readers := s.readers.set j { r with pc := .r4 i } } j i { r with pc := .r4 i } hmu
        (by simp [List.getElem?_set_self hlt]) rfl]
    simp [hc, tailEnd_pc, growMax, growProd]
  · have h1 : hstep c s = some (setReader s j { r with pc := .r4 i }) := by
      simp only [hstep, hmu, fStepReader, hk, hpc, hc]; rfl
    rw [cs_step c _ s _ h1,
      cs_r4 c (n + 2) (setReader s j { r with pc := .r4 i }) j i { r with pc := .r4 i } hmu
        (by simp [setReader, List.getElem?_set_self hlt]) rfl]
    simp [hc, tailEnd_pc, setReader, growMax, growProd]

theorem cs_p1 (c : MonCfg) (n : Nat) (s : FSt) (i : Nat) (hmu : s.mu = some .producer)
    (hpc : s.prod = .p1 i) :
    completeSection c (n + 2) s =
      { s with mu := none, prod := checkEnd c s.len s.maxLength i } := by
  by_cases hc : s.len ≥ s.maxLength
  · have h1 : hstep c s = some { s with prod := .parked i, mu := none } := by
      simp only [hstep, hmu, fStepProd, hpc, hc, if_true]
    rw [cs_step c _ s _ h1, cs_none _ _ _ rfl]
    simp [hc, checkEnd]
  · have h1 : hstep c s = some { s with prod := .p2 i } := by
      simp only [hstep, hmu, fStepProd, hpc, hc, if_false]
    have h2 : hstep c { s with prod := .p2 i } = some { s with
        mu := none, prod := if c.chunk = 0 then .sAcq i s.len false false else .computing i 0 s.len } := by
      simp only [hstep, hmu, fStepProd]
      split <;> rfl
    rw [cs_step c _ s _ h1, cs_step c _ _ _ h2, cs_none _ _ _ rfl]
    simp [hc, checkEnd]

theorem cs_s1 (c : MonCfg) (n : Nat) (s : FSt) (i loc : Nat) (fin last : Bool) (hmu : s.mu = some .producer)
    (hpc : s.prod = .s1 i loc fin last) :
    completeSection c (n + 4) s =
      { s with mu := none, len := loc, done := fin, readers := fBroadcast s.readers,
               prod := afterPublish c i loc fin last } := by
  have h1 : hstep c s = some { s with prod := .s2 i loc fin last, len := loc } := by
    simp only [hstep, hmu, fStepProd, hpc]
  have h2 : hstep c { s with prod := .s2 i loc fin last, len := loc } =
      some { s with prod := .s3 i loc fin last, len := loc, done := fin } := by
    simp only [hstep, hmu, fStepProd]
  have h3 : hstep c { s with prod := .s3 i loc fin last, len := loc, done := fin } =
      some { s with prod := .s4 i loc fin last, len := loc, done := fin, readers := fBroadcast s.readers } := by
    simp only [hstep, hmu, fStepProd]
  have h4 : hstep c { s with prod := .s4 i loc fin last, len := loc, done := fin, readers := fBroadcast s.readers } =
      some { s with
        mu := none, len := loc, done := fin, readers := fBroadcast s.readers,
        prod := afterPublish c i loc fin last } := by
    simp only [hstep, hmu, fStepProd]
  rw [cs_step c _ s _ h1, cs_step c _ _ _ h2, cs_step c _ _ _ h3, cs_step c _ _ _ h4, cs_none _ _ _ rfl]

/-! ### projection lemmas -/

theorem projProd_signal (p : FProdPc) : projProd (fSignalProd p) = signalProd (projProd p) := by
  cases p <;> simp [fSignalProd, projProd, signalProd]
  all_goals (split <;> rfl)

theorem projReader_tailEnd (len : Nat) (done : Bool) (i : Nat) (r : FReader) (r0 : Reader)
    (h1 : r0.todo = r.todo) (h2 : r0.results = r.results) :
    projReader (tailEnd len done i r) = waitTail len done i r0 := by
  unfold tailEnd waitTail
  split <;> simp [projReader, h1, h2]

theorem projReader_bcF (r : FReader) : projReader (bcF r) = Mon.bc (projReader r) := by
  cases r with
  | mk pc todo results => cases pc <;> rfl

theorem proj_broadcast (l : List FReader) : (fBroadcast l).map projReader = broadcast (l.map projReader) := by
  rw [fBroadcast_eq, Mon.broadcast_eq, List.map_map, List.map_map]
  apply List.map_congr_left
  intro r _
  exact projReader_bcF r

theorem proj_setReader_congr (T : FSt) (j : Nat) (a b : FReader) (h : projReader a = projReader b) :
    proj (setReader T j a) = proj (setReader T j b) := by
  simp [proj, setReader, List.map_set, h]

theorem setReader_self (s : FSt) (j : Nat) (r : FReader) (hk : s.readers[j]? = some r) :
    setReader s j r = s := by
  obtain ⟨hlt, rfl⟩ := List.getElem?_eq_some_iff.mp hk
  simp [setReader]

/-! ### the simulation, case by case -/

theorem sim_idle (c : MonCfg) (s : FSt) (j i : Nat) (rest : List Nat) (r : FReader) (hi : HInv s)
    (hk : s.readers[j]? = some r) (hpc : r.pc = .idle) (htd : r.todo = i :: rest) :
    absF c (setReader s j { r with pc := .acq i, todo := rest }) = absF c s := by
  have hmu : s.mu ≠ some (.reader j) := by
    intro h
    have := (hi.rd j r hk).mpr h
    simp [hpc, readerHolds] at this
  have hb : bcF r = r := by simp [bcF, hpc]
  have hT : completeSection c 8 s = setReader (completeSection c 8 s) j r := by
    have := cs_setReader c j r hb 8 s hmu
    rw [setReader_self s j r hk] at this
    exact this
  rw [absF_eq, absF_eq, cs_setReader c j _ (by simp [bcF]) 8 s hmu]
  conv => rhs; rw [hT]
  apply proj_setReader_congr
  simp [projReader, hpc, htd]

theorem sim_holder (c : MonCfg) (s s' : FSt) (hi : HInv s) (h : hstep c s = some s') :
    absF c s' = absF c s := by
  rw [absF_eq, absF_eq, cs_hstep c s s' hi h]

theorem projProd_grow (done : Bool) (m i : Nat) (p : FProdPc) :
    projProd (growProd done m i p) = growProdC done m i (projProd p) := by
  unfold growProd growProdC
  split
  · exact projProd_signal p
  · rfl

theorem step_rEnter_mk (c : MonCfg) (len : Nat) (done : Bool) (maxLength consulted : Nat) (prod : ProdPc)
    (readers : List Reader) (j i : Nat) (todo : List Nat) (results : List (Nat × Nat × Bool))
    (h : readers[j]? = some ⟨.idle, i :: todo, results⟩) :
    step c ⟨len, done, maxLength, consulted, prod, readers⟩ (.rEnter j) =
      some ⟨len, done, growMax c done maxLength i, consulted, growProdC done maxLength i prod,
        readers.set j (waitTail len done i ⟨.idle, todo, results⟩)⟩ := by
  simp [step, h, growMax, growProdC]

theorem sim_acq (c : MonCfg) (s : FSt) (j i : Nat) (r : FReader) (hmu : s.mu = none)
    (hk : s.readers[j]? = some r) (hpc : r.pc = .acq i) :
    step c (absF c s) (.rEnter j) =
      some (absF c { setReader s j { r with pc := .r1 i } with mu := some (.reader j) }) := by
  have hlt : j < s.readers.length := (List.getElem?_eq_some_iff.mp hk).1
  rw [absF_eq, absF_eq, cs_none c 8 s hmu,
    cs_r1 c 3 _ j i { r with pc := .r1 i } rfl (by simp [setReader, List.getElem?_set_self hlt]) rfl]
  unfold proj
  rw [step_rEnter_mk c _ _ _ _ _ _ j i r.todo r.results (by simp [hk, projReader, hpc])]
  simp only [setReader, List.set_set, List.map_set, tailEnd_pc,
    projReader_tailEnd s.len s.done i r ⟨.idle, r.todo, r.results⟩ rfl rfl, projProd_grow]

theorem step_rWake_mk (c : MonCfg) (len : Nat) (done : Bool) (maxLength consulted : Nat) (prod : ProdPc)
    (readers : List Reader) (j i : Nat) (todo : List Nat) (results : List (Nat × Nat × Bool))
    (h : readers[j]? = some ⟨.woken i, todo, results⟩) :
    step c ⟨len, done, maxLength, consulted, prod, readers⟩ (.rWake j) =
      some ⟨len, done, maxLength, consulted, prod,
        readers.set j (waitTail len done i ⟨.woken i, todo, results⟩)⟩ := by
  simp [step, h]

theorem sim_acqW (c : MonCfg) (s : FSt) (j i : Nat) (r : FReader) (hmu : s.mu = none)
    (hk : s.readers[j]? = some r) (hpc : r.pc = .acqW i) :
    step c (absF c s) (.rWake j) =
      some (absF c { setReader s j { r with pc := .r4 i } with mu := some (.reader j) }) := by
  have hlt : j < s.readers.length := (List.getElem?_eq_some_iff.mp hk).1
  rw [absF_eq, absF_eq, cs_none c 8 s hmu,
    cs_r4 c 6 _ j i { r with pc := .r4 i } rfl (by simp [setReader, List.getElem?_set_self hlt]) rfl]
  unfold proj
  rw [step_rWake_mk c _ _ _ _ _ _ j i r.todo r.results (by simp [hk, projReader, hpc])]
  simp only [setReader, List.set_set, List.map_set, tailEnd_pc,
    projReader_tailEnd s.len s.done i r ⟨.woken i, r.todo, r.results⟩ rfl rfl]

def checkEndC (c : MonCfg) (len maxLength i : Nat) : ProdPc :=
  if len ≥ maxLength then .parked i
  else if c.chunk = 0 then .publishing i len false else .computing i 0 len

theorem projProd_checkEnd (c : MonCfg) (len m i : Nat) :
    projProd (checkEnd c len m i) = checkEndC c len m i := by
  unfold checkEnd checkEndC
  split
  · rfl
  · split <;> rfl

theorem step_pCheck_mk (c : MonCfg) (len : Nat) (done : Bool) (maxLength consulted : Nat) (i : Nat)
    (readers : List Reader) :
    step c ⟨len, done, maxLength, consulted, .check i, readers⟩ .pCheck =
      some ⟨len, done, maxLength, consulted, checkEndC c len maxLength i, readers⟩ := by
  simp only [step, checkEndC]
  split
  · rfl
  · split <;> rfl

theorem sim_pacq (c : MonCfg) (s : FSt) (i : Nat) (hmu : s.mu = none)
    (hpc : projProd s.prod = .check i) :
    step c (absF c s) .pCheck = some (absF c { s with prod := .p1 i, mu := some .producer }) := by
  rw [absF_eq, absF_eq, cs_none c 8 s hmu, cs_p1 c 6 _ i rfl rfl]
  unfold proj
  rw [hpc, step_pCheck_mk]
  simp only [projProd_checkEnd]

def publishNext (c : MonCfg) (i loc : Nat) (fin : Bool) : ProdPc :=
  if fin then ProdPc.exited else if i + 1 < c.maxChunks then .check (i + 1) else .finalPublish loc

theorem step_pPublish_mk (c : MonCfg) (len : Nat) (done : Bool) (maxLength consulted : Nat) (i loc : Nat)
    (fin : Bool) (readers : List Reader) :
    step c ⟨len, done, maxLength, consulted, .publishing i loc fin, readers⟩ .pPublish =
      some ⟨loc, fin, maxLength, consulted, publishNext c i loc fin, broadcast readers⟩ := by
  simp [step, publishNext]

theorem step_pPublishF_mk (c : MonCfg) (len : Nat) (done : Bool) (maxLength consulted : Nat) (loc : Nat)
    (readers : List Reader) :
    step c ⟨len, done, maxLength, consulted, .finalPublish loc, readers⟩ .pPublish =
      some ⟨loc, true, maxLength, consulted, .exited, broadcast readers⟩ := by
  simp [step]

theorem projProd_after (c : MonCfg) (i loc : Nat) (fin : Bool) :
    projProd (afterPublish c i loc fin false) = publishNext c i loc fin := by
  unfold afterPublish publishNext
  cases fin
  · simp only [Bool.or_self, Bool.false_eq_true, if_false]
    split <;> rfl
  · rfl

theorem projProd_sAcq (i loc : Nat) (fin last : Bool) :
    projProd (.sAcq i loc fin last) = if last then .finalPublish loc else .publishing i loc fin := rfl

theorem projProd_computing (i j loc : Nat) : projProd (.computing i j loc) = .computing i j loc := rfl

theorem sim_sacq (c : MonCfg) (s : FSt) (i loc : Nat) (fin last : Bool) (hmu : s.mu = none)
    (hpc : s.prod = .sAcq i loc fin last) (hok : prodOk s.prod) :
    step c (absF c s) .pPublish =
      some (absF c { s with prod := .s1 i loc fin last, mu := some .producer }) := by
  rw [absF_eq, absF_eq, cs_none c 8 s hmu, cs_s1 c 4 _ i loc fin last rfl rfl]
  unfold proj
  rw [hpc]
  cases last with
  | false =>
    simp only [projProd_sAcq, Bool.false_eq_true, if_false]
    rw [step_pPublish_mk]
    simp only [projProd_after, proj_broadcast]
  | true =>
    have hf : fin = true := by rw [hpc] at hok; exact hok rfl
    subst hf
    simp only [projProd_sAcq, if_true]
    rw [step_pPublishF_mk]
    simp [proj_broadcast, afterPublish, projProd]

theorem step_pCompute_mk (c : MonCfg) (len : Nat) (done : Bool) (maxLength consulted : Nat) (i j loc : Nat)
    (readers : List Reader) :
    step c ⟨len, done, maxLength, consulted, .computing i j loc, readers⟩ .pCompute =
      some ⟨len, done, maxLength, consulted + 1,
        if c.endTest (c.src consulted) then .publishing i loc true
        else if j + 1 ≥ c.chunk then .publishing i (loc + 1) false
        else .computing i (j + 1) (loc + 1), readers⟩ := by
  simp only [step]
  split
  · rfl
  · split <;> rfl

theorem sim_compute (c : MonCfg) (s : FSt) (i j loc : Nat) (q : FProdPc) (hmu : s.mu ≠ some .producer)
    (hpc : s.prod = .computing i j loc) (hq : fSignalProd q = q)
    (hq2 : projProd q = if c.endTest (c.src s.consulted) then .publishing i loc true
        else if j + 1 ≥ c.chunk then .publishing i (loc + 1) false
        else .computing i (j + 1) (loc + 1)) :
    step c (absF c s) .pCompute = some (absF c (upd (s.consulted + 1) q s)) := by
  have hT : completeSection c 8 s = upd s.consulted s.prod (completeSection c 8 s) := by
    have := cs_upd c s.consulted s.prod (by rw [hpc]; rfl) 8 s hmu
    exact this
  rw [absF_eq, absF_eq, cs_upd c _ q hq 8 s hmu, hT]
  generalize completeSection c 8 s = T
  unfold proj
  simp only [upd, hpc, projProd_computing]
  rw [step_pCompute_mk, hq2]

theorem sim (c : MonCfg) (s s' : FSt) (l : FLabel) (hi : HInv s) (hok : prodOk s.prod)
    (hs : fStep c s l = some s') :
    absF c s' = absF c s ∨ ∃ L, step c (absF c s) L = some (absF c s') := by
  cases l with
  | r j =>
    simp only [fStep] at hs
    have hs0 := hs
    unfold fStepReader at hs
    cases hk : s.readers[j]? with
    | none => simp [hk] at hs
    | some r =>
      simp only [hk] at hs
      have hrd := hi.rd j r hk
      have hold : readerHolds r.pc = true → absF c s' = absF c s := by
        intro hh
        have hmu := hrd.mp hh
        exact sim_holder c s s' hi (by simp only [hstep, hmu]; exact hs0)
      cases hpc : r.pc with
      | idle =>
        simp only [hpc] at hs
        cases htd : r.todo with
        | nil => simp [htd] at hs
        | cons i rest =>
          simp only [htd, Option.some.injEq] at hs
          subst hs
          exact Or.inl (sim_idle c s j i rest r hi hk hpc htd)
      | acq i =>
        simp only [hpc] at hs
        by_cases hmu : s.mu = none
        · simp only [hmu, if_true, Option.some.injEq] at hs
          subst hs
          exact Or.inr ⟨.rEnter j, sim_acq c s j i r hmu hk hpc⟩
        · simp [hmu] at hs
      | acqW i =>
        simp only [hpc] at hs
        by_cases hmu : s.mu = none
        · simp only [hmu, if_true, Option.some.injEq] at hs
          subst hs
          exact Or.inr ⟨.rWake j, sim_acqW c s j i r hmu hk hpc⟩
        · simp [hmu] at hs
      | parked i => simp [hpc] at hs
      | r1 i => exact Or.inl (hold (by rw [hpc]; rfl))
      | r2 i => exact Or.inl (hold (by rw [hpc]; rfl))
      | r3 i => exact Or.inl (hold (by rw [hpc]; rfl))
      | r4 i => exact Or.inl (hold (by rw [hpc]; rfl))
      | r5 i n ok => exact Or.inl (hold (by rw [hpc]; rfl))
  | p =>
    simp only [fStep] at hs
    have hs0 := hs
    have hpd := hi.prod
    have hold : prodHolds s.prod = true → absF c s' = absF c s := by
      intro hh
      have hmu := hpd.mp hh
      exact sim_holder c s s' hi (by simp only [hstep, hmu]; exact hs0)
    cases hpc : s.prod with
    | acq i =>
      simp only [fStepProd, hpc] at hs
      by_cases hmu : s.mu = none
      · simp only [hmu, if_true, Option.some.injEq] at hs
        subst hs
        exact Or.inr ⟨.pCheck, sim_pacq c s i hmu (by rw [hpc]; rfl)⟩
      · simp [hmu] at hs
    | acqW i =>
      simp only [fStepProd, hpc] at hs
      by_cases hmu : s.mu = none
      · simp only [hmu, if_true, Option.some.injEq] at hs
        subst hs
        exact Or.inr ⟨.pCheck, sim_pacq c s i hmu (by rw [hpc]; rfl)⟩
      · simp [hmu] at hs
    | sAcq i loc fin last =>
      simp only [fStepProd, hpc] at hs
      by_cases hmu : s.mu = none
      · simp only [hmu, if_true, Option.some.injEq] at hs
        subst hs
        exact Or.inr ⟨.pPublish, sim_sacq c s i loc fin last hmu hpc hok⟩
      · simp [hmu] at hs
    | parked i => simp [fStepProd, hpc] at hs
    | exited => simp [fStepProd, hpc] at hs
    | p1 i => exact Or.inl (hold (by rw [hpc]; rfl))
    | p2 i => exact Or.inl (hold (by rw [hpc]; rfl))
    | s1 i loc fin last => exact Or.inl (hold (by rw [hpc]; rfl))
    | s2 i loc fin last => exact Or.inl (hold (by rw [hpc]; rfl))
    | s3 i loc fin last => exact Or.inl (hold (by rw [hpc]; rfl))
    | s4 i loc fin last => exact Or.inl (hold (by rw [hpc]; rfl))
    | computing i j loc =>
      have hmu : s.mu ≠ some .producer := by
        intro h
        have := hpd.mpr h
        simp [hpc, prodHolds] at this
      refine Or.inr ⟨.pCompute, ?_⟩
      simp only [fStepProd, hpc] at hs
      by_cases h1 : c.endTest (c.src s.consulted) = true
      · simp only [h1, if_true, Option.some.injEq] at hs
        subst hs
        exact sim_compute c s i j loc (.sAcq i loc true false) hmu hpc rfl (by simp [h1, projProd])
      · by_cases h2 : j + 1 ≥ c.chunk
        · simp only [h1, h2, if_true, Bool.false_eq_true, if_false, Option.some.injEq] at hs
          subst hs
          exact sim_compute c s i j loc (.sAcq i (loc + 1) false false) hmu hpc rfl (by simp [h1, h2, projProd])
        · simp only [h1, h2, Bool.false_eq_true, if_false, Option.some.injEq] at hs
          subst hs
          exact sim_compute c s i j loc (.computing i (j + 1) (loc + 1)) hmu hpc rfl (by simp [h1, h2, projProd])

/-! ### coarse runs -/

theorem runLabels_snoc (c : MonCfg) (ls : List Label) : ∀ (s s' s'' : MonSt) (l : Label),
    runLabels c s ls = some s' → step c s' l = some s'' → runLabels c s (ls ++ [l]) = some s'' := by
  induction ls with
  | nil => intro s s' s'' l h1 h2; simp [runLabels] at h1; subst h1; simp [runLabels, h2]
  | cons a ls ih =>
    intro s s' s'' l h1 h2
    simp only [runLabels, List.cons_append] at h1 ⊢
    cases ha : step c s a with
    | none => simp [ha] at h1
    | some t => simp only [ha] at h1 ⊢; exact ih t s' s'' l h1 h2

theorem reachable_step (c : MonCfg) (programs : List (List Nat)) (s s' : MonSt) (l : Label)
    (h : Reachable c programs s) (hs : step c s l = some s') : Reachable c programs s' := by
  obtain ⟨ls, hls⟩ := h
  exact ⟨ls ++ [l], runLabels_snoc c ls _ s s' l hls hs⟩

/-! ### results are never lost -/

def Keeps (s s' : FSt) : Prop :=
  ∀ (k : Nat) (r : FReader), s.readers[k]? = some r →
    ∃ r2 : FReader, s'.readers[k]? = some r2 ∧ ∀ res ∈ r.results, res ∈ r2.results

theorem keeps_refl (s : FSt) : Keeps s s := fun _ r h => ⟨r, h, fun _ h => h⟩

theorem keeps_trans {a b d : FSt} (h1 : Keeps a b) (h2 : Keeps b d) : Keeps a d := by
  intro k r h
  obtain ⟨r2, h3, h4⟩ := h1 k r h
  obtain ⟨r3, h5, h6⟩ := h2 k r2 h3
  exact ⟨r3, h5, fun res hr => h6 res (h4 res hr)⟩

theorem keeps_set (s s' : FSt) (j : Nat) (r0 r' : FReader) (h0 : s.readers[j]? = some r0)
    (hsub : ∀ res ∈ r0.results, res ∈ r'.results) (hrd : s'.readers = s.readers.set j r') : Keeps s s' := by
  intro k r hk
  have hlt : j < s.readers.length := (List.getElem?_eq_some_iff.mp h0).1
  rw [hrd, List.getElem?_set]
  by_cases hjk : j = k
  · subst hjk
    rw [h0] at hk
    cases hk
    exact ⟨r', by simp [hlt], hsub⟩
  · exact ⟨r, by simp [hjk, hk], fun _ h => h⟩

theorem keeps_bc (s s' : FSt) (hrd : s'.readers = fBroadcast s.readers) : Keeps s s' := by
  intro k r hk
  refine ⟨bcF r, by simp [hrd, fBroadcast_eq, hk], ?_⟩
  unfold bcF
  split <;> exact fun _ h => h

theorem keeps_same (s s' : FSt) (hrd : s'.readers = s.readers) : Keeps s s' := by
  intro k r hk
  exact ⟨r, by rw [hrd]; exact hk, fun _ h => h⟩

theorem keeps_step (c : MonCfg) (s s' : FSt) (l : FLabel) (hs : fStep c s l = some s') : Keeps s s' := by
  cases l with
  | r j =>
    simp only [fStep] at hs
    unfold fStepReader at hs
    split at hs
    · cases hs
    · rename_i r hk
      split at hs
      all_goals (try split at hs)
      all_goals (first | cases hs | skip)
      all_goals
        refine keeps_set s _ j r _ hk ?_ rfl
      all_goals simp +contextual
  | p =>
    simp only [fStep] at hs
    cases hpc : s.prod <;> simp only [fStepProd, hpc] at hs
    all_goals (repeat' (split at hs))
    all_goals (first | cases hs | skip)
    all_goals (first | exact keeps_same _ _ rfl | exact keeps_bc _ _ rfl)

theorem keeps_cs (c : MonCfg) : ∀ (n : Nat) (s : FSt), Keeps s (completeSection c n s) := by
  intro n
  induction n with
  | zero => intro s; exact keeps_refl s
  | succ n ih =>
    intro s
    rw [cs_succ]
    cases h : hstep c s with
    | none => exact keeps_refl s
    | some t =>
      obtain ⟨l, hl⟩ := hstep_fStep c s t h
      exact keeps_trans (keeps_step c s t l hl) (ih t)

theorem projReader_results (r : FReader) : ∀ res ∈ r.results, res ∈ (projReader r).results := by
  intro res h
  cases r with
  | mk pc todo results => cases pc <;> simp_all [projReader]

end MF
open MF

theorem mutex_invariant (c : MonCfg) (programs : List (List Nat)) (s : FSt)
    (h : FReachable c programs s) : MutexInv s := by
  have hi := hinv_reachable c programs s h
  exact ⟨hi.prod, hi.rd⟩

theorem absF_init (c : MonCfg) (programs : List (List Nat)) :
    absF c (fInit programs) = monInit programs := by
  rw [absF_eq, cs_none c 8 _ rfl]
  simp [proj, fInit, monInit, projProd, projReader]

/-- forward simulation: every fine step is a stutter or exactly one coarse transition -/
theorem fine_step_simulates (c : MonCfg) (programs : List (List Nat)) (s s' : FSt) (l : FLabel)
    (h : FReachable c programs s) (hs : fStep c s l = some s') :
    absF c s' = absF c s ∨ ∃ L, step c (absF c s) L = some (absF c s') :=
  sim c s s' l (hinv_reachable c programs s h) (pok_reachable c programs s h) hs

/-- hence every fine execution is (after abstraction) a coarse execution … -/
theorem fine_refines_coarse (c : MonCfg) (programs : List (List Nat)) (s : FSt)
    (h : FReachable c programs s) : Reachable c programs (absF c s) := by
  refine freach_induct c programs (P := fun s => Reachable c programs (absF c s)) ?_ ?_ s h
  · rw [absF_init]; exact ⟨[], rfl⟩
  · intro s s' l hr hp hs
    rcases fine_step_simulates c programs s s' l hr hs with h1 | ⟨L, hL⟩
    · rw [h1]; exact hp
    · exact reachable_step c programs _ _ L hp hL

/-- … and the sequential-answer theorem holds for fine executions: every `wait(index)` that has
returned (its result is recorded) gave the sequential answer -/
theorem fine_sequential_answers (c : MonCfg) (hc : 0 < c.chunk) (programs : List (List Nat))
    (hcap : InCapacity c programs) (s : FSt) (h : FReachable c programs s) :
    ∀ r ∈ s.readers, ∀ res ∈ r.results,
      (res.2.2 = true → res.1 < res.2.1 ∧ ∀ k, k < res.2.1 → ValidUpTo c k) ∧
      (res.2.2 = false → ∃ e, e ≤ res.1 ∧ IsEndPos c e) := by
  intro r hr res hres
  obtain ⟨k, hk⟩ := List.mem_iff_getElem?.mp hr
  obtain ⟨r2, h2, h3⟩ := keeps_cs c 8 s k r hk
  have hmem : projReader r2 ∈ (absF c s).readers := by
    rw [absF_eq]
    apply List.mem_iff_getElem?.mpr
    exact ⟨k, by simp [proj, h2]⟩
  exact mon_safety c hc programs hcap (absF c s) (fine_refines_coarse c programs s h) _ hmem res
    (projReader_results r2 res (h3 res hres))

end Sqroot.Proofs

/-
Lemmas for C09 (pattern search reports exactly the occurrences) and the search part of C15/C16.
-/
import Sqroot.Model.Search
import Sqroot.Spec.Search
namespace Sqroot.Proofs
open Sqroot.Model

/-- the (position, digit) feed of a window starting at position `s` holding digits `T` -/
def shiftPos (s : Int) (i : Nat) : Int := s + (i : Int)

def feedOf (s : Int) (T : List Int) : List (Int × Int) :=
  T.zipIdx.map fun (d, i) => (shiftPos s i, d)

/-- length of the longest proper border of `l` (a proper prefix of `l` that is also a suffix) -/
def IsBorder (b l : List Int) : Prop := b.length < l.length ∧ b <+: l ∧ b <:+ l

/-- `ttable` never panics or runs out of fuel, and `t[0] = −1`, `t[i]` (1 ≤ i ≤ |p|) is the length
of the longest proper border of `p[0..i)` -/
theorem ttable_spec (p : List Int) (hp : p ≠ []) :
    ∃ t : Array Int, ttable p.toArray = .ok t ∧ t.size = p.length + 1 ∧ t[0]? = some (-1) ∧
      ∀ i, 1 ≤ i → i ≤ p.length →
        ∃ b : List Int, t[i]? = some (b.length : Int) ∧ IsBorder b (p.take i) ∧
          ∀ b', IsBorder b' (p.take i) → b'.length ≤ b.length := by
  sorry

/-- C09 forward: on any window the forward search yields exactly the occurrences, ascending,
overlaps included; no index panic, no exhausted fuel. -/
theorem matchesAll_spec (p : List Int) (hp : p ≠ []) (T : List Int) (s : Int) :
    matchesAll p.toArray (feedOf s T) = .ok ((Spec.occurrences p T).map (shiftPos s)) := by
  sorry

/-- C09 backward: the backward search yields the same set in descending order -/
theorem backwardMatchesAll_spec (p : List Int) (hp : p ≠ []) (T : List Int) (s : Int) :
    backwardMatchesAll p.toArray (feedOf s T).reverse
      = .ok (((Spec.occurrences p T).map (shiftPos s)).reverse) := by
  sorry

/-- the empty pattern matches at every digit position of the window -/
theorem matchesAll_empty (T : List Int) (s : Int) :
    matchesAll #[] (feedOf s T) = .ok ((List.range T.length).map (shiftPos s)) ∧
    backwardMatchesAll #[] (feedOf s T).reverse
      = .ok (((List.range T.length).map (shiftPos s)).reverse) := by
  sorry

/-- a pattern containing a value outside 0–9 matches nowhere in a text of decimal digits -/
theorem bad_pattern_no_match (p T : List Int) (hb : ∃ v ∈ p, v < 0 ∨ 9 < v)
    (hT : ∀ d ∈ T, 0 ≤ d ∧ d ≤ 9) : Spec.occurrences p T = [] := by
  sorry

/-- v1/v2: on consecutive positions the `Reset` branch is a no-op — same result as v3 -/
theorem matchesAllV1_eq (p : List Int) (T : List Int) (s : Int) :
    matchesAllV1 p.toArray (feedOf s T) = matchesAll p.toArray (feedOf s T) ∧
    backwardMatchesAllV1 p.toArray (feedOf s T).reverse
      = backwardMatchesAll p.toArray (feedOf s T).reverse := by
  sorry

/-- C15 core: a lazy search for the first `n` matches returns exactly the first `n` occurrences
and has pulled feed items only up to the digit that completes the last reported match (or the
whole finite feed when fewer than `n` matches exist); `n = 0` pulls nothing. -/
theorem kmpTake_spec (p : List Int) (hp : p ≠ []) (T : List Int) (s : Int) (n : Nat) :
    ∃ k, newKernel p.toArray = .ok k ∧
      ∃ c, kmpTake k false n (feedOf s T)
          = .ok (((Spec.occurrences p T).take n).map (shiftPos s), c) ∧
        (n = 0 → c = 0) ∧
        (0 < n → n ≤ (Spec.occurrences p T).length →
          ∀ last, ((Spec.occurrences p T).take n).getLast? = some last → c = last + p.length) ∧
        ((Spec.occurrences p T).length < n → c = T.length) := by
  sorry

end Sqroot.Proofs

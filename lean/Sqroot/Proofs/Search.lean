/-
Lemmas for C09 (pattern search reports exactly the occurrences) and the search part of C15/C16.
-/
import Sqroot.Model.Search
import Sqroot.Spec.Search
import Sqroot.Proofs.SearchLemmas
namespace Sqroot.Proofs
open Sqroot.Model

/-- the (position, digit) feed of a window starting at position `s` holding digits `T` -/
def shiftPos (s : Int) (i : Nat) : Int := s + (i : Int)

def feedOf (s : Int) (T : List Int) : List (Int × Int) :=
  T.zipIdx.map fun (d, i) => (shiftPos s i, d)

/-- length of the longest proper border of `l` (a proper prefix of `l` that is also a suffix) -/
def IsBorder (b l : List Int) : Prop := b.length < l.length ∧ b <+: l ∧ b <:+ l

/-! ### facts about `feedOf` -/

theorem feedOf_getElem? (s : Int) (T : List Int) (j : Nat) :
    (feedOf s T)[j]? = T[j]?.map fun d => (s + (j : Int), d) := by
  simp only [feedOf, List.getElem?_map, List.getElem?_zipIdx, Option.map_map]
  cases T[j]? <;> simp [shiftPos]

theorem feedOf_length (s : Int) (T : List Int) : (feedOf s T).length = T.length := by
  simp [feedOf]

theorem feedOf_map_snd (s : Int) (T : List Int) : (feedOf s T).map Prod.snd = T := by
  apply List.ext_getElem?
  intro j
  rw [List.getElem?_map, feedOf_getElem?]
  cases T[j]? <;> rfl

theorem feedOf_map_fst (s : Int) (T : List Int) :
    (feedOf s T).map Prod.fst = (List.range T.length).map (shiftPos s) := by
  apply List.ext_getElem?
  intro j
  rw [List.getElem?_map, feedOf_getElem?, List.getElem?_map]
  by_cases h : j < T.length
  · rw [List.getElem?_range h, List.getElem?_eq_getElem h]; rfl
  · rw [List.getElem?_eq_none (by omega), List.getElem?_eq_none (by simp; omega)]; rfl

theorem feedOf_nil (s : Int) : feedOf s [] = [] := rfl

theorem feedOf_cons (s : Int) (d : Int) (T : List Int) :
    feedOf s (d :: T) = (s, d) :: feedOf (s + 1) T := by
  apply List.ext_getElem?
  intro j
  cases j with
  | zero => simp [feedOf_getElem?]
  | succ j =>
    simp only [feedOf_getElem?, List.getElem?_cons_succ]
    cases T[j]? with
    | none => rfl
    | some v => simp only [Option.map_some]; congr 2; omega

theorem feedOf_append (A B : List Int) : ∀ s : Int,
    feedOf s (A ++ B) = feedOf s A ++ feedOf (s + (A.length : Int)) B := by
  induction A with
  | nil => intro s; simp [feedOf_nil]
  | cons a A ih =>
    intro s
    rw [List.cons_append, feedOf_cons, ih, feedOf_cons, List.cons_append]
    congr 3
    simp only [List.length_cons]; omega

theorem posAt_feedOf (s : Int) (T : List Int) {j : Nat} (hj : j < T.length) :
    posAt (feedOf s T) j = s + (j : Int) := by
  simp [posAt, feedOf_getElem?, List.getElem?_eq_getElem hj]

theorem posAt_feedOf_reverse (s : Int) (T : List Int) {j : Nat} (hj : j < T.length) :
    posAt (feedOf s T).reverse j = s + ((T.length - 1 - j : Nat) : Int) := by
  have h1 : j < (feedOf s T).length := by rw [feedOf_length]; exact hj
  have h2 : T.length - 1 - j < T.length := by omega
  simp [posAt, List.getElem?_reverse h1, feedOf_getElem?, feedOf_length,
    List.getElem?_eq_getElem h2]

theorem toArray_size_ne_zero {p : List Int} (hp : p ≠ []) : ¬ p.toArray.size = 0 := by
  have := List.length_pos_iff.2 hp
  simp only [List.size_toArray]; omega

/-! ### v1/v2 `Reset` is a no-op on consecutive feeds -/

theorem reset_of_idx_zero {k : Kernel} (h : k.idx = 0) : k.reset = k := by
  obtain ⟨t, q, i⟩ := k
  simp only at h
  subst h; rfl

theorem newKernel_idx {pat : Array Int} {k : Kernel} (h : newKernel pat = .ok k) : k.idx = 0 := by
  unfold newKernel at h
  cases ht : ttable pat with
  | error e => simp [ht, bind, Except.bind] at h
  | ok t =>
    simp only [ht, bind, Except.bind, pure, Except.pure, Except.ok.injEq] at h
    subst h; rfl

theorem kmpFeedV1_eq_fwd : ∀ (T : List Int) (s : Int) (k : Kernel) (e : Int),
    (k.idx = 0 ∨ e = s) →
    kmpFeedV1 k false e (feedOf s T) = kmpFeed k false (feedOf s T) := by
  intro T
  induction T with
  | nil => intro s k e _; rfl
  | cons d T ih =>
    intro s k e h
    rw [feedOf_cons]
    unfold kmpFeedV1 kmpFeed
    have hk0 : (if s ≠ e then k.reset else k) = k := by
      rcases h with h | h
      · rw [reset_of_idx_zero h]; simp
      · simp [h]
    simp only [hk0, bind, Except.bind, Bool.false_eq_true, if_false]
    cases k.visit d with
    | error err => rfl
    | ok r =>
      obtain ⟨k', hit⟩ := r
      simp only []
      rw [ih (s + 1) k' (s + 1) (Or.inr rfl)]

theorem kmpFeedV1_eq_bwd : ∀ (R : List Int) (s : Int) (k : Kernel) (e : Int),
    (k.idx = 0 ∨ e = s + (R.length : Int) - 1) →
    kmpFeedV1 k true e (feedOf s R.reverse).reverse = kmpFeed k true (feedOf s R.reverse).reverse := by
  intro R
  induction R with
  | nil => intro s k e _; rfl
  | cons d R ih =>
    intro s k e h
    have hf : (feedOf s (d :: R).reverse).reverse
        = (s + (R.length : Int), d) :: (feedOf s R.reverse).reverse := by
      rw [List.reverse_cons, feedOf_append, List.reverse_append, feedOf_cons, feedOf_nil]
      simp
    rw [hf]
    unfold kmpFeedV1 kmpFeed
    have hk0 : (if s + (R.length : Int) ≠ e then k.reset else k) = k := by
      rcases h with h | h
      · rw [reset_of_idx_zero h]; simp
      · rw [if_neg]; simp only [List.length_cons] at h; simp only [ne_eq, Decidable.not_not]; omega
    simp only [hk0, bind, Except.bind, if_true]
    cases k.visit d with
    | error err => rfl
    | ok r =>
      obtain ⟨k', hit⟩ := r
      simp only []
      rw [ih s k' (s + (R.length : Int) + -1) (Or.inr (by omega))]

/-! ### the theorems -/

/-- `ttable` never panics or runs out of fuel, and `t[0] = −1`, `t[i]` (1 ≤ i ≤ |p|) is the length
of the longest proper border of `p[0..i)` -/
theorem ttable_spec (p : List Int) (hp : p ≠ []) :
    ∃ t : Array Int, ttable p.toArray = .ok t ∧ t.size = p.length + 1 ∧ t[0]? = some (-1) ∧
      ∀ i, 1 ≤ i → i ≤ p.length →
        ∃ b : List Int, t[i]? = some (b.length : Int) ∧ IsBorder b (p.take i) ∧
          ∀ b', IsBorder b' (p.take i) → b'.length ≤ b.length := by
  obtain ⟨t, h1, h2, h3⟩ := ttable_ok p hp
  refine ⟨t, h1, h2, h3.1, ?_⟩
  intro i hi1 hi2
  obtain ⟨b, hb, hlb⟩ := h3.2 i hi1 hi2
  have hbi : b < i := hlb.1.1
  have hlen : (p.take b).length = b := by simp only [List.length_take]; omega
  refine ⟨p.take b, by rw [hlen]; exact hb, ⟨?_, List.take_prefix_take_left (by omega), hlb.1.2⟩, ?_⟩
  · simp only [List.length_take]; omega
  · intro b' hb'
    rw [hlen]
    apply hlb.2
    obtain ⟨g1, g2, g3⟩ := hb'
    have hl : (p.take i).length = i := by simp only [List.length_take]; omega
    rw [hl] at g1
    have : b' = p.take b'.length := by
      have := List.prefix_iff_eq_take.1 g2
      rw [List.take_take] at this
      rw [show min b'.length i = b'.length by omega] at this
      exact this
    exact ⟨g1, by rw [← this]; exact g3⟩

/-- C09 forward: on any window the forward search yields exactly the occurrences, ascending,
overlaps included; no index panic, no exhausted fuel. -/
theorem matchesAll_spec (p : List Int) (hp : p ≠ []) (T : List Int) (s : Int) :
    matchesAll p.toArray (feedOf s T) = .ok ((Spec.occurrences p T).map (shiftPos s)) := by
  obtain ⟨t, ht, hk, hinv⟩ := newKernel_ok p hp
  unfold matchesAll
  rw [if_neg (toArray_size_ne_zero hp)]
  simp only [hk, bind, Except.bind]
  rw [kmpFeed_spec ht false _ _ _ hinv, feedOf_map_snd, occurrences_eq_idxs hp, List.map_map]
  congr 1
  apply List.map_congr_left
  intro j hj
  obtain ⟨h1, h2⟩ := idxs_bounds hj
  simp only [outPos, posAt_feedOf s T h1, Function.comp, shiftPos, Bool.false_eq_true, if_false]
  omega

/-- C09 backward: the backward search yields the same set in descending order -/
theorem backwardMatchesAll_spec (p : List Int) (hp : p ≠ []) (T : List Int) (s : Int) :
    backwardMatchesAll p.toArray (feedOf s T).reverse
      = .ok (((Spec.occurrences p T).map (shiftPos s)).reverse) := by
  have hp' : p.reverse ≠ [] := by simpa using hp
  obtain ⟨t, ht, hk, hinv⟩ := newKernel_ok p.reverse hp'
  unfold backwardMatchesAll
  rw [if_neg (toArray_size_ne_zero hp)]
  simp only [patternReverse, List.reverse_toArray, hk, bind, Except.bind]
  rw [kmpFeed_spec ht true _ _ _ hinv, List.map_reverse, feedOf_map_snd, ← List.map_reverse,
    occurrences_reverse_eq_idxs hp, List.map_map]
  congr 1
  apply List.map_congr_left
  intro j hj
  have h1 : j < T.length := by simpa using (mem_idxs.1 hj).1
  simp only [outPos, posAt_feedOf_reverse s T h1, Function.comp, shiftPos, if_true]

/-- the empty pattern matches at every digit position of the window -/
theorem matchesAll_empty (T : List Int) (s : Int) :
    matchesAll #[] (feedOf s T) = .ok ((List.range T.length).map (shiftPos s)) ∧
    backwardMatchesAll #[] (feedOf s T).reverse
      = .ok (((List.range T.length).map (shiftPos s)).reverse) := by
  constructor
  · simp [matchesAll, feedOf_map_fst]
  · simp only [backwardMatchesAll, Array.size_empty, if_true, List.map_reverse, feedOf_map_fst]

/-- a pattern containing a value outside 0–9 matches nowhere in a text of decimal digits -/
theorem bad_pattern_no_match (p T : List Int) (hb : ∃ v ∈ p, v < 0 ∨ 9 < v)
    (hT : ∀ d ∈ T, 0 ≤ d ∧ d ≤ 9) : Spec.occurrences p T = [] := by
  obtain ⟨v, hv, hbad⟩ := hb
  unfold Spec.occurrences
  rw [List.filter_eq_nil_iff]
  intro i _ hocc
  simp only [Spec.occursAt, Bool.and_eq_true, decide_eq_true_eq, beq_iff_eq] at hocc
  rw [← hocc.2] at hv
  have := hT v (List.mem_of_mem_drop (List.mem_of_mem_take hv))
  omega

/-- v1/v2: on consecutive positions the `Reset` branch is a no-op — same result as v3 -/
theorem matchesAllV1_eq (p : List Int) (T : List Int) (s : Int) :
    matchesAllV1 p.toArray (feedOf s T) = matchesAll p.toArray (feedOf s T) ∧
    backwardMatchesAllV1 p.toArray (feedOf s T).reverse
      = backwardMatchesAll p.toArray (feedOf s T).reverse := by
  constructor
  · unfold matchesAllV1 matchesAll
    split
    · rfl
    · cases hk : newKernel p.toArray with
      | error e => rfl
      | ok k =>
        simp only [bind, Except.bind]
        exact kmpFeedV1_eq_fwd T s k (-1) (Or.inl (newKernel_idx hk))
  · unfold backwardMatchesAllV1 backwardMatchesAll
    split
    · rfl
    · cases hk : newKernel (patternReverse p.toArray) with
      | error e => rfl
      | ok k =>
        simp only [bind, Except.bind]
        have := kmpFeedV1_eq_bwd T.reverse s k (-1) (Or.inl (newKernel_idx hk))
        rwa [List.reverse_reverse] at this

/-- C15 core: a lazy search for the first `n` matches returns exactly the first `n` occurrences
and has pulled feed items only up to the digit that completes the last reported match (or the
whole finite feed when fewer than `n` matches exist); `n = 0` pulls nothing. -/
theorem kmpTake_spec (p : List Int) (hp : p ≠ []) (T : List Int) (s : Int) (n : Nat) :
    ∃ k, newKernel p.toArray = .ok k ∧
      ∃ c, kmpTake k false n (feedOf s T)
          = .ok (((Spec.occurrences p T).take n).map (shiftPos s), c) ∧
        (n = 0 → c = 0) ∧
        (0 < n → n ≤ (Spec.occurrences p T).length →
          ∀ last, ((Spec.occurrences p T).take n).getLast? = some last → c = last + p.length) ∧
        ((Spec.occurrences p T).length < n → c = T.length) := by
  obtain ⟨t, ht, hk, hinv⟩ := newKernel_ok p hp
  refine ⟨_, hk, takeCount n (idxs p [] T) T.length, ?_, ?_, ?_, ?_⟩
  · rw [kmpTake_gen ht false _ _ _ n hinv, feedOf_map_snd, feedOf_length, occurrences_eq_idxs hp,
      ← List.map_take, List.map_map]
    congr 2
    apply List.map_congr_left
    intro j hj
    obtain ⟨h1, h2⟩ := idxs_bounds (List.mem_of_mem_take hj)
    simp only [outPos, posAt_feedOf s T h1, Function.comp, shiftPos, Bool.false_eq_true, if_false]
    omega
  · intro hn; simp [takeCount, hn]
  · intro hn hle last hlast
    rw [occurrences_eq_idxs hp] at hle hlast
    rw [List.length_map] at hle
    have hlt : n - 1 < (idxs p [] T).length := by omega
    rw [List.getLast?_take, if_neg (by omega), List.getElem?_map,
      List.getElem?_eq_getElem hlt] at hlast
    simp only [Option.map_some, Option.some_or, Option.some.injEq] at hlast
    obtain ⟨_, h2⟩ := idxs_bounds (List.getElem_mem hlt)
    simp only [takeCount, if_neg (show ¬ n = 0 by omega), List.getElem?_eq_getElem hlt]
    omega
  · intro hlt
    rw [occurrences_eq_idxs hp, List.length_map] at hlt
    simp only [takeCount, if_neg (show ¬ n = 0 by omega),
      List.getElem?_eq_none (show (idxs p [] T).length ≤ n - 1 by omega)]

end Sqroot.Proofs

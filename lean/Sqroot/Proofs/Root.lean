/-
Lemmas for C01–C03 and the rational part of C13.
-/
import Sqroot.Proofs.RootDefs
import Sqroot.Model.Managers
namespace Sqroot.Proofs
open Sqroot.Model

theorem sqrt_mgr_correct (v : Version) : ManagerCorrect 2 (sqrtMgr v) := by
  sorry

theorem cube_mgr_correct (v : Version) : ManagerCorrect 3 (cubeMgr v) := by
  sorry

/-- C01/C02 core: the digits are the truncated n-th root, digit by digit. -/
theorem root_exact {n : Nat} {mgr : Manager} (hm : ManagerCorrect n mgr)
    (num den : Nat) (hnum : 0 < num) (hden : 0 < den) (k : Nat) :
    Spec.TruncRoot n num den (Spec.ofDigits (rootPrefix mgr num den k).1)
        (rootPrefix mgr num den k).2 (rootPrefix mgr num den k).1.length
      ∧ Spec.DigitsOk (rootPrefix mgr num den k).1 := by
  sorry

/-- asking for fewer digits gives a prefix; the exponent does not depend on `k` -/
theorem root_prefix_take (mgr : Manager) (num den j k : Nat) (hjk : j ≤ k) :
    (rootPrefix mgr num den j).1 = (rootPrefix mgr num den k).1.take j
      ∧ (rootPrefix mgr num den j).2 = (rootPrefix mgr num den k).2 := by
  sorry

/-- the result depends only on the value `num/den` -/
theorem root_repr_indep {n : Nat} {mgr : Manager} (hm : ManagerCorrect n mgr)
    (num den c : Nat) (hnum : 0 < num) (hden : 0 < den) (hc : 0 < c) (k : Nat) :
    rootPrefix mgr (c * num) (c * den) k = rootPrefix mgr num den k := by
  sorry

/-- C03: the stream ends after exactly `L` digits iff those `L` digits are the exact root;
then the last digit is non-zero. -/
theorem root_ends_iff {n : Nat} {mgr : Manager} (hm : ManagerCorrect n mgr)
    (num den : Nat) (hnum : 0 < num) (hden : 0 < den) (L : Nat) :
    RootEndsAt mgr num den L ↔
      ((rootPrefix mgr num den L).1.length = L ∧
        Spec.ExactRoot n num den (Spec.ofDigits (rootPrefix mgr num den L).1) (rootPrefix mgr num den L).2 L) := by
  sorry

theorem root_end_last_nonzero {n : Nat} {mgr : Manager} (hm : ManagerCorrect n mgr)
    (num den : Nat) (hnum : 0 < num) (hden : 0 < den) (L : Nat) (h : RootEndsAt mgr num den L) :
    0 < L ∧ ∀ d, (rootPrefix mgr num den L).1.getLast? = some d → d ≠ 0 := by
  sorry

/-- once ended, always ended: asking for more digits changes nothing -/
theorem root_end_sticky (mgr : Manager) (num den L : Nat) (h : RootEndsAt mgr num den L) (k : Nat) (hk : L ≤ k) :
    (rootPrefix mgr num den k).1 = (rootPrefix mgr num den L).1 := by
  sorry

/-- if no finite prefix is exact the stream never ends: every position holds a digit -/
theorem root_never_ends {n : Nat} {mgr : Manager} (hm : ManagerCorrect n mgr)
    (num den : Nat) (hnum : 0 < num) (hden : 0 < den)
    (hne : ∀ L, ¬ RootEndsAt mgr num den L) (k : Nat) :
    (rootPrefix mgr num den k).1.length = k := by
  sorry

/-- C13 (rational): exponent and digits of `NewNumberFromBigRat(num/den)`. -/
theorem rat_exact (num den : Nat) (hnum : 0 < num) (hden : 0 < den) (k : Nat) :
    Spec.TruncRat num den (Spec.ofDigits (ratPrefix num den k).1)
        (ratPrefix num den k).2 (ratPrefix num den k).1.length
      ∧ Spec.DigitsOk (ratPrefix num den k).1 := by
  sorry

theorem rat_ends_iff (num den : Nat) (hnum : 0 < num) (hden : 0 < den) (L : Nat) :
    RatEndsAt num den L ↔
      ((ratPrefix num den L).1.length = L ∧
        Spec.ExactRoot 1 num den (Spec.ofDigits (ratPrefix num den L).1) (ratPrefix num den L).2 L) := by
  sorry

theorem rat_end_last_nonzero (num den : Nat) (hnum : 0 < num) (hden : 0 < den) (L : Nat)
    (h : RatEndsAt num den L) :
    0 < L ∧ ∀ d, (ratPrefix num den L).1.getLast? = some d → d ≠ 0 := by
  sorry

end Sqroot.Proofs

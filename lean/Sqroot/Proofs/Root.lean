/-
Lemmas for C01–C03 and the rational part of C13.
-/
import Sqroot.Proofs.RootDefs
import Sqroot.Model.Managers
import Sqroot.Proofs.RootLemmas
namespace Sqroot.Proofs
open Sqroot.Model

theorem sqrt_mgr_correct (v : Version) : ManagerCorrect 2 (sqrtMgr v) := by
  refine ⟨by decide, ?_, ?_, ?_, fun _ => 0, ?_, ?_, ?_⟩
  · cases v <;> rfl
  · cases v <;> rfl
  · cases v <;> rfl
  · cases v <;> rfl
  · intro Q _
    cases v <;>
      simp only [sqrtMgr, Gen.V1.sqrtNext, Gen.V2.sqrtNext, Gen.V3.sqrtNext, pw] <;>
      refine Prod.ext ?_ rfl <;> simp only [] <;> ring
  · intro Q _
    cases v <;>
      simp only [sqrtMgr, Gen.V1.sqrtNextDigit, Gen.V2.sqrtNextDigit, Gen.V3.sqrtNextDigit, pw] <;>
      refine Prod.ext ?_ rfl <;> simp only [] <;> ring

theorem cube_mgr_correct (v : Version) : ManagerCorrect 3 (cubeMgr v) := by
  refine ⟨by decide, ?_, ?_, ?_, fun Q => 6 * (Q + 1), ?_, ?_, ?_⟩
  · cases v <;> rfl
  · cases v <;> rfl
  · cases v <;> rfl
  · cases v <;> rfl
  · intro Q _
    cases v <;>
      simp only [cubeMgr, Gen.V1.cubeNext, Gen.V2.cubeNext, Gen.V3.cubeNext, pw] <;>
      refine Prod.ext ?_ ?_ <;> simp only [] <;> ring
  · intro Q _
    cases v <;>
      simp only [cubeMgr, Gen.V1.cubeNextDigit, Gen.V2.cubeNextDigit, Gen.V3.cubeNextDigit, pw] <;>
      refine Prod.ext ?_ ?_ <;> simp only [] <;> ring

/-! ### the model iterators are instances of the generic ones -/

theorem iterDigits_eq (mgr : Manager) (den k : Nat) (s : RootSt) :
    iterDigits mgr den k s = iterD (rootStep mgr den) k s := by
  induction k generalizing s with
  | zero => rfl
  | succ k ih =>
    rw [iterDigits, iterD]
    cases rootStep mgr den s with
    | none => rfl
    | some p => obtain ⟨d, s1⟩ := p; simp only [ih]

theorem rootPrefix_fst (mgr : Manager) (num den k : Nat) :
    (rootPrefix mgr num den k).1 =
      iterD (rootStep mgr (normalize num den mgr.base).den) k
        (rootInit mgr (normalize num den mgr.base).num) := by
  rw [← iterDigits_eq]; rfl

theorem rootPrefix_snd (mgr : Manager) (num den k : Nat) :
    (rootPrefix mgr num den k).2 = (normalize num den mgr.base).exp := rfl

theorem ofDigits_append (ds : List Nat) (d : Nat) :
    Spec.ofDigits (ds ++ [d]) = 10 * Spec.ofDigits ds + d := by
  simp [Spec.ofDigits, List.foldl_append]

/-! ### the invariant along the digit stream -/

/-- what is known after `j` calls that produced the digits `ds` -/
def RootI (n : Nat) (aux : Int → Int) (den X j : Nat) (ds : List Nat) (s : RootSt) : Prop :=
  ds.length = j ∧ (∀ d ∈ ds, d ≤ 9) ∧ (∀ d, ds.head? = some d → 1 ≤ d) ∧
    ∃ G, RootInv n aux den X j (Spec.ofDigits ds) G s

theorem base_gt_one {n : Nat} (hn : 0 < n) : 1 < 10 ^ n :=
  Nat.one_lt_pow (by omega) (by omega)

theorem root_core {n : Nat} {mgr : Manager} (hm : ManagerCorrect n mgr) (aux : Int → Int)
    (haux0 : mgr.init2 = aux 0)
    (hnext : ∀ Q : Int, 0 ≤ Q → mgr.next (pw n Q) (aux Q) = (pw n (Q + 1), aux (Q + 1)))
    (hnd : ∀ Q : Int, 0 ≤ Q → mgr.nextDigit (pw n Q) (aux Q) = (pw n (10 * Q), aux (10 * Q)))
    (X den : Nat) (hXden : X < den) (hdenX : den ≤ X * 10 ^ n) :
    ∀ k s', iterS (rootStep mgr den) k (rootInit mgr X) = some s' →
      RootI n aux den X k (iterD (rootStep mgr den) k (rootInit mgr X)) s' := by
  obtain ⟨hn, hB, hrem0, hinit1, -⟩ := hm
  apply iter_inv
  · refine ⟨rfl, by simp, by simp, 0, ?_⟩
    have h0 : (0 : Int) ^ n = 0 := zero_pow (by omega)
    have hn0 : n ≠ 0 := by omega
    refine ⟨by simp [rootInit], hXden, ?_, by simp [Spec.ofDigits, hn0], by simp [Spec.ofDigits], ?_, ?_⟩
    · simp [rootInit, hrem0, Spec.ofDigits, h0]
    · simp [rootInit, hinit1, Spec.ofDigits, pw, h0]
    · simp [rootInit, haux0, Spec.ofDigits]
  · rintro j ds s d s' ⟨hlen, h9, hhead, G, hI⟩ hstep
    obtain ⟨hd9, hI', hnum'⟩ := rootStep_inv hn hB aux hnext hnd hI hstep
    refine ⟨by simp [hlen], ?_, ?_, _, by rw [ofDigits_append]; exact hI'⟩
    · intro x hx
      rcases List.mem_append.mp hx with h | h
      · exact h9 x h
      · simp only [List.mem_singleton] at h; omega
    · intro x hx
      cases ds with
      | cons a t =>
        simp only [List.cons_append, List.head?_cons, Option.some.injEq] at hx
        exact hhead x (by simp [hx])
      | nil =>
        simp only [List.nil_append, List.head?_cons, Option.some.injEq] at hx
        subst hx
        simp only [List.length_nil] at hlen
        subst hlen
        have hG : G = 0 := by
          have := hI.hi
          simp only [Spec.ofDigits, List.foldl_nil, Nat.zero_add, Nat.one_pow] at this
          omega
        have hsn : s.num = X := by
          have := hI.grp
          simp only [hG, pow_zero, Nat.mul_one, Nat.zero_mul, Nat.zero_add] at this
          exact this.symm
        have hpos : 1 ≤ s.num * 10 ^ n / den := by
          rw [hsn]
          exact Nat.div_pos hdenX (by omega)
        by_contra hd0
        have hd0 : d = 0 := by omega
        have := hI'.hi
        simp only [hd0, Spec.ofDigits, List.foldl_nil, Nat.mul_zero, Nat.zero_add, Nat.one_pow,
          hG, Nat.zero_mul] at this
        omega

/-- inequalities about `num/den` are inequalities about the normalised radicand -/
theorem root_transport {n : Nat} (hn : 0 < n) (num den : Nat) (hnum : 0 < num) (hden : 0 < den)
    (L Y : Nat) :
    (Y * 10 ^ (n * ((normalize num den (10 ^ n)).exp - L).toNat) * den ≤
        num * 10 ^ (n * ((L : Int) - (normalize num den (10 ^ n)).exp).toNat) ↔
      Y * (normalize num den (10 ^ n)).den ≤ (normalize num den (10 ^ n)).num * (10 ^ n) ^ L) ∧
    (num * 10 ^ (n * ((L : Int) - (normalize num den (10 ^ n)).exp).toNat) <
        Y * 10 ^ (n * ((normalize num den (10 ^ n)).exp - L).toNat) * den ↔
      (normalize num den (10 ^ n)).num * (10 ^ n) ^ L < Y * (normalize num den (10 ^ n)).den) ∧
    (Y * 10 ^ (n * ((normalize num den (10 ^ n)).exp - L).toNat) * den =
        num * 10 ^ (n * ((L : Int) - (normalize num den (10 ^ n)).exp).toNat) ↔
      Y * (normalize num den (10 ^ n)).den = (normalize num den (10 ^ n)).num * (10 ^ n) ^ L) := by
  obtain ⟨hX0, hXlt, hdenX, hrel⟩ := normalize_spec num den (10 ^ n) (base_gt_one hn) hnum hden
  generalize normalize num den (10 ^ n) = nm at *
  rw [pow_mul, pow_mul]
  exact transport (10 ^ n) num den nm.num nm.den (-nm.exp).toNat nm.exp.toNat
    (nm.exp - L).toNat ((L : Int) - nm.exp).toNat L (Nat.pow_pos (by omega)) hden (by omega) hrel
    (by omega) Y

/-- everything known about the state after `L` successful calls -/
theorem root_state {n : Nat} {mgr : Manager} (hm : ManagerCorrect n mgr)
    (num den : Nat) (hnum : 0 < num) (hden : 0 < den) :
    0 < n ∧ mgr.base = 10 ^ n ∧ 0 < (normalize num den (10 ^ n)).num ∧
    ∃ aux : Int → Int,
      (∀ Q : Int, 0 ≤ Q → mgr.next (pw n Q) (aux Q) = (pw n (Q + 1), aux (Q + 1))) ∧
      (∀ Q : Int, 0 ≤ Q → mgr.nextDigit (pw n Q) (aux Q) = (pw n (10 * Q), aux (10 * Q))) ∧
      ∀ L s', iterS (rootStep mgr (normalize num den (10 ^ n)).den) L
            (rootInit mgr (normalize num den (10 ^ n)).num) = some s' →
        RootI n aux (normalize num den (10 ^ n)).den (normalize num den (10 ^ n)).num L
          (iterD (rootStep mgr (normalize num den (10 ^ n)).den) L
            (rootInit mgr (normalize num den (10 ^ n)).num)) s' := by
  obtain ⟨hn, hB, hrem0, hinit1, aux, haux0, hnext, hnd⟩ := id hm
  obtain ⟨hX0, hXlt, hdenX, -⟩ := normalize_spec num den (10 ^ n) (base_gt_one hn) hnum hden
  exact ⟨hn, hB, hX0, aux, hnext, hnd, root_core hm aux haux0 hnext hnd _ _ hXlt hdenX⟩

/-- C01/C02 core: the digits are the truncated n-th root, digit by digit. -/
theorem root_exact {n : Nat} {mgr : Manager} (hm : ManagerCorrect n mgr)
    (num den : Nat) (hnum : 0 < num) (hden : 0 < den) (k : Nat) :
    Spec.TruncRoot n num den (Spec.ofDigits (rootPrefix mgr num den k).1)
        (rootPrefix mgr num den k).2 (rootPrefix mgr num den k).1.length
      ∧ Spec.DigitsOk (rootPrefix mgr num den k).1 := by
  obtain ⟨hn, hB, -, aux, -, -, hst⟩ := root_state hm num den hnum hden
  rw [rootPrefix_fst, rootPrefix_snd, hB]
  have hself := iterD_self_length (rootStep mgr (normalize num den (10 ^ n)).den) k
    (rootInit mgr (normalize num den (10 ^ n)).num)
  generalize hds : iterD (rootStep mgr (normalize num den (10 ^ n)).den) k
    (rootInit mgr (normalize num den (10 ^ n)).num) = ds at *
  obtain ⟨s', hs'⟩ := (iterS_isSome_iff _ ds.length _).mpr (by rw [hself])
  have hR := hst ds.length s' hs'
  rw [hself] at hR
  obtain ⟨-, h9, hhead, G, hI⟩ := hR
  refine ⟨?_, h9, hhead⟩
  have hT := root_transport hn num den hnum hden ds.length
  have hgrp := hI.grp
  have hlt := hI.lt
  constructor
  · refine ((hT _).1).mpr ?_
    have := Nat.mul_le_mul_right (normalize num den (10 ^ n)).den hI.lo
    omega
  · refine ((hT _).2.1).mpr ?_
    have h1 := Nat.mul_le_mul_right (normalize num den (10 ^ n)).den hI.hi
    rw [Nat.succ_mul] at h1
    omega

/-- asking for fewer digits gives a prefix; the exponent does not depend on `k` -/
theorem root_prefix_take (mgr : Manager) (num den j k : Nat) (hjk : j ≤ k) :
    (rootPrefix mgr num den j).1 = (rootPrefix mgr num den k).1.take j
      ∧ (rootPrefix mgr num den j).2 = (rootPrefix mgr num den k).2 := by
  refine ⟨?_, rfl⟩
  rw [rootPrefix_fst, rootPrefix_fst]
  exact iterD_take _ j k hjk _

theorem rootStep_scale (mgr : Manager) (den c : Nat) (hc : 0 < c) (a : Nat) (r i i2 : Int) :
    rootStep mgr (c * den) ⟨c * a, r, i, i2⟩ =
      (rootStep mgr den ⟨a, r, i, i2⟩).map
        (fun p => (p.1, ⟨c * p.2.num, p.2.rem, p.2.incr, p.2.incr2⟩)) := by
  rw [rootStep_eq, rootStep_eq]
  have e1 : c * a * mgr.base / (c * den) = a * mgr.base / den := by
    rw [Nat.mul_assoc, Nat.mul_div_mul_left _ _ hc]
  have e2 : c * a * mgr.base % (c * den) = c * (a * mgr.base % den) := by
    rw [Nat.mul_assoc, Nat.mul_mod_mul_left]
  have e3 : c * a = 0 ↔ a = 0 := by
    constructor
    · intro h
      rcases Nat.mul_eq_zero.mp h with h | h
      · omega
      · exact h
    · rintro rfl; rfl
  simp only [e1, e2, e3]
  by_cases h : a = 0 ∧ r = 0
  · simp [h]
  · simp [h, stepOut]

theorem iterDigits_scale (mgr : Manager) (den c : Nat) (hc : 0 < c) (k : Nat) (a : Nat)
    (r i i2 : Int) :
    iterDigits mgr (c * den) k ⟨c * a, r, i, i2⟩ = iterDigits mgr den k ⟨a, r, i, i2⟩ := by
  induction k generalizing a r i i2 with
  | zero => rfl
  | succ k ih =>
    rw [iterDigits, iterDigits, rootStep_scale mgr den c hc]
    cases rootStep mgr den ⟨a, r, i, i2⟩ with
    | none => rfl
    | some p =>
      obtain ⟨d, s1⟩ := p
      simp only [Option.map_some, List.cons.injEq, true_and]
      exact ih _ _ _ _

/-- the result depends only on the value `num/den` -/
theorem root_repr_indep {n : Nat} {mgr : Manager} (hm : ManagerCorrect n mgr)
    (num den c : Nat) (hnum : 0 < num) (hden : 0 < den) (hc : 0 < c) (k : Nat) :
    rootPrefix mgr (c * num) (c * den) k = rootPrefix mgr num den k := by
  obtain ⟨hn, hB, -⟩ := hm
  have _ := hden
  have hB1 : 1 < mgr.base := hB ▸ base_gt_one hn
  simp only [rootPrefix, normalize_scale num den mgr.base c hB1 hnum hc, rootInit]
  rw [iterDigits_scale mgr _ c hc]

/-- C03: the stream ends after exactly `L` digits iff those `L` digits are the exact root;
then the last digit is non-zero. -/
theorem root_ends_iff {n : Nat} {mgr : Manager} (hm : ManagerCorrect n mgr)
    (num den : Nat) (hnum : 0 < num) (hden : 0 < den) (L : Nat) :
    RootEndsAt mgr num den L ↔
      ((rootPrefix mgr num den L).1.length = L ∧
        Spec.ExactRoot n num den (Spec.ofDigits (rootPrefix mgr num den L).1) (rootPrefix mgr num den L).2 L) := by
  obtain ⟨hn, hB, -, aux, -, -, hst⟩ := root_state hm num den hnum hden
  unfold RootEndsAt Spec.ExactRoot
  rw [rootPrefix_fst, rootPrefix_fst, rootPrefix_snd, hB, iterD_ends_iff]
  have hT := root_transport hn num den hnum hden L
  have hst := hst L
  generalize normalize num den (10 ^ n) = nm at *
  constructor
  · rintro ⟨s', hs', hnone⟩
    obtain ⟨hlen, -, -, G, hI⟩ := hst s' hs'
    refine ⟨hlen, ((hT _).2.2).mpr ?_⟩
    obtain ⟨h1, h2⟩ := (rootStep_none_iff _ _ _).mp hnone
    have hgrp := hI.grp
    have hrem := hI.rem
    rw [h2] at hrem
    have hG : G = Spec.ofDigits (iterD (rootStep mgr nm.den) L (rootInit mgr nm.num)) ^ n := by
      have : (G : Int) = ((Spec.ofDigits (iterD (rootStep mgr nm.den) L (rootInit mgr nm.num)) ^ n : Nat) : Int) := by
        push_cast; omega
      exact_mod_cast this
    rw [h1, ← hG] at *
    omega
  · rintro ⟨hlen, hex⟩
    obtain ⟨s', hs'⟩ := (iterS_isSome_iff _ L _).mpr hlen
    refine ⟨s', hs', (rootStep_none_iff _ _ _).mpr ?_⟩
    obtain ⟨-, -, -, G, hI⟩ := hst s' hs'
    have hex := ((hT _).2.2).mp hex
    have hgrp := hI.grp
    have hlo := Nat.mul_le_mul_right nm.den hI.lo
    have hnum0 : s'.num = 0 := by omega
    refine ⟨hnum0, ?_⟩
    have hdenpos : 0 < nm.den := by have := hI.lt; omega
    have hG : Spec.ofDigits (iterD (rootStep mgr nm.den) L (rootInit mgr nm.num)) ^ n = G :=
      Nat.eq_of_mul_eq_mul_right hdenpos (by omega)
    rw [hI.rem, ← hG]
    push_cast
    omega

theorem root_end_last_nonzero {n : Nat} {mgr : Manager} (hm : ManagerCorrect n mgr)
    (num den : Nat) (hnum : 0 < num) (hden : 0 < den) (L : Nat) (h : RootEndsAt mgr num den L) :
    0 < L ∧ ∀ d, (rootPrefix mgr num den L).1.getLast? = some d → d ≠ 0 := by
  obtain ⟨hn, hB, hX0, aux, hnext, hnd, hst⟩ := root_state hm num den hnum hden
  unfold RootEndsAt at h
  rw [rootPrefix_fst, hB, iterD_ends_iff] at h
  rw [rootPrefix_fst, hB]
  generalize normalize num den (10 ^ n) = nm at *
  obtain ⟨s', hs', hnone⟩ := h
  obtain ⟨hn1, hr1⟩ := (rootStep_none_iff _ _ _).mp hnone
  cases L with
  | zero =>
    exfalso
    simp only [iterS, Option.some.injEq] at hs'
    subst hs'
    simp only [rootInit] at hn1
    omega
  | succ L =>
    refine ⟨by omega, ?_⟩
    obtain ⟨s'', d, h1, h2, h3⟩ := iterS_succ_inv _ L _ s' hs'
    intro d' hd' hd0
    rw [h3, List.getLast?_append] at hd'
    simp only [List.getLast?_singleton, Option.some_or, Option.some.injEq] at hd'
    subst hd'
    subst hd0
    obtain ⟨-, -, -, G, hI⟩ := hst L s'' h1
    obtain ⟨-, hI', hnum'⟩ := rootStep_inv hn hB aux hnext hnd hI h2
    generalize Spec.ofDigits (iterD (rootStep mgr nm.den) L (rootInit mgr nm.num)) = P at *
    have hrem' := hI'.rem
    rw [hr1] at hrem'
    have hmp : (10 * P + 0) ^ n = P ^ n * 10 ^ n := by
      rw [Nat.add_zero, Nat.mul_pow]; ring
    have hG' : G * 10 ^ n + s''.num * 10 ^ n / nm.den = P ^ n * 10 ^ n := by
      rw [← hmp]
      have : ((G * 10 ^ n + s''.num * 10 ^ n / nm.den : Nat) : Int) = (((10 * P + 0) ^ n : Nat) : Int) := by
        push_cast; push_cast at hrem'; omega
      exact_mod_cast this
    have hBpos : 0 < 10 ^ n := Nat.pow_pos (by omega)
    have hlo := Nat.mul_le_mul_right (10 ^ n) hI.lo
    have hdm := Nat.div_add_mod (s''.num * 10 ^ n) nm.den
    have hmod : s''.num * 10 ^ n % nm.den = 0 := by rw [← hnum']; exact hn1
    generalize 10 ^ n = B at hG' hlo hdm hmod hBpos
    generalize s''.num * B / nm.den = g at hG' hdm
    generalize hPn : P ^ n = Pn at hG' hlo
    have hg0 : g = 0 := by omega
    have hGB : G * B = Pn * B := by omega
    have hGP : G = P ^ n := by rw [hPn]; exact Nat.eq_of_mul_eq_mul_right hBpos hGB
    rw [hg0, hmod] at hdm
    have hnum0 : s''.num = 0 := by
      rcases Nat.mul_eq_zero.mp hdm.symm with h | h
      · exact h
      · omega
    have hrem0 : s''.rem = 0 := by rw [hI.rem, hGP]; push_cast; omega
    have := (rootStep_none_iff mgr nm.den s'').mpr ⟨hnum0, hrem0⟩
    rw [this] at h2
    cases h2

/-- once ended, always ended: asking for more digits changes nothing -/
theorem root_end_sticky (mgr : Manager) (num den L : Nat) (h : RootEndsAt mgr num den L) (k : Nat) (hk : L ≤ k) :
    (rootPrefix mgr num den k).1 = (rootPrefix mgr num den L).1 := by
  unfold RootEndsAt at h
  rw [rootPrefix_fst] at h
  rw [rootPrefix_fst, rootPrefix_fst]
  exact iterD_sticky _ L _ h k hk

/-- if no finite prefix is exact the stream never ends: every position holds a digit -/
theorem root_never_ends {n : Nat} {mgr : Manager} (hm : ManagerCorrect n mgr)
    (num den : Nat) (hnum : 0 < num) (hden : 0 < den)
    (hne : ∀ L, ¬ RootEndsAt mgr num den L) (k : Nat) :
    (rootPrefix mgr num den k).1.length = k := by
  have _ := hm; have _ := hnum; have _ := hden
  rw [rootPrefix_fst]
  apply iterD_never_ends
  intro L hL
  apply hne L
  unfold RootEndsAt
  rw [rootPrefix_fst]
  exact hL

/-! ### rationals: the degree-1 "root" -/

/-- the manager of the identity root: base 10, `incr` constantly 1 -/
def mgr1 : Manager := ⟨10, 0, 1, 0, fun i i2 => (i, i2), fun i i2 => (i, i2)⟩

theorem pw_one (Q : Int) : pw 1 Q = 1 := by simp [pw]

theorem mgr1_correct : ManagerCorrect 1 mgr1 := by
  refine ⟨by decide, rfl, rfl, rfl, fun _ => 0, rfl, ?_, ?_⟩
  · intro Q _; simp [pw_one, mgr1]
  · intro Q _; simp [pw_one, mgr1]

theorem digitLoop_mgr1 (g : Nat) : digitLoop mgr1 (g : Int) 1 0 0 = (0, 1, 0, g) := by
  obtain ⟨Q', -, h2, h3, h4⟩ := digitLoop_spec (n := 1) (by decide) mgr1 (fun _ => 0)
    (by intro Q _; simp [pw_one, mgr1]) g (g + 1) 0 0 (by simp) (by simp)
  simp only [pow_one] at h2 h3
  have : Q' = g := by omega
  subst this
  simpa [pw_one] using h4

theorem rootStep_mgr1 (den num : Nat) :
    rootStep mgr1 den ⟨num, 0, 1, 0⟩ =
      (ratStep den num).map (fun p => (p.1, ⟨p.2, 0, 1, 0⟩)) := by
  rw [rootStep_eq, ratStep, groupStep]
  by_cases h : num = 0
  · simp [h]
  · have hb : mgr1.base = 10 := rfl
    simp only [h, false_and, if_false, hb, Int.zero_mul, Int.zero_add, digitLoop_mgr1, stepOut,
      Option.map_some]
    rfl

theorem ratIter_eq (den k num : Nat) :
    ratIter den k num = iterDigits mgr1 den k ⟨num, 0, 1, 0⟩ := by
  induction k generalizing num with
  | zero => rfl
  | succ k ih =>
    rw [ratIter, iterDigits, rootStep_mgr1]
    cases ratStep den num with
    | none => rfl
    | some p =>
      obtain ⟨d, num'⟩ := p
      simp only [Option.map_some, List.cons.injEq, true_and]
      exact ih num'

theorem ratPrefix_eq (num den k : Nat) : ratPrefix num den k = rootPrefix mgr1 num den k := by
  simp only [ratPrefix, rootPrefix, ratIter_eq]
  rfl

/-- C13 (rational): exponent and digits of `NewNumberFromBigRat(num/den)`. -/
theorem rat_exact (num den : Nat) (hnum : 0 < num) (hden : 0 < den) (k : Nat) :
    Spec.TruncRat num den (Spec.ofDigits (ratPrefix num den k).1)
        (ratPrefix num den k).2 (ratPrefix num den k).1.length
      ∧ Spec.DigitsOk (ratPrefix num den k).1 := by
  rw [ratPrefix_eq]
  exact root_exact mgr1_correct num den hnum hden k

theorem rat_ends_iff (num den : Nat) (hnum : 0 < num) (hden : 0 < den) (L : Nat) :
    RatEndsAt num den L ↔
      ((ratPrefix num den L).1.length = L ∧
        Spec.ExactRoot 1 num den (Spec.ofDigits (ratPrefix num den L).1) (ratPrefix num den L).2 L) := by
  unfold RatEndsAt
  rw [ratPrefix_eq, ratPrefix_eq]
  exact root_ends_iff mgr1_correct num den hnum hden L

theorem rat_end_last_nonzero (num den : Nat) (hnum : 0 < num) (hden : 0 < den) (L : Nat)
    (h : RatEndsAt num den L) :
    0 < L ∧ ∀ d, (ratPrefix num den L).1.getLast? = some d → d ≠ 0 := by
  unfold RatEndsAt at h
  rw [ratPrefix_eq] at h
  rw [ratPrefix_eq]
  exact root_end_last_nonzero mgr1_correct num den hnum hden L h

end Sqroot.Proofs

/-
End-to-end theorems for v3 entry points: compositions of the layer theorems.
-/
import Sqroot.Model.EndToEnd
import Sqroot.Proofs.View
import Sqroot.Proofs.Format
import Sqroot.Proofs.Search
import Sqroot.Proofs.MemoDemand
namespace Sqroot.Proofs
open Sqroot.Model

/-! ### helpers for the compositions -/
namespace E2E

theorem fits_mono {c : MemoCfg} {src : Src} {w : Spec.Win} {t t' : Nat}
    (h : Fits c src w t) (ht : t' ≤ t) : Fits c src w t' := by
  obtain ⟨h1, h2, h3⟩ := h
  refine ⟨h1, h2, ?_⟩
  cases hl : src.len with
  | none => rw [hl] at h3; simp only at h3 ⊢; omega
  | some L => rw [hl] at h3; exact h3

theorem take_range' (lo k cnt : Nat) : (List.range' lo cnt).take k = List.range' lo (min k cnt) := by
  by_cases h : k ≤ cnt
  · have : List.range' lo cnt = List.range' lo k ++ List.range' (lo + k) (cnt - k) := by
      rw [List.range'_append_1]; congr 1; omega
    rw [this, List.take_left' (by simp), Nat.min_eq_left h]
  · rw [List.take_of_length_le (by simp; omega), Nat.min_eq_right (by omega)]

/-- shape of a window listing: consecutive positions from `max lo 0` -/
theorem windowList_shape (len : Option Nat) (digit : Nat → Nat) (w : Spec.Win) (t : Nat) :
    ∃ cnt, cnt ≤ t ∧
      Spec.windowList len digit w t
        = (List.range' (max w.lo 0).toNat cnt).map (fun p => (p, digit p)) ∧
      ∀ k, k ≤ cnt → Spec.windowList len digit w k
        = (List.range' (max w.lo 0).toNat k).map (fun p => (p, digit p)) := by
  unfold Spec.windowList
  cases hu : Spec.upper len w with
  | none => exact ⟨t, Nat.le_refl _, rfl, fun k _ => rfl⟩
  | some u =>
    refine ⟨min t (u - ((max w.lo 0).toNat : Int)).toNat, Nat.min_le_left _ _, rfl, ?_⟩
    intro k hk
    simp only
    congr 2
    omega

theorem windowList_length_le (len : Option Nat) (digit : Nat → Nat) (w : Spec.Win) (t : Nat) :
    (Spec.windowList len digit w t).length ≤ t := by
  obtain ⟨cnt, h1, h2, _⟩ := windowList_shape len digit w t
  rw [h2]; simpa using h1

theorem windowList_take (len : Option Nat) (digit : Nat → Nat) (w : Spec.Win) (t k : Nat) (h : k ≤ t) :
    (Spec.windowList len digit w t).take k = Spec.windowList len digit w k := by
  unfold Spec.windowList
  simp only
  rw [← List.map_take, take_range']
  congr 2
  cases hu : Spec.upper len w with
  | none => simp only; omega
  | some u => simp only; omega

theorem windowList_digit (len : Option Nat) (digit : Nat → Nat) (w : Spec.Win) (t : Nat)
    (x : Nat × Nat) (hx : x ∈ Spec.windowList len digit w t) : x.2 = digit x.1 := by
  unfold Spec.windowList at hx
  obtain ⟨p, _, rfl⟩ := List.mem_map.1 hx
  rfl

/-- a finite window listed with any `take ≥ size` is the complete listing -/
theorem windowList_ge_size (len : Option Nat) (digit : Nat → Nat) (w : Spec.Win) (size t : Nat)
    (hs : Spec.windowSize len w = some size) (ht : size ≤ t) :
    Spec.windowList len digit w t = Spec.windowList len digit w size := by
  unfold Spec.windowSize at hs
  unfold Spec.windowList
  cases hu : Spec.upper len w with
  | none => simp [hu] at hs
  | some u =>
    rw [hu] at hs
    simp only [Option.map_some, Option.some.injEq] at hs
    simp only
    congr 2
    omega

theorem firstN_src (c : MemoCfg) (m : Memo) (n : Int) : (m.firstN c n).1.src = m.src := by
  unfold Memo.firstN
  split
  · rfl
  · exact MD.wait_src c m _

theorem backward_src (c : MemoCfg) (m : Memo) (v : Val3) (take : Nat) :
    (v.backward c m take).1.src = m.src := by
  unfold Val3.backward
  split
  · rfl
  · simp only
    unfold specAllDigits
    cases v.spec with
    | nil => rfl
    | memo => exact firstN_src c m _
    | limited l => exact firstN_src c m _

theorem feed_eq_feedOf (lo cnt : Nat) (digit : Nat → Nat) (s : Int) (hs : s = (lo : Int)) :
    (((List.range' lo cnt).map (fun p => (p, digit p))).map fun (x : Nat × Nat) => ((x.1 : Int), (x.2 : Int)))
      = feedOf s ((((List.range' lo cnt).map (fun p => (p, digit p)))).map fun x => (x.2 : Int)) := by
  apply List.ext_getElem?
  intro j
  rw [feedOf_getElem?]
  simp only [List.map_map, List.getElem?_map]
  by_cases hj : j < cnt
  · rw [List.getElem?_range' hj]
    simp only [Option.map_some, Function.comp, Option.some.injEq, Prod.mk.injEq, and_true]
    omega
  · rw [List.getElem?_eq_none (by simp; omega)]
    rfl

theorem scan_demand_some (c : MemoCfg) (hc : 0 < c.chunk) (m : Memo) (sp : VSpec) (index : Int) (take : Nat)
    (hidx : 0 ≤ index) (r : Int) (h : DemandLe c m r) (m' : Memo) (xs : List (Nat × Nat))
    (hs : specScan c m sp index take = .ok (m', xs)) (q d : Nat) (hl : xs.getLast? = some (q, d)) :
    DemandLe c m' (max r ((q : Int) + 1)) := by
  have := (scan_demand c hc m sp index take hidx r h m' xs hs).1
  split at this
  · rename_i q' d' heq
    rw [hl] at heq
    simp only [Option.some.injEq, Prod.mk.injEq] at heq
    rw [heq.1]; exact this
  · rename_i heq
    rw [hl] at heq; cases heq

theorem occ_bound (p T : List Int) (i : Nat) (h : i ∈ Spec.occurrences p T) : i + p.length ≤ T.length := by
  unfold Spec.occurrences at h
  have := (List.mem_filter.1 h).2
  simp only [Spec.occursAt, Bool.and_eq_true, decide_eq_true_eq] at this
  exact this.1

/-- invariant of Number values along a chain of WithSignificant calls from a base of exponent e -/
def NumInv (e : Int) (v : Val3) : Prop :=
  ∃ sp ex, (v = .fnum sp ex ∨ v = .opqN sp ex) ∧ (sp ≠ .nil → ex = e)

theorem withLimit_nil (k : Int) : (withLimit .nil k).1 = .nil := by
  unfold withLimit; split <;> rfl

theorem numInv_fnumWithSpec (e : Int) (sp : VSpec) (ex k : Int) (h : sp ≠ .nil → ex = e) :
    NumInv e (fnumWithSpec sp ex (withLimit sp k)) := by
  unfold fnumWithSpec
  split
  · exact ⟨sp, ex, Or.inl rfl, h⟩
  · split
    · exact ⟨.nil, 0, Or.inl rfl, fun h => absurd rfl h⟩
    · rename_i hne
      refine ⟨_, ex, Or.inl rfl, fun _ => h ?_⟩
      intro hsp; subst hsp
      exact hne (withLimit_nil k)

theorem numInv_step (e : Int) (v v' : Val3) (k : Int) (hi : NumInv e v)
    (h : v.apply (.withSig k) = some (.ok v')) : NumInv e v' := by
  obtain ⟨sp, ex, hv | hv, hex⟩ := hi <;> subst hv <;> simp only [Val3.apply] at h <;>
    split at h <;> simp only [Option.some.injEq, Except.ok.injEq, reduceCtorEq] at h <;>
    subst h <;> exact numInv_fnumWithSpec e sp ex k hex

theorem numInv_chain (e : Int) : ∀ (limits : List Int) (v v' : Val3), NumInv e v →
    applyChain3 v (limits.map .withSig) = some v' → NumInv e v'
  | [], v, v', hi, h => by
    simp only [List.map_nil, applyChain3, Option.some.injEq] at h
    subst h; exact hi
  | k :: rest, v, v', hi, h => by
    simp only [List.map_cons] at h
    unfold applyChain3 at h
    cases ha : v.apply (.withSig k) with
    | none => rw [ha] at h; cases h
    | some r =>
      cases r with
      | error e => rw [ha] at h; cases h
      | ok v1 =>
        rw [ha] at h
        exact numInv_chain e rest v1 v' (numInv_step e v v1 k hi ha) h

theorem winOf_withSig_lo (limits : List Int) :
    (Spec.winOf ((limits.map ViewOp.withSig).map toSpecOp)).lo = 0 := by
  unfold Spec.winOf
  suffices h : ∀ w : Spec.Win, (((limits.map ViewOp.withSig).map toSpecOp).foldl Spec.Win.apply w).lo = w.lo from h {}
  induction limits with
  | nil => intro w; rfl
  | cons k rest ih =>
    intro w
    simp only [List.map_cons, List.foldl_cons, toSpecOp]
    rw [ih]; rfl

theorem renderFixed_take (s e : Int) (ex : Bool) (D : List Nat) (k : Nat) (hk : s.toNat ≤ k) :
    Spec.renderFixed s e ex (D.take k) = Spec.renderFixed s e ex D := by
  unfold Spec.renderFixed
  rw [List.take_take, Nat.min_eq_left hk]

theorem renderNumber_take (s : Int) (ex sci cap : Bool) (e : Int) (D : List Nat) (k : Nat) (hk : s.toNat ≤ k) :
    Spec.renderNumber s ex sci cap e (D.take k) = Spec.renderNumber s ex sci cap e D := by
  unfold Spec.renderNumber
  rw [renderFixed_take _ _ _ _ _ hk, renderFixed_take _ _ _ _ _ hk]

theorem formatRule_g (e : Int) : Spec.formatRule 'g'.toNat none e
    = some (16, false, decide ((16:Int) < e ∨ e < -3 ∨ e > 6), false) := by
  simp [Spec.formatRule, Fmt.toNat_lits]

theorem renderString_take (e : Int) (D : List Nat) (k : Nat) (hk : 16 ≤ k) :
    Spec.renderString e (D.take k) = Spec.renderString e D := by
  unfold Spec.renderString
  rw [formatRule_g]
  exact renderNumber_take _ _ _ _ _ _ _ (by simpa using hk)

/-- the number of digits the formatter needs -/
def needOf (verb : Nat) (prec : Option Nat) (e : Int) : Nat :=
  match Spec.formatRule verb prec e with
  | some (s, _, _, _) => s.toNat
  | none => 16

theorem render_take (verb : Nat) (prec width : Option Nat) (minus : Bool) (e : Int) (D : List Nat) (k : Nat)
    (hk : needOf verb prec e ≤ k) :
    Spec.render verb prec width minus e (D.take k) = Spec.render verb prec width minus e D := by
  unfold needOf at hk
  unfold Spec.render
  cases hr : Spec.formatRule verb prec e with
  | none => rw [hr] at hk; simp only at hk ⊢; rw [renderString_take _ _ _ hk]
  | some q =>
    obtain ⟨s, ex, sci, cap⟩ := q
    rw [hr] at hk; simp only at hk ⊢
    rw [renderNumber_take _ _ _ _ _ _ _ hk]

theorem need_eq (verb : Nat) (prec : Option Nat) (e : Int) :
    (if (genNewFormatSpec .v3 (prec.getD 0) prec.isSome verb e).2
      then (genNewFormatSpec .v3 (prec.getD 0) prec.isSome verb e).1.sigDigits.toNat
      else (stringSpec .v3 e).sigDigits.toNat) = needOf verb prec e := by
  have hrule := newFormatSpec_rule .v3 verb prec e
  unfold needOf
  cases hr : Spec.formatRule verb prec e with
  | none =>
    rw [hr] at hrule
    simp only at hrule ⊢
    rw [hrule]
    simp [stringSpec, Gen.V3.formatSpecForG, Gen.V3.gPrecision]
  | some q =>
    obtain ⟨s, ex, sci, cap⟩ := q
    rw [hr] at hrule
    simp only at hrule ⊢
    rw [hrule.1, hrule.2.1]; rfl

theorem needOf_le (verb : Nat) (prec : Option Nat) (e : Int) (h : prec.getD 16 + e.natAbs < 10000) :
    needOf verb prec e ≤ 20000 := by
  unfold needOf
  have h6 : prec.getD 6 ≤ prec.getD 16 := by cases prec <;> simp
  cases hr : Spec.formatRule verb prec e with
  | none => simp
  | some q =>
    obtain ⟨s, ex, sci, cap⟩ := q
    simp only
    unfold Spec.formatRule at hr
    simp only at hr
    split at hr
    · simp only [Option.some.injEq, Prod.mk.injEq] at hr; omega
    split at hr
    · simp only [Option.some.injEq, Prod.mk.injEq] at hr; omega
    split at hr
    · simp only [Option.some.injEq, Prod.mk.injEq] at hr; omega
    split at hr
    · simp only [Option.some.injEq, Prod.mk.injEq] at hr
      obtain ⟨hs, _⟩ := hr
      split at hs <;> omega
    split at hr
    · simp only [Option.some.injEq, Prod.mk.injEq] at hr
      obtain ⟨hs, _⟩ := hr
      split at hs <;> omega
    · cases hr

end E2E
open E2E ViewL

/-- digits of the Number a chain of WithSignificant calls leads to (window `[0, hi)`) -/
def numberDigits (src : Src) (w : Spec.Win) (n : Nat) : List Nat :=
  (Spec.windowList src.len src.digit { w with lo := 0 } n).map (·.2)

/-- C08 end to end: formatting a Number reached by any chain of WithSignificant calls (the only
view operation that yields Numbers) renders the first digits of its window -/
theorem format_end_to_end (c : MemoCfg) (m : Memo) (b v : Val3) (limits : List Int) (e : Int)
    (hb : b = .opqN .memo e ∨ b = .fnum .memo e)
    (hv : applyChain3 b (limits.map .withSig) = some v) (hnz : v.isZero = false)
    (hd : ∀ p, m.src.digit p ≤ 9)
    (hfit : Fits c m.src (Spec.winOf ((limits.map ViewOp.withSig).map toSpecOp)) 20000)
    (verb : Nat) (prec width : Option Nat) (minus : Bool) (hprec : prec.getD 16 + e.natAbs < 10000) :
    ∃ m' txt, format3 c m v verb prec width minus = some (.ok (m', txt)) ∧ m'.src = m.src ∧
      txt = Spec.render verb prec width minus e
              (numberDigits m.src (Spec.winOf ((limits.map ViewOp.withSig).map toSpecOp)) 20000) := by
  have hbase : IsBase3 b := ⟨e, hb.symm⟩
  have hinv0 : NumInv e b := by
    rcases hb with h | h <;> subst h
    · exact ⟨.memo, e, Or.inr rfl, fun _ => rfl⟩
    · exact ⟨.memo, e, Or.inl rfl, fun _ => rfl⟩
  obtain ⟨sp, ex, hvv, hex⟩ := numInv_chain e limits b v hinv0 hv
  have hspn : sp ≠ .nil := by
    intro h; subst h
    rcases hvv with h | h <;> subst h <;> simp [Val3.isZero, Val3.spec] at hnz
  have hexe : ex = e := hex hspn
  subst hexe
  have hexp : v.exponent = some ex := by rcases hvv with h | h <;> subst h <;> rfl
  have hnum : v.assertsNumber = true := by rcases hvv with h | h <;> subst h <;> rfl
  have hst : v.start = 0 := by rcases hvv with h | h <;> subst h <;> rfl
  have hlo := winOf_withSig_lo limits
  have hnd : numberDigits m.src (Spec.winOf ((limits.map ViewOp.withSig).map toSpecOp)) 20000
      = (Spec.windowList m.src.len m.src.digit (Spec.winOf ((limits.map ViewOp.withSig).map toSpecOp)) 20000).map (·.2) := by
    unfold numberDigits
    congr 2
    generalize Spec.winOf ((limits.map ViewOp.withSig).map toSpecOp) = w at hlo
    obtain ⟨lo, hi⟩ := w
    simp only at hlo; subst hlo; rfl
  have hneed := need_eq verb prec ex
  have hle := needOf_le verb prec ex hprec
  -- the traversal
  have htrav : ∃ m' xs, (if needOf verb prec ex = 0 then Except.ok (m, [])
        else specScan c m v.spec 0 (needOf verb prec ex)) = Except.ok (m', xs) ∧ m'.src = m.src ∧
      xs.map (·.2) = (numberDigits m.src (Spec.winOf ((limits.map ViewOp.withSig).map toSpecOp)) 20000).take
        (needOf verb prec ex) := by
    by_cases h0 : needOf verb prec ex = 0
    · exact ⟨m, [], by rw [if_pos h0], rfl, by rw [h0]; rfl⟩
    · obtain ⟨m', hf, hm'⟩ := forward_chain3 c m b v _ (needOf verb prec ex) hbase hv (fits_mono hfit hle)
      refine ⟨m', Spec.windowList m.src.len m.src.digit (Spec.winOf ((limits.map ViewOp.withSig).map toSpecOp)) (needOf verb prec ex), ?_, hm', ?_⟩
      · rw [if_neg h0, ← hst]; exact hf
      · rw [hnd, ← List.map_take, windowList_take _ _ _ _ _ hle]
  obtain ⟨m', xs, hsc, hm', hxs⟩ := htrav
  have hds : ∀ d ∈ xs.map (·.2), d ≤ 9 := by
    intro d hd'
    rw [hxs, hnd] at hd'
    obtain ⟨x, hx, rfl⟩ := List.mem_map.1 (List.mem_of_mem_take hd')
    rw [windowList_digit _ _ _ _ x hx]; exact hd _
  refine ⟨m', _, ?_, hm', (render_take verb prec width minus ex _ _ (Nat.le_refl _))⟩
  unfold format3
  rw [hexp]
  simp only [hnum, Bool.not_true, Bool.false_eq_true, if_false]
  rw [hneed, hsc]
  simp only
  rw [format_spec .v3 ex _ hds, hxs]

/-- C09 + C15 end to end: FindFirstN on any view returns the first n occurrences inside the
window restricted to its first `bound` digits (as absolute positions; `bound` is arbitrary, so this
covers every finite prefix of an infinite Number); the digits pulled are exactly those up to the end of the last reported
match, and the demand on the source grows to at most (that position + 1 + one block) -/
theorem findFirstN_end_to_end (c : MemoCfg) (m : Memo) (b v : Val3) (chain : List ViewOp)
    (pat : List Int) (hp : pat ≠ []) (n bound : Nat) (hn : 0 < n)
    (hb : IsBase3 b) (hv : applyChain3 b chain = some v)
    (hfit : Fits c m.src (Spec.winOf (chain.map toSpecOp)) bound)
    (r : Int) (hr : DemandLe c m r) :
    let w := Spec.winOf (chain.map toSpecOp)
    let cells := Spec.windowList m.src.len m.src.digit w bound
    let T : List Int := cells.map fun x => (x.2 : Int)
    let s : Int := (max w.lo 0)
    ∃ m' cnt, findFirstN3 c m v pat n bound
        = .ok (m', ((Spec.occurrences pat T).take n).map (shiftPos s), cnt) ∧
      cnt ≤ cells.length ∧
      (n ≤ (Spec.occurrences pat T).length →
        ∀ last, ((Spec.occurrences pat T).take n).getLast? = some last → cnt = last + pat.length) ∧
      DemandLe c m' (max r (s + cnt)) := by
  intro w cells T s
  obtain ⟨m1, hf1, _⟩ := forward_chain3 c m b v chain bound hb hv hfit
  obtain ⟨cnt0, hc0, hshape, hpre⟩ := windowList_shape m.src.len m.src.digit w bound
  have hcells : cells = (List.range' (max w.lo 0).toNat cnt0).map (fun p => (p, m.src.digit p)) := hshape
  have hlen : cells.length = cnt0 := by rw [hcells]; simp
  have hTlen : T.length = cells.length := by simp [T]
  have hfeed : (cells.map fun (x : Nat × Nat) => ((x.1 : Int), (x.2 : Int))) = feedOf s T := by
    show _ = feedOf s (cells.map fun x => (x.2 : Int))
    rw [hcells]
    exact feed_eq_feedOf _ _ _ s (by show max w.lo 0 = _; omega)
  obtain ⟨k, hk, cnt, hkt, _, hc2, hc3⟩ := kmpTake_spec pat hp T s n
  have hcnt : cnt ≤ cells.length := by
    by_cases hle : n ≤ (Spec.occurrences pat T).length
    · have hlt : n - 1 < (Spec.occurrences pat T).length := by omega
      have hlast : ((Spec.occurrences pat T).take n).getLast? = some ((Spec.occurrences pat T)[n - 1]) := by
        rw [List.getLast?_take, if_neg (by omega), List.getElem?_eq_getElem hlt]; rfl
      rw [hc2 hn hle _ hlast, ← hTlen]
      exact occ_bound pat T _ (List.getElem_mem hlt)
    · rw [hc3 (by omega), hTlen]; exact Nat.le_refl _
  have hcb : cnt ≤ bound := by omega
  obtain ⟨m2, hf2, hm2⟩ := forward_chain3 c m b v chain cnt hb hv (fits_mono hfit hcb)
  refine ⟨m2, cnt, ?_, hcnt, fun hle => hc2 hn hle, ?_⟩
  · unfold findFirstN3
    rw [if_neg (by omega), hf1]
    simp only
    rw [if_neg (by have := List.length_pos_iff.2 hp; omega), hk]
    simp only
    have hfeed' : (List.map (fun (x : Nat × Nat) => match x with | (p, d) => ((p : Int), (d : Int))) cells) = feedOf s T := hfeed
    rw [hfeed', hkt]
    simp only
    rw [hf2]
  · have hrep := chain3 chain b v {} (base3 b hb) hv
    have hst : v.start = max w.lo 0 := hrep.1
    have hf2' : specScan c m v.spec v.start cnt = .ok (m2, Spec.windowList m.src.len m.src.digit w cnt) := hf2
    by_cases h0 : cnt = 0
    · rw [(scan_demand c hfit.1 m v.spec v.start cnt (by omega) r hr m2 _ hf2').2 h0]
      exact MD.demandLe_mono hr (by omega)
    · have hl : (Spec.windowList m.src.len m.src.digit w cnt).getLast?
          = some ((max w.lo 0).toNat + cnt - 1, m.src.digit ((max w.lo 0).toNat + cnt - 1)) := by
        rw [hpre cnt (by omega), List.getLast?_map, List.getLast?_range', if_neg h0]; rfl
      have hd1 := scan_demand_some c hfit.1 m v.spec v.start cnt (by omega) r hr m2 _ hf2' _ _ hl
      exact MD.demandLe_mono hd1 (by omega)

end Sqroot.Proofs

/-
End-to-end theorems for v3 entry points: compositions of the layer theorems.
-/
import Sqroot.Model.EndToEnd
import Sqroot.Proofs.View
import Sqroot.Proofs.Search
import Sqroot.Proofs.MemoDemand
namespace Sqroot.Proofs
open Sqroot.Model

/-! ### helpers for the compositions -/
namespace E2E

theorem fits_mono {c : MemoCfg} {src : Src} {w : Spec.Win} {t t' : Nat}
    (h : Fits c src w t) (ht : t' ≤ t) : Fits c src w t' := by
  obtain ⟨h1, h2, h3⟩ := h
  refine ⟨h1, h2, ?_⟩
  cases hl : src.len with
  | none => rw [hl] at h3; simp only at h3 ⊢; omega
  | some L => rw [hl] at h3; exact h3

theorem take_range' (lo k cnt : Nat) : (List.range' lo cnt).take k = List.range' lo (min k cnt) := by
  by_cases h : k ≤ cnt
  · have : List.range' lo cnt = List.range' lo k ++ List.range' (lo + k) (cnt - k) := by
      rw [List.range'_append_1]; congr 1; omega
    rw [this, List.take_left' (by simp), Nat.min_eq_left h]
  · rw [List.take_of_length_le (by simp; omega), Nat.min_eq_right (by omega)]

/-- shape of a window listing: consecutive positions from `max lo 0` -/
theorem windowList_shape (len : Option Nat) (digit : Nat → Nat) (w : Spec.Win) (t : Nat) :
    ∃ cnt, cnt ≤ t ∧
      Spec.windowList len digit w t
        = (List.range' (max w.lo 0).toNat cnt).map (fun p => (p, digit p)) ∧
      ∀ k, k ≤ cnt → Spec.windowList len digit w k
        = (List.range' (max w.lo 0).toNat k).map (fun p => (p, digit p)) := by
  unfold Spec.windowList
  cases hu : Spec.upper len w with
  | none => exact ⟨t, Nat.le_refl _, rfl, fun k _ => rfl⟩
  | some u =>
    refine ⟨min t (u - ((max w.lo 0).toNat : Int)).toNat, Nat.min_le_left _ _, rfl, ?_⟩
    intro k hk
    simp only
    congr 2
    omega

theorem windowList_length_le (len : Option Nat) (digit : Nat → Nat) (w : Spec.Win) (t : Nat) :
    (Spec.windowList len digit w t).length ≤ t := by
  obtain ⟨cnt, h1, h2, _⟩ := windowList_shape len digit w t
  rw [h2]; simpa using h1

theorem windowList_take (len : Option Nat) (digit : Nat → Nat) (w : Spec.Win) (t k : Nat) (h : k ≤ t) :
    (Spec.windowList len digit w t).take k = Spec.windowList len digit w k := by
  unfold Spec.windowList
  simp only
  rw [← List.map_take, take_range']
  congr 2
  cases hu : Spec.upper len w with
  | none => simp only; omega
  | some u => simp only; omega

theorem windowList_digit (len : Option Nat) (digit : Nat → Nat) (w : Spec.Win) (t : Nat)
    (x : Nat × Nat) (hx : x ∈ Spec.windowList len digit w t) : x.2 = digit x.1 := by
  unfold Spec.windowList at hx
  obtain ⟨p, _, rfl⟩ := List.mem_map.1 hx
  rfl

/-- a finite window listed with any `take ≥ size` is the complete listing -/
theorem windowList_ge_size (len : Option Nat) (digit : Nat → Nat) (w : Spec.Win) (size t : Nat)
    (hs : Spec.windowSize len w = some size) (ht : size ≤ t) :
    Spec.windowList len digit w t = Spec.windowList len digit w size := by
  unfold Spec.windowSize at hs
  unfold Spec.windowList
  cases hu : Spec.upper len w with
  | none => simp [hu] at hs
  | some u =>
    rw [hu] at hs
    simp only [Option.map_some, Option.some.injEq] at hs
    simp only
    congr 2
    omega

theorem firstN_src (c : MemoCfg) (m : Memo) (n : Int) : (m.firstN c n).1.src = m.src := by
  unfold Memo.firstN
  split
  · rfl
  · exact MD.wait_src c m _

theorem backward_src (c : MemoCfg) (m : Memo) (v : Val3) (take : Nat) :
    (v.backward c m take).1.src = m.src := by
  unfold Val3.backward
  split
  · rfl
  · simp only
    unfold specAllDigits
    cases v.spec with
    | nil => rfl
    | memo => exact firstN_src c m _
    | limited l => exact firstN_src c m _

theorem feed_eq_feedOf (lo cnt : Nat) (digit : Nat → Nat) (s : Int) (hs : s = (lo : Int)) :
    (((List.range' lo cnt).map (fun p => (p, digit p))).map fun (x : Nat × Nat) => ((x.1 : Int), (x.2 : Int)))
      = feedOf s ((((List.range' lo cnt).map (fun p => (p, digit p)))).map fun x => (x.2 : Int)) := by
  apply List.ext_getElem?
  intro j
  rw [feedOf_getElem?]
  simp only [List.map_map, List.getElem?_map]
  by_cases hj : j < cnt
  · rw [List.getElem?_range' hj]
    simp only [Option.map_some, Function.comp, Option.some.injEq, Prod.mk.injEq, and_true]
    omega
  · rw [List.getElem?_eq_none (by simp; omega)]
    rfl

theorem scan_demand_some (c : MemoCfg) (hc : 0 < c.chunk) (m : Memo) (sp : VSpec) (index : Int) (take : Nat)
    (hidx : 0 ≤ index) (r : Int) (h : DemandLe c m r) (m' : Memo) (xs : List (Nat × Nat))
    (hs : specScan c m sp index take = .ok (m', xs)) (q d : Nat) (hl : xs.getLast? = some (q, d)) :
    DemandLe c m' (max r ((q : Int) + 1)) := by
  have := (scan_demand c hc m sp index take hidx r h m' xs hs).1
  split at this
  · rename_i q' d' heq
    rw [hl] at heq
    simp only [Option.some.injEq, Prod.mk.injEq] at heq
    rw [heq.1]; exact this
  · rename_i heq
    rw [hl] at heq; cases heq

theorem occ_bound (p T : List Int) (i : Nat) (h : i ∈ Spec.occurrences p T) : i + p.length ≤ T.length := by
  unfold Spec.occurrences at h
  have := (List.mem_filter.1 h).2
  simp only [Spec.occursAt, Bool.and_eq_true, decide_eq_true_eq] at this
  exact this.1

/-- invariant of Number values along a chain of WithSignificant calls from a base of exponent e -/
def NumInv (e : Int) (v : Val3) : Prop :=
  ∃ sp ex, (v = .fnum sp ex ∨ v = .opqN sp ex) ∧ (sp ≠ .nil → ex = e)

theorem withLimit_nil (k : Int) : (withLimit .nil k).1 = .nil := by
  unfold withLimit; split <;> rfl

theorem numInv_fnumWithSpec (e : Int) (sp : VSpec) (ex k : Int) (h : sp ≠ .nil → ex = e) :
    NumInv e (fnumWithSpec sp ex (withLimit sp k)) := by
  unfold fnumWithSpec
  split
  · exact ⟨sp, ex, Or.inl rfl, h⟩
  · split
    · exact ⟨.nil, 0, Or.inl rfl, fun h => absurd rfl h⟩
    · rename_i hne
      refine ⟨_, ex, Or.inl rfl, fun _ => h ?_⟩
      intro hsp; subst hsp
      exact hne (withLimit_nil k)

theorem numInv_step (e : Int) (v v' : Val3) (k : Int) (hi : NumInv e v)
    (h : v.apply (.withSig k) = some (.ok v')) : NumInv e v' := by
  obtain ⟨sp, ex, hv | hv, hex⟩ := hi <;> subst hv <;> simp only [Val3.apply] at h <;>
    split at h <;> simp only [Option.some.injEq, Except.ok.injEq, reduceCtorEq] at h <;>
    subst h <;> exact numInv_fnumWithSpec e sp ex k hex

theorem numInv_chain (e : Int) : ∀ (limits : List Int) (v v' : Val3), NumInv e v →
    applyChain3 v (limits.map .withSig) = some v' → NumInv e v'
  | [], v, v', hi, h => by
    simp only [List.map_nil, applyChain3, Option.some.injEq] at h
    subst h; exact hi
  | k :: rest, v, v', hi, h => by
    simp only [List.map_cons] at h
    unfold applyChain3 at h
    cases ha : v.apply (.withSig k) with
    | none => rw [ha] at h; cases h
    | some r =>
      cases r with
      | error e => rw [ha] at h; cases h
      | ok v1 =>
        rw [ha] at h
        exact numInv_chain e rest v1 v' (numInv_step e v v1 k hi ha) h

theorem winOf_withSig_lo (limits : List Int) :
    (Spec.winOf ((limits.map ViewOp.withSig).map toSpecOp)).lo = 0 := by
  unfold Spec.winOf
  suffices h : ∀ w : Spec.Win, (((limits.map ViewOp.withSig).map toSpecOp).foldl Spec.Win.apply w).lo = w.lo from h {}
  induction limits with
  | nil => intro w; rfl
  | cons k rest ih =>
    intro w
    simp only [List.map_cons, List.foldl_cons, toSpecOp]
    rw [ih]; rfl

end E2E
open E2E ViewL

/-- C09 + C15 end to end: FindFirstN on any view returns the first n occurrences inside the
window restricted to its first `bound` digits (as absolute positions; `bound` is arbitrary, so this
covers every finite prefix of an infinite Number); the digits pulled are exactly those up to the end of the last reported
match, and the demand on the source grows to at most (that position + 1 + one block) -/
theorem findFirstN_end_to_end (c : MemoCfg) (m : Memo) (b v : Val3) (chain : List ViewOp)
    (pat : List Int) (hp : pat ≠ []) (n bound : Nat) (hn : 0 < n)
    (hb : IsBase3 b) (hv : applyChain3 b chain = some v)
    (hfit : Fits c m.src (Spec.winOf (chain.map toSpecOp)) bound)
    (r : Int) (hr : DemandLe c m r) :
    let w := Spec.winOf (chain.map toSpecOp)
    let cells := Spec.windowList m.src.len m.src.digit w bound
    let T : List Int := cells.map fun x => (x.2 : Int)
    let s : Int := (max w.lo 0)
    ∃ m' cnt, findFirstN3 c m v pat n bound
        = .ok (m', ((Spec.occurrences pat T).take n).map (shiftPos s), cnt) ∧
      cnt ≤ cells.length ∧
      (n ≤ (Spec.occurrences pat T).length →
        ∀ last, ((Spec.occurrences pat T).take n).getLast? = some last → cnt = last + pat.length) ∧
      DemandLe c m' (max r (s + cnt)) := by
  intro w cells T s
  obtain ⟨m1, hf1, _⟩ := forward_chain3 c m b v chain bound hb hv hfit
  obtain ⟨cnt0, hc0, hshape, hpre⟩ := windowList_shape m.src.len m.src.digit w bound
  have hcells : cells = (List.range' (max w.lo 0).toNat cnt0).map (fun p => (p, m.src.digit p)) := hshape
  have hlen : cells.length = cnt0 := by rw [hcells]; simp
  have hTlen : T.length = cells.length := by simp [T]
  have hfeed : (cells.map fun (x : Nat × Nat) => ((x.1 : Int), (x.2 : Int))) = feedOf s T := by
    show _ = feedOf s (cells.map fun x => (x.2 : Int))
    rw [hcells]
    exact feed_eq_feedOf _ _ _ s (by show max w.lo 0 = _; omega)
  obtain ⟨k, hk, cnt, hkt, _, hc2, hc3⟩ := kmpTake_spec pat hp T s n
  have hcnt : cnt ≤ cells.length := by
    by_cases hle : n ≤ (Spec.occurrences pat T).length
    · have hlt : n - 1 < (Spec.occurrences pat T).length := by omega
      have hlast : ((Spec.occurrences pat T).take n).getLast? = some ((Spec.occurrences pat T)[n - 1]) := by
        rw [List.getLast?_take, if_neg (by omega), List.getElem?_eq_getElem hlt]; rfl
      rw [hc2 hn hle _ hlast, ← hTlen]
      exact occ_bound pat T _ (List.getElem_mem hlt)
    · rw [hc3 (by omega), hTlen]; exact Nat.le_refl _
  have hcb : cnt ≤ bound := by omega
  obtain ⟨m2, hf2, hm2⟩ := forward_chain3 c m b v chain cnt hb hv (fits_mono hfit hcb)
  refine ⟨m2, cnt, ?_, hcnt, fun hle => hc2 hn hle, ?_⟩
  · unfold findFirstN3
    rw [if_neg (by omega), hf1]
    simp only
    rw [if_neg (by have := List.length_pos_iff.2 hp; omega), hk]
    simp only
    have hfeed' : (List.map (fun (x : Nat × Nat) => match x with | (p, d) => ((p : Int), (d : Int))) cells) = feedOf s T := hfeed
    rw [hfeed', hkt]
    simp only
    rw [hf2]
  · have hrep := chain3 chain b v {} (base3 b hb) hv
    have hst : v.start = max w.lo 0 := hrep.1
    have hf2' : specScan c m v.spec v.start cnt = .ok (m2, Spec.windowList m.src.len m.src.digit w cnt) := hf2
    by_cases h0 : cnt = 0
    · rw [(scan_demand c hfit.1 m v.spec v.start cnt (by omega) r hr m2 _ hf2').2 h0]
      exact MD.demandLe_mono hr (by omega)
    · have hl : (Spec.windowList m.src.len m.src.digit w cnt).getLast?
          = some ((max w.lo 0).toNat + cnt - 1, m.src.digit ((max w.lo 0).toNat + cnt - 1)) := by
        rw [hpre cnt (by omega), List.getLast?_map, List.getLast?_range', if_neg h0]; rfl
      have hd1 := scan_demand_some c hfit.1 m v.spec v.start cnt (by omega) r hr m2 _ hf2' _ _ hl
      exact MD.demandLe_mono hd1 (by omega)

end Sqroot.Proofs

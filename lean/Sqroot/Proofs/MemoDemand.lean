/-
C06 at the level of the sequential model (L2/L3): bounded read-ahead for every read path,
including reads through views. Together with `single_client_final` (the concurrent object
consults exactly `Memo.consulted` positions) this is the property's formula: after operations
whose highest delivered position is `i`, at most `i + 1 + chunk` positions have been consulted;
an operation that delivers nothing consults at most `a + 1 + chunk` where `a` is the position it
asked about AFTER clamping to the view's end.
-/
import Sqroot.Model.View
namespace Sqroot.Proofs
open Sqroot.Model

/-- the demand is at most one block beyond `r + 1` (or nothing has been demanded yet) -/
def DemandLe (c : MemoCfg) (m : Memo) (r : Int) : Prop :=
  m.maxLength = 0 ∨ (m.maxLength : Int) ≤ r + 1 + c.chunk

namespace MD

theorem demandLe_mono {c : MemoCfg} {m : Memo} {r r' : Int} (h : DemandLe c m r) (hr : r ≤ r') :
    DemandLe c m r' := by
  unfold DemandLe at *; omega

theorem wait_maxLength (c : MemoCfg) (m : Memo) (i : Nat) :
    (m.wait c i).1.maxLength = m.maxLength ∨ (m.wait c i).1.maxLength ≤ i + c.chunk := by
  unfold Memo.wait
  simp only
  split
  · right
    simp only
    have h1 : c.chunk * min (i / c.chunk + 1) c.maxChunks ≤ c.chunk * (i / c.chunk + 1) :=
      Nat.mul_le_mul_left _ (Nat.min_le_left _ _)
    have h2 : c.chunk * (i / c.chunk) ≤ i := Nat.mul_div_le i c.chunk
    rw [Nat.mul_add, Nat.mul_one] at h1
    omega
  · left; rfl

theorem wait_src (c : MemoCfg) (m : Memo) (i : Nat) : (m.wait c i).1.src = m.src := by
  unfold Memo.wait
  simp only
  split <;> rfl

theorem wait_demandLe (c : MemoCfg) (m : Memo) (i : Nat) (r : Int) (h : DemandLe c m r) :
    DemandLe c (m.wait c i).1 (max r i) := by
  have hw := wait_maxLength c m i
  unfold DemandLe at *
  omega

/-- `wait i` when `i ≤ b` -/
theorem wait_demandLe' (c : MemoCfg) (m : Memo) (i : Nat) (r b : Int) (h : DemandLe c m (max r b))
    (hb : (i : Int) ≤ b) : DemandLe c (m.wait c i).1 (max r b) := by
  have := wait_demandLe c m i _ h
  exact demandLe_mono this (by omega)

theorem at_demandLe (c : MemoCfg) (m : Memo) (p r : Int) (h : DemandLe c m r) :
    DemandLe c (m.at c p).1 (max r p) := by
  unfold Memo.at
  split
  · exact demandLe_mono h (by omega)
  · have hw := wait_demandLe c m p.toNat r h
    have : DemandLe c (m.wait c p.toNat).1 (max r p) := demandLe_mono hw (by omega)
    simp only
    split <;> exact this

/-- bound expression of a traversal result -/
def lastB (xs : List (Nat × Nat)) (b : Int) : Int :=
  match xs.getLast? with
  | some (q, _) => (q : Int) + 1
  | none => b

theorem scanLoop_demand (c : MemoCfg) (r limit : Int) :
    ∀ (take : Nat) (m : Memo) (index snap : Nat) (ok : Bool) (acc : List (Nat × Nat)) (b : Int)
      (m' : Memo) (xs : List (Nat × Nat)),
      DemandLe c m (max r b) → b ≤ index →
      Memo.scanLoop c take m index limit snap ok acc = (m', xs) →
      (xs = acc.reverse ∧ m' = m) ∨
        (∃ q d, xs.getLast? = some (q, d) ∧ DemandLe c m' (max r ((q : Int) + 1))) := by
  intro take
  induction take with
  | zero =>
    intro m index snap ok acc b m' xs _ _ hs
    simp only [Memo.scanLoop, Prod.mk.injEq] at hs
    exact Or.inl ⟨hs.2.symm, hs.1.symm⟩
  | succ take ih =>
    intro m index snap ok acc b m' xs hd hb hs
    unfold Memo.scanLoop at hs
    split at hs
    · simp only [Prod.mk.injEq] at hs
      exact Or.inl ⟨hs.2.symm, hs.1.symm⟩
    · have hd1 : DemandLe c m (max r ((index : Int) + 1)) := demandLe_mono hd (by omega)
      simp only at hs
      split at hs
      · simp only [Prod.mk.injEq] at hs
        refine Or.inr ⟨index, m.src.digit index, ?_, ?_⟩
        · rw [← hs.2]; simp
        · rw [← hs.1]; exact hd1
      · have key : ∀ (m2 : Memo) (snap2 : Nat) (ok2 : Bool),
            DemandLe c m2 (max r ((index : Int) + 1)) →
            Memo.scanLoop c take m2 (index + 1) limit snap2 ok2 ((index, m.src.digit index) :: acc) = (m', xs) →
            ∃ q d, xs.getLast? = some (q, d) ∧ DemandLe c m' (max r ((q : Int) + 1)) := by
          intro m2 snap2 ok2 hd2 hs2
          rcases ih m2 (index + 1) snap2 ok2 _ ((index : Int) + 1) m' xs hd2 (by omega) hs2 with ⟨hx, hm⟩ | h
          · refine ⟨index, m.src.digit index, ?_, ?_⟩
            · rw [hx]; simp
            · rw [hm]; exact hd2
          · exact h
        split at hs
        · exact Or.inr (key _ _ _ (wait_demandLe' c m (index + 1) r _ hd1 (by omega)) hs)
        · exact Or.inr (key _ _ _ hd1 hs)

theorem scan_demandLe (c : MemoCfg) (m : Memo) (idx lim : Int) (take : Nat) (r : Int)
    (h : DemandLe c m r) (m' : Memo) (xs : List (Nat × Nat))
    (hs : m.scan c idx lim take = .ok (m', xs)) :
    DemandLe c m' (max r (lastB xs idx)) ∧ (take = 0 → m' = m) := by
  unfold Memo.scan at hs
  split at hs
  · cases hs
  · rename_i hi
    split at hs
    · rename_i ht
      simp only [Except.ok.injEq, Prod.mk.injEq] at hs
      refine ⟨?_, fun _ => hs.1.symm⟩
      rw [← hs.1, ← hs.2]
      exact demandLe_mono h (by simp only [lastB, List.getLast?_nil]; omega)
    · rename_i ht
      simp only [Except.ok.injEq] at hs
      refine ⟨?_, fun h0 => absurd h0 ht⟩
      have hw : DemandLe c (m.wait c idx.toNat).1 (max r idx) :=
        demandLe_mono (wait_demandLe c m idx.toNat r h) (by omega)
      rcases scanLoop_demand c r lim take _ _ _ _ [] idx m' xs hw (by omega) hs with ⟨hx, hm⟩ | ⟨q, d, hq, hd⟩
      · rw [hx, hm]; simpa [lastB] using hw
      · simpa [lastB, hq] using hd

end MD

theorem consulted_le_demand (m : Memo) : m.consulted ≤ m.maxLength := by
  unfold Memo.consulted
  split
  · exact Nat.min_le_left _ _
  · exact Nat.le_refl _

/-- `wait(i)` asks about position `i` -/
theorem wait_demand (c : MemoCfg) (hc : 0 < c.chunk) (m : Memo) (i : Nat) (r : Int) (h : DemandLe c m r) :
    DemandLe c (m.wait c i).1 (max r i) ∧ (m.wait c i).1.src = m.src :=
  have _ := hc
  ⟨MD.wait_demandLe c m i r h, MD.wait_src c m i⟩

/-- `At(p)` through a view with limit: asks about `min p limit` (nothing for p < 0 / nil) -/
theorem at_demand (c : MemoCfg) (hc : 0 < c.chunk) (m : Memo) (sp : VSpec) (p : Int) (r : Int) (h : DemandLe c m r) :
    DemandLe c (specAt c m sp p).1
      (max r (match sp with | .limited l => min p l | _ => p)) := by
  have _ := hc
  cases sp with
  | nil => exact MD.demandLe_mono h (by omega)
  | memo => exact MD.at_demandLe c m p r h
  | limited l =>
    simp only [specAt]
    split
    · have := MD.at_demandLe c m l r h
      exact MD.demandLe_mono this (by omega)
    · have := MD.at_demandLe c m p r h
      exact MD.demandLe_mono this (by omega)

/-- a forward traversal through any view spec, consumer stopping after `take` items: the demand
is bounded by the LAST DELIVERED position + 1 + one block; when nothing is delivered, by the
(clamped) start it asked about -/
theorem scan_demand (c : MemoCfg) (hc : 0 < c.chunk) (m : Memo) (sp : VSpec) (index : Int) (take : Nat)
    (hidx : 0 ≤ index) (r : Int) (h : DemandLe c m r) (m' : Memo) (xs : List (Nat × Nat))
    (hs : specScan c m sp index take = .ok (m', xs)) :
    DemandLe c m'
      (max r (match xs.getLast? with
        | some (q, _) => (q : Int) + 1
        | none => (match sp with | .limited l => min index l | _ => index))) ∧
    (take = 0 → m' = m) := by
  have _ := hc
  have _ := hidx
  cases sp with
  | nil =>
    simp only [specScan, Except.ok.injEq, Prod.mk.injEq] at hs
    obtain ⟨rfl, rfl⟩ := hs
    refine ⟨?_, fun _ => rfl⟩
    exact MD.demandLe_mono h (by simp only [List.getLast?_nil]; omega)
  | memo => exact MD.scan_demandLe c m index maxInt take r h m' xs hs
  | limited l => exact MD.scan_demandLe c m (min index l) (min maxInt l) take r h m' xs hs

/-- a live pull iterator: one call asks about at most the position after the one it delivers -/
theorem pull3_demand (c : MemoCfg) (hc : 0 < c.chunk) (m : Memo) (it : PullIt) (r : Int) (h : DemandLe c m r) :
    DemandLe c (m.pull3 c it).1 (max r ((it.index : Int) + 1)) := by
  have _ := hc
  have h0 : DemandLe c m (max r ((it.index : Int) + 1)) := MD.demandLe_mono h (by omega)
  have h1 : DemandLe c (m.wait c it.index).1 (max r ((it.index : Int) + 1)) :=
    MD.wait_demandLe' c m it.index r _ h0 (by omega)
  unfold Memo.pull3
  by_cases hi : it.initialized
  · simp only [hi, Bool.not_true, Bool.false_eq_true, if_false]
    split
    · exact h0
    · split
      · exact MD.wait_demandLe' c m (it.index + 1) r _ h0 (by omega)
      · exact h0
  · simp only [hi, Bool.not_false, if_true]
    split
    · exact h1
    · split
      · exact MD.wait_demandLe' c _ (it.index + 1) r _ h1 (by omega)
      · exact h1

end Sqroot.Proofs

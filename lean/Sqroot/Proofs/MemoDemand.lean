/-
C06 at the level of the sequential model (L2/L3): bounded read-ahead for every read path,
including reads through views. Together with `single_client_final` (the concurrent object
consults exactly `Memo.consulted` positions) this is the property's formula: after operations
whose highest delivered position is `i`, at most `i + 1 + chunk` positions have been consulted;
an operation that delivers nothing consults at most `a + 1 + chunk` where `a` is the position it
asked about AFTER clamping to the view's end.
-/
import Sqroot.Model.View
namespace Sqroot.Proofs
open Sqroot.Model

/-- the demand is at most one block beyond `r + 1` (or nothing has been demanded yet) -/
def DemandLe (c : MemoCfg) (m : Memo) (r : Int) : Prop :=
  m.maxLength = 0 ∨ (m.maxLength : Int) ≤ r + 1 + c.chunk

theorem consulted_le_demand (m : Memo) : m.consulted ≤ m.maxLength := by
  sorry

/-- `wait(i)` asks about position `i` -/
theorem wait_demand (c : MemoCfg) (hc : 0 < c.chunk) (m : Memo) (i : Nat) (r : Int) (h : DemandLe c m r) :
    DemandLe c (m.wait c i).1 (max r i) ∧ (m.wait c i).1.src = m.src := by
  sorry

/-- `At(p)` through a view with limit: asks about `min p limit` (nothing for p < 0 / nil) -/
theorem at_demand (c : MemoCfg) (hc : 0 < c.chunk) (m : Memo) (sp : VSpec) (p : Int) (r : Int) (h : DemandLe c m r) :
    DemandLe c (specAt c m sp p).1
      (max r (match sp with | .limited l => min p l | _ => p)) := by
  sorry

/-- a forward traversal through any view spec, consumer stopping after `take` items: the demand
is bounded by the LAST DELIVERED position + 1 + one block; when nothing is delivered, by the
(clamped) start it asked about -/
theorem scan_demand (c : MemoCfg) (hc : 0 < c.chunk) (m : Memo) (sp : VSpec) (index : Int) (take : Nat)
    (hidx : 0 ≤ index) (r : Int) (h : DemandLe c m r) (m' : Memo) (xs : List (Nat × Nat))
    (hs : specScan c m sp index take = .ok (m', xs)) :
    DemandLe c m'
      (max r (match xs.getLast? with
        | some (q, _) => (q : Int) + 1
        | none => (match sp with | .limited l => min index l | _ => index))) ∧
    (take = 0 → m' = m) := by
  sorry

/-- a live pull iterator: one call asks about at most the position after the one it delivers -/
theorem pull3_demand (c : MemoCfg) (hc : 0 < c.chunk) (m : Memo) (it : PullIt) (r : Int) (h : DemandLe c m r) :
    DemandLe c (m.pull3 c it).1 (max r ((it.index : Int) + 1)) := by
  sorry

end Sqroot.Proofs

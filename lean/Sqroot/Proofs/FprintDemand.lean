/-
C06 for printing (v3): a plain `Fprint` — every range traversed to its end — demands from the digit
source at most (the end of the requested Positions + one block); the faulted run never more than
the plain one would.
-/
import Sqroot.Model.Fprint
import Sqroot.Proofs.MemoDemand
import Sqroot.Proofs.Fprint
import Sqroot.Proofs.FprintFault
namespace Sqroot.Proofs
open Sqroot.Model

namespace FD

/-- in a normal form every range starts at a non-negative position and ends no later than the
last one, i.e. than `Positions.End()` -/
theorem stop_le_positionsEnd (ranges : List PRange) (hnorm : Spec.NormalRanges (toPairs ranges))
    (q : PRange) (hq : q ∈ ranges) : 0 ≤ q.start ∧ q.stop ≤ positionsEnd ranges := by
  have hg := ((normal_iff ranges).1 hnorm).1 q hq
  have h3 := (positionsEnd_spec ranges hnorm).2.2 (q.stop - 1)
    ((memRanges_toPairs ranges _).2 ⟨q, hq, by omega, by omega⟩)
  omega

/-- a traversal (any consumer) of a value that is empty or limited to at most `b`, started at a
non-negative index: the demand stays within the bound for `b` -/
theorem forward_window_demand (c : MemoCfg) (hc : 0 < c.chunk) (m : Memo) (v : Val3) (b : Int) (take : Nat)
    (h0 : 0 ≤ v.start) (hsp : v.spec = .nil ∨ ∃ l, v.spec = .limited l ∧ l ≤ b)
    (R : Int) (h : DemandLe c m R) (m' : Memo) (xs : List (Nat × Nat))
    (hs : v.forward c m take = .ok (m', xs)) : DemandLe c m' (max R b) := by
  have hmem := FF.forward_mem c m v b take m' xs hs hsp
  rcases hsp with hsp | ⟨l, hsp, hle⟩
  · unfold Val3.forward at hs
    rw [hsp] at hs
    simp only [specScan, Except.ok.injEq, Prod.mk.injEq] at hs
    rw [← hs.1]
    exact MD.demandLe_mono h (by omega)
  · unfold Val3.forward at hs
    rw [hsp] at hs
    have hd := (scan_demand c hc m (.limited l) v.start take h0 R h m' xs hs).1
    simp only at hd
    refine MD.demandLe_mono hd ?_
    cases hl : xs.getLast? with
    | none => simp only; omega
    | some p =>
      obtain ⟨q, d⟩ := p
      have := hmem (q, d) (List.mem_of_getLast? hl)
      simp only at this ⊢
      omega

/-- the view `s.WithStart(a).WithEnd(b)` of one range with `0 ≤ a`: traversals start at a
non-negative index, and the value is empty or limited to at most `b` -/
theorem window (v v1 v2 : Val3) (q : PRange) (h0 : 0 ≤ q.start)
    (hv1 : v.apply (.withStart q.start) = some (.ok v1))
    (hv2 : v1.apply (.withEnd q.stop) = some (.ok v2)) :
    0 ≤ v2.start ∧ (v2.spec = .nil ∨ ∃ l, v2.spec = .limited l ∧ l ≤ q.stop) := by
  have h1 := FF.withStart_start v v1 q.start hv1
  obtain ⟨h2, h3⟩ := FF.withEnd_window v1 v2 q.stop hv2
  exact ⟨by omega, h3⟩

/-- one range run to its end -/
theorem rangeFeed_demand (c : MemoCfg) (hc : 0 < c.chunk) (m : Memo) (v : Val3) (q : PRange)
    (h0 : 0 ≤ q.start) (R : Int) (h : DemandLe c m R) (m' : Memo) (f : List (Nat × Nat))
    (hf : rangeFeed3 c m v q = some (m', f)) : DemandLe c m' (max R q.stop) := by
  unfold rangeFeed3 at hf
  split at hf
  · rename_i v1 hv1
    split at hf
    · rename_i v2 hv2
      obtain ⟨hs0, hsp⟩ := window v v1 v2 q h0 hv1 hv2
      split at hf
      · rename_i res hfw
        simp only [Option.some.injEq] at hf
        subst hf
        exact forward_window_demand c hc m v2 q.stop _ hs0 hsp R h _ _ hfw
      · cases hf
    · cases hf
  · cases hf

/-- one range under any writer: skipped, run to its end, or left early -/
theorem rangeFault_demand (c : MemoCfg) (hc : 0 < c.chunk) (m : Memo) (pr : Printer) (v : Val3) (q : PRange)
    (h0 : 0 ≤ q.start) (R : Int) (h : DemandLe c m R) (m' : Memo) (pr' : Printer)
    (hf : rangeFault3 c m pr v q = some (.ok (m', pr'))) : DemandLe c m' (max R q.stop) := by
  unfold rangeFault3 at hf
  split at hf
  · rename_i v1 hv1
    split at hf
    · rename_i v2 hv2
      obtain ⟨hs0, hsp⟩ := window v v1 v2 q h0 hv1 hv2
      split at hf
      · simp only [Option.some.injEq, Except.ok.injEq, Prod.mk.injEq] at hf
        rw [← hf.1]
        exact MD.demandLe_mono h (by omega)
      · split at hf
        · cases hf
        · rename_i mFull xs hfw
          split at hf
          · cases hf
          · rename_i pr1 hfeed
            split at hf
            · simp only [Option.some.injEq, Except.ok.injEq, Prod.mk.injEq] at hf
              rw [← hf.1]
              exact forward_window_demand c hc m v2 q.stop _ hs0 hsp R h _ _ hfw
            · split at hf
              · cases hf
              · rename_i mj ys hfj
                simp only [Option.some.injEq, Except.ok.injEq, Prod.mk.injEq] at hf
                rw [← hf.1]
                exact forward_window_demand c hc m v2 q.stop _ hs0 hsp R h _ _ hfj
    · cases hf
  · cases hf

/-- all ranges run to their ends, every one of them ending at or before `E` -/
theorem feeds_demand (c : MemoCfg) (hc : 0 < c.chunk) (v : Val3) (r E : Int) :
    ∀ (rs : List PRange) (m : Memo), (∀ q ∈ rs, 0 ≤ q.start ∧ q.stop ≤ E) →
      DemandLe c m (max r E) → ∀ (m' : Memo) (feeds : List (List (Nat × Nat))),
      fprintFeeds3 c m v rs = some (m', feeds) → DemandLe c m' (max r E) := by
  intro rs
  induction rs with
  | nil =>
    intro m _ h m' feeds hf
    simp only [fprintFeeds3, Option.some.injEq, Prod.mk.injEq] at hf
    rw [← hf.1]; exact h
  | cons q rs ih =>
    intro m hq h m' feeds hf
    unfold fprintFeeds3 at hf
    split at hf
    · cases hf
    · rename_i m1 f hr
      split at hf
      · cases hf
      · rename_i m2 fs hrest
        simp only [Option.some.injEq, Prod.mk.injEq] at hf
        rw [← hf.1]
        have hq0 := hq q (List.mem_cons_self ..)
        have h1 := rangeFeed_demand c hc m v q hq0.1 _ h m1 f hr
        exact ih m1 (fun q' hq' => hq q' (List.mem_cons_of_mem _ hq'))
          (MD.demandLe_mono h1 (by omega)) m2 fs hrest

/-- all ranges under any writer, every one of them ending at or before `E` -/
theorem rangesFault_demand (c : MemoCfg) (hc : 0 < c.chunk) (v : Val3) (r E : Int) :
    ∀ (rs : List PRange) (m : Memo) (pr : Printer), (∀ q ∈ rs, 0 ≤ q.start ∧ q.stop ≤ E) →
      DemandLe c m (max r E) → ∀ (m' : Memo) (pr' : Printer),
      rangesFault3 c m pr v rs = some (.ok (m', pr')) → DemandLe c m' (max r E) := by
  intro rs
  induction rs with
  | nil =>
    intro m pr _ h m' pr' hf
    simp only [rangesFault3, Option.some.injEq, Except.ok.injEq, Prod.mk.injEq] at hf
    rw [← hf.1]; exact h
  | cons q rs ih =>
    intro m pr hq h m' pr' hf
    unfold rangesFault3 at hf
    split at hf
    · cases hf
    · cases hf
    · rename_i m1 pr1 hr
      have hq0 := hq q (List.mem_cons_self ..)
      have h1 := rangeFault_demand c hc m pr v q hq0.1 _ h m1 pr1 hr
      exact ih m1 pr1 (fun q' hq' => hq q' (List.mem_cons_of_mem _ hq'))
        (MD.demandLe_mono h1 (by omega)) m' pr' hf

end FD

/-- K. bounded read-ahead of `Fprint` (v3): with `r` a bound on what earlier reads had demanded,
after printing the demand is bounded by `max r (Positions.End())` (in the sense of `DemandLe`:
at most that + 1 + one block) -/
theorem fprint_read_ahead (c : MemoCfg) (hc : 0 < c.chunk) (m : Memo) (v : Val3) (ranges : List PRange)
    (hnorm : Spec.NormalRanges (toPairs ranges))
    (r : Int) (h : DemandLe c m r) (m' : Memo) (feeds : List (List (Nat × Nat)))
    (hf : fprintFeeds3 c m v ranges = some (m', feeds)) :
    DemandLe c m' (max r (positionsEnd ranges)) :=
  FD.feeds_demand c hc v r (positionsEnd ranges) ranges m
    (FD.stop_le_positionsEnd ranges hnorm) (MD.demandLe_mono h (by omega)) m' feeds hf

/-- L. the same bound for the early-exit run under ANY writer -/
theorem fprint_fault_read_ahead (c : MemoCfg) (hc : 0 < c.chunk) (m : Memo) (pr : Printer) (v : Val3)
    (ranges : List PRange) (hnorm : Spec.NormalRanges (toPairs ranges))
    (r : Int) (h : DemandLe c m r) (m' : Memo) (pr' : Printer)
    (hf : rangesFault3 c m pr v ranges = some (.ok (m', pr'))) :
    DemandLe c m' (max r (positionsEnd ranges)) :=
  FD.rangesFault_demand c hc v r (positionsEnd ranges) ranges m pr
    (FD.stop_le_positionsEnd ranges hnorm) (MD.demandLe_mono h (by omega)) m' pr' hf

end Sqroot.Proofs

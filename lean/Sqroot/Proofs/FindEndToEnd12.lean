/-
C09 end to end for v1 / v2: `FindAll` on any finite view chain of a Number reports exactly the
occurrences inside the view's window, ascending, as absolute positions.
-/
import Sqroot.Model.EndToEnd
import Sqroot.Proofs.FindEndToEnd
namespace Sqroot.Proofs
open Sqroot.Model

/-- M. v1 / v2 FindAll on a finite view of `size` digits -/
theorem findAll12_end_to_end (c : MemoCfg) (m : Memo) (v : Val12) (chain : List ViewOp) (e : Int)
    (pat : List Int) (size : Nat)
    (hv : applyChain12 (.num .memo e) chain = some v)
    (hsize : Spec.windowSize m.src.len (Spec.winOf (chain.map toSpecOp)) = some size)
    (hfit : Fits c m.src (Spec.winOf (chain.map toSpecOp)) (size + 2)) :
    let w := Spec.winOf (chain.map toSpecOp)
    let T : List Int := (Spec.windowList m.src.len m.src.digit w size).map fun x => (x.2 : Int)
    ∃ m', findAll12 c m v pat size
        = .ok (m', if pat = [] then (List.range T.length).map (shiftPos (max w.lo 0))
                   else (Spec.occurrences pat T).map (shiftPos (max w.lo 0))) := by
  intro w T
  have hf := forward_chain12 c m v chain e (size + 1) hv hfit
  rw [E2E.windowList_ge_size _ _ _ size (size + 1) hsize (Nat.le_succ _)] at hf
  refine ⟨(spec12Iterate c m v.spec v.start.toNat (size + 1)).1, ?_⟩
  unfold findAll12
  simp only
  rw [hf]
  have hfeed := windowFeed_eq_feedOf m.src.len m.src.digit w size
  have hfeed' : (List.map (fun (x : Nat × Nat) => match x with | (p, d) => ((p : Int), (d : Int)))
      (Spec.windowList m.src.len m.src.digit w size)) = feedOf (max w.lo 0) T := hfeed
  rw [hfeed', (matchesAllV1_eq pat T (max w.lo 0)).1, matchesAll_feedOf]

/-- the hypotheses of M are satisfiable: the view `[2, 11)` of a 16-digit finite Number; 1 2 1 occurs
inside it at absolute positions 2, 6 and 8 -/
example :
    let c : MemoCfg := ⟨100, 92233720368547758⟩
    let digs : List Nat := [1,2,1,2,1,3,1,2,1,2,1,2,4,1,2,1]
    let m : Memo := { src := ⟨some 16, fun p => digs.getD p 0⟩ }
    ∃ m', findAll12 c m (.nws (.limited 11) 1 2) [1,2,1] 9 = .ok (m', [2, 6, 8]) := by
  intro c digs m
  have h := findAll12_end_to_end c m (.nws (.limited 11) 1 2)
    [.withStart 2, .withEnd 11] 1 [1,2,1] 9 (by decide) (by decide)
    ⟨by decide, by decide, by decide⟩
  have hocc : (if ([1,2,1] : List Int) = [] then
        (List.range ((Spec.windowList m.src.len m.src.digit
          (Spec.winOf ([ViewOp.withStart 2, .withEnd 11].map toSpecOp)) 9).map fun x => (x.2 : Int)).length).map
          (shiftPos (max (Spec.winOf ([ViewOp.withStart 2, .withEnd 11].map toSpecOp)).lo 0))
      else (Spec.occurrences [1,2,1] ((Spec.windowList m.src.len m.src.digit
          (Spec.winOf ([ViewOp.withStart 2, .withEnd 11].map toSpecOp)) 9).map fun x => (x.2 : Int))).map
          (shiftPos (max (Spec.winOf ([ViewOp.withStart 2, .withEnd 11].map toSpecOp)).lo 0)))
      = [2, 6, 8] := by decide
  simp only [hocc] at h
  exact h

end Sqroot.Proofs

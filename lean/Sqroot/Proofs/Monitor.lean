/-
Lemmas for C05 (protocol level) and C06 (lazy, in order, once, bounded read-ahead) about the
monitor transition system of `Model/Monitor.lean`. All statements are for an arbitrary number of
reader threads running arbitrary finite programs and for every interleaving (every label
sequence).
-/
import Sqroot.Model.Monitor
namespace Sqroot.Proofs
open Sqroot.Model

/-- `e` is the position of the first end marker of the source -/
def IsEndPos (c : MonCfg) (e : Nat) : Prop :=
  c.endTest (c.src e) = true ∧ ∀ k, k < e → c.endTest (c.src k) = false

/-- positions `0..k` all hold digits (no end marker up to and including `k`) -/
def ValidUpTo (c : MonCfg) (k : Nat) : Prop := ∀ j, j ≤ k → c.endTest (c.src j) = false

/-- every requested index fits the memoizer's capacity `chunk * maxChunks`
(in Go: `index ≤ MaxInt − 8`) -/
def InCapacity (c : MonCfg) (programs : List (List Nat)) : Prop :=
  ∀ p ∈ programs, ∀ i ∈ p, i < c.chunk * c.maxChunks

/-- indices whose `wait` call has been entered so far -/
def entered (s : MonSt) : List Nat :=
  s.readers.flatMap fun r =>
    (match r.pc with | .idle => [] | .parked i => [i] | .woken i => [i]) ++ r.results.map (·.1)


/-! ## Helper definitions and lemmas: the inductive invariants -/
namespace Mon

/-- the first `n` source positions hold digits -/
def Good (c : MonCfg) (n : Nat) : Prop := ∀ k, k < n → c.endTest (c.src k) = false

def cap (c : MonCfg) : Nat := c.chunk * c.maxChunks

/-- producer invariant, per program counter -/
def PInv (c : MonCfg) (len : Nat) (done : Bool) (maxLength consulted : Nat) : ProdPc → Prop
  | .check i => done = false ∧ consulted = len ∧ len = i * c.chunk ∧ Good c len
  | .parked i => done = false ∧ consulted = len ∧ len = i * c.chunk ∧ Good c len ∧ maxLength ≤ len
  | .computing i j loc => done = false ∧ loc = len + j ∧ j < c.chunk ∧ consulted = loc ∧
      len = i * c.chunk ∧ len < maxLength ∧ Good c loc
  | .publishing i loc false => done = false ∧ len = i * c.chunk ∧ loc = len + c.chunk ∧
      consulted = loc ∧ loc ≤ maxLength ∧ Good c loc
  | .publishing i loc true => done = false ∧ len = i * c.chunk ∧ len ≤ loc ∧ loc < len + c.chunk ∧
      len < maxLength ∧ consulted = loc + 1 ∧ Good c loc ∧ c.endTest (c.src loc) = true
  | .finalPublish loc => done = false ∧ loc = len ∧ cap c ≤ len ∧ consulted = len ∧ Good c len
  | .exited => done = true ∧ Good c len ∧
      ((c.endTest (c.src len) = true ∧ consulted = len + 1) ∨ (cap c ≤ len ∧ consulted = len))

theorem mem_entered (s : MonSt) (i : Nat) :
    i ∈ entered s ↔ ∃ r ∈ s.readers,
      (r.pc = .parked i ∨ r.pc = .woken i ∨ ∃ res ∈ r.results, res.1 = i) := by
  unfold entered
  simp only [List.mem_flatMap, List.mem_append, List.mem_map]
  constructor
  · rintro ⟨r, hr, h⟩
    refine ⟨r, hr, ?_⟩
    rcases h with h | h
    · cases hpc : r.pc <;> simp [hpc] at h <;> simp [h]
    · exact Or.inr (Or.inr h)
  · rintro ⟨r, hr, h⟩
    refine ⟨r, hr, ?_⟩
    rcases h with h | h | h
    · left; simp [h]
    · left; simp [h]
    · right; exact h

structure Inv1 (c : MonCfg) (s : MonSt) : Prop where
  hdvd : c.chunk ∣ s.maxLength
  hM : s.maxLength ≤ cap c
  hcons : s.consulted ≤ s.maxLength
  hprod : PInv c s.len s.done s.maxLength s.consulted s.prod
  hres : ∀ r ∈ s.readers, ∀ res ∈ r.results, res.2.1 ≤ s.len
  hent : s.maxLength = 0 ∨ ∃ i ∈ entered s, s.maxLength ≤ i + c.chunk

theorem inv1_init (c : MonCfg) (programs : List (List Nat)) : Inv1 c (monInit programs) := by
  refine ⟨?_, ?_, ?_, ?_, ?_, ?_⟩ <;> simp [monInit, PInv, Good]


theorem dvd_step {a x y : Nat} (hx : a ∣ x) (hy : a ∣ y) (h : x < y) : x + a ≤ y := by
  have h1 : a ∣ y - x := Nat.dvd_sub hy hx
  have h2 : a ≤ y - x := Nat.le_of_dvd (by omega) h1
  omega

theorem grownMax_dvd (c : MonCfg) (i : Nat) : c.chunk ∣ grownMax c i := Nat.dvd_mul_right _ _

theorem grownMax_le_cap (c : MonCfg) (i : Nat) : grownMax c i ≤ cap c :=
  Nat.mul_le_mul_left _ (Nat.min_le_right _ _)

theorem grownMax_le (c : MonCfg) (i : Nat) : grownMax c i ≤ i + c.chunk := by
  have h1 : grownMax c i ≤ c.chunk * (i / c.chunk + 1) := Nat.mul_le_mul_left _ (Nat.min_le_left _ _)
  have h2 : c.chunk * (i / c.chunk) ≤ i := Nat.mul_div_le i c.chunk
  rw [Nat.mul_add, Nat.mul_one] at h1
  omega

theorem grownMax_gt (c : MonCfg) (hc : 0 < c.chunk) (i : Nat) (h : i < cap c) : i < grownMax c i := by
  unfold grownMax
  rcases Nat.le_total (i / c.chunk + 1) c.maxChunks with h1 | h1
  · rw [Nat.min_eq_left h1]
    exact Nat.lt_mul_div_succ i hc
  · rw [Nat.min_eq_right h1]; exact h

theorem grownMax_ge (c : MonCfg) (hc : 0 < c.chunk) (i m : Nat) (hd : c.chunk ∣ m) (hM : m ≤ cap c) (hi : m ≤ i) :
    m ≤ grownMax c i := by
  obtain ⟨q, rfl⟩ := hd
  unfold grownMax
  apply Nat.mul_le_mul_left
  apply Nat.le_min.mpr
  constructor
  · have : q ≤ i / c.chunk := (Nat.le_div_iff_mul_le hc).mpr (by rw [Nat.mul_comm]; exact hi)
    omega
  · exact Nat.le_of_mul_le_mul_left hM hc

theorem inv1_pCheck (c : MonCfg) (hc : 0 < c.chunk) (s s' : MonSt) (hi : Inv1 c s)
    (h : step c s .pCheck = some s') : Inv1 c s' := by
  obtain ⟨hdvd, hM, hcons, hprod, hres, hent⟩ := hi
  simp only [step] at h
  split at h
  · rename_i i hpc
    rw [hpc] at hprod
    simp only [PInv] at hprod
    split at h
    · injection h with h; subst h
      exact ⟨hdvd, hM, hcons, by simp only [PInv]; grind, hres, hent⟩
    · split at h
      · omega
      · injection h with h; subst h
        refine ⟨hdvd, hM, hcons, ?_, hres, hent⟩
        simp only [PInv]
        refine ⟨hprod.1, rfl, hc, hprod.2.1, hprod.2.2.1, by omega, hprod.2.2.2⟩
  · cases h

theorem good_succ {c : MonCfg} {n : Nat} (h : Good c n) (h1 : c.endTest (c.src n) = false) :
    Good c (n + 1) := by
  intro k hk
  rcases Nat.lt_succ_iff_lt_or_eq.mp hk with h2 | h2
  · exact h k h2
  · rw [h2]; exact h1

theorem inv1_pCompute (c : MonCfg) (s s' : MonSt) (hi : Inv1 c s)
    (h : step c s .pCompute = some s') : Inv1 c s' := by
  obtain ⟨hdvd, hM, hcons, hprod, hres, hent⟩ := hi
  simp only [step] at h
  split at h
  · rename_i i j loc hpc
    rw [hpc] at hprod
    simp only [PInv] at hprod
    obtain ⟨h1, h2, h3, h4, h5, h6, h7⟩ := hprod
    have hd : c.chunk ∣ s.len := ⟨i, by rw [h5, Nat.mul_comm]⟩
    have h8 := dvd_step hd hdvd h6
    split at h
    · rename_i he
      injection h with h; subst h
      refine ⟨hdvd, hM, ?_, ?_, hres, hent⟩
      · simp only []; omega
      · simp only [PInv]
        rw [h4] at he
        exact ⟨h1, h5, by omega, by omega, h6, by omega, h7, he⟩
    · rename_i he
      rw [h4] at he
      have he' : c.endTest (c.src loc) = false := by simpa using he
      have hg := good_succ h7 he'
      split at h
      · injection h with h; subst h
        refine ⟨hdvd, hM, ?_, ?_, hres, hent⟩
        · simp only []; omega
        · simp only [PInv]
          exact ⟨h1, h5, by omega, by omega, by omega, hg⟩
      · injection h with h; subst h
        refine ⟨hdvd, hM, ?_, ?_, hres, hent⟩
        · simp only []; omega
        · simp only [PInv]
          exact ⟨h1, by omega, by omega, by omega, h5, h6, hg⟩
  · cases h

/-- effect of a Broadcast on one reader -/
def bc (r : Reader) : Reader :=
  match r.pc with
  | .parked i => { r with pc := .woken i }
  | _ => r

theorem broadcast_eq (rs : List Reader) : broadcast rs = rs.map bc := rfl

theorem bc_results (r : Reader) : (bc r).results = r.results := by
  unfold bc; split <;> rfl

theorem bc_todo (r : Reader) : (bc r).todo = r.todo := by
  unfold bc; split <;> rfl

theorem bc_pc (r : Reader) : (bc r).pc = match r.pc with | .parked i => .woken i | p => p := by
  unfold bc; split <;> simp_all

/-- `i` has been entered by reader `r` -/
def Ent (r : Reader) (i : Nat) : Prop :=
  r.pc = .parked i ∨ r.pc = .woken i ∨ ∃ res ∈ r.results, res.1 = i

theorem mem_entered' (s : MonSt) (i : Nat) : i ∈ entered s ↔ ∃ r ∈ s.readers, Ent r i :=
  mem_entered s i

theorem ent_bc (r : Reader) (i : Nat) (h : Ent r i) : Ent (bc r) i := by
  unfold Ent at *
  rw [bc_results, bc_pc]
  rcases h with h | h | h
  · right; left; rw [h]
  · right; left; rw [h]
  · right; right; exact h

theorem hent_mono (c : MonCfg) (s s' : MonSt) (hm : s'.maxLength = s.maxLength)
    (hr : ∀ r ∈ s.readers, ∀ i, Ent r i → ∃ r' ∈ s'.readers, Ent r' i)
    (h : s.maxLength = 0 ∨ ∃ i ∈ entered s, s.maxLength ≤ i + c.chunk) :
    s'.maxLength = 0 ∨ ∃ i ∈ entered s', s'.maxLength ≤ i + c.chunk := by
  rw [hm]
  rcases h with h | ⟨i, hi, h⟩
  · exact Or.inl h
  · right
    refine ⟨i, ?_, h⟩
    rw [mem_entered'] at hi ⊢
    obtain ⟨r, hr1, hr2⟩ := hi
    exact hr r hr1 i hr2

theorem ent_broadcast (rs : List Reader) : ∀ r ∈ rs, ∀ i, Ent r i → ∃ r' ∈ broadcast rs, Ent r' i := by
  intro r hr i hi
  exact ⟨bc r, by rw [broadcast_eq]; exact List.mem_map_of_mem hr, ent_bc r i hi⟩

theorem hres_broadcast (rs : List Reader) (n n' : Nat) (hn : n ≤ n')
    (h : ∀ r ∈ rs, ∀ res ∈ r.results, res.2.1 ≤ n) :
    ∀ r ∈ broadcast rs, ∀ res ∈ r.results, res.2.1 ≤ n' := by
  intro r hr res hres
  rw [broadcast_eq, List.mem_map] at hr
  obtain ⟨r0, hr0, rfl⟩ := hr
  rw [bc_results] at hres
  exact Nat.le_trans (h r0 hr0 res hres) hn

theorem inv1_pPublish (c : MonCfg) (hc : 0 < c.chunk) (s s' : MonSt) (hi : Inv1 c s)
    (h : step c s .pPublish = some s') : Inv1 c s' := by
  obtain ⟨hdvd, hM, hcons, hprod, hres, hent⟩ := hi
  simp only [step] at h
  split at h
  · rename_i i loc fin hpc
    rw [hpc] at hprod
    injection h with h; subst h
    cases fin
    · simp only [PInv] at hprod
      obtain ⟨h1, h2, h3, h4, h5, h6⟩ := hprod
      refine ⟨hdvd, hM, hcons, ?_, hres_broadcast _ _ _ (by simp only []; omega) hres,
        hent_mono c s _ rfl (ent_broadcast _) hent⟩
      simp only [Bool.false_eq_true, if_false]
      split
      · simp only [PInv]
        refine ⟨trivial, h4, ?_, h6⟩
        rw [h3, h2, Nat.add_mul, Nat.one_mul]
      · rename_i hlt
        simp only [PInv]
        refine ⟨trivial, trivial, ?_, h4, h6⟩
        have : c.maxChunks ≤ i + 1 := by omega
        have h7 : c.maxChunks * c.chunk ≤ (i + 1) * c.chunk := Nat.mul_le_mul_right _ this
        rw [Nat.add_mul, Nat.one_mul, ← h2, ← h3, Nat.mul_comm] at h7
        exact h7
    · simp only [PInv] at hprod
      obtain ⟨h1, h2, h3, h4, h5, h6, h7, h8⟩ := hprod
      refine ⟨hdvd, hM, hcons, ?_, hres_broadcast _ _ _ h3 hres,
        hent_mono c s _ rfl (ent_broadcast _) hent⟩
      simp only [if_true, PInv]
      exact ⟨trivial, h7, Or.inl ⟨h8, h6⟩⟩
  · rename_i loc hpc
    rw [hpc] at hprod
    injection h with h; subst h
    simp only [PInv] at hprod
    obtain ⟨h1, h2, h3, h4, h5⟩ := hprod
    refine ⟨hdvd, hM, hcons, ?_, hres_broadcast _ _ _ (by simp only []; omega) hres,
        hent_mono c s _ rfl (ent_broadcast _) hent⟩
    simp only [PInv]
    subst h2
    exact ⟨trivial, h5, Or.inr ⟨h3, h4⟩⟩
  · cases h

theorem mem_set_or {α : Type} (l : List α) (k : Nat) (a b x : α) (hk : l[k]? = some a) (hx : x ∈ l) :
    x ∈ l.set k b ∨ x = a := by
  obtain ⟨n, hn, rfl⟩ := List.getElem_of_mem hx
  by_cases hnk : k = n
  · subst hnk
    right
    rw [List.getElem?_eq_getElem hn] at hk
    exact Option.some.inj hk
  · left
    have : (l.set k b)[n]? = some l[n] := by
      rw [List.getElem?_set_ne hnk, List.getElem?_eq_getElem hn]
    exact List.mem_of_getElem? this

theorem mem_set_self' {α : Type} (l : List α) (k : Nat) (a b : α) (hk : l[k]? = some a) :
    b ∈ l.set k b := by
  have hlt : k < l.length := by
    rcases Nat.lt_or_ge k l.length with h | h
    · exact h
    · rw [List.getElem?_eq_none h] at hk; cases hk
  exact List.mem_set hlt b

theorem waitTail_cases (len : Nat) (done : Bool) (index : Nat) (r : Reader) :
    ((!done && decide (len ≤ index)) = true ∧ waitTail len done index r = { r with pc := .parked index }) ∨
    ((!done && decide (len ≤ index)) = false ∧
      waitTail len done index r =
        { r with pc := .idle, results := (index, len, decide (index < len)) :: r.results }) := by
  unfold waitTail
  split
  · left; exact ⟨by assumption, rfl⟩
  · rename_i h; right; exact ⟨Bool.eq_false_iff.mpr h, rfl⟩

theorem ent_waitTail_self (len : Nat) (done : Bool) (index : Nat) (r : Reader) :
    Ent (waitTail len done index r) index := by
  rcases waitTail_cases len done index r with ⟨_, h⟩ | ⟨_, h⟩ <;> rw [h]
  · left; rfl
  · right; right; exact ⟨_, List.mem_cons_self, rfl⟩

theorem ent_waitTail_res (len : Nat) (done : Bool) (index : Nat) (r : Reader) (i : Nat)
    (hr : ∃ res ∈ r.results, res.1 = i) : Ent (waitTail len done index r) i := by
  obtain ⟨res, h1, h2⟩ := hr
  rcases waitTail_cases len done index r with ⟨_, h⟩ | ⟨_, h⟩ <;> rw [h]
  · right; right; exact ⟨res, h1, h2⟩
  · right; right; exact ⟨res, List.mem_cons_of_mem _ h1, h2⟩

theorem res_waitTail (len : Nat) (done : Bool) (index : Nat) (r : Reader) (res : Nat × Nat × Bool)
    (h : res ∈ (waitTail len done index r).results) :
    res ∈ r.results ∨ (res = (index, len, decide (index < len)) ∧ (!done && decide (len ≤ index)) = false) := by
  rcases waitTail_cases len done index r with ⟨_, h'⟩ | ⟨h0, h'⟩ <;> rw [h'] at h
  · left; exact h
  · rcases List.mem_cons.mp h with h | h
    · right; exact ⟨h, h0⟩
    · left; exact h

/-- shape of an enabled `rWake` -/
theorem step_rWake (c : MonCfg) (s s' : MonSt) (k : Nat) (h : step c s (.rWake k) = some s') :
    ∃ r index, s.readers[k]? = some r ∧ r.pc = .woken index ∧
      s' = { s with readers := s.readers.set k (waitTail s.len s.done index r) } := by
  simp only [step] at h
  split at h
  · cases h
  · rename_i r hr
    split at h
    · rename_i index hpc
      injection h with h
      exact ⟨r, index, hr, hpc, h.symm⟩
    · cases h

/-- shape of an enabled `rEnter` -/
theorem step_rEnter (c : MonCfg) (s s' : MonSt) (k : Nat) (h : step c s (.rEnter k) = some s') :
    ∃ r index rest, s.readers[k]? = some r ∧ r.pc = .idle ∧ r.todo = index :: rest ∧
      s' = { s with
        maxLength := if (!s.done && decide (s.maxLength ≤ index)) = true then grownMax c index else s.maxLength,
        prod := if (!s.done && decide (s.maxLength ≤ index)) = true then signalProd s.prod else s.prod,
        readers := s.readers.set k (waitTail s.len s.done index { r with todo := rest }) } := by
  simp only [step] at h
  split at h
  · cases h
  · rename_i r hr
    split at h
    · rename_i index rest hpc htodo
      injection h with h
      exact ⟨r, index, rest, hr, hpc, htodo, h.symm⟩
    · cases h

theorem inv1_rWake (c : MonCfg) (s s' : MonSt) (k : Nat) (hi : Inv1 c s)
    (h : step c s (.rWake k) = some s') : Inv1 c s' := by
  obtain ⟨hdvd, hM, hcons, hprod, hres, hent⟩ := hi
  obtain ⟨r, index, hr, hpc, rfl⟩ := step_rWake c s s' k h
  have hrm : r ∈ s.readers := List.mem_of_getElem? hr
  refine ⟨hdvd, hM, hcons, hprod, ?_, hent_mono c s _ rfl ?_ hent⟩
  · intro r' hr' res hres'
    rcases List.mem_or_eq_of_mem_set hr' with hr' | rfl
    · exact hres r' hr' res hres'
    · rcases res_waitTail _ _ _ _ _ hres' with h1 | ⟨rfl, _⟩
      · exact hres r hrm res h1
      · exact Nat.le_refl _
  · intro r0 hr0 i hi
    rcases mem_set_or s.readers k r (waitTail s.len s.done index r) r0 hr hr0 with h1 | rfl
    · exact ⟨r0, h1, hi⟩
    · refine ⟨_, mem_set_self' _ _ _ _ hr, ?_⟩
      rcases hi with hi | hi | hi
      · rw [hpc] at hi; cases hi
      · rw [hpc] at hi; cases hi; exact ent_waitTail_self _ _ _ _
      · exact ent_waitTail_res _ _ _ _ _ hi

theorem pinv_signal (c : MonCfg) (len : Nat) (done : Bool) (m m' cons : Nat) (p : ProdPc)
    (hm : m ≤ m') (h : PInv c len done m cons p) : PInv c len done m' cons (signalProd p) := by
  cases p with
  | check i => exact h
  | parked i => exact ⟨h.1, h.2.1, h.2.2.1, h.2.2.2.1⟩
  | computing i j loc =>
    simp only [signalProd, PInv] at h ⊢
    exact ⟨h.1, h.2.1, h.2.2.1, h.2.2.2.1, h.2.2.2.2.1, by omega, h.2.2.2.2.2.2⟩
  | publishing i loc fin =>
    cases fin
    · simp only [signalProd, PInv] at h ⊢
      exact ⟨h.1, h.2.1, h.2.2.1, h.2.2.2.1, by omega, h.2.2.2.2.2⟩
    · simp only [signalProd, PInv] at h ⊢
      exact ⟨h.1, h.2.1, h.2.2.1, h.2.2.2.1, by omega, h.2.2.2.2.2⟩
  | finalPublish loc => exact h
  | exited => exact h

theorem inv1_rEnter (c : MonCfg) (hc : 0 < c.chunk) (s s' : MonSt) (k : Nat) (hi : Inv1 c s)
    (h : step c s (.rEnter k) = some s') : Inv1 c s' := by
  obtain ⟨hdvd, hM, hcons, hprod, hres, hent⟩ := hi
  obtain ⟨r, index, rest, hr, hpc, htodo, rfl⟩ := step_rEnter c s s' k h
  have hrm : r ∈ s.readers := List.mem_of_getElem? hr
  have hres' : ∀ r' ∈ s.readers.set k (waitTail s.len s.done index { r with todo := rest }),
      ∀ res ∈ r'.results, res.2.1 ≤ s.len := by
    intro r' hr' res hres'
    rcases List.mem_or_eq_of_mem_set hr' with hr' | rfl
    · exact hres r' hr' res hres'
    · rcases res_waitTail _ _ _ _ _ hres' with h1 | ⟨rfl, _⟩
      · exact hres r hrm res h1
      · exact Nat.le_refl _
  have hmono : ∀ r0 ∈ s.readers, ∀ i, Ent r0 i →
      ∃ r' ∈ s.readers.set k (waitTail s.len s.done index { r with todo := rest }), Ent r' i := by
    intro r0 hr0 i hi
    rcases mem_set_or s.readers k r (waitTail s.len s.done index { r with todo := rest }) r0 hr hr0 with h1 | rfl
    · exact ⟨r0, h1, hi⟩
    · refine ⟨_, mem_set_self' _ _ _ _ hr, ?_⟩
      rcases hi with hi | hi | hi
      · rw [hpc] at hi; cases hi
      · rw [hpc] at hi; cases hi
      · exact ent_waitTail_res _ _ _ _ _ hi
  by_cases hg : (!s.done && decide (s.maxLength ≤ index)) = true
  · simp only [hg, if_true]
    have hle : s.maxLength ≤ index := by simp at hg; exact hg.2
    have hge := grownMax_ge c hc index s.maxLength hdvd hM hle
    refine ⟨grownMax_dvd c index, grownMax_le_cap c index, Nat.le_trans hcons hge,
      pinv_signal c _ _ _ _ _ _ hge hprod, hres', Or.inr ⟨index, ?_, grownMax_le c index⟩⟩
    rw [mem_entered']
    exact ⟨_, mem_set_self' _ _ _ _ hr, ent_waitTail_self _ _ _ _⟩
  · simp only [hg]
    exact ⟨hdvd, hM, hcons, hprod, hres', hent_mono c s _ rfl hmono hent⟩

theorem inv1_step (c : MonCfg) (hc : 0 < c.chunk) (s s' : MonSt) (l : Label) (hi : Inv1 c s)
    (h : step c s l = some s') : Inv1 c s' := by
  cases l with
  | rEnter k => exact inv1_rEnter c hc s s' k hi h
  | rWake k => exact inv1_rWake c s s' k hi h
  | pCheck => exact inv1_pCheck c hc s s' hi h
  | pCompute => exact inv1_pCompute c s s' hi h
  | pPublish => exact inv1_pPublish c hc s s' hi h

theorem inv1_run (c : MonCfg) (hc : 0 < c.chunk) (ls : List Label) : ∀ (s s' : MonSt), Inv1 c s →
    runLabels c s ls = some s' → Inv1 c s' := by
  induction ls with
  | nil => intro s s' hi h; simp only [runLabels] at h; cases h; exact hi
  | cons l ls ih =>
    intro s s' hi h
    simp only [runLabels] at h
    split at h
    · cases h
    · rename_i s1 hs1
      exact ih s1 s' (inv1_step c hc s s1 l hi hs1) h

theorem inv1_reachable (c : MonCfg) (hc : 0 < c.chunk) (programs : List (List Nat)) (s : MonSt)
    (h : Reachable c programs s) : Inv1 c s := by
  obtain ⟨ls, h⟩ := h
  exact inv1_run c hc ls _ s (inv1_init c programs) h

/-- per-reader invariant (needs `InCapacity`) -/
def RInv (c : MonCfg) (len : Nat) (done : Bool) (m : Nat) (r : Reader) : Prop :=
  (∀ i ∈ r.todo, i < cap c) ∧
  (∀ i, r.pc = .parked i → done = false ∧ len ≤ i ∧ i < m) ∧
  (∀ i, r.pc = .woken i → i < m) ∧
  (∀ res ∈ r.results, res.2.2 = decide (res.1 < res.2.1) ∧
    (res.2.2 = false → ∃ e, e ≤ res.1 ∧ IsEndPos c e))

def Inv2 (c : MonCfg) (s : MonSt) : Prop :=
  ∀ r ∈ s.readers, RInv c s.len s.done s.maxLength r

theorem inv2_init (c : MonCfg) (programs : List (List Nat)) (hcap : InCapacity c programs) :
    Inv2 c (monInit programs) := by
  intro r hr
  simp only [monInit, List.mem_map] at hr
  obtain ⟨p, hp, rfl⟩ := hr
  refine ⟨fun i hi => hcap p hp i hi, ?_, ?_, ?_⟩
  · intro i h; cases h
  · intro i h; cases h
  · intro res h; cases h

theorem good_len (c : MonCfg) (s : MonSt) (hi : Inv1 c s) : Good c s.len := by
  have h := hi.hprod
  cases hp : s.prod with
  | check i => rw [hp] at h; exact h.2.2.2
  | parked i => rw [hp] at h; exact h.2.2.2.1
  | computing i j loc =>
    rw [hp] at h; simp only [PInv] at h
    intro k hk; exact h.2.2.2.2.2.2 k (by omega)
  | publishing i loc fin =>
    rw [hp] at h
    cases fin
    · simp only [PInv] at h
      intro k hk; exact h.2.2.2.2.2 k (by omega)
    · simp only [PInv] at h
      intro k hk; exact h.2.2.2.2.2.2.1 k (by omega)
  | finalPublish loc => rw [hp] at h; exact h.2.2.2.2
  | exited => rw [hp] at h; exact h.2.1

theorem len_le_consulted (c : MonCfg) (s : MonSt) (hi : Inv1 c s) : s.len ≤ s.consulted := by
  have h := hi.hprod
  cases hp : s.prod with
  | check i => rw [hp] at h; simp only [PInv] at h; omega
  | parked i => rw [hp] at h; simp only [PInv] at h; omega
  | computing i j loc => rw [hp] at h; simp only [PInv] at h; omega
  | publishing i loc fin =>
    rw [hp] at h
    cases fin <;> simp only [PInv] at h <;> omega
  | finalPublish loc => rw [hp] at h; simp only [PInv] at h; omega
  | exited => rw [hp] at h; simp only [PInv] at h; omega

/-- some prefix is good and at most one more position has been consulted -/
theorem consulted_good (c : MonCfg) (s : MonSt) (hi : Inv1 c s) :
    ∃ n, Good c n ∧ s.consulted ≤ n + 1 := by
  have h := hi.hprod
  cases hp : s.prod with
  | check i => rw [hp] at h; simp only [PInv] at h; exact ⟨s.len, h.2.2.2, by omega⟩
  | parked i => rw [hp] at h; simp only [PInv] at h; exact ⟨s.len, h.2.2.2.1, by omega⟩
  | computing i j loc => rw [hp] at h; simp only [PInv] at h; exact ⟨loc, h.2.2.2.2.2.2, by omega⟩
  | publishing i loc fin =>
    rw [hp] at h
    cases fin
    · simp only [PInv] at h; exact ⟨loc, h.2.2.2.2.2, by omega⟩
    · simp only [PInv] at h; exact ⟨loc, h.2.2.2.2.2.2.1, by omega⟩
  | finalPublish loc => rw [hp] at h; simp only [PInv] at h; exact ⟨s.len, h.2.2.2.2, by omega⟩
  | exited =>
    rw [hp] at h; simp only [PInv] at h
    exact ⟨s.len, h.2.1, by omega⟩

theorem done_exited (c : MonCfg) (s : MonSt) (hi : Inv1 c s) (hd : s.done = true) :
    s.prod = .exited := by
  have h := hi.hprod
  cases hp : s.prod with
  | check i => rw [hp] at h; simp only [PInv] at h; rw [hd] at h; exact absurd h.1 (by decide)
  | parked i => rw [hp] at h; simp only [PInv] at h; rw [hd] at h; exact absurd h.1 (by decide)
  | computing i j loc => rw [hp] at h; simp only [PInv] at h; rw [hd] at h; exact absurd h.1 (by decide)
  | publishing i loc fin =>
    rw [hp] at h
    cases fin <;> simp only [PInv] at h <;> rw [hd] at h <;> exact absurd h.1 (by decide)
  | finalPublish loc => rw [hp] at h; simp only [PInv] at h; rw [hd] at h; exact absurd h.1 (by decide)
  | exited => rfl

theorem done_end (c : MonCfg) (s : MonSt) (hi : Inv1 c s) (hd : s.done = true)
    (hl : s.len < cap c) : IsEndPos c s.len := by
  have h := hi.hprod
  rw [done_exited c s hi hd] at h
  simp only [PInv] at h
  rcases h.2.2 with h1 | h1
  · exact ⟨h1.1, h.2.1⟩
  · omega

theorem rinv_mono (c : MonCfg) (len : Nat) (done : Bool) (m m' : Nat) (r : Reader) (hm : m ≤ m')
    (h : RInv c len done m r) : RInv c len done m' r := by
  obtain ⟨h1, h2, h3, h4⟩ := h
  refine ⟨h1, ?_, ?_, h4⟩
  · intro i hi; have := h2 i hi; exact ⟨this.1, this.2.1, by omega⟩
  · intro i hi; have := h3 i hi; omega

theorem rinv_waitTail (c : MonCfg) (len : Nat) (done : Bool) (m index : Nat) (r : Reader)
    (h : RInv c len done m r) (hlt : done = false → index < m)
    (hend : done = true → len ≤ index → ∃ e, e ≤ index ∧ IsEndPos c e) :
    RInv c len done m (waitTail len done index r) := by
  obtain ⟨h1, h2, h3, h4⟩ := h
  rcases waitTail_cases len done index r with ⟨h0, h⟩ | ⟨h0, h⟩ <;> rw [h]
  · simp only [Bool.and_eq_true, Bool.not_eq_true', decide_eq_true_eq] at h0
    refine ⟨h1, ?_, ?_, h4⟩
    · intro i hi; cases hi; exact ⟨h0.1, h0.2, hlt h0.1⟩
    · intro i hi; cases hi
  · refine ⟨h1, ?_, ?_, ?_⟩
    · intro i hi; cases hi
    · intro i hi; cases hi
    · intro res hres
      rcases List.mem_cons.mp hres with rfl | hres
      · refine ⟨rfl, ?_⟩
        intro hf
        simp only [decide_eq_false_iff_not, Nat.not_lt] at hf
        cases hd : done
        · rw [hd] at h0; simp at h0; omega
        · exact hend hd hf
      · exact h4 res hres

theorem step_pCheck_frame (c : MonCfg) (s s' : MonSt) (h : step c s .pCheck = some s') :
    s'.len = s.len ∧ s'.done = s.done ∧ s'.maxLength = s.maxLength ∧ s'.readers = s.readers ∧
      s'.consulted = s.consulted := by
  simp only [step] at h
  split at h
  · split at h
    · injection h with h; subst h; exact ⟨rfl, rfl, rfl, rfl, rfl⟩
    · split at h <;> (injection h with h; subst h; exact ⟨rfl, rfl, rfl, rfl, rfl⟩)
  · cases h

theorem step_pCompute_frame (c : MonCfg) (s s' : MonSt) (h : step c s .pCompute = some s') :
    s'.len = s.len ∧ s'.done = s.done ∧ s'.maxLength = s.maxLength ∧ s'.readers = s.readers ∧
      s'.consulted = s.consulted + 1 := by
  simp only [step] at h
  split at h
  · split at h
    · injection h with h; subst h; exact ⟨rfl, rfl, rfl, rfl, rfl⟩
    · split at h <;> (injection h with h; subst h; exact ⟨rfl, rfl, rfl, rfl, rfl⟩)
  · cases h

/-- shape of an enabled `pPublish` -/
theorem step_pPublish (c : MonCfg) (s s' : MonSt) (h : step c s .pPublish = some s') :
    ∃ loc fin next, (s.prod = .finalPublish loc ∧ fin = true ∨ ∃ i, s.prod = .publishing i loc fin) ∧
      s' = { s with len := loc, done := fin, readers := broadcast s.readers, prod := next } := by
  simp only [step] at h
  split at h
  · rename_i i loc fin hpc
    injection h with h
    exact ⟨loc, fin, _, Or.inr ⟨i, hpc⟩, h.symm⟩
  · rename_i loc hpc
    injection h with h
    exact ⟨loc, true, _, Or.inl ⟨hpc, rfl⟩, h.symm⟩
  · cases h

theorem inv2_frame (c : MonCfg) (s s' : MonSt) (h1 : s'.len = s.len) (h2 : s'.done = s.done)
    (h3 : s'.maxLength = s.maxLength) (h4 : s'.readers = s.readers) (hi : Inv2 c s) : Inv2 c s' := by
  unfold Inv2; rw [h1, h2, h3, h4]; exact hi

theorem rinv_bc (c : MonCfg) (len len' : Nat) (done done' : Bool) (m : Nat) (r : Reader)
    (h : RInv c len done m r) : RInv c len' done' m (bc r) := by
  obtain ⟨h1, h2, h3, h4⟩ := h
  refine ⟨by rw [bc_todo]; exact h1, ?_, ?_, by rw [bc_results]; exact h4⟩
  · intro i hi
    rw [bc_pc] at hi
    split at hi
    · cases hi
    · rename_i hnp; exact absurd hi (hnp i)
  · intro i hi
    rw [bc_pc] at hi
    split at hi
    · rename_i j hj; cases hi; exact (h2 i hj).2.2
    · exact h3 i hi

theorem inv2_pPublish (c : MonCfg) (s s' : MonSt) (hi : Inv2 c s)
    (h : step c s .pPublish = some s') : Inv2 c s' := by
  obtain ⟨loc, fin, next, _, rfl⟩ := step_pPublish c s s' h
  intro r hr
  simp only [broadcast_eq, List.mem_map] at hr
  obtain ⟨r0, hr0, rfl⟩ := hr
  exact rinv_bc c _ _ _ _ _ r0 (hi r0 hr0)

theorem inv2_rWake (c : MonCfg) (s s' : MonSt) (k : Nat) (hi1 : Inv1 c s) (hi : Inv2 c s)
    (h : step c s (.rWake k) = some s') : Inv2 c s' := by
  obtain ⟨r, index, hr, hpc, rfl⟩ := step_rWake c s s' k h
  have hrm : r ∈ s.readers := List.mem_of_getElem? hr
  intro r' hr'
  rcases List.mem_or_eq_of_mem_set hr' with hr' | rfl
  · exact hi r' hr'
  · have hlt : index < s.maxLength := (hi r hrm).2.2.1 index hpc
    have hM := hi1.hM
    have hend : s.done = true → s.len ≤ index → ∃ e, e ≤ index ∧ IsEndPos c e := by
      intro hd hle
      exact ⟨s.len, hle, done_end c s hi1 hd (by omega)⟩
    exact rinv_waitTail c _ _ _ _ r (hi r hrm) (fun _ => hlt) hend

theorem inv2_rEnter (c : MonCfg) (hc : 0 < c.chunk) (s s' : MonSt) (k : Nat) (hi1 : Inv1 c s)
    (hi : Inv2 c s) (h : step c s (.rEnter k) = some s') : Inv2 c s' := by
  obtain ⟨r, index, rest, hr, hpc, htodo, rfl⟩ := step_rEnter c s s' k h
  have hrm : r ∈ s.readers := List.mem_of_getElem? hr
  have hri := hi r hrm
  have hidx : index < cap c := hri.1 index (by rw [htodo]; exact List.mem_cons_self)
  have hr0 : RInv c s.len s.done s.maxLength { r with todo := rest } :=
    ⟨fun i hi => hri.1 i (by rw [htodo]; exact List.mem_cons_of_mem _ hi), hri.2.1, hri.2.2.1, hri.2.2.2⟩
  have hend : s.done = true → s.len ≤ index → ∃ e, e ≤ index ∧ IsEndPos c e := by
    intro hd hle
    exact ⟨s.len, hle, done_end c s hi1 hd (by omega)⟩
  intro r' hr'
  by_cases hg : (!s.done && decide (s.maxLength ≤ index)) = true
  · simp only [hg, if_true] at hr' ⊢
    have hle : s.maxLength ≤ index := by simp at hg; exact hg.2
    have hge := grownMax_ge c hc index s.maxLength hi1.hdvd hi1.hM hle
    rcases List.mem_or_eq_of_mem_set hr' with hr' | rfl
    · exact rinv_mono c _ _ _ _ r' hge (hi r' hr')
    · exact rinv_waitTail c _ _ _ _ _ (rinv_mono c _ _ _ _ _ hge hr0)
        (fun _ => grownMax_gt c hc index hidx) hend
  · simp only [hg] at hr' ⊢
    rcases List.mem_or_eq_of_mem_set hr' with hr' | rfl
    · exact hi r' hr'
    · refine rinv_waitTail c _ _ _ _ _ hr0 ?_ hend
      intro hd
      rw [hd] at hg
      simp at hg
      exact hg

theorem inv2_step (c : MonCfg) (hc : 0 < c.chunk) (s s' : MonSt) (l : Label) (hi1 : Inv1 c s)
    (hi : Inv2 c s) (h : step c s l = some s') : Inv2 c s' := by
  cases l with
  | rEnter k => exact inv2_rEnter c hc s s' k hi1 hi h
  | rWake k => exact inv2_rWake c s s' k hi1 hi h
  | pCheck =>
    obtain ⟨h1, h2, h3, h4, _⟩ := step_pCheck_frame c s s' h
    exact inv2_frame c s s' h1 h2 h3 h4 hi
  | pCompute =>
    obtain ⟨h1, h2, h3, h4, _⟩ := step_pCompute_frame c s s' h
    exact inv2_frame c s s' h1 h2 h3 h4 hi
  | pPublish => exact inv2_pPublish c s s' hi h

theorem inv12_run (c : MonCfg) (hc : 0 < c.chunk) (ls : List Label) : ∀ (s s' : MonSt),
    Inv1 c s → Inv2 c s → runLabels c s ls = some s' → Inv1 c s' ∧ Inv2 c s' := by
  induction ls with
  | nil => intro s s' hi hi2 h; simp only [runLabels] at h; cases h; exact ⟨hi, hi2⟩
  | cons l ls ih =>
    intro s s' hi hi2 h
    simp only [runLabels] at h
    split at h
    · cases h
    · rename_i s1 hs1
      exact ih s1 s' (inv1_step c hc s s1 l hi hs1) (inv2_step c hc s s1 l hi hi2 hs1) h

theorem inv2_reachable (c : MonCfg) (hc : 0 < c.chunk) (programs : List (List Nat))
    (hcap : InCapacity c programs) (s : MonSt) (h : Reachable c programs s) : Inv2 c s := by
  obtain ⟨ls, h⟩ := h
  exact (inv12_run c hc ls _ s (inv1_init c programs) (inv2_init c programs hcap) h).2

def total (f : Reader → Nat) : List Reader → Nat
  | [] => 0
  | r :: rs => f r + total f rs

/-- 1 for a woken reader -/
def wk (r : Reader) : Nat := match r.pc with | .woken _ => 1 | _ => 0
def td (r : Reader) : Nat := r.todo.length

def prank : ProdPc → Nat
  | .publishing _ _ _ => 5
  | .finalPublish _ => 4
  | .check _ => 3
  | .parked _ => 2
  | .computing _ _ _ => 1
  | .exited => 0

/-- termination measure; `R` = number of readers -/
def mu (c : MonCfg) (R : Nat) (s : MonSt) : Nat :=
  (R + 2) * total td s.readers + (R + 1) * (6 * (cap c - s.consulted) + prank s.prod) +
    total wk s.readers

theorem total_set (f : Reader → Nat) (l : List Reader) (k : Nat) (a b : Reader)
    (h : l[k]? = some a) : total f (l.set k b) + f a = total f l + f b := by
  induction l generalizing k with
  | nil => cases h
  | cons x xs ih =>
    cases k with
    | zero =>
      simp only [List.getElem?_cons_zero, Option.some.injEq] at h
      subst h
      simp only [List.set_cons_zero, total]; omega
    | succ k =>
      simp only [List.getElem?_cons_succ] at h
      have := ih k h
      simp only [List.set_cons_succ, total]; omega

theorem total_le_length (f : Reader → Nat) (hf : ∀ r, f r ≤ 1) (l : List Reader) :
    total f l ≤ l.length := by
  induction l with
  | nil => exact Nat.le_refl _
  | cons x xs ih => simp only [total, List.length_cons]; have := hf x; omega

theorem total_map_eq (f : Reader → Nat) (g : Reader → Reader) (h : ∀ r, f (g r) = f r)
    (l : List Reader) : total f (l.map g) = total f l := by
  induction l with
  | nil => rfl
  | cons x xs ih => simp only [List.map_cons, total, ih, h]

theorem wk_le_one (r : Reader) : wk r ≤ 1 := by
  unfold wk; split <;> omega

theorem wk_waitTail (len : Nat) (done : Bool) (index : Nat) (r : Reader) :
    wk (waitTail len done index r) = 0 := by
  rcases waitTail_cases len done index r with ⟨_, h⟩ | ⟨_, h⟩ <;> rw [h] <;> rfl

theorem td_waitTail (len : Nat) (done : Bool) (index : Nat) (r : Reader) :
    td (waitTail len done index r) = td r := by
  rcases waitTail_cases len done index r with ⟨_, h⟩ | ⟨_, h⟩ <;> rw [h] <;> rfl

theorem prank_signal (p : ProdPc) : prank (signalProd p) ≤ prank p + 1 := by
  cases p <;> simp [signalProd, prank]

theorem mu_key (R T T' P P' W W' : Nat)
    (h : (T' < T ∧ P' ≤ P + 1 ∧ W' ≤ W) ∨ (T' = T ∧ P' = P ∧ W' < W) ∨ (T' = T ∧ P' < P ∧ W' ≤ R)) :
    (R + 2) * T' + (R + 1) * P' + W' < (R + 2) * T + (R + 1) * P + W := by
  rcases h with ⟨h1, h2, h3⟩ | ⟨h1, h2, h3⟩ | ⟨h1, h2, h3⟩
  · have a1 : (R + 2) * (T' + 1) ≤ (R + 2) * T := Nat.mul_le_mul_left _ h1
    have a2 : (R + 1) * P' ≤ (R + 1) * (P + 1) := Nat.mul_le_mul_left _ h2
    simp only [Nat.mul_add, Nat.mul_one] at a1 a2
    omega
  · subst h1 h2; omega
  · subst h1
    have a2 : (R + 1) * (P' + 1) ≤ (R + 1) * P := Nat.mul_le_mul_left _ h2
    simp only [Nat.mul_add, Nat.mul_one] at a2
    omega

theorem step_pCheck_rank (c : MonCfg) (hc : 0 < c.chunk) (s s' : MonSt)
    (h : step c s .pCheck = some s') : prank s'.prod < prank s.prod := by
  simp only [step] at h
  split at h
  · rename_i i hpc
    rw [hpc]
    split at h
    · injection h with h; subst h; simp [prank]
    · split at h
      · omega
      · injection h with h; subst h; simp [prank]
  · cases h

theorem step_pCompute_rank (c : MonCfg) (s s' : MonSt) (h : step c s .pCompute = some s') :
    prank s'.prod ≤ prank s.prod + 4 := by
  simp only [step] at h
  split at h
  · rename_i i j loc hpc
    rw [hpc]
    split at h
    · injection h with h; subst h; simp [prank]
    · split at h <;> (injection h with h; subst h; simp [prank])
  · cases h

theorem step_pPublish_rank (c : MonCfg) (s s' : MonSt) (h : step c s .pPublish = some s') :
    prank s'.prod < prank s.prod ∧ s'.consulted = s.consulted ∧ s'.readers = broadcast s.readers := by
  simp only [step] at h
  split at h
  · rename_i i loc fin hpc
    rw [hpc]
    injection h with h; subst h
    refine ⟨?_, rfl, rfl⟩
    show prank (if fin = true then ProdPc.exited
      else if i + 1 < c.maxChunks then .check (i + 1) else .finalPublish loc) < 5
    split
    · simp [prank]
    · split <;> simp [prank]
  · rename_i loc hpc
    rw [hpc]
    injection h with h; subst h
    exact ⟨by simp [prank], rfl, rfl⟩
  · cases h

theorem step_length (c : MonCfg) (s s' : MonSt) (l : Label) (h : step c s l = some s') :
    s'.readers.length = s.readers.length := by
  cases l with
  | rEnter k =>
    obtain ⟨r, index, rest, _, _, _, rfl⟩ := step_rEnter c s s' k h
    simp only [List.length_set]
  | rWake k =>
    obtain ⟨r, index, _, _, rfl⟩ := step_rWake c s s' k h
    simp only [List.length_set]
  | pCheck => rw [(step_pCheck_frame c s s' h).2.2.2.1]
  | pCompute => rw [(step_pCompute_frame c s s' h).2.2.2.1]
  | pPublish =>
    rw [(step_pPublish_rank c s s' h).2.2, broadcast_eq, List.length_map]

theorem mu_step (c : MonCfg) (hc : 0 < c.chunk) (R : Nat) (s s' : MonSt) (l : Label)
    (hi : Inv1 c s) (hR : s.readers.length = R) (h : step c s l = some s') :
    mu c R s' < mu c R s := by
  have hi' := inv1_step c hc s s' l hi h
  have hR' : s'.readers.length = R := by rw [step_length c s s' l h, hR]
  have hW' : total wk s'.readers ≤ R := by
    rw [← hR']; exact total_le_length wk wk_le_one _
  unfold mu
  apply mu_key
  cases l with
  | rEnter k =>
    left
    obtain ⟨r, index, rest, hr, hpc, htodo, rfl⟩ := step_rEnter c s s' k h
    have e1 := total_set td s.readers k r (waitTail s.len s.done index { r with todo := rest }) hr
    have e2 := total_set wk s.readers k r (waitTail s.len s.done index { r with todo := rest }) hr
    rw [td_waitTail] at e1
    rw [wk_waitTail] at e2
    have e3 : td r = td { r with todo := rest } + 1 := by simp [td, htodo]
    have e4 : wk r = 0 := by simp [wk, hpc]
    refine ⟨by simp only []; omega, ?_, by simp only []; omega⟩
    simp only []
    split
    · have := prank_signal s.prod; omega
    · omega
  | rWake k =>
    right; left
    obtain ⟨r, index, hr, hpc, rfl⟩ := step_rWake c s s' k h
    have e1 := total_set td s.readers k r (waitTail s.len s.done index r) hr
    have e2 := total_set wk s.readers k r (waitTail s.len s.done index r) hr
    rw [td_waitTail] at e1
    rw [wk_waitTail] at e2
    have e4 : wk r = 1 := by simp [wk, hpc]
    exact ⟨by simp only []; omega, rfl, by simp only []; omega⟩
  | pCheck =>
    right; right
    obtain ⟨_, _, _, h4, h5⟩ := step_pCheck_frame c s s' h
    have := step_pCheck_rank c hc s s' h
    refine ⟨by rw [h4], by rw [h5]; omega, hW'⟩
  | pCompute =>
    right; right
    obtain ⟨_, _, _, h4, h5⟩ := step_pCompute_frame c s s' h
    have h6 := step_pCompute_rank c s s' h
    have h7 := hi'.hcons
    have h8 := hi'.hM
    have h9 : prank s.prod = 1 := by
      simp only [step] at h
      split at h
      · rename_i hpc; rw [hpc]; rfl
      · cases h
    refine ⟨by rw [h4], by omega, hW'⟩
  | pPublish =>
    right; right
    obtain ⟨h1, h2, h3⟩ := step_pPublish_rank c s s' h
    refine ⟨?_, by rw [h2]; omega, hW'⟩
    rw [h3, broadcast_eq]
    exact total_map_eq td bc (fun r => by simp [td, bc_todo]) _

theorem mu_run (c : MonCfg) (hc : 0 < c.chunk) (R : Nat) (ls : List Label) : ∀ (s s' : MonSt),
    Inv1 c s → s.readers.length = R → runLabels c s ls = some s' →
    ls.length + mu c R s' ≤ mu c R s := by
  induction ls with
  | nil => intro s s' _ _ h; simp only [runLabels] at h; cases h; simp
  | cons l ls ih =>
    intro s s' hi hR h
    simp only [runLabels] at h
    split at h
    · cases h
    · rename_i s1 hs1
      have h1 := ih s1 s' (inv1_step c hc s s1 l hi hs1) (by rw [step_length c s s1 l hs1, hR]) h
      have h2 := mu_step c hc R s s1 l hi hR hs1
      simp only [List.length_cons]
      omega


theorem enabled_of (c : MonCfg) (s : MonSt) (l : Label) (h1 : l ∈ allLabels s)
    (h2 : (step c s l).isSome = true) : enabledLabels c s ≠ [] := by
  apply List.ne_nil_of_mem (a := l)
  unfold enabledLabels
  exact List.mem_filter.mpr ⟨h1, h2⟩

theorem rEnter_mem (s : MonSt) (k : Nat) (hk : k < s.readers.length) : Label.rEnter k ∈ allLabels s := by
  unfold allLabels
  apply List.mem_append_right
  exact List.mem_flatMap.mpr ⟨k, List.mem_range.mpr hk, by simp⟩

theorem rWake_mem (s : MonSt) (k : Nat) (hk : k < s.readers.length) : Label.rWake k ∈ allLabels s := by
  unfold allLabels
  apply List.mem_append_right
  exact List.mem_flatMap.mpr ⟨k, List.mem_range.mpr hk, by simp⟩


end Mon
open Mon

/-! ## The theorems -/

/-- C05 safety: every `wait(index)` that has returned gave the sequential answer:
`ok` exactly when `index` is a position of the valid digit prefix, and then the returned snapshot
is longer than `index` and contains valid digits only. -/
theorem mon_safety (c : MonCfg) (hc : 0 < c.chunk) (programs : List (List Nat))
    (hcap : InCapacity c programs) (s : MonSt) (h : Reachable c programs s) :
    ∀ r ∈ s.readers, ∀ res ∈ r.results,
      (res.2.2 = true → res.1 < res.2.1 ∧ ∀ k, k < res.2.1 → ValidUpTo c k) ∧
      (res.2.2 = false → ∃ e, e ≤ res.1 ∧ IsEndPos c e) := by
  have hi1 := inv1_reachable c hc programs s h
  have hi2 := inv2_reachable c hc programs hcap s h
  intro r hr res hres
  have h1 := hi1.hres r hr res hres
  have h2 := (hi2 r hr).2.2.2 res hres
  have hg := good_len c s hi1
  refine ⟨?_, h2.2⟩
  intro hok
  rw [h2.1] at hok
  refine ⟨of_decide_eq_true hok, ?_⟩
  intro k hk j hj
  exact hg j (by omega)

/-- what is published is a prefix of the valid digits and has been consulted -/
theorem mon_published_valid (c : MonCfg) (hc : 0 < c.chunk) (programs : List (List Nat))
    (s : MonSt) (h : Reachable c programs s) :
    s.len ≤ s.consulted ∧ ∀ k, k < s.len → ValidUpTo c k := by
  have hi1 := inv1_reachable c hc programs s h
  refine ⟨len_le_consulted c s hi1, ?_⟩
  intro k hk j hj
  exact good_len c s hi1 j (by omega)

/-- C05 no lost wake-up: the two monitor invariants.
I1: a parked producer has nothing to do (`len ≥ maxLength`).
I2: a parked reader is waiting for something the producer has been asked for
(`¬done ∧ len ≤ i < maxLength`).  Hence: a reader parked ⇒ the producer is not parked. -/
theorem mon_no_lost_wakeup (c : MonCfg) (hc : 0 < c.chunk) (programs : List (List Nat))
    (hcap : InCapacity c programs) (s : MonSt) (h : Reachable c programs s) :
    (∀ i, s.prod = .parked i → s.maxLength ≤ s.len) ∧
    (∀ r ∈ s.readers, ∀ i, r.pc = .parked i → s.done = false ∧ s.len ≤ i ∧ i < s.maxLength) ∧
    ((∃ r ∈ s.readers, ∃ i, r.pc = .parked i) → ∀ i, s.prod ≠ .parked i ∧ s.prod ≠ .exited) := by
  have hi1 := inv1_reachable c hc programs s h
  have hi2 := inv2_reachable c hc programs hcap s h
  have hI1 : ∀ i, s.prod = .parked i → s.maxLength ≤ s.len := by
    intro i hp
    have := hi1.hprod
    rw [hp] at this
    exact this.2.2.2.2
  have hI2 : ∀ r ∈ s.readers, ∀ i, r.pc = .parked i → s.done = false ∧ s.len ≤ i ∧ i < s.maxLength :=
    fun r hr i hp => (hi2 r hr).2.1 i hp
  refine ⟨hI1, hI2, ?_⟩
  rintro ⟨r, hr, i, hp⟩ j
  have h2 := hI2 r hr i hp
  constructor
  · intro hpp
    have := hI1 j hpp
    omega
  · intro hpe
    have := hi1.hprod
    rw [hpe] at this
    have hd : s.done = true := this.1
    rw [h2.1] at hd
    cases hd

/-- C05 deadlock freedom: while any reader has work, some transition is enabled -/
theorem mon_deadlock_free (c : MonCfg) (hc : 0 < c.chunk) (programs : List (List Nat))
    (hcap : InCapacity c programs) (s : MonSt) (h : Reachable c programs s)
    (hp : pending s = true) : enabledLabels c s ≠ [] := by
  have hi1 := inv1_reachable c hc programs s h
  have hi2 := inv2_reachable c hc programs hcap s h
  unfold pending at hp
  rw [List.any_eq_true] at hp
  obtain ⟨r, hr, hpr⟩ := hp
  obtain ⟨k, hk, hkr⟩ := List.getElem_of_mem hr
  have hk' : s.readers[k]? = some r := by rw [List.getElem?_eq_getElem hk, hkr]
  cases hpc : r.pc with
  | idle =>
    rw [hpc] at hpr
    cases htodo : r.todo with
    | nil => rw [htodo] at hpr; simp at hpr
    | cons index rest =>
      apply enabled_of c s (.rEnter k) (rEnter_mem s k hk)
      simp only [step, hk', hpc, htodo, Option.isSome_some]
  | woken i =>
    apply enabled_of c s (.rWake k) (rWake_mem s k hk)
    simp only [step, hk', hpc, Option.isSome_some]
  | parked i =>
    have h2 := (hi2 r hr).2.1 i hpc
    have hpi := hi1.hprod
    cases hpp : s.prod with
    | check j =>
      apply enabled_of c s .pCheck (by simp [allLabels])
      simp only [step, hpp]
      split
      · rfl
      · split <;> rfl
    | parked j =>
      rw [hpp] at hpi
      have := hpi.2.2.2.2
      omega
    | computing j1 j2 loc =>
      apply enabled_of c s .pCompute (by simp [allLabels])
      simp only [step, hpp]
      split
      · rfl
      · split <;> rfl
    | publishing j loc fin =>
      apply enabled_of c s .pPublish (by simp [allLabels])
      simp only [step, hpp, Option.isSome_some]
    | finalPublish loc =>
      apply enabled_of c s .pPublish (by simp [allLabels])
      simp only [step, hpp, Option.isSome_some]
    | exited =>
      rw [hpp] at hpi
      have hd : s.done = true := hpi.1
      rw [h2.1] at hd
      cases hd

/-- C05 termination under ANY scheduler: run length is bounded (so no fairness assumption is
needed); together with `mon_deadlock_free` every maximal execution ends with all calls returned. -/
theorem mon_terminates (c : MonCfg) (hc : 0 < c.chunk) (programs : List (List Nat))
    (hcap : InCapacity c programs) :
    ∃ N : Nat, ∀ ls s, runLabels c (monInit programs) ls = some s → ls.length ≤ N := by
  have _ := hcap
  refine ⟨mu c programs.length (monInit programs), ?_⟩
  intro ls s h
  have := mu_run c hc programs.length ls _ s (inv1_init c programs) (by simp [monInit]) h
  omega

/-- C06: only the producer's compute step consults the source (never a reader, never concurrently:
the producer is a single sequential thread), one position per step, in order -/
theorem consult_single (c : MonCfg) (s s' : MonSt) (l : Label) (h : step c s l = some s') :
    (l ≠ .pCompute → s'.consulted = s.consulted) ∧
    (l = .pCompute → s'.consulted = s.consulted + 1) := by
  cases l with
  | rEnter k =>
    obtain ⟨r, index, rest, _, _, _, rfl⟩ := step_rEnter c s s' k h
    exact ⟨fun _ => rfl, fun h => by cases h⟩
  | rWake k =>
    obtain ⟨r, index, _, _, rfl⟩ := step_rWake c s s' k h
    exact ⟨fun _ => rfl, fun h => by cases h⟩
  | pCheck =>
    exact ⟨fun _ => (step_pCheck_frame c s s' h).2.2.2.2, fun h => by cases h⟩
  | pCompute =>
    exact ⟨fun h => absurd rfl h, fun _ => (step_pCompute_frame c s s' h).2.2.2.2⟩
  | pPublish =>
    obtain ⟨loc, fin, next, _, rfl⟩ := step_pPublish c s s' h
    exact ⟨fun _ => rfl, fun h => by cases h⟩

/-- C06: nothing is consulted after the source signalled the end -/
theorem consult_stops (c : MonCfg) (hc : 0 < c.chunk) (programs : List (List Nat))
    (s : MonSt) (h : Reachable c programs s) (e : Nat) (he : IsEndPos c e) :
    s.consulted ≤ e + 1 := by
  have hi1 := inv1_reachable c hc programs s h
  obtain ⟨n, hg, hn⟩ := consulted_good c s hi1
  rcases Nat.lt_or_ge e n with hlt | hge
  · have := hg e hlt
    rw [he.1] at this
    cases this
  · omega

/-- C06 bounded read-ahead: consulted positions never exceed the demand `maxLength`, which is a
multiple of the block size no more than one block beyond the highest index asked for. -/
theorem consult_bound (c : MonCfg) (hc : 0 < c.chunk) (programs : List (List Nat))
    (s : MonSt) (h : Reachable c programs s) :
    s.consulted ≤ s.maxLength ∧
    (s.maxLength = 0 ∨ ∃ i ∈ entered s, s.maxLength ≤ i + c.chunk) := by
  have hi1 := inv1_reachable c hc programs s h
  exact ⟨hi1.hcons, hi1.hent⟩

/-- C06: before any `wait` call nothing is consulted (construction is lazy) -/
theorem consult_lazy (c : MonCfg) (hc : 0 < c.chunk) (programs : List (List Nat))
    (s : MonSt) (h : Reachable c programs s) (hnone : entered s = []) : s.consulted = 0 := by
  have hi1 := inv1_reachable c hc programs s h
  have h1 := hi1.hcons
  rcases hi1.hent with h2 | ⟨i, hi, _⟩
  · omega
  · rw [hnone] at hi; cases hi

/-- C05 disjoint access: the producer writes its local slice only at indices ≥ the published
length, while every snapshot handed to a reader is no longer than the published length. -/
theorem mon_disjoint_access (c : MonCfg) (hc : 0 < c.chunk) (programs : List (List Nat))
    (s : MonSt) (h : Reachable c programs s) :
    (∀ i j loc, s.prod = .computing i j loc → s.len ≤ loc) ∧
    (∀ r ∈ s.readers, ∀ res ∈ r.results, res.2.1 ≤ s.len) := by
  have hi1 := inv1_reachable c hc programs s h
  refine ⟨?_, hi1.hres⟩
  intro i j loc hp
  have := hi1.hprod
  rw [hp] at this
  simp only [PInv] at this
  omega

end Sqroot.Proofs

/-
Lemmas for C05 (protocol level) and C06 (lazy, in order, once, bounded read-ahead) about the
monitor transition system of `Model/Monitor.lean`. All statements are for an arbitrary number of
reader threads running arbitrary finite programs and for every interleaving (every label
sequence).
-/
import Sqroot.Model.Monitor
namespace Sqroot.Proofs
open Sqroot.Model

/-- `e` is the position of the first end marker of the source -/
def IsEndPos (c : MonCfg) (e : Nat) : Prop :=
  c.endTest (c.src e) = true ∧ ∀ k, k < e → c.endTest (c.src k) = false

/-- positions `0..k` all hold digits (no end marker up to and including `k`) -/
def ValidUpTo (c : MonCfg) (k : Nat) : Prop := ∀ j, j ≤ k → c.endTest (c.src j) = false

/-- every requested index fits the memoizer's capacity `chunk * maxChunks`
(in Go: `index ≤ MaxInt − 8`) -/
def InCapacity (c : MonCfg) (programs : List (List Nat)) : Prop :=
  ∀ p ∈ programs, ∀ i ∈ p, i < c.chunk * c.maxChunks

/-- indices whose `wait` call has been entered so far -/
def entered (s : MonSt) : List Nat :=
  s.readers.flatMap fun r =>
    (match r.pc with | .idle => [] | .parked i => [i] | .woken i => [i]) ++ r.results.map (·.1)

/-- C05 safety: every `wait(index)` that has returned gave the sequential answer:
`ok` exactly when `index` is a position of the valid digit prefix, and then the returned snapshot
is longer than `index` and contains valid digits only. -/
theorem mon_safety (c : MonCfg) (hc : 0 < c.chunk) (programs : List (List Nat))
    (hcap : InCapacity c programs) (s : MonSt) (h : Reachable c programs s) :
    ∀ r ∈ s.readers, ∀ res ∈ r.results,
      (res.2.2 = true → res.1 < res.2.1 ∧ ∀ k, k < res.2.1 → ValidUpTo c k) ∧
      (res.2.2 = false → ∃ e, e ≤ res.1 ∧ IsEndPos c e) := by
  sorry

/-- what is published is a prefix of the valid digits and has been consulted -/
theorem mon_published_valid (c : MonCfg) (hc : 0 < c.chunk) (programs : List (List Nat))
    (s : MonSt) (h : Reachable c programs s) :
    s.len ≤ s.consulted ∧ ∀ k, k < s.len → ValidUpTo c k := by
  sorry

/-- C05 no lost wake-up: the two monitor invariants.
I1: a parked producer has nothing to do (`len ≥ maxLength`).
I2: a parked reader is waiting for something the producer has been asked for
(`¬done ∧ len ≤ i < maxLength`).  Hence: a reader parked ⇒ the producer is not parked. -/
theorem mon_no_lost_wakeup (c : MonCfg) (hc : 0 < c.chunk) (programs : List (List Nat))
    (hcap : InCapacity c programs) (s : MonSt) (h : Reachable c programs s) :
    (∀ i, s.prod = .parked i → s.maxLength ≤ s.len) ∧
    (∀ r ∈ s.readers, ∀ i, r.pc = .parked i → s.done = false ∧ s.len ≤ i ∧ i < s.maxLength) ∧
    ((∃ r ∈ s.readers, ∃ i, r.pc = .parked i) → ∀ i, s.prod ≠ .parked i ∧ s.prod ≠ .exited) := by
  sorry

/-- C05 deadlock freedom: while any reader has work, some transition is enabled -/
theorem mon_deadlock_free (c : MonCfg) (hc : 0 < c.chunk) (programs : List (List Nat))
    (hcap : InCapacity c programs) (s : MonSt) (h : Reachable c programs s)
    (hp : pending s = true) : enabledLabels c s ≠ [] := by
  sorry

/-- C05 termination under ANY scheduler: run length is bounded (so no fairness assumption is
needed); together with `mon_deadlock_free` every maximal execution ends with all calls returned. -/
theorem mon_terminates (c : MonCfg) (hc : 0 < c.chunk) (programs : List (List Nat))
    (hcap : InCapacity c programs) :
    ∃ N : Nat, ∀ ls s, runLabels c (monInit programs) ls = some s → ls.length ≤ N := by
  sorry

/-- C06: only the producer's compute step consults the source (never a reader, never concurrently:
the producer is a single sequential thread), one position per step, in order -/
theorem consult_single (c : MonCfg) (s s' : MonSt) (l : Label) (h : step c s l = some s') :
    (l ≠ .pCompute → s'.consulted = s.consulted) ∧
    (l = .pCompute → s'.consulted = s.consulted + 1) := by
  sorry

/-- C06: nothing is consulted after the source signalled the end -/
theorem consult_stops (c : MonCfg) (hc : 0 < c.chunk) (programs : List (List Nat))
    (s : MonSt) (h : Reachable c programs s) (e : Nat) (he : IsEndPos c e) :
    s.consulted ≤ e + 1 := by
  sorry

/-- C06 bounded read-ahead: consulted positions never exceed the demand `maxLength`, which is a
multiple of the block size no more than one block beyond the highest index asked for. -/
theorem consult_bound (c : MonCfg) (hc : 0 < c.chunk) (programs : List (List Nat))
    (s : MonSt) (h : Reachable c programs s) :
    s.consulted ≤ s.maxLength ∧
    (s.maxLength = 0 ∨ ∃ i ∈ entered s, s.maxLength ≤ i + c.chunk) := by
  sorry

/-- C06: before any `wait` call nothing is consulted (construction is lazy) -/
theorem consult_lazy (c : MonCfg) (hc : 0 < c.chunk) (programs : List (List Nat))
    (s : MonSt) (h : Reachable c programs s) (hnone : entered s = []) : s.consulted = 0 := by
  sorry

/-- C05 disjoint access: the producer writes its local slice only at indices ≥ the published
length, while every snapshot handed to a reader is no longer than the published length. -/
theorem mon_disjoint_access (c : MonCfg) (hc : 0 < c.chunk) (programs : List (List Nat))
    (s : MonSt) (h : Reachable c programs s) :
    (∀ i j loc, s.prod = .computing i j loc → s.len ≤ loc) ∧
    (∀ r ∈ s.readers, ∀ res ∈ r.results, res.2.1 ≤ s.len) := by
  sorry

end Sqroot.Proofs
